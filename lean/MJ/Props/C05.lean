import MJ.Proofs.Bal
import MJ.Proofs.BalFrame
import MJ.Proofs.Nested
import MJ.Proofs.BalGen
import MJ.Proofs.BalPatch
import MJ.Proofs.Ops
import MJ.Proofs.OpsBal
import MJ.Model.OpsArms
import MJ.Proofs.Extends
import MJ.Proofs.BalExpr
import MJ.Gen.Tables
/-!
# C05 — scoped constructs restore scope, capture and escape state on every path

The theorems are about the verified certificate checker `MJ.Bal.checkCert` of
`MJ/Model/Bal.lean`; the check executes it (through `drive_c05`) on every instruction stream the
real compiler produces for the repository's templates and for an exhaustive enumeration of
nestings (translation validation).  The code generator itself is *not* modelled: the guarantee
for a concrete template is "its streams were accepted by the verified checker", not a proof about
`codegen.rs`.
-/
namespace MJ.C05
open MJ.Bal

/-- What an accepted certificate guarantees for a stream: from every region entry (pc 0 and every
macro body), in EVERY reachable state of the abstract machine — all control-flow paths, all
iteration counts, all recursion depths of `loop(...)` — the next instruction neither pops a frame /
capture / auto-escape entry the region did not push nor a frame of the wrong kind, and whenever the
region is left (end of stream, `Return`) frames, capture depth and auto-escape depth are exactly
those of the entry. -/
def Balanced (code : Code) : Prop :=
  ∀ e ∈ entries code, ∀ s, Reach code (initAt e) s →
    step code s ≠ .stuck ∧
    (step code s = .exit → s.frames = [] ∧ s.caps = 0 ∧ s.escs = 0)

/-- soundness of the certificate checker, as a statement (the property at full strength, `C05_full`,
and the final theorem `C05_main` are at the end of this file) -/
def CheckerSound : Prop :=
  ∀ (code : Code) (cert : Cert), checkCert code cert = true → Balanced code

/-- soundness of the certificate checker -/
theorem checkCert_sound : CheckerSound := by
  intro code cert hc e he s hreach
  have hinv := reach_inv hc (init_inv hc he) hreach
  have := step_sound hc s hinv
  exact ⟨this.1, this.2.1⟩

/-- the certificate proposed by the untrusted inference is checked by the verified checker at run
time: `validate` is what `drive_c05` computes for every real stream -/
theorem inferCert_checked (code : Code) (h : validate code = true) : Balanced code :=
  checkCert_sound code (inferCert code) h

/-- Path independence of the output target: in the outermost activation of a region (no pending
`loop(...)` recursion), two runs that reach the same pc have the same frames, the same capture depth
and the same auto-escape depth — those the certificate records for that pc.  In particular the
text after a construct (`EmitRaw` at that pc) is written at the same capture depth no matter which
path was taken through the construct (`break`, `continue`, empty iteration, else branch). -/
theorem text_after_reaches_output {code : Code} {cert : Cert} (hc : checkCert code cert = true)
    {e : Nat} (he : e ∈ entries code) {s : VmState} (hr : Reach code (initAt e) s)
    (hn : noReturn s.frames = true) :
    ∃ A, look cert s.pc = some A ∧
      s.frames = A.frames.map toR ∧ s.caps = A.caps ∧ s.escs = A.escs := by
  obtain ⟨A, hA, hrel⟩ := reach_inv hc (init_inv hc he) hr
  exact ⟨A, hA, hrel.outermost hn⟩

theorem same_pc_same_target {code : Code} {cert : Cert} (hc : checkCert code cert = true)
    {e : Nat} (he : e ∈ entries code) {s₁ s₂ : VmState}
    (h₁ : Reach code (initAt e) s₁) (h₂ : Reach code (initAt e) s₂)
    (n₁ : noReturn s₁.frames = true) (n₂ : noReturn s₂.frames = true) (hpc : s₁.pc = s₂.pc) :
    s₁.caps = s₂.caps ∧ s₁.frames = s₂.frames ∧ s₁.escs = s₂.escs := by
  obtain ⟨A, hA, f1, c1, e1⟩ := text_after_reaches_output hc he h₁ n₁
  obtain ⟨B, hB, f2, c2, e2⟩ := text_after_reaches_output hc he h₂ n₂
  rw [hpc, hB] at hA
  cases hA
  exact ⟨c1.trans c2.symm, f1.trans f2.symm, e1.trans e2.symm⟩

/-! ## The hypotheses are satisfiable; the checker is not vacuous -/

/-- `{% for %}{% with %}{% if %}{% break %}{% endif %}{% endwith %}{% endfor %}` as compiled
with the scope clean-up in front of the jump -/
def goodBreak : Code := #[
  .pushLoop true false, .iterate 8, .pushWith, .jumpIfFalse 6,
  .popFrame, .jump 8,                      -- break: leave the `with` scope, then jump
  .popFrame, .jump 1, .popLoopFrame, .other]

/-- the same with `break` compiled to a bare jump -/
def bareBreak : Code := #[
  .pushLoop true false, .iterate 8, .pushWith, .jumpIfFalse 6,
  .other, .jump 8,
  .popFrame, .jump 1, .popLoopFrame, .other]

/-- recursive loop with the recursion inside a `with` and inside a capture -/
def recursive : Code := #[
  .pushLoop true true, .iterate 10, .pushWith, .fastRecurse, .beginCapture, .callFunction,
  .endCapture, .popFrame, .jump 1, .other, .popLoopFrame, .pushDidNotIterate]

/-- a macro body (entry 1) with a filter block; the main region jumps over it -/
def withMacro : Code := #[
  .jump 6, .beginCapture, .pushAutoEscape, .popAutoEscape, .endCapture, .ret,
  .other, .buildMacro 1, .other]

example : validate goodBreak = true := by decide
example : validate recursive = false := by decide  -- PushDidNotIterate after the loop is gone
example : validate withMacro = true := by decide
example : entries withMacro = [0, 1] := by decide

example : Balanced goodBreak := inferCert_checked _ (by decide)

/-- the checker rejects the bare jump … -/
theorem bareBreak_rejected : validate bareBreak = false := by decide

/-- … and rightly so: the machine really gets stuck (`PopLoopFrame` finds the `with` frame) -/
theorem bareBreak_gets_stuck : ¬ Balanced bareBreak := by
  intro h
  have hr : Reach bareBreak (initAt 0)
      ⟨8, [.withF, .loopF true none none], 0, 0⟩ := by
    have r0 : Reach bareBreak (initAt 0) (initAt 0) := .refl _
    have r1 : Reach bareBreak (initAt 0) ⟨1, [.loopF true none none], 0, 0⟩ :=
      .tail r0 (l := [⟨1, [.loopF true none none], 0, 0⟩]) (by decide) (by simp)
    have r2 : Reach bareBreak (initAt 0) ⟨2, [.loopF true none none], 0, 0⟩ :=
      .tail r1 (l := [⟨2, [.loopF true none none], 0, 0⟩, ⟨8, [.loopF true none none], 0, 0⟩])
        (by decide) (by simp)
    have r3 : Reach bareBreak (initAt 0) ⟨3, [.withF, .loopF true none none], 0, 0⟩ :=
      .tail r2 (l := [⟨3, [.withF, .loopF true none none], 0, 0⟩]) (by decide) (by simp)
    have r4 : Reach bareBreak (initAt 0) ⟨4, [.withF, .loopF true none none], 0, 0⟩ :=
      .tail r3 (l := [⟨4, [.withF, .loopF true none none], 0, 0⟩, ⟨6, [.withF, .loopF true none none], 0, 0⟩])
        (by decide) (by simp)
    have r5 : Reach bareBreak (initAt 0) ⟨5, [.withF, .loopF true none none], 0, 0⟩ :=
      .tail r4 (l := [⟨5, [.withF, .loopF true none none], 0, 0⟩]) (by decide) (by simp)
    exact .tail r5 (l := [⟨8, [.withF, .loopF true none none], 0, 0⟩]) (by decide) (by simp)
  exact (h 0 (by decide) _ hr).1 (by decide)

/-! ## A certified stream leaves its caller's stacks alone — wherever it stops -/

/-- `certified_run_keeps_callers_stacks`: the abstract machine started ON TOP of arbitrary stacks of a
caller (`F0`: `with` frames and loop frames of other instruction streams, `c0` open captures, `e0`
auto-escape entries) instead of on empty ones.  For a stream with an accepted certificate, in EVERY
state it can reach — i.e. wherever a nested evaluation (block, `super()`, include, macro body, call
block) is stopped by a failing instruction — the caller's frames are still there underneath, in
order and untouched, with only frames of the stream's own on top, at least the caller's captures and
auto-escape entries are open, and the next instruction does not pop any of the caller's; when the
stream is left normally exactly the caller's stacks remain.  These are the hypotheses `FramesOnTop`
and `BalancedOnOk` under which `nested_restores` is proved, for every program counter. -/
theorem certified_run_keeps_callers_stacks {code : Code} {cert : Cert} (hc : checkCert code cert = true)
    {e : Nat} (he : e ∈ entries code) {F0 : List RFrame} (hF : ∀ f ∈ F0, Foreign f) (c0 e0 : Nat)
    {t : VmState} (hr : Reach code ⟨e, F0, c0, e0⟩ t) :
    ∃ own k m, t.frames = own ++ F0 ∧ t.caps = k + c0 ∧ t.escs = m + e0 ∧
      step code t ≠ .stuck ∧
      (∀ l, step code t = .next l → ∀ u ∈ l, ∃ own', u.frames = own' ++ F0 ∧ c0 ≤ u.caps ∧ e0 ≤ u.escs) ∧
      (step code t = .exit → own = [] ∧ k = 0 ∧ m = 0) := by
  have h0 : (⟨e, F0, c0, e0⟩ : VmState) = lift F0 c0 e0 (initAt e) := by simp [lift, initAt]
  rw [h0] at hr
  obtain ⟨rel, hrel, rfl⟩ := reach_lift hc he hF c0 e0 hr
  have hs := step_sound hc rel (reach_inv hc (init_inv hc he) hrel)
  have hl := step_lift hF c0 e0 rel hs.1
  refine ⟨rel.frames, rel.caps, rel.escs, rfl, rfl, rfl, ?_, ?_, ?_⟩
  · rw [hl]; cases h : step code rel with
    | stuck => exact absurd h hs.1
    | exit => simp [Outcome.lift]
    | next l => simp [Outcome.lift]
  · intro l hst u hu
    rw [hl] at hst
    cases h : step code rel with
    | stuck => exact absurd h hs.1
    | exit => simp [h, Outcome.lift] at hst
    | next l' =>
      simp only [h, Outcome.lift, Outcome.next.injEq] at hst
      subst hst
      obtain ⟨r', _, rfl⟩ := List.mem_map.mp hu
      exact ⟨r'.frames, rfl, by simp [lift], by simp [lift]⟩
  · intro hex
    rw [hl] at hex
    cases h : step code rel with
    | stuck => exact absurd h hs.1
    | exit => exact hs.2.1 h
    | next l => simp [h, Outcome.lift] at hex

/-- non-vacuity: `goodBreak` on top of a caller with a loop frame, a `with` frame and two open
captures; the state inside the `with` of the loop body is reachable -/
example : ∃ t, Reach goodBreak ⟨0, [.loopF true none none, .withF], 2, 0⟩ t ∧
    t.frames = [.withF, .loopF true none none] ++ [.loopF true none none, .withF] ∧ t.caps = 2 := by
  have r0 : Reach goodBreak ⟨0, [.loopF true none none, .withF], 2, 0⟩ ⟨0, [.loopF true none none, .withF], 2, 0⟩ := .refl _
  have r1 : Reach goodBreak ⟨0, [.loopF true none none, .withF], 2, 0⟩
      ⟨1, [.loopF true none none, .loopF true none none, .withF], 2, 0⟩ :=
    .tail r0 (l := [⟨1, [.loopF true none none, .loopF true none none, .withF], 2, 0⟩]) (by decide) (by simp)
  have r2 : Reach goodBreak ⟨0, [.loopF true none none, .withF], 2, 0⟩
      ⟨2, [.loopF true none none, .loopF true none none, .withF], 2, 0⟩ :=
    .tail r1 (l := [⟨2, [.loopF true none none, .loopF true none none, .withF], 2, 0⟩,
      ⟨8, [.loopF true none none, .loopF true none none, .withF], 2, 0⟩]) (by decide) (by simp)
  have r3 : Reach goodBreak ⟨0, [.loopF true none none, .withF], 2, 0⟩
      ⟨3, [.withF, .loopF true none none, .loopF true none none, .withF], 2, 0⟩ :=
    .tail r2 (l := [⟨3, [.withF, .loopF true none none, .loopF true none none, .withF], 2, 0⟩]) (by decide) (by simp)
  exact ⟨_, r3, rfl, rfl⟩

/-! ## Nested evaluations give the execution state back on success AND on failure -/

open MJ.Nested in
/-- `nested_restores` (model `MJ/Model/Nested.lean` of `with_execution_state`, `eval_macro`
(= `Macro::call`, `State::call_macro`), `call_block` (= `CallBlock`, `State::render_block`),
`perform_super`, `perform_include`): for every wrapper and for BOTH outcomes of the nested run —
the statements do not mention the result — frames, recursion depth, instructions, auto-escape mode,
current block, block table and loaded templates afterwards are what they were before.  Macro calls
and `render_block` write into an `Output` of their own, so the caller's capture stack is untouched;
the instruction-driven wrappers share the `Output` and leave its capture depth as it was when the
nested run ends normally.

Hypotheses on the nested run (an arbitrary function otherwise): it only pushes frames on top of
the ones it found — what `checkCert_sound` gives for a certified stream — (an included template may
also set the closure of the frame it starts on), nested includes give their recursion cost back,
`LoadBlocks` only lets block stacks grow (macro calls) / does not occur (blocks, `super()`), and a
normal exit leaves the capture depth alone (`checkCert_sound` again).  Nothing is assumed about
what the nested run does to the auto-escape mode, the instructions, the current block or — for macro
calls — the frame stack and the depth. -/
def NestedRestores : Prop :=
    (∀ instr cost limit base closureF body, BlocksGrow body → ∀ s o,
      Same (macroCall instr cost limit base closureF body s o).2.1 s ∧
      (macroCall instr cost limit base closureF body s o).2.2 = o) ∧
    (∀ name limit required newFrame body, FramesOnTop body → KeepsOuter body → NoLoad body → ∀ s o,
      Same (renderBlock name limit required newFrame body s o).2.1 s ∧
      (renderBlock name limit required newFrame body s o).2.2 = o) ∧
    (∀ name limit required newFrame body, FramesOnTop body → KeepsOuter body → NoLoad body → ∀ s o,
      Same (callBlock name limit required newFrame body s o).2.1 s ∧
      (BalancedOnOk body → (callBlock name limit required newFrame body s o).1 = .ok →
        (callBlock name limit required newFrame body s o).2.2.caps = o.caps)) ∧
    (∀ limit capture newFrame body, FramesOnTop body → KeepsOuter body → NoLoad body → ∀ s o,
      Same (performSuper limit capture newFrame body s o).2.1 s) ∧
    (∀ instr tmplAe cost limit newBlocks body, TopClosureOnly body → KeepsOuter body → ∀ s o,
      Same (performInclude instr tmplAe cost limit newBlocks body s o).2.1 s ∧
      (BalancedOnOk body → (performInclude instr tmplAe cost limit newBlocks body s o).1 = .ok →
        (performInclude instr tmplAe cost limit newBlocks body s o).2.2.caps = o.caps))

open MJ.Nested in
theorem nested_restores : NestedRestores :=
  ⟨fun instr cost limit base closureF body hb s o =>
      macroCall_restores instr cost limit base closureF body hb s o,
   fun name limit required newFrame body hf ho hn s o =>
      renderBlock_restores name limit required newFrame body hf ho hn s o,
   fun name limit required newFrame body hf ho hn s o =>
      ⟨callBlock_restores name limit required newFrame body hf ho hn s o,
       fun hc hok => callBlock_caps name limit required newFrame body hc s o hok⟩,
   fun limit capture newFrame body hf ho hn s o =>
      performSuper_restores limit capture newFrame body hf ho hn s o,
   fun instr tmplAe cost limit newBlocks body hf ho s o =>
      ⟨performInclude_restores instr tmplAe cost limit newBlocks body hf ho s o,
       fun hc hok => performInclude_caps instr tmplAe cost limit newBlocks body hc s o hok⟩⟩

/-- the hypotheses are satisfiable by a body that really does something and fails: it pushes two
frames, switches auto-escaping, changes instructions and current block, opens a capture — and
returns `Err` -/
example : ∃ body : MJ.Nested.Body,
    MJ.Nested.FramesOnTop body ∧ MJ.Nested.KeepsOuter body ∧ MJ.Nested.NoLoad body ∧
    MJ.Nested.BlocksGrow body ∧ (∀ s o, (body s o).1 = .err) ∧
    (∀ s o, (body s o).2.1.frames ≠ s.frames) :=
  ⟨fun s o => (.err, { s with frames := ⟨7, none⟩ :: ⟨8, some 1⟩ :: s.frames, autoEscape := s.autoEscape + 1,
                              instructions := 99, currentBlock := some 5 }, ⟨o.caps + 1⟩),
   fun s _ => ⟨[⟨7, none⟩, ⟨8, some 1⟩], rfl⟩, fun _ _ => rfl, fun _ _ => ⟨rfl, rfl⟩,
   fun s _ n b h => ⟨b, h, by simp⟩, fun _ _ => rfl,
   fun s _ h => by
     have := congrArg List.length h
     simp at this
     omega⟩

/-- the model tells the two apart: with the nested run of `eval_macro` wrapped in `ok!(..)` (early
return on `Err`, before the caller's context is swapped back) the caller's frames are NOT restored -/
theorem earlyReturn_is_not_a_restore :
    ∃ (body : MJ.Nested.Body) (s : MJ.Nested.St),
      (MJ.Nested.evalMacroEarlyReturn 7 4 500 ⟨100, none⟩ ⟨101, none⟩ body s).1 = .err ∧
      ¬ MJ.Nested.Same (MJ.Nested.evalMacroEarlyReturn 7 4 500 ⟨100, none⟩ ⟨101, none⟩ body s).2 s :=
  MJ.Nested.earlyReturn_does_not_restore

/-! ## The include statement on every way through it (closure register included) -/

/-- `include_statement_restores`: the whole `perform_include` — candidate loop included — hands back
frames *with their closure attachment* (`Frame::closure`, the register macros declared in the frame
are written through), depth, instructions, escape mode, current block, block table and loaded
templates, whether a template was found and evaluated (successfully or not), a lookup failed, or
nothing was found and the statement did nothing (`ignore missing`, empty list). -/
theorem include_statement_restores (cost limit : Nat) (ignoreMissing : Bool)
    (choices : List MJ.Nested.Choice) (h : ∀ c ∈ choices, MJ.Nested.ChoiceOk c)
    (tried : Nat) (s : MJ.Nested.St) (o : MJ.Nested.Out) :
    MJ.Nested.Same (MJ.Nested.includeStmt cost limit ignoreMissing choices tried s o).2.1 s :=
  MJ.Nested.includeStmt_restores cost limit ignoreMissing choices h tried s o

/-- on the ways through the statement that evaluate no template nothing at all is touched -/
theorem include_noop_untouched (cost limit : Nat) (ignoreMissing : Bool)
    (choices : List MJ.Nested.Choice)
    (h : ∀ c ∈ choices, ∀ i a nb b, c ≠ MJ.Nested.Choice.found i a nb b)
    (tried : Nat) (s : MJ.Nested.St) (o : MJ.Nested.Out) :
    (MJ.Nested.includeStmt cost limit ignoreMissing choices tried s o).2.1 = s ∧
    (MJ.Nested.includeStmt cost limit ignoreMissing choices tried s o).2.2 = o :=
  MJ.Nested.includeStmt_noop cost limit ignoreMissing choices h tried s o

example : ∀ c ∈ [MJ.Nested.Choice.missing, .found 3 1 (fun _ => none)
      (fun s o => (.err, { s with frames := ⟨9, none⟩ :: MJ.Nested.setTopClosure (some 4) s.frames,
                                  autoEscape := 7 }, ⟨o.caps + 2⟩))],
    MJ.Nested.ChoiceOk c := by
  intro c hc
  simp only [List.mem_cons, List.not_mem_nil, or_false] at hc
  rcases hc with rfl | rfl
  · trivial
  · exact ⟨fun s _ => ⟨[⟨9, none⟩], some 4, rfl⟩, fun _ _ => rfl⟩

/-- the model tells the variants apart: with `take_closure()` hoisted in front of the candidate
loop (and `reset_closure` left behind the evaluation) a forgiven include that finds nothing
succeeds with the frame's closure detached, while the real statement restores it -/
theorem hoisted_take_closure_is_not_a_restore :
    ∃ (s : MJ.Nested.St) (o : MJ.Nested.Out),
      (MJ.Nested.includeStmtHoisted 10 500 true [.missing] s o).1 = .ok ∧
      ¬ MJ.Nested.Same (MJ.Nested.includeStmtHoisted 10 500 true [.missing] s o).2.1 s ∧
      MJ.Nested.Same (MJ.Nested.includeStmt 10 500 true [.missing] 0 s o).2.1 s :=
  MJ.Nested.hoisted_take_closure_loses_closure

/-! ## `with_auto_escape`: the one save/restore outside `with_execution_state` and the instruction pairs -/

/-- `with_auto_escape_restores`: in the model of `State::with_auto_escape` the auto-escape mode after
the helper is the mode before it whenever the override changed it — whatever the callee does, Ok and
Err alike — and with a callee that leaves the state alone (the formatter gets `&State`) the whole
state is untouched on both branches of the helper. -/
theorem with_auto_escape_restores (ae : Nat) (f : MJ.Nested.Body) (s : MJ.Nested.St) (o : MJ.Nested.Out) :
    (s.autoEscape ≠ ae → (MJ.Nested.withAutoEscape ae f s o).2.1.autoEscape = s.autoEscape) ∧
    ((∀ s o, (f s o).2.1 = s) → (MJ.Nested.withAutoEscape ae f s o).2.1 = s) :=
  ⟨MJ.Nested.withAutoEscape_mode ae f s o, fun hf => MJ.Nested.withAutoEscape_restores ae f hf s o⟩

example : ∃ (f : MJ.Nested.Body), (∀ s o, (f s o).2.1 = s) ∧ ∀ s o, (f s o).1 = .err :=
  ⟨fun s o => (.err, s, ⟨o.caps + 1⟩), fun _ _ => rfl, fun _ _ => rfl⟩

/-- the model tells the variants apart: with the restore guarded by `old == auto_escape` the override
stays installed whenever it changed the mode -/
theorem inverted_restore_guard_leaks :
    ∃ (f : MJ.Nested.Body) (s : MJ.Nested.St) (o : MJ.Nested.Out), (∀ s o, (f s o).2.1 = s) ∧
      (MJ.Nested.withAutoEscapeInverted 2 f s o).2.1.autoEscape ≠ s.autoEscape ∧
      (MJ.Nested.withAutoEscape 2 f s o).2.1 = s :=
  MJ.Nested.withAutoEscapeInverted_leaks

/-! ## The code generator only produces balanced code -/

open MJ.BalGen in
/-- `compile_has_cert`: for EVERY statement tree the parser accepts (`ok false`: `break`/`continue`
only where a `for` body encloses them, the `else` block of a loop belongs to the enclosing loop,
macro and call bodies start afresh), the model of `compile_stmt` (`MJ/Model/BalGen.lean`: if / elif /
else, for with and without else, recursive or not, with, set- and filter-blocks, autoescape, macros and
call blocks, import / from-import, break and continue with `leave_scopes_of_innermost_loop`, any
nesting, any amount of straight-line code in between) emits code together with a certificate that
the verified checker accepts.  Block bodies are compiled by a sub-generator as templates of their
own, so the statement covers every stream of a template. -/
theorem compile_has_cert (s : Stmt) (h : ok false s = true) :
    checkCert (codeOf (compileTemplate s)) (certOf (compileTemplate s) AbsState.init) = true :=
  compileTemplate_checked s h

open MJ.BalGen in
/-- `compiled_code_balanced`: the generator model composed with the soundness of the checker — every
run of the abstract machine on the code of every accepted statement tree, from every entry (pc 0,
every macro body), never pops what it did not push (or a frame of the wrong kind) and leaves with
exactly the entry depths. -/
theorem compiled_code_balanced (s : Stmt) (h : ok false s = true) :
    Balanced (codeOf (compileTemplate s)) :=
  checkCert_sound _ _ (compile_has_cert s h)

open MJ.BalGen in
/-- a statement tree with everything in it: a recursive loop with an else block, inside it a `with`
holding a set-block holding an autoescape block with a conditional `break` and a `continue`, a
`loop(…)` recursion, a macro with a loop and a `break` of its own, a `from … import` -/
def everything : Stmt :=
  .seq (.simple [.other, .callFunction])
    (.forElse true true 2 1
      (.seq (.withS 2 (.capture (.autoEscape 1
              (.seq (.ifS 3 .breakS) (.seq (.simple [.other, .fastRecurse]) (.ifElse 1 .continueS (.simple [.other]))))) 1))
        (.seq (.macroS 1 (.forS true false 1 1 (.seq (.importS 1 4) (.ifS 1 .breakS))) 2 1)
          (.simple [.callFunction, .other])))
      (.simple [.other]))

example : MJ.BalGen.ok false everything = true := by decide
example : Balanced (MJ.BalGen.codeOf (MJ.BalGen.compileTemplate everything)) :=
  compiled_code_balanced everything (by decide)
/-- the `break` inside with > set-block > autoescape is compiled with its clean-up in front of the
jump to the loop end: `PopAutoEscape, EndCapture, DiscardTop, PopFrame, Jump` -/
example : (((MJ.BalGen.compileTemplate everything).map (·.1)).drop 17).take 5 =
    [.popAutoEscape, .endCapture, .other, .popFrame, .jump 67] := by decide

/-! ## The generator as the Rust is written: `pending_block` back-patching -/

open MJ.BalGen in
/-- `backpatching_generator_eq`: the model of `CodeGenerator` that works the way `codegen.rs` does —
`add` appends one instruction, jumps are emitted with a placeholder target and remembered on the
`pending_block` stack (`Branch { jump_instr }`, `Loop { iter_instr, jump_instrs }`, `Scope(..)`),
`end_condition` / `end_for_loop` / `compile_macro_expression` write the target into the remembered
instructions afterwards, `break` registers its jump with the innermost pending loop, `continue` reads
that loop's `iter_instr`, `leave_scopes_of_innermost_loop` walks the stack down to it
(`MJ/Model/BalPatch.lean`) — emits, for EVERY statement tree, exactly the instruction list of the
generator `compileTemplate` that computes targets from block sizes, and leaves `pending_block` empty. -/
theorem backpatching_generator_eq (s : Stmt) :
    MJ.BalPatch.genTemplate s = (compileTemplate s).map (·.1) ∧
    (MJ.BalPatch.gen s ⟨[], []⟩).pending = [] :=
  MJ.BalPatch.genTemplate_eq s

open MJ.BalGen in
/-- `backpatched_code_balanced`: hence the code the back-patching generator emits for a statement tree
the parser accepts is balanced on every path -/
theorem backpatched_code_balanced (s : Stmt) (h : ok false s = true) :
    Balanced (MJ.BalPatch.genTemplate s).toArray := by
  rw [(backpatching_generator_eq s).1]
  exact compiled_code_balanced s h

example : (MJ.BalPatch.genTemplate everything).length = 71 := by decide
example : Balanced (MJ.BalPatch.genTemplate everything).toArray :=
  backpatched_code_balanced everything (by decide)

/-! ## The model agrees with tables regenerated from the sources on every run

`MJ.Gen.c05*` are rewritten by `lib/tables/c05.py` from `compiler/instructions.rs`, `vm/mod.rs`
(`eval_impl`), `compiler/codegen.rs` and the harness; a change there re-checks (or breaks) these. -/

open MJ.Gen in
/-- every instruction of the enum has an arm in `eval_impl` and is either projected to `other` by the
harness or mapped to a letter of the model's alphabet — never both, nothing else -/
theorem alphabet_covers_enum :
    c05Instructions.all (fun n => c05VmArms.any (fun a => a.1 == n)) = true ∧
    c05VmArms.all (fun a => c05Instructions.contains a.1) = true ∧
    c05Instructions.all (fun n => (c05HarnessOther.contains n) != (c05HarnessMapped.contains n)) = true ∧
    (c05HarnessOther ++ c05HarnessMapped).all (fun n => c05Instructions.contains n) = true := by decide

open MJ.Gen in
/-- the arms of `eval_impl` for the instructions the model treats as `other` mention neither the frame
stack nor the auto-escape stack nor the program counter; the only one that touches the capture
stack is `LoadBlocks` (its discard capture is closed by the end-of-stream logic) -/
theorem other_arms_touch_nothing :
    c05VmArms.all (fun a =>
      !(c05HarnessOther.contains a.1) ||
      (!a.2.1 && !a.2.2.2.1 && !a.2.2.2.2.1 && (!a.2.2.1 || a.1 == "LoadBlocks"))) = true := by decide

/-- what the model says each letter of its alphabet touches: (frames, captures, escape stack, pc) -/
def modelTouches : List (String × Bool × Bool × Bool × Bool) := [
  ("PushWith", true, false, false, false), ("PopFrame", true, false, false, false),
  ("PushLoop", true, false, false, false), ("Iterate", true, false, false, true),
  ("PushDidNotIterate", true, false, false, false), ("PopLoopFrame", true, true, false, true),
  ("BeginCapture", false, true, false, false), ("EndCapture", false, true, false, false),
  ("PushAutoEscape", false, false, true, false), ("PopAutoEscape", false, false, true, false),
  ("Jump", false, false, false, true), ("JumpIfFalse", false, false, false, true),
  ("JumpIfFalseOrPop", false, false, false, true), ("JumpIfTrueOrPop", false, false, false, true),
  ("FastRecurse", true, false, false, true), ("CallFunction", false, false, false, true),
  ("Return", false, false, false, true), ("BuildMacro", false, false, false, false)]

open MJ.Gen in
/-- … and the arms of the mapped instructions mention exactly what the abstract machine models -/
theorem mapped_arms_as_modelled :
    c05HarnessMapped.all (fun n =>
      match c05VmArms.find? (fun a => a.1 == n), modelTouches.find? (fun a => a.1 == n) with
      | some a, some m => a.2.1 == m.2.1 && a.2.2.1 == m.2.2.1 && a.2.2.2.1 == m.2.2.2.1 && a.2.2.2.2.1 == m.2.2.2.2
      | _, _ => false) = true := by decide

def instrName : Instr → String
  | .other => "other" | .pushWith => "PushWith" | .popFrame => "PopFrame" | .pushLoop _ _ => "PushLoop"
  | .iterate _ => "Iterate" | .pushDidNotIterate => "PushDidNotIterate" | .popLoopFrame => "PopLoopFrame"
  | .beginCapture => "BeginCapture" | .endCapture => "EndCapture" | .pushAutoEscape => "PushAutoEscape"
  | .popAutoEscape => "PopAutoEscape" | .jump _ => "Jump" | .jumpIfFalse _ => "JumpIfFalse"
  | .jumpIfFalseOrPop _ => "JumpIfFalseOrPop" | .jumpIfTrueOrPop _ => "JumpIfTrueOrPop"
  | .fastRecurse => "FastRecurse" | .callFunction => "CallFunction" | .ret => "Return"
  | .buildMacro _ => "BuildMacro"

/-- names of what the model generator emits for a statement (straight-line instructions as `other`) -/
def modelNames (s : MJ.BalGen.Stmt) : List String :=
  (MJ.BalGen.compileTemplate s).map (fun x => instrName x.1)

/-- a row of the extracted table, instructions only, the ones the model calls `other` renamed -/
def rowNames (row : List String) : List String :=
  (row.filter (fun s => !(["startscope:With", "startscope:Capture", "startscope:AutoEscape", "endscope",
      "leavescopesofinnermostloop"].contains s))).map
    (fun s => if s == "Include" || s == "ExportLocals" || s == "DiscardTop" then "other" else s)

def codegenRow (n : String) : List String :=
  match MJ.Gen.c05CodegenArms.find? (fun a => a.1 == n) with
  | some a => a.2
  | none => ["<missing>"]

open MJ.BalGen in
/-- the scoped arms of `compile_stmt` add exactly the instructions the model generator emits, in the
same order, with the scope tracking (`start_scope` right behind the opening instruction,
`end_scope` right in front of the closing one); `leave_scopes_of_innermost_loop` emits for each
open scope what `cleanup` emits and stops at the innermost loop; `break` / `continue` call it in
front of their jump -/
theorem codegen_arms_as_modelled :
    codegenRow "WithBlock" = ["PushWith", "startscope:With", "endscope", "PopFrame"] ∧
    rowNames (codegenRow "WithBlock") = modelNames (.withS 0 .skip) ∧
    codegenRow "SetBlock" = ["BeginCapture", "startscope:Capture", "endscope", "EndCapture"] ∧
    codegenRow "FilterBlock" = ["BeginCapture", "startscope:Capture", "endscope", "EndCapture"] ∧
    rowNames (codegenRow "SetBlock") = modelNames (.capture .skip 0) ∧
    codegenRow "AutoEscape" = ["PushAutoEscape", "startscope:AutoEscape", "endscope", "PopAutoEscape"] ∧
    rowNames (codegenRow "AutoEscape") = modelNames (.autoEscape 0 .skip) ∧
    rowNames (codegenRow "Import") = modelNames (.importS 0 0) ∧
    (rowNames (codegenRow "FromImport")).take 6 = modelNames (.importS 0 0) ∧
    codegenRow "Break" = ["leavescopesofinnermostloop", "Jump"] ∧
    codegenRow "Continue" = ["leavescopesofinnermostloop", "Jump"] ∧
    codegenRow "start_for_loop" = ["PushLoop", "Iterate"] ∧
    (codegenRow "end_for_loop").take 3 = ["Jump", "PushDidNotIterate", "PopLoopFrame"] ∧
    modelNames (.forElse true false 0 0 .skip .skip)
      = codegenRow "start_for_loop" ++ (codegenRow "end_for_loop").take 3 ++ ["JumpIfFalse"] ∧
    rowNames (codegenRow "leave:With") = (cleanup [.withS] AbsState.init).1.map (fun x => instrName x.1) ∧
    rowNames (codegenRow "leave:Capture") = (cleanup [.capture] AbsState.init).1.map (fun x => instrName x.1) ∧
    rowNames (codegenRow "leave:AutoEscape") = (cleanup [.autoEscape] AbsState.init).1.map (fun x => instrName x.1) ∧
    (codegenRow "compile_macro_expression").filter (· != "DiscardTop") = ["Jump", "Return", "BuildMacro", "Jump"] ∧
    modelNames (.macroS 0 .skip 0 0) = ["Jump", "Return", "BuildMacro"] := by decide

open MJ.Gen in
/-- in `eval_macro`, `perform_super` and `perform_include` the state is given back between the nested
run and the first look at its result (what `nested_restores` models), and `perform_include` detaches
the closure of the including frame inside the loop over the candidates (what `includeStmt` models) -/
theorem restore_order_as_modelled :
    c05RestoreOrder = [
      ("eval_macro", ["run", "restore", "result"]),
      ("perform_super", ["run", "restore", "restore2", "result"]),
      ("perform_include", ["loop", "take", "run", "restore", "restore2", "result"])] := by decide

/-- no hook site of C05 keeps the real call in a `cfg(not(feature = "verif_hooks"))` branch: the
line the users' build runs is the line the checks run -/
theorem hook_sites_call_once : MJ.Gen.c05HookNotBranches = [] := by decide

/-- every writer of the scoped state anywhere in the crate, classed: (a) an instruction of a
Push/Pop pair or a primitive only such instructions and the wrappers use — checked by the
certificate; (b) `with_execution_state`; (c) another save/restore helper — modelled in
`MJ/Model/Nested.lean`; (d) a reset of something the construct itself owns -/
def writerClass : List ((String × String × String) × String) := [
  (("auto_escape", "assign", "vm/mod.rs::eval_impl"), "a"),            -- PushAutoEscape / PopAutoEscape
  (("auto_escape", "assign", "vm/state.rs::with_auto_escape"), "c"),
  (("auto_escape", "replace", "vm/state.rs::with_auto_escape"), "c"),
  (("auto_escape", "assign", "vm/state.rs::with_execution_state"), "b"),
  (("auto_escape", "replace", "vm/state.rs::with_execution_state"), "b"),
  (("blocks", "assign", "vm/state.rs::with_execution_state"), "b"),
  (("blocks", "replace", "vm/state.rs::with_execution_state"), "b"),
  (("captures", "pop", "output.rs::end_capture"), "a"),                -- EndCapture (+ recursion return, super, end of stream)
  (("captures", "push", "output.rs::begin_capture"), "a"),
  (("closure", "assign", "vm/context.rs::next_loop_item"), "d"),       -- fresh closure for the next iteration of the loop's own frame
  (("closure", "assign", "vm/context.rs::reset_closure"), "c"),        -- perform_include, Enclose
  (("closure", "take", "vm/context.rs::take_closure"), "c"),
  (("ctx", "replace", "vm/mod.rs::eval_macro"), "c"),
  (("current_block", "assign", "vm/state.rs::with_execution_state"), "b"),
  (("current_block", "replace", "vm/state.rs::with_execution_state"), "b"),
  (("depth", "+=", "vm/context.rs::incr_depth"), "c"),
  (("depth", "-=", "vm/context.rs::decr_depth"), "c"),
  (("depth", "-=", "vm/context.rs::incr_depth"), "c"),
  (("depth", "=", "vm/context.rs::clear"), "d"),                       -- recycling of a macro context
  (("frames", "clear", "vm/context.rs::clear"), "d"),
  (("frames", "pop", "vm/context.rs::pop_frame"), "a"),
  (("frames", "pop", "vm/context.rs::push_frame"), "a"),               -- a frame that exceeds the depth limit is taken off again
  (("frames", "push", "vm/context.rs::push_frame"), "a"),
  (("frames", "push", "vm/context.rs::reset_with_frame"), "d"),
  (("frames", "truncate", "vm/context.rs::restore_stack_depth"), "b"),
  (("instructions", "assign", "vm/mod.rs::eval_impl"), "a"),           -- end of stream: switch to the parent template
  (("instructions", "assign", "vm/state.rs::with_execution_state"), "b"),
  (("instructions", "replace", "vm/state.rs::with_execution_state"), "b"),
  (("loaded_templates", "assign", "vm/state.rs::with_execution_state"), "b"),
  (("loaded_templates", "take", "vm/state.rs::with_execution_state"), "b")]

open MJ.Gen in
/-- the table of writers regenerated from the sources contains exactly the classed sites: a new
writer of scoped state (or the disappearance of one) breaks this -/
theorem state_writers_classified :
    c05StateWriters.all (fun w => writerClass.any (fun c => c.1 == w)) = true ∧
    writerClass.all (fun c => c05StateWriters.contains c.1) = true := by decide

open MJ.Gen in
/-- every save/restore helper restores after the nested run, with no `return` / early-return macro
between the run and the restore, at the nesting depth of the run itself (`with_execution_state`:
inside its `cfg` / mode switch) — in particular `with_auto_escape` restores unconditionally -/
theorem helper_restores_unconditional :
    c05HelperRestores = [
      ("state.rs::with_auto_escape", "auto_escape", 0, false),
      ("state.rs::with_execution_state", "frames", 1, false),
      ("state.rs::with_execution_state", "instructions", 0, false),
      ("state.rs::with_execution_state", "auto_escape", 0, false),
      ("state.rs::with_execution_state", "current_block", 1, false),
      ("state.rs::with_execution_state", "blocks", 3, false),
      ("state.rs::with_execution_state", "loaded_templates", 3, false),
      ("vm/mod.rs::eval_macro", "ctx", 0, false),
      ("vm/mod.rs::perform_super", "frames", 0, false),
      ("vm/mod.rs::perform_super", "blocks", 0, false),
      ("vm/mod.rs::perform_include", "closure", 0, false),
      ("vm/mod.rs::perform_include", "depth", 0, false)] := by decide

open MJ.Gen in
/-- every builtin filter / test / function that is handed the `State` (by its signature) is applied
by the harness inside every scoped construct -/
theorem state_builtins_covered :
    c05StateBuiltins.all (fun n => c05HarnessBuiltins.contains n) = true := by decide

end MJ.C05

namespace MJ.C05
open MJ.Ops MJ.Gen

/-! ## The operand stack across `loop(...)` recursion

Model `MJ/Model/Ops.lean`: one activation of `eval_impl` with the height of the operand stack, the
frames it pushed, `next_loop_recursion_jump` and `loop_recursion_bases` as in the engine, and as
ghost state the base each loop frame's own `PushLoop` recorded.  The machine is run along the
operand-stack heights observed on the real engine for every generated template with a recursive loop
(`drive_c05`, `O` lines): any transition the engine makes and the machine does not have is reported. -/

/-- `recursion_bases_paired`: in every reachable state of a stream whose `PopFrame`s only meet `with`
frames (what an accepted certificate guarantees, `checkCert_sound`), the engine's
`loop_recursion_bases` is exactly the list of the bases recorded by the `PushLoop`s of the loop frames
that are live, innermost first, and a loop frame has recorded one iff it carries a recursion return
(`current_recursion_jump`): pushes and pops of `loop_recursion_bases` are paired with the loop frames
of `loop(...)` levels — for `CallFunction` (captured) and `FastRecurse` entries alike, under any
nesting, on every path. -/
theorem recursion_bases_paired {code : Code} {s0 s : State} (hd : Disciplined code s0) (h0 : Inv s0)
    (hr : Reach condReal code s0 s) :
    s.bases = basesOf s.frames ∧ framesOk s.frames = true :=
  reach_inv hd h0 hr

/-- `popLoopFrame_truncates_to_own_base`: when a level of `loop(...)` ends — `PopLoopFrame` on a loop
frame with a recursion return `(t, cap)`, whichever entry form `cap` — the base on top of
`loop_recursion_bases` is the one the `PushLoop` of that very frame recorded, the operand stack is
truncated to it (then the captured output is pushed for the `CallFunction` form) and the remaining
bases are those of the remaining frames.  This is the only successor. -/
theorem popLoopFrame_truncates_to_own_base {code : Code} {s0 s : State} (hd : Disciplined code s0)
    (h0 : Inv s0) (hr : Reach condReal code s0 s) (hi : code[s.pc]? = some .popLoopFrame)
    {l : Loop} {fs : List Frame} {t : Nat} {cap : Bool}
    (hfr : s.frames = .loopF l :: fs) (hret : l.ret = some (t, cap)) :
    ∃ b, l.gbase = some b ∧ s.bases = b :: basesOf fs ∧
      ∀ k, step condReal code s k =
        [{ s with pc := t, h := if cap then min s.h b + 1 else min s.h b, frames := fs,
                  bases := basesOf fs, caps := if cap then s.caps.tail else s.caps }] := by
  obtain ⟨hb, hf⟩ := reach_inv hd h0 hr
  rw [hfr] at hb hf
  simp only [framesOk, Bool.and_eq_true, beq_iff_eq] at hf
  have hg : l.gbase.isSome = true := by
    have := hf.1; rw [hret] at this; simpa using this
  obtain ⟨b, hgb⟩ := Option.isSome_iff_exists.mp hg
  have hb' : s.bases = b :: basesOf fs := by simpa [basesOf, hgb] using hb
  refine ⟨b, hgb, hb', fun k => ?_⟩
  simp [step, hi, doPopLoopFrame, hfr, hret, hb', truncated]

/-- `pushLoop_records_height_under_argument`: the base a `PushLoop` records when it is reached through
`loop(...)` is the height of the operand stack once the argument of the call is popped — everything
below belongs to the caller, everything above will have been pushed by the level. -/
theorem pushLoop_records_height_under_argument {code : Code} {s t : State} {k : Nat} {v r : Bool}
    (hi : code[s.pc]? = some (.pushLoop v r)) {nx : Nat × Bool} (hn : s.next = some nx)
    (ht : t ∈ step condReal code s k) :
    t.h = s.h - 1 ∧ t.bases = (s.h - 1) :: s.bases ∧ t.next = none ∧
      ∃ l, t.frames = .loopF l :: s.frames ∧ l.gbase = some (s.h - 1) ∧ l.ret = some nx := by
  simp only [step, hi, doPushLoop] at ht
  split at ht
  · simp at ht
  · simp only [List.mem_singleton] at ht
    subst ht
    simp [condReal, hn]

/-- `recursion_restores_operands`: a level that did not go below its base (no underflow within the
level: C01's `no_underflow`; checked on every replayed run) hands the operand stack back at exactly
that base plus the one captured value of the `CallFunction` form: whatever the level left behind (the
flag for its `else` block) is dropped, nothing of the caller is. -/
theorem recursion_restores_operands {code : Code} {s0 s : State} (hd : Disciplined code s0)
    (h0 : Inv s0) (hr : Reach condReal code s0 s) (hi : code[s.pc]? = some .popLoopFrame)
    {l : Loop} {fs : List Frame} {t : Nat} {cap : Bool}
    (hfr : s.frames = .loopF l :: fs) (hret : l.ret = some (t, cap)) {b : Nat} (hb : l.gbase = some b)
    (hge : b ≤ s.h) {k : Nat} {u : State} (hu : u ∈ step condReal code s k) :
    u.pc = t ∧ u.h = b + (if cap then 1 else 0) ∧ u.frames = fs ∧ u.bases = basesOf fs := by
  obtain ⟨b', hb', _, hstep⟩ := popLoopFrame_truncates_to_own_base hd h0 hr hi hfr hret
  rw [hb] at hb'; cases hb'
  rw [hstep k] at hu
  simp only [List.mem_singleton] at hu
  subst hu
  cases cap <;> simp [Nat.min_eq_right hge]

/-- a recursive loop with an `else` block whose body calls `loop(x)` either inside an expression with a
waiting operand (pcs 6–10) or as a statement (12–13) -/
def mixedRecursion : Code := #[
  .eff 0 1, .pushLoop true true, .iterate 16, .eff 1 0, .eff 0 1, .jumpIfFalse 12,
  .eff 0 1, .eff 0 1, .call 1, .eff 2 1, .eff 1 0, .jump 15,
  .eff 0 1, .fastRecurse, .jump 15, .jump 2,
  .pushDidNotIterate, .popLoopFrame, .jumpIfFalse 19, .eff 0 0]

/-- outermost level → captured `loop(x)` → fast `loop(x)` → empty iteration → back to the second
level's `PopLoopFrame` (choices: count, index of the successor) -/
def mixedPath : List (Nat × Nat) :=
  [(0,0), (0,0), (0,0), (0,0), (0,0), (0,0), (0,0), (0,0), (0,1),   -- … 'p', x, loop(x) captured
   (0,0), (0,0), (0,0), (0,0), (0,1), (0,0), (0,0),                 -- level 1: …, else branch, x, loop(x) fast
   (0,0), (0,1), (0,0), (0,0),                                      -- level 2: empty, flag, PopLoopFrame
   (0,0), (0,0), (0,1), (0,0)]                                      -- level 1: next item: none, flag → PopLoopFrame

/-- the hypotheses of the recursion theorems are satisfiable: the second level of `mixedRecursion`
ends with a waiting operand of its caller below its base, its own `else` flag above it -/
example : ∃ s l fs, Disciplined mixedRecursion (init 0 0) ∧
    Reach condReal mixedRecursion (init 0 0) s ∧ mixedRecursion[s.pc]? = some .popLoopFrame ∧
    s.frames = .loopF l :: fs ∧ l.ret = some (9, true) ∧ l.gbase = some 1 ∧ s.h = 2 ∧ s.bases = [1] := by
  have hf : follow condReal mixedRecursion (init 0 0) mixedPath = some
      { pc := 17, h := 2,
        frames := [.loopF ⟨true, some 1, some (9, true), some 1, 1⟩, .loopF ⟨true, some 1, none, none, 0⟩],
        caps := [none], escs := [], bases := [1], next := none } := by decide
  exact ⟨_, _, _, disciplined_of_no_popFrame (by decide),
    follow_reach _ _ _ (.refl _) hf, by decide, rfl, rfl, rfl, rfl, rfl⟩

/-- `certified_recursion_bases_paired`: the two machines composed.  For every instruction stream whose
projection to the balance alphabet has a certificate accepted by the verified checker — what
`drive_c05` establishes for every real stream — from every region entry and any initial operand
height, EVERY reachable state of the operand-stack machine has `loop_recursion_bases` equal to the
bases recorded by the live loop frames: no hypothesis on the run is left (`Disciplined` is discharged
by `checkCert_sound` through the simulation `MJ.OpsBal.sim_reach`). -/
theorem certified_recursion_bases_paired {code : Code} {cert : MJ.Bal.Cert}
    (hc : MJ.Bal.checkCert (MJ.OpsBal.projCode code) cert = true)
    {e : Nat} (he : e ∈ MJ.Bal.entries (MJ.OpsBal.projCode code)) (h0 : Nat)
    {s : State} (hr : Reach condReal code (init e h0) s) :
    s.bases = basesOf s.frames ∧ framesOk s.frames = true :=
  recursion_bases_paired (MJ.OpsBal.certified_disciplined hc he h0) (init_inv e h0) hr

/-- … and so every level of `loop(...)` of a certified stream ends by truncating to the base its own
`PushLoop` recorded -/
theorem certified_recursion_return {code : Code}
    (hv : MJ.Bal.validate (MJ.OpsBal.projCode code) = true)
    {e : Nat} (he : e ∈ MJ.Bal.entries (MJ.OpsBal.projCode code)) (h0 : Nat)
    {s : State} (hr : Reach condReal code (init e h0) s) (hi : code[s.pc]? = some .popLoopFrame)
    {l : Loop} {fs : List Frame} {t : Nat} {cap : Bool}
    (hfr : s.frames = .loopF l :: fs) (hret : l.ret = some (t, cap)) :
    ∃ b, l.gbase = some b ∧ s.bases = b :: basesOf fs ∧
      ∀ k, step condReal code s k =
        [{ s with pc := t, h := if cap then min s.h b + 1 else min s.h b, frames := fs,
                  bases := basesOf fs, caps := if cap then s.caps.tail else s.caps }] :=
  popLoopFrame_truncates_to_own_base (MJ.OpsBal.certified_disciplined hv he h0) (init_inv e h0) hr hi hfr hret

/-- `mixedRecursion` is such a stream: its projection is accepted by the verified checker -/
example : MJ.Bal.validate (MJ.OpsBal.projCode mixedRecursion) = true := by decide +kernel

/-- `capturedOnly_leaks_else_flag`: the model tells the variants apart.  With a `PushLoop` that only
records a base for the captured form (`if let Some((_, true)) = recursion_jump`) while `PopLoopFrame`
still pops one per level, the same run of `mixedRecursion` comes back from the captured call with the
`else` flag of the level still on the operand stack (height 3 instead of 2: the string concatenation
at pc 9 then consumes the flag in place of the waiting operand), because the fast-path level inside
popped the base of the captured level around it. -/
theorem capturedOnly_leaks_else_flag :
    ∃ s₁ s₂ : State,
      follow condReal mixedRecursion (init 0 0) (mixedPath ++ [(0, 0)]) = some s₁ ∧
      follow condCapturedOnly mixedRecursion (init 0 0) (mixedPath ++ [(0, 0)]) = some s₂ ∧
      s₁.pc = 9 ∧ s₂.pc = 9 ∧ s₁.h = 2 ∧ s₂.h = 3 ∧ s₁.bases = [] ∧ s₂.bases = [] :=
  ⟨{ pc := 9, h := 2, frames := [.loopF ⟨true, some 1, none, none, 0⟩], caps := [], escs := [], bases := [],
     next := none },
   { pc := 9, h := 3, frames := [.loopF ⟨true, some 1, none, none, 0⟩], caps := [], escs := [], bases := [],
     next := none },
   by decide, by decide, rfl, rfl, rfl, rfl, rfl, rfl⟩

/-- `recursion_bases_sites_as_modelled`: every statement of `eval_impl` and `push_loop` that mentions
`loop_recursion_bases`, `next_loop_recursion_jump`, `recursion_jump`, `current_recursion_jump` or
truncates the operand stack, with the conditions it is under, regenerated from `vm/mod.rs` on every
run: the one push site is under `recursion_jump.is_some()` (`condReal`) where `recursion_jump` is what
`recurse_loop!` left in `next_loop_recursion_jump` and what `push_loop` stores as the frame's
`current_recursion_jump`; the one pop site (and the `truncate` that uses it) is under that field being
`Some`: push and pop sit under the same condition, as `doPushLoop` / `doPopLoopFrame` have it. -/
theorem recursion_bases_sites_as_modelled :
    c05RecursionBases = [
      ("prologue", "let mut next_loop_recursion_jump = None", []),
      ("prologue", "let mut loop_recursion_bases: Vec<usize> = Vec::new()", []),
      ("recurse_loop!", "next_loop_recursion_jump = Some((pc + 1, $capture))", []),
      ("PopLoopFrame", "if let Some((target, end_capture)) = l.current_recursion_jump.take()", []),
      ("PopLoopFrame", "if let Some(base) = loop_recursion_bases.pop()",
        ["if let Some((target, end_capture)) = l.current_recursion_jump.take()"]),
      ("PopLoopFrame", "stack.truncate(base)",
        ["if let Some((target, end_capture)) = l.current_recursion_jump.take()",
         "if let Some(base) = loop_recursion_bases.pop()"]),
      ("PushLoop", "let recursion_jump = next_loop_recursion_jump.take()", []),
      ("PushLoop", "if recursion_jump.is_some()", []),
      ("PushLoop", "loop_recursion_bases.push(stack.len())", ["if recursion_jump.is_some()"]),
      ("PushLoop", "ctx_ok!(Self::push_loop(state, a, *flags, pc, recursion_jump))", []),
      ("push_loop", "if let Some((jump_instr, _)) = current_recursion_jump", []),
      ("push_loop", "LoopState::new(.., current_recursion_jump, ..)", [])] := by decide

/-- `backpatch_sites_as_modelled`: the primitives of the `pending_block` back-patching in
`codegen.rs`, each as the sequence of its landmarks in textual order (instructions added, pending
blocks pushed / popped, which instruction variants get which target written, `break` registering its
jump, `continue` reading `iter_instr`), regenerated from the source on every run — what
`startIf` / `startElse` / `endIf` / `endCondition` / `startForLoop` / `endForLoop` / `startScope` /
`endScope`, the macro arm and the `break` / `continue` arms of `MJ.BalPatch.gen` transcribe. -/
theorem backpatch_sites_as_modelled :
    c05BackpatchSites = [
      ("start_if", ["add:JumpIfFalse", "push:Branch"]),
      ("start_else", ["add:Jump", "end_condition", "push:Branch"]),
      ("end_if", ["end_condition"]),
      ("end_condition", ["pop", "writes:JumpIfFalse", "writes:Jump", "target=new_jump_instr"]),
      ("start_for_loop", ["add:PushLoop", "add:Iterate", "push:Loop"]),
      ("end_for_loop", ["pop", "add:Jump", "add:PushDidNotIterate", "add:PopLoopFrame", "writes:Iterate",
        "writes:Jump", "target=loop_end"]),
      ("start_scope", ["push:Scope"]),
      ("end_scope", ["pop"]),
      ("compile_macro_expression", ["add:Jump", "add:Return", "add:BuildMacro", "writes:Jump", "target=macro_instr"]),
      ("Continue", ["leave", "reads:iter_instr", "add:Jump"]),
      ("Break", ["leave", "add:Jump", "register"])] := by decide

end MJ.C05

namespace MJ.C05
open MJ.Gen MJ.OpsArms MJ.Bal

/-! ## Every push and pop of every arm of `eval_impl`, regenerated from the source -/

def effRow (n : String) : List Nat × List String × Nat :=
  match c05VmEffects.find? (fun r => r.1 == n) with
  | some r => r.2
  | none => ([], ["<missing>"], 0)

/-- rows of `c05VmEffects` that are not instruction arms -/
def pseudoRows : List String := ["recurse_loop!", "end-of-stream", "prologue"]

/-- `vm_arm_effects_as_modelled`: for EVERY arm of `eval_impl` the number of `push_frame` / `pop_frame` /
`begin_capture` / `end_capture` / `auto_escape_stack.push` / `.pop` / `loop_recursion_bases.push` /
`.pop` calls in the arm's text (helper `push_loop` inlined, the `recurse_loop!` calls expanded with the
macro's own row, its capture under `if $capture`), regenerated from `vm/mod.rs` on every run, is what
one step of the machine `MJ.Ops.step` pushes / pops at most on the frame stack, the capture stack, the
auto-escape stack and `loop_recursion_bases` — measured by executing the machine on probe states
(`MJ.OpsArms.effOf`), not transcribed.  An arm that gains or loses a push or a pop (a second
`pop_frame` in `PopLoopFrame`, an `end_capture` in an instruction the machine treats as straight-line,
a `begin_capture` outside `if $capture`, a push in the prologue) breaks this.  The one capture the
machine does not count is the discard capture of `LoadBlocks`, whose `end_capture` is the only one in
the end-of-stream logic.  The arms that start a nested evaluation (another activation, certified on its
own stream, wrapper modelled in `MJ/Model/Nested.lean`) are exactly CallFunction (`super()`), FastSuper,
Include and CallBlock. -/
theorem vm_arm_effects_as_modelled :
    (c05VmEffects.all (fun r => pseudoRows.contains r.1 || r.1 == "LoadBlocks" ||
        expand (effRow "recurse_loop!").1 r.2.1 r.2.2.1 == effOf r.1)) = true ∧
    c05Instructions.all (fun n => c05VmEffects.any (fun r => r.1 == n)) = true ∧
    effRow "recurse_loop!" = ([0, 0, 1, 0, 0, 0, 0, 0], [], 0) ∧
    effRow "prologue" = (zero8, [], 0) ∧
    effRow "LoadBlocks" = ([0, 0, 1, 0, 0, 0, 0, 0], [], 0) ∧
    effRow "end-of-stream" = ([0, 0, 0, 1, 0, 0, 0, 0], [], 0) ∧
    (c05VmEffects.filter (fun r => r.2.2.2 != 0)).map (·.1) =
      ["CallFunction", "FastSuper", "Include", "CallBlock"] := by
  decide +kernel

/-- non-vacuity: the machine's rows are not all zero, and a `PopLoopFrame` arm with a second `pop_frame`
or a `CallFunction` whose recursion did not begin a capture would not agree with it -/
example : effOf "PopLoopFrame" = [0, 1, 0, 1, 0, 0, 0, 1] ∧ effOf "PushLoop" = [1, 0, 0, 0, 0, 0, 1, 0] ∧
    effOf "CallFunction" = [0, 0, 1, 0, 0, 0, 0, 0] ∧ effOf "FastRecurse" = zero8 ∧
    expand [0, 0, 1, 0, 0, 0, 0, 0] [0, 2, 0, 1, 0, 0, 0, 1] [] ≠ effOf "PopLoopFrame" ∧
    expand [0, 0, 1, 0, 0, 0, 0, 0] zero8 ["false"] ≠ effOf "CallFunction" := by decide +kernel

/-! ## The property at full strength and what is left between it and the theorems above -/

/-- What the real code is, as far as the statement needs it (the parameters of `C05_main`): the
templates the compiler accepts, the statement tree the parser builds for each (in the fragment
`MJ.BalGen.Stmt`: every scoped statement kind, `break` / `continue`, recursion, macros, call blocks,
imports, block references; expressions as straight-line / `flat` code), and the instruction stream
`CodeGenerator` emits for it, projected to the balance alphabet (harness `tok`). -/
structure Engine where
  Template : Type
  ast : Template → MJ.BalGen.Stmt
  stream : Template → MJ.Bal.Code

/-- **C05 at full strength**, over the abstract machine of `MJ/Model/Bal.lean`: for ALL templates the
compiler accepts and ALL control-flow paths through the emitted code (every branch of every
conditional jump and `Iterate`, any iteration count, `break` / `continue`, empty iteration, else
branches, any depth of `loop(...)` recursion), from every region entry (the stream, every macro and
call body):

1. no instruction ever pops a frame, a capture or an auto-escape entry that the region did not push,
   nor a frame of the wrong kind, and the region is left with exactly the entry stacks;
2. two paths that reach the same instruction find the same frames, capture depth and auto-escape
   depth: text after a construct is written to the same target whichever path was taken through it;
3. run as a nested evaluation (block, `super()`, include, macro or call body) on top of ANY stacks of
   a caller, wherever it stops — normally or at a failing instruction — the caller's frames are
   underneath, untouched and in order, and none of its captures / escape entries was closed;
and the wrappers around nested evaluations hand the execution state back on success and on failure
(`NestedRestores`). -/
def C05_full (E : Engine) : Prop :=
  (∀ t : E.Template,
    Balanced (E.stream t) ∧
    (∀ e ∈ entries (E.stream t), ∀ s₁ s₂ : VmState,
      Reach (E.stream t) (initAt e) s₁ → Reach (E.stream t) (initAt e) s₂ →
      noReturn s₁.frames = true → noReturn s₂.frames = true → s₁.pc = s₂.pc →
      s₁.caps = s₂.caps ∧ s₁.frames = s₂.frames ∧ s₁.escs = s₂.escs) ∧
    (∀ e ∈ entries (E.stream t), ∀ F0 : List RFrame, (∀ f ∈ F0, Foreign f) → ∀ (c0 e0 : Nat) (u : VmState),
      Reach (E.stream t) ⟨e, F0, c0, e0⟩ u →
      ∃ own k m, u.frames = own ++ F0 ∧ u.caps = k + c0 ∧ u.escs = m + e0 ∧
        step (E.stream t) u ≠ .stuck ∧
        (step (E.stream t) u = .exit → own = [] ∧ k = 0 ∧ m = 0))) ∧
  NestedRestores

/-- **`C05_main`**: the full statement from two named hypotheses about the real code — everything else
is proved above.

* `h_parser` — the parser's `in_loop` discipline: `break` / `continue` only where a `for` body encloses
  them, not across macro / call / block bodies, not in a loop's `else` (`MJ.BalGen.ok false`).
  VALIDATED: every enumerated shape that violates it must be refused by the real parser (harness:
  `nocompile` with the expected message), every other shape must compile.
* `h_codegen` — `codegen.rs` emits what the back-patching generator model `MJ.BalPatch.gen` emits.
  VALIDATED by comparing the two streams on every enumerated and sampled shape (`gen=` verdicts of
  `drive_c05`, any difference is a model disagreement) and TIED by the regenerated tables
  `codegen_arms_as_modelled` and `backpatch_sites_as_modelled`.

That the abstract machine is `eval_impl` is not a hypothesis that can be stated here: it is tied by the
regenerated tables `alphabet_covers_enum`, `other_arms_touch_nothing`, `mapped_arms_as_modelled`,
`vm_arm_effects_as_modelled`, `recursion_bases_sites_as_modelled` and validated by the replay of the
engine's own traces on `MJ.Ops.step` and by the depth counters at entry and exit of every activation. -/
theorem C05_main (E : Engine)
    (h_parser : ∀ t, MJ.BalGen.ok false (E.ast t) = true)
    (h_codegen : ∀ t, E.stream t = (MJ.BalPatch.genTemplate (E.ast t)).toArray) :
    C05_full E := by
  refine ⟨fun t => ?_, nested_restores⟩
  have hcode : E.stream t = MJ.BalGen.codeOf (MJ.BalGen.compileTemplate (E.ast t)) := by
    rw [h_codegen t, (backpatching_generator_eq (E.ast t)).1]; rfl
  have hc := compile_has_cert (E.ast t) (h_parser t)
  rw [← hcode] at hc
  exact ⟨checkCert_sound _ _ hc,
    fun e he s₁ s₂ h₁ h₂ n₁ n₂ hpc => same_pc_same_target hc he h₁ h₂ n₁ n₂ hpc,
    fun e he F0 hF c0 e0 u hr => by
      obtain ⟨own, k, m, h1, h2, h3, h4, _, h6⟩ := certified_run_keeps_callers_stacks hc he hF c0 e0 hr
      exact ⟨own, k, m, h1, h2, h3, h4, h6⟩⟩

/-- the same conclusion for ANY stream the verified checker accepted at run time — what the check
establishes for every real stream (fixtures included) without `h_parser` / `h_codegen` -/
theorem C05_main_validated (E : Engine) (h_validated : ∀ t, validate (E.stream t) = true) :
    C05_full E := by
  refine ⟨fun t => ?_, nested_restores⟩
  have hc := h_validated t
  exact ⟨checkCert_sound _ _ hc,
    fun e he s₁ s₂ h₁ h₂ n₁ n₂ hpc => same_pc_same_target hc he h₁ h₂ n₁ n₂ hpc,
    fun e he F0 hF c0 e0 u hr => by
      obtain ⟨own, k, m, h1, h2, h3, h4, _, h6⟩ := certified_run_keeps_callers_stacks hc he hF c0 e0 hr
      exact ⟨own, k, m, h1, h2, h3, h4, h6⟩⟩

/-- the hypotheses of `C05_main` are satisfiable by an engine with a non-trivial template: the model
generators themselves on the statement tree `everything` -/
example : ∃ E : Engine, (∀ t, MJ.BalGen.ok false (E.ast t) = true) ∧
    (∀ t, E.stream t = (MJ.BalPatch.genTemplate (E.ast t)).toArray) ∧
    ∃ t, (E.stream t).size = 71 :=
  ⟨⟨Unit, fun _ => everything, fun _ => (MJ.BalPatch.genTemplate everything).toArray⟩,
   fun _ => (by decide : MJ.BalGen.ok false everything = true), fun _ => rfl, (),
   (by decide : (MJ.BalPatch.genTemplate everything).toArray.size = 71)⟩

end MJ.C05

namespace MJ.C05
open MJ.Extends

/-! ## `extends`: the discard capture of `LoadBlocks` and the end-of-stream logic -/

/-- `extends_pairs_with_end_of_stream` (model `MJ/Model/Extends.lean` of the `LoadBlocks` arm and of the
instruction fetch at the end of a stream): a `LoadBlocks` that runs where the stream's own captures are
all closed (`{% extends %}` outside set / filter blocks — relative capture depth 0), followed by capture
events that are balanced (what an accepted certificate gives for the rest of the stream: it ends at
the depth it was entered with), reaches the end of the stream with its own `Discard` entry on top: the
one `end_capture` of the end-of-stream logic pops exactly that entry, the evaluation continues with the
parent's instructions, `parent_instructions` is empty again and the capture stack is the one the
template found — whatever was open around it (`c`) untouched. -/
theorem extends_pairs_with_end_of_stream (c : List Entry) (q : List Entry) (p : Nat) (es : List Ev)
    (h : dyck 0 es = true) :
    ∃ s s', run { caps := c, parent := none, popped := q } (.loadBlocks p :: es) = some s ∧
      endOfStream s = some (p, .discard, s') ∧ s'.caps = c ∧ s'.parent = none := by
  obtain ⟨s, hr, hc, hp⟩ := dyck_run es 0 { caps := .discard :: c, parent := some p, popped := q } h (by simp)
  refine ⟨s, { s with caps := c, parent := none }, by simpa [run, ev] using hr, ?_, rfl, rfl⟩
  simp only [List.drop_zero] at hc
  simp [endOfStream, hp, hc]

/-- `extends_anywhere_restores_callers_captures`: the `LoadBlocks` / parent-switch pair as part of the
balance of a whole stream, crossed pairing allowed.  For ANY stream whose capture events never reach
below its entry, contain one `LoadBlocks` — at the top level, inside set / filter blocks, crossed with
them in any way — and end one entry above the entry depth (`bal false 0 es = some (true, 1)`: what
the certificate of the stream gives with `LoadBlocks` counted as an opening instruction): the run
reaches the end of the stream with exactly ONE entry on top of the caller's capture stack `c`, the
unconditional pop of the end-of-stream logic removes exactly that entry — the discard entry or, on the
crossed path, the buffer of the block around the `extends` — and the parent's instructions start on
exactly the caller's capture stack: their text reaches the output the template was given.  (With a pop
that looks at what is on top this fails: see `end_of_stream_pops_unconditionally`.) -/
theorem extends_anywhere_restores_callers_captures (c q : List Entry) (es : List Ev)
    (h : bal false 0 es = some (true, 1)) :
    ∃ s p e s', run { caps := c, parent := none, popped := q } es = some s ∧
      endOfStream s = some (p, e, s') ∧ s'.caps = c ∧ s'.parent = none := by
  obtain ⟨s, top, hr, hc, hl, hp⟩ := bal_run c es false 0 { caps := c, parent := none, popped := q } [] true 1
    rfl rfl rfl h
  match top, hl with
  | [e], _ =>
    cases hpar : s.parent with
    | none => simp [hpar] at hp
    | some p =>
      refine ⟨s, p, e, { s with caps := c, parent := none }, hr, ?_, rfl, rfl⟩
      simp only [List.cons_append, List.nil_append] at hc
      simp [endOfStream, hpar, hc]

/-- the crossed path `{% set x %}a{% extends … %}b{% endset %}` and a nested one satisfy the hypothesis -/
example : bal false 0 [.beginCapture 0, .loadBlocks 7, .endCapture] = some (true, 1) ∧
    bal false 0 [.beginCapture 0, .beginCapture 1, .loadBlocks 7, .endCapture, .beginCapture 2, .endCapture, .endCapture]
      = some (true, 1) := by decide

/-- `end_of_stream_pops_unconditionally`: the one `end_capture` of the end-of-stream logic, with the
`if` conditions it is under, regenerated from `vm/mod.rs` on every run: none — whenever a parent was
loaded one entry is popped, whatever is on top, as `MJ.Extends.endOfStream` has it (a pop that depends
on what the top entry is leaves an orphaned capture behind on the path of
`extends_inside_capture_mispairs`, which swallows the parent's output) -/
theorem end_of_stream_pops_unconditionally :
    MJ.Gen.c05EndOfStreamPop = ("out.end_capture(AutoEscape::None)", []) := by decide

/-- a second `extends` in the same evaluation fails instead of opening a second discard capture -/
theorem second_extends_fails (s : St) (p q : Nat) (h : s.parent = some p) : ev s (.loadBlocks q) = none := by
  simp [ev, h]

example : dyck 0 [.beginCapture 0, .beginCapture 1, .endCapture, .endCapture, .beginCapture 2, .endCapture] = true := by
  decide

/-- `extends_inside_capture_mispairs`: what the hypothesis "relative capture depth 0" excludes, and the
code does not: `{% set x %}{% extends … %}{% endset %}` compiles.  The `EndCapture` of the set block
pops the discard entry of `LoadBlocks` (`x` is undefined) and the end-of-stream logic pops the set
block's buffer.  The capture DEPTH is restored on this path as on every other (that is what the
certificate and the run-time counters check); the PAIRING is not.  Everything behind `extends` is
discarded anyway, so the only thing a template can observe is the value of `x` in a block. -/
theorem extends_inside_capture_mispairs :
    ∃ s s', run { caps := [], parent := none, popped := [] } [.beginCapture 0, .loadBlocks 7, .endCapture] = some s ∧
      s.popped = [.discard] ∧ endOfStream s = some (7, .block 0, s') ∧ s'.caps = [] :=
  ⟨{ caps := [.block 0], parent := some 7, popped := [.discard] }, { caps := [], parent := none, popped := [.discard] },
   by decide, rfl, by decide, rfl⟩

end MJ.C05

namespace MJ.C05
open MJ.BalExpr

/-! ## Expressions with internal jumps are `flat` blocks -/

/-- `expression_code_is_flat` (model `MJ/Model/BalExpr.lean` of the four places where `compile_expr`
emits jumps: `and` / `or` with `JumpIfFalseOrPop` / `JumpIfTrueOrPop` to the end of the operator, the
inline `a if c else b`, chained comparisons with their `JumpIfFalseOrPop` to the `Swap; DiscardTop`
clean-up behind a `Jump`, calls that may be a captured `loop(x)`, under any nesting): the code of EVERY
expression tree, jump targets as the back-patching leaves them, only jumps inside itself and consists
of state-preserving instructions — it is a `flat` block of the statement model, so `compile_has_cert`
and `compiled_code_balanced` cover statement trees whose expressions are generated this way and not
only assumed to be `flat`. -/
theorem expression_code_is_flat (e : Expr) (inLoop : Bool) :
    MJ.BalGen.ok inLoop (.flat (gen 0 e)) = true ∧ (gen 0 e).length = size e :=
  ⟨gen_flat e inLoop, length_gen e 0⟩

/-- `c and x is defined or 3 < k < 9` (the condition of the harness kind `ifa`), then `'y' if c else 'n'` -/
def ifaCondition : Expr :=
  .scBool false (.scBool true (.leaf 1) (.leaf 2)) (.compare (.leaf 1) (.more (.leaf 1) (.last (.leaf 1))))

example : gen 0 ifaCondition =
    [.other, .jumpIfFalseOrPop 4, .other, .other, .jumpIfTrueOrPop 14,
     .other, .other, .other, .jumpIfFalseOrPop 12, .other, .other, .jump 14, .other, .other] := by decide

/-- a loop whose body tests that condition, breaks out of a `with` on it and emits an inline `if` with
a captured `loop(x)` in one arm -/
example : Balanced (MJ.BalGen.codeOf (MJ.BalGen.compileTemplate
    (.forS true true 1 1 (.withS 1 (.seq (.flat (gen 0 ifaCondition))
      (.seq (.ifS 1 .breakS) (.flat (gen 0 (.ifExpr (.leaf 1) .call (.leaf 1)))))))))) :=
  compiled_code_balanced _ (by decide)

end MJ.C05
