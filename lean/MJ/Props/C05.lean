import MJ.Proofs.Bal
/-!
# C05 — scoped constructs restore scope, capture and escape state on every path

The theorems are about the verified certificate checker `MJ.Bal.checkCert` of
`MJ/Model/Bal.lean`; the check executes it (through `drive_c05`) on every instruction stream the
real compiler produces for the repository's templates and for an exhaustive enumeration of
nestings (translation validation).  The code generator itself is *not* modelled: the guarantee
for a concrete template is "its streams were accepted by the verified checker", not a proof about
`codegen.rs`.
-/
namespace MJ.C05
open MJ.Bal

/-- What an accepted certificate guarantees for a stream: from every region entry (pc 0 and every
macro body), in EVERY reachable state of the abstract machine — all control-flow paths, all
iteration counts, all recursion depths of `loop(...)` — the next instruction neither pops a frame /
capture / auto-escape entry the region did not push nor a frame of the wrong kind, and whenever the
region is left (end of stream, `Return`) frames, capture depth and auto-escape depth are exactly
those of the entry. -/
def Balanced (code : Code) : Prop :=
  ∀ e ∈ entries code, ∀ s, Reach code (initAt e) s →
    step code s ≠ .stuck ∧
    (step code s = .exit → s.frames = [] ∧ s.caps = 0 ∧ s.escs = 0)

/-- full-strength statement about the checker -/
def C05_full : Prop :=
  ∀ (code : Code) (cert : Cert), checkCert code cert = true → Balanced code

/-- soundness of the certificate checker -/
theorem checkCert_sound : C05_full := by
  intro code cert hc e he s hreach
  have hinv := reach_inv hc (init_inv hc he) hreach
  have := step_sound hc s hinv
  exact ⟨this.1, this.2.1⟩

/-- the certificate proposed by the untrusted inference is checked by the verified checker at run
time: `validate` is what `drive_c05` computes for every real stream -/
theorem inferCert_checked (code : Code) (h : validate code = true) : Balanced code :=
  checkCert_sound code (inferCert code) h

/-- Path independence of the output target: in the outermost activation of a region (no pending
`loop(...)` recursion), two runs that reach the same pc have the same frames, the same capture depth
and the same auto-escape depth — those the certificate records for that pc.  In particular the
text after a construct (`EmitRaw` at that pc) is written at the same capture depth no matter which
path was taken through the construct (`break`, `continue`, empty iteration, else branch). -/
theorem text_after_reaches_output {code : Code} {cert : Cert} (hc : checkCert code cert = true)
    {e : Nat} (he : e ∈ entries code) {s : VmState} (hr : Reach code (initAt e) s)
    (hn : noReturn s.frames = true) :
    ∃ A, look cert s.pc = some A ∧
      s.frames = A.frames.map toR ∧ s.caps = A.caps ∧ s.escs = A.escs := by
  obtain ⟨A, hA, hrel⟩ := reach_inv hc (init_inv hc he) hr
  exact ⟨A, hA, hrel.outermost hn⟩

theorem same_pc_same_target {code : Code} {cert : Cert} (hc : checkCert code cert = true)
    {e : Nat} (he : e ∈ entries code) {s₁ s₂ : VmState}
    (h₁ : Reach code (initAt e) s₁) (h₂ : Reach code (initAt e) s₂)
    (n₁ : noReturn s₁.frames = true) (n₂ : noReturn s₂.frames = true) (hpc : s₁.pc = s₂.pc) :
    s₁.caps = s₂.caps ∧ s₁.frames = s₂.frames ∧ s₁.escs = s₂.escs := by
  obtain ⟨A, hA, f1, c1, e1⟩ := text_after_reaches_output hc he h₁ n₁
  obtain ⟨B, hB, f2, c2, e2⟩ := text_after_reaches_output hc he h₂ n₂
  rw [hpc, hB] at hA
  cases hA
  exact ⟨c1.trans c2.symm, f1.trans f2.symm, e1.trans e2.symm⟩

/-! ## The hypotheses are satisfiable; the checker is not vacuous -/

/-- `{% for %}{% with %}{% if %}{% break %}{% endif %}{% endwith %}{% endfor %}` as compiled
with the scope clean-up in front of the jump -/
def goodBreak : Code := #[
  .pushLoop true false, .iterate 8, .pushWith, .jumpIfFalse 6,
  .popFrame, .jump 8,                      -- break: leave the `with` scope, then jump
  .popFrame, .jump 1, .popLoopFrame, .other]

/-- the same with `break` compiled to a bare jump -/
def bareBreak : Code := #[
  .pushLoop true false, .iterate 8, .pushWith, .jumpIfFalse 6,
  .other, .jump 8,
  .popFrame, .jump 1, .popLoopFrame, .other]

/-- recursive loop with the recursion inside a `with` and inside a capture -/
def recursive : Code := #[
  .pushLoop true true, .iterate 10, .pushWith, .fastRecurse, .beginCapture, .callFunction,
  .endCapture, .popFrame, .jump 1, .other, .popLoopFrame, .pushDidNotIterate]

/-- a macro body (entry 1) with a filter block; the main region jumps over it -/
def withMacro : Code := #[
  .jump 6, .beginCapture, .pushAutoEscape, .popAutoEscape, .endCapture, .ret,
  .other, .buildMacro 1, .other]

example : validate goodBreak = true := by decide
example : validate recursive = false := by decide  -- PushDidNotIterate after the loop is gone
example : validate withMacro = true := by decide
example : entries withMacro = [0, 1] := by decide

example : Balanced goodBreak := inferCert_checked _ (by decide)

/-- the checker rejects the bare jump … -/
theorem bareBreak_rejected : validate bareBreak = false := by decide

/-- … and rightly so: the machine really gets stuck (`PopLoopFrame` finds the `with` frame) -/
theorem bareBreak_gets_stuck : ¬ Balanced bareBreak := by
  intro h
  have hr : Reach bareBreak (initAt 0)
      ⟨8, [.withF, .loopF true none none], 0, 0⟩ := by
    have r0 : Reach bareBreak (initAt 0) (initAt 0) := .refl _
    have r1 : Reach bareBreak (initAt 0) ⟨1, [.loopF true none none], 0, 0⟩ :=
      .tail r0 (l := [⟨1, [.loopF true none none], 0, 0⟩]) (by decide) (by simp)
    have r2 : Reach bareBreak (initAt 0) ⟨2, [.loopF true none none], 0, 0⟩ :=
      .tail r1 (l := [⟨2, [.loopF true none none], 0, 0⟩, ⟨8, [.loopF true none none], 0, 0⟩])
        (by decide) (by simp)
    have r3 : Reach bareBreak (initAt 0) ⟨3, [.withF, .loopF true none none], 0, 0⟩ :=
      .tail r2 (l := [⟨3, [.withF, .loopF true none none], 0, 0⟩]) (by decide) (by simp)
    have r4 : Reach bareBreak (initAt 0) ⟨4, [.withF, .loopF true none none], 0, 0⟩ :=
      .tail r3 (l := [⟨4, [.withF, .loopF true none none], 0, 0⟩, ⟨6, [.withF, .loopF true none none], 0, 0⟩])
        (by decide) (by simp)
    have r5 : Reach bareBreak (initAt 0) ⟨5, [.withF, .loopF true none none], 0, 0⟩ :=
      .tail r4 (l := [⟨5, [.withF, .loopF true none none], 0, 0⟩]) (by decide) (by simp)
    exact .tail r5 (l := [⟨8, [.withF, .loopF true none none], 0, 0⟩]) (by decide) (by simp)
  exact (h 0 (by decide) _ hr).1 (by decide)

end MJ.C05
