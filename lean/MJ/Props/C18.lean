import MJ.Proofs.MetaSim
import MJ.Proofs.MetaNested
import MJ.Proofs.MetaSet
import MJ.Proofs.MetaArms
import MJ.Proofs.MetaEsc
import MJ.Gen.Tables
/-!
# C18 — `undeclared_variables` never omits a variable the template reads

Model: `MJ/Model/Meta.lean` (`findUndeclared` / `findUndeclaredNested` = `compiler/meta.rs`
after the `fix:` commits, `reads` = name resolution of the generated code under an arbitrary
choice tree: branches, iteration counts, `break`/`continue`, recursive loops re-entered through
`loop(..)`, blocks rendered in place and through `self.name()`, macro and call-block bodies,
the name expressions of include/import/extends, re-entries nested to any depth `d`, renders
that fail after any number of look-ups).

`MJ/Model/MetaSet.lean`: macro and call-block bodies run where they are *called* (`readsM`:
any statement can call any macro of the template, any number of times, nested and recursive),
the frames of `Context::load`, file sets (`setLog`).  `MJ/Model/MetaArms.lean`: the arms of
`track_walk` / `tracker_visit_expr` / `track_assign` as a table the walkers interpret.
`MJ/Model/MetaEsc.lean`: the closure heap of the engine (macro VALUES carry the id of a shared
closure object and escape their scope), calls of escaped values (`readsE`), host callables that
ask `State::lookup` and globals as explicit parameters (`readsH`).
-/
namespace MJ.C18
open MJ.Meta

/-- Full-strength statement: every context key any execution asks for is reported. -/
def C18_full : Prop :=
  ∀ (t : List Stmt) (cs : List Ch) (d : Nat) (x : String),
    x ∈ reads t cs d → x ∈ findUndeclared t

/-- Every template, every choice tree, every nesting depth of re-entries, failing renders
included: a key the render asks the context for is reported by the analysis. -/
theorem reads_subset_undeclared : C18_full := by
  intro t cs d x hx
  have hflat : (walkList St.init t).nested = none := (step_walkList t St.init).nn rfl
  exact (reported_none hflat x).1 (template_sound t St.init rfl cs d x hx)

/-- a recursive macro (its own name is looked up at the declaration and now reported), a
closure, shadowing:
`{% set x = x %}{% macro m(a, b=q) %}{{ a }}{{ x }}{{ z }}{{ m() }}{% endmacro %}{{ m(y) }}` -/
example : ∃ t cs, reads t cs 0 = ["x", "m", "z", "q", "y"]
    ∧ findUndeclared t = ["y", "m", "z", "q", "x"] :=
  ⟨[.set (.var "x") (.var "x"),
    .macro "m" ["a", "b"] [.var "q"]
      [.emit (.var "a"), .emit (.var "x"), .emit (.var "z"), .emit (.call (.var "m") [])],
    .emit (.call (.var "m") [.pos (.var "y")])],
   [.default, .mk 0 [[]] [] 0, .default], by decide, by decide⟩

/-- a recursive loop re-entered from inside a `with`, a `continue`, a block rendered through
`self.b()` in front of the assignment it seems to rely on, a dynamic include, an import alias:
`{% for a in y recursive %}{% if c %}{% continue %}{% endif %}{% with w = 1 %}{{ loop(a) }}
 {{ q }}{% endwith %}{% endfor %}{{ self.b() }}{% set x = 1 %}{% block b %}{{ x }}{% endblock %}
 {% include tpl %}{% import lib as helpers %}{{ helpers }}` -/
example : ∃ t cs, reads t cs 1 = ["y", "c", "c", "q", "x", "tpl", "lib"]
    ∧ findUndeclared t = ["lib", "tpl", "x", "q", "c", "y"] :=
  ⟨[.forLoop (.var "a") (.var "y") none true
      [.ifCond (.var "c") [.cont] [],
       .withBlock [(.var "w", .const)]
         [.emit (.call (.var "loop") [.pos (.var "a")]), .emit (.var "q")]] [],
    .emit (.call (.getattr (.var "self") "b") []),
    .set (.var "x") .const,
    .block "b" [.emit (.var "x")],
    .include (.var "tpl"),
    .importAs (.var "lib") (.var "helpers"),
    .emit (.var "helpers")],
   [.mk 2 [[.mk 0 [] [] 0,
            .mk 0 [[.mk 0 [] [.mk 0 [[.mk 1 [[]] [] 0]] [] 0] 0, .default]] [] 0]] [] 0,
    .mk 0 [] [.mk 0 [[]] [] 0] 0, .default, .mk 0 [[]] [] 0],
   by decide, by decide⟩

/-- a render that fails in the middle of the second statement (after one of its look-ups)
is an execution of the model like any other:
`{{ a }}{{ b ~ c }}{{ d }}` failing after `b` -/
example : ∃ t cs, reads t cs 0 = ["a", "b"] ∧ findUndeclared t = ["d", "c", "b", "a"] :=
  ⟨[.emit (.var "a"), .emit (.binop (.var "b") (.var "c")), .emit (.var "d")],
   [.default, .mk 0 [] [] 2], by decide, by decide⟩

/-- The assumption "an aborted render performs a prefix of the look-ups" as a theorem of the
model: cutting a statement short (`ab = k + 1`) yields a prefix of the look-ups of the same
choices without the failure. -/
theorem abort_reads_prefix (K : Reenter) (rc : RC) (bt : BT) (top : Frame) (below : List Frame)
    (n : Nat) (subs : List (List Ch)) (reqs : List Ch) (k : Nat) (rest : List Ch)
    (s : Stmt) (ss : List Stmt) :
    (execList K rc bt top below (Ch.mk n subs reqs (k + 1) :: rest) (s :: ss)).reads <+:
      (execList K rc bt top below (Ch.mk n subs reqs 0 :: rest) (s :: ss)).reads := by
  have hexec : ∀ a, exec K rc bt top below (Ch.mk n subs reqs a) s =
      exec K rc bt top below (Ch.mk n subs reqs 0) s := by
    intro a
    cases s <;> simp [exec, Ch.n, Ch.subs, Ch.sub0, Ch.leak]
  simp only [execList, List.headD_cons, Ch.ab, Ch.reqs, List.tail_cons, hexec (k + 1),
    Nat.add_one_ne_zero, ne_eq, not_false_eq_true, if_true, not_true_eq_false, if_false,
    Nat.add_sub_cancel]
  by_cases hs : (exec K rc bt top below (Ch.mk n subs reqs 0) s).stopped = true
  · simp only [hs, if_true]
    exact List.take_prefix _ _
  · simp only [hs]
    exact (List.take_prefix _ _).trans (by
      rw [← List.append_assoc]; exact List.prefix_append _ _)

example : (execList (reenter 0) [] [] [] [] [Ch.mk 0 [] [] 2] [Stmt.emit (.binop (.var "b") (.var "c"))]).reads
    = ["b"] := by decide

/-- The `nested = true` report: every key the render asks the context for is the root of a
reported dotted name (`(x, attrs)` stands for `x.attr₁.attr₂…`). -/
theorem reads_root_of_nested (t : List Stmt) (cs : List Ch) (d : Nat) (x : String)
    (hx : x ∈ reads t cs d) : ∃ attrs, (x, attrs) ∈ findUndeclaredNested t := by
  obtain ⟨n, hn⟩ := (step_walkList t St.initNested).sn (n := []) rfl
  have h := template_sound t St.initNested rfl cs d x hx
  simp only [St.reported, hn] at h
  simpa [findUndeclaredNested, hn] using h

/-- `{{ foo.bar.baz }}{% set x = cfg.a %}{{ x.y }}{{ cfg }}`: the report is
`foo.bar.baz`, `cfg.a`, `cfg`; the render asks for `foo` and `cfg` -/
example : ∃ t cs, reads t cs 0 = ["foo", "cfg", "cfg"]
    ∧ findUndeclaredNested t = [("cfg", []), ("cfg", ["a"]), ("foo", ["bar", "baz"])] :=
  ⟨[.emit (.getattr (.getattr (.var "foo") "bar") "baz"),
    .set (.var "x") (.getattr (.var "cfg") "a"),
    .emit (.getattr (.var "x") "y"),
    .emit (.var "cfg")], [], by decide, by decide⟩

/-- … and every dotted name of the nested report is an attribute path that occurs in the
template: a variable followed by exactly these attribute look-ups. -/
theorem nested_reported_are_paths (t : List Stmt) :
    ∀ l ∈ findUndeclaredNested t, l ∈ leavesL t :=
  nested_subset_leaves t

example : leavesL [Stmt.emit (.getattr (.getattr (.var "foo") "bar") "baz"),
    .set (.var "x") (.getattr (.var "cfg") "a")] =
    [("foo", ["bar", "baz"]), ("cfg", ["a"])] := by decide

/-- The assumption "macro bodies see only their closure frame, their locals and the base
context" as a theorem: in the frames `eval_macro` builds — `[closure ∪ caller, base]` — a
macro's prologue and body ask the render context for nothing (in a template without blocks;
with blocks: only what the blocks ask for): every free name was captured at the declaration. -/
theorem macro_body_asks_nothing (args : List String) (defaults : List Expr) (body : List Stmt)
    (kid : List Ch) (d : Nat) :
    (bindArgs (macroFrame args defaults body) [[]] args.reverse defaults.reverse).2 ++
      (execList (reenter d) [] []
        (bindArgs (macroFrame args defaults body) [[]] args.reverse defaults.reverse).1
        [[]] kid body).reads = [] := by
  apply List.eq_nil_iff_forall_not_mem.2
  intro x hx
  have hctx : Ctx [] (fun _ => False) (fun _ => False) :=
    ⟨fun _ h => h, fun _ hb => (by cases hb)⟩
  exact macro_body_reads (kok_reenter d) args defaults body (sim_walkList body) hctx kid x hx

/-- `{% macro m(a, b=q) %}{{ a }}{{ x }}{{ caller() }}{% endmacro %}`: closure `q`, `x`;
`caller` is a local -/
example : closureNames ["a", "b"] [.var "q"]
      [.emit (.var "a"), .emit (.var "x"), .emit (.call (.var "caller") [])] = ["x", "q"]
    ∧ macroFrame ["a", "b"] [.var "q"]
      [.emit (.var "a"), .emit (.var "x"), .emit (.call (.var "caller") [])] = ["caller", "x", "q"] :=
  ⟨by decide, by decide⟩

/-- The assumption "expressions bind no names", tied to the source: the code
`compile_expr` and the functions it calls emit (regenerated from `codegen.rs`) contains none
of the instructions that change frames or locals; the only way out of expression code is the
macro expression of a call block. -/
theorem expression_code_binds_nothing :
    (∀ i ∈ MJ.Gen.c18ExprInstructions, i ∉ MJ.Gen.c18BindingInstructions) ∧
    (∀ f ∈ MJ.Gen.c18ExprCallees, f ∈ MJ.Gen.c18ExprFunctions ∨ f = "compile_macro_expression") := by
  decide

example : "Lookup" ∈ MJ.Gen.c18ExprInstructions ∧ "StoreLocal" ∈ MJ.Gen.c18BindingInstructions := by
  decide

/-- who may ask the render context for a key, by class -/
def allowedContextReaders : List (String × String) := [
  -- the resolution itself and its two VM callers (`Lookup`, `CallFunction`): the model's `lookups`
  ("minijinja/src/vm/context.rs::load", "name resolution"),
  ("minijinja/src/vm/state.rs::lookup", "name resolution (also the public API for host callables)"),
  ("minijinja/src/vm/mod.rs::eval_impl", "Lookup / CallFunction instructions"),
  -- macro closures: `Enclose` at the declaration, the base context handed to the macro frames
  ("minijinja/src/vm/context.rs::enclose", "macro closure construction"),
  ("minijinja/src/vm/mod.rs::eval_macro", "macro frames (base context)"),
  -- public API of `State` for host code: a host callable may read anything (outside the property)
  ("minijinja/src/vm/state.rs::call_macro", "public API"),
  ("minijinja/src/vm/state.rs::known_variables", "public API"),
  ("minijinja/src/vm/context.rs::known_variables", "public API / debug"),
  -- debug mode only: error reports and `debug()` dump the variables (documented exclusion,
  -- known finding debug-info:referenced-locals)
  ("minijinja/src/vm/state.rs::make_debug_info", "debug mode"),
  ("minijinja/src/vm/context.rs::fmt", "debug mode"),
  -- minijinja-contrib: documented configuration keys (TIMEZONE, DATETIME_FORMAT, DATE_FORMAT,
  -- TIME_FORMAT, TRUNCATE_LEEWAY, RAND_SEED) read by filters the host registers explicitly
  ("minijinja-contrib/src/filters/datetime.rs::dateformat", "contrib configuration key"),
  ("minijinja-contrib/src/filters/datetime.rs::datetimeformat", "contrib configuration key"),
  ("minijinja-contrib/src/filters/datetime.rs::get_timezone", "contrib configuration key"),
  ("minijinja-contrib/src/filters/datetime.rs::timeformat", "contrib configuration key"),
  ("minijinja-contrib/src/filters/mod.rs::truncate", "contrib configuration key"),
  ("minijinja-contrib/src/rand.rs::for_state", "contrib configuration key")]

/-- Source tie for "the VM's name resolution is the only reader of the context": every call
site of `State::lookup` / `Context::load` / the context value / `known_variables` /
`clone_base` / `call_macro` in `minijinja/src` and `minijinja-contrib/src` (regenerated from
the sources) is one of the classified sites above; in particular no builtin filter, test,
function or object method (`c18BuiltinFiles`: `filters.rs`, `tests.rs`, `functions.rs`,
`value/…`, contrib pycompat/globals/tests) reads the context. -/
theorem builtins_do_not_read_context :
    (∀ r ∈ MJ.Gen.c18ContextReaders,
      (r.1 ++ "::" ++ r.2) ∈ allowedContextReaders.map Prod.fst) ∧
    (∀ r ∈ MJ.Gen.c18ContextReaders, r.1 ∉ MJ.Gen.c18BuiltinFiles) := by
  decide

example : ("minijinja/src/vm/mod.rs", "eval_impl") ∈ MJ.Gen.c18ContextReaders
    ∧ "minijinja/src/filters.rs" ∈ MJ.Gen.c18BuiltinFiles := by decide

/-- The analysis cannot hit `unwrap()` on an empty scope stack (either mode). -/
theorem analysis_no_panic (t : List Stmt) :
    (walkList St.init t).bad = false ∧ (walkList St.initNested t).bad = false :=
  ⟨findUndeclared_no_panic t, (step_walkList t St.initNested).bad [] [] rfl⟩

example : (walkList St.init
    [.forLoop (.var "x") (.var "y") none false [.set (.var "z") .const] []]).bad = false :=
  (analysis_no_panic _).1


/-! ## macros and call blocks called anywhere -/

/-- `reads_subset_undeclared` for templates whose macros and call blocks run where they are
called: while ANY statement runs — at top level, inside a loop, a block, another macro's or
the macro's own body, after the names the macro mentions were rebound — the choice tree may
call any macro or call block of the template (`caller` included) any number of times, nested
to any depth `d`; both modes of the analysis.  Excluded: nothing of the template language;
the model calls a macro with the closure `find_macro_closure` computes (the engine's closure
object has at least these entries) and does not model values, so "which macro does this
expression call" is over-approximated by "any". -/
theorem reads_subset_undeclared_calls (t : List Stmt) (cs : List Ch) (d : Nat) (x : String)
    (hx : x ∈ readsM t cs d) :
    x ∈ findUndeclared t ∧ ∃ attrs, (x, attrs) ∈ findUndeclaredNested t := by
  refine ⟨?_, ?_⟩
  · have hflat : (walkList St.init t).nested = none := (step_walkList t St.init).nn rfl
    exact (reported_none hflat x).1 (template_sound_calls t St.init rfl cs d x hx)
  · obtain ⟨n, hn⟩ := (step_walkList t St.initNested).sn (n := []) rfl
    have h := template_sound_calls t St.initNested rfl cs d x hx
    simp only [St.reported, hn] at h
    simpa [findUndeclaredNested, hn] using h

/-- `{% set x = 1 %}{% macro m(a, b=q) %}{{ a }}{{ x }}{{ z }}{{ caller() }}{{ m() }}{% endmacro %}
{% set x = 2 %}{% for i in ys %}{% call m(i) %}{{ i }}{{ w }}{% endcall %}{% endfor %}{{ m(y) }}`:
the last statement calls `m` (after `x` was rebound), whose body calls the call block's
`caller` (declared inside the loop, called after the loop has ended) and `m` again. -/
example : ∃ t cs, readsM t cs 3 = ["m", "z", "q", "ys", "w", "y"]
    ∧ findUndeclared t = ["y", "w", "ys", "m", "z", "q"] ∧ (macroDeclsL t).length = 2 :=
  ⟨[.set (.var "x") .const,
    .macro "m" ["a", "b"] [.var "q"]
      [.emit (.var "a"), .emit (.var "x"), .emit (.var "z"), .emit (.call (.var "caller") []),
       .emit (.call (.var "m") [])],
    .set (.var "x") .const,
    .forLoop (.var "i") (.var "ys") none false
      [.callBlock (.var "m") [.pos (.var "i")] [] [] [.emit (.var "i"), .emit (.var "w")]] [],
    .emit (.call (.var "m") [.pos (.var "y")])],
   [.default, .default, .default,
    .mk 2 [[.mk 0 [] [.mk 0 [[]] [] 0] 0]] [] 0,
    .mk 0 [] [.mk 0 [[.default, .default, .default, .mk 0 [] [.mk 1 [[]] [] 0] 0,
      .mk 0 [] [.mk 0 [[]] [] 0] 0]] [] 0] 0],
   by decide, by decide, by decide⟩

/-- What a macro call asks the context for does not depend on where it is called from: not on
the frames at the call site, not on the loops running there. -/
theorem macro_call_site_independent (mt : List MacroDecl) (K : Reenter) (bt : BT)
    (rc rc' : RC) (top top' : Frame) (below below' : List Frame) (r : Ch)
    (hlen : rc'.length = rc.length) (hm : rc.length + bt.length ≤ r.n) :
    serveM mt K rc bt top below r = serveM mt K rc' bt top' below' r := by
  unfold serveM
  rw [hlen]
  simp [Nat.not_lt.2 hm]

example : serveM [⟨["a"], [], [.emit (.var "a"), .emit (.var "x")]⟩] (reenter 0) [] [] ["x"] []
    (.mk 0 [[]] [] 0) = [] ∧
    closureNames ["a"] [] [.emit (.var "a"), .emit (.var "x")] = ["x"] := by decide

/-- … and the closure is what keeps it quiet: the same body `{{ a }}{{ x }}` run in a closure
frame that lacks `x` asks the context for `x`, which the template
`{% set x = 1 %}{% macro m(a) %}{{ a }}{{ x }}{% endmacro %}{{ m(1) }}` does not report (what the
seeded changes C18-5 and C18-6 do to the engine / to `find_macro_closure`). -/
example : (execList (reenter 0) [] [] ["a"] [[]] [] [.emit (.var "a"), .emit (.var "x")]).reads = ["x"]
    ∧ (execList (reenter 0) [] [] ("a" :: macroFrame ["a"] [] [.emit (.var "a"), .emit (.var "x")]) [[]] []
        [.emit (.var "a"), .emit (.var "x")]).reads = []
    ∧ findUndeclared [.set (.var "x") .const,
        .macro "m" ["a"] [] [.emit (.var "a"), .emit (.var "x")],
        .emit (.call (.var "m") [.pos .const])] = [] := by decide

/-- `Context::load` as modelled (`load`): with frames that carry no context on top of the one
that does, the render context is asked (exactly once) iff no frame has the name among its
locals, as its `loop` variable or in the closure it reads from — `Meta.bound` on the frames'
names; the answer of the context and the globals (consulted last) play no role. -/
theorem context_asked_iff_no_frame_resolves (has : String → Bool) (top : RFrame)
    (below : List RFrame) (h : ∀ f ∈ top :: below, f.ctx = false) (x : String) :
    (load has ((top :: below) ++ [RFrame.root]) x).1 =
      if bound top.names (below.map RFrame.names) x then 0 else 1 :=
  asks_iff_unbound has top below h x

/-- a macro call `[closure frame (local a, closure {x}), base frame]`: `a` is a local, `x` comes
from the closure although the context has it too, `y` is asked of the context and then found
among the globals, `loop` is not special in a macro frame -/
example :
    let stack := [RFrame.macroCall ["a"] ["x"], RFrame.root]
    let has := fun k => k == "x"
    load has stack "a" = (0, .locals) ∧ load has stack "x" = (0, .closure) ∧
    load has stack "y" = (1, .globals) ∧ load has stack "loop" = (1, .globals) ∧
    load has [RFrame.loop ["i"], RFrame.root] "loop" = (0, .loopVar) := by decide

/-- Source tie for the run-time side of closures: the order of the checks in `Context::load`,
the frames `eval_macro` builds, and the code `compile_macro_expression` / `compile_macro` emit
(closure analysis → `caller` flag → one `Enclose` per name → `BuildMacro` → `StoreLocal`;
`Context::enclose` pins a name with its value or undefined) are as the model has them
(regenerated from `vm/context.rs`, `vm/mod.rs`, `compiler/codegen.rs`). -/
theorem closure_and_lookup_order_as_modelled :
    loadOrder = MJ.Gen.c18LoadOrder ∧ macroCallFrames = MJ.Gen.c18MacroCallFrames ∧
    macroCodegen = MJ.Gen.c18MacroCodegen := by decide

example : "closure" ∈ MJ.Gen.c18LoadOrder ∧ "Enclose(each)" ∈ MJ.Gen.c18MacroCodegen := by decide

/-! ## file sets -/

/-- Templates that include / import / extend others: in ANY execution of a file set — any
sequence of activations of the files' units (top level, block bodies, macros), each entered
with whatever frames the file running at that moment has built, each `include` leaving
whatever names behind — every look-up is reported by the analysis of the file whose code
performed it, in both modes.  Look-ups of included / imported / parent templates are theirs. -/
theorem multi_file_sound (files : List (List Stmt)) (acts : List Activation) :
    ∀ p ∈ setLog files acts, ∃ t, files[p.1]? = some t ∧ p.2 ∈ findUndeclared t ∧
      ∃ attrs, (p.2, attrs) ∈ findUndeclaredNested t := by
  intro p hp
  simp only [setLog, List.mem_flatMap, List.mem_map] at hp
  obtain ⟨a, _, x, hx, rfl⟩ := hp
  cases ht : files[a.file]? with
  | none => simp [Activation.reads, ht] at hx
  | some t =>
    refine ⟨t, rfl, ?_, ?_⟩
    · have hflat : (walkList St.init t).nested = none := (step_walkList t St.init).nn rfl
      exact (reported_none hflat x).1 (activation_sound files a t ht St.init rfl x hx)
    · obtain ⟨n, hn⟩ := (step_walkList t St.initNested).sn (n := []) rfl
      have h := activation_sound files a t ht St.initNested rfl x hx
      simp only [St.reported, hn] at h
      simpa [findUndeclaredNested, hn] using h

/-- main = `{% extends "base" %}{% set x = 1 %}{% include "inc" %}{{ leaked }}{{ other }}
{% block b %}{{ x }}{{ u }}{% endblock %}`, inc = `{{ x }}{{ inc_var }}{% set leaked = 1 %}`,
base = `{{ base_var }}{% block b %}{{ base_b }}{% endblock %}`: main's top level (the include
leaves `leaked` behind), inc entered with main's frame (`x` bound), base as the parent in
main's root frame, main's block entered from base, and once more on its own
(`render_block`, nothing bound). -/
example : ∃ files acts,
    setLog files acts = [(0, "other"), (0, "u"), (1, "inc_var"), (2, "base_var"), (2, "base_b"),
      (0, "u"), (0, "x"), (0, "u")] ∧
    files.map findUndeclared = [["u", "x", "other", "leaked"], ["inc_var", "x"], ["base_b", "base_var"]] :=
  ⟨[[.extends .const, .set (.var "x") .const, .include .const, .emit (.var "leaked"),
      .emit (.var "other"), .block "b" [.emit (.var "x"), .emit (.var "u")]],
    [.emit (.var "x"), .emit (.var "inc_var"), .set (.var "leaked") .const],
    [.emit (.var "base_var"), .block "b" [.emit (.var "base_b")]]],
   [{ file := 0, unit := .top, cs := [.default, .default,
        .mk 0 [[.mk 108 [] [] 0, .mk 101 [] [] 0, .mk 97 [] [] 0, .mk 107 [] [] 0, .mk 101 [] [] 0,
          .mk 100 [] [] 0]] [] 0] },
    { file := 1, unit := .top, top := ["x"] },
    { file := 2, unit := .top, top := ["leaked", "x"] },
    { file := 0, unit := .block 0, top := ["leaked", "x"] },
    { file := 0, unit := .block 0 }],
   by decide, by decide⟩

/-! ## the arms of `meta.rs` -/

/-- Source tie for the analysis itself: the operations of every arm of `track_walk`,
`tracker_visit_expr` and `track_assign` — which children are visited, in which order, where
the scope is pushed and popped, which names are assigned when — and the control skeletons of
`Expr::Var`, `Expr::GetAttr` and of the helper functions, regenerated from `meta.rs`, are the
tables of `MJ/Model/MetaArms.lean`. -/
theorem analysis_arms_as_modelled :
    renderRows modelWalkArms = MJ.Gen.c18TrackWalkArms ∧
    renderRows modelExprArms = MJ.Gen.c18VisitExprArms ∧
    renderRows modelAssignArms = MJ.Gen.c18TrackAssignArms ∧
    renderRows modelHelpers = MJ.Gen.c18TrackerHelpers := by decide

example : ("ForLoop", "", ["push", "visit @.iter", "assign_target @.target", "visit_opt @.filter_expr",
    "assign_lit loop", "each @.body $1 [", "walk $1", "]", "pop", "push", "each @.else_body $1 [",
    "walk $1", "]", "pop"]) ∈ MJ.Gen.c18TrackWalkArms := by decide

/-- … and the model's walkers ARE the interpretation of those tables: a statement is walked by
running the operations of its row (`runOps`), an expression whose row is a list of operations
is visited by them (`opsLeaves`: the leaves in that order; `Var` and `GetAttr` are the two rows
with logic), an assignment target is tracked by its row (`opsAtoms`). -/
theorem walkers_interpret_arms :
    (∀ st s, walk st s = runOps walkList s.view (stmtOps s) st ∧
      ∃ cfg, (s.variant, cfg, Arm.ops (stmtOps s)) ∈ modelWalkArms) ∧
    (∀ st t, walkList st t =
      runOps walkList (fun f => if f = "children" then .stmts t else .unit) armTemplate st) ∧
    (∀ e os, exprOps e = some os →
      nvars e = opsLeaves e.view os ∧ (e.variant, "", Arm.ops os) ∈ modelExprArms) ∧
    (∀ e, targetAtoms e = opsAtoms e.view (targetOps e)) := by
  refine ⟨fun st s => ⟨walk_interprets_arm st s, stmtOps_row s⟩, walkList_interprets_template,
    fun e os h => ⟨nvars_interprets_arm e os h, ?_⟩, targetAtoms_interprets_arm⟩
  rcases exprOps_row e with ⟨os', h1, h2⟩ | ⟨h1, _⟩
  · rw [h] at h1; cases h1; exact h2
  · rw [h] at h1; cases h1

example : stmtOps (.forLoop (.var "x") (.var "y") none false [] []) = armForLoop ∧
    exprOps (.binop (.var "a") (.var "b")) = some eArmBinOp := ⟨rfl, rfl⟩

/-! ## macro values that escape their scope -/

/-- The sharing discipline of closure objects, as a theorem about the closure heap machine:
after ANY history of the engine's operations (frames pushed and popped, stores, macro
declarations, loop iterations that clear the frame and detach its closure, includes that take
the closure away and put it back, macro calls in contexts of their own, in any order and
nesting) every macro value built so far — wherever the template parked it — still finds every
name its body captured (`find_macro_closure ∖ {caller}`) in the closure object it points to,
and a longer history only adds keys to the closure objects. -/
theorem closure_keys_never_lost (history more : List Ev) :
    (∀ v ∈ (Heap.run history).pool,
      ∀ x ∈ closureNames v.decl.args v.decl.defaults v.decl.body,
        x ∈ (Heap.run history).keys v.closure) ∧
    (∀ c k, (Heap.run history).has c k = true → (Heap.run (history ++ more)).has c k = true) :=
  ⟨fun v hv x hx => mem_keys_of_has _ _ _ (run_good history v hv x hx),
   fun c k hk => has_mono (run_mono history more) c k hk⟩

/-- `{% set y = 1 %}{% for i in [1, 2] %}{% if loop.first %}{% macro m() %}{{ y }}{% endmacro %}
{% set ns.m = m %}{% endif %}{% endfor %}{{ ns.m() }}` (the demo of the seeded change C18-7):
the macro is declared in the first iteration, the second iteration detaches the closure of the
loop frame; the value's closure object still has `y`. -/
example :
    let m : MacroDecl := ⟨[], [], [.emit (.var "y")]⟩
    let history := [Ev.store "y", .pushLoop, .iterate, .store "i", .declare m, .store "m",
      .iterate, .store "i", .popFrame]
    (Heap.run history).pool.map (fun v => (Heap.run history).keys v.closure) = [["m", "y"]] ∧
    (Heap.run history).complete = true := by decide

/-- … and the engine of the seeded change C18-7 (`next_loop_item` clears the closure object in
place and keeps it attached) violates exactly this: after the same history the parked macro's
closure object is empty. -/
theorem clearing_in_place_loses_keys :
    ∃ history, (Heap.runClearing history).complete = false ∧ (Heap.run history).complete = true :=
  ⟨[Ev.store "y", .pushLoop, .iterate, .store "i", .declare ⟨[], [], [.emit (.var "y")]⟩,
    .store "m", .iterate, .store "i", .popFrame], by decide, by decide⟩

/-- Source tie for the sharing discipline: every site of `minijinja/src` that creates, reads,
fills, detaches or shares a closure object or a closure field of a frame or of a macro value
(regenerated from the sources) is a row of the model's table, where it is assigned to an event
of the closure heap machine; the operations on closure OBJECTS among them are creation,
insertion and reads only (nothing clears, removes, truncates or replaces), and the only
assignments to `Frame::closure` are the detach of `next_loop_item` and `reset_closure`. -/
theorem closure_sites_as_modelled :
    closureSites.map (fun s => (s.file, s.fn, s.op)) = MJ.Gen.c18ClosureSites ∧
    (∀ s ∈ MJ.Gen.c18ClosureSites, s.2.2 ∈ closureObjectOps ∨ s.2.2 ∈ closureFieldOps) ∧
    (MJ.Gen.c18ClosureSites.filter (fun s => s.2.2 ∈ ["frame.closure=None", "frame.closure=closure",
        "frame.closure.take"])).map (fun s => s.2.1) =
      ["next_loop_item", "reset_closure", "take_closure"] := by
  decide

example : ("minijinja/src/vm/context.rs", "next_loop_item", "frame.closure=None") ∈ MJ.Gen.c18ClosureSites
    ∧ "map.clear" ∉ closureObjectOps ∧ "map.clear" ∉ closureFieldOps := by decide

/-- `reads_subset_undeclared` for templates whose macro VALUES escape: while any statement
runs, the choice tree may call any macro value that ANY history of the engine produced (`W k`:
what the engine did with frames and closure objects before the call — in this template or in
the one that exported the value — and which value of the pool is called: parked in a namespace
attribute, a list, a map, a host object, handed over as an argument or as `caller`, imported),
any number of times, nested and recursive to any depth, besides everything
`reads_subset_undeclared_calls` allows.  The call runs in `[closure frame, base frame]` where
the closure frame resolves what the value's closure object holds at that moment (at least the
names the body captured: `closure_keys_never_lost`).  Every context key asked is reported, in
both modes of the analysis. -/
theorem escaped_macro_reads_subset_undeclared (W : Nat → EscCall) (t : List Stmt) (cs : List Ch)
    (d : Nat) (x : String) (hx : x ∈ readsE W t cs d) :
    x ∈ findUndeclared t ∧ ∃ attrs, (x, attrs) ∈ findUndeclaredNested t := by
  refine ⟨?_, ?_⟩
  · have hflat : (walkList St.init t).nested = none := (step_walkList t St.init).nn rfl
    exact (reported_none hflat x).1 (template_sound_esc W t St.init rfl cs d x hx)
  · obtain ⟨n, hn⟩ := (step_walkList t St.initNested).sn (n := []) rfl
    have h := template_sound_esc W t St.initNested rfl cs d x hx
    simp only [St.reported, hn] at h
    simpa [findUndeclaredNested, hn] using h

/-- the demo of C18-7 as an execution of the model: the last statement `{{ ns.m() }}` calls the
value the history built (request 1 = the first escaped value: the template has one macro);
the call asks the context for nothing (`y` and the free name `u`, pinned by `Enclose` at the
declaration, come from the closure object); the look-ups are `namespace` and the `Enclose` of
`u` at the declaration, both reported -/
example :
    let m : MacroDecl := ⟨[], [], [.emit (.var "y"), .emit (.var "u")]⟩
    let W : Nat → EscCall := fun _ =>
      ⟨[Ev.store "y", .pushLoop, .iterate, .store "i", .declare m, .store "m", .iterate, .store "i",
        .popFrame], 0⟩
    let t : List Stmt := [.set (.var "y") .const, .set (.var "ns") (.call (.var "namespace") []),
      .forLoop (.var "i") .const none false
        [.ifCond (.getattr (.var "loop") "first")
          [.macro "m" [] [] [.emit (.var "y"), .emit (.var "u")],
           .set (.getattr (.var "ns") "m") (.var "m")] []] [],
      .emit (.call (.getattr (.var "ns") "m") [])]
    readsE W t [.default, .default, .mk 2 [[.mk 1 [[]] [] 0], [.mk 0 [[]] [] 0]] [] 0,
        .mk 0 [] [.mk 1 [[]] [] 0] 0] 2 = ["namespace", "u"] ∧
    findUndeclared t = ["u", "namespace"] ∧
    (W 0).target.map Prod.snd = some ["m", "y", "u"] := by decide

/-! ## host callables and globals -/

/-- Host callables and globals as explicit parameters: `hosts` lists, for every host callable
of the environment (function, filter, test, object method), the names it may ask
`State::lookup` for.  While any statement runs the choice tree may invoke any of them, any
number of times, at any nesting depth; a callable sees the frames of that moment
(`Context::load`: a name some frame resolves does not reach the context) and may call template
values back.  Every context key a render asks for is then reported by the analysis (both
modes) or is one of the names a host callable asks for. -/
theorem reads_subset_undeclared_hosts (hosts : List (List String)) (W : Nat → EscCall)
    (t : List Stmt) (cs : List Ch) (d : Nat) (x : String) (hx : x ∈ readsH hosts W t cs d) :
    (x ∈ findUndeclared t ∧ ∃ attrs, (x, attrs) ∈ findUndeclaredNested t) ∨
      ∃ h ∈ hosts, x ∈ h := by
  have hflat : (walkList St.init t).nested = none := (step_walkList t St.init).nn rfl
  obtain ⟨n, hn⟩ := (step_walkList t St.initNested).sn (n := []) rfl
  rcases template_sound_hosts hosts W t St.init rfl cs d x hx with h1 | h1
  · rcases template_sound_hosts hosts W t St.initNested rfl cs d x hx with h2 | h2
    · left
      refine ⟨(reported_none hflat x).1 h1, ?_⟩
      simp only [St.reported, hn] at h2
      simpa [findUndeclaredNested, hn] using h2
    · exact Or.inr h2
  · exact Or.inr h1

/-- a host callable that asks for `cfg` while `{% with cfg = 1 %}…{% endwith %}` runs sees the
with frame (nothing reaches the context); invoked after the block it asks the context -/
example :
    readsH [["cfg"]] (fun _ => {}) [.withBlock [(.var "cfg", .const)] [.emit (.call (.var "gf") [])],
      .emit (.call (.var "gf") [])]
      [.mk 0 [[.mk 0 [] [.mk 0 [[]] [] 0] 0]] [] 0, .mk 0 [] [.mk 0 [[]] [] 0] 0] 2 = ["gf", "cfg", "gf"] := by
  decide

/-- The statement of the property with its exception: when the host callables only ask for
names that are globals of the environment (contrib's `TIMEZONE`, `DATETIME_FORMAT`, … are
meant to be set as globals), every context key a render asks for is reported or is one of the
environment's globals.  Globals themselves never save a look-up: `Context::load` asks the
context first (`context_asked_iff_no_frame_resolves`). -/
theorem reads_subset_undeclared_or_global (globals : List String) (hosts : List (List String))
    (hg : ∀ h ∈ hosts, ∀ x ∈ h, x ∈ globals) (W : Nat → EscCall)
    (t : List Stmt) (cs : List Ch) (d : Nat) (x : String) (hx : x ∈ readsH hosts W t cs d) :
    x ∈ findUndeclared t ∨ x ∈ globals := by
  rcases reads_subset_undeclared_hosts hosts W t cs d x hx with h | ⟨h, hh, hx'⟩
  · exact Or.inl h.1
  · exact Or.inr (hg h hh x hx')

/-- `{% set y = 1 %}{% macro m() %}{{ y }}{{ peek() }}{% endmacro %}{{ m() }}{{ peek() }}` with
a host callable `peek` that asks for `y` and `TZ`: called from the macro body (request 2 of the
body's second statement: targets are `[host 0, macro 0]`) it sees the closure frame (`y`
resolved, `TZ` asked); called at top level it sees the root frame (`y` bound there too);
`peek` itself is asked at the declaration of `m` (`Enclose`) and by the last statement -/
example :
    let t : List Stmt := [.set (.var "y") .const,
      .macro "m" [] [] [.emit (.var "y"), .emit (.call (.var "peek") [])],
      .emit (.call (.var "m") []), .emit (.call (.var "peek") [])]
    readsH [["y", "TZ"]] (fun _ => {}) t
      [.default, .default,
       .mk 0 [] [.mk 1 [[.default, .mk 0 [] [.mk 0 [[]] [] 0] 0]] [] 0] 0,
       .mk 0 [] [.mk 0 [[]] [] 0] 0] 3 = ["peek", "TZ", "TZ", "peek"] ∧
    findUndeclared t = ["peek", "peek"] := by decide

end MJ.C18
