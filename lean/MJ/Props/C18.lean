import MJ.Proofs.MetaSim
/-!
# C18 — `undeclared_variables` never omits a variable the template reads

Model: `MJ/Model/Meta.lean` (`findUndeclared` = `compiler/meta.rs` after the `fix:` commit,
`reads` = name resolution of the generated code under an arbitrary choice tree).
-/
namespace MJ.C18
open MJ.Meta

/-- Full-strength statement: every context key any execution asks for is reported. -/
def C18_full : Prop :=
  ∀ (t : List Stmt) (cs : List Ch) (x : String), x ∈ reads t cs → x ∈ findUndeclared t

/-- The whole fragment (loops, conditionals, with/set/set-block/filter-block/autoescape,
macros, call blocks, do), every choice tree: a key the render asks the context for is reported
by the analysis, or it is the name of a macro whose own closure analysis mentions that name
(the known finding: `Enclose(name)` runs before `StoreLocal(name)`). -/
theorem reads_subset_undeclared_or_selfref (t : List Stmt) (cs : List Ch) (x : String)
    (hx : x ∈ reads t cs) : x ∈ findUndeclared t ∨ x ∈ selfRefsL t := by
  have hinit : Inv [] [] St.init := by
    intro y hy; simp [St.init, St.isAssigned] at hy
  exact (sim_walkList t St.init [] [] cs hinit).reads x hx

example : ∃ t cs x, x ∈ reads t cs ∧ x ∈ findUndeclared t ∧ selfRefsL t ≠ [] :=
  ⟨[.macro "m" [] [] [.emit (.var "m"), .emit (.var "y")]], [], "y", by decide, by decide, by decide⟩

/-- Soundness for templates without self-referential macros. -/
theorem reads_subset_undeclared (t : List Stmt) (hself : selfRefsL t = [])
    (cs : List Ch) (x : String) (hx : x ∈ reads t cs) : x ∈ findUndeclared t := by
  rcases reads_subset_undeclared_or_selfref t cs x hx with h | h
  · exact h
  · rw [hself] at h; cases h

/-- hypotheses satisfiable by a template with a macro, a closure, shadowing and a real read:
`{% set x = x %}{% macro m(a, b=q) %}{{ a }}{{ x }}{{ z }}{% endmacro %}{{ m(y) }}` -/
example : ∃ t cs, selfRefsL t = [] ∧ reads t cs = ["x", "z", "q", "y"]
    ∧ findUndeclared t = ["y", "z", "q", "x"] :=
  ⟨[.set (.var "x") (.var "x"),
    .macro "m" ["a", "b"] [.var "q"] [.emit (.var "a"), .emit (.var "x"), .emit (.var "z")],
    .emit (.call (.var "m") [.pos (.var "y")])],
   [.default, .mk 0 [[]], .default], by decide, by decide, by decide⟩

/-- Phase 1: the macro-free fragment. -/
theorem reads_subset_undeclared_partial (t : List Stmt) (hno : noMacroL t = true)
    (cs : List Ch) (x : String) (hx : x ∈ reads t cs) : x ∈ findUndeclared t :=
  reads_subset_undeclared t (noMacroL_selfRefsL t hno) cs x hx

/-- hypotheses satisfiable with shadowing in every construct:
`{% for x in x %}{{ x }}{{ loop }}{% endfor %}{% with a = a %}{{ a }}{% endwith %}
 {% if c %}{% set y = 1 %}{% endif %}{{ y }}{{ foo[q:] }}` -/
example : ∃ t cs, noMacroL t = true ∧ reads t cs = ["x", "a", "c", "y", "foo", "q"]
    ∧ findUndeclared t = ["q", "foo", "y", "c", "a", "x"] :=
  ⟨[.forLoop (.var "x") (.var "x") none [.emit (.var "x"), .emit (.var "loop")] [],
    .withBlock [(.var "a", .var "a")] [.emit (.var "a")],
    .ifCond (.var "c") [.set (.var "y") .const] [],
    .emit (.var "y"),
    .emit (.slice (.var "foo") (some (.var "q")) none none)],
   [.mk 2 [[]], .default, .default], by decide, by decide, by decide⟩

/-- The full statement fails on the current code: a macro that mentions its own name makes the
declaration ask the context for that name, and the analysis (rightly) does not report it. -/
theorem C18_counterexample : ¬ C18_full := by
  intro h
  have := h [.macro "m" [] [] [.emit (.var "m")]] [] "m" (by decide)
  revert this
  decide

/-- The analysis cannot hit `unwrap()` on an empty scope stack. -/
theorem analysis_no_panic (t : List Stmt) : (walkList St.init t).bad = false :=
  findUndeclared_no_panic t

example : (walkList St.init [.forLoop (.var "x") (.var "y") none [.set (.var "z") .const] []]).bad
    = false := analysis_no_panic _

end MJ.C18
