import MJ.Proofs.MetaSim
/-!
# C18 — `undeclared_variables` never omits a variable the template reads

Model: `MJ/Model/Meta.lean` (`findUndeclared` / `findUndeclaredNested` = `compiler/meta.rs`
after the `fix:` commits, `reads` = name resolution of the generated code under an arbitrary
choice tree, with `break`/`continue`, recursive loops re-entered through `loop(..)`, blocks
rendered in place and through `self.name()`, re-entries nested to any depth `d`).
-/
namespace MJ.C18
open MJ.Meta

/-- Full-strength statement: every context key any execution asks for is reported. -/
def C18_full : Prop :=
  ∀ (t : List Stmt) (cs : List Ch) (d : Nat) (x : String),
    x ∈ reads t cs d → x ∈ findUndeclared t

/-- The whole fragment (loops with filter/else/recursion/break/continue, conditionals,
with/set/set-block/filter-block/autoescape, blocks and `self.name()`, macros, call blocks,
do), every choice tree, every nesting depth of re-entries: a key the render asks the context
for is reported by the analysis, or it is the name of a macro whose own closure analysis
mentions that name (the known finding: `Enclose(name)` runs before `StoreLocal(name)`). -/
theorem reads_subset_undeclared_or_selfref (t : List Stmt) (cs : List Ch) (d : Nat) (x : String)
    (hx : x ∈ reads t cs d) : x ∈ findUndeclared t ∨ x ∈ selfRefsL t := by
  have hflat : (walkList St.init t).nested = none := (step_walkList t St.init).nn rfl
  rcases template_sound t St.init rfl cs d x hx with h | h
  · exact Or.inl ((reported_none hflat x).1 h)
  · exact Or.inr h

example : ∃ t cs d x, x ∈ reads t cs d ∧ x ∈ findUndeclared t ∧ selfRefsL t ≠ [] :=
  ⟨[.macro "m" [] [] [.emit (.var "m"), .emit (.var "y")]], [], 0, "y",
    by decide, by decide, by decide⟩

/-- Soundness for templates without self-referential macros. -/
theorem reads_subset_undeclared (t : List Stmt) (hself : selfRefsL t = [])
    (cs : List Ch) (d : Nat) (x : String) (hx : x ∈ reads t cs d) : x ∈ findUndeclared t := by
  rcases reads_subset_undeclared_or_selfref t cs d x hx with h | h
  · exact h
  · rw [hself] at h; cases h

/-- hypotheses satisfiable by a template with a macro, a closure, shadowing and a real read:
`{% set x = x %}{% macro m(a, b=q) %}{{ a }}{{ x }}{{ z }}{% endmacro %}{{ m(y) }}` -/
example : ∃ t cs, selfRefsL t = [] ∧ reads t cs 0 = ["x", "z", "q", "y"]
    ∧ findUndeclared t = ["y", "z", "q", "x"] :=
  ⟨[.set (.var "x") (.var "x"),
    .macro "m" ["a", "b"] [.var "q"] [.emit (.var "a"), .emit (.var "x"), .emit (.var "z")],
    .emit (.call (.var "m") [.pos (.var "y")])],
   [.default, .mk 0 [[]] [], .default], by decide, by decide, by decide⟩

/-- a recursive loop re-entered from inside a `with`, a `continue`, a block rendered through
`self.b()` in front of the assignment it seems to rely on:
`{% for a in y recursive %}{% if c %}{% continue %}{% endif %}{% with w = 1 %}{{ loop(a) }}
 {{ q }}{% endwith %}{% endfor %}{{ self.b() }}{% set x = 1 %}{% block b %}{{ x }}{% endblock %}` -/
example : ∃ t cs, selfRefsL t = [] ∧ reads t cs 1 = ["y", "c", "c", "q", "x"]
    ∧ findUndeclared t = ["x", "q", "c", "y"] :=
  ⟨[.forLoop (.var "a") (.var "y") none true
      [.ifCond (.var "c") [.cont] [],
       .withBlock [(.var "w", .const)]
         [.emit (.call (.var "loop") [.pos (.var "a")]), .emit (.var "q")]] [],
    .emit (.call (.getattr (.var "self") "b") []),
    .set (.var "x") .const,
    .block "b" [.emit (.var "x")]],
   [.mk 2 [[.mk 0 [] [], .mk 0 [[.mk 0 [] [.mk 0 [[.mk 1 [[]] []]] []], .default]] []]] [],
    .mk 0 [] [.mk 0 [[]] []], .default, .mk 0 [[]] []],
   by decide, by decide, by decide⟩

/-- Phase 1: the macro-free fragment. -/
theorem reads_subset_undeclared_partial (t : List Stmt) (hno : noMacroL t = true)
    (cs : List Ch) (d : Nat) (x : String) (hx : x ∈ reads t cs d) : x ∈ findUndeclared t :=
  reads_subset_undeclared t (noMacroL_selfRefsL t hno) cs d x hx

/-- hypotheses satisfiable with shadowing in every construct:
`{% for x in x %}{{ x }}{{ loop }}{% endfor %}{% with a = a %}{{ a }}{% endwith %}
 {% if c %}{% set y = 1 %}{% endif %}{{ y }}{{ foo[q:] }}` -/
example : ∃ t cs, noMacroL t = true ∧ reads t cs 0 = ["x", "a", "c", "y", "foo", "q"]
    ∧ findUndeclared t = ["q", "foo", "y", "c", "a", "x"] :=
  ⟨[.forLoop (.var "x") (.var "x") none false [.emit (.var "x"), .emit (.var "loop")] [],
    .withBlock [(.var "a", .var "a")] [.emit (.var "a")],
    .ifCond (.var "c") [.set (.var "y") .const] [],
    .emit (.var "y"),
    .emit (.slice (.var "foo") (some (.var "q")) none none)],
   [.mk 2 [[]] [], .default, .default], by decide, by decide, by decide⟩

/-- The `nested = true` report: every key the render asks the context for is the root of a
reported dotted name (`(x, attrs)` stands for `x.attr₁.attr₂…`), with the same exception. -/
theorem reads_root_of_nested_or_selfref (t : List Stmt) (cs : List Ch) (d : Nat) (x : String)
    (hx : x ∈ reads t cs d) :
    (∃ attrs, (x, attrs) ∈ findUndeclaredNested t) ∨ x ∈ selfRefsL t := by
  obtain ⟨n, hn⟩ := (step_walkList t St.initNested).sn (n := []) rfl
  rcases template_sound t St.initNested rfl cs d x hx with h | h
  · left
    simp only [St.reported, hn] at h
    simpa [findUndeclaredNested, hn] using h
  · exact Or.inr h

/-- `{{ foo.bar.baz }}{% set x = cfg.a %}{{ x.y }}{{ cfg }}`: the report is
`foo.bar.baz`, `cfg.a`, `cfg`; the render asks for `foo` and `cfg` -/
example : ∃ t cs, reads t cs 0 = ["foo", "cfg", "cfg"]
    ∧ findUndeclaredNested t = [("cfg", []), ("cfg", ["a"]), ("foo", ["bar", "baz"])] :=
  ⟨[.emit (.getattr (.getattr (.var "foo") "bar") "baz"),
    .set (.var "x") (.getattr (.var "cfg") "a"),
    .emit (.getattr (.var "x") "y"),
    .emit (.var "cfg")], [], by decide, by decide⟩

theorem reads_root_of_nested (t : List Stmt) (hself : selfRefsL t = [])
    (cs : List Ch) (d : Nat) (x : String) (hx : x ∈ reads t cs d) :
    ∃ attrs, (x, attrs) ∈ findUndeclaredNested t := by
  rcases reads_root_of_nested_or_selfref t cs d x hx with h | h
  · exact h
  · rw [hself] at h; cases h

example : selfRefsL [Stmt.emit (.getattr (.var "foo") "bar")] = [] := by decide

/-- The full statement fails on the current code: a macro that mentions its own name makes the
declaration ask the context for that name, and the analysis (rightly) does not report it. -/
theorem C18_counterexample : ¬ C18_full := by
  intro h
  have := h [.macro "m" [] [] [.emit (.var "m")]] [] 0 "m" (by decide)
  revert this
  decide

/-- The analysis cannot hit `unwrap()` on an empty scope stack (either mode). -/
theorem analysis_no_panic (t : List Stmt) :
    (walkList St.init t).bad = false ∧ (walkList St.initNested t).bad = false :=
  ⟨findUndeclared_no_panic t, (step_walkList t St.initNested).bad [] [] rfl⟩

example : (walkList St.init
    [.forLoop (.var "x") (.var "y") none false [.set (.var "z") .const] []]).bad = false :=
  (analysis_no_panic _).1

end MJ.C18
