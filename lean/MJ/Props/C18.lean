import MJ.Proofs.MetaSim
import MJ.Proofs.MetaNested
import MJ.Gen.Tables
/-!
# C18 — `undeclared_variables` never omits a variable the template reads

Model: `MJ/Model/Meta.lean` (`findUndeclared` / `findUndeclaredNested` = `compiler/meta.rs`
after the `fix:` commits, `reads` = name resolution of the generated code under an arbitrary
choice tree: branches, iteration counts, `break`/`continue`, recursive loops re-entered through
`loop(..)`, blocks rendered in place and through `self.name()`, macro and call-block bodies,
the name expressions of include/import/extends, re-entries nested to any depth `d`, renders
that fail after any number of look-ups).
-/
namespace MJ.C18
open MJ.Meta

/-- Full-strength statement: every context key any execution asks for is reported. -/
def C18_full : Prop :=
  ∀ (t : List Stmt) (cs : List Ch) (d : Nat) (x : String),
    x ∈ reads t cs d → x ∈ findUndeclared t

/-- Every template, every choice tree, every nesting depth of re-entries, failing renders
included: a key the render asks the context for is reported by the analysis. -/
theorem reads_subset_undeclared : C18_full := by
  intro t cs d x hx
  have hflat : (walkList St.init t).nested = none := (step_walkList t St.init).nn rfl
  exact (reported_none hflat x).1 (template_sound t St.init rfl cs d x hx)

/-- a recursive macro (its own name is looked up at the declaration and now reported), a
closure, shadowing:
`{% set x = x %}{% macro m(a, b=q) %}{{ a }}{{ x }}{{ z }}{{ m() }}{% endmacro %}{{ m(y) }}` -/
example : ∃ t cs, reads t cs 0 = ["x", "m", "z", "q", "y"]
    ∧ findUndeclared t = ["y", "m", "z", "q", "x"] :=
  ⟨[.set (.var "x") (.var "x"),
    .macro "m" ["a", "b"] [.var "q"]
      [.emit (.var "a"), .emit (.var "x"), .emit (.var "z"), .emit (.call (.var "m") [])],
    .emit (.call (.var "m") [.pos (.var "y")])],
   [.default, .mk 0 [[]] [] 0, .default], by decide, by decide⟩

/-- a recursive loop re-entered from inside a `with`, a `continue`, a block rendered through
`self.b()` in front of the assignment it seems to rely on, a dynamic include, an import alias:
`{% for a in y recursive %}{% if c %}{% continue %}{% endif %}{% with w = 1 %}{{ loop(a) }}
 {{ q }}{% endwith %}{% endfor %}{{ self.b() }}{% set x = 1 %}{% block b %}{{ x }}{% endblock %}
 {% include tpl %}{% import lib as helpers %}{{ helpers }}` -/
example : ∃ t cs, reads t cs 1 = ["y", "c", "c", "q", "x", "tpl", "lib"]
    ∧ findUndeclared t = ["lib", "tpl", "x", "q", "c", "y"] :=
  ⟨[.forLoop (.var "a") (.var "y") none true
      [.ifCond (.var "c") [.cont] [],
       .withBlock [(.var "w", .const)]
         [.emit (.call (.var "loop") [.pos (.var "a")]), .emit (.var "q")]] [],
    .emit (.call (.getattr (.var "self") "b") []),
    .set (.var "x") .const,
    .block "b" [.emit (.var "x")],
    .include (.var "tpl"),
    .importAs (.var "lib") (.var "helpers"),
    .emit (.var "helpers")],
   [.mk 2 [[.mk 0 [] [] 0,
            .mk 0 [[.mk 0 [] [.mk 0 [[.mk 1 [[]] [] 0]] [] 0] 0, .default]] [] 0]] [] 0,
    .mk 0 [] [.mk 0 [[]] [] 0] 0, .default, .mk 0 [[]] [] 0],
   by decide, by decide⟩

/-- a render that fails in the middle of the second statement (after one of its look-ups)
is an execution of the model like any other:
`{{ a }}{{ b ~ c }}{{ d }}` failing after `b` -/
example : ∃ t cs, reads t cs 0 = ["a", "b"] ∧ findUndeclared t = ["d", "c", "b", "a"] :=
  ⟨[.emit (.var "a"), .emit (.binop (.var "b") (.var "c")), .emit (.var "d")],
   [.default, .mk 0 [] [] 2], by decide, by decide⟩

/-- The assumption "an aborted render performs a prefix of the look-ups" as a theorem of the
model: cutting a statement short (`ab = k + 1`) yields a prefix of the look-ups of the same
choices without the failure. -/
theorem abort_reads_prefix (K : Reenter) (rc : RC) (bt : BT) (top : Frame) (below : List Frame)
    (n : Nat) (subs : List (List Ch)) (reqs : List Ch) (k : Nat) (rest : List Ch)
    (s : Stmt) (ss : List Stmt) :
    (execList K rc bt top below (Ch.mk n subs reqs (k + 1) :: rest) (s :: ss)).reads <+:
      (execList K rc bt top below (Ch.mk n subs reqs 0 :: rest) (s :: ss)).reads := by
  have hexec : ∀ a, exec K rc bt top below (Ch.mk n subs reqs a) s =
      exec K rc bt top below (Ch.mk n subs reqs 0) s := by
    intro a
    cases s <;> simp [exec, Ch.n, Ch.subs, Ch.sub0]
  simp only [execList, List.headD_cons, Ch.ab, Ch.reqs, List.tail_cons, hexec (k + 1),
    Nat.add_one_ne_zero, ne_eq, not_false_eq_true, if_true, not_true_eq_false, if_false,
    Nat.add_sub_cancel]
  by_cases hs : (exec K rc bt top below (Ch.mk n subs reqs 0) s).stopped = true
  · simp only [hs, if_true]
    exact List.take_prefix _ _
  · simp only [hs]
    exact (List.take_prefix _ _).trans (by
      rw [← List.append_assoc]; exact List.prefix_append _ _)

example : (execList (reenter 0) [] [] [] [] [Ch.mk 0 [] [] 2] [Stmt.emit (.binop (.var "b") (.var "c"))]).reads
    = ["b"] := by decide

/-- The `nested = true` report: every key the render asks the context for is the root of a
reported dotted name (`(x, attrs)` stands for `x.attr₁.attr₂…`). -/
theorem reads_root_of_nested (t : List Stmt) (cs : List Ch) (d : Nat) (x : String)
    (hx : x ∈ reads t cs d) : ∃ attrs, (x, attrs) ∈ findUndeclaredNested t := by
  obtain ⟨n, hn⟩ := (step_walkList t St.initNested).sn (n := []) rfl
  have h := template_sound t St.initNested rfl cs d x hx
  simp only [St.reported, hn] at h
  simpa [findUndeclaredNested, hn] using h

/-- `{{ foo.bar.baz }}{% set x = cfg.a %}{{ x.y }}{{ cfg }}`: the report is
`foo.bar.baz`, `cfg.a`, `cfg`; the render asks for `foo` and `cfg` -/
example : ∃ t cs, reads t cs 0 = ["foo", "cfg", "cfg"]
    ∧ findUndeclaredNested t = [("cfg", []), ("cfg", ["a"]), ("foo", ["bar", "baz"])] :=
  ⟨[.emit (.getattr (.getattr (.var "foo") "bar") "baz"),
    .set (.var "x") (.getattr (.var "cfg") "a"),
    .emit (.getattr (.var "x") "y"),
    .emit (.var "cfg")], [], by decide, by decide⟩

/-- … and every dotted name of the nested report is an attribute path that occurs in the
template: a variable followed by exactly these attribute look-ups. -/
theorem nested_reported_are_paths (t : List Stmt) :
    ∀ l ∈ findUndeclaredNested t, l ∈ leavesL t :=
  nested_subset_leaves t

example : leavesL [Stmt.emit (.getattr (.getattr (.var "foo") "bar") "baz"),
    .set (.var "x") (.getattr (.var "cfg") "a")] =
    [("foo", ["bar", "baz"]), ("cfg", ["a"])] := by decide

/-- The assumption "macro bodies see only their closure frame, their locals and the base
context" as a theorem: in the frames `eval_macro` builds — `[closure ∪ caller, base]` — a
macro's prologue and body ask the render context for nothing (in a template without blocks;
with blocks: only what the blocks ask for): every free name was captured at the declaration. -/
theorem macro_body_asks_nothing (args : List String) (defaults : List Expr) (body : List Stmt)
    (kid : List Ch) (d : Nat) :
    (bindArgs (macroFrame args defaults body) [[]] args.reverse defaults.reverse).2 ++
      (execList (reenter d) [] []
        (bindArgs (macroFrame args defaults body) [[]] args.reverse defaults.reverse).1
        [[]] kid body).reads = [] := by
  apply List.eq_nil_iff_forall_not_mem.2
  intro x hx
  have hctx : Ctx [] (fun _ => False) (fun _ => False) :=
    ⟨fun _ h => h, fun _ hb => (by cases hb)⟩
  exact macro_body_reads (kok_reenter d) args defaults body (sim_walkList body) hctx kid x hx

/-- `{% macro m(a, b=q) %}{{ a }}{{ x }}{{ caller() }}{% endmacro %}`: closure `q`, `x`;
`caller` is a local -/
example : closureNames ["a", "b"] [.var "q"]
      [.emit (.var "a"), .emit (.var "x"), .emit (.call (.var "caller") [])] = ["x", "q"]
    ∧ macroFrame ["a", "b"] [.var "q"]
      [.emit (.var "a"), .emit (.var "x"), .emit (.call (.var "caller") [])] = ["caller", "x", "q"] :=
  ⟨by decide, by decide⟩

/-- The assumption "expressions bind no names", tied to the source: the code
`compile_expr` and the functions it calls emit (regenerated from `codegen.rs`) contains none
of the instructions that change frames or locals; the only way out of expression code is the
macro expression of a call block. -/
theorem expression_code_binds_nothing :
    (∀ i ∈ MJ.Gen.c18ExprInstructions, i ∉ MJ.Gen.c18BindingInstructions) ∧
    (∀ f ∈ MJ.Gen.c18ExprCallees, f ∈ MJ.Gen.c18ExprFunctions ∨ f = "compile_macro_expression") := by
  decide

example : "Lookup" ∈ MJ.Gen.c18ExprInstructions ∧ "StoreLocal" ∈ MJ.Gen.c18BindingInstructions := by
  decide

/-- who may ask the render context for a key, by class -/
def allowedContextReaders : List (String × String) := [
  -- the resolution itself and its two VM callers (`Lookup`, `CallFunction`): the model's `lookups`
  ("minijinja/src/vm/context.rs::load", "name resolution"),
  ("minijinja/src/vm/state.rs::lookup", "name resolution (also the public API for host callables)"),
  ("minijinja/src/vm/mod.rs::eval_impl", "Lookup / CallFunction instructions"),
  -- macro closures: `Enclose` at the declaration, the base context handed to the macro frames
  ("minijinja/src/vm/context.rs::enclose", "macro closure construction"),
  ("minijinja/src/vm/mod.rs::eval_macro", "macro frames (base context)"),
  -- public API of `State` for host code: a host callable may read anything (outside the property)
  ("minijinja/src/vm/state.rs::call_macro", "public API"),
  ("minijinja/src/vm/state.rs::known_variables", "public API"),
  ("minijinja/src/vm/context.rs::known_variables", "public API / debug"),
  -- debug mode only: error reports and `debug()` dump the variables (documented exclusion,
  -- known finding debug-info:referenced-locals)
  ("minijinja/src/vm/state.rs::make_debug_info", "debug mode"),
  ("minijinja/src/vm/context.rs::fmt", "debug mode"),
  -- minijinja-contrib: documented configuration keys (TIMEZONE, DATETIME_FORMAT, DATE_FORMAT,
  -- TIME_FORMAT, TRUNCATE_LEEWAY, RAND_SEED) read by filters the host registers explicitly
  ("minijinja-contrib/src/filters/datetime.rs::dateformat", "contrib configuration key"),
  ("minijinja-contrib/src/filters/datetime.rs::datetimeformat", "contrib configuration key"),
  ("minijinja-contrib/src/filters/datetime.rs::get_timezone", "contrib configuration key"),
  ("minijinja-contrib/src/filters/datetime.rs::timeformat", "contrib configuration key"),
  ("minijinja-contrib/src/filters/mod.rs::truncate", "contrib configuration key"),
  ("minijinja-contrib/src/rand.rs::for_state", "contrib configuration key")]

/-- Source tie for "the VM's name resolution is the only reader of the context": every call
site of `State::lookup` / `Context::load` / the context value / `known_variables` /
`clone_base` / `call_macro` in `minijinja/src` and `minijinja-contrib/src` (regenerated from
the sources) is one of the classified sites above; in particular no builtin filter, test,
function or object method (`c18BuiltinFiles`: `filters.rs`, `tests.rs`, `functions.rs`,
`value/…`, contrib pycompat/globals/tests) reads the context. -/
theorem builtins_do_not_read_context :
    (∀ r ∈ MJ.Gen.c18ContextReaders,
      (r.1 ++ "::" ++ r.2) ∈ allowedContextReaders.map Prod.fst) ∧
    (∀ r ∈ MJ.Gen.c18ContextReaders, r.1 ∉ MJ.Gen.c18BuiltinFiles) := by
  decide

example : ("minijinja/src/vm/mod.rs", "eval_impl") ∈ MJ.Gen.c18ContextReaders
    ∧ "minijinja/src/filters.rs" ∈ MJ.Gen.c18BuiltinFiles := by decide

/-- The analysis cannot hit `unwrap()` on an empty scope stack (either mode). -/
theorem analysis_no_panic (t : List Stmt) :
    (walkList St.init t).bad = false ∧ (walkList St.initNested t).bad = false :=
  ⟨findUndeclared_no_panic t, (step_walkList t St.initNested).bad [] [] rfl⟩

example : (walkList St.init
    [.forLoop (.var "x") (.var "y") none false [.set (.var "z") .const] []]).bad = false :=
  (analysis_no_panic _).1

end MJ.C18
