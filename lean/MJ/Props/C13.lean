import MJ.Proofs.Fuel
import MJ.Proofs.FuelMachine
import MJ.Proofs.FuelProg
import MJ.Proofs.FuelEdge
/-!
# C13 — fuel gives every render a fixed, exact success threshold

Property theorems only (helper lemmas: `MJ/Proofs/Fuel.lean`, model: `MJ/Model/Fuel.lean`).

A render is represented by its *trace*: the instruction names the VM dispatches in the unlimited
run (`runNoFuel trace = trace`).  `runFuel B trace` is the same render with `set_fuel(Some(B))`:
`FuelTracker::track` is charged for every instruction before it is dispatched.  `thr trace` depends
on the trace only.  All statements hold for **every** budget `B < 2^64` (`u64`), in particular for
`2^63 − 1`, `2^63` and `2^64 − 1`.
-/
namespace MJ.C13
open MJ MJ.Fuel MJ.Fuel.Tracker

/-- Full-strength statement: for every trace and every `u64` budget,
    * at or above the threshold every instruction of the unlimited run is dispatched (hence the
      same output), the run ends normally and exactly `total trace` was consumed;
    * below it the run ends with out-of-fuel after a proper prefix of the unlimited run (nothing
      else is dispatched, no other failure is introduced);
    * in both cases the levels left in the state add up to the budget and fit `u64`. -/
def C13_full : Prop :=
  ∀ (trace : List String) (B : Nat), B < u64Bound →
    (thr trace ≤ B →
      (runFuel B trace).status = .done ∧ (runFuel B trace).executed = runNoFuel trace ∧
      (runFuel B trace).tracker.consumed = total trace) ∧
    (B < thr trace →
      (runFuel B trace).status = .outOfFuel ∧ (runFuel B trace).executed <+: runNoFuel trace ∧
      (runFuel B trace).executed.length < trace.length) ∧
    (runFuel B trace).tracker.consumed + (runFuel B trace).tracker.remainingFuel = B ∧
    (runFuel B trace).tracker.consumed < u64Bound ∧ (runFuel B trace).tracker.remainingFuel < u64Bound

/-- the levels in the state always add up to the budget: after any run, successful or not -/
theorem levels_sum (B : Nat) (trace : List String) :
    (runFuel B trace).tracker.consumed + (runFuel B trace).tracker.remainingFuel = B := by
  have h := runFrom_remaining_le (Tracker.new B) trace
  simp only [Tracker.new] at h
  simp only [consumed, remainingFuel, satSub, runFuel, Tracker.new, h.2]
  omega

theorem threshold_exact : C13_full := by
  intro trace B hB
  have hsum := levels_sum B trace
  refine ⟨?_, ?_, hsum, by omega, by omega⟩
  · intro h
    by_cases h0 : total trace = 0
    · have := runFrom_free (Tracker.new B) trace h0
      simp only [runFuel, this]
      simp [runNoFuel, consumed, remainingFuel, satSub, Tracker.new, h0]
    · simp only [thr, h0, if_false] at h
      have := runFrom_enough (Tracker.new B) trace (by simp [Tracker.new]; omega)
      simp only [runFuel, this]
      simp [runNoFuel, consumed, remainingFuel, satSub, Tracker.new]
      omega
  · intro h
    by_cases h0 : total trace = 0
    · simp [thr, h0] at h
    · simp only [thr, h0, if_false] at h
      obtain ⟨pre, e, hl, hp, _⟩ := runFrom_short (Tracker.new B) trace h0 (by simp [Tracker.new]; omega)
      simp [runFuel, e, runNoFuel, hp, hl]

/-- a loop-shaped trace (whatever the current cost table says): the largest budget and the
    threshold itself succeed, one below the threshold runs out of fuel -/
example :
    let t := ["Lookup", "PushLoop", "Iterate", "Emit", "Jump", "Iterate", "PopLoopFrame"]
    (runFuel 18446744073709551615 t).status = .done ∧ (runFuel (thr t) t).status = .done
    ∧ (thr t = 0 ∨ (runFuel (thr t - 1) t).status = .outOfFuel) := by decide

/-- `fuel_levels()` add up to the budget at every point of a run (after any number `k` of charged
    instructions), whatever happens later -/
theorem levels_add_up (B : Nat) (trace : List String) (k : Nat) :
    (levelsAt B trace k).1 + (levelsAt B trace k).2 = B := by
  simpa [levelsAt] using levels_sum B (trace.take k)

example : (levelsAt 9223372036854775808 ["Lookup", "DupTop", "Emit", "EmitRaw"] 3).1
    + (levelsAt 9223372036854775808 ["Lookup", "DupTop", "Emit", "EmitRaw"] 3).2 = 9223372036854775808 := by decide

/-- consumption is a function of the render, not of the budget or of the repetition: every
    sufficient budget dispatches the same instructions and reports the same consumed amount -/
theorem deterministic (trace : List String) (B B' : Nat) (h : thr trace ≤ B) (h' : thr trace ≤ B') :
    (runFuel B trace).executed = (runFuel B' trace).executed ∧
    (runFuel B trace).tracker.consumed = (runFuel B' trace).tracker.consumed ∧
    (runFuel B trace).tracker.consumed = total trace := by
  have key : ∀ C, thr trace ≤ C → (runFuel C trace).executed = trace ∧ (runFuel C trace).tracker.consumed = total trace := by
    intro C hC
    by_cases h0 : total trace = 0
    · have := runFrom_free (Tracker.new C) trace h0
      simp only [runFuel, this]
      simp [consumed, remainingFuel, satSub, Tracker.new, h0]
    · simp only [thr, h0, if_false] at hC
      have := runFrom_enough (Tracker.new C) trace (by simp [Tracker.new]; omega)
      simp only [runFuel, this]
      simp [consumed, remainingFuel, satSub, Tracker.new]
      omega
  have a := key B h
  have b := key B' h'
  exact ⟨by rw [a.1, b.1], by rw [a.2, b.2], a.2⟩

example : thr ["Lookup", "Emit"] ≤ thr ["Lookup", "Emit"] + 3 ∧ thr ["Lookup", "Emit"] ≤ 18446744073709551615 := by decide

/-- Nested evaluations (macro call, include, block, `super()`) run on the caller's `State`, so the
    trace of the whole render is `pre ++ nested ++ post`:
    * the nested part continues with the tracker the caller left behind (no fresh budget),
    * costs add up, and so does the threshold (for parts that consume anything),
    * a nested evaluation that would fit the budget on its own still fails when the caller has
      already used too much. -/
theorem nested_shares_tracker (pre nested post : List String) (B : Nat) :
    total (pre ++ nested ++ post) = total pre + total nested + total post ∧
    ((runFuel B pre).status = .done →
      runFuel B (pre ++ nested) =
        { runFrom (runFuel B pre).tracker nested with
          executed := pre ++ (runFrom (runFuel B pre).tracker nested).executed }) ∧
    (total nested ≠ 0 → B ≤ total pre + total nested → (runFuel B (pre ++ nested ++ post)).status = .outOfFuel) := by
  refine ⟨by simp [total_append, Nat.add_assoc], ?_, ?_⟩
  · intro hd
    have hp : (runFuel B pre).executed = pre := by
      by_cases h0 : total pre = 0
      · simp [runFuel, runFrom_free _ pre h0]
      · by_cases hb : total pre < B
        · simp [runFuel, runFrom_enough (Tracker.new B) pre (by simpa [Tracker.new] using hb)]
        · obtain ⟨p, e, _⟩ := runFrom_short (Tracker.new B) pre h0 (by simp [Tracker.new]; omega)
          simp [runFuel, e] at hd
    simp only [runFuel] at hd hp ⊢
    rw [runFrom_append, hd]
    simp [hp]
  · intro hn hB
    have h0 : total (pre ++ nested ++ post) ≠ 0 := by simp [total_append]; omega
    obtain ⟨p, e, _⟩ := runFrom_short (Tracker.new B) (pre ++ nested ++ post) h0
      (by simp [Tracker.new, total_append]; omega)
    simp only [runFuel, e]

/-- caller and nested part each fit the budget on their own, together they do not -/
example :
    let a := ["Lookup", "Emit"]
    let b := ["CallFunction", "Emit"]
    let B := max (thr a) (thr b)
    (runFuel B a).status = .done ∧ (runFuel B b).status = .done
    ∧ (total a = 0 ∨ total b = 0 ∨ (runFuel B (a ++ b ++ ["EmitRaw"])).status = .outOfFuel) := by decide

/-! ## the interpreter loop: fuel does not steer the machine -/

/-- NON-INTERFERENCE.  For every machine (arbitrary state, arbitrary fetch and dispatch functions
    that do not receive the tracker), every start state whose unlimited run terminates (normally or
    with an error `e` of the dispatch) and every budget `B : u64`: the limited run terminates within
    the same number of steps, and
    * the instructions it dispatches and the states it goes through are a prefix of those of the
      unlimited run — all of them iff `B ≥ thr (unlimited trace)`;
    * at or above the threshold it returns exactly what the unlimited run returns (the same final
      state, or the SAME error) and reports `total` consumed;
    * below the threshold it returns out-of-fuel — never another state, never another error;
    * the levels add up to the budget in every case. -/
theorem fuel_does_not_steer {S E : Type} (m : Machine S E) (n : Nat) (s : S) (u : URun S E)
    (h : m.run n s = some u) (B : Nat) (hB : B < u64Bound) :
    ∃ f, m.runFuel n (Tracker.new B) s = some f ∧
      f.trace <+: u.trace ∧ f.states = u.states.take f.trace.length ∧ f.states <+: u.states ∧
      ((f.trace = u.trace ∧ f.states = u.states) ↔ thr u.trace ≤ B) ∧
      (thr u.trace ≤ B → f.result = sameResult u.result ∧ f.tracker.consumed = total u.trace) ∧
      (B < thr u.trace → f.result = .error .outOfFuel ∧ f.trace.length < u.trace.length) ∧
      f.tracker.consumed + f.tracker.remainingFuel = B := by
  have hrun := Machine.runFuel_of_run m n (Tracker.new B) s u h
  have hlen := Machine.run_states_length m n s u h
  obtain ⟨hge, hlt, hsum, _, _⟩ := threshold_exact u.trace B hB
  simp only [runFuel, runNoFuel] at hge hlt hsum
  refine ⟨_, hrun, ?_, rfl, List.take_prefix _ _, ?_, ?_, ?_, hsum⟩
  · exact executed_prefix _ _
  · constructor
    · intro ⟨h1, _⟩
      by_cases hb : thr u.trace ≤ B
      · exact hb
      · have := (hlt (by omega)).2.2
        have h1' : (runFrom (Tracker.new B) u.trace).executed = u.trace := h1
        rw [h1'] at this
        omega
    · intro hb
      obtain ⟨_, h2, _⟩ := hge hb
      simp only [h2, ← hlen, List.take_length, and_self]
  · intro hb
    obtain ⟨h1, _, h3⟩ := hge hb
    simp only [h1, h3, limitedResult, sameResult, and_true]
  · intro hb
    obtain ⟨h1, _, h3⟩ := hlt hb
    simp only [h1, limitedResult, h3, and_self]

/-- a machine that counts down and then fails with error 7: the unlimited run dispatches four
    instructions and ends with that error; budget 2^63 gives the same error, budget 3 out-of-fuel -/
private def demoCountdown : Machine Nat Nat :=
  { fetch := fun _ => some "Emit", exec := fun k => if k = 0 then .error 7 else .ok (k - 1) }

example :
    (demoCountdown.run 10 3).map (·.result) = some (.error 7) ∧
    (demoCountdown.runFuel 10 (Tracker.new 9223372036854775808) 3).map (·.result) = some (.error (.other 7)) ∧
    ((demoCountdown.run 10 3).map (fun u => thr u.trace) = some 0 ∨
      (demoCountdown.runFuel 10 (Tracker.new 0) 3).map (·.result) = some (.error .outOfFuel)) := by
  refine ⟨rfl, rfl, ?_⟩
  first
    | exact Or.inr rfl
    | exact Or.inl rfl

/-- the property in the words of C13 for an arbitrary machine: one threshold, a function of the
    unlimited run only; every budget at or above it reproduces the unlimited outcome (final state or
    the same error), every budget below it gives out-of-fuel -/
theorem machine_threshold_exact {S E : Type} (m : Machine S E) (n : Nat) (s : S) (u : URun S E)
    (h : m.run n s = some u) :
    ∃ T, T = thr u.trace ∧ ∀ B, B < u64Bound →
      (T ≤ B → (m.runFuel n (Tracker.new B) s).map (·.result) = some (sameResult u.result)) ∧
      (B < T → (m.runFuel n (Tracker.new B) s).map (·.result) = some (.error .outOfFuel)) := by
  refine ⟨_, rfl, ?_⟩
  intro B hB
  obtain ⟨f, hf, _, _, _, _, hge, hlt, _⟩ := fuel_does_not_steer m n s u h B hB
  constructor
  · intro hb; simp [hf, (hge hb).1]
  · intro hb; simp [hf, (hlt hb).1]

example : ∃ u, (({ fetch := fun k => if k = 0 then none else some "Lookup", exec := fun k => .ok (k - 1) } : Machine Nat Unit).run 5 2) = some u
    ∧ u.trace = ["Lookup", "Lookup"] := ⟨_, rfl, rfl⟩

/-! ## nested activations: call trees of arbitrary depth -/

/-- Running over the call tree of a render — every nested activation (macro, include, block,
    `super()`, `render_block`/`call_macro` from Rust) continuing with the caller's tracker and
    handing it back — is the same as running over the flattened instruction trace, for call trees
    of any depth.  Hence all trace-level theorems hold for arbitrarily nested renders, and the cost
    of a render is the sum over all activations. -/
theorem call_tree_flattens (t : Tracker) (e : Evs) : runTree t e = runFrom t (flatten e) :=
  runTree_eq_runFrom t e

example : (Evs.call "CallFunction" (.instr "Emit" (.call "Include" (.instr "EmitRaw" .nil) .nil)) (.instr "Emit" .nil)).depth = 2
    ∧ flatten (Evs.call "CallFunction" (.instr "Emit" (.call "Include" (.instr "EmitRaw" .nil) .nil)) (.instr "Emit" .nil))
      = ["CallFunction", "Emit", "Include", "EmitRaw", "Emit"] := by decide

/-- threshold exactness for an interpreter whose dispatch starts nested activations sharing the
    tracker: the threshold is the one of the flattened call tree of the unlimited run -/
theorem nested_threshold_exact {S E : Type} (m : NMachine S E) (n : Nat) (s : S) (u : NURun S E)
    (h : m.run n s = some u) (B : Nat) (hB : B < u64Bound) :
    ∃ f, m.runFuel n (Tracker.new B) s = some f ∧
      f.executed <+: flatten u.tree ∧
      (thr (flatten u.tree) ≤ B →
        f.executed = flatten u.tree ∧ f.result = sameResult u.result ∧ f.tracker.consumed = total (flatten u.tree)) ∧
      (B < thr (flatten u.tree) → f.result = .error .outOfFuel ∧ f.executed.length < (flatten u.tree).length) ∧
      f.tracker.consumed + f.tracker.remainingFuel = B := by
  have hrun := NMachine.runFuel_of_run m n (Tracker.new B) s u h
  rw [runTree_eq_runFrom] at hrun
  obtain ⟨hge, hlt, hsum, _, _⟩ := threshold_exact (flatten u.tree) B hB
  simp only [runFuel, runNoFuel] at hge hlt hsum
  refine ⟨_, hrun, executed_prefix _ _, ?_, ?_, hsum⟩
  · intro hb
    obtain ⟨h1, h2, h3⟩ := hge hb
    simp only [h1, h2, h3, limitedResult, sameResult, and_true]
  · intro hb
    obtain ⟨h1, _, h3⟩ := hlt hb
    simp only [h1, limitedResult, h3, and_self]

/-- a macro-like machine: state = (pc, depth); at pc 1 of depth 0 it calls a nested activation -/
private def demoMacro : NMachine (Nat × Nat) Unit :=
  { fetch := fun s => if s.1 < 3 then some (if s.1 = 1 ∧ s.2 = 0 then "CallFunction" else "Emit") else none,
    exec := fun s => if s.1 = 1 ∧ s.2 = 0 then .call (0, 1) (fun _ => (2, 0)) else .step (.ok (s.1 + 1, s.2)) }

example : (demoMacro.run 20 (0, 0)).map (fun u => flatten u.tree)
    = some ["Emit", "CallFunction", "Emit", "Emit", "Emit", "Emit"] := by decide

/-! ## swallowed out-of-fuel errors -/

/-- OUT OF FUEL IS STICKY.  Once `track` has reported out-of-fuel the tank is empty and stays
    empty; from an empty tank every charged instruction is refused again.  So when a Rust callback
    swallows the error of a nested evaluation (`state.call_macro(..).unwrap_or_default()`), whatever
    the render does afterwards (`rest`, not necessarily what the unlimited run did) ends out of fuel
    at its first charged instruction: only free instructions can still run, nothing more is
    consumed, and the levels still add up. -/
theorem out_of_fuel_is_sticky (t : Tracker) (nested rest : List String)
    (h : (runFrom t nested).status = .outOfFuel) :
    (runFrom t nested).tracker.remaining = 0 ∧
    (∀ c, c ≠ 0 → (runFrom t nested).tracker.track c = .outOfFuel (runFrom t nested).tracker) ∧
    (total rest ≠ 0 →
      (runFrom (runFrom t nested).tracker rest).status = .outOfFuel ∧
      (runFrom (runFrom t nested).tracker rest).tracker = (runFrom t nested).tracker ∧
      total (runFrom (runFrom t nested).tracker rest).executed = 0) := by
  have h0 := runFrom_oof_remaining t nested h
  exact ⟨h0, fun c hc => track_empty _ c hc h0, fun hr => runFrom_empty _ rest h0 hr⟩

example : (runFrom (Tracker.new 1) ["Emit"]).status = .outOfFuel ∨ total ["Emit"] = 0 := by decide

/-- in particular a budget of 0 refuses the first charged instruction -/
theorem zero_budget_refuses (trace : List String) (h : total trace ≠ 0) :
    (runFuel 0 trace).status = .outOfFuel ∧ total (runFuel 0 trace).executed = 0 := by
  have := runFrom_empty (Tracker.new 0) trace rfl h
  exact ⟨this.1, this.2.2⟩

example : total ["PushLoop", "Iterate"] ≠ 0 ∨ total ["PushLoop", "Iterate"] = 0 := by decide

/-! ## what the program can observe -/

/-- NO OBSERVATION DEPENDS ON THE BUDGET.  Whatever the program (or a Rust callable it invokes, or
    a `Debug`/`Display` rendering of its state) computes from the instructions it ran, the states
    it went through and its result — any function `obs` of those — is the same for every two
    sufficient budgets and the same as without a budget.  The tracker is the only component that
    differs, by exactly the difference of the budgets; it is visible through the Rust API
    `State::fuel_levels` only (tie `no_budget_observer`). -/
theorem observations_budget_independent {S E O : Type} (m : Machine S E) (n : Nat) (s : S) (u : URun S E)
    (h : m.run n s = some u) (B B' : Nat) (hB : B < u64Bound) (hB' : B' < u64Bound)
    (hb : thr u.trace ≤ B) (hb' : thr u.trace ≤ B')
    (obs : List String → List S → Except (FErr E) S → O) :
    ∃ f f', m.runFuel n (Tracker.new B) s = some f ∧ m.runFuel n (Tracker.new B') s = some f' ∧
      obs f.trace f.states f.result = obs f'.trace f'.states f'.result ∧
      obs f.trace f.states f.result = obs u.trace u.states (sameResult u.result) ∧
      f.tracker.consumed = f'.tracker.consumed ∧
      f.tracker.remainingFuel + B' = f'.tracker.remainingFuel + B := by
  obtain ⟨f, hf, _, _, _, hiff, hge, _, hsum⟩ := fuel_does_not_steer m n s u h B hB
  obtain ⟨f', hf', _, _, _, hiff', hge', _, hsum'⟩ := fuel_does_not_steer m n s u h B' hB'
  obtain ⟨ht, hs⟩ := hiff.mpr hb
  obtain ⟨ht', hs'⟩ := hiff'.mpr hb'
  obtain ⟨hr, hc⟩ := hge hb
  obtain ⟨hr', hc'⟩ := hge' hb'
  refine ⟨f, f', hf, hf', ?_, ?_, ?_, ?_⟩
  · rw [ht, hs, hr, ht', hs', hr']
  · rw [ht, hs, hr]
  · rw [hc, hc']
  · omega

example : thr (["Lookup", "Emit"] : List String) ≤ 4294967296 ∧ thr ["Lookup", "Emit"] ≤ 18446744073709551615 := by decide

/-- WHO CAN SEE THE LEVELS.  The readers of `fuel_tracker` / `fuel_levels()` / `.remaining()` /
    `.consumed()` in the crate (and minijinja-contrib), regenerated from the sources with a class
    per row, are: the charge in `eval_impl` and the body of the Rust API `State::fuel_levels`.
    No row is classed "reachable from template output" (a `fmt` of a `Debug`/`Display` impl, a
    builtin function/filter/test, a value object, the output machinery). -/
theorem no_budget_observer :
    MJ.Gen.fuelReaders = [
      ("vm/mod.rs", "fn eval_impl", "reads fuel_tracker", "accounting"),
      ("vm/state.rs", "fn fuel_levels", "reads fuel_tracker", "rust api State::fuel_levels"),
      ("vm/state.rs", "fn fuel_levels", "reads levels", "rust api State::fuel_levels")] ∧
    MJ.Gen.fuelReaders.all (fun r => r.2.2.2 != "reachable from template output") = true := by decide

/-! ## configuration path and entry points -/

/-- Every evaluation reads the budget when its `State` is created.
    * `set_fuel(None)` — also after an earlier `set_fuel(Some(_))` — is unmetered: the unlimited run,
      `fuel_levels() = None`;
    * the last `set_fuel` wins, a clone carries the budget of the moment it was taken and is not
      affected by a later `set_fuel` on the original;
    * `set_fuel(Some(B))` is `runFuel` from a fresh tracker with `B`: renders do not share fuel. -/
theorem config_path {S E : Type} (m : Machine S E) (n : Nat) (s : S) (e : EnvCfg) (a : Option Nat) (B : Nat) :
    m.render n ((e.setFuel a).setFuel none) s =
      (m.run n s).map (fun u => { trace := u.trace, states := u.states, result := sameResult u.result, levels := none }) ∧
    ((e.setFuel a).setFuel (some B)).fuel = some B ∧
    ((e.setFuel (some B)).clone.fuel = some B ∧ (((e.setFuel (some B)).clone, (e.setFuel (some B)).setFuel a).1).fuel = some B) ∧
    m.render n (e.setFuel (some B)) s =
      (m.runFuel n (Tracker.new B) s).map (fun f =>
        { trace := f.trace, states := f.states, result := f.result,
          levels := some (f.tracker.consumed, f.tracker.remainingFuel) }) := by
  refine ⟨rfl, rfl, ⟨rfl, rfl⟩, rfl⟩

example : (({ fuel := some 5 } : EnvCfg).setFuel none).fuel = none ∧ newTracker { fuel := some 7 } = some (Tracker.new 7) := by decide

/-- the budget semantics through the configuration path: for every machine whose unlimited run
    terminates, rendering with `set_fuel(Some(B))` gives the unlimited result iff `B ≥ thr`, else
    out-of-fuel, and the reported levels add up to `B` -/
theorem render_threshold_exact {S E : Type} (m : Machine S E) (n : Nat) (s : S) (u : URun S E)
    (h : m.run n s = some u) (e : EnvCfg) (B : Nat) (hB : B < u64Bound) :
    ∃ r, m.render n (e.setFuel (some B)) s = some r ∧
      (thr u.trace ≤ B → r.trace = u.trace ∧ r.states = u.states ∧ r.result = sameResult u.result) ∧
      (B < thr u.trace → r.result = .error .outOfFuel) ∧
      (∃ c l, r.levels = some (c, l) ∧ c + l = B) := by
  obtain ⟨f, hf, _, _, _, hiff, hge, hlt, hsum⟩ := fuel_does_not_steer m n s u h B hB
  refine ⟨{ trace := f.trace, states := f.states, result := f.result,
            levels := some (f.tracker.consumed, f.tracker.remainingFuel) },
          by simp [Machine.render, newTracker, EnvCfg.setFuel, hf], ?_, ?_, ⟨_, _, rfl, hsum⟩⟩
  · intro hb
    exact ⟨(hiff.mpr hb).1, (hiff.mpr hb).2, (hge hb).1⟩
  · intro hb
    exact (hlt hb).1

example : ∃ u, (({ fetch := fun k => if k = 0 then none else some "Emit", exec := fun k => .ok (k - 1) } : Machine Nat Unit).run 5 2) = some u := ⟨_, rfl⟩

/-- ENTRY POINTS.  In the call graph regenerated from the sources every public way to start an
    evaluation — `Template::render`, `render_captured`, `render_captured_to`, `Template::new_state`,
    `Expression::eval`, `Environment::render_str`, `render_named_str`, `empty_state` — reaches
    `State::new`, where the tracker is created from `env.fuel()` (`uses_as_modelled`). -/
theorem entry_points_reach_state_new :
    ["Template::render", "Template::render_captured", "Template::render_captured_to", "Template::new_state",
     "Expression::eval", "Environment::render_str", "Environment::render_named_str", "Environment::empty_state"].all
      (reaches MJ.Gen.fuelEntryCalls "State::new" 8) = true := by decide

/-! ## the out-of-fuel error on its way to the caller -/

/-- WRAPPERS PRESERVE OUT-OF-FUEL.  However deep the activation in which the tank ran empty is
    nested, and whatever frames the error passes on its way up — propagation (`?`) or a wrapper
    that keeps the original as `source()` (include: `BadInclude`, parent block: `EvalBlock`) — the
    error the caller of `render` receives still has `OutOfFuel` as its root cause, and the kinds
    around it are exactly the kinds of the wrapping frames.  A frame that *replaces* the error
    (new `Error` from the text of the old one) destroys this — that is the hypothesis tied to the
    sources by `error_consumers_keep_source`. -/
theorem wrappers_preserve_out_of_fuel (hs : List Handler) (e : RErr) (h : ∀ x ∈ hs, x.keepsSource = true) :
    (passThrough hs e).rootIsOutOfFuel = e.rootIsOutOfFuel := by
  induction hs generalizing e with
  | nil => rfl
  | cons x rest ih =>
    have hx := h x (by simp)
    have hr : ∀ y ∈ rest, y.keepsSource = true := fun y hy => h y (by simp [hy])
    simp only [passThrough, List.foldl_cons]
    have := ih (x.apply e) hr
    simp only [passThrough] at this
    rw [this]
    cases x with
    | propagate => rfl
    | wrapKeepingSource k => rfl
    | replace k => simp [Handler.keepsSource] at hx

example : (passThrough [.propagate, .wrapKeepingSource "BadInclude", .propagate, .wrapKeepingSource "EvalBlock"] .outOfFuel).rootIsOutOfFuel = true
    ∧ (passThrough [.propagate, .wrapKeepingSource "BadInclude", .propagate, .wrapKeepingSource "EvalBlock"] .outOfFuel).wrapperKinds = ["EvalBlock", "BadInclude"]
    ∧ (passThrough [.propagate, .replace "InvalidOperation", .wrapKeepingSource "EvalBlock"] .outOfFuel).rootIsOutOfFuel = false := by decide

/-- the only wrappers that appear around the root cause are those the frames put there -/
theorem wrapper_kinds_come_from_frames (hs : List Handler) (e : RErr) (h : ∀ x ∈ hs, x.keepsSource = true) :
    (passThrough hs e).wrapperKinds =
      (hs.filterMap fun x => match x with | .wrapKeepingSource k => some k | _ => none).reverse ++ e.wrapperKinds := by
  induction hs generalizing e with
  | nil => simp [passThrough]
  | cons x rest ih =>
    have hx := h x (by simp)
    have hr : ∀ y ∈ rest, y.keepsSource = true := fun y hy => h y (by simp [hy])
    simp only [passThrough, List.foldl_cons]
    have := ih (x.apply e) hr
    simp only [passThrough] at this
    rw [this]
    cases x with
    | propagate => simp [Handler.apply]
    | wrapKeepingSource k => simp [Handler.apply, RErr.wrapperKinds]
    | replace k => simp [Handler.keepsSource] at hx

example : (passThrough [.wrapKeepingSource "BadInclude", .wrapKeepingSource "BadInclude"] .outOfFuel).wrapperKinds = ["BadInclude", "BadInclude"] := by decide

/-- WHO CONSUMES AN ERROR OF A NESTED EVALUATION.  Table regenerated from `minijinja/src/**`
    (outside compiler/, vendor/): every `map_err(`, `.ok()`, `unwrap_or*`, `or_else(`, `.or(`, `map_or*(`,
    `is_err()`, `is_ok_and(`, `is_err_and(`, `if let Err(`, `if let Ok(`, `Err(_)` and `Err(e) =>` whose
    consumed value comes from a call that receives the
    `State`, starts an evaluation, or could not be resolved; with what happens to the original.
    Every such site propagates the original, wraps it keeping it as `source()`, or (the two
    `*_to_write` entry points) reports the writer's I/O error instead when the writer had failed —
    except the listed rows, which are not errors of an evaluation at all:
    * `macro_object.rs prepare_args var:kwargs` — an `Option<Kwargs>` out of a tuple pattern;
      `.get("caller").ok()` is a map lookup on the macro's own keyword arguments;
    * `vm/mod.rs eval_impl var:n` — the `Option<usize>` operand of `UnpackList(s)`.
    (The remaining sites of the crate consume values of calls that do not get the `State`:
    `MJ.Gen.fuelErrConsumersNoVm` of them.) -/
def keepsOriginal (d : String) : Bool :=
  d == "propagates original" || d == "wraps, original kept as source" ||
  d == "io error of the writer takes precedence, else original"

def notAnEvaluationError : List (String × String × String) :=
  [("vm/macro_object.rs", "prepare_args", "var:kwargs"), ("vm/mod.rs", "eval_impl", "var:n")]

theorem error_consumers_keep_source :
    MJ.Gen.fuelErrConsumers.all (fun r =>
      keepsOriginal r.2.2.2.2.2 || notAnEvaluationError.contains (r.1, r.2.1, r.2.2.1)) = true ∧
    (MJ.Gen.fuelErrConsumers.filter (fun r => r.2.2.2.2.2 == "wraps, original kept as source")).map (fun r => r.2.1)
      = ["perform_include", "perform_super"] := by decide

/-! ## source ties for the hypotheses of the machine model -/

/-- WHO TOUCHES THE TRACKER.  Every occurrence of `fuel_tracker`, `FuelTracker`, `fuel_levels`,
    `.track(`, `.remaining()`, `.consumed()`, `.fuel()`, `set_fuel`, `self.fuel` and `State::new(`
    in `minijinja/src/**` and `minijinja-contrib/src/**` outside `vm/fuel.rs` (regenerated from the
    sources on every run) is one of the modelled ones:
    * the budget is configuration of the `Environment` (`set_fuel` / `fuel`);
    * `State::new` creates the one tracker of a render from `env.fuel()`; states are only created
      by `Executor::eval` (a render), `Template::new_state` and `Environment::empty_state`
      (stand-alone states for API users) — never for a nested evaluation;
    * `eval_impl` borrows it mutably and calls `track` (nothing else, once);
    * `State::fuel_levels` reads `consumed()` / `remaining()`.
    In particular no dispatch code, filter, test or function reads or writes it, nothing copies,
    replaces or restores it: the `fetch`/`exec` functions of the machine model do not depend on it. -/
theorem uses_as_modelled :
    MJ.Gen.fuelUses = [
      ("environment.rs", "fn empty_state", "State::new"),
      ("environment.rs", "fn fuel", "self.fuel"),
      ("environment.rs", "fn set_fuel", "self.fuel:assign"),
      ("environment.rs", "impl Environment", "set_fuel:mut:def"),
      ("template.rs", "fn new_state", "State::new"),
      ("vm/mod.rs", "fn eval", "State::new:mut"),
      ("vm/mod.rs", "fn eval_impl", "fuel_tracker:mut"),
      ("vm/mod.rs", "fn eval_impl", "track()"),
      ("vm/state.rs", "<top>", "FuelTracker:import"),
      ("vm/state.rs", "fn fuel_levels", "fuel_tracker"),
      ("vm/state.rs", "fn fuel_levels", "remaining()+consumed()"),
      ("vm/state.rs", "fn new", "fuel_tracker+FuelTracker+env.fuel()"),
      ("vm/state.rs", "fn new_for_env", "State::new"),
      ("vm/state.rs", "impl State", "fuel_levels:def"),
      ("vm/state.rs", "struct State", "fuel_tracker+FuelTracker")] := by decide

/-- WHERE IT IS CHARGED.  In `eval_impl` the landmarks appear exactly once each and in this order:
    the `loop`, the instruction fetch, (the verification hook,) the mutable borrow of the tracker,
    `ctx_ok!(tracker.track(instr))` — an error aborts the activation — and only then the
    `match instr` dispatch; `track` is called nowhere else in `vm/mod.rs`.  This is the shape of
    `Machine.runFuel` / `NMachine.runFuel`. -/
theorem track_before_dispatch :
    MJ.Gen.fuelTrackSite = ["loop", "fetch", "hook", "borrow", "track-or-abort", "dispatch"] := by decide

/-- what was wrong before the repair (`remaining: fuel as isize`, checked `-=`, `<= 0`), for an
    instruction of cost 1: the largest budget failed on the first charge and `2^63` panicked while
    `2^63 − 1` worked; the repaired tracker accepts all three -/
theorem legacy_defect :
    Legacy.track (Legacy.new 18446744073709551615) 1 = .ok .outOfFuel ∧
    Legacy.track (Legacy.new 9223372036854775808) 1 = .panic ∧
    Legacy.track (Legacy.new 9223372036854775807) 1 = .ok (.ok ⟨9223372036854775807, 9223372036854775806⟩) ∧
    (Tracker.new 18446744073709551615).track 1 = .ok ⟨18446744073709551615, 18446744073709551614⟩ ∧
    (Tracker.new 9223372036854775808).track 1 = .ok ⟨9223372036854775808, 9223372036854775807⟩ := by decide

/-! ## the cost table is total -/

/-- THE COST TABLE IS TOTAL.  `MJ.Gen.instrVariants` = every variant of `enum Instruction` with its
    `#[cfg(feature = …)]`, `MJ.Gen.fuelCostArms` = every arm of `fuel_for_instruction` with its `#[cfg]`
    and cost, both regenerated from the sources on every run.  For the four feature sets over
    {`macros`, `multi_template`}:
    * every arm that is compiled names a variant that exists in that configuration (otherwise the
      crate does not compile there — the defect repaired by f3f0dd2: `LoadBlocks` in the `macros` arm);
    * the variant names are distinct, every variant has exactly one row, every cost is 0 or 1;
    * the cost of a variant is the same in every configuration in which it exists, and it is the
      model's `costOf`;
    * the full configuration has all variants; every explicit row of the old table names a variant. -/
theorem cost_table_total :
    (MJ.Gen.fuelCostArms.all fun a => featureSets.all fun fs => !cfgOn fs a.2.1 || (variantsUnder fs).contains a.1) = true ∧
    (MJ.Gen.instrVariants.map (·.1)).Nodup ∧
    (featureSets.all fun fs =>
      (costTable fs).map (·.1) == variantsUnder fs && (costTable fs).all (fun r => r.2 == 0 || r.2 == 1)) = true ∧
    (featureSets.all fun fs => (variantsUnder fs).all fun n => costUnder fs n == costOf n) = true ∧
    (variantsUnder allFeatures = MJ.Gen.instrVariants.map (·.1)) ∧
    (MJ.Gen.fuelCosts.all fun r => (MJ.Gen.instrVariants.map (·.1)).contains r.1) = true := by
  decide

example : costUnder ["multi_template"] "LoadBlocks" = 0 ∧ costUnder [] "Emit" = 1 ∧ (variantsUnder ["macros"]).contains "LoadBlocks" = false
    ∧ (costTable allFeatures).length = MJ.Gen.instrVariants.length := by decide

/-- every instruction costs at most 1 (also names that are no variants: the `_` arm), so a render
    never consumes more than it dispatches and its threshold is at most the trace length + 1 -/
theorem cost_at_most_one : (∀ n, costOf n ≤ 1) ∧ (∀ trace, total trace ≤ trace.length) ∧ (∀ trace, thr trace ≤ trace.length + 1) := by
  have h : ∀ n, costOf n ≤ 1 := costOf_le_one (by decide) (by decide)
  refine ⟨h, total_le_length h, ?_⟩
  intro trace
  have := total_le_length h trace
  unfold thr
  split <;> omega

example : costOf "Emit" ≤ 1 ∧ costOf "no such instruction" ≤ 1 := by decide

/-! ## one tracker per render -/

/-- the call edges among the nested-evaluation functions; a `callable::call` on a macro value is
    `Macro::call` -/
def nestedGraph : List (String × List String) :=
  (MJ.Gen.nestedFns.map fun r => (r.1, r.2.2.2.2)) ++ [("callable::call", ["Macro::call"])]

/-- WHO CREATES, REPLACES, CLONES OR RESTORES A TRACKER OR A STATE.  Regenerated from
    `minijinja/src/**` and `minijinja-contrib/src/**`: every `State { … }` / `FuelTracker { … }` struct
    literal, every call of `State::new` / `State::new_for_env` / `vm::eval` / `Executor::eval`, every
    `FuelTracker::new`, every assignment to, method call on, mutable borrow of and
    `mem::replace/take/swap` over `fuel_tracker`, every overwrite of a whole state (`*state = …`), and
    the derives and `Clone`/`Copy`/`Default` impls of both types.  The list is exactly:
    * the one constructor `State::new` (literal, field initialiser, `FuelTracker::new`);
    * its callers, the documented roots: `Executor::eval` (reached from `Template::_eval`,
      `Expression::_eval` and the machinery re-export `lib.rs eval`), `Template::new_state`, and
      `State::new_for_env` ← `Environment::empty_state`;
    * the mutable borrow in `eval_impl` (the charge);
    * `FuelTracker::new`'s own literal; neither type derives or implements `Clone`, `Copy`, `Default`.
    A second creation or replacement site (`seeded/C13-1`, `C13-5`) changes this list. -/
theorem tracker_sites_as_modelled :
    MJ.Gen.trackerSites = [
      ("environment.rs", "fn empty_state", "State::new_for_env()"),
      ("expression.rs", "fn _eval", "vm::eval()"),
      ("lib.rs", "fn eval", "vm::eval()"),
      ("template.rs", "fn _eval", "vm::eval()"),
      ("template.rs", "fn new_state", "State::new()"),
      ("vm/fuel.rs", "fn new", "FuelTracker-literal"),
      ("vm/fuel.rs", "struct FuelTracker", "derive:none"),
      ("vm/mod.rs", "fn eval", "Executor::eval()"),
      ("vm/mod.rs", "fn eval", "State::new()"),
      ("vm/mod.rs", "fn eval_impl", "fuel_tracker:mut-borrow"),
      ("vm/state.rs", "fn new", "FuelTracker::new"),
      ("vm/state.rs", "fn new", "State-literal"),
      ("vm/state.rs", "fn new", "fuel_tracker:field-init"),
      ("vm/state.rs", "fn new_for_env", "State::new()"),
      ("vm/state.rs", "struct State", "derive:none"),
      ("vm/state.rs", "struct State", "fuel_tracker:field-init")] := by decide

/-- EVERY NESTED EVALUATION RUNS ON ITS CALLER'S STATE.  For the 22 functions through which a nested
    evaluation is entered (regenerated: how they get the state, creation/render/tracker tokens in
    their bodies, whom they call): each takes the `State` by `&mut`, none contains a creation token
    (`State {`, `State::new`, `vm::eval`, `FuelTracker`, an assignment/replace/take of `fuel_tracker`,
    `*state =`, `.new_state(`, `.empty_state(`, `.render*(`, `.eval(`), none but `eval_impl` mentions
    `fuel_tracker`, and every entry reaches the single charge site `Executor::eval_impl`. -/
theorem nested_evaluations_share_state :
    (MJ.Gen.nestedFns.all fun r => r.2.1 == "&mut" && r.2.2.1 == "" &&
      (r.2.2.2.1 == "" || r.1 == "Executor::eval_impl")) = true ∧
    (["State::render_block", "State::render_block_to_write", "State::call_macro", "State::apply_filter",
      "State::perform_test", "Macro::call", "Value::call", "Value::call_method", "vm::call_block", "vm::eval_macro",
      "Executor::perform_include", "Executor::perform_super", "Executor::call_block", "Executor::eval_macro"].all
        (reaches nestedGraph "Executor::eval_impl" 8)) = true ∧
    MJ.Gen.nestedFns.length = 22 := by decide

/-- ONE TRACKER PER RENDER.  A call tree whose nested activations all share the caller's tracker
    (what the two table theorems above say about the code) is accounted exactly like its flattened
    instruction trace: all trace-level theorems apply to it. -/
theorem one_tracker_per_render (t : Tracker) (e : PEvs) (h : e.allShare = true) :
    runTreeP t e = runFrom t (flatten e.erase) := by
  rw [runTreeP_share t e h, runTree_eq_runFrom]

example : (PEvs.call "Include" .share (.instr "Emit" (.call "CallFunction" .share (.instr "Emit" .nil) .nil)) (.instr "Emit" .nil)).allShare = true
    ∧ flatten (PEvs.call "Include" .share (.instr "Emit" (.call "CallFunction" .share (.instr "Emit" .nil) .nil)) (.instr "Emit" .nil)).erase
      = ["Include", "Emit", "CallFunction", "Emit", "Emit"] := by decide

/-- … and that hypothesis is needed: with ONE nested activation that runs on a fresh tracker (a
    second creation site) or whose level is restored afterwards, the budget `c` (the cost, one below
    the threshold) succeeds instead of running out of fuel and a sufficient budget reports less
    than `c` consumed. -/
theorem second_tracker_breaks_accumulation :
    let tree (pol : Pol) := PEvs.instr "Emit" (.call "CallFunction" pol (.instr "Emit" (.instr "Emit" .nil)) (.instr "Emit" .nil))
    let c := total (flatten (tree .share).erase)
    c ≠ 0 →
      (runTreeP (Tracker.new c) (tree .share)).status = .outOfFuel ∧
      (runTreeP (Tracker.new c) (tree (.fresh c))).status = .done ∧
      (runTreeP (Tracker.new c) (tree .restore)).status = .done ∧
      (runTreeP (Tracker.new (c + 1)) (tree .share)).tracker.consumed = c ∧
      (runTreeP (Tracker.new (c + 1)) (tree (.fresh (c + 1)))).tracker.consumed < c ∧
      (runTreeP (Tracker.new (c + 1)) (tree .restore)).tracker.consumed < c := by
  decide


/-! ## nested-evaluation edges with the callee's trace as a parameter -/

/-- CONSUMPTION ADDS UP OVER AN EDGE.  Whatever the callees execute (their traces are parameters:
    empty, one `EmitRaw`, free instructions only, anything) and wherever they are spliced into the
    edge's own instructions: the edge consumes the cost of its own instructions plus what every
    callee consumes when rendered on its own, its threshold is that sum + 1 (0 when nothing is
    charged), and for every `u64` budget outcome and levels are the ones predicted from the parts
    (`edgeRun`: success with exactly that consumption at or above the threshold, out of fuel with an
    empty tank below). -/
theorem edge_consumption_adds_up {callees : List (List String)} {frame s : List String} (h : Splice callees frame s)
    (B : Nat) (hB : B < u64Bound) :
    total s = total frame + calleesTotal callees ∧ thr s = edgeThr frame callees ∧
    ((runFuel B s).status, (runFuel B s).tracker.consumed, (runFuel B s).tracker.remainingFuel) = edgeRun B frame callees := by
  have ht := splice_total h
  have hthr : thr s = edgeThr frame callees := by simp [thr, edgeThr, edgeTotal, ht]
  refine ⟨ht, hthr, ?_⟩
  have hsum := levels_sum B s
  obtain ⟨hge, hlt, _⟩ := threshold_exact s B hB
  by_cases hb : thr s ≤ B
  · obtain ⟨h1, _, h3⟩ := hge hb
    have : edgeThr frame callees ≤ B := by omega
    simp only [edgeRun, this, if_true, edgeTotal, h1, h3, ← ht]
    have : (runFuel B s).tracker.remainingFuel = B - total s := by omega
    rw [this]
  · obtain ⟨h1, _, _⟩ := hlt (by omega)
    have hr : (runFuel B s).tracker.remainingFuel = 0 := by
      simpa [remainingFuel, runFuel] using runFrom_oof_remaining (Tracker.new B) s (by simpa [runFuel] using h1)
    have : ¬ edgeThr frame callees ≤ B := by omega
    simp only [edgeRun, this, if_false, h1, hr]
    have : (runFuel B s).tracker.consumed = B := by omega
    rw [this]

/-- the same for one callee run `m` times (an include in a loop, a macro called twice) -/
theorem edge_repeated_callee {frame s callee : List String} (m : Nat) (h : Splice (List.replicate m callee) frame s) :
    total s = total frame + m * total callee := by
  rw [splice_total h, calleesTotal_replicate]

/-- an include of a text-only partial in a loop over two items -/
example : Splice (List.replicate 2 ["EmitRaw"]) ["LoadConst", "Include", "Jump", "LoadConst", "Include", "Jump"]
      ["LoadConst", "Include", "EmitRaw", "Jump", "LoadConst", "Include", "EmitRaw", "Jump"] :=
  Splice.own _ (Splice.own _ (Splice.callee ["EmitRaw"] (Splice.own _ (Splice.own _ (Splice.own _
    (Splice.callee ["EmitRaw"] (Splice.own _ Splice.nil)))))))

/-- an include whose callee is a single `EmitRaw` (literal text only), an empty callee, and a
    callee run three times in a loop -/
example :
    Splice [["EmitRaw"]] ["LoadConst", "Include", "EmitRaw"] ["LoadConst", "Include", "EmitRaw", "EmitRaw"] ∧
    Splice [[]] ["LoadConst", "Include"] ["LoadConst", "Include"] ∧
    edgeRun 3 ["LoadConst", "Include"] [["EmitRaw"]] = (.outOfFuel, 3, 0) ∧
    edgeRun 4 ["LoadConst", "Include"] [["EmitRaw"]] = (.done, 3, 1) := by
  refine ⟨?_, ?_, by decide, by decide⟩
  · exact Splice.own _ (Splice.own _ (Splice.callee ["EmitRaw"] (Splice.own _ Splice.nil)))
  · exact Splice.callee [] (Splice.own _ (Splice.own _ Splice.nil))

/-- … and why every executed instruction has to go through the charge: an engine that does the
    work of a callee outside the metered loop (charged trace = the edge's own instructions only)
    accepts budgets below the threshold of the work that was really done and reports less than it
    consumed; the gap is exactly what the callees cost. -/
theorem uncharged_work_breaks_accumulation {callees : List (List String)} {frame s : List String} (h : Splice callees frame s)
    (hc : calleesTotal callees ≠ 0) (B : Nat) (hB : thr frame ≤ B) :
    (unchargedRun B frame).status = .done ∧ (unchargedRun B frame).tracker.consumed + calleesTotal callees = total s ∧
    thr frame < thr s := by
  have ht := splice_total h
  obtain ⟨_, h2, h3⟩ := deterministic frame B B hB hB
  refine ⟨?_, by simp only [unchargedRun, h3, ht], ?_⟩
  · by_cases h0 : total frame = 0
    · simp [unchargedRun, runFuel, runFrom_free _ frame h0]
    · simp only [thr, h0, if_false] at hB
      simp [unchargedRun, runFuel, runFrom_enough (Tracker.new B) frame (by simp [Tracker.new]; omega)]
  · simp only [thr]
    split <;> split <;> omega

example : calleesTotal [["EmitRaw"]] ≠ 0 ∧ thr ["LoadConst", "Include"] ≤ 3 := by decide


/-! ## all work is done by instruction arms of the one dispatch loop -/

/-- classification of a row `(file, function, instruction arm, kind)` of the regenerated table of
    every place in `minijinja/src` (outside the compiler, which builds instructions, and `vm/fuel.rs`,
    which prices them) that writes to the render's `Output`, fetches an instruction, starts an
    evaluation of instructions, or looks at an `Instruction` outside the dispatch loop -/
def outputSiteOk : String × String × String × String → Bool
  | (file, fn, arm, kind) =>
    if ["write:write_str", "write:write!", "write:write_escaped", "write:write_fmt", "write:env.format", "write:target()"].contains kind then
      -- output is written by the arms of EmitRaw and Emit only
      file == "vm/mod.rs" && fn == "fn eval_impl" && (arm == "EmitRaw" || arm == "Emit")
    else if kind == "fetch" then
      -- the one fetch at the head of the loop (in front of the charge); `BlockStack::instructions`
      -- picks an instruction LIST of the block stack
      (file == "vm/mod.rs" && fn == "fn eval_impl" && arm == "-") || (file == "vm/state.rs" && fn == "fn instructions")
    else if kind == "eval-call:eval_impl" then file == "vm/mod.rs" && fn == "fn do_eval"
    else if kind == "eval-call:do_eval" then file == "vm/mod.rs" && (fn == "fn eval_macro" || fn == "fn eval_state")
    else if kind == "eval-call:eval_state" then
      file == "vm/mod.rs" && ["fn eval", "fn call_block", "fn perform_include", "fn perform_super"].contains fn
    else false  -- in particular: any pattern on an `Instruction` outside the dispatch loop

/-- OUTPUT SITES ARE INSTRUCTION ARMS.  In the sources as they are now every write to the render's
    output sits in an arm of the dispatch `match instr` of `eval_impl` (after the charge of that
    instruction), instructions are fetched at one place (the head of that loop), and the nested
    evaluations of `perform_include` / `perform_super` / `call_block` / `eval_macro` / `Executor::eval`
    only go through `eval_state → do_eval → eval_impl`: none of them writes output, fetches or
    inspects an instruction itself.  This is the hypothesis under which the executed trace of an edge
    is a `Splice` of the callee traces into the edge's own instructions (`edge_consumption_adds_up`). -/
theorem output_sites_are_instruction_arms :
    MJ.Gen.outputSites.all outputSiteOk = true ∧
    (MJ.Gen.outputSites.filter (fun r => r.1 == "vm/mod.rs" && r.2.2.2 == "fetch")).length = 1 ∧
    MJ.Gen.outputSites.contains ("vm/mod.rs", "fn eval_impl", "EmitRaw", "write:write_str") = true ∧
    MJ.Gen.outputSites.contains ("vm/mod.rs", "fn perform_include", "-", "eval-call:eval_state") = true := by decide

/-- the classification is not vacuous: a fast path that writes in `perform_include` is refused -/
example : outputSiteOk ("vm/mod.rs", "fn perform_include", "-", "write:write_str") = false
    ∧ outputSiteOk ("template.rs", "fn _render", "-", "instruction-pattern") = false := by decide

/-! ## structured programs -/

/-- the cost computed on the program — a function of the context — is the total of the trace the
    unlimited run executes, and both agree on whether the render ends with an error of its own -/
theorem prog_cost_is_total (c : Ctx) (p : P) :
    (cost c [] p).1 = total (exec c [] p).1 ∧ (cost c [] p).2 = (exec c [] p).2 := by
  rw [cost_eq]; exact ⟨rfl, rfl⟩

/-- the threshold of a structured program in a context -/
def progThr (c : Ctx) (p : P) : Nat := if (cost c [] p).1 = 0 then 0 else (cost c [] p).1 + 1

/-- THRESHOLD FOR PROGRAMS WITH DATA-DEPENDENT LOOPS.  For every structured program, every context
    (trip counts and failing instructions as functions of the iteration path) and every `u64` budget:
    at or above `cost + 1` (0 when nothing is charged) the render dispatches exactly the unlimited
    run's instructions, ends the same way (normally or with the program's own error) and consumes
    exactly `cost`; below it ends out of fuel after a proper prefix; the levels add up. -/
theorem prog_threshold_exact (c : Ctx) (p : P) (B : Nat) (hB : B < u64Bound) :
    (progThr c p ≤ B →
      (runProg B c p).1 = (runProgNoFuel c p).1 ∧ (runProg B c p).2.executed = (runProgNoFuel c p).2 ∧
      (runProg B c p).2.tracker.consumed = (cost c [] p).1) ∧
    (B < progThr c p →
      (runProg B c p).1 = .outOfFuel ∧ (runProg B c p).2.executed <+: (runProgNoFuel c p).2 ∧
      (runProg B c p).2.executed.length < (runProgNoFuel c p).2.length) ∧
    (runProg B c p).2.tracker.consumed + (runProg B c p).2.tracker.remainingFuel = B := by
  obtain ⟨hge, hlt, hsum, _, _⟩ := threshold_exact (exec c [] p).1 B hB
  have hc : (cost c [] p).1 = total (exec c [] p).1 := (prog_cost_is_total c p).1
  have hthr : progThr c p = thr (exec c [] p).1 := by simp [progThr, thr, hc]
  refine ⟨?_, ?_, hsum⟩
  · intro h
    obtain ⟨h1, h2, h3⟩ := hge (hthr ▸ h)
    refine ⟨?_, h2, by rw [hc]; exact h3⟩
    simp only [runProg, runProgNoFuel, h1]
  · intro h
    obtain ⟨h1, h2, h3⟩ := hlt (hthr ▸ h)
    refine ⟨?_, h2, h3⟩
    simp only [runProg, h1]

/-- a loop whose body costs the same `k` in every iteration (and does not fail): the cost is linear in
    the trip count, which comes from the context -/
theorem uniform_loop_cost_linear (c : Ctx) (id : Nat) (head iter : List String) (body : P) (back exit : List String) (k : Nat)
    (h : ∀ i, i < c.count id [] → cost c [i] body = (k, true)) :
    cost c [] (.loop id head iter body back exit)
      = (total head + c.count id [] * (total iter + k + total back) + total exit, true) := by
  simp only [cost]
  have hm : ((List.range (c.count id [])).map fun i =>
      chainN [(total iter, true), cost c ([] ++ [i]) body, (total back, true)])
      = List.replicate (c.count id []) (total iter + k + total back, true) := by
    rw [map_const_replicate _ _ (total iter + k + total back, true)]
    · simp
    · intro i hi
      have := h i (List.mem_range.mp hi)
      simp only [List.nil_append, this, chainN]
      simp [Nat.add_assoc]
  rw [hm, List.cons_append]
  simp only [chainN, chainN_replicate]
  simp [Nat.add_assoc]

/-- a render that fails for a reason of its own -/
theorem error_threshold_exact (c : Ctx) (p : P) (hfail : (exec c [] p).2 = false) (B B' : Nat)
    (hB : B < u64Bound) (hB' : B' < u64Bound) :
    (runProgNoFuel c p).1 = .ownError ∧
    (progThr c p ≤ B → (runProg B c p).1 = .ownError ∧ (runProg B c p).2.executed = (exec c [] p).1) ∧
    (B < progThr c p → (runProg B c p).1 = .outOfFuel) ∧
    (progThr c p ≤ B → progThr c p ≤ B' →
      (runProg B c p).1 = (runProg B' c p).1 ∧ (runProg B c p).2.executed = (runProg B' c p).2.executed ∧
      (runProg B c p).2.tracker.consumed = (runProg B' c p).2.tracker.consumed) := by
  have hn : (runProgNoFuel c p).1 = .ownError := by simp [runProgNoFuel, hfail]
  obtain ⟨hge, hlt, _⟩ := prog_threshold_exact c p B hB
  obtain ⟨hge', _, _⟩ := prog_threshold_exact c p B' hB'
  refine ⟨hn, ?_, fun h => (hlt h).1, ?_⟩
  · intro h
    obtain ⟨h1, h2, _⟩ := hge h
    exact ⟨h1.trans hn, h2⟩
  · intro h h'
    obtain ⟨h1, h2, h3⟩ := hge h
    obtain ⟨h1', h2', h3'⟩ := hge' h'
    exact ⟨h1.trans h1'.symm, h2.trans h2'.symm, h3.trans h3'.symm⟩


/-- CONDITIONALS, FOR-ELSE, LOOP FILTERS.  A conditional costs what the side selected by the data
    costs (the test and the `JumpIfFalse` in front of it are ordinary instructions of the enclosing
    sequence), so `prog_threshold_exact` covers programs with `{% if %}`/`{% elif %}`/`{% else %}`, loops
    with an else part and loops with a filter: their cost is still a function of the context. -/
theorem branch_cost_selects (c : Ctx) (path : List Nat) (id : Nat) (a b : P) :
    cost c path (.branch id a b) = (if c.cond id path then cost c path a else cost c path b) ∧
    exec c path (.branch id a b) = (if c.cond id path then exec c path a else exec c path b) := by
  simp [cost, exec]

/-- `{% for %}…{% else %}…{% endfor %}`: the else part (first side of the conditional that follows the
    loop, taken when the loop did not iterate) is charged exactly when the trip count is 0; otherwise
    the cost is that of the loop (with the `PushDidNotIterate`, `PopLoopFrame`, `JumpIfFalse` that
    follow it as `after`) -/
theorem for_else_cost (c : Ctx) (lid cid : Nat) (head iter : List String) (body : P) (back exit : List String) (after : List String) (els : P)
    (hc : c.cond cid [] = decide (c.count lid [] = 0)) (hl : (cost c [] (.loop lid head iter body back exit)).2 = true) :
    cost c [] (.seq (.loop lid head iter body back exit) (.seq (afterP after) (.branch cid els .skip)))
      = if c.count lid [] = 0 then ((cost c [] (.loop lid head iter body back exit)).1 + (total after + (cost c [] els).1), (cost c [] els).2)
        else ((cost c [] (.loop lid head iter body back exit)).1 + (total after + 0), true) := by
  have ha : cost c [] (afterP after) = (total after, true) := afterP_cost c [] after
  have hseq : ∀ (a b : P), cost c [] (.seq a b) = chainN [cost c [] a, cost c [] b] := fun a b => by simp only [cost]
  have hbr : cost c [] (.branch cid els .skip) = if c.count lid [] = 0 then cost c [] els else (0, true) := by
    simp only [cost, hc, decide_eq_true_eq]
  generalize hk : cost c [] (.loop lid head iter body back exit) = k at hl ⊢
  obtain ⟨k1, k2⟩ := k
  simp only at hl
  subst hl
  rw [hseq, hseq, hk, ha, hbr]
  by_cases h0 : c.count lid [] = 0
  · generalize cost c [] els = e
    obtain ⟨e1, e2⟩ := e
    cases e2 <;> simp [chainN, h0]
  · simp [chainN, h0]

/-- an if/else inside a loop over three items whose test holds for the items 0 and 2, a loop with
    an else part that did not iterate, and a fallible `Rem` -/
private def demoCtx2 : Ctx :=
  { count := fun id _ => if id = 0 then 3 else 0, fails := fun _ _ => false,
    cond := fun id path => if id = 0 then path == [0] || path == [2] else true }
private def demoProg2 : P :=
  .seq (.loop 0 ["Lookup", "PushLoop"] ["Iterate", "StoreLocal"]
      (.seq (.instr "Lookup") (.seq (.instr "JumpIfFalse") (.branch 0 (.seq (.instr "EmitRaw") (.instr "Jump")) (.mayFail "Rem" 0))))
      ["Jump"] ["Iterate", "PopLoopFrame"])
    (.seq (.loop 1 ["Lookup", "PushLoop"] ["Iterate", "StoreLocal"] (.instr "Emit") ["Jump"] ["Iterate"])
      (.seq (afterP ["PushDidNotIterate", "PopLoopFrame", "JumpIfFalse"]) (.branch 1 (.instr "EmitRaw") .skip)))

example : (exec demoCtx2 [] demoProg2).2 = true
    ∧ (exec demoCtx2 [] demoProg2).1 = ["Lookup", "PushLoop", "Iterate", "StoreLocal", "Lookup", "JumpIfFalse", "EmitRaw", "Jump", "Jump",
        "Iterate", "StoreLocal", "Lookup", "JumpIfFalse", "Rem", "Jump", "Iterate", "StoreLocal", "Lookup", "JumpIfFalse", "EmitRaw", "Jump", "Jump",
        "Iterate", "PopLoopFrame", "Lookup", "PushLoop", "Iterate", "PushDidNotIterate", "PopLoopFrame", "JumpIfFalse", "EmitRaw"]
    ∧ (cost demoCtx2 [] demoProg2).1 = total (exec demoCtx2 [] demoProg2).1 := by
  decide

/-- two nested loops: the inner trip count is the outer index (a triangle), the innermost
    instruction fails in iteration (2, 1) -/
private def demoCtx : Ctx := { count := fun id path => if id = 0 then 3 else path.getLastD 0, fails := fun _ path => path == [2, 1] }
private def demoProg : P :=
  .loop 0 ["Lookup", "PushLoop"] ["Iterate", "StoreLocal"]
    (.loop 1 ["Lookup", "PushLoop"] ["Iterate", "StoreLocal"] (.seq (.mayFail "IntDiv" 0) (.instr "Emit")) ["Jump"] ["Iterate", "PopLoopFrame"])
    ["Jump"] ["Iterate", "PopLoopFrame"]

example : (exec demoCtx [] demoProg).2 = false ∧ (exec demoCtx [] demoProg).1.length = 33
    ∧ (exec { demoCtx with fails := fun _ _ => false } [] demoProg).2 = true
    ∧ (cost { demoCtx with fails := fun _ _ => false } [] demoProg).1 = total (exec { demoCtx with fails := fun _ _ => false } [] demoProg).1 := by
  decide

end MJ.C13
