import MJ.Proofs.Fuel
/-!
# C13 — fuel gives every render a fixed, exact success threshold

Property theorems only (helper lemmas: `MJ/Proofs/Fuel.lean`, model: `MJ/Model/Fuel.lean`).

A render is represented by its *trace*: the instruction names the VM dispatches in the unlimited
run (`runNoFuel trace = trace`).  `runFuel B trace` is the same render with `set_fuel(Some(B))`:
`FuelTracker::track` is charged for every instruction before it is dispatched.  `thr trace` depends
on the trace only.  All statements hold for **every** budget `B < 2^64` (`u64`), in particular for
`2^63 − 1`, `2^63` and `2^64 − 1`.
-/
namespace MJ.C13
open MJ MJ.Fuel MJ.Fuel.Tracker

/-- Full-strength statement: for every trace and every `u64` budget,
    * at or above the threshold every instruction of the unlimited run is dispatched (hence the
      same output), the run ends normally and exactly `total trace` was consumed;
    * below it the run ends with out-of-fuel after a proper prefix of the unlimited run (nothing
      else is dispatched, no other failure is introduced);
    * in both cases the levels left in the state add up to the budget and fit `u64`. -/
def C13_full : Prop :=
  ∀ (trace : List String) (B : Nat), B < u64Bound →
    (thr trace ≤ B →
      (runFuel B trace).status = .done ∧ (runFuel B trace).executed = runNoFuel trace ∧
      (runFuel B trace).tracker.consumed = total trace) ∧
    (B < thr trace →
      (runFuel B trace).status = .outOfFuel ∧ (runFuel B trace).executed <+: runNoFuel trace ∧
      (runFuel B trace).executed.length < trace.length) ∧
    (runFuel B trace).tracker.consumed + (runFuel B trace).tracker.remainingFuel = B ∧
    (runFuel B trace).tracker.consumed < u64Bound ∧ (runFuel B trace).tracker.remainingFuel < u64Bound

/-- the levels in the state always add up to the budget: after any run, successful or not -/
theorem levels_sum (B : Nat) (trace : List String) :
    (runFuel B trace).tracker.consumed + (runFuel B trace).tracker.remainingFuel = B := by
  have h := runFrom_remaining_le (Tracker.new B) trace
  simp only [Tracker.new] at h
  simp only [consumed, remainingFuel, satSub, runFuel, Tracker.new, h.2]
  omega

theorem threshold_exact : C13_full := by
  intro trace B hB
  have hsum := levels_sum B trace
  refine ⟨?_, ?_, hsum, by omega, by omega⟩
  · intro h
    by_cases h0 : total trace = 0
    · have := runFrom_free (Tracker.new B) trace h0
      simp only [runFuel, this]
      simp [runNoFuel, consumed, remainingFuel, satSub, Tracker.new, h0]
    · simp only [thr, h0, if_false] at h
      have := runFrom_enough (Tracker.new B) trace (by simp [Tracker.new]; omega)
      simp only [runFuel, this]
      simp [runNoFuel, consumed, remainingFuel, satSub, Tracker.new]
      omega
  · intro h
    by_cases h0 : total trace = 0
    · simp [thr, h0] at h
    · simp only [thr, h0, if_false] at h
      obtain ⟨pre, e, hl, hp, _⟩ := runFrom_short (Tracker.new B) trace h0 (by simp [Tracker.new]; omega)
      simp [runFuel, e, runNoFuel, hp, hl]

/-- a loop-shaped trace (whatever the current cost table says): the largest budget and the
    threshold itself succeed, one below the threshold runs out of fuel -/
example :
    let t := ["Lookup", "PushLoop", "Iterate", "Emit", "Jump", "Iterate", "PopLoopFrame"]
    (runFuel 18446744073709551615 t).status = .done ∧ (runFuel (thr t) t).status = .done
    ∧ (thr t = 0 ∨ (runFuel (thr t - 1) t).status = .outOfFuel) := by decide

/-- `fuel_levels()` add up to the budget at every point of a run (after any number `k` of charged
    instructions), whatever happens later -/
theorem levels_add_up (B : Nat) (trace : List String) (k : Nat) :
    (levelsAt B trace k).1 + (levelsAt B trace k).2 = B := by
  simpa [levelsAt] using levels_sum B (trace.take k)

example : (levelsAt 9223372036854775808 ["Lookup", "DupTop", "Emit", "EmitRaw"] 3).1
    + (levelsAt 9223372036854775808 ["Lookup", "DupTop", "Emit", "EmitRaw"] 3).2 = 9223372036854775808 := by decide

/-- consumption is a function of the render, not of the budget or of the repetition: every
    sufficient budget dispatches the same instructions and reports the same consumed amount -/
theorem deterministic (trace : List String) (B B' : Nat) (h : thr trace ≤ B) (h' : thr trace ≤ B') :
    (runFuel B trace).executed = (runFuel B' trace).executed ∧
    (runFuel B trace).tracker.consumed = (runFuel B' trace).tracker.consumed ∧
    (runFuel B trace).tracker.consumed = total trace := by
  have key : ∀ C, thr trace ≤ C → (runFuel C trace).executed = trace ∧ (runFuel C trace).tracker.consumed = total trace := by
    intro C hC
    by_cases h0 : total trace = 0
    · have := runFrom_free (Tracker.new C) trace h0
      simp only [runFuel, this]
      simp [consumed, remainingFuel, satSub, Tracker.new, h0]
    · simp only [thr, h0, if_false] at hC
      have := runFrom_enough (Tracker.new C) trace (by simp [Tracker.new]; omega)
      simp only [runFuel, this]
      simp [consumed, remainingFuel, satSub, Tracker.new]
      omega
  have a := key B h
  have b := key B' h'
  exact ⟨by rw [a.1, b.1], by rw [a.2, b.2], a.2⟩

example : thr ["Lookup", "Emit"] ≤ thr ["Lookup", "Emit"] + 3 ∧ thr ["Lookup", "Emit"] ≤ 18446744073709551615 := by decide

/-- Nested evaluations (macro call, include, block, `super()`) run on the caller's `State`, so the
    trace of the whole render is `pre ++ nested ++ post`:
    * the nested part continues with the tracker the caller left behind (no fresh budget),
    * costs add up, and so does the threshold (for parts that consume anything),
    * a nested evaluation that would fit the budget on its own still fails when the caller has
      already used too much. -/
theorem nested_shares_tracker (pre nested post : List String) (B : Nat) :
    total (pre ++ nested ++ post) = total pre + total nested + total post ∧
    ((runFuel B pre).status = .done →
      runFuel B (pre ++ nested) =
        { runFrom (runFuel B pre).tracker nested with
          executed := pre ++ (runFrom (runFuel B pre).tracker nested).executed }) ∧
    (total nested ≠ 0 → B ≤ total pre + total nested → (runFuel B (pre ++ nested ++ post)).status = .outOfFuel) := by
  refine ⟨by simp [total_append, Nat.add_assoc], ?_, ?_⟩
  · intro hd
    have hp : (runFuel B pre).executed = pre := by
      by_cases h0 : total pre = 0
      · simp [runFuel, runFrom_free _ pre h0]
      · by_cases hb : total pre < B
        · simp [runFuel, runFrom_enough (Tracker.new B) pre (by simpa [Tracker.new] using hb)]
        · obtain ⟨p, e, _⟩ := runFrom_short (Tracker.new B) pre h0 (by simp [Tracker.new]; omega)
          simp [runFuel, e] at hd
    simp only [runFuel] at hd hp ⊢
    rw [runFrom_append, hd]
    simp [hp]
  · intro hn hB
    have h0 : total (pre ++ nested ++ post) ≠ 0 := by simp [total_append]; omega
    obtain ⟨p, e, _⟩ := runFrom_short (Tracker.new B) (pre ++ nested ++ post) h0
      (by simp [Tracker.new, total_append]; omega)
    simp only [runFuel, e]

/-- caller and nested part each fit the budget on their own, together they do not -/
example :
    let a := ["Lookup", "Emit"]
    let b := ["CallFunction", "Emit"]
    let B := max (thr a) (thr b)
    (runFuel B a).status = .done ∧ (runFuel B b).status = .done
    ∧ (total a = 0 ∨ total b = 0 ∨ (runFuel B (a ++ b ++ ["EmitRaw"])).status = .outOfFuel) := by decide

/-- what was wrong before the repair (`remaining: fuel as isize`, checked `-=`, `<= 0`), for an
    instruction of cost 1: the largest budget failed on the first charge and `2^63` panicked while
    `2^63 − 1` worked; the repaired tracker accepts all three -/
theorem legacy_defect :
    Legacy.track (Legacy.new 18446744073709551615) 1 = .ok .outOfFuel ∧
    Legacy.track (Legacy.new 9223372036854775808) 1 = .panic ∧
    Legacy.track (Legacy.new 9223372036854775807) 1 = .ok (.ok ⟨9223372036854775807, 9223372036854775806⟩) ∧
    (Tracker.new 18446744073709551615).track 1 = .ok ⟨18446744073709551615, 18446744073709551614⟩ ∧
    (Tracker.new 9223372036854775808).track 1 = .ok ⟨9223372036854775808, 9223372036854775807⟩ := by decide

end MJ.C13
