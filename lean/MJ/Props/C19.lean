import MJ.Proofs.OutputProg
import MJ.Proofs.OutputEmit
import MJ.Proofs.OutputUser
import MJ.Proofs.OutputSites
/-!
# C19 — a failing output sink stops the render with the sink's own error

Property theorems only (lemmas: `MJ/Proofs/Output.lean`, model: `MJ/Model/Output.lean`).

* `ops : List Op` — the output operations a render performs (writes of chunks, begin/end of
  captures and discards, entering/leaving nested evaluations that wrap errors, failures that are
  not about the output).  *Every* sequence is covered, also ill-formed ones.
* `script : List Beh` — what the sink does at its 1st, 2nd, … `write` call (accept all / at most
  `k` bytes / half / `Err(e)` of any kind incl. `Interrupted`); afterwards it accepts everything.
* `renderTo ops script` — `Template::render_captured_to` / `State::render_block_to_write`:
  the log of all `write` calls the sink saw and the returned result.
* `renderString ops` — the plain render into a `String` (`Template::render`,
  `State::render_block`): the string built and the result.
-/
namespace MJ.C19
open MJ MJ.Output

/-- Full-strength statement, for every operation sequence and every sink behaviour. -/
def C19_full : Prop :=
  ∀ (ops : List Op) (script : List Beh),
    -- (1) what the sink accepted is a prefix of what the plain render builds
    delivered (renderTo ops script).calls <+: (renderString ops).buf ∧
    -- (2) a call at which the sink failed is the last call it ever sees
    (∀ (i : Nat) (h : i < (renderTo ops script).calls.length),
        ((renderTo ops script).calls[i]).failure ≠ none → i + 1 = (renderTo ops script).calls.length) ∧
    -- (3) if the sink failed with `e`, the call returns `WriteFailure` with source `e`
    (∀ c ∈ (renderTo ops script).calls, ∀ e, c.failure = some e →
        (renderTo ops script).result = .ok (.error (.writeFailure (some e)))) ∧
    -- (4) if the sink never failed the result is the plain render's and everything was delivered
    ((∀ c ∈ (renderTo ops script).calls, c.failure = none) →
        (renderTo ops script).result = (renderString ops).result ∧
        delivered (renderTo ops script).calls = (renderString ops).buf) ∧
    -- (5) captured/discarded regions are invisible to the sink and to the result
    renderTo (erase 0 ops) script = renderTo ops script ∧
    -- (6) no panic for well-bracketed captures
    (balanced 0 ops = true → (renderTo ops script).result ≠ .panic)

/-- **Delivered bytes are a prefix** of the string the plain render of the same operations builds
    — in order, nothing duplicated, nothing omitted — whether the render succeeds or fails. -/
theorem delivered_is_prefix (ops : List Op) (script : List Beh) :
    delivered (renderTo ops script).calls <+: (renderString ops).buf :=
  (render_facts ops script).1

example : delivered (renderTo [.write (.str [104, 105]), .write (.str [33])]
      [.accept 1, .err ⟨.brokenPipe, 7, .msg⟩]).calls = [104] ∧
    (renderString [.write (.str [104, 105]), .write (.str [33])]).buf = [104, 105, 33] := by decide

/-- **Nothing after an error**: a `write` call at which the sink failed (a non-`Interrupted`
    error, or `Ok(0)`) is the last call the sink ever receives. -/
theorem nothing_after_error (ops : List Op) (script : List Beh) (i : Nat)
    (h : i < (renderTo ops script).calls.length)
    (hf : ((renderTo ops script).calls[i]).failure ≠ none) :
    i + 1 = (renderTo ops script).calls.length := by
  rcases (render_facts ops script).2 with ⟨hc, _, _⟩ | ⟨e, ⟨pre, last, hcalls, hpre, _⟩, _⟩
  · exact absurd (hc _ (List.getElem_mem h)) hf
  · have hlen : (renderTo ops script).calls.length = pre.length + 1 := by rw [hcalls]; simp
    by_cases hi : i < pre.length
    · exfalso
      apply hf
      have : (renderTo ops script).calls[i] = pre[i] := by
        simp only [hcalls]; exact List.getElem_append_left hi
      rw [this]
      exact hpre _ (List.getElem_mem hi)
    · omega

example : (renderTo [.write (.str [1, 2]), .write (.str [3]), .write (.str [4])]
      [.all, .err ⟨.other, 9, .bare⟩]).calls.length = 2 := by decide

/-- **The error is the sink's own**: if the sink failed with `e` at any call, the API returns
    `Err` of kind `WriteFailure` whose source is `e` — not `Ok`, not another kind (whatever nested
    include/super evaluation was being unwound), not a panic.  `e` ranges over ALL error tokens
    (`script` is arbitrary): bare kinds, raw OS errors, string and custom payloads, payloads that
    are engine errors themselves (of kind `WriteFailure` too, with source chains), nested
    `io::Error`s — the token comes back untouched. -/
theorem error_is_write_failure_with_source (ops : List Op) (script : List Beh) (c : Call)
    (hc : c ∈ (renderTo ops script).calls) (e : IoErr) (hf : c.failure = some e) :
    (renderTo ops script).result = .ok (.error (.writeFailure (some e))) := by
  rcases (render_facts ops script).2 with ⟨hcl, _, _⟩ | ⟨e', ⟨pre, last, hcalls, hpre, hlast⟩, hres⟩
  · rw [hcl c hc] at hf; cases hf
  · rw [hcalls] at hc
    rcases List.mem_append.1 hc with hp | hl
    · rw [hpre c hp] at hf; cases hf
    · simp only [List.mem_singleton] at hl
      subst hl
      rw [hlast] at hf
      cases hf
      exact hres

example : (renderTo [.enter .badInclude, .write (.str [1]), .leave] [.err ⟨.wouldBlock, 5, .engine (.leaf .invalidOperation)⟩]).result
    = .ok (.error (.writeFailure (some ⟨.wouldBlock, 5, .engine (.leaf .invalidOperation)⟩))) := by rfl
example : (renderTo [.write (.str [1, 2])] [.accept 1, .accept 0]).result
    = .ok (.error (.writeFailure (some writeZeroErr))) := by rfl

/-- **Without a sink failure nothing is lost or invented**: the result is exactly the plain
    render's result (no spurious `WriteFailure`) and every byte was delivered. -/
theorem clean_sink_same_as_plain (ops : List Op) (script : List Beh)
    (h : ∀ c ∈ (renderTo ops script).calls, c.failure = none) :
    (renderTo ops script).result = (renderString ops).result ∧
    delivered (renderTo ops script).calls = (renderString ops).buf := by
  rcases (render_facts ops script).2 with ⟨_, hres, hd⟩ | ⟨e, hfw, _⟩
  · exact ⟨hres, hd⟩
  · exact absurd h (failsWith_not_clean hfw)

/-- **Success delivers all**: `Ok` is returned only if the plain render succeeds too and the sink
    received the complete output. -/
theorem success_delivers_all (ops : List Op) (script : List Beh)
    (h : (renderTo ops script).result = .ok (.ok ())) :
    (renderString ops).result = .ok (.ok ()) ∧
    delivered (renderTo ops script).calls = (renderString ops).buf := by
  rcases (render_facts ops script).2 with ⟨_, hres, hd⟩ | ⟨e, _, hres⟩
  · exact ⟨by rw [← hres, h], hd⟩
  · rw [hres] at h; cases h

example : (renderTo [.write (.str [1, 2, 3]), .write (.chr [4])]
      [.accept 1, .err ⟨.interrupted, 1, .msg⟩, .half]).result = .ok (.ok ()) ∧
    delivered (renderTo [.write (.str [1, 2, 3]), .write (.chr [4])]
      [.accept 1, .err ⟨.interrupted, 1, .msg⟩, .half]).calls = [1, 2, 3, 4] := ⟨by rfl, by decide⟩

/-- Short (non-empty) writes and `Interrupted` are absorbed: with such a sink the render behaves
    exactly like the plain render. -/
theorem benign_sink_same_as_plain (ops : List Op) (script : List Beh)
    (hb : ∀ b ∈ script, b.benign = true) :
    (renderTo ops script).result = (renderString ops).result ∧
    delivered (renderTo ops script).calls = (renderString ops).buf := by
  obtain ⟨hbuf, hcalls, hr⟩ := render_spec ops script
  have hok := feed_benign (chunksOf ops) (⟨script, [], none⟩ : WriteWrapper) hb rfl
  rcases (render_facts ops script).2 with ⟨_, hres, hd⟩ | ⟨e, hfw, _⟩
  · exact ⟨hres, hd⟩
  · exfalso
    obtain ⟨new, f1, _, f3, _⟩ := feed_spec (chunksOf ops) (⟨script, [], none⟩ : WriteWrapper) rfl
    simp only [List.nil_append] at f1
    rw [hcalls, f1] at hfw
    exact failsWith_not_clean hfw (f3 hok).2.1

example : ∀ b ∈ [Beh.accept 1, .err ⟨.interrupted, 1, .msg⟩, .half, .all], b.benign = true := by decide

/-- **Captures do not touch the sink** (local form): while a capture or discard is open a write
    leaves the base writer untouched and cannot fail. -/
theorem capture_write_local {B : Type} [FmtWrite B] (o : Out B) (c : Chunk) (h : o.stack ≠ []) :
    (o.write c).1.w = o.w ∧ (o.write c).2 = true :=
  ⟨(Out.write_captured o c h).1, (Out.write_captured o c h).2.1⟩

/-- **Captures do not touch the sink** (global form): deleting every captured or discarded
    region from the operations changes neither the sink's call log nor the returned result, for
    any sink behaviour; the same holds for the plain render. -/
theorem captures_do_not_touch_sink (ops : List Op) (script : List Beh) :
    renderTo (erase 0 ops) script = renderTo ops script ∧
    renderString (erase 0 ops) = renderString ops := by
  constructor
  · obtain ⟨h1, h2⟩ := run_erase ops 0 (St.init (⟨script, [], none⟩ : WriteWrapper))
      (St.init (⟨script, [], none⟩ : WriteWrapper)) rfl rfl rfl rfl
    simp only [renderTo, h1, h2]
  · obtain ⟨h1, h2⟩ := run_erase ops 0 (St.init ([] : Bytes)) (St.init ([] : Bytes)) rfl rfl rfl rfl
    simp only [renderString, h1, h2]

example : erase 0 [.write (.str [1]), .beginCapture false, .write (.str [2]), .endCapture,
      .beginCapture true, .write (.str [3]), .endCapture, .write (.str [4])]
    = [.write (.str [1]), .write (.str [4])] := by decide

/-- **No panic**: with well-bracketed captures (no `end_capture` without `begin_capture`) neither
    render panics, whatever the sink does. -/
theorem no_panic (ops : List Op) (script : List Beh) (hb : balanced 0 ops = true) :
    (renderTo ops script).result ≠ .panic ∧ (renderString ops).result ≠ .panic := by
  have h1 := run_no_panic ops (St.init (⟨script, [], none⟩ : WriteWrapper)) hb
  have h2 := run_no_panic ops (St.init ([] : Bytes)) hb
  refine ⟨?_, h2⟩
  simp only [renderTo]
  cases hr : (run ops (St.init (⟨script, [], none⟩ : WriteWrapper))).2 with
  | panic => exact absurd hr h1
  | ok x =>
    cases x with
    | error e => simp [WriteWrapper.finish]
    | ok u => simp [WriteWrapper.finish]

example : balanced 0 [.beginCapture false, .write (.str [2]), .endCapture, .write (.str [4])] = true := by
  decide
/-- the hypothesis is needed: an unmatched `end_capture` is `pop().unwrap()` on an empty stack -/
example : (renderTo [.endCapture] []).result = .panic := by rfl

/-- **C19**, all parts, for every operation sequence and every sink behaviour. -/
theorem C19_holds : C19_full := by
  intro ops script
  exact ⟨delivered_is_prefix ops script,
    fun i h hf => nothing_after_error ops script i h hf,
    fun c hc e hf => error_is_write_failure_with_source ops script c hc e hf,
    clean_sink_same_as_plain ops script,
    (captures_do_not_touch_sink ops script).1,
    fun hb => (no_panic ops script hb).1⟩

/-- **`Output::null()`** (`Expression::eval`): evaluating on the null output ends exactly like
    evaluating the same operations into a `String` under a discard — a write can never fail there,
    so no `WriteFailure` can originate from it. -/
theorem null_output_same_as_string (ops : List Op) :
    renderNull ops = (run ops (⟨⟨([] : Bytes), [none]⟩, []⟩ : St Bytes)).2 := by
  obtain ⟨cs, _, _, h⟩ := run_sim ops (⟨⟨(), [none]⟩, []⟩ : St Unit) ⟨⟨[], [none]⟩, []⟩ rfl rfl
  obtain ⟨cs', _, _, h'⟩ := run_sim ops (⟨⟨([] : Bytes), [none]⟩, []⟩ : St Bytes) ⟨⟨[], [none]⟩, []⟩ rfl rfl
  simp only [feed_null, feed_string] at h h'
  rcases h with ⟨_, h⟩ | ⟨hf, _⟩
  · rcases h' with ⟨_, h'⟩ | ⟨hf', _⟩
    · simp only [renderNull]; rw [h, h']
    · cases hf'
  · cases hf

example : renderNull [.write (.str [1]), .endCapture, .write (.str [2])] = .ok (.ok ()) := by rfl

/-- **Structured renders are operation sequences.**  A render in which later output depends on
    captured values (set/filter blocks, macro results, `super()`) and nested evaluations wrap
    their errors on the way out, evaluated big-step (`exec`), is exactly the flat render of
    `flatten p` — an operation sequence computed without looking at the writer — and its captures
    are well bracketed. -/
theorem structured_render_is_op_sequence (p : Prog) (script : List Beh) :
    renderProgTo p script = renderTo (flatten p) script ∧
    renderProgString p = renderString (flatten p) ∧
    balanced 0 (flatten p) = true := by
  refine ⟨(renderProg_eq p script).1, (renderProg_eq p script).2, ?_⟩
  have := balanced_flatten p 0 []
  simpa [balanced] using this

/-- **C19 for structured renders**: all parts, and no panic without further hypothesis. -/
theorem C19_structured (p : Prog) (script : List Beh) :
    delivered (renderProgTo p script).calls <+: (renderProgString p).buf ∧
    (∀ (i : Nat) (h : i < (renderProgTo p script).calls.length),
        ((renderProgTo p script).calls[i]).failure ≠ none → i + 1 = (renderProgTo p script).calls.length) ∧
    (∀ c ∈ (renderProgTo p script).calls, ∀ e, c.failure = some e →
        (renderProgTo p script).result = .ok (.error (.writeFailure (some e)))) ∧
    ((∀ c ∈ (renderProgTo p script).calls, c.failure = none) →
        (renderProgTo p script).result = (renderProgString p).result ∧
        delivered (renderProgTo p script).calls = (renderProgString p).buf) ∧
    (renderProgTo p script).result ≠ .panic := by
  obtain ⟨h1, h2, h3⟩ := structured_render_is_op_sequence p script
  rw [h1, h2]
  obtain ⟨a, b, c, d, _, f⟩ := C19_holds (flatten p) script
  exact ⟨a, b, c, d, f h3⟩

/-- a set block whose captured value is printed twice, transformed, inside an include -/
example :
    let p : Prog := .seq (.emit (.str [1]))
      (.nested .badInclude (.capture false (.emit (.str [2, 3])) fun v =>
        .seq (.emit (.str (v.getD []))) (.emit (.str ((v.getD []).reverse)))))
    flatten p = [.write (.str [1]), .enter .badInclude, .beginCapture false, .write (.str [2, 3]),
      .endCapture, .write (.str [2, 3]), .write (.str [3, 2]), .leave] ∧
    (renderProgTo p [.all, .accept 1, .err ⟨.brokenPipe, 3, .os 11⟩]).result
      = .ok (.error (.writeFailure (some ⟨.brokenPipe, 3, .os 11⟩))) ∧
    delivered (renderProgTo p [.all, .accept 1, .err ⟨.brokenPipe, 3, .os 11⟩]).calls = [1, 2] :=
  ⟨by decide, by rfl, by decide⟩

/-! ## `Interrupted`, the `Emit` layer, and the facts read off the source -/

/-- **`Interrupted` is retried and invisible**: deleting every `Interrupted` answer from the
    sink's script changes neither the returned result nor the bytes delivered (only the log gets
    shorter) — for every operation sequence and every script. -/
theorem interrupted_is_invisible (ops : List Op) (script : List Beh) :
    (renderTo ops (dropInterrupts script)).result = (renderTo ops script).result ∧
    delivered (renderTo ops (dropInterrupts script)).calls = delivered (renderTo ops script).calls := by
  obtain ⟨_, hc, hr⟩ := render_spec ops script
  obtain ⟨_, hc', hr'⟩ := render_spec ops (dropInterrupts script)
  obtain ⟨h2, he, hd⟩ := feed_dropInterrupts (chunksOf ops) (⟨script, [], none⟩ : WriteWrapper)
    (⟨dropInterrupts script, [], none⟩ : WriteWrapper) rfl rfl rfl
  refine ⟨?_, by rw [hc, hc', hd]⟩
  rcases hr with ⟨hok, _, hres⟩ | ⟨hok, e, herr, hres⟩
  · rcases hr' with ⟨_, _, hres'⟩ | ⟨hok', _, _, _⟩
    · rw [hres, hres']
    · rw [h2, hok] at hok'; cases hok'
  · rcases hr' with ⟨hok', _, _⟩ | ⟨_, e', herr', hres'⟩
    · rw [h2, hok] at hok'; cases hok'
    · rw [he, herr] at herr'
      cases herr'
      rw [hres, hres']

example : dropInterrupts [.err ⟨.interrupted, 1, .msg⟩, .accept 1, .err ⟨.interrupted, 2, .msg⟩, .err ⟨.brokenPipe, 3, .os 11⟩]
    = [.accept 1, .err ⟨.brokenPipe, 3, .os 11⟩] := by decide

/-- **`HtmlEscape` chunking**: the pieces `HtmlEscape::fmt` writes are non-empty (each one is a
    real call of the sink) and concatenate to the byte-wise escaped text — with the escape table
    regenerated from the source. -/
theorem html_pieces_spec (s : Bytes) :
    (htmlPieces s).flatten = htmlEscape s ∧ ∀ p ∈ htmlPieces s, p ≠ [] :=
  ⟨htmlPieces_flatten s, htmlPiecesAux_nonempty [] s⟩

example : htmlPieces "a<b&&c".toUTF8.toList
    = ["a".toUTF8.toList, "&lt;".toUTF8.toList, "b".toUTF8.toList, "&amp;".toUTF8.toList,
       "&amp;".toUTF8.toList, "c".toUTF8.toList] := by decide +kernel

/-- **Emit of a string under HTML auto-escaping into a failing sink**: whatever the sink does,
    what it accepted is a prefix of the escaped text (also when the failure hits between an
    ordinary run and an escape sequence), and `Ok` means all of it arrived. -/
theorem emit_html_string (s : Bytes) (script : List Beh) :
    delivered (renderTo (emitOps .html (.str s)) script).calls <+: htmlEscape s ∧
    ((renderTo (emitOps .html (.str s)) script).result = .ok (.ok ()) →
      delivered (renderTo (emitOps .html (.str s)) script).calls = htmlEscape s) := by
  have hs : renderString (emitOps .html (.str s)) = ⟨htmlEscape s, .ok (.ok ())⟩ := by
    simp only [emitOps, htmlOps]
    by_cases hn : needsHtmlEscaping s = true
    · simp only [hn, if_true]
      rw [renderString_strs, htmlPieces_flatten]
    · simp only [hn]
      have := renderString_strs [s]
      simp only [List.map_cons, List.map_nil, List.flatten_cons, List.flatten_nil, List.append_nil] at this
      rw [htmlEscape_of_not_needs s (by simpa using hn)]
      simpa using this
  have h1 := delivered_is_prefix (emitOps .html (.str s)) script
  have h2 := success_delivers_all (emitOps .html (.str s)) script
  rw [hs] at h1 h2
  exact ⟨h1, fun h => (h2 h).2⟩

example : (match (renderTo (emitOps .html (.str [60, 62])) [.all, .accept 2, .err ⟨.other, 4, .custom⟩]).result with
      | .ok (.error (.writeFailure (some e))) => e.id == 4
      | _ => false) = true ∧
    delivered (renderTo (emitOps .html (.str [60, 62])) [.all, .accept 2, .err ⟨.other, 4, .custom⟩]).calls
      = "&lt;&g".toUTF8.toList := by decide +kernel

/-- **User formatting code that fails by itself** (an `Object::render`, `Display` or custom
    formatter returning `Err(fmt::Error)` after writing `ps`): if the sink never failed the call
    returns `WriteFailure` *without* source, exactly as the plain render does; if the sink failed
    with `e`, its error wins. -/
theorem self_error_vs_sink_error (ps : Pieces) (script : List Beh) :
    ((∀ c ∈ (renderTo (compile [.emitCustom ps true]) script).calls, c.failure = none) →
      (renderTo (compile [.emitCustom ps true]) script).result = .ok (.error (.writeFailure none))) ∧
    (∀ c ∈ (renderTo (compile [.emitCustom ps true]) script).calls, ∀ e, c.failure = some e →
      (renderTo (compile [.emitCustom ps true]) script).result = .ok (.error (.writeFailure (some e)))) := by
  constructor
  · intro h
    have hp := (clean_sink_same_as_plain _ script h).1
    rw [hp]
    simp only [compile, piecesOps, if_true, List.append_nil, renderString, St.init, run_append,
      run_writes_string]
    rfl
  · intro c hc e hf
    exact error_is_write_failure_with_source _ script c hc e hf

example : (renderTo (compile [.emitCustom [.str [1], .chr [2]] true]) [.half]).result
    = .ok (.error (.writeFailure none)) := by rfl

/-- **Every write site of the engine propagates** (regenerated list of all `write_str` /
    `write_char` / `write_fmt` / `write!` / `write_all` calls in output.rs, utils.rs, the VM and the
    value formatting code): none swallows the result, none panics on it, none is unclassified.
    This is what "the evaluation stops at the first `fmt::Error`" rests on in the source. -/
theorem write_sites_propagate :
    MJ.Gen.c19WriteSites.all (fun r => r.2.2 == "propagate") = true ∧ 40 ≤ MJ.Gen.c19WriteSites.length := by
  decide +kernel

/-- the public entry points that take an `io::Write` are exactly the two the model and the
    harness cover, and each builds one `WriteWrapper` and passes its failure through `take_err` -/
theorem writer_apis_covered :
    MJ.Gen.c19WriterApis = [("template.rs", "render_captured_to"), ("vm/state.rs", "render_block_to_write")] ∧
    MJ.Gen.c19WrapperSites.map (fun r => (r.1, r.2.1)) = MJ.Gen.c19WriterApis ∧
    MJ.Gen.c19WrapperSites.all (fun r => r.2.2 == 1) = true := by
  decide +kernel

/-- every row of the escape table lies inside the range pre-filter of `HtmlEscape::fmt`, so the
    filter hides none of them -/
theorem html_table_inside_filter :
    MJ.Gen.htmlEscapeTable.all (fun r => MJ.Gen.htmlEscapeFilterLo ≤ r.1.toNat ∧ r.1.toNat ≤ MJ.Gen.htmlEscapeFilterHi) = true := by
  decide +kernel

/-- the only code of output.rs that is compiled without `verif_hooks` but not with it is the
    dereference of the current target; every write of `Output` exists once, for both builds.
    NOTE: `target()` itself differs between the builds (hooked: a logging tap that turns a
    `write_fmt` into `write_str`/`write_char` calls; unhooked: the concrete target), so an override
    of `write_fmt`/`write_char` on a concrete target (`WriteWrapper`, `String`, `NullWriter`) is
    reachable only in the unhooked build: the harness runs all sink-level streams, in particular
    every user-writer program, against the unhooked build as well, and
    `writewrapper_methods_store` pins the adapter's method set. -/
theorem unhooked_bodies_pinned :
    MJ.Gen.c19UnhookedBodies = [("target", "unsafe·{·&mut·*self.target·}")] := by
  decide +kernel

/-- **The adapter stores the error and is poisoned by it**: whenever a `fmt::Write` method of a
    `WriteWrapper` that holds no error reports `fmt::Error`, the error slot holds the error with
    which the sink's last call failed (and that call is the last one logged); when it reports
    success the slot stays empty; and a wrapper that holds an error reports `fmt::Error` without
    calling the sink, keeping that first error. -/
theorem adapter_stores_error (w : WriteWrapper) (c : Chunk) :
    (w.err = none → (put w c).2 = false → ∃ e new, (put w c).1.err = some e ∧
        (put w c).1.calls = w.calls ++ new ∧ FailsWith new e) ∧
    (w.err = none → (put w c).2 = true → (put w c).1.err = none) ∧
    (∀ e, w.err = some e → put w c = (w, false)) := by
  obtain ⟨_, _, h3⟩ := writeAll_spec w.script c.bytes
  rw [put_wrapper]
  refine ⟨?_, ?_, fun e he => writeBytes_of_some he _⟩
  · intro hw
    rw [writeBytes_of_none hw]
    simp only [WriteWrapper.writeBytesOk]
    cases he : (writeAll w.script c.bytes).err with
    | none => simp
    | some e => exact fun _ => ⟨e, _, rfl, rfl, h3 e he⟩
  · intro hw
    rw [writeBytes_of_none hw]
    simp only [WriteWrapper.writeBytesOk]
    cases he : (writeAll w.script c.bytes).err with
    | none => simp [hw]
    | some e => simp

example : (put (⟨[.accept 1, .err ⟨.other, 2, .io .other .msg⟩], [], none⟩ : WriteWrapper) (.chr [195, 169])).1.err
    = some ⟨.other, 2, .io .other .msg⟩ := by decide

/-- the methods implemented in `impl fmt::Write for WriteWrapper` (regenerated from the source)
    are exactly the two of the model, and each stores the io::Error on every failing path; an
    additional override (e.g. a `write_fmt` fast path) is a new row and has to be modelled -/
theorem writewrapper_methods_store :
    MJ.Gen.c19WriteWrapperMethods = [("write_str", true), ("write_char", true)] := by
  decide +kernel

/-! ## user code that drops write errors, transient sinks -/

/-- **Dropped errors change nothing.**  Let user code (a custom formatter, an `Object::render`)
    ignore the result of any of its writes and go on — write more, return `Ok`, return another
    error.  For every such render and every sink behaviour (also a sink that fails once and then
    works again): the sink sees exactly the calls it sees when the same operations respect every
    write result, and the API returns the same result — or a panic raised later by that user code. -/
theorem dropped_errors_change_nothing (uops : List UOp) (script : List Beh) :
    (renderToU uops script).calls = (renderTo (strictU uops) script).calls ∧
    ((renderToU uops script).result = (renderTo (strictU uops) script).result ∨
     (renderToU uops script).result = .panic) := by
  obtain ⟨hw, hr⟩ := runU_strict uops (St.init (⟨script, [], none⟩ : WriteWrapper)) rfl
  simp only [renderToU, renderTo]
  refine ⟨by rw [hw], ?_⟩
  rw [hw]
  rcases hr with hr | ⟨herr, e0, hres⟩
  · left; rw [hr]
  · rw [hres]
    cases he : (run (strictU uops) (St.init (⟨script, [], none⟩ : WriteWrapper))).1.out.w.err with
    | none => exact absurd he herr
    | some e =>
      cases hx : (runU uops (St.init (⟨script, [], none⟩ : WriteWrapper))).2 with
      | panic => right; rfl
      | ok x =>
        left
        rw [finish_of_some he _ (by simp), finish_of_some he _ (by simp)]

/-- **C19 against careless user code**: whatever user code does with the results of its writes,
    what the sink accepted is a prefix of the plain render's string, the call at which the sink
    failed is the last call it ever receives (also if it would have worked again), and if it failed
    with `e` the API returns `WriteFailure` with source `e` (or the user code panicked later). -/
theorem C19_with_careless_user_code (uops : List UOp) (script : List Beh) :
    delivered (renderToU uops script).calls <+: (renderString (strictU uops)).buf ∧
    (∀ (i : Nat) (h : i < (renderToU uops script).calls.length),
        ((renderToU uops script).calls[i]).failure ≠ none → i + 1 = (renderToU uops script).calls.length) ∧
    (∀ c ∈ (renderToU uops script).calls, ∀ e, c.failure = some e →
        (renderToU uops script).result = .ok (.error (.writeFailure (some e))) ∨
        (renderToU uops script).result = .panic) := by
  obtain ⟨hc, hr⟩ := dropped_errors_change_nothing uops script
  obtain ⟨a, b, c, _⟩ := C19_holds (strictU uops) script
  rw [hc]
  refine ⟨a, b, ?_⟩
  intro cl hcl e hf
  rcases hr with hr | hr
  · left; rw [hr]; exact c cl hcl e hf
  · right; exact hr

/-- an object that keeps writing after a failed write and returns `Ok`, a sink that fails once
    (`WouldBlock`) and would work again: one failed call, nothing after it, `WriteFailure` -/
example :
    let r := renderToU [.strict (.write (.str [97])), .writeIgn (.str [120]), .writeIgn (.str [62]),
      .strict (.write (.str [98]))] [.all, .err ⟨.wouldBlock, 3, .engine (.overIo .writeFailure .brokenPipe 3)⟩]
    r.calls.length = 2 ∧ delivered r.calls = [97] ∧
    (match r.result with | .ok (.error (.writeFailure (some e))) => e.id == 3 | _ => false) = true := by
  decide

/-- **The tracker of `render_guarded` is "any write failed"** (`failed |= rv.is_err()` folded
    over the results of the object's writes), not "the last write failed". -/
theorem tracker_is_any (results : List Bool) :
    trackFailed results = results.any (fun ok => !ok) := by
  simpa [trackFailed] using trackFailed_acc results false

example : trackFailed [true, false, true] = true := by decide

/-- both forwarding methods of the tracker update the flag with `|=` (regenerated from
    value/object.rs) -/
theorem tracker_update_is_or :
    MJ.Gen.c19TrackerUpdate = [("write_str", "|="), ("write_char", "|=")] := by
  decide +kernel

/-! ## the sink's error is an opaque token: the boundary wraps it untouched -/

/-- **The boundary returns the token untouched.**  With `io` in the adapter's error slot —
    whatever `io` is, also an `io::Error` whose payload is an engine error — `write_failure` is
    `WriteFailure` with source `io`; `take_err` returns that instead of any evaluation error,
    `check` instead of any success, and so does the API (`finish`) unless the evaluation panicked. -/
theorem boundary_returns_token_untouched (w : WriteWrapper) (io : IoErr) (h : w.err = some io) :
    writeFailure io = .writeFailure (some io) ∧
    (∀ original, w.takeErr original = .writeFailure (some io)) ∧
    w.check = .error (.writeFailure (some io)) ∧
    (∀ r, r ≠ .panic → w.finish r = .ok (.error (.writeFailure (some io)))) :=
  ⟨rfl, takeErr_of_some h, check_of_some h, fun r hr => finish_of_some h r hr⟩

example : (⟨[], [], some ⟨.other, 1, .engine (.leaf .invalidOperation)⟩⟩ : WriteWrapper).check
    = .error (.writeFailure (some ⟨.other, 1, .engine (.leaf .invalidOperation)⟩)) := by rfl

/-- **A sink error is never unwrapped.**  If the sink's error carries an engine error as payload
    (`e.unwrapped = some x`: it "looks like" an error of the engine — an `InvalidOperation`, an
    `UndefinedError`, even a `WriteFailure` with or without an I/O source of its own), the API
    still returns `WriteFailure` with the sink's error `e` as source, and never the payload `x`. -/
theorem source_is_never_unwrapped (ops : List Op) (script : List Beh) (c : Call)
    (hc : c ∈ (renderTo ops script).calls) (e : IoErr) (hf : c.failure = some e) (x : Err)
    (hx : e.unwrapped = some x) :
    (renderTo ops script).result = .ok (.error (.writeFailure (some e))) ∧
    (renderTo ops script).result ≠ .ok (.error x) := by
  have h := error_is_write_failure_with_source ops script c hc e hf
  refine ⟨h, ?_⟩
  rw [h]
  intro hcontra
  have hx' : x = .writeFailure (some e) := by
    injection hcontra with h1
    injection h1 with h2
    exact h2.symm
  subst hx'
  obtain ⟨k, i, pl⟩ := e
  cases pl with
  | engine ee =>
    simp only [IoErr.unwrapped, Option.some.injEq] at hx
    cases ee with
    | leaf kk => cases kk <;> simp [EngErr.toErr, EngErr.kind] at hx
    | chain kk src => cases kk <;> simp [EngErr.toErr, EngErr.kind] at hx
    | overIo kk ik iid => cases kk <;> simp [EngErr.toErr, EngErr.kind] at hx
  | bare => simp [IoErr.unwrapped] at hx
  | os code => simp [IoErr.unwrapped] at hx
  | msg => simp [IoErr.unwrapped] at hx
  | custom => simp [IoErr.unwrapped] at hx
  | io kk inner => simp [IoErr.unwrapped] at hx

/-- the sink answers with `io::Error::new(Other, minijinja::Error::new(WriteFailure, ..).with_source(
    io::Error::new(BrokenPipe, ..)))` at its second call, inside an include -/
example :
    let tok : IoErr := ⟨.other, 8, .engine (.overIo .writeFailure .brokenPipe 8)⟩
    tok.unwrapped = some (.writeFailure (some ⟨.brokenPipe, 8, .msg⟩)) ∧
    (renderTo [.write (.str [1]), .enter .badInclude, .write (.str [2]), .leave] [.all, .err tok]).result
      = .ok (.error (.writeFailure (some tok))) := ⟨by decide, by rfl⟩

/-- **`write_failure`, `take_err`, `check` do not look at the io::Error** (regenerated from
    output.rs): `write_failure` only hands its parameter on to `with_source` and mentions no kind
    but `WriteFailure`, without any branch; `take_err` maps the slot through `write_failure`;
    `check` has the one `match` on the slot and hands the error to `write_failure`.  A branch that
    inspects the error before wrapping it (`get_ref`, `kind`, `into_inner`, `downcast`, …) is a
    new use and a new branch, and this fails. -/
theorem boundary_wraps_untouched :
    MJ.Gen.c19BoundaryBodies =
      [("write_failure", "arg:with_source", "", 0, "WriteFailure"),
       ("take_err", "", "take.map(write_failure).unwrap_or", 0, ""),
       ("check", "arg:write_failure", "take", 1, "")] := by
  decide +kernel

/-- both functions that build a `WriteWrapper` pass a success through `check` and a failure
    through `take_err`, once each, on the `Ok` / `Err` arm of the evaluation's result -/
theorem boundary_sites_check_and_take :
    MJ.Gen.c19BoundarySites =
      [("template.rs", "render_captured_to", 1, 1, 1, 1),
       ("vm/state.rs", "render_block_to_write", 1, 1, 1, 1)] := by
  decide +kernel

/-! ## stickiness of the adapter -/

/-- **Sticky after the first error.**  Once the adapter holds the sink's error `e`, nothing that
    follows — engine operations and user code of ANY behaviour (`UserCode`: strategies that see
    the result of each write and go on writing, swallow the error, return `Ok` or `Err`) — gets
    another call through to the sink or changes the error slot; every write that reaches the base
    writer reports `fmt::Error`; and the API returns `WriteFailure` with source `e` whatever the
    rest of the evaluation returned (unless it panicked). -/
theorem sticky_after_error (xops : List XOp) (st : St WriteWrapper) (e : IoErr)
    (h : st.out.w.err = some e) :
    (runX xops st).1.out.w = st.out.w ∧
    (∀ (u : UserCode), (u.run st.out).1.w = st.out.w) ∧
    (∀ c, st.out.stack = [] → (st.out.write c).2 = false) ∧
    ((runX xops st).2 ≠ .panic →
      (runX xops st).1.out.w.finish (runX xops st).2 = .ok (.error (.writeFailure (some e)))) := by
  have hw := runX_poisoned xops st h
  refine ⟨hw, fun u => UserCode.run_poisoned u st.out h, ?_, fun hp => finish_of_some (by rw [hw]; exact h) _ hp⟩
  intro c hs
  obtain ⟨⟨w, stack⟩, wraps⟩ := st
  simp only at hs h
  subst hs
  simp [Out.write, put_wrapper, writeBytes_of_some h]

/-- an object that keeps writing after the failure, looks at the results, and returns `Ok`;
    the sink would accept everything again: it is not called -/
example :
    let w : WriteWrapper := ⟨[.all, .all], [⟨[1], .err ⟨.wouldBlock, 2, .custom⟩⟩], some ⟨.wouldBlock, 2, .custom⟩⟩
    let u : UserCode := .write (.str [7]) fun ok => if ok then .ret true else .write (.chr [8]) fun _ => .ret true
    (runX [.user u, .strict (.write (.str [9]))] ⟨⟨w, []⟩, []⟩).1.out.w = w ∧
    (u.run ⟨w, []⟩).2 = true := ⟨by rfl, by rfl⟩

/-- the methods of `impl fmt::Write for WriteWrapper` (regenerated) return `Err(fmt::Error)` when
    the slot is set, before anything is handed to the sink — the guard the model's `writeBytes` has -/
theorem writewrapper_methods_sticky :
    MJ.Gen.c19WriteWrapperSticky = [("write_str", true), ("write_char", true)] := by
  decide +kernel

/-- **C19 with user code of any behaviour.**  Let user formatting code be arbitrary strategies
    (`XOp.user`).  For every render and every sink: what the sink accepted is a prefix of the
    string the plain render builds (in which every strategy takes its all-writes-succeeded path);
    a call at which the sink failed is the last one it receives; if it failed with `e` the API
    returns `WriteFailure` with source `e` (or the user code panicked afterwards); and if it never
    failed, result and bytes are the plain render's. -/
theorem C19_with_user_strategies (xops : List XOp) (script : List Beh) :
    delivered (renderToX xops script).calls <+: (renderStringX xops).buf ∧
    (∀ (i : Nat) (h : i < (renderToX xops script).calls.length),
        ((renderToX xops script).calls[i]).failure ≠ none → i + 1 = (renderToX xops script).calls.length) ∧
    (∀ c ∈ (renderToX xops script).calls, ∀ e, c.failure = some e →
        (renderToX xops script).result = .ok (.error (.writeFailure (some e))) ∨
        (renderToX xops script).result = .panic) ∧
    ((∀ c ∈ (renderToX xops script).calls, c.failure = none) →
        (renderToX xops script).result = (renderStringX xops).result ∧
        delivered (renderToX xops script).calls = (renderStringX xops).buf) := by
  obtain ⟨hp, hcase⟩ := renderX_facts xops script
  refine ⟨hp, ?_, ?_, ?_⟩
  · intro i hi hf
    rcases hcase with ⟨hc, _, _⟩ | ⟨e, hfw, _⟩
    · exact absurd (hc _ (List.getElem_mem hi)) hf
    · exact failsWith_last_only hfw i hi hf
  · intro c hc e hf
    rcases hcase with ⟨hcl, _, _⟩ | ⟨e', hfw, hres⟩
    · rw [hcl c hc] at hf; cases hf
    · rw [failsWith_unique hfw hc hf]; exact hres
  · intro hcl
    rcases hcase with ⟨_, hres, hd⟩ | ⟨e, hfw, _⟩
    · exact ⟨hres, hd⟩
    · exact absurd hcl (failsWith_not_clean hfw)

/-- a formatter that writes a prefix, and on failure writes an apology and returns `Ok`: the sink
    fails at the formatter's first write with an error that carries an engine error -/
example :
    let u : UserCode := .write (.str [40]) fun ok =>
      if ok then .write (.str [41]) fun _ => .ret true else .write (.str [33, 33]) fun _ => .ret true
    let r := renderToX [.strict (.write (.str [97])), .user u, .strict (.write (.str [98]))]
      [.all, .err ⟨.other, 5, .engine (.leaf .undefinedError)⟩]
    r.calls.length = 2 ∧ delivered r.calls = [97] ∧
    r.result = .ok (.error (.writeFailure (some ⟨.other, 5, .engine (.leaf .undefinedError)⟩))) ∧
    (renderStringX [.strict (.write (.str [97])), .user u, .strict (.write (.str [98]))]).buf = [97, 40, 41, 98] :=
  ⟨by decide, by decide, by rfl, by decide⟩

/-! ## evaluations on an `Output` of their own (macros, `caller()`, `Expression::eval`, block
rendering from a function) -/

/-- **An `Output` of its own is invisible to the caller's sink**: a macro / `caller()` body
    (`Fresh.string`), an expression evaluation (`Fresh.null`) or a block rendered into another
    writer from a function (`Fresh.sink`) contributes no operation to the caller's output; the
    caller goes on with the string that was built, or fails with the error of the call. -/
theorem own_output_is_isolated {B : Type} [FmtWrite B] (f : Fresh) (body : Prog) (k : Bytes → Prog)
    (o : Out B) :
    ((ownRun f body).2 = .ok (.ok ()) → exec (.own f body k) o = exec (k (ownRun f body).1) o) ∧
    (∀ e, (ownRun f body).2 = .ok (.error e) → exec (.own f body k) o = (o, .ok (.error e))) ∧
    (ownRun f body).2 ≠ .panic := by
  refine ⟨?_, ?_, ownRun_no_panic f body⟩
  · intro h
    rw [exec_own]
    rcases hr : ownRun f body with ⟨v, res⟩
    rw [hr] at h
    simp only at h
    subst h
    rfl
  · intro e h
    rw [exec_own]
    rcases hr : ownRun f body with ⟨v, res⟩
    rw [hr] at h
    simp only at h
    subst h
    rfl

/-- **`render_block_to_write` from inside a function**: the render into the function's own sink
    is a writer render of the block (so `C19_structured` holds for it: prefix, nothing after the
    error, `WriteFailure` with the sink's error), and that error is what the function call
    returns to the outer render. -/
theorem block_render_inside_function (script : List Beh) (body : Prog) :
    ownOutcome script body = renderProgTo body script ∧
    (ownRun (.sink script) body).2 = (renderProgTo body script).result ∧
    (∀ c ∈ (ownOutcome script body).calls, ∀ e, c.failure = some e →
      ∀ {B : Type} [FmtWrite B] (k : Bytes → Prog) (o : Out B),
        exec (.own (.sink script) body k) o = (o, .ok (.error (.writeFailure (some e))))) := by
  refine ⟨rfl, rfl, ?_⟩
  intro c hc e hf B _ k o
  have h := (C19_structured body script).2.2.1 c hc e hf
  exact (own_output_is_isolated (.sink script) body k o).2.1 _ h

/-- a macro whose result is printed in upper case inside an include, and a block rendered into a
    second sink from a function: the second sink fails with a custom error -/
example :
    let mac : Prog := .own .string (.seq (.emit (.str [104])) (.emit (.str [105]))) fun v =>
      .emit (.str (v.map fun b => b - 32))
    let p : Prog := .seq (.emit (.str [1])) (.nested .badInclude mac)
    flatten p = [.write (.str [1]), .enter .badInclude, .write (.str [72, 73]), .leave] ∧
    delivered (renderProgTo p [.all, .accept 1, .err ⟨.brokenPipe, 3, .custom⟩]).calls = [1, 72] ∧
    (exec (.own (.sink [.err ⟨.timedOut, 4, .custom⟩]) (.emit (.str [5])) fun _ => .skip)
      (⟨([] : Bytes), []⟩ : Out Bytes)).2 = .ok (.error (.writeFailure (some ⟨.timedOut, 4, .custom⟩))) :=
  ⟨by decide, by decide, by rfl⟩

/-! ## session 3: the facts read off the source, the full statement about an engine, `C19_main` -/

/-- **Every result of a write propagates** (regenerated: `C19_WRITE_SITES` = every call of
    `write_str`/`write_char`/`write_fmt`/`write!`/`write_all` on a handle of the render output;
    `C19_RESULT_FLOW` = every other use of such a handle — `&mut Output`, `&mut fmt::Formatter`,
    `&mut dyn fmt::Write`, builders and wrapper structs made from one, `Output`s created in place —
    in the crate outside the compiler: `?` / `ok!` / `ctx_ok!` / `return` / tail value / the value of a
    closure whose caller propagates / a bound result that is only consumed): no site drops,
    inspects or unwraps a `fmt::Result` or the `Result` of a function that was given the output. -/
theorem every_write_result_propagates :
    MJ.Gen.c19WriteSites.all (fun r => r.2.2 == "propagate") = true ∧
    MJ.Gen.c19ResultFlow.all (fun r => r.2.2 == "propagate" || r.2.2 == "noresult") = true ∧
    60 ≤ MJ.Gen.c19WriteSites.length ∧ 100 ≤ MJ.Gen.c19ResultFlow.length := by
  decide +kernel

example : ("vm/mod.rs:eval_impl#1", "write_str", "propagate") ∈ MJ.Gen.c19WriteSites ∧
    ("vm/mod.rs:perform_include#2", "call:eval_state", "propagate") ∈ MJ.Gen.c19ResultFlow ∧
    ("vm/mod.rs:eval_impl#2", "out.begin_capture", "noresult") ∈ MJ.Gen.c19ResultFlow := by decide +kernel

/-- **Every entry point checks the adapter** (regenerated: `C19_OUTPUT_CREATIONS` = every
    `Output::new` / `Output::null` of the crate with its base writer): an `Output` is only ever
    created over a `String`, the null writer or a `WriteWrapper`; and wherever it is a
    `WriteWrapper`, the result of the evaluation goes through `check` on the `Ok` arm and through
    `take_err` on the `Err` arm (in the function that builds the adapter, or in every caller of the
    helper that creates the `Output`).  The public functions generic over `io::Write` are among them. -/
theorem every_entry_point_checks_wrapper :
    (∀ r ∈ MJ.Gen.c19OutputCreations,
      (r.2.2.1 = "String" ∨ r.2.2.1 = "Null" ∨ r.2.2.1 = "WriteWrapper") ∧ r.2.2.2.1 = 1 ∧ r.2.2.2.2 = 1) ∧
    (∀ a ∈ MJ.Gen.c19WriterApis, ∃ r ∈ MJ.Gen.c19OutputCreations,
      r.2.2.1 = "WriteWrapper" ∧ (r.2.1 = a.2 ∨ r.2.1.endsWith ("<-" ++ a.2) = true)) ∧
    (∀ r ∈ MJ.Gen.c19BoundarySites, r.2.2.1 = 1 ∧ r.2.2.2.1 = 1 ∧ r.2.2.2.2.1 = 1 ∧ r.2.2.2.2.2 = 1) := by
  decide +kernel

example : (MJ.Gen.c19OutputCreations.filter (fun r => r.2.2.1 == "WriteWrapper")).length = 2 ∧
    (MJ.Gen.c19OutputCreations.filter (fun r => r.2.2.1 == "String")).length ≥ 5 := by decide +kernel

/-- **The source has every fact the model needs**: both methods of the adapter are sticky and store
    the error, both entry points check and take, every write site propagates. -/
theorem code_facts_hold :
    codeFacts.adapter = AdapterFacts.ok ∧ (∀ a, codeFacts.api a = ApiFacts.ok) ∧
    (∀ i, i < MJ.Gen.c19WriteSites.length → codeFacts.site i = true) := by
  refine ⟨by decide +kernel, fun a => by cases a <;> decide +kernel, ?_⟩
  intro i hi
  have hall : ∀ r ∈ MJ.Gen.c19WriteSites, (r.2.2 == "propagate") = true := by
    have := every_write_result_propagates.1
    simpa [List.all_eq_true] using this
  simp only [codeFacts, List.getElem?_eq_getElem hi]
  exact hall _ (List.getElem_mem hi)

example : codeFacts.site 0 = true ∧ codeFacts.site 100000 = false := by decide +kernel

/-- the engine, as far as C19 can see it: for every program (templates, context, environment,
    which API) the plain render and the render into a sink that behaves as `script` says -/
structure Engine (P : Type) where
  plain : P → StrOutcome
  toSink : P → List Beh → Outcome

/-- **C19, full strength, about an engine**: for ALL programs and EVERY behaviour of the sink
    (failure at the k-th `write` call for every k, any error kind incl. `Interrupted`/`WouldBlock`,
    short writes, zero-length writes, any way the error is built):
    (1) the bytes the sink accepted are a prefix of the string the plain render builds;
    (2) a call at which the sink failed is the last call it ever receives;
    (3) if the sink failed with `e` the call returns `WriteFailure` whose source is `e` (unless
        user code panicked later) — not `Ok`, not another kind, not another source;
    (4) if the sink never failed, result and bytes are the plain render's. -/
def C19_statement {P : Type} (E : Engine P) : Prop :=
  ∀ (p : P) (script : List Beh),
    delivered (E.toSink p script).calls <+: (E.plain p).buf ∧
    (∀ (i : Nat) (h : i < (E.toSink p script).calls.length),
        ((E.toSink p script).calls[i]).failure ≠ none → i + 1 = (E.toSink p script).calls.length) ∧
    (∀ c ∈ (E.toSink p script).calls, ∀ e, c.failure = some e →
        (E.toSink p script).result = .ok (.error (.writeFailure (some e))) ∨
        (E.toSink p script).result = .panic) ∧
    ((∀ c ∈ (E.toSink p script).calls, c.failure = none) →
        (E.toSink p script).result = (E.plain p).result ∧
        delivered (E.toSink p script).calls = (E.plain p).buf)

/-- **H_ops — the one hypothesis that is validated, not proved** (hook log of every run: same
    operations for `String` and `io::Write` base writers; the log of every failing run is the clean
    log cut at the failing write; the model run on the logged operations reproduces calls, bytes,
    digest, result): every program performs a sequence of output operations and calls of user
    code that does not depend on the writer, each operation issued by one of the write sites of
    the table, through one of the two functions that build a `WriteWrapper` — i.e. the engine is
    the model instantiated with the facts `F` of the source. -/
def EngineIsModel {P : Type} (F : CodeFacts) (nSites : Nat) (E : Engine P) : Prop :=
  ∃ (opsOf : P → List SXOp) (apiOf : P → Api),
    (∀ p i o, SXOp.op i o ∈ opsOf p → i < nSites) ∧
    ∀ p script, E.toSink p script = renderToF F (apiOf p) (opsOf p) script ∧
      E.plain p = renderStringF F (opsOf p)

/-- **C19, main theorem.**  The named hypotheses are: the adapter's guard and store (`hAdapter`),
    `check` / `take_err` at every entry point (`hApi`) — both discharged from the regenerated
    tables by `code_facts_hold` in `C19_main` below — and `H_ops` (validated only).  The write
    sites need NOT propagate for the four sink-level claims: a site that dropped a `fmt::Error`
    is covered by the sticky adapter and the check at the boundary (it matters for "rendering
    stops": `render_stops_at_failing_write`, `swallowing_site_goes_on`). -/
theorem C19_from_facts {P : Type} (F : CodeFacts) (n : Nat) (E : Engine P)
    (hAdapter : F.adapter = AdapterFacts.ok) (hApi : ∀ a, F.api a = ApiFacts.ok)
    (H_ops : EngineIsModel F n E) : C19_statement E := by
  obtain ⟨opsOf, apiOf, _, h⟩ := H_ops
  intro p script
  rw [(h p script).1, (h p script).2, renderToF_eq F _ _ _ hAdapter (hApi _), renderStringF_eq]
  exact C19_with_user_strategies _ script

theorem C19_main {P : Type} (E : Engine P)
    (H_ops : EngineIsModel codeFacts MJ.Gen.c19WriteSites.length E) : C19_statement E :=
  C19_from_facts codeFacts _ E code_facts_hold.1 code_facts_hold.2.1 H_ops

/-- the hypothesis is satisfiable by a non-trivial engine: the model itself over all operation
    sequences with sites of the table, both APIs -/
example : ∃ E : Engine (Api × List SXOp), EngineIsModel codeFacts 3 E ∧
    (match (E.toSink (.blockToWrite, [.op 0 (.write (.str [1])), .op 2 (.write (.chr [2]))]) [.all, .err ⟨.other, 7, .custom⟩]).result with
      | .ok (.error (.writeFailure (some e))) => e.id == 7
      | _ => false) = true := by
  refine ⟨⟨fun p => renderStringF codeFacts (p.2.filter fun x => match x with | .op i _ => i < 3 | _ => true),
           fun p s => renderToF codeFacts p.1 (p.2.filter fun x => match x with | .op i _ => i < 3 | _ => true) s⟩,
          ⟨fun p => p.2.filter fun x => match x with | .op i _ => i < 3 | _ => true, fun p => p.1, ?_, fun _ _ => ⟨rfl, rfl⟩⟩, ?_⟩
  · intro p i o hm
    have := (List.mem_filter.1 hm).2
    simpa using this
  · decide +kernel

/-- With every site propagating (the table), the engine's loop IS `run`: it stops at the first
    `fmt::Error`. -/
theorem engine_loop_is_run {B : Type} [FmtWrite B] (ops : List (Nat × Op)) (st : St B)
    (h : ∀ x ∈ ops, x.1 < MJ.Gen.c19WriteSites.length) :
    runSX codeFacts.site (ops.map fun x => .op x.1 x.2) st = run (ops.map (·.2)) st := by
  rw [runSX_eq, toXWith_propagate]
  · induction ops generalizing st with
    | nil => rfl
    | cons x xs ih =>
      simp only [List.map_cons, List.map_map, runX, run, SXOp.toX, stepX] at ih ⊢
      rcases step x.2 st with ⟨st', halt⟩
      cases halt with
      | none => exact ih st' (fun y hy => h y (List.mem_cons_of_mem _ hy))
      | some y => cases y <;> rfl
  · intro i o hm
    obtain ⟨x, hx, he⟩ := List.mem_map.1 hm
    cases he
    exact code_facts_hold.2.2 _ (h x hx)

example : runSX codeFacts.site [.op 0 (.write (.str [1])), .op 1 (.write (.str [2]))] (St.init ([] : Bytes))
    = run [.write (.str [1]), .write (.str [2])] (St.init ([] : Bytes)) :=
  engine_loop_is_run [(0, .write (.str [1])), (1, .write (.str [2]))] _ (by decide +kernel)

/-- **Both entry points are `renderTo`.**  With the facts of the source (`codeFacts`), the render
    through either function that builds a `WriteWrapper`, of operations issued by sites of the
    table, is the `renderTo` of `Output.lean` — so every theorem about `renderTo` (`C19_holds`,
    short writes and `Interrupted` absorbed, `WouldBlock` and every other kind reported with the
    sink's own error, nothing after the failure) holds for `Template::render_captured_to` and for
    `State::render_block_to_write` alike. -/
theorem both_entry_points_are_renderTo (api : Api) (ops : List (Nat × Op))
    (h : ∀ x ∈ ops, x.1 < MJ.Gen.c19WriteSites.length) (script : List Beh) :
    renderToF codeFacts api (ops.map fun x => .op x.1 x.2) script = renderTo (ops.map (·.2)) script := by
  unfold renderToF renderTo
  rw [code_facts_hold.1, code_facts_hold.2.1 api, fmtWriteF_ok]
  simp only [engine_loop_is_run ops _ h, finishF_ok]

example : ∀ api : Api,
    delivered (renderToF codeFacts api [.op 0 (.write (.str [1, 2, 3])), .op 5 (.write (.chr [4]))]
      [.accept 1, .err ⟨.interrupted, 1, .msg⟩, .half, .err ⟨.wouldBlock, 9, .os 11⟩]).calls = [1, 2] := by
  intro api; cases api <;> decide +kernel

/-- **Rendering stops at the failing write.**  If the sink failed during `renderTo ops script`,
    the operations split into `pre ++ write c :: post`: `pre` ran through, the write of `c` went
    to the base writer (no capture open) and is the one that failed, and the evaluation ended
    there with the `fmt::Error` turned into an error (which the boundary then replaces): the final
    state is the state right after that write — nothing of `post` was executed. -/
theorem render_stops_at_failing_write (ops : List Op) (script : List Beh) (c0 : Call)
    (hc : c0 ∈ (renderTo ops script).calls) (e : IoErr) (hf : c0.failure = some e) :
    ∃ pre c post, ops = pre ++ .write c :: post ∧
      (run pre (St.init (⟨script, [], none⟩ : WriteWrapper))).2 = .ok (.ok ()) ∧
      (run pre (St.init (⟨script, [], none⟩ : WriteWrapper))).1.out.stack = [] ∧
      run ops (St.init (⟨script, [], none⟩ : WriteWrapper)) =
        ((step (.write c) (run pre (St.init (⟨script, [], none⟩ : WriteWrapper))).1).1,
         .ok (.error (wrapAll (run pre (St.init (⟨script, [], none⟩ : WriteWrapper))).1.wraps Err.fromFmt))) := by
  have herr : ∃ e', (run ops (St.init (⟨script, [], none⟩ : WriteWrapper))).1.out.w.err = some e' := by
    obtain ⟨_, _, hr⟩ := render_spec ops script
    rcases hr with ⟨hok, _, _⟩ | ⟨_, e', herr, _⟩
    · exfalso
      rcases (render_facts ops script).2 with ⟨hcl, _, _⟩ | ⟨e'', hfw, hres⟩
      · rw [hcl c0 hc] at hf; cases hf
      · obtain ⟨new, f1, _, f3, _⟩ := feed_spec (chunksOf ops) (⟨script, [], none⟩ : WriteWrapper) rfl
        obtain ⟨_, hcalls, _⟩ := render_spec ops script
        simp only [List.nil_append] at f1
        rw [hcalls, f1] at hfw
        exact failsWith_not_clean hfw (f3 hok).2.1
    · obtain ⟨cs, hcc, hw, _⟩ :=
        run_sim ops (St.init (⟨script, [], none⟩ : WriteWrapper)) (St.init ([] : List Chunk)) rfl rfl
      have hcs : cs = chunksOf ops := by simpa [chunksOf, St.init] using hcc.symm
      subst hcs
      exact ⟨e', by rw [hw]; exact herr⟩
  obtain ⟨e', he'⟩ := herr
  obtain ⟨pre, c, post, h1, h2, _, h4, h5⟩ := run_stops ops (St.init (⟨script, [], none⟩ : WriteWrapper)) rfl e' he'
  exact ⟨pre, c, post, h1, h2, h4, h5⟩

example : (run [.write (.str [1]), .write (.str [2]), .beginCapture false, .write (.str [3])]
      (St.init (⟨[.all, .err ⟨.brokenPipe, 1, .msg⟩], [], none⟩ : WriteWrapper))).1.out.stack = [] := by decide

/-! ### every switch is needed: with one fact of the source gone, a render violates C19 -/

def factsWith (a : AdapterFacts) (ok take : Bool) (site : Nat → Bool) : CodeFacts :=
  ⟨a, fun _ => ⟨ok, take⟩, site⟩

/-- user code that goes on writing after a failed write and reports success -/
def carelessUser : UserCode := .write (.str [120]) fun _ => .write (.chr [121]) fun _ => .ret true

/-- **Each fact is needed.**  (1) without the guard in `write_str` / (2) in `write_char`, careless
    user code gets a call through to the sink after it failed; (3) without the store the source
    is lost; (4) without `check` on the `Ok` arm (seeded C19-7) a failure that user code swallowed
    at the last write is reported as success; (5) without `take_err` on the `Err` arm the caller
    gets "formatting failed" without the sink's error; (6) a site that drops the `fmt::Error`
    makes the engine go on after the failure (more operations executed), although sink and result
    are still right thanks to guard and check. -/
theorem each_code_fact_is_needed :
    -- (1)
    (renderToF (factsWith ⟨false, true, true, true⟩ true true fun _ => true) .capturedTo
        [.op 0 (.write (.str [97])), .user (.write (.str [120]) fun _ => .write (.str [121]) fun _ => .ret true)]
        [.all, .err ⟨.wouldBlock, 3, .msg⟩]).calls.length = 3 ∧
    -- (2)
    (renderToF (factsWith ⟨true, false, true, true⟩ true true fun _ => true) .capturedTo
        [.op 0 (.write (.str [97])), .user carelessUser] [.all, .err ⟨.wouldBlock, 3, .msg⟩]).calls.length = 3 ∧
    -- (3)
    (renderToF (factsWith ⟨true, true, true, false⟩ true true fun _ => true) .blockToWrite
        [.op 0 (.write (.chr [97]))] [.err ⟨.brokenPipe, 3, .msg⟩]).result = .ok (.error (.writeFailure none)) ∧
    -- (4)
    (renderToF (factsWith AdapterFacts.ok false true fun _ => true) .blockToWrite
        [.op 0 (.write (.str [97])), .user carelessUser] [.all, .err ⟨.brokenPipe, 3, .msg⟩]).result = .ok (.ok ()) ∧
    -- (5)
    (renderToF (factsWith AdapterFacts.ok true false fun _ => true) .capturedTo
        [.op 0 (.write (.str [97]))] [.err ⟨.brokenPipe, 3, .msg⟩]).result = .ok (.error (.writeFailure none)) ∧
    -- (6)
    (execCountF (factsWith AdapterFacts.ok true true fun _ => false) [.op 0 (.write (.str [97])), .op 1 (.beginCapture false), .op 1 .endCapture]
        [.err ⟨.brokenPipe, 3, .msg⟩] = 3 ∧
     execCountF (factsWith AdapterFacts.ok true true fun _ => true) [.op 0 (.write (.str [97])), .op 1 (.beginCapture false), .op 1 .endCapture]
        [.err ⟨.brokenPipe, 3, .msg⟩] = 1 ∧
     (renderToF (factsWith AdapterFacts.ok true true fun _ => false) .capturedTo [.op 0 (.write (.str [97])), .op 1 (.beginCapture false), .op 1 .endCapture]
        [.err ⟨.brokenPipe, 3, .msg⟩]).result = .ok (.error (.writeFailure (some ⟨.brokenPipe, 3, .msg⟩)))) := by
  refine ⟨by decide +kernel, by decide +kernel, by rfl, by rfl, by rfl, by decide +kernel, by decide +kernel, by rfl⟩

/-- **The sink-level claims hold for ANY classification of the write sites** (with the adapter and
    the boundary as they are): sites that drop a `fmt::Error` behave like user code that does. -/
theorem sink_claims_for_any_site_classification (site : Nat → Bool) (api : Api) (xs : List SXOp) (script : List Beh) :
    let F : CodeFacts := ⟨AdapterFacts.ok, fun _ => ApiFacts.ok, site⟩
    delivered (renderToF F api xs script).calls <+: (renderStringF F xs).buf ∧
    (∀ (i : Nat) (h : i < (renderToF F api xs script).calls.length),
        ((renderToF F api xs script).calls[i]).failure ≠ none → i + 1 = (renderToF F api xs script).calls.length) ∧
    (∀ c ∈ (renderToF F api xs script).calls, ∀ e, c.failure = some e →
        (renderToF F api xs script).result = .ok (.error (.writeFailure (some e))) ∨
        (renderToF F api xs script).result = .panic) := by
  intro F
  rw [renderToF_eq F api xs script rfl rfl, renderStringF_eq]
  obtain ⟨a, b, c, _⟩ := C19_with_user_strategies (xs.map (SXOp.toXWith site)) script
  exact ⟨a, b, c⟩

/-- a site that swallows, careless user code, a sink that fails once: one failed call, nothing after it -/
example :
    let F : CodeFacts := ⟨AdapterFacts.ok, fun _ => ApiFacts.ok, fun i => i != 1⟩
    let r := renderToF F .blockToWrite [.op 0 (.write (.str [1])), .op 1 (.write (.str [2])), .user carelessUser, .op 2 (.write (.str [3]))]
      [.all, .err ⟨.timedOut, 4, .custom⟩]
    r.calls.length = 2 ∧ delivered r.calls = [1] := by decide +kernel

/-! ### user code that forwards the failure of its writer -/

/-- **Well-behaved user code is part of the operation sequence.**  If every piece of user
    formatting code (custom formatter, `Object::render`, `Display`) *forwards* — after a failed write
    it writes nothing more and returns `Err(fmt::Error)`, the `?` after every write — then the render
    is the flat render of `flattenX xops`, an operation sequence computed without looking at the
    writer: every theorem about `renderTo` applies (no "or the user code panicked" escape), and the
    evaluation stops at the failing write (`render_stops_at_failing_write`). -/
theorem forwarding_user_code_is_engine_ops (xops : List XOp) (h : ∀ u, XOp.user u ∈ xops → u.forwards)
    (script : List Beh) :
    renderToX xops script = renderTo (flattenX xops) script ∧
    renderStringX xops = renderString (flattenX xops) := by
  constructor
  · simp only [renderToX, renderTo, runX_flattenX xops h]
  · simp only [renderStringX, renderString, runX_flattenX xops h]

/-- the harness's `Obj::render`: `f.write_str("<obj ")?; write!(f, "{}", 42)?; f.write_char('&')?; …` -/
example :
    let obj : UserCode := .write (.str [60]) fun ok => if ok then .write (.str [52, 50]) fun ok =>
      if ok then .write (.chr [38]) fun ok => .ret ok else .ret false else .ret false
    obj.forwards ∧ obj.okOps = [.write (.str [60]), .write (.str [52, 50]), .write (.chr [38])] := by
  refine ⟨⟨rfl, rfl, ?_⟩, rfl⟩
  exact ⟨rfl, trivial⟩

/-- **C19 with forwarding user code**, all parts at full strength. -/
theorem C19_with_forwarding_user_code (xops : List XOp) (h : ∀ u, XOp.user u ∈ xops → u.forwards)
    (script : List Beh) :
    delivered (renderToX xops script).calls <+: (renderStringX xops).buf ∧
    (∀ (i : Nat) (hi : i < (renderToX xops script).calls.length),
        ((renderToX xops script).calls[i]).failure ≠ none → i + 1 = (renderToX xops script).calls.length) ∧
    (∀ c ∈ (renderToX xops script).calls, ∀ e, c.failure = some e →
        (renderToX xops script).result = .ok (.error (.writeFailure (some e)))) ∧
    ((∀ c ∈ (renderToX xops script).calls, c.failure = none) →
        (renderToX xops script).result = (renderStringX xops).result ∧
        delivered (renderToX xops script).calls = (renderStringX xops).buf) := by
  obtain ⟨h1, h2⟩ := forwarding_user_code_is_engine_ops xops h script
  rw [h1, h2]
  obtain ⟨a, b, c, d, _, _⟩ := C19_holds (flattenX xops) script
  exact ⟨a, b, c, d⟩

end MJ.C19
