import MJ.Proofs.Kernels
import MJ.Proofs.Stk
import MJ.Proofs.Nesting
import MJ.Proofs.Scopes
import MJ.Proofs.Sites
import MJ.Proofs.KStack
import MJ.Proofs.IntOps
import MJ.Proofs.ReprStr
import MJ.Model.PanicSites
import MJ.Model.CallGraph
import MJ.Props.C09
/-!
# C01 — loading and rendering a template never crashes the host process

C01 is *partial by nature*: "does not overflow the native stack" and "does not abort in the
allocator" are facts about machine frames and `malloc` that no model exhibits.  What is logic — and
where every crash found so far came from — is proved here:

* **kernels** (`MJ/Model/Kernels.lean`, `MJ/Model/Slice.lean`): the integer arithmetic that
  template-chosen numbers flow through never reaches `Chk.panic` (overflow with overflow checks on,
  division by zero, slice index out of range, `std::fmt` argument out of range) for *all* inputs in
  the machine ranges, and every infallible allocation whose size is computed from such numbers is
  bounded by a named constant regenerated from the sources (`MJ.Gen`);
* **parser call graph** (`MJ.Gen.parserCallEdges`, regenerated from `parser.rs`): every cycle of
  `Parser` methods passes a `with_recursion_guard!` call site — except the `elif` recursion of
  `parse_if_cond`, a recorded finding — hence the number of native parser frames is bounded.

The native stack itself, the allocator and the long tail of builtins are *searched* by the crash
oracle (`harness/src/bin/c01.rs`), not proved.
-/
namespace MJ.C01
open MJ Chk Kernels CallGraph

/-! ## Full-strength statement of the proved part -/

/-- the parser's call graph as regenerated from `/repo` -/
def parserGraph : Graph := { n := Gen.parserFnNames.length, edges := Gen.parserCallEdges }

/-- index of `parse_if_cond` (or an index outside the graph when the function is gone) -/
def ifCondIdx : Nat := Gen.parserFnNames.idxOf "parse_if_cond"

/-- the one unguarded self-recursion left: `{% elif %}` (known finding `depth:elif`) -/
def elifEdge : Edge := (ifCondIdx, ifCondIdx, false)

/-- the call graph without the `elif` self-recursion -/
def parserGraphNoElif : Graph :=
  { n := parserGraph.n, edges := parserGraph.edges.filter (· != elifEdge) }

/-- longest run of parser frames without a guarded call that the check accepts -/
def maxUnguardedRun : Nat := 16

/-- the frame budget: `(MAX_RECURSION + 1) · maxUnguardedRun` native parser frames -/
def parserFrameBudget : Nat := (Gen.maxRecursionParser + 1) * maxUnguardedRun

/-- every cycle of the parser's call graph contains a guarded call site -/
def ParserGuarded : Prop := everyCycleGuarded parserGraph = true

def KernelsNeverPanic : Prop :=
  (∀ (α : Type) (xs : List α) (start stop step : Option Int), OptInI64 start → OptInI64 stop → OptInI64 step →
      xs.length < 9223372036854775808 → Slice.slice xs start stop step ≠ .panic) ∧
  (∀ lower upper step, InI64 lower → OptInI64 upper → OptInI64 step → rangeK lower upper step ≠ .panic) ∧
  (∀ idx argc, cycleK idx argc ≠ .panic) ∧
  (∀ slen n, mulStrK slen n ≠ .panic) ∧
  (∀ t len n, repeatSeqK t len n ≠ .panic) ∧
  (∀ w f b input, indentK w f b input ≠ .panic) ∧
  (∀ w, tojsonIndentK w ≠ .panic) ∧
  (∀ w cur, fmtWidthK w cur ≠ .panic) ∧
  (∀ p extra, extra ≤ 3 → fmtPrecisionK p extra ≠ .panic) ∧
  (∀ mem len count fill, (∀ c, count = some c → c < 18446744073709551616) → batchK mem len count fill ≠ .panic) ∧
  (∀ mem len count fill, len < 9223372036854775808 → sliceFK mem len count fill ≠ .panic) ∧
  (∀ text, lexErrK text ≠ .panic)

/-- C01, the part that is a theorem: no kernel panics and every cycle of the parser is guarded.
    The second conjunct is **false** on the current tree (`elif`), see `C01_counterexample`. -/
def C01_full : Prop := KernelsNeverPanic ∧ ParserGuarded

/-! ## Kernels: no panic -/

/-- `ops::slice` never panics (corollary of C09's `slice_eq_python`) -/
theorem slice_no_panic {α : Type} (xs : List α) (start stop step : Option Int)
    (hs : OptInI64 start) (he : OptInI64 stop) (hp : OptInI64 step) (hl : xs.length < 9223372036854775808) :
    Slice.slice xs start stop step ≠ .panic :=
  (MJ.C09.slice_only_error_is_zero_step xs start stop step hs he hp hl).2

example : Slice.slice [1, 2, 3] (some 2) (some 0) (some (-9223372036854775808)) = .ok (.ok [3]) := by decide

/-- `functions::range`: no overflow for any `isize` arguments -/
theorem range_no_panic (lower : Int) (upper step : Option Int) (hl : InI64 lower) (hu : OptInI64 upper)
    (hs : OptInI64 step) : rangeK lower upper step ≠ .panic := by
  unfold rangeK
  cases step with
  | none => simp
  | some s =>
    simp only
    by_cases h0 : s = 0
    · simp [h0]
    · simp only [h0, if_false]
      by_cases hpos : s > 0
      · simp [hpos]
      · simp only [hpos, if_false]
        have hs' : InI64 s := by simpa [OptInI64] using hs
        have hlo : InI64 (rangeLo lower upper) := by
          cases upper with
          | none => simp [rangeLo, InI64]
          | some u => exact hl
        have hhi : InI64 (rangeHi lower upper) := by
          cases upper with
          | none => exact hl
          | some u => simpa [OptInI64, rangeHi] using hu
        rw [negStepLen_ok _ _ s hlo hhi hs' (by omega)]
        simp

example : rangeK 9223372036854775807 (some (-9223372036854775808)) (some (-9223372036854775807))
    = .ok { allocs := [3], res := .ok ⟨3, 9223372036854775807, -9223372036854775807⟩ } := by decide
example : Legacy.negStepLen 10 0 (-9223372036854775808) = .panic := by decide
example : Legacy.negStepLen 9223372036854775807 (-9223372036854775808) (-1) = .panic := by decide

/-- `range`: at most `rangeLimit` (100000) items, whatever the arguments -/
theorem range_len_le (lower : Int) (upper step : Option Int) (out : Out RangeOut) (r : RangeOut)
    (h : rangeK lower upper step = .ok out) (hr : out.res = .ok r) :
    r.len ≤ Gen.rangeLimit ∧ ∀ a ∈ out.allocs, a ≤ Gen.rangeLimit := by
  -- every successful path ends in `toResult`
  have key : ∀ len f s, out = toResult len f s → r.len ≤ Gen.rangeLimit ∧ ∀ a ∈ out.allocs, a ≤ Gen.rangeLimit := by
    intro len f s e
    subst e
    obtain ⟨h1, _, _, h4, _⟩ := toResult_len_le len f s r hr
    exact ⟨by omega, toResult_allocs len f s⟩
  unfold rangeK at h
  cases step with
  | none => simp at h; exact key _ _ _ h.symm
  | some s =>
    simp only at h
    by_cases h0 : s = 0
    · simp [h0] at h; subst h; simp [err] at hr
    · simp only [h0, if_false] at h
      by_cases hpos : s > 0
      · simp [hpos] at h; exact key _ _ _ h.symm
      · simp only [hpos, if_false] at h
        cases hn : negStepLen (rangeLo lower upper) (rangeHi lower upper) s with
        | panic => rw [hn] at h; simp at h
        | ok n => rw [hn] at h; simp at h; exact key _ _ _ h.symm

example : (rangeK 0 (some 100001) none) = .ok err := by decide
example : (rangeK 0 (some 9223372036854775807) (some 92233720368548)) =
    .ok { allocs := [100000], res := .ok ⟨100000, 0, 92233720368548⟩ } := by decide

/-- the items of a range are exactly `start + i·step` as integers: every item fits `isize`, so the
    `i128 → isize` cast of the negative-step branch (and `Step::forward` of the others) is exact -/
theorem range_items_exact (lower : Int) (upper step : Option Int) (hl : InI64 lower) (hu : OptInI64 upper)
    (hs : OptInI64 step) (out : Out RangeOut) (r : RangeOut)
    (h : rangeK lower upper step = .ok out) (hr : out.res = .ok r) (i : Nat) (hi : i < r.len) :
    InI64 (r.item i) := by
  have hlo : InI64 (rangeLo lower upper) := by
    cases upper with
    | none => simp [rangeLo, InI64]
    | some u => exact hl
  have hhi : InI64 (rangeHi lower upper) := by
    cases upper with
    | none => exact hl
    | some u => simpa [OptInI64, rangeHi] using hu
  unfold rangeK at h
  simp only [] at h
  generalize rangeLo lower upper = lo at *
  generalize rangeHi lower upper = hiB at *
  simp only [InI64] at hlo hhi ⊢
  have key : ∀ len f st, out = toResult len f st → r.len = len ∧ r.first = f ∧ r.stride = st := by
    intro len f st e
    subst e
    obtain ⟨h1, h2, h3, _, _⟩ := toResult_len_le len f st r hr
    exact ⟨h1, h2, h3⟩
  unfold RangeOut.item
  cases step with
  | none =>
    simp at h
    obtain ⟨e1, e2, e3⟩ := key _ _ _ h.symm
    rw [e2, e3]
    rw [e1] at hi
    unfold rangeLen at hi
    split at hi
    · omega
    · omega
  | some s =>
    have hs' : InI64 s := by simpa [OptInI64] using hs
    simp only [InI64] at hs'
    simp only at h
    by_cases h0 : s = 0
    · simp [h0] at h; subst h; simp [err] at hr
    · simp only [h0, if_false] at h
      by_cases hpos : s > 0
      · simp [hpos] at h
        obtain ⟨e1, e2, e3⟩ := key _ _ _ h.symm
        rw [e2, e3]
        rw [e1] at hi
        unfold rangeLen at hi
        by_cases hlt : lo < hiB
        · simp only [hlt, if_true] at hi
          have hn : ¬ ((hiB - lo).toNat = 0) := by omega
          simp only [hn, if_false] at hi
          -- i ≤ (n - 1) / s  ⇒  i * s ≤ n - 1
          obtain ⟨k, rfl⟩ : ∃ k : Nat, s = (k : Int) := ⟨s.toNat, by omega⟩
          have hk : 0 < k := by omega
          simp only [Int.toNat_natCast] at hi
          have h1 : i ≤ ((hiB - lo).toNat - 1) / k := by omega
          have h2 : i * k ≤ (hiB - lo).toNat - 1 := (Nat.le_div_iff_mul_le hk).mp h1
          have h3 : ((i * k : Nat) : Int) = (i : Int) * (k : Int) := by push_cast; rfl
          generalize (i : Int) * (k : Int) = m at h3 ⊢
          omega
        · simp only [hlt, if_false] at hi
          simp at hi
      · simp only [hpos, if_false] at h
        rw [negStepLen_ok lo hiB s ⟨hlo.1, hlo.2⟩ ⟨hhi.1, hhi.2⟩ ⟨hs'.1, hs'.2⟩ (by omega)] at h
        simp at h
        obtain ⟨e1, e2, e3⟩ := key _ _ _ h.symm
        rw [e2, e3]
        rw [e1] at hi
        by_cases hle : lo ≤ hiB
        · simp [hle] at hi
        · simp only [hle, if_false] at hi
          -- d = -s > 0, q = (lo - hi + d - 1) / d, i + 1 ≤ q ⇒ (i + 1) * d ≤ lo - hi + d - 1
          have hd : 0 < -s := by omega
          have hq0 : 0 ≤ (lo - hiB - s - 1) / (-s) := Int.ediv_nonneg (by omega) (by omega)
          have hdiv : (lo - hiB - s - 1) / (-s) = -((lo - hiB - s - 1) / s) := Int.ediv_neg _ _
          have h1 : ((i : Int) + 1) ≤ (lo - hiB - s - 1) / (-s) := by omega
          have h2 : (lo - hiB - s - 1) / (-s) * (-s) ≤ lo - hiB - s - 1 := Int.ediv_mul_le _ (by omega)
          have h3 : ((i : Int) + 1) * (-s) ≤ (lo - hiB - s - 1) / (-s) * (-s) :=
            Int.mul_le_mul_of_nonneg_right h1 (by omega)
          have h4 : ((i : Int) + 1) * (-s) = -((i : Int) * s) + (-s) := by
            rw [Int.add_mul, Int.mul_neg]; simp
          have h5 : 0 ≤ (i : Int) * (-s) := Int.mul_nonneg (by omega) (by omega)
          have h6 : (i : Int) * (-s) = -((i : Int) * s) := Int.mul_neg _ _
          generalize (i : Int) * s = m at h4 h5 h6 ⊢
          omega

example : (⟨3, 9223372036854775807, -9223372036854775807⟩ : RangeOut).item 2 = -9223372036854775807 := by decide

/-- `loop.cycle(...)`: never a division by zero -/
theorem cycle_no_panic (idx argc : Nat) : cycleK idx argc ≠ .panic := by
  unfold cycleK urem
  by_cases h : argc = 0 <;> simp [h]

example : cycleK 5 0 = .ok err := by decide
example : cycleK 5 3 = .ok { res := .ok (some 2) } := by decide
example : Legacy.cycleK 5 0 = .panic := by decide

theorem mulStr_no_panic (slen : Nat) (n : Option Nat) : mulStrK slen n ≠ .panic := by
  unfold mulStrK
  cases n with
  | none => simp
  | some n =>
    simp only
    split
    · simp
    · split <;> simp

/-- string repetition allocates at most `MAX_REPEATED_STRING_LEN` bytes -/
theorem mulStr_alloc_le (slen : Nat) (n : Option Nat) (out : Out Nat) (h : mulStrK slen n = .ok out) :
    ∀ a ∈ out.allocs, a ≤ Gen.maxRepeatedStringLen := by
  unfold mulStrK at h
  cases n with
  | none => simp at h; subst h; simp [err]
  | some n =>
    simp only at h
    split at h
    · simp at h; subst h; simp [err]
    · split at h
      · simp at h; subst h; intro a ha; simp at ha; omega
      · simp at h; subst h; simp [err]

example : mulStrK 3 (some 33333333) = .ok { allocs := [99999999], res := .ok 99999999 } := by decide
example : mulStrK 3 (some 33333334) = .ok err := by decide
example : mulStrK 2 (some 9223372036854775808) = .ok err := by decide

theorem repeatSeq_no_panic (t : Bool) (len n : Option Nat) : repeatSeqK t len n ≠ .panic := by
  unfold repeatSeqK
  cases n with
  | none => simp
  | some n =>
    cases len with
    | none => simp
    | some len =>
      simp only
      split
      · simp
      · split
        · cases t with
          | false => simp
          | true =>
            simp only [if_true]
            split
            · simp
            · split <;> simp
        · simp

/-- sequence repetition: the eager (tuple) copy occupies at most `MAX_REPEATED_STRING_LEN` bytes and
    the lazy one yields at most that many items -/
theorem repeatSeq_alloc_le (t : Bool) (len n : Option Nat) (out : Out Nat) (h : repeatSeqK t len n = .ok out) :
    (∀ a ∈ out.allocs, a ≤ Gen.maxRepeatedStringLen) ∧ (∀ total, out.res = .ok total → total ≤ Gen.maxRepeatedStringLen) := by
  unfold repeatSeqK at h
  cases n with
  | none => simp at h; subst h; simp [err]
  | some n =>
    cases len with
    | none => simp at h; subst h; simp [err]
    | some len =>
      simp only at h
      split at h
      · simp at h; subst h; simp [err]
      · rename_i total htot
        split at h
        · rename_i hle
          cases t with
          | false => simp at h; subst h; simp; omega
          | true =>
            simp only [if_true] at h
            split at h
            · simp at h; subst h; simp [err]
            · rename_i size hsz
              have := checkedMul_some hsz
              split at h
              · simp at h; subst h; simp; omega
              · simp at h; subst h; simp [err]
        · simp at h; subst h; simp [err]

example : repeatSeqK true (some 2) (some 9223372036854775807) = .ok err := by decide
example : repeatSeqK true (some 2) (some 1099511627776) = .ok err := by decide
example : repeatSeqK false (some 3) (some 6148914691236517206) = .ok err := by decide
example : repeatSeqK true (some 2) (some 3) = .ok { allocs := [144], res := .ok 6 } := by decide

theorem indent_no_panic (w : Option Nat) (f b : Bool) (input : List Char) : indentK w f b input ≠ .panic := by
  unfold indentK
  cases w with
  | none => simp
  | some w =>
    simp only
    split
    · simp
    · split <;> simp

/-- `indent`: the filler string and everything it adds up to stay below `MAX_REPEATED_STRING_LEN` -/
theorem indent_alloc_le (w : Option Nat) (f b : Bool) (input : List Char) (out : Out Nat)
    (h : indentK w f b input = .ok out) : ∀ a ∈ out.allocs, a ≤ Gen.maxRepeatedStringLen := by
  unfold indentK at h
  cases w with
  | none => simp at h; subst h; simp [err]
  | some w =>
    simp only at h
    split at h
    · simp at h; subst h; simp [err]
    · rename_i added hadd
      have hm := checkedMul_some hadd
      have hpos := splitNlLens_length_pos (stripTrailingNewline input)
      split at h
      · simp at h; subst h
        intro a ha
        simp at ha
        have : w ≤ w * (splitNlLens (stripTrailingNewline input)).length := Nat.le_mul_of_pos_right _ hpos
        omega
      · simp at h; subst h; simp [err]

example : indentK (some 9223372036854775807) false false ['x'] = .ok err := by decide
example : indentK (some 2) false false ['a', '\n', 'b'] = .ok { allocs := [2, 4], res := .ok 5 } := by decide
example : Legacy.indentAlloc 1099511627776 = .ok [1099511627776] := by decide
example : Legacy.indentAlloc 9223372036854775808 = .panic := by decide

theorem tojsonIndent_no_panic (w : Option Nat) : tojsonIndentK w ≠ .panic := by
  unfold tojsonIndentK
  cases w with
  | none => simp
  | some w => simp only; split <;> simp

theorem tojsonIndent_alloc_le (w : Option Nat) (out : Out Nat) (h : tojsonIndentK w = .ok out) :
    ∀ a ∈ out.allocs, a ≤ Gen.maxRepeatedStringLen := by
  unfold tojsonIndentK at h
  cases w with
  | none => simp at h; subst h; simp [err]
  | some w =>
    simp only at h
    split at h
    · simp at h; subst h; simp [err]
    · simp at h; subst h; intro a ha; simp at ha; omega

theorem fmtWidth_no_panic (w : Option Nat) (cur : Nat) : fmtWidthK w cur ≠ .panic := by
  unfold fmtWidthK
  cases w with
  | none => simp
  | some w => simp only; split <;> simp

/-- padding of a formatted field: at most `MAX_WIDTH` (= `MAX_REPEATED_STRING_LEN`) fill characters -/
theorem fmtWidth_alloc_le (w : Option Nat) (cur : Nat) (out : Out Nat) (h : fmtWidthK w cur = .ok out) :
    ∀ a ∈ out.allocs, a ≤ Gen.fmtMaxWidth := by
  unfold fmtWidthK at h
  cases w with
  | none => simp at h; subst h; simp [err]
  | some w =>
    simp only at h
    split at h
    · simp at h; subst h; simp [err]
    · simp at h; subst h; intro a ha; simp at ha; omega

/-- precisions handed to `std::fmt` stay within `u16`, also for `%g`'s three extra digits -/
theorem fmtPrecision_no_panic (p : Option Nat) (extra : Nat) (he : extra ≤ 3) : fmtPrecisionK p extra ≠ .panic := by
  have hlim : Gen.fmtMaxPrecision + 3 ≤ 65535 := by decide
  unfold fmtPrecisionK fmtArg
  cases p with
  | none => simp
  | some p =>
    simp only
    split
    · simp
    · rw [if_pos (by omega)]; simp

example : fmtPrecisionK (some 65531) 3 = .ok { allocs := [65534], res := .ok 65534 } := by decide
example : fmtPrecisionK (some 65532) 0 = .ok err := by decide
example : fmtArg (65535 + 3) = .panic := by decide

def CountIsUsize (count : Option Nat) : Prop := ∀ c, count = some c → c < 18446744073709551616

theorem batchRest_le (len count : Nat) (h0 : count ≠ 0) : batchRest len count ≤ count := by
  unfold batchRest
  split
  · omega
  · have := Nat.mod_lt (len - 1) (Nat.pos_of_ne_zero h0); omega

/-- `batch`: `len / count` cannot divide by zero, `count - tmp.len()` cannot underflow -/
theorem batch_no_panic (mem len : Nat) (count : Option Nat) (fill : Bool) (hc : CountIsUsize count) :
    batchK mem len count fill ≠ .panic := by
  unfold batchK
  cases count with
  | none => simp
  | some count =>
    have hcu := hc count rfl
    simp only
    by_cases h0 : count = 0
    · simp [h0]
    · simp only [h0, if_false, udiv]
      simp only [ok_bind]
      by_cases hr : batchRest len count = 0
      · simp [hr]
      · simp only [hr, if_false]
        cases fill with
        | false => simp
        | true =>
          simp only [if_true]
          have hle := batchRest_le len count h0
          unfold usub
          rw [if_pos hle]
          simp only [ok_bind]
          split <;> simp

/-- `batch`: the only infallible allocations are `len / count` (at most the number of items that
    exist) and `untrusted_size_hint(count)`; the fill-up is reserved fallibly -/
theorem batch_alloc_le (mem len : Nat) (count : Option Nat) (fill : Bool) (out : Out (List Nat))
    (h : batchK mem len count fill = .ok out) :
    ∀ a ∈ out.allocs, a ≤ max len Gen.untrustedSizeHintCap := by
  unfold batchK at h
  cases count with
  | none => simp at h; subst h; simp [err]
  | some count =>
    simp only at h
    by_cases h0 : count = 0
    · simp [h0] at h; subst h; simp [err]
    · simp only [h0, if_false, udiv, ok_bind] at h
      have hdiv : len / count ≤ len := Nat.div_le_self _ _
      have key : ∀ a ∈ [len / count, min count Gen.untrustedSizeHintCap], a ≤ max len Gen.untrustedSizeHintCap := by
        intro a ha
        simp at ha
        rcases ha with rfl | rfl <;> omega
      by_cases hr : batchRest len count = 0
      · simp [hr] at h; subst h; exact key
      · simp only [hr, if_false] at h
        cases fill with
        | false => simp at h; subst h; exact key
        | true =>
          simp only [if_true] at h
          cases hu : usub count (batchRest len count) with
          | panic => rw [hu] at h; simp at h
          | ok m =>
            rw [hu] at h
            simp only [ok_bind] at h
            split at h <;> (simp at h; subst h; exact key)

example : batchK 2147483648 5 (some 9223372036854775807) false
    = .ok { allocs := [0, 1024], res := .ok [5] } := by decide
example : batchK 2147483648 5 (some 9223372036854775807) true
    = .ok { allocs := [0, 1024], tryAllocs := [9223372036854775802], res := .error } := by decide
example : batchK 2147483648 5 (some 2) true = .ok { allocs := [2, 2], tryAllocs := [1], res := .ok [2, 2, 2] } := by decide

/-- the `slice` filter: every `items[start..end]` of its loop is within bounds -/
theorem sliceF_no_panic (mem len : Nat) (count : Option Nat) (fill : Bool) (hl : len < 9223372036854775808) :
    sliceFK mem len count fill ≠ .panic := by
  unfold sliceFK
  cases count with
  | none => simp
  | some count =>
    simp only
    by_cases h0 : count = 0
    · simp [h0]
    · simp only [h0, if_false]
      by_cases hm : tryReserve mem count = false
      · simp [hm]
      · simp only [hm, if_false, udiv, urem, h0, ok_bind]
        obtain ⟨cs, hcs⟩ := mapM_exists_ok (sliceColumn len (len / count) (len % count) fill) (List.range count)
          (fun s hs => sliceColumn_ok len count (Nat.pos_of_ne_zero h0) fill s (by simpa using hs) hl)
        rw [hcs]
        simp

example : sliceFK 2147483648 5 (some 3) true = .ok { tryAllocs := [3], res := .ok [2, 2, 2] } := by decide
example : sliceFK 2147483648 5 (some 9223372036854775807) false
    = .ok { tryAllocs := [9223372036854775807], res := .error } := by decide

/-- lexer `advance`/`syntax_error` and the caret line of the debug output: the `u16` line/column
    arithmetic saturates and never overflows, the caret subtraction never underflows -/
theorem lexErr_no_panic (text : List Char) : lexErrK text ≠ .panic := by
  obtain ⟨q, c, _, _, _, h⟩ := lexErrK_eq text
  rw [h]; simp

/-- the caret line allocates at most 65535 spaces and 65535 carets -/
theorem lexErr_alloc_le (text : List Char) (out : Out (Nat × Nat × Nat)) (h : lexErrK text = .ok out) :
    ∀ a ∈ out.allocs, a ≤ 65535 := by
  obtain ⟨q, c, h1, h2, h3, hq⟩ := lexErrK_eq text
  rw [hq] at h
  simp at h
  subst h
  intro a ha
  simp at ha
  omega

example : lexErrK ['\n', ' ', ' '] = .ok { allocs := [2, 1], res := .ok (2, 2, 1) } := by decide
example : Legacy.widen 65535 65535 = .panic := by decide

/-- the named limits are sane: whatever the `alloc_le` theorems allow fits a 2 GiB address space
    (bytes: 24 per `Value`) — a limit edited to something huge breaks this -/
theorem limits_fit_2GiB :
    Gen.rangeLimit * valueSize ≤ 2147483648 ∧ Gen.maxRepeatedStringLen ≤ 2147483648 ∧
    Gen.fmtMaxWidth ≤ 2147483648 ∧ Gen.untrustedSizeHintCap * valueSize ≤ 2147483648 ∧
    Gen.maxExprNesting ≤ 10000 ∧ Gen.maxRecursionParser ≤ 1000 := by decide

/-- `loop.index`, `revindex`, `last`, `depth` …: `idx + 1` cannot wrap (the counter is `!0` only before
    the first item, where everything is undefined), `len - 1` is guarded by `len == 0` -/
theorem loopAttrs_no_panic (idx : Nat) (len : Option Nat) (depth : Nat) (hi : idx < 18446744073709551616)
    (hd : depth + 1 < 18446744073709551616) : loopAttrsK idx len depth ≠ .panic := by
  unfold loopAttrsK
  by_cases h : idx = 18446744073709551615
  · simp [h]
  · simp only [h, if_false, u64Add]
    rw [if_pos (by omega)]
    simp only [ok_bind, usizeN]
    rw [if_pos hd]
    cases len with
    | none => simp
    | some l =>
      simp only
      by_cases hl : l = 0
      · simp [hl]
      · simp only [hl, if_false, usub]
        rw [if_pos (by omega)]
        simp

/-- inside the body (`idx < len`) plain subtraction would do … -/
theorem revindex0_plain_in_body (idx len : Nat) (h : idx < len) : Legacy.revindex0Plain idx len = .ok (len - idx - 1) := by
  unfold Legacy.revindex0Plain usub
  rw [if_pos (by omega)]
  simp only [ok_bind]
  rw [if_pos (by omega)]

/-- … but the exhausted loop object (`idx = len`, reachable through `{% set ns.l = loop %}` and a read
    after the loop) makes it underflow: the saturating form is required by `loopAttrs_no_panic` -/
theorem revindex0_plain_underflows : Legacy.revindex0Plain 2 2 = .panic := by decide

/-- the exhausted loop object: `revindex = revindex0 = 0`, `index = len + 1`, not `last` -/
theorem loopAttrs_exhausted (len depth : Nat) (h0 : len ≠ 0) (hl : len + 1 < 18446744073709551615) (hd : depth + 1 < 18446744073709551616) :
    ∃ a, loopAttrsK len (some len) depth = .ok (some a) ∧ a.revindex = some 0 ∧ a.revindex0 = some 0 ∧
      a.index = len + 1 ∧ a.last = false := by
  unfold loopAttrsK
  simp only [show ¬ len = 18446744073709551615 by omega, if_false, u64Add]
  rw [if_pos (by omega)]
  simp only [ok_bind, usizeN]
  rw [if_pos hd]
  simp only [h0, if_false, usub]
  rw [if_pos (by omega)]
  simp [usat]
  omega

example : loopAttrsK 2 (some 3) 0 = .ok (some ⟨2, 3, some 3, some 1, some 0, false, true, 1, 0⟩) := by decide
example : loopAttrsK 3 (some 3) 0 = .ok (some ⟨3, 4, some 3, some 0, some 0, false, false, 1, 0⟩) := by decide
example : loopAttrsK 7 (some 3) 0 = .ok (some ⟨7, 8, some 3, some 0, some 0, false, false, 1, 0⟩) := by decide
example : loopAttrsK 0 none 0 = .ok (some ⟨0, 1, none, none, none, true, false, 1, 0⟩) := by decide
example : loopAttrsK 18446744073709551615 (some 0) 0 = .ok none := by decide

theorem groupedLen_ge (n g : Nat) : n ≤ groupedLen n g := by
  unfold groupedLen
  split
  · omega
  · exact Nat.le_add_right _ _

/-- zero padding of a grouped number: `grouped.len() - prefix.len() - fill_width` cannot underflow and
    the slice starts inside the string -/
theorem zeroPad_no_panic (numLen prefixLen fill g : Nat) (hg : 0 < g) :
    zeroPadK numLen prefixLen fill g ≠ .panic := by
  unfold zeroPadK
  have h1 := groupedLen_ge (prefixLen + fill) g
  simp only [show ¬ g = 0 by omega, if_false, usub]
  rw [if_pos (by omega)]
  simp only [ok_bind]
  rw [if_pos (by omega)]
  simp only [ok_bind]
  rw [if_pos (by omega)]
  simp

/-- `'{:09,}'.format(1234)`: number `1,234`, prefix `1`, four zeros → `0,001,234` -/
example : zeroPadK 5 1 4 3 = .ok { allocs := [4], res := .ok 9 } := by decide
/-- three zeros would start with a separator: one more `0` is prepended → also 9 characters -/
example : zeroPadK 5 1 3 3 = .ok { allocs := [3], res := .ok 9 } := by decide

theorem foldl_max_ge (xs : List Nat) (a : Nat) : a ≤ xs.foldl max a := by
  induction xs generalizing a with
  | nil => simp
  | cons x xs ih => simp only [List.foldl_cons]; have := ih (max a x); omega

theorem foldl_max_mem (xs : List Nat) (a x : Nat) (h : x ∈ xs) : x ≤ xs.foldl max a := by
  induction xs generalizing a with
  | nil => simp at h
  | cons y ys ih =>
    simp only [List.foldl_cons]
    rcases List.mem_cons.mp h with rfl | h'
    · have := foldl_max_ge ys (max a x); omega
    · exact ih _ h'

/-- a `MergeSeq` is well formed: its stored depth bounds the real nesting and is at most `maxDepth` -/
def MSWF (maxDepth : Nat) : MS → Prop
  | .leaf => True
  | .node d cs => (MS.node d cs).real ≤ d ∧ d ≤ maxDepth

theorem realMax_le (vs : List MS) (m : Nat) (h : ∀ v ∈ vs, v.real ≤ m) : realMax vs ≤ m := by
  induction vs with
  | nil => simp [realMax]
  | cons v vs ih =>
    simp only [realMax]
    have := h v (by simp)
    have := ih (fun v hv => h v (by simp [hv]))
    omega

mutual
  theorem flatten_leaves : ∀ (t : MS), ∀ v ∈ t.flatten, v = .leaf
    | .leaf, v, h => by simpa [MS.flatten] using h
    | .node _ cs, v, h => flattenList_leaves cs v (by simpa [MS.flatten] using h)
  theorem flattenList_leaves : ∀ (cs : List MS), ∀ v ∈ flattenList cs, v = .leaf
    | [], v, h => by simp [flattenList] at h
    | c :: cs, v, h => by
      simp only [flattenList, List.mem_append] at h
      rcases h with h | h
      · exact flatten_leaves c v h
      · exact flattenList_leaves cs v h
end

/-- **MergeSeq depth bound**: whatever is concatenated, a `MergeSeq` built by `with_repr` from well-formed
    parts is well formed — iteration and `len` over lazily concatenated sequences recurse at most
    `MAX_DEPTH` (32) levels, however long the `a = a + [x]` chain -/
theorem mergeSeq_depth_bounded (maxDepth : Nat) (hm : 1 ≤ maxDepth) (vs : List MS)
    (h : ∀ v ∈ vs, MSWF maxDepth v) : MSWF maxDepth (mkMergeSeq maxDepth vs) := by
  unfold mkMergeSeq
  simp only
  split
  · -- flattened: only non-MergeSeq parts remain
    have hl := flattenList_leaves vs
    have hstored : ∀ x ∈ (flattenList vs).map MS.stored, x = 0 := by
      intro x hx
      obtain ⟨v, hv, rfl⟩ := List.mem_map.mp hx
      rw [hl v hv]; rfl
    have hd : depthForValues (flattenList vs) = 1 := by
      unfold depthForValues
      have : ∀ (xs : List Nat), (∀ x ∈ xs, x = 0) → xs.foldl max 0 = 0 := by
        intro xs hx
        induction xs with
        | nil => rfl
        | cons y ys ih =>
          simp only [List.foldl_cons]
          rw [hx y (by simp)]
          exact ih (fun x hx' => hx x (by simp [hx']))
      rw [this _ hstored]
    rw [hd]
    refine ⟨?_, hm⟩
    simp only [MS.real]
    have := realMax_le (flattenList vs) 0 (fun v hv => by rw [hl v hv]; simp [MS.real])
    omega
  · rename_i hle
    refine ⟨?_, by omega⟩
    simp only [MS.real]
    unfold depthForValues
    have := realMax_le vs ((vs.map MS.stored).foldl max 0) (by
      intro v hv
      have hst : v.stored ≤ (vs.map MS.stored).foldl max 0 := foldl_max_mem _ 0 _ (List.mem_map.mpr ⟨v, hv, rfl⟩)
      have hwf := h v hv
      cases v with
      | leaf => simp [MS.real]
      | node d cs =>
        simp only [MSWF] at hwf
        simp only [MS.stored] at hst
        omega)
    omega

/-- the accounting has to look at ALL operands: with the first `MergeSeq` operand only, a loop that puts
    a fresh concatenation in front of its accumulator (`acc = ([i] + [i]) + acc`) keeps the stored depth
    at 2 while the real nesting grows with every round — no bound -/
theorem first_operand_depth_unbounded (maxDepth : Nat) (hm : 2 ≤ maxDepth) (k : Nat) :
    (Legacy.freshFirst maxDepth (k + 1)).stored = 2 ∧ k + 1 ≤ (Legacy.freshFirst maxDepth (k + 1)).real := by
  have hfresh : Legacy.mkMergeSeqFirst maxDepth [.leaf, .leaf] = .node 1 [.leaf, .leaf] := by
    simp [Legacy.mkMergeSeqFirst, Legacy.depthForValuesFirst]
    omega
  induction k with
  | zero =>
    simp only [Legacy.freshFirst, hfresh]
    have : Legacy.mkMergeSeqFirst maxDepth [MS.node 1 [.leaf, .leaf], .leaf] = .node 2 [MS.node 1 [.leaf, .leaf], .leaf] := by
      simp [Legacy.mkMergeSeqFirst, Legacy.depthForValuesFirst, MS.stored]
      omega
    rw [this]
    simp [MS.stored, MS.real, realMax]
  | succ k ih =>
    have hstep : Legacy.freshFirst maxDepth (k + 1 + 1) =
        .node 2 [MS.node 1 [.leaf, .leaf], Legacy.freshFirst maxDepth (k + 1)] := by
      conv => lhs; unfold Legacy.freshFirst
      rw [hfresh]
      simp [Legacy.mkMergeSeqFirst, Legacy.depthForValuesFirst, MS.stored]
      omega
    rw [hstep]
    refine ⟨rfl, ?_⟩
    simp only [MS.real, realMax]
    omega

/-- the limit regenerated from `merge_object.rs` is usable -/
theorem mergeSeq_limit : 1 ≤ Gen.mergeSeqMaxDepth ∧ Gen.mergeSeqMaxDepth ≤ 64 := by decide

theorem indexOfName_lt {ids : List String} {name : String} {i : Nat} (h : indexOfName ids name = some i) :
    i < ids.length := by
  induction ids generalizing i with
  | nil => simp [indexOfName] at h
  | cons a as ih =>
    simp only [indexOfName] at h
    split at h
    · simp at h; subst h; simp
    · cases h2 : indexOfName as name with
      | none => simp [h2] at h
      | some j =>
        simp only [h2, Option.map_some, Option.some.injEq] at h
        subst h
        have := ih h2
        simp; omega

/-- every id the code generator hands out is the sentinel or below the limit, and the table of names
    never grows beyond the limit -/
theorem getLocalId_bounded (limit : Nat) (hl : limit ≤ 255) (ids : List String) (name : String)
    (hids : ids.length ≤ limit) :
    ((getLocalId limit ids name).2 = noLocalId ∨ (getLocalId limit ids name).2 < limit) ∧
    (getLocalId limit ids name).1.length ≤ limit := by
  unfold getLocalId
  cases h : indexOfName ids name with
  | some i =>
    have := indexOfName_lt h
    exact ⟨Or.inr (by simp; omega), by simpa using hids⟩
  | none =>
    simp only
    by_cases hge : ids.length ≥ limit
    · simp [hge, hids]
    · simp only [hge, if_false, List.length_append, List.length_singleton]
      refine ⟨Or.inr ?_, by omega⟩
      rw [Nat.mod_eq_of_lt (by omega)]
      omega

theorem assignLocalIds_bounded (limit : Nat) (hl : limit ≤ 255) (names ids : List String) (hids : ids.length ≤ limit) :
    ∀ id ∈ assignLocalIds limit ids names, id = noLocalId ∨ id < limit := by
  induction names generalizing ids with
  | nil => simp [assignLocalIds]
  | cons n ns ih =>
    intro id hid
    simp only [assignLocalIds, List.mem_cons] at hid
    have hb := getLocalId_bounded limit hl ids n hids
    rcases hid with rfl | hid
    · exact hb.1
    · exact ih _ hb.2 id hid

/-- **filter / test caches**: whatever names a template uses, in whatever order and number, the VM's
    `loaded_filters[idx] = …` / `loaded_tests[idx] = …` is in bounds: the ids come from `get_local_id` with
    `MAX_LOCALS` (regenerated from instructions.rs), the arrays have `vmLocalSlots` entries (regenerated
    from vm/mod.rs) -/
theorem localIds_in_bounds (names : List String) :
    ∀ id ∈ assignLocalIds Gen.maxLocals [] names, lookupLocal Gen.vmLocalSlots id ≠ .panic := by
  intro id hid
  have hlim : Gen.maxLocals ≤ 255 ∧ Gen.maxLocals ≤ Gen.vmLocalSlots ∧ Gen.localIdBits = 8 := by decide
  have := assignLocalIds_bounded Gen.maxLocals hlim.1 names [] (Nat.zero_le _) id hid
  unfold lookupLocal
  rcases this with h | h
  · simp [h]
  · by_cases h2 : id = noLocalId
    · simp [h2]
    · simp only [h2, if_false]
      rw [if_pos (by omega)]
      simp

/-- the off-by-one variant (`len > MAX_LOCALS`): the 51st distinct name gets id 50, one past the cache -/
example : (Legacy.getLocalIdGt 50 ((List.range 50).map toString) "x").2 = 50 ∧ lookupLocal 50 50 = .panic := by decide
example : (getLocalId 50 ((List.range 50).map toString) "x").2 = noLocalId := by decide

theorem kernels_never_panic : KernelsNeverPanic :=
  ⟨fun _ xs a b c ha hb hc hl => slice_no_panic xs a b c ha hb hc hl, range_no_panic, cycle_no_panic,
   mulStr_no_panic, repeatSeq_no_panic, indent_no_panic, tojsonIndent_no_panic, fmtWidth_no_panic,
   fmtPrecision_no_panic, batch_no_panic, sliceF_no_panic, lexErr_no_panic⟩

/-! ## Operand stack of the VM (`no_underflow`): a verified certificate checker

`MJ/Model/Stk.lean` is the machine of one `eval_impl` activation reduced to its operand stack (and
the live loops); `Stk.pre i s` is the condition under which the Rust code of instruction `i` does not
panic on the stack (`pop`/`peek` `unwrap`, `len - n` in `get_call_args`/`drop_top`/`reverse_top`,
the dynamic argument count `try_into::<usize>().unwrap()`, `args[0]`, `try_iter().unwrap()` in
`build_macro`).  The check runs the *verified* checker on the certificate proposed by the untrusted
`inferStk` for every instruction stream the real compiler produces (translation validation): the
code generator itself is not modelled. -/

/-- in every state reachable from a region entry (pc 0 on an empty stack, a macro body on its
    arguments) — all branches, all iteration counts, all `loop(…)` recursion depths, whatever values
    the instructions push — the instruction about to execute finds what it pops -/
def NoUnderflow (code : Stk.Code) : Prop :=
  ∀ s0, Stk.Init code s0 → ∀ s, Stk.Reach code s0 s → ∀ i, code[s.pc]? = some i → Stk.pre i s = true

/-- soundness of the operand-stack certificate checker -/
theorem checkStk_sound (code : Stk.Code) (cert : Stk.Cert) (h : Stk.checkStk code cert = true) :
    NoUnderflow code := by
  intro s0 h0 s hr i hi
  exact Stk.inv_pre h (Stk.reach_inv h (Stk.init_inv h h0) hr) hi

/-- what `drive_c01` computes for every real stream: the verified checker on the inferred certificate -/
theorem inferStk_checked (code : Stk.Code) (h : Stk.validate code = true) : NoUnderflow code :=
  checkStk_sound code (Stk.inferStk code) h

namespace StkExamples
open Stk Stk.Instr

/-- `{% for item in [u] if item %}…{% endfor %}` as compiled: the count of the filtered items is
    computed by the loop (`z … sw o add … bd`), the height at the loop head depends on the path -/
def filteredLoop : Code := #[
  loadZero, eff 0 1, buildList 1, pushLoop false, iterate 15, dupTop, eff 1 0, eff 0 1, jumpIfFalse 13,
  swap, loadOne, add, jump 14, eff 1 0, jump 4, popLoopFrame, buildDyn, pushLoop false, iterate 22,
  eff 1 0, eff 0 0, jump 18, popLoopFrame]

/-- `{% for x in xs recursive %}…{{ loop(range(3)) }}…{% endfor %}`: `call 1 … ; fastRecurse` -/
def recursiveLoop : Code := #[
  eff 0 1, pushLoop true, iterate 16, eff 1 0, eff 0 1, eff 1 1, eff 1 0, eff 0 1, eff 1 1, eff 0 1,
  eff 2 1, jumpIfFalse 15, eff 0 1, call 1 false true, fastRecurse, jump 2, popLoopFrame]

/-- `{{ loop.cycle(*xs) }}`: receiver and splat are unpacked into a counted segment (`ul 2`), the
    method call takes its argument count from the stack and needs at least the receiver -/
def splatMethod : Code := #[
  eff 0 1, pushLoop false, iterate 14, eff 1 0, eff 0 1, buildList 1, eff 0 1, unpackLists 2,
  callDyn true false, eff 1 0, eff 0 1, eff 1 1, eff 1 0, jump 2, popLoopFrame]

/-- the `do` statement before commit e48bfbb: the result of the call stays on the stack in one branch -/
def doLeak : Code := #[eff 0 1, jumpIfFalse 5, call 0 false true, eff 0 0, jump 6, eff 0 0, eff 0 0]

/-- a method call on a splat without the receiver batch: `args[0]` may not exist -/
def splatNoReceiver : Code := #[eff 0 1, unpackLists 1, callDyn true false, eff 1 0]

/-- pops one value more than was pushed -/
def popTooMuch : Code := #[eff 0 1, eff 1 0, eff 1 0]

example : validate filteredLoop = true := by decide
example : validate recursiveLoop = true := by decide
example : validate splatMethod = true := by decide
example : validate doLeak = false := by decide
example : validate splatNoReceiver = false := by decide
example : validate popTooMuch = false := by decide
example : NoUnderflow filteredLoop := inferStk_checked _ (by decide)
example : NoUnderflow recursiveLoop := inferStk_checked _ (by decide)

/-- the checker is not vacuous: the rejected stream really underflows -/
theorem popTooMuch_underflows : ¬ NoUnderflow popTooMuch := by
  intro h
  have s0 : Init popTooMuch ⟨0, [], [], []⟩ := ⟨(0, 0), by decide, rfl, rfl, rfl, rfl⟩
  have r1 : Reach popTooMuch ⟨0, [], [], []⟩ ⟨1, [.other], [], []⟩ :=
    .tail (.refl _) (Step.straight (i := eff 0 1) (by decide) (by decide) (StkStep.eff 0 1 [] [.other] rfl))
  have r2 : Reach popTooMuch ⟨0, [], [], []⟩ ⟨2, [], [], []⟩ :=
    .tail r1 (Step.straight (i := eff 1 0) (by decide) (by decide) (StkStep.eff 1 0 [.other] [] rfl))
  have := h _ s0 _ r2 (eff 1 0) (by decide)
  simp [pre] at this

end StkExamples

/-! ## Parser call graph -/

/-- **checked on the regenerated graph**: apart from the `elif` self-recursion, at most
    `maxUnguardedRun - 1` consecutive calls between `Parser` methods avoid `with_recursion_guard!` -/
theorem parser_cycles_guarded : runBound parserGraphNoElif maxUnguardedRun = true := by decide +kernel

/-- the extracted guard macro has the shape the bound relies on (depth += 1; check; …; depth -= 1) -/
theorem recursion_guard_shape : Gen.recursionGuardShapeOk = true := rfl

/-- hence every cycle (apart from `elif`) contains a guarded call … -/
theorem parser_no_unguarded_cycle (u : Nat) (p : List Edge) (hc : Chain parserGraphNoElif u p)
    (hun : allUnguarded p) : p.length < maxUnguardedRun :=
  runBound_sound parserGraphNoElif maxUnguardedRun parser_cycles_guarded u p hc hun

/-- … and a chain of parser calls on which at most `MAX_RECURSION` guarded calls are active (the guard
    refuses the next one) has fewer than `parserFrameBudget` frames -/
theorem parser_frames_lt (u : Nat) (p : List Edge) (hc : Chain parserGraphNoElif u p)
    (hg : guardedCount p ≤ Gen.maxRecursionParser) : p.length < parserFrameBudget := by
  have h := chain_length_lt parserGraphNoElif maxUnguardedRun parser_cycles_guarded u p hc
  unfold parserFrameBudget
  have : (guardedCount p + 1) * maxUnguardedRun ≤ (Gen.maxRecursionParser + 1) * maxUnguardedRun :=
    Nat.mul_le_mul_right _ (by omega)
  omega

example : parserFrameBudget = 2416 := by decide
example : Chain parserGraphNoElif (Gen.parserFnNames.idxOf "parse_expr")
    [(Gen.parserFnNames.idxOf "parse_expr", Gen.parserFnNames.idxOf "parse_ifexpr", true)] :=
  Chain.cons (by decide) (by decide) (Chain.nil _ (by decide))

/-! ## `ast_depth_bound`: the parser's two counters bound the depth of the AST

`MJ/Model/Nesting.lean`: parse derivations (`P`), the parser's accounting (`sim`: the recursion guard
and the `expr_nesting` save / reset / bump / max protocol) and the declarative quantities.  Excluded
(known finding `depth:elif`): the unguarded `elif` recursion, for which `P` has no constructor. -/

/-- a successful parse: `expr_nesting` ends up as the longest loop-built chain on any path of the
    expression (not the number of its operators), and both limits hold -/
theorem nesting_exact (p : Nesting.P) (r : Nat) (h : Nesting.parse .real p = .ok r) :
    r = Nesting.chainDepth p ∧ Nesting.chainDepth p ≤ Gen.maxExprNesting ∧
    Nesting.guardDepth p ≤ Gen.maxRecursionParser := by
  unfold Nesting.parse at h
  have h1 := Nesting.sim_ok _ p 0 0 r h
  have h2 := Nesting.sim_le .real p 0 0 r (Nat.zero_le _) (Nat.zero_le _) h
  exact ⟨by simpa using h1, h2.1, by have := h2.2.1; simpa [Nesting.Limits.real] using this⟩

/-- "expression is nested too deeply" is raised only when the longest chain exceeds the limit -/
theorem nesting_error_exact (p : Nesting.P) (h : Nesting.parse .real p = .error .chain) :
    Gen.maxExprNesting < Nesting.chainDepth p :=
  Nesting.sim_chain_err .real p 0 0 h

/-- **AST depth**: whatever parses has at most `2·MAX_EXPR_NESTING + 3·MAX_RECURSION + 1` AST nodes
    on any path — the recursion depth of `as_const`, `compile_expr`, the meta passes and `Drop` -/
theorem ast_depth_bound (p : Nesting.P) (r : Nat) (h : Nesting.parse .real p = .ok r) :
    Nesting.astDepthUB p ≤ 2 * Gen.maxExprNesting + 3 * Gen.maxRecursionParser + 1 := by
  obtain ⟨_, h1, h2⟩ := nesting_exact p r h
  have := Nesting.ast_le p
  simp only [Nesting.wrapNodes, Nesting.groupNodes] at this
  omega

example : 2 * Gen.maxExprNesting + 3 * Gen.maxRecursionParser + 1 = 2451 := by decide

/-- the extractor found the save / reset / bump / max protocol in every function of `parser.rs` whose
    loop wraps nodes (textual check, `lib/tables/c01.py: NEST_PROTOCOL`) -/
theorem nest_protocol_shape : Gen.nestProtocolOk = true := rfl

namespace NestingExamples
open Nesting

/-- small limits so that the examples are readable: recursion 6, nesting 3 -/
def small : Limits := ⟨6, 3⟩

/-- `[x.a.a.a, x.a.a.a, x.a.a.a]`: nine loop-built nodes but chains of three: accepted -/
example : parse small (.group [.chain .leaf [.leaf, .leaf, .leaf], .chain .leaf [.leaf, .leaf, .leaf],
    .chain .leaf [.leaf, .leaf, .leaf]]) = .ok 3 := by decide
/-- `x.a.a.a.a`: a chain of four: rejected -/
example : parse small (.chain .leaf [.leaf, .leaf, .leaf, .leaf]) = .error .chain := by decide
/-- `x|f(y.a.a.a)`: the argument's chain and the filter are on one path: four -/
example : parse small (.chain .leaf [.chain .leaf [.leaf, .leaf, .leaf]]) = .error .chain := by decide
/-- `(x.a.a)|f|f`: chains on the path through a parenthesised operand add up -/
example : parse small (.chain (.group [.chain .leaf [.leaf, .leaf]]) [.leaf, .leaf]) = .error .chain := by decide
/-- `f(y.a.a, z.a.a).a`: arguments next to each other do not add up: max(2, 2) + 1 + 1 -/
example : parse small (.chain .leaf [.group [.chain .leaf [.leaf, .leaf], .chain .leaf [.leaf, .leaf]]]) = .ok 3 := by decide
/-- seven nested lists: the recursion guard -/
example : parse small (.group [.group [.group [.group [.group [.group [.group []]]]]]]) = .error .recursion := by decide

end NestingExamples

/-! ## Scope stack of the load-time assignment tracker (`compiler/meta.rs`)

`find_macro_closure` runs while a template is loaded (codegen calls it for every `{% macro %}` and
every `{% call %}` body), `find_undeclared` behind `Template::undeclared_variables`.  Both walk the AST
with a stack of scopes; `assign` does `last_mut().unwrap()`.  The function bodies are regenerated from
the source as scope-stack programs (`MJ.Gen.metaScopeFns`, one per function, `track_walk` with one arm
per statement kind; `MJ.Gen.metaWalkArms` lists the arms on their own).  An arm that pops a scope it
did not push — or pushes one it does not pop — on any path breaks `meta_scope_table_balanced` /
`meta_walk_arms_balanced` (a `decide` on the regenerated table). -/

/-- every function of `compiler/meta.rs` pops only what it pushed and ends, on every path, at the
height it was entered with; the entry points create a stack of height ≥ 1 -/
theorem meta_scope_table_balanced :
    Scopes.tableOk Gen.metaScopeFns = true ∧ Scopes.entriesOk Gen.metaScopeFns Gen.metaScopeEntries = true := by
  decide

/-- each arm of `track_walk` on its own is balanced (number of `state.push()` = number of `state.pop()`
on every path, never below the entry height) -/
theorem meta_walk_arms_balanced : Gen.metaWalkArms.all (fun a => Scopes.balanced a.2) = true := by decide

/-- every arm leaves the stack height unchanged, whatever the statement's children are (any call tree,
any iteration counts, any branch), and does not panic — for every entry height ≥ 1 -/
theorem meta_walk_arm_height_unchanged (name : String) (arm : Gen.ScopeProg) (ha : (name, arm) ∈ Gen.metaWalkArms)
    (h : Nat) (hh : 1 ≤ h) (r : Option Nat) (hx : Scopes.Exec Gen.metaScopeFns arm h r) : r = some h := by
  have hb : Scopes.balanced arm = true := (List.all_eq_true.mp meta_walk_arms_balanced) (name, arm) ha
  exact Scopes.balanced_exec meta_scope_table_balanced.1 hb hh hx

/-- `find_macro_closure` (load time) and `find_undeclared`: `assign` is never reached with an empty
scope stack, for every AST (= every finite execution of the regenerated programs), and the stack ends
with the one scope the entry point created -/
def MetaScopesSafe : Prop :=
  ∀ e ∈ Gen.metaScopeEntries, ∀ body, Gen.metaScopeFns[e.1]? = some body →
    ∀ r, Scopes.Exec Gen.metaScopeFns body e.2 r → r = some e.2

theorem meta_scopes_no_panic : MetaScopesSafe := by
  intro e he body hb r hx
  have hok := meta_scope_table_balanced
  have hbal : Scopes.balanced body = true :=
    (List.all_eq_true.mp hok.1) body (List.mem_of_getElem? hb)
  have hpos : 1 ≤ e.2 := by
    have h2 := hok.2
    simp only [Scopes.entriesOk, Bool.and_eq_true] at h2
    have := (List.all_eq_true.mp h2.2) e he
    simp at this
    omega
  exact Scopes.balanced_exec hok.1 hbal hpos hx

namespace ScopesExamples
open Scopes Gen.ScopeProg

-- the hypotheses are satisfiable: both entry points exist, and the regenerated programs run
example : Gen.metaScopeEntries.length = 2 ∧ Gen.metaWalkArms.length ≥ 15 := by decide
example : run Gen.metaScopeFns true 2 12 (.call 1 .done) 1 = some 1 := by decide
example : run Gen.metaScopeFns false 1 12 (.call 0 .done) 1 = some 1 := by decide

/-- the shape of an arm that lost a `push` in front of its else body (walks the else body, pops) -/
def forElseUnpaired : Gen.ScopeProg := .push (.need (.pop (.branch (.pop .done) .done .done)))
/-- a macro body: that statement, then a variable reference at the top level of the body -/
def macroBody : Gen.ScopeProg := .call 0 (.need .done)

example : balanced forElseUnpaired = false := by decide
example : tableOk [forElseUnpaired, macroBody] = false := by decide

/-- … and such an arm does panic: the next `assign` finds the stack empty -/
theorem unpaired_pop_panics : Exec [forElseUnpaired, macroBody] macroBody 1 none := by
  refine .callOk (body := forElseUnpaired) (h' := 0) rfl ?_ .needPanic
  exact .push (.needOk (by decide) (.pop (.branchL (h' := 0) (.pop .done) .done)))

end ScopesExamples

/-! ## `pending_block` of the code generator (`compiler/codegen.rs`)

The methods of `impl CodeGenerator` that touch `pending_block` (directly or through a callee) are regenerated
as programs over stacks of KINDS (`Branch`, `Loop`, `ScBool`, `Scope`) with a signature each
(`MJ.Gen.codegenKFns`; the signatures are inferred by the extractor and CHECKED here).  `end_scope`,
`end_condition`, `end_for_loop`, `sc_bool` hit `unreachable!()` when the top entry is missing or of another
kind, `finish` asserts that nothing is left. -/

/-- every method's body agrees with its signature (`start_if : [] ⟶ [Branch]`, `end_if : [Branch] ⟶ []`, every
`compile_*` method `[] ⟶ []`, …) -/
theorem codegen_pending_block_table_ok : KStack.tableOk KStack.codegenFns = true := by decide +kernel

/-- hence: whatever the AST (any call tree, any branch, any number of loop rounds), a method called on a stack
that starts with the kinds it expects never reaches a failing `pop` / `last_mut` / `assert!(is_empty())` and
leaves its `post` kinds instead; the entry points (the driver `compile_stmt* ; finish`, the sub-generator of
`{% block %}`) run from the empty stack to the empty stack -/
theorem codegen_pending_block_safe (f : Nat) (fn : KStack.Fn) (hf : KStack.codegenFns[f]? = some fn)
    (rest : List Nat) (hrest : fn.entry = true → rest = []) (r : Option (List Nat))
    (hx : KStack.Exec KStack.codegenFns fn.body (fn.pre ++ rest) r) : r = some (fn.post ++ rest) :=
  KStack.fn_exec codegen_pending_block_table_ok hf rest hrest hx

namespace KStackExamples
open KStack Gen.KProg

example : Gen.codegenKinds = ["Branch", "Loop", "ScBool", "Scope"] := by decide
example : (Gen.codegenKFns.map (·.1)).contains "compile_stmt" ∧ (Gen.codegenKFns.map (·.1)).contains "<driver>" := by decide
/-- the signatures the theorem established for the primitives -/
example : (codegenFns[fnIndex "start_else"]?).map (fun f => (f.pre, f.post)) = some ([0], [0]) ∧
    (codegenFns[fnIndex "end_for_loop"]?).map (fun f => (f.pre, f.post)) = some ([1], []) ∧
    (codegenFns[fnIndex "compile_stmt"]?).map (fun f => (f.pre, f.post)) = some ([], []) := by decide

/-- a generator whose `if` statement forgets `end_if`: [start_if; end_if] vs [start_if] -/
def startIf : Fn := ⟨.push 0 .done, [], [0], false⟩
def endIf : Fn := ⟨.pop 0 .done, [0], [], false⟩
def ifStmtGood : Fn := ⟨.call 0 (.call 1 .done), [], [], false⟩
def ifStmtBad : Fn := ⟨.call 0 .done, [], [], false⟩
def finishFn : Fn := ⟨.empty .done, [], [], true⟩
def driver (stmt : Nat) : Fn := ⟨.call stmt (.call 3 .done), [], [], true⟩

example : tableOk [startIf, endIf, ifStmtGood, finishFn, driver 2] = true := by decide
example : tableOk [startIf, endIf, ifStmtBad, finishFn, driver 2] = false := by decide
/-- … and the forgotten `end_if` does fail the assertion in `finish` -/
theorem unclosed_block_fails_finish :
    Exec [startIf, endIf, ifStmtBad, finishFn, driver 2] (driver 2).body [] none := by
  refine .callOk (fn := ifStmtBad) (s' := [0]) rfl ?_ ?_
  · exact .callOk (fn := startIf) (s' := [0]) rfl (.push .done) .done
  · exact .callPanic (fn := finishFn) rfl .emptyFail

end KStackExamples

/-! ## Individual crash sites: small kernels, and the classification of ALL potential crash sites -/

/-- `Instructions::get_line`: `line_infos[idx]` / `line_infos[idx - 1]` after `binary_search_by_key` are in
range for every table and every instruction index (`Err(0)` returns first) -/
theorem getLine_no_panic (s : Loc.Instrs) (idx : Nat) : s.getLine idx ≠ .panic := Sites.getLine_no_panic s idx

theorem getSpan_no_panic (s : Loc.Instrs) (idx : Nat) : s.getSpan idx ≠ .panic := Sites.getSpan_no_panic s idx

example : (Loc.addAll [.withLine 1, .plain, .withLine 2]).getLine 1 = .ok (some 1) := by decide
example : Loc.Instrs.empty.getLine 5 = .ok none := by decide

/-- `SmallStr::try_new` + `as_str` (capacity regenerated from value/mod.rs): neither slice is out of range
and the `u8` length field loses nothing, for every string length -/
theorem smallStr_no_panic (len : Nat) :
    Sites.smallStrRoundTrip Gen.smallStrCap len = .ok (if len ≤ Gen.smallStrCap then some len else none) :=
  Sites.smallStrRoundTrip_ok _ _ (by decide)

/-- `Value::from(char)`: the `unwrap()` of `SmallStr::try_new` on at most 4 bytes cannot fail -/
theorem smallStr_char_fits (k : Nat) (hk : k ≤ 4) : Sites.smallStrFromChar Gen.smallStrCap k ≠ .panic :=
  Sites.smallStrFromChar_ok _ _ hk (by decide)

example : Sites.smallStrRoundTrip 22 22 = .ok (some 22) ∧ Sites.smallStrRoundTrip 22 23 = .ok none := by decide
example : Sites.smallStrFromChar 3 4 = .panic := by decide   -- a capacity below 4 would make the unwrap fail
example : Sites.smallStrRoundTrip 300 260 = .ok (some 4) := by decide  -- a capacity above 255 would truncate the length

/-- `ops::pow`, the arm for exponents beyond `u32` (fix 3a8d5c6): under its guard `-1 ≤ a ≤ 1` the product
`a * a` stays in `i128` and `b % 2` has a non-zero constant divisor, so neither arithmetic site can trap -/
theorem pow_unit_base_no_panic (a b : Int) (ha : -1 ≤ a ∧ a ≤ 1) :
    -(170141183460469231731687303715884105728 : Int) ≤ (if b % 2 = 0 then a * a else a) ∧
    (if b % 2 = 0 then a * a else a) < 170141183460469231731687303715884105728 ∧ (2 : Int) ≠ 0 := by
  obtain ⟨h1, h2⟩ := ha
  have : a = -1 ∨ a = 0 ∨ a = 1 := by omega
  rcases this with rfl | rfl | rfl <;> split <;> simp

example : (-1 : Int) ≤ -1 ∧ (-1 : Int) ≤ 1 := by decide

set_option maxRecDepth 100000 in
/-- every potential crash site of the crate's non-test code (regenerated table) has a row in the hand-made
classification with the same number of sites — a new `unwrap()` / index / cast / arithmetic site, or one that
moved to another function, makes this false -/
theorem all_panic_sites_classified : PanicSites.genKeyed = PanicSites.keyed PanicSites.rows := by
  unfold PanicSites.genKeyed PanicSites.keyed
  rfl

/-- the guards of the class-`b` rows are the ones the source has now -/
theorem panic_guards_as_tabled : PanicSites.bGenGuards = PanicSites.bEvidence := by decide +kernel

/-- class `a` rows name their theorem, class `b` rows their guard, class `c` rows their reason -/
theorem panic_evidence_given : PanicSites.evidenceGiven = true := by decide +kernel

/-- (rows, sites) per class: a proved, b guarded (tabled), c outside the quantifier, d oracle only -/
theorem panic_site_class_counts :
    (PanicSites.rowsOf .a, PanicSites.sitesOf .a) = (67, 146) ∧
    (PanicSites.rowsOf .b, PanicSites.sitesOf .b) = (27, 36) ∧
    (PanicSites.rowsOf .c, PanicSites.sitesOf .c) = (20, 27) ∧
    (PanicSites.rowsOf .d, PanicSites.sitesOf .d) = (157, 284) := by decide +kernel

example : PanicSites.rows.length > 200 ∧ Gen.panicSites.length = PanicSites.rows.length := by decide +kernel

/-! ## Integer arithmetic of the VM (`value/ops.rs`, `filters::abs`): `MJ/Model/IntOps.lean` -/

/-- the `Add / Sub / Mul / Rem / IntDiv / Pow / Neg` arms of the VM and the `abs` filter never panic on
    integers, whatever their width and sign — for ALL pairs of integers (no range hypothesis is needed:
    every plain operator sits behind a guard that makes it fit) -/
theorem intOps_no_panic (op : IntOps.Op) (a b : Int) :
    IntOps.binK op a b ≠ .panic ∧ IntOps.negK a ≠ .panic ∧ IntOps.absK a ≠ .panic :=
  ⟨IntOps.binK_no_panic op a b, IntOps.negK_no_panic a, IntOps.absK_no_panic a⟩

/-- a value returned by `+ - * // %` is the exact mathematical result (Euclidean division) and, for
    `+ - * //`, fits an `i128`; division and remainder by zero are errors -/
theorem intOps_exact (a b v : Int) :
    (IntOps.binK .add a b = .ok (.val v) → v = a + b ∧ IntOps.fits128 v = true) ∧
    (IntOps.binK .sub a b = .ok (.val v) → v = a - b ∧ IntOps.fits128 v = true) ∧
    (IntOps.binK .mul a b = .ok (.val v) → v = a * b ∧ IntOps.fits128 v = true) ∧
    (IntOps.binK .intDiv a b = .ok (.val v) → b ≠ 0 ∧ v = a / b ∧ IntOps.fits128 v = true) ∧
    (IntOps.binK .rem a b = .ok (.val v) → b ≠ 0 ∧ v = a % b) :=
  ⟨IntOps.checkedBin_exact _ a b v, IntOps.checkedBin_exact _ a b v, IntOps.checkedBin_exact _ a b v,
   IntOps.intDivK_exact a b v, IntOps.remK_exact a b v⟩

-- non-vacuity: the corner the guards exist for, and what the plain operators would do there
example : IntOps.binK .rem IntOps.i128Min (-1) = .ok (.val 0) := by decide
example : IntOps.binK .intDiv IntOps.i128Min (-1) = .ok .err := by decide
example : IntOps.i128 (IntOps.i128Min / -1) = .panic := by decide
example : IntOps.binK .pow (-1) 4294967297 = .ok (.val (-1)) := by decide
example : IntOps.binK .pow 2 127 = .ok .err ∧ IntOps.binK .pow 2 126 = .ok (.val 85070591730234615865843651857942052864) := by decide
example : IntOps.absK IntOps.i64Min = .ok (.val 9223372036854775808) ∧ IntOps.absK IntOps.i128Min = .ok .err := by decide
example : IntOps.negK IntOps.i128Min = .ok .err ∧ IntOps.negK 5 = .ok (.val (-5)) := by decide
example : IntOps.binK .add IntOps.u128Max 0 = .ok .err := by decide

/-! ## The repr of a string (`value/mod.rs: python_string_debug_fmt`): `MJ/Model/ReprStr.lean` -/

/-- for EVERY string and EVERY escaping rule, each flush `&value[last..idx]` and the final
    `&value[last..]` is a slice between character boundaries with `last <= idx <= len`: the repr of a
    string (element of a printed list / map, error messages) never panics -/
theorem reprStr_no_panic (esc : Char → Bool) (s : List Char) : ReprStr.reprK esc s ≠ .panic :=
  ReprStr.reprK_no_panic esc s

-- non-vacuity: continuing one BYTE behind an escaped character (instead of `len_utf8`) slices inside
-- a two-byte control character (the seeded change C01-6)
example : ReprStr.reprWith (ReprStr.escapes '\'') (fun _ => 1) ['\u0085', 'a'] = .panic := by decide
example : ReprStr.reprOut ['\u0085', 'a', '\'', 'é'] = .ok 10 := by decide

/-- the window of source lines `render_debug_info` prints around the error line: every `index + 1` fits
    a `usize`, for every line number and every source of fewer than 2^63 lines -/
theorem debugWindow_no_panic (line : Option Nat) (n : Nat) (hl : ∀ l, line = some l → l < 18446744073709551616)
    (hn : n < 9223372036854775808) : IntOps.debugWindowK line n ≠ .panic :=
  IntOps.debugWindowK_no_panic line n hl hn

example : IntOps.debugWindowK (some 5) 9 = .ok ([2, 3, 4], [5], [6, 7, 8]) := by decide
example : IntOps.debugWindowK (some 12) 9 = .ok ([9], [], []) := by decide
example : IntOps.usizeAdd 18446744073709551615 1 = .panic := by decide

/-- the static argument count of every call the parser accepts fits the `u16` of the call instructions:
    `assert!(pending_args as u16 as usize == pending_args)` of `compile_call_args` cannot fail (the
    parser's limit is regenerated from `parse_args`; raising it beyond 65533 breaks this theorem) -/
theorem callArgs_fit_u16 (extra nPos : Nat) (kw : Bool) (he : extra ≤ 1) (hn : nPos ≤ Gen.parserMaxArgs) :
    IntOps.callArgCountK extra nPos kw ≠ .panic :=
  IntOps.callArgCountK_no_panic extra nPos kw he hn (by decide)

example : IntOps.callArgCountK 1 Gen.parserMaxArgs true = .ok (Gen.parserMaxArgs + 2) := by decide
example : IntOps.callArgCountK 0 65536 false = .panic := by decide

/-- the full statement fails exactly through the `elif` recursion: while `parse_if_cond` calls itself
    outside the guard, not every cycle is guarded (witness replayed by the depth probe `d elif n`) -/
theorem C01_counterexample (h : elifEdge ∈ parserGraph.edges) (hn : ifCondIdx < parserGraph.n) : ¬ C01_full := by
  intro hf
  have := selfLoop_refutes parserGraph ifCondIdx hn h
  rw [hf.2] at this
  exact absurd this (by simp)

/-- the hypothesis of `C01_counterexample` holds on the tree this file was last checked against;
    if `elif` gets guarded this example (not an audited theorem) is the line to delete -/
example : elifEdge ∈ parserGraph.edges ∧ ifCondIdx < parserGraph.n := by decide

/-- C01 with the excluded region explicit: all kernels, and the parser outside `elif` -/
theorem C01_partial : KernelsNeverPanic ∧ runBound parserGraphNoElif maxUnguardedRun = true :=
  ⟨kernels_never_panic, parser_cycles_guarded⟩

/-! ## The property as stated, and the gap between it and what is proved: `C01_statement`, `C01_main` -/

/-- how one call of the engine (load + render / compile_expression + eval / formatting the error) ends -/
inductive End where
  | value                       -- `Ok(output)`
  | error                       -- `Err(minijinja::Error)`
  | panic (site : String)       -- a Rust panic (incl. arithmetic overflow in a build with overflow checks);
                                -- `site` = the `file::function::kind` row it originates from, or "callee"
                                -- for a panic raised inside std / a dependency
  | stackOverflow               -- native stack exhausted (SIGSEGV / SIGABRT)
  | allocAbort                  -- the allocator refuses a size the template chose (abort)
  deriving DecidableEq, Repr

/-- the engine as the property sees it.  `I` is the property's quantifier: template source (any byte
    string) x companion templates x context value x builtin called with arbitrary arguments x
    configuration (syntax, whitespace switches, undefined behaviour, …) x {debug, release} profile x
    {main thread, 2 MiB thread} -/
structure Engine (I : Type) where
  run : I → End

/-- **C01 at full strength**: for every input, loading and rendering either succeeds or returns an
    error value — it never panics, overflows the native stack or aborts in the allocator. -/
def C01_statement {I : Type} (E : Engine I) : Prop :=
  ∀ i, E.run i = .value ∨ E.run i = .error

/-- class of a site key in the hand classification (`none`: not a row) -/
def classOf (s : String) : Option PanicSites.Cls :=
  (PanicSites.rows.find? (·.key == s)).map (·.cls)

/-- **The gap**, one named field per assumption.  Nothing here is proved about the real engine: these
    are exactly the statements that the checked correspondence / the crash oracle validate and that the
    theorems of this file discharge *for the models*. -/
structure Gaps {I : Type} (E : Engine I) : Prop where
  /-- TRUSTED (syntactic scanner `lib/tables/c01.py: PANIC_SITES`): a panic of the crate's own code
      originates at a key of the REGENERATED site table; every other panic is a callee's -/
  sites_complete : ∀ i s, E.run i = .panic s → s = "callee" ∨ s ∈ PanicSites.genKeyed.map (·.1)
  /-- class a — the named kernel theorem shows the site unreachable IN THE MODEL; the gap is
      "model = code", validated by the kernel correspondence streams (boundary boxes, `drive_c01`) and
      by translation validation of the instruction streams -/
  classA_model_is_code : ∀ i s, E.run i = .panic s → classOf s ≠ some .a
  /-- class b — the guard in the same function (its text is tied: `panic_guards_as_tabled`) is adequate:
      a hand judgement per row -/
  classB_guard_adequate : ∀ i s, E.run i = .panic s → classOf s ≠ some .b
  /-- class c — outside the quantifier (poisoned mutex = an earlier panic, host-side macros, …) -/
  classC_outside_quantifier : ∀ i s, E.run i = .panic s → classOf s ≠ some .c
  /-- class d — VALIDATED ONLY: nothing but the crash-oracle streams stands behind these sites -/
  classD_searched : ∀ i s, E.run i = .panic s → classOf s ≠ some .d
  /-- VALIDATED ONLY: panics inside std / dependencies (slice::copy_from_slice, RefCell, fmt with an
      out-of-range argument, …) — crash-oracle streams -/
  callee_searched : ∀ i, E.run i ≠ .panic "callee"
  /-- VALIDATED ONLY (depth probes, accumulate-loop probes on a 256 KiB stack): the native stack.  Proved
      parts it rests on: `parser_cycles_guarded`, `ast_depth_bound`, `mergeSeq_depth_bounded`;
      recorded exceptions: KNOWN_FINDINGS elif / cyclic namespace / run-time nesting / lazy slices -/
  stack_searched : ∀ i, E.run i ≠ .stackOverflow
  /-- proved for the kernels (`*_alloc_le`, `limits_fit_2GiB`), validated for everything else under a
      2 GiB address-space cap -/
  alloc_bounded : ∀ i, E.run i ≠ .allocAbort

/-- **C01, main theorem**: the statement follows from the gap hypotheses and the tie between the
    regenerated site table and the classification (`all_panic_sites_classified`, proved above): every
    site the scanner finds has a class, every class has its hypothesis. -/
theorem C01_from_gaps {I : Type} (E : Engine I) (G : Gaps E)
    (hTie : PanicSites.genKeyed = PanicSites.keyed PanicSites.rows) : C01_statement E := by
  intro i
  cases h : E.run i with
  | value => exact Or.inl rfl
  | error => exact Or.inr rfl
  | stackOverflow => exact absurd h (G.stack_searched i)
  | allocAbort => exact absurd h (G.alloc_bounded i)
  | panic s =>
    exfalso
    rcases G.sites_complete i s h with hc | hm
    · subst hc; exact G.callee_searched i h
    · -- the site is a row of the classification, hence has a class
      rw [hTie] at hm
      simp only [PanicSites.keyed, List.map_map, List.mem_map, Function.comp] at hm
      obtain ⟨r, hr, hk⟩ := hm
      have hfind : ∃ r', PanicSites.rows.find? (·.key == s) = some r' := by
        cases hf : PanicSites.rows.find? (·.key == s) with
        | some r' => exact ⟨r', rfl⟩
        | none =>
          have := List.find?_eq_none.1 hf r hr
          simp [hk] at this
      obtain ⟨r', hr'⟩ := hfind
      have hcls : classOf s = some r'.cls := by simp [classOf, hr']
      cases hc : r'.cls with
      | a => exact G.classA_model_is_code i s h (by rw [hcls, hc])
      | b => exact G.classB_guard_adequate i s h (by rw [hcls, hc])
      | c => exact G.classC_outside_quantifier i s h (by rw [hcls, hc])
      | d => exact G.classD_searched i s h (by rw [hcls, hc])

theorem C01_main {I : Type} (E : Engine I) (G : Gaps E) : C01_statement E :=
  C01_from_gaps E G all_panic_sites_classified

-- non-vacuity: an engine that only ever returns values / errors satisfies the gaps; one that panics at a
-- class-d row violates exactly `classD_searched`, and the statement is false for it
example : Gaps (⟨fun (b : Bool) => if b then .value else .error⟩ : Engine Bool) :=
  ⟨by intro i s h; cases i <;> simp at h, by intro i s h; cases i <;> simp at h, by intro i s h; cases i <;> simp at h,
   by intro i s h; cases i <;> simp at h, by intro i s h; cases i <;> simp at h, by intro i; cases i <;> simp,
   by intro i; cases i <;> simp, by intro i; cases i <;> simp⟩
example : classOf "value/ops.rs::pow::arith" = some .a ∧ classOf "no/such::row" = none := by decide +kernel
example : ¬ C01_statement (⟨fun (_ : Unit) => .panic "vm/mod.rs::Executor::perform_super::unwrap"⟩ : Engine Unit) := by
  intro h; rcases h () with h | h <;> simp at h

end MJ.C01
