import MJ.Proofs.Depth
import MJ.Proofs.DepthHop
import MJ.Proofs.DepthAmb
/-!
# C11 — run-time recursion is cut off by the recursion limit, never by the stack

Property theorems only (model: `MJ/Model/Depth.lean`, helper lemmas: `MJ/Proofs/Depth.lean`).

What is proved is the **accounting**: every native re-entry of the interpreter loop is preceded
by a *checked* increase of `Context::depth()` by the cost of its edge, so the sum of the edge
costs over the native nesting never exceeds the configured limit — one linear bound for every
mixture of edges — and a run that tries to nest deeper ends with the recursion error.  The edge
costs, the comparison in `check_depth`, the re-entry sites with their guards and the clamp of
`set_recursion_limit` are regenerated from the source (`MJ.Gen`).

What is **not** provable here: the number of bytes of native stack one re-entry of each kind
consumes.  Those are measured by the harness on every run (see `lib/props/c11.py`).
-/
namespace MJ.C11
open MJ.Depth MJ.Gen

/-- states reachable from the start of a render with limit `L` by accepted events -/
inductive Reach (L : Nat) : St → Prop where
  | init : Reach L (init L)
  | step {s s' : St} {e : Ev} : Reach L s → step s e = .ok s' → Reach L s'

theorem reach_inv {L : Nat} {s : St} (h : Reach L s) : Inv s ∧ s.limit = L := by
  induction h with
  | init => exact ⟨inv_init L, rfl⟩
  | step _ hs ih =>
    obtain ⟨h1, h2⟩ := inv_step ih.1 hs
    exact ⟨h1, h2.trans ih.2⟩

theorem reach_run {L : Nat} {s s' : St} (h : Reach L s) :
    ∀ {evs : List Ev}, run s evs = .ok s' → Reach L s' := by
  intro evs
  induction evs generalizing s with
  | nil => intro hr; simp only [run] at hr; injection hr with hr; subst hr; exact h
  | cons e es ih =>
    intro hr
    simp only [run] at hr
    cases hs : MJ.Depth.step s e with
    | ok s1 => rw [hs] at hr; exact ih (Reach.step h hs) hr
    | recursionError => rw [hs] at hr; cases hr
    | panic => rw [hs] at hr; cases hr
    | stuck => rw [hs] at hr; cases hr

/-- Full-strength statement of the accounting (everything of C11 that is logic): for every
    limit and every trace of depth events, (1) the weighted nesting — the sum of the edge costs
    of the native activations — stays within the limit, (2) the number of nested interpreter
    activations (root included) stays within `max limit 1`, (3) the bookkeeping never panics,
    (4) a trace with at least `max limit 1` pending re-entries cannot run to completion.
    The native stack *bytes* are outside the model (measured, not proved). -/
def C11_full : Prop :=
  ∀ (L : Nat) (evs : List Ev),
    (∀ s, run (init L) evs = .ok s →
      wsum s.acts ≤ L ∧ nativeDepth s ≤ max L 1 ∧ s.acts.length = pending evs 0) ∧
    run (init L) evs ≠ .panic ∧
    (max L 1 ≤ pending evs 0 → ∀ s, run (init L) evs ≠ .ok s)

/-- the regenerated costs are the ones the model charges, each at least 1 -/
theorem cost_table :
    cost .macroCall = macroRecursionCost + 2 ∧ cost .callerCall = macroRecursionCost + 2 ∧
    cost .includeTpl = includeRecursionCost ∧ cost .blockCall = 1 ∧ cost .superCall = 1 ∧
    ∀ k, 1 ≤ cost k := by
  refine ⟨rfl, rfl, rfl, rfl, rfl, ?_⟩
  intro k
  cases k <;> simp only [cost] <;> first | omega | decide

/-- every kind of native re-entry first increases `Context::depth()` by its cost (≥ 1) through a
    checked operation: when the nested interpreter starts, the new depth is the old depth plus the
    cost and is within the limit -/
theorem native_reentry_costs {s s' : St} {k : Kind} (h : step s (.enter k) = .ok s') :
    s'.cur.depth = s.cur.depth + cost k ∧ 1 ≤ cost k ∧ s'.cur.depth ≤ s.limit ∧
    s'.acts.length = s.acts.length + 1 := by
  obtain ⟨_, h2, h3, b, h4, _, _⟩ := enter_ok (show enter s k = .ok s' from h)
  exact ⟨h2, cost_table.2.2.2.2.2 k, h3, by simp [h4]⟩

example : step (init 500) (.enter .macroCall) =
    .ok { limit := 500, cur := ⟨1 + macroRecursionCost, 2⟩, acts := [⟨.macroCall, ⟨0, 1⟩, 2⟩] } := by
  decide

/-- a macro's fresh context inherits the caller's depth: it starts at caller depth +
    `MACRO_RECURSION_COST` + its own two frames -/
theorem macro_ctx_inherits_depth {s s' : St} (h : step s (.enter .macroCall) = .ok s') :
    s'.cur.outer = s.cur.depth + macroRecursionCost ∧ s'.cur.frames = 2 ∧
    s'.cur.depth = s.cur.depth + macroRecursionCost + 2 := by
  obtain ⟨_, h2, _, b, h4, _, hk⟩ := enter_ok (show enter s .macroCall = .ok s' from h)
  simp only [kindOK] at hk
  simp only [cost, Ctx.depth] at h2
  simp only [Ctx.depth] at hk ⊢
  omega

example : step ⟨500, ⟨20, 3⟩, []⟩ (.enter .macroCall) =
    .ok ⟨500, ⟨23 + macroRecursionCost, 2⟩, [⟨.macroCall, ⟨20, 3⟩, 2⟩]⟩ := by decide

/-- the nested interpreter's return restores the caller's context exactly and cannot panic
    (`decr_depth` does not underflow, `pop_frame` finds its frame, `restore_stack_depth`'s
    assertion holds) -/
theorem leave_restores_context {L : Nat} {s : St} {a : Act} {rest : List Act}
    (h : Reach L s) (ha : s.acts = a :: rest) :
    step s .leave = .ok { s with cur := a.old, acts := rest } :=
  leave_restores (reach_inv h).1 ha

example : run (init 500) [.push, .enter .includeTpl, .push, .enter .blockCall, .push, .leave, .leave] =
    .ok { limit := 500, cur := ⟨0, 2⟩, acts := [] } := by decide

/-- an include/import that finds no template (`ignore missing`, every candidate of a list missing,
    or the `TemplateNotFound` error path) is depth neutral: it takes no charge and releases none,
    whatever the surrounding depth -/
theorem missing_include_depth_neutral (s : St) :
    step s .missingInclude = .ok s ∧
    ∀ evs, run s (.missingInclude :: evs) = run s evs := by
  refine ⟨rfl, ?_⟩
  intro evs
  simp [run, MJ.Depth.step]

example : run (init 30) [.enter .includeTpl, .missingInclude, .missingInclude, .enter .includeTpl,
    .missingInclude, .enter .includeTpl] = .recursionError := by decide

/-- an include, import or macro call that fails — at any nesting depth below it, `pre` being the
    activations entered after it that the error unwinds through — leaves the includer's context
    exactly as it was when the construct was entered: the error exits release what the entries
    charged, and nothing panics.  (`pre = []`: the included template itself fails or returns.) -/
theorem failed_include_depth_restored {L : Nat} {s : St} (pre : List Act) {a : Act}
    {rest : List Act} (h : Reach L s) (ha : s.acts = pre ++ a :: rest) :
    run s (List.replicate (pre.length + 1) .leave) = .ok { s with cur := a.old, acts := rest } :=
  unwind_restores pre (reach_inv h).1 ha

/-- a failed *attempt* to enter (the charge does not fit) changes nothing either: the only
    outcomes of an attempt are the new state or the error, and the context operations are
    functional (`push_frame`/`incr_depth` undo themselves: `pushFrameChecked`, `incrDepthChecked`) -/
example : run (init 30) [.push, .enter .includeTpl, .enter .blockCall, .enter .includeTpl, .push,
      .leave, .leave, .leave] = .ok { limit := 30, cur := ⟨0, 2⟩, acts := [] } := by decide

/-- **weighted nesting**: in every reachable state the sum of the edge costs of the native
    activations on the stack is at most the limit (strictly below it while nested); the bound is
    linear, so it covers every mixture of edges -/
theorem weighted_nesting {L : Nat} {s : St} (h : Reach L s) :
    wsum s.acts + 1 ≤ s.cur.depth ∧ wsum s.acts ≤ L ∧ (s.acts ≠ [] → wsum s.acts + 1 ≤ L) := by
  obtain ⟨⟨hc, hd⟩, hl⟩ := reach_inv h
  have hw := wsum_lt_depth hc
  rw [hl] at hd
  refine ⟨hw, by omega, ?_⟩
  intro hne
  cases hacts : s.acts with
  | nil => exact absurd hacts hne
  | cons a rest =>
    rw [hacts] at hw
    have := cost_table.2.2.2.2.2 a.kind
    simp only [wsum] at hw ⊢
    omega

example : ∃ s, Reach 500 s ∧ s.acts.length = 3 ∧
    wsum s.acts = (macroRecursionCost + 2) + includeRecursionCost + 1 :=
  ⟨⟨500, ⟨includeRecursionCost + 2 + macroRecursionCost, 2⟩,
      [⟨.macroCall, ⟨includeRecursionCost, 2⟩, 2⟩, ⟨.includeTpl, ⟨0, 2⟩, 2⟩, ⟨.blockCall, ⟨0, 1⟩, 2⟩]⟩,
    reach_run Reach.init
      (evs := [.enter .blockCall, .enter .includeTpl, .enter .macroCall]) (by decide),
    rfl, by decide⟩

/-- nested interpreter activations (root included) never exceed the limit; with `c` the smallest
    cost among the activations on the stack, `c × nesting ≤ limit` -/
theorem native_depth_le_limit {L : Nat} {s : St} (h : Reach L s) :
    nativeDepth s ≤ max L 1 ∧
    ∀ c, (∀ a ∈ s.acts, c ≤ cost a.kind) → c * s.acts.length + 1 ≤ max L 1 := by
  obtain ⟨hw, _, _⟩ := weighted_nesting h
  obtain ⟨⟨_, hd⟩, hl⟩ := reach_inv h
  rw [hl] at hd
  have key : ∀ (acts : List Act) c, (∀ a ∈ acts, c ≤ cost a.kind) → c * acts.length ≤ wsum acts := by
    intro acts c
    induction acts with
    | nil => intro _; simp [wsum]
    | cons a rest ih =>
      intro hc
      have h1 := hc a (by simp)
      have h2 := ih (fun x hx => hc x (by simp [hx]))
      simp only [wsum, List.length_cons, Nat.mul_succ]
      omega
  constructor
  · have := key s.acts 1 (fun a _ => cost_table.2.2.2.2.2 a.kind)
    simp only [nativeDepth]
    omega
  · intro c hc
    have := key s.acts c hc
    omega

/-- the error is raised exactly when the cost of the edge does not fit: an attempted re-entry
    fails with "recursion limit exceeded" iff `depth + cost > limit`; otherwise it succeeds —
    it never panics and is never skipped -/
theorem reentry_fails_iff {L : Nat} {s : St} (h : Reach L s) (k : Kind) :
    (step s (.enter k) = .recursionError ↔ L < s.cur.depth + cost k) ∧
    ((∃ s', step s (.enter k) = .ok s') ∨ step s (.enter k) = .recursionError) := by
  obtain ⟨⟨hc, _⟩, hl⟩ := reach_inv h
  rw [← hl]
  exact ⟨enter_error_iff s k (depth_pos_of_chain hc), enter_ok_or_error s k⟩

example : step ⟨10, ⟨0, 10⟩, []⟩ (.enter .blockCall) = .recursionError ∧
    step ⟨10, ⟨0, 9⟩, []⟩ (.enter .blockCall) ≠ .recursionError := by decide

/-- the error ends the run at the first failing attempt, whatever follows -/
theorem error_is_final (s : St) (pre post : List Ev) (e : Ev) {s1 : St}
    (h1 : run s pre = .ok s1) (h2 : step s1 e = .recursionError) :
    run s (pre ++ e :: post) = .recursionError := by
  induction pre generalizing s with
  | nil =>
    simp only [run] at h1
    injection h1 with h1
    subst h1
    simp [run, h2]
  | cons p ps ih =>
    simp only [run, List.cons_append] at h1 ⊢
    cases hs : step s p with
    | ok s' => rw [hs] at h1; exact ih s' h1
    | recursionError => rw [hs] at h1 <;> cases h1
    | panic => rw [hs] at h1 <;> cases h1
    | stuck => rw [hs] at h1 <;> cases h1

theorem run_acts_length {L : Nat} {s s' : St} (h : Reach L s) :
    ∀ {evs : List Ev}, run s evs = .ok s' → s'.acts.length = pending evs s.acts.length := by
  intro evs
  induction evs generalizing s with
  | nil => intro hr; simp only [run] at hr; injection hr with hr; subst hr; rfl
  | cons e es ih =>
    intro hr
    simp only [run] at hr
    cases hs : MJ.Depth.step s e with
    | ok s1 =>
      rw [hs] at hr
      rw [pending_cons, ← step_acts_length (reach_inv h).1 hs]
      exact ih (Reach.step h hs) hr
    | recursionError => rw [hs] at hr; cases hr
    | panic => rw [hs] at hr; cases hr
    | stuck => rw [hs] at hr; cases hr

theorem run_never_panics {L : Nat} {s : St} (h : Reach L s) (evs : List Ev) :
    run s evs ≠ .panic := by
  induction evs generalizing s with
  | nil => simp [run]
  | cons e es ih =>
    simp only [run]
    cases hs : MJ.Depth.step s e with
    | ok s1 => exact ih (Reach.step h hs)
    | recursionError => simp
    | panic => exact absurd hs (step_ne_panic (reach_inv h).1 e)
    | stuck => simp

/-- **unbounded recursion errors**: a run that attempts at least `max limit 1` pending (entered,
    not yet left) native re-entries cannot return `ok` and cannot panic: it ends with the
    recursion error (or was not a well-formed trace).  With `error_is_final` and
    `reentry_fails_iff`: it fails at the first attempt whose cost does not fit. -/
theorem unbounded_recursion_errors (L : Nat) (evs : List Ev) (hp : max L 1 ≤ pending evs 0) :
    run (init L) evs = .recursionError ∨ run (init L) evs = .stuck := by
  cases hr : run (init L) evs with
  | ok s =>
    have h1 := run_acts_length Reach.init hr
    have h2 := (native_depth_le_limit (reach_run Reach.init hr)).1
    simp only [nativeDepth, MJ.Depth.init] at h1 h2
    simp only [List.length_nil] at h1
    omega
  | recursionError => exact Or.inl rfl
  | panic => exact absurd hr (run_never_panics Reach.init evs)
  | stuck => exact Or.inr rfl

example : run (init 10) (List.replicate 10 (.enter .blockCall)) = .recursionError := by decide
example : run (init 10) (List.replicate 9 (.enter .blockCall)) ≠ .recursionError := by decide
example : run (init 500) (List.replicate 500 (.enter .macroCall)) = .recursionError := by
  decide +kernel

/-- the accounting part of C11, all at once -/
theorem c11_accounting : C11_full := by
  intro L evs
  refine ⟨?_, run_never_panics Reach.init evs, ?_⟩
  · intro s hr
    have hreach := reach_run Reach.init hr
    refine ⟨(weighted_nesting hreach).2.1, (native_depth_le_limit hreach).1, ?_⟩
    have := run_acts_length Reach.init hr
    simpa [MJ.Depth.init] using this
  · intro hp s hr
    rcases unbounded_recursion_errors L evs hp with h | h <;> rw [h] at hr <;> cases hr

/-- `set_recursion_limit` (no `stacker`) clamps to `MAX_RECURSION`, which is also the default:
    whatever is configured, weighted nesting and native nesting stay within `MAX_RECURSION` -/
theorem limit_clamped (level : Nat) :
    setRecursionLimit level = min level maxRecursionEnv ∧
    setRecursionLimit level ≤ maxRecursionEnv ∧
    (level ≤ maxRecursionEnv → setRecursionLimit level = level) ∧
    defaultRecursionLimit = maxRecursionEnv ∧ recursionLimitDefaultIsMax = true ∧
    ∀ s, Reach (setRecursionLimit level) s →
      wsum s.acts ≤ maxRecursionEnv ∧ nativeDepth s ≤ maxRecursionEnv := by
  have hclamp : recursionLimitClampedToMax = true := by decide
  have hset : setRecursionLimit level = min level maxRecursionEnv := by
    simp [setRecursionLimit, hclamp]
  have hmax : 1 ≤ maxRecursionEnv := by decide
  refine ⟨hset, by rw [hset]; exact Nat.min_le_right _ _, ?_, rfl, by decide, ?_⟩
  · intro h; rw [hset]; exact Nat.min_eq_left h
  · intro s hs
    have h1 := (weighted_nesting hs).2.1
    have h2 := (native_depth_le_limit hs).1
    have h3 : setRecursionLimit level ≤ maxRecursionEnv := by rw [hset]; exact Nat.min_le_right _ _
    omega

example : setRecursionLimit 100000 = 500 ∧ setRecursionLimit 7 = 7 := by decide

/-! ## The native stack, with the bytes per re-entry as measured parameters

The model cannot exhibit how many bytes of native stack one re-entry consumes.  Taking them as
parameters (`bytes : Kind → Nat`, plus `root` bytes before the first activation) the property's
second sentence becomes a statement about the accounting: -/

/-- "never overflows a 2 MiB stack for any recursion limit up to the default" for given
    per-kind frame sizes -/
def C11_stack_full (bytes : Kind → Nat) (root : Nat) : Prop :=
  ∀ L, L ≤ maxRecursionEnv → ∀ s, Reach L s → root + stackBytes bytes s.acts ≤ 2097152

/-- frame sizes measured on the pinned tree in an unoptimised debug build (opt-level 0,
    x86-64 Linux, rustc 1.95, hooks on): bytes per native re-entry of each kind, and 15300 bytes
    before the first activation.  A snapshot — every run re-measures, reports the current numbers
    and compares them with this table: upper bounds for macro/caller/include (used by the partial
    theorem's instance), lower bounds for block/super (used by the counterexample). -/
def measuredDebugO0 : Kind → Nat
  | .macroCall => 16500
  | .callerCall => 16500
  | .includeTpl => 15000
  | .blockCall => 13000
  | .superCall => 13000

/-- the same in the release profile, upper bounds (block calls through `State::render_block`
    are the largest, 4122 bytes measured on the build without hooks); 5100 bytes before the first
    activation -/
def measuredRelease : Kind → Nat
  | .macroCall => 4900
  | .callerCall => 4900
  | .includeTpl => 3500
  | .blockCall => 4130
  | .superCall => 3700

theorem stack_le_weighted (P : Kind → Prop) (bytes : Kind → Nat) (ρ : Nat)
    (h : ∀ k, P k → bytes k ≤ ρ * cost k) :
    ∀ acts : List Act, (∀ a ∈ acts, P a.kind) → stackBytes bytes acts ≤ ρ * wsum acts := by
  intro acts
  induction acts with
  | nil => intro _; simp [stackBytes]
  | cons a rest ih =>
    intro hP
    have h1 := h a.kind (hP a (by simp))
    have h2 := ih (fun x hx => hP x (by simp [hx]))
    simp only [stackBytes, wsum, Nat.mul_add]
    omega

/-- blocks can be nested up to the limit, one depth unit each -/
theorem reach_blocks (bytes : Kind → Nat) (L : Nat) :
    ∀ n, n + 1 ≤ L → ∃ s, Reach L s ∧ s.limit = L ∧ s.cur = ⟨0, n + 1⟩ ∧
      stackBytes bytes s.acts = n * bytes .blockCall := by
  intro n
  induction n with
  | zero => intro _; exact ⟨init L, Reach.init, rfl, rfl, by simp [MJ.Depth.init, stackBytes]⟩
  | succ n ih =>
    intro hn
    obtain ⟨s, hr, hl, hc, hb⟩ := ih (by omega)
    have hsome : (s.cur.pushFrame s.limit).isSome :=
      (pushFrame_isSome_iff _ _).2 (by rw [hc, hl]; simp only [Ctx.depth]; omega)
    obtain ⟨c, hp⟩ := Option.isSome_iff_exists.1 hsome
    obtain ⟨hceq, _⟩ := pushFrame_some hp
    refine ⟨{ s with cur := c, acts := ⟨.blockCall, s.cur, s.cur.frames + 1⟩ :: s.acts },
      Reach.step hr (e := .enter .blockCall) ?_, hl, ?_, ?_⟩
    · simp only [MJ.Depth.step, enter, hp]
    · simp only [hceq, hc]
    · simp only [stackBytes, hb, Nat.succ_mul]; omega

/-- **the full statement is false on the current code** for the measured debug frame sizes:
    `{% block a %}{{ self.a() }}{% endblock %}` at the default limit nests 499 block calls of one
    depth unit each — at least 6.8 MB of native stack (the harness replays this witness on every run: the
    child dies with SIGABRT on a 2 MiB thread; KNOWN_FINDINGS.jsonl) -/
theorem C11_counterexample : ¬ C11_stack_full measuredDebugO0 15300 := by
  intro h
  obtain ⟨s, hr, _, _, hb⟩ := reach_blocks measuredDebugO0 500 499 (by omega)
  have := h 500 (by decide) s hr
  rw [hb] at this
  simp only [measuredDebugO0] at this
  omega

/-- **partial theorem**, the excluded region as explicit decidable hypotheses: for the re-entry
    kinds `P` whose measured bytes per depth unit are at most `ρ`, with `root + ρ × MAX_RECURSION`
    within 2 MiB, no mixture of such re-entries at any limit up to the default exceeds 2 MiB -/
theorem C11_partial (P : Kind → Prop) (bytes : Kind → Nat) (root ρ : Nat)
    (hρ : ∀ k, P k → bytes k ≤ ρ * cost k) (hfit : root + ρ * maxRecursionEnv ≤ 2097152) :
    ∀ L, L ≤ maxRecursionEnv → ∀ s, Reach L s → (∀ a ∈ s.acts, P a.kind) →
      root + stackBytes bytes s.acts ≤ 2097152 := by
  intro L hL s hs hP
  have h1 := stack_le_weighted P bytes ρ hρ s.acts hP
  have h2 := (weighted_nesting hs).2.1
  have h3 : ρ * wsum s.acts ≤ ρ * maxRecursionEnv := Nat.mul_le_mul_left ρ (by omega)
  omega

/-- release profile: every kind fits (ρ = 4130 bytes per depth unit; 27 KB to spare) -/
example : C11_stack_full measuredRelease 5100 := fun L hL s hs =>
  C11_partial (fun _ => True) measuredRelease 5100 4130 (by intro k _; cases k <;> decide)
    (by decide) L hL s hs (fun _ _ => trivial)

/-- unoptimised debug profile: everything except block calls and `super()` fits
    (ρ = 2750 bytes per depth unit) -/
example : ∀ L, L ≤ maxRecursionEnv → ∀ s, Reach L s →
    (∀ a ∈ s.acts, a.kind ≠ .blockCall ∧ a.kind ≠ .superCall) →
    15300 + stackBytes measuredDebugO0 s.acts ≤ 2097152 :=
  C11_partial (fun k => k ≠ .blockCall ∧ k ≠ .superCall) measuredDebugO0 15300 2750
    (by intro k hk; cases k <;> first | decide | exact absurd rfl hk.1 | exact absurd rfl hk.2)
    (by decide)

/-! ## A second resource: templates compiled lazily at depth

A template that a loader provides is compiled by the first `include`/`import`/`extends` that
names it — on top of the interpreter activations that are on the native stack at that moment.
The recursive-descent parser has its own guard (`MAX_RECURSION` of `compiler/parser.rs`,
`maxRecursionParser` levels), counted separately from the run-time depth.  The native stack is
therefore bounded by  root + Σ bytes(activation) + π × parse levels,  two budgets that add up. -/

/-- any number of re-entries of one kind can be nested as long as their cost fits -/
theorem reach_nest (bytes : Kind → Nat) (L : Nat) (k : Kind) :
    ∀ n, 1 + n * cost k ≤ L → ∃ s, Reach L s ∧ s.limit = L ∧ s.cur.depth = 1 + n * cost k ∧
      stackBytes bytes s.acts = n * bytes k := by
  intro n
  induction n with
  | zero => intro _; exact ⟨init L, Reach.init, rfl, by simp [MJ.Depth.init, Ctx.depth], by simp [MJ.Depth.init, stackBytes]⟩
  | succ n ih =>
    intro hn
    rw [Nat.succ_mul] at hn
    obtain ⟨s, hr, hl, hd, hb⟩ := ih (by omega)
    have hne : enter s k ≠ .recursionError := by
      intro he
      have := (enter_error_iff s k (by omega)).1 he
      omega
    rcases enter_ok_or_error s k with ⟨s', hs'⟩ | he
    · obtain ⟨hl', hd', _, b, hacts, _, _⟩ := enter_ok hs'
      refine ⟨s', Reach.step hr (e := .enter k) hs', by omega, ?_, ?_⟩
      · rw [hd', hd, Nat.succ_mul]; omega
      · rw [hacts]; simp only [stackBytes, hb, Nat.succ_mul]; omega
    · exact absurd he hne

/-- **partial theorem with both budgets**: for re-entry kinds `P` with at most `ρ` bytes per depth
    unit and a parser that needs at most `π` bytes per guarded level, if
    `root + ρ × MAX_RECURSION + π × MAX_RECURSION(parser)` fits in 2 MiB, no mixture of such
    re-entries with a lazy compilation on top of it exceeds 2 MiB -/
theorem C11_partial_lazy (P : Kind → Prop) (bytes : Kind → Nat) (root ρ π : Nat)
    (hρ : ∀ k, P k → bytes k ≤ ρ * cost k)
    (hfit : root + ρ * maxRecursionEnv + π * maxRecursionParser ≤ 2097152) :
    ∀ L, L ≤ maxRecursionEnv → ∀ s, Reach L s → (∀ a ∈ s.acts, P a.kind) →
      ∀ p, p ≤ maxRecursionParser → root + stackBytes bytes s.acts + π * p ≤ 2097152 := by
  intro L hL s hs hP p hp
  have h1 := stack_le_weighted P bytes ρ hρ s.acts hP
  have h2 := (weighted_nesting hs).2.1
  have h3 : ρ * wsum s.acts ≤ ρ * maxRecursionEnv := Nat.mul_le_mul_left ρ (by omega)
  have h4 : π * p ≤ π * maxRecursionParser := Nat.mul_le_mul_left π hp
  omega

/-- release profile, macro/caller/include re-entries (ρ = 817 bytes per depth unit, parser
    π = 1700 bytes per level): both budgets together use less than 0.7 MB -/
example : ∀ L, L ≤ maxRecursionEnv → ∀ s, Reach L s →
    (∀ a ∈ s.acts, a.kind ≠ .blockCall ∧ a.kind ≠ .superCall) →
    ∀ p, p ≤ maxRecursionParser → 5100 + stackBytes measuredRelease s.acts + 1700 * p ≤ 2097152 :=
  C11_partial_lazy (fun k => k ≠ .blockCall ∧ k ≠ .superCall) measuredRelease 5100 817 1700
    (by intro k hk; cases k <;> first | decide | exact absurd rfl hk.1 | exact absurd rfl hk.2)
    (by decide)

/-- **the two budgets do not fit together in an unoptimised debug build** (measured lower bounds:
    15500 bytes per macro call, 8000 bytes per guarded parser level): 83 nested macro calls — what
    the default limit admits — and a lazily loaded template with 70 nested parentheses (140 parser
    levels, below the parser's own limit) need more than 2 MiB.  Witness replayed every run
    (`M:M000d 500 0 t2m`, KNOWN_FINDINGS.jsonl: lazy-parse-at-depth). -/
theorem C11_lazy_counterexample :
    ¬ (∀ L, L ≤ maxRecursionEnv → ∀ s, Reach L s → ∀ p, p ≤ maxRecursionParser →
        stackBytes (fun _ => 15500) s.acts + 8000 * p ≤ 2097152) := by
  intro h
  obtain ⟨s, hr, _, _, hb⟩ := reach_nest (fun _ => 15500) 500 .macroCall 83 (by decide)
  have := h 500 (by decide) s hr 140 (by decide)
  rw [hb] at this
  omega

/-- the tie for every place of the crate that creates a `Context`/`State`, starts a top-level
    evaluation, raises the depth or switches the execution state — each is either a *root* (a
    fresh render: its own limit budget, nothing inherited — `Template::_eval`, `Expression::_eval`,
    `machinery::eval`, the empty states of `new_state`/`empty_state`), a constructor, or one of the
    four guarded re-entries of the model; a `Context` reads its limit from the environment when it
    is created, the parser guards its own recursion -/
def contextSiteClass : List ((String × String × String) × String) := [
  (("environment.rs", "empty_state", "State::new_for_env"), "root:empty-state"),
  (("expression.rs", "_eval", "vm::eval"), "root:render"),
  (("lib.rs", "eval", "vm::eval"), "root:render"),
  (("template.rs", "_eval", "vm::eval"), "root:render"),
  (("template.rs", "new_state", "State::new"), "root:empty-state"),
  (("template.rs", "new_state", "Context::new"), "root:empty-state"),
  (("vm/context.rs", "new", "Context{}"), "constructor"),
  (("vm/context.rs", "new_with_frame", "Context::new"), "constructor"),
  (("vm/mod.rs", "eval", "Executor::eval"), "root:render"),
  (("vm/mod.rs", "eval", "State::new"), "root:render"),
  (("vm/mod.rs", "eval", "Context::new_with_frame"), "root:render"),
  (("vm/mod.rs", "eval_macro", "Context::new"), "guarded:macro"),
  (("vm/mod.rs", "eval_macro", "reset_with_frame"), "guarded:macro"),
  (("vm/mod.rs", "eval_macro", "incr_depth"), "guarded:macro"),
  (("vm/mod.rs", "eval_macro", "with_execution_state"), "guarded:macro"),
  (("vm/mod.rs", "perform_include", "incr_depth"), "guarded:include"),
  (("vm/mod.rs", "perform_include", "with_execution_state"), "guarded:include"),
  (("vm/mod.rs", "perform_super", "with_execution_state"), "guarded:super"),
  (("vm/mod.rs", "call_block", "with_execution_state"), "guarded:block"),
  (("vm/state.rs", "new_for_env", "State::new"), "root:empty-state"),
  (("vm/state.rs", "new_for_env", "Context::new"), "root:empty-state")]

theorem context_sites_classified :
    contextSites = contextSiteClass.map (·.1) ∧
    (∀ e ∈ contextSiteClass, e.2 ∈ ["root:render", "root:empty-state", "constructor",
      "guarded:macro", "guarded:include", "guarded:super", "guarded:block"]) ∧
    contextLimitSource = "env.recursion_limit()" ∧
    parserGuardCond = "$parser.depth > MAX_RECURSION" :=
  ⟨rfl, by decide, rfl, rfl⟩

/-- the helpers that fill a context push their frame unconditionally: a macro context is
    `[base frame, closure frame]` whatever the root context value is (undefined, none, a map, an
    object) — `enterMacro` starts from one frame and pushes the second — and `clear` drops the
    inherited depth of a pooled context -/
theorem context_helpers_unconditional :
    contextHelpers = [
      ("reset_with_frame", "self.clear(); self.stack.push(frame);"),
      ("clear", "self.stack.clear(); self.outer_stack_depth = 0;"),
      ("new_with_frame", "let mut rv = Context::new(env); rv.stack.push(frame); rv"),
      ("pop_frame", "self.stack.pop().unwrap()")] :=
  rfl

/-- the tie to the source text of the re-entry sites: the functions of `vm/mod.rs` that call
    `eval_state`/`do_eval`/`eval_impl`, with the depth-increasing calls that precede the nested
    interpreter and the restoring calls that follow it, are exactly the ones modelled
    (`eval` = root, `eval_state`/`do_eval` = trampolines); `check_depth` compares
    `depth()` with the *configured* limit and `push_frame`/`incr_depth` check and undo -/
theorem reentry_sites_guarded :
    reentrySites = [
      ("eval", "eval_state", "", ""),
      ("eval_macro", "do_eval",
        "iflet:ctx.push_frame(closure_frame);iflet:ctx.incr_depth(state.ctx.depth() + MACRO_RECURSION_COST)", ""),
      ("eval_state", "do_eval", "", ""),
      ("do_eval", "eval_impl", "", ""),
      ("do_eval", "eval_impl", "", ""),
      ("perform_include", "eval_state", "ok!:state.ctx.incr_depth(INCLUDE_RECURSION_COST)",
        "stmt:state.ctx.decr_depth(INCLUDE_RECURSION_COST)"),
      ("perform_super", "eval_state", "iflet:state.ctx.push_frame(Frame::default())",
        "stmt:state.ctx.pop_frame()"),
      ("call_block", "eval_state", "ok!:state.ctx.push_frame(Frame::default())", "")] ∧
    depthCheckCond = "self.depth() > self.recursion_limit" ∧
    depthCheckError = ("InvalidOperation", "recursion limit exceeded") ∧
    depthExprs = ["self.outer_stack_depth + self.stack.len()", "self.stack.len()"] ∧
    pushFrameChecked = true ∧ incrDepthChecked = true :=
  ⟨rfl, rfl, rfl, rfl, rfl, rfl⟩

/-- the tie for the exit paths of `perform_include`: exits (`ok!`, `return`, `continue`) occur
    only before the depth charge is taken or after it was released — none while it is held —,
    charge and release sit in the same block (the body of the candidate loop, so a candidate that
    does not exist is never released), both with `INCLUDE_RECURSION_COST`, and `decr_depth` is the
    plain checked subtraction (an unbalanced release panics in a debug build instead of being
    absorbed) -/
theorem include_exits_balanced :
    includeExits = [("before", "ok!"), ("before", "return"), ("before", "continue"), ("before", "ok!"),
      ("charge", "ok!"), ("released", "ok!"), ("released", "return")] ∧
    (∀ e ∈ includeExits, e.1 ≠ "held") ∧
    includeChargeScope = (1, 1) ∧
    includeChargeArgs = ("INCLUDE_RECURSION_COST", "INCLUDE_RECURSION_COST") ∧
    decrDepthBody = "self.outer_stack_depth -= delta;" :=
  ⟨rfl, by decide, rfl, rfl, rfl⟩

/-! ## Every re-entry edge of the crate is charged (regenerated call graph) -/

/-- how each function of the regenerated re-entry graph (`MJ.Gen.reentryGraph`: every function of
    the crate from which `eval_impl` is reachable by static calls) takes part in the accounting:
    `native` = the interpreter loop itself, `trampoline` = calls it without touching the depth,
    `charged k` = takes the checked depth charge of a model edge before the nested interpreter
    runs, `root` = starts a fresh render (new `Context`, its own budget), `wrapper` = reaches the
    interpreter only through a charged function or a root and leaves the depth alone -/
inductive SiteClass where
  | native | trampoline | charged (k : Kind) | root | wrapper
  deriving Repr, DecidableEq

def reentryClass : List ((String × String × String) × SiteClass) := [
  (("expression.rs", "Expression", "_eval"), .wrapper),
  (("expression.rs", "Expression", "eval"), .wrapper),
  (("template.rs", "Template", "_capture_state"), .wrapper),
  (("template.rs", "Template", "_capture_state_with_output"), .wrapper),
  (("template.rs", "Template", "_eval"), .wrapper),
  (("template.rs", "Template", "_render"), .wrapper),
  (("template.rs", "Template", "render"), .wrapper),
  (("template.rs", "Template", "render_captured"), .wrapper),
  (("template.rs", "Template", "render_captured_to"), .wrapper),
  (("vm/macro_object.rs", "Macro", "call"), .wrapper),
  (("vm/mod.rs", "", "call_block"), .wrapper),
  (("vm/mod.rs", "", "eval"), .wrapper),
  (("vm/mod.rs", "", "eval_macro"), .wrapper),
  (("vm/mod.rs", "Executor", "call_block"), .charged .blockCall),
  (("vm/mod.rs", "Executor", "do_eval"), .trampoline),
  (("vm/mod.rs", "Executor", "eval"), .root),
  (("vm/mod.rs", "Executor", "eval_impl"), .native),
  (("vm/mod.rs", "Executor", "eval_macro"), .charged .macroCall),
  (("vm/mod.rs", "Executor", "eval_state"), .trampoline),
  (("vm/mod.rs", "Executor", "perform_include"), .charged .includeTpl),
  (("vm/mod.rs", "Executor", "perform_super"), .charged .superCall),
  (("vm/state.rs", "State", "render_block"), .wrapper),
  (("vm/state.rs", "State", "render_block_to_write"), .wrapper)]

def classOf (q : String) : Option SiteClass :=
  (reentryClass.find? (fun e =>
    (if e.1.2.1 = "" then e.1.2.2 else e.1.2.1 ++ "::" ++ e.1.2.2) = q)).map (·.2)

/-- the callees a function of each class may reach the interpreter through -/
def calleeOK (c : SiteClass) (callee : String) : Bool :=
  match c, classOf callee with
  -- the trampolines and the guarded functions call a trampoline or the loop
  | .trampoline, some .trampoline | .trampoline, some .native => true
  | .charged _, some .trampoline => true
  | .root, some .trampoline => true
  -- the loop dispatches to the guarded functions only
  | .native, some (.charged _) => true
  -- a wrapper never reaches the loop or a trampoline directly
  | .wrapper, some (.charged _) | .wrapper, some .root | .wrapper, some .wrapper => true
  | _, _ => false

def chargedCost : String → Option Nat
  | "eval_macro" => some (cost .macroCall)
  | "perform_include" => some (cost .includeTpl)
  | "perform_super" => some (cost .superCall)
  | "call_block" => some (cost .blockCall)
  | _ => none

/-- **every re-entry is charged**: in the regenerated call graph of the crate (1) every function
    from which the interpreter loop is reachable is classified, (2) the loop and its trampolines
    are called only by trampolines, by the four guarded functions and by the root `Executor::eval`
    (fresh context) — so every path into a nested `eval_impl` passes a guarded function —,
    (3) wrappers and trampolines contain no depth operation at all (nothing between the public
    entry points — `State::render_block`, `render_block_to_write`, `Macro::call`, `Template::render*`,
    `Expression::eval` — and the guarded function can lower, reset or replace the depth),
    (4) each guarded function performs its checked charge (`push_frame` / `incr_depth` present in
    its body) and the charge computed from its source expressions with the current constants is the
    cost of the model's edge: 6, 10, 1, 1; only `eval_macro` starts from a fresh context and it
    inherits the caller's depth.  A new function that re-enters without charge, a depth operation
    in a wrapper, or a changed constant changes a table and breaks this theorem. -/
theorem every_reentry_charged :
    reentryGraph.map (fun r => (r.1, r.2.1, r.2.2.1)) = reentryClass.map (·.1) ∧
    (∀ r ∈ reentryGraph, ∀ c, classOf (if r.2.1 = "" then r.2.2.1 else r.2.1 ++ "::" ++ r.2.2.1) = some c →
      r.2.2.2.1.all (calleeOK c) = true) ∧
    (∀ r ∈ reentryGraph, (r.2.1, r.2.2.1) ∉ [("Executor", "eval_impl"), ("Executor", "eval_macro"),
        ("Executor", "perform_include"), ("Executor", "perform_super"), ("Executor", "call_block")] →
      r.2.2.2.2 = "") ∧
    reentryGraph.filterMap (fun r => if r.2.1 = "Executor" ∧ r.2.2.2.2 ≠ "" then some (r.2.2.1, r.2.2.2.2) else none) =
      [("call_block", "push_frame"),
       ("eval_impl", "push_frame,pop_frame,pop_frame"),
       ("eval_macro", "reset_with_frame,push_frame,clear,incr_depth,clear,clear,replace-ctx"),
       ("perform_include", "incr_depth,decr_depth"),
       ("perform_super", "push_frame,pop_frame")] ∧
    reentryChargeCosts = [("eval_macro", 6, true), ("perform_include", 10, false),
      ("perform_super", 1, false), ("call_block", 1, false)] ∧
    (∀ e ∈ reentryChargeCosts, chargedCost e.1 = some e.2.1 ∧ 1 ≤ e.2.1) := by
  refine ⟨by decide, by decide, by decide, by decide, by decide, by decide⟩

/-- non-vacuity: the graph has the five kinds of rows, and an un-charged caller of the loop would be
    rejected -/
example : calleeOK .wrapper "Executor::eval_state" = false ∧ calleeOK .wrapper "Executor::eval_impl" = false ∧
    calleeOK .wrapper "Executor::call_block" = true ∧ reentryGraph.length = 23 := by decide

/-- **callbacks leave the depth alone**: every function of the crate that hands the `State` to a
    callback (filter, test, function, object, method: `Value::call`, `Value::call_method`,
    `State::call_macro`, `State::apply_filter`, `State::perform_test`, the builtin `map` /
    `select` / `reject` filters and the five call instructions of `eval_impl`) contains no depth
    operation — except `eval_impl`, whose `PushWith`/`PopFrame`/`PopLoopFrame` are not around a
    call.  So a recursion that passes through Rust is charged on top of the depth the callback
    found (`rust_callbacks_transparent`). -/
theorem callbacks_depth_neutral :
    callbackSites = [
      ("filters.rs", "", "map", 1, ""),
      ("filters.rs", "", "select_or_reject", 1, ""),
      ("value/mod.rs", "Value", "_call_method", 1, ""),
      ("value/mod.rs", "Value", "call", 1, ""),
      ("value/mod.rs", "Value", "call_method", 1, ""),
      ("vm/mod.rs", "Executor", "eval_impl", 5, "push_frame,pop_frame,pop_frame"),
      ("vm/state.rs", "State", "apply_filter", 1, ""),
      ("vm/state.rs", "State", "call_macro", 1, ""),
      ("vm/state.rs", "State", "perform_test", 1, "")] ∧
    (∀ r ∈ callbackSites, r.2.2.1 ≠ "eval_impl" → r.2.2.2.2 = "") ∧
    contextMutators = ["clear", "current_locals_mut", "decr_depth", "incr_depth", "next_loop_item",
      "pop_frame", "push_frame", "reset_closure", "reset_with_frame", "restore_stack_depth", "store",
      "take_closure"] :=
  ⟨rfl, by decide, rfl⟩

example : callbackSites.length = 9 ∧ contextMutators.length = 12 := by decide

/-- **the depth is adjusted in seven functions only**: every function of the crate that performs a
    depth operation on a context (`push_frame`, `pop_frame`, `incr_depth`, `decr_depth`,
    `reset_with_frame`, `clear`, `restore_stack_depth`, or replaces `state.ctx`), with the operations
    in source order: the four guarded re-entries, the interpreter loop (`PushWith` / `PopFrame` /
    `PopLoopFrame`), `push_loop` (a checked frame per loop, also per level of a recursive loop) and
    `with_execution_state` (truncation to the depth saved at entry = the model's `leave`).  Every
    increase is one of the two checked operations; the only unchecked frame is the base frame of a
    fresh macro context (`reset_with_frame`, counted in the macro's cost). -/
theorem depth_ops_confined :
    depthOpSites = [
      ("vm/mod.rs", "Executor", "call_block", "push_frame"),
      ("vm/mod.rs", "Executor", "eval_impl", "push_frame,pop_frame,pop_frame"),
      ("vm/mod.rs", "Executor", "eval_macro", "reset_with_frame,push_frame,clear,incr_depth,clear,clear,replace-ctx"),
      ("vm/mod.rs", "Executor", "perform_include", "incr_depth,decr_depth"),
      ("vm/mod.rs", "Executor", "perform_super", "push_frame,pop_frame"),
      ("vm/mod.rs", "Executor", "push_loop", "push_frame"),
      ("vm/state.rs", "State", "with_execution_state", "restore_stack_depth")] ∧
    (∀ r ∈ depthOpSites, r.2.1 = "Executor" ∨ r.2.2.1 = "with_execution_state") :=
  ⟨rfl, by decide⟩

example : depthOpSites.length = 7 := by decide

/-- every constructor of `Environment` starts with the maximum as limit -/
theorem env_limit_defaults :
    envLimitDefaults = [("new", "MAX_RECURSION"), ("empty", "MAX_RECURSION")] ∧
    ∀ e ∈ envLimitDefaults, e.2 = "MAX_RECURSION" :=
  ⟨rfl, by decide⟩

example : envLimitDefaults.length = 2 := by decide

/-! ## Rust callbacks on the cycle (mixed traces) -/

/-- **Rust callbacks are transparent for the accounting**: a trace in which callbacks are entered
    and left between the depth events (filter → `State::render_block` → template → filter → …)
    ends exactly like its depth events: same accounting state, same recursion error, no panic —
    so all theorems above hold for mixed cycles: weighted nesting ≤ limit, nesting ≤ limit, and
    the nested re-entry is charged on top of the full depth -/
theorem rust_callbacks_transparent (L : Nat) (evs : List EvH) :
    (runH (initH L) evs = .stuck ∨ (runH (initH L) evs).toOut = run (init L) (erase evs)) ∧
    runH (initH L) evs ≠ .panic ∧
    (∀ s, runH (initH L) evs = .ok s →
      Reach L s.st ∧ wsum s.st.acts ≤ L ∧ nativeDepth s.st ≤ max L 1 ∧
      s.saved.length = s.st.acts.length) := by
  have h0 := runH_erase evs (initH L) (invH_init L)
  refine ⟨h0, ?_, ?_⟩
  · intro hp
    rcases h0 with h | h
    · rw [hp] at h; cases h
    · rw [hp] at h
      exact run_never_panics Reach.init (erase evs) h.symm
  · intro s hs
    obtain ⟨h1, h2⟩ := runH_ok_erase (invH_init L) hs
    have hr : Reach L s.st := reach_run Reach.init h1
    exact ⟨hr, (weighted_nesting hr).2.1, (native_depth_le_limit hr).1, h2⟩

/-- filter → render_block → filter → call_macro at limit 20: the depth events alone decide -/
example : runH (initH 20) [.hop, .ev (.enter .blockCall), .hop, .hop, .ev (.enter .macroCall), .hop,
      .ev (.enter .includeTpl), .hop, .ev (.enter .macroCall)] = .recursionError ∧
    (runH (initH 20) [.hop, .ev (.enter .blockCall), .hop, .unhop, .hop, .hop, .ev (.enter .macroCall)]).toOut =
      run (init 20) [.enter .blockCall, .enter .macroCall] := by decide

/-- a callback between two re-entries changes nothing of what the second one is charged -/
theorem hop_then_enter (s : StH) (k : Kind) :
    (stepH s .hop = .ok { s with cur := s.cur + 1 }) ∧
    (runH s [.hop, .ev (.enter k)]).toOut = step s.st (.enter k) := by
  refine ⟨rfl, ?_⟩
  simp only [runH, stepH]
  cases h : step s.st (.enter k) <;> rfl

example : (runH ⟨⟨30, ⟨10, 2⟩, []⟩, 1, []⟩ [.hop, .ev (.enter .macroCall)]).toOut =
    .ok ⟨30, ⟨16, 2⟩, [⟨.macroCall, ⟨10, 2⟩, 2⟩]⟩ := by decide

/-- the callback frames on the native stack: at most `H` per activation when no activation nests
    more than `H` callbacks before template code runs again -/
theorem hop_frames_bounded (H L : Nat) (evs : List EvH) (s : StH)
    (hw : hopsWithin H (initH L) evs) (hr : runH (initH L) evs = .ok s) :
    totalHops s ≤ H * nativeDepth s.st ∧ totalHops s ≤ H * max L 1 := by
  have hi := runH_hopInv (hopInv_init H L) hw hr
  have h1 := totalHops_le hi
  obtain ⟨_, _, hn, hlen⟩ := (rust_callbacks_transparent L evs).2.2 s hr
  rw [hlen] at h1
  refine ⟨h1, ?_⟩
  have : H * nativeDepth s.st ≤ H * max L 1 := Nat.mul_le_mul_left H hn
  exact Nat.le_trans h1 this

example : ∃ s, runH (initH 500) [.hop, .hop, .ev (.enter .blockCall), .hop, .ev (.enter .macroCall), .hop] = .ok s ∧
    hopsWithin 2 (initH 500) [.hop, .hop, .ev (.enter .blockCall), .hop, .ev (.enter .macroCall), .hop] ∧
    totalHops s = 4 ∧ nativeDepth s.st = 3 :=
  ⟨_, rfl, (hopsWithinB_iff 2 _ _).1 (by decide), by decide, by decide⟩

/-! ## The stack budget with the measured bytes as checked inputs -/

/-- **the stack budget holds**: if the decidable check `budgetOK` — entry overhead + `MAX_RECURSION`
    × the largest measured bytes-per-depth-unit among the kinds `P` (a re-entry counted with the `H`
    callback frames of `hopBytes` that can sit below it) `<` the stack size — evaluates to `true` on
    the measured values
    (the driver evaluates this very function on every run's measurements, for every build profile
    and both stack sizes, with `P` = the edge kinds that are not known findings), then no mixture
    of re-entries of kinds `P` with at most `H` Rust callbacks nested per activation, at any limit
    up to the default, needs as much native stack as there is. -/
theorem stack_budget_holds (stack root hopBytes H : Nat) (bytes : Kind → Nat) (P : Kind → Bool)
    (hb : budgetOK stack root hopBytes H bytes P = true) :
    ∀ L, L ≤ maxRecursionEnv → ∀ (evs : List EvH) (s : StH),
      runH (initH L) evs = .ok s → hopsWithin H (initH L) evs →
      (∀ a ∈ s.st.acts, P a.kind = true) →
      root + stackBytesH bytes hopBytes s < stack := by
  intro L hL evs s hr hw hP
  have hb' : projected root hopBytes H bytes P < stack := by
    simpa [budgetOK] using hb
  obtain ⟨hreach, hws, _, hlen⟩ := (rust_callbacks_transparent L evs).2.2 s hr
  have h1 := stack_le_weighted (fun k => P k = true) (withHops hopBytes H bytes)
    (rho (withHops hopBytes H bytes) P) (fun k hk => bytes_le_rho _ P k hk) s.st.acts hP
  have h2 : rho (withHops hopBytes H bytes) P * wsum s.st.acts ≤
      rho (withHops hopBytes H bytes) P * maxRecursionEnv := Nat.mul_le_mul_left _ (by omega)
  have hi := runH_hopInv (hopInv_init H L) hw hr
  have h3 := savedHops_le hi
  rw [hlen] at h3
  have h4 := stackBytes_withHops hopBytes H bytes s.st.acts
  have h5 : hopBytes * totalHops s ≤ hopBytes * (H * s.st.acts.length + H) :=
    Nat.mul_le_mul_left _ h3
  rw [Nat.mul_add, ← Nat.mul_assoc] at h5
  simp only [stackBytesH]
  simp only [projected] at hb'
  omega

/-- a filter → `State::call_macro` → macro → filter → … → include cycle -/
def exampleMixedTrace : List EvH :=
  [.hop, .ev (.enter .macroCall), .hop, .ev (.enter .macroCall), .hop, .ev (.enter .includeTpl), .hop]

/-- an instance: release profile, macro / caller / include re-entries with one callback frame of
    600 bytes below each, at the default limit: below 2 MiB -/
example : ∃ s, runH (initH 500) exampleMixedTrace = .ok s ∧
    5100 + stackBytesH measuredRelease 600 s < 2097152 :=
  ⟨_, rfl, stack_budget_holds 2097152 5100 600 1 measuredRelease
    (fun k => k != .blockCall && k != .superCall) (by decide) 500 (by decide) exampleMixedTrace _ rfl
    ((hopsWithinB_iff 1 _ _).1 (by decide)) (by decide)⟩

/-- the same without callbacks, over the reachable states of the accounting model -/
theorem stack_budget_holds_plain (stack root : Nat) (bytes : Kind → Nat) (P : Kind → Bool)
    (hb : budgetOK stack root 0 0 bytes P = true) :
    ∀ L, L ≤ maxRecursionEnv → ∀ s, Reach L s → (∀ a ∈ s.acts, P a.kind = true) →
      root + stackBytes bytes s.acts < stack := by
  intro L hL s hs hP
  have hb' : projected root 0 0 bytes P < stack := by simpa [budgetOK] using hb
  have hw0 : withHops 0 0 bytes = bytes := by funext k; simp [withHops]
  have h1 := stack_le_weighted (fun k => P k = true) bytes (rho bytes P)
    (fun k hk => bytes_le_rho bytes P k hk) s.acts hP
  have h2 : rho bytes P * wsum s.acts ≤ rho bytes P * maxRecursionEnv :=
    Nat.mul_le_mul_left _ (by have := (weighted_nesting hs).2.1; omega)
  simp only [projected, hw0] at hb'
  omega

/-- the snapshots: release fits 2 MiB for every kind, also with one callback frame of 600 bytes
    per activation for everything but block calls; the unoptimised debug build fits 2 MiB without
    block calls / `super()` and 8 MiB with them; with them it does not fit 2 MiB (known finding) -/
example : budgetOK 2097152 5100 0 0 measuredRelease (fun _ => true) = true ∧
    budgetOK 2097152 5100 600 1 measuredRelease (fun k => k != .blockCall && k != .superCall) = true ∧
    budgetOK 2097152 15300 0 0 measuredDebugO0 (fun k => k != .blockCall && k != .superCall) = true ∧
    budgetOK 8388608 15300 0 0 measuredDebugO0 (fun _ => true) = true ∧
    budgetOK 2097152 15300 0 0 measuredDebugO0 (fun _ => true) = false := by decide

/-- **the frame-size relevant declarations of `eval_impl` are tied**: its parameters, the locals
    declared before the interpreter loop, the fixed-size arrays among them with their lengths
    (`MAX_LOCALS` each), and the inline attributes of vm/mod.rs are the regenerated ones; the arrays
    alone (8 bytes per element) take `2 × MAX_LOCALS × 8` bytes of every native re-entry, and at
    the maximum nesting (`MAX_RECURSION` re-entries charged one unit each) that is within a quarter
    of the smallest supported stack.  A longer or additional array, a new local or a changed
    inline attribute changes a table; `frameLowerOK` (evaluated on the measurements of every run)
    checks that no measured frame is smaller than its arrays. -/
theorem frame_constants_tied :
    evalImplParams = ["state: &mut State<'_", "'env>", "out: &mut Output", "mut stack: Stack", "mut pc: u32"] ∧
    evalImplLocals = ["initial_auto_escape", "undefined_behavior", "strict_undefined", "auto_escape_stack",
      "next_loop_recursion_jump", "loop_recursion_bases", "loaded_filters", "loaded_tests",
      "parent_instructions"] ∧
    evalImplArrays = [("loaded_filters", "None", maxLocals), ("loaded_tests", "None", maxLocals)] ∧
    evalImplArrayBytes = 2 * maxLocals * 8 ∧
    vmInlineAttrs = [("eval_state", "inline(always)"), ("eval_impl", "inline"), ("process_err", "inline(never)")] ∧
    maxRecursionEnv * evalImplArrayBytes ≤ 2097152 / 4 ∧
    (∀ bytes : Kind → Nat, frameLowerOK bytes = true → ∀ k, evalImplArrayBytes ≤ bytes k) := by
  refine ⟨rfl, rfl, rfl, rfl, rfl, by decide, ?_⟩
  intro bytes h k
  simp only [frameLowerOK, allKinds, List.all_cons, List.all_nil, Bool.and_true, Bool.and_eq_true,
    decide_eq_true_eq] at h
  obtain ⟨h1, h2, h3, h4, h5⟩ := h
  cases k <;> assumption

example : frameLowerOK measuredRelease = true ∧ frameLowerOK (fun _ => 700) = false := by decide

/-- the charge of an include does not depend on how many candidates of a list were tried before the
    template that is found, nor on `ignore missing` -/
theorem include_candidates_charged_once (s : St) (n : Nat) (evs : List Ev) :
    run s (List.replicate n .missingInclude ++ .enter .includeTpl :: evs) =
      run s (.enter .includeTpl :: evs) := by
  induction n with
  | zero => rfl
  | succ n ih =>
    rw [List.replicate_succ, List.cons_append, (missing_include_depth_neutral s).2]
    exact ih

example : run (init 25) [.missingInclude, .enter .includeTpl, .missingInclude, .missingInclude,
    .enter .includeTpl, .missingInclude, .enter .includeTpl] = .recursionError := by decide

/-! ## Session 4: the charge of an edge depends on nothing but the edge -/

/-- **the charge of every edge is independent of the output state, the auto-escape setting, the
    undefined behaviour, the capture depth and the fuel.**  `enterA amb` is the re-entry computed
    from the REGENERATED cost expressions (`MJ.Gen.costSites`: the arguments of every `push_frame` /
    `incr_depth` / `decr_depth` call of the crate outside `Context`, term by term) evaluated in an
    ambient state `amb`; a term that is not a constant, a frame or the caller's depth reads its
    value from `amb`.  (1) every term of the table is closed, (2) therefore `enterA` is the same in
    any two ambient states, for every accounting state and every kind — proved from (1) alone,
    whatever the constants are —, (3) with the current constants `enterA` IS the model's `enter`,
    so every theorem above is a theorem about the charges the source expressions compute, (4) what
    a completed include releases is what it charged.  A cost expression that mentions anything else
    (`if out.is_discarding() { 1 } else { COST }`, a weight computed from the arguments, …) makes a
    term `opaque` and breaks (1). -/
theorem edge_cost_state_independent :
    (∀ r ∈ costSites, ∀ t ∈ r.2.2.2.2.1, termClosed t = true) ∧
    (∀ (amb amb' : Amb) (s : St) (k : Kind), enterA amb s k = enterA amb' s k) ∧
    (∀ (amb : Amb) (s : St) (k : Kind), enterA amb s k = step s (.enter k)) ∧
    termsOf "perform_include" "decr_depth" = termsOf "perform_include" "incr_depth" :=
  ⟨costSites_closed, enterA_indep_of_closed costSites_closed, enterA_eq_enter,
    termsOf_include_decr.trans termsOf_include_incr.symm⟩

/-- non-vacuity: an opaque term WOULD make the charge depend on the ambient state -/
example : ∃ amb amb' : Amb, evalTerms amb 7 [("opaque", "weight", 0)] ≠ evalTerms amb' 7 [("opaque", "weight", 0)] :=
  ⟨⟨false, 0, 0, 0, none, fun _ => 0⟩, ⟨true, 1, 1, 3, some 5, fun _ => 4⟩, by decide⟩

example : enterA ⟨true, 3, 1, 3, some 0, fun _ => 99⟩ ⟨500, ⟨20, 3⟩, []⟩ .includeTpl =
    .ok ⟨500, ⟨20 + includeRecursionCost, 3⟩, [⟨.includeTpl, ⟨20, 3⟩, 3⟩]⟩ := by decide

/-- **no charge sits under a condition on the ambient state**: the regenerated table of the
    conditions (`if` / `match` headers and match arms; loops and closures are listed so that moving
    a call changes the table) that enclose each depth operation inside its function is the expected
    one, and none of the identifiers of those conditions is a name under which the code reads the
    output, the auto-escape setting, the undefined behaviour or the fuel.  The charges of
    `eval_macro`, `perform_include`, `perform_super` and `push_loop` are unconditional; the frame of
    `call_block` is pushed for every block that exists; `PushWith` is one arm of the instruction
    dispatch. -/
theorem cost_sites_unconditional :
    costSites.map (fun r => (r.2.2.1, r.2.2.2.1, r.2.2.2.2.2.1)) = [
      ("eval_macro", "push_frame", []),
      ("eval_macro", "incr_depth", []),
      ("eval_impl", "push_frame", ["loop:loop", "match instr", "arm:Instruction::PushWith"]),
      ("perform_include", "incr_depth", ["loop:for choice in choices"]),
      ("perform_include", "decr_depth", ["loop:for choice in choices"]),
      ("perform_super", "push_frame", []),
      ("call_block", "push_frame", ["if let Some((name, block_stack)) = state.blocks.get_key_value(name)", "closure"]),
      ("push_loop", "push_frame", [])] ∧
    (∀ r ∈ costSites, ∀ g ∈ r.2.2.2.2.2.2, g ∉ ambientNames) := by
  refine ⟨by decide, by decide⟩

example : costSites.length = 8 ∧ "out" ∈ ambientNames ∧ "fuel_tracker" ∈ ambientNames := by decide

/-! ## Session 4: the empty state (`Template::new_state` + `State::render_block` / `call_macro`) -/

/-- states reachable from the empty state (`Context::new`: no frame; no root activation) -/
inductive ReachE (L : Nat) : St → Prop where
  | init : ReachE L (initEmpty L)
  | step {s s' : St} {e : Ev} : ReachE L s → step s e = .ok s' → ReachE L s'

theorem reachE_inv {L : Nat} {s : St} (h : ReachE L s) : Inv0 s ∧ s.limit = L := by
  induction h with
  | init => exact ⟨inv0_initEmpty L, rfl⟩
  | step _ hs ih =>
    obtain ⟨h1, h2⟩ := inv0_step ih.1 hs
    exact ⟨h1, h2.trans ih.2⟩

/-- **a block or macro entered from Rust on an empty state is accounted like any other**: from
    `Template::new_state()` (a context without a frame, no root activation) every re-entry is
    charged its full cost from depth 0: the weighted nesting and the number of native activations
    stay within the limit itself (no root activation to add), returning restores the caller's
    context, nothing panics, and a run with at least `L + 1` pending re-entries cannot complete;
    entering costs exactly what it costs in a render (`enter` is the same function).  Compared with a
    render of the same program every depth is one less: the limit admits one more unit. -/
theorem empty_state_accounting (L : Nat) (evs : List Ev) :
    run (initEmpty L) evs ≠ .panic ∧
    (∀ s, run (initEmpty L) evs = .ok s →
      ReachE L s ∧ wsum s.acts ≤ s.cur.depth ∧ wsum s.acts ≤ L ∧ s.acts.length ≤ L) ∧
    (∀ s a rest, ReachE L s → s.acts = a :: rest → step s .leave = .ok { s with cur := a.old, acts := rest }) := by
  have hrun : ∀ (evs : List Ev) {s s' : St}, ReachE L s → run s evs = .ok s' → ReachE L s' := by
    intro evs
    induction evs with
    | nil => intro s s' h hr; simp only [run] at hr; injection hr with hr; subst hr; exact h
    | cons e es ih =>
      intro s s' h hr
      simp only [run] at hr
      cases hs : MJ.Depth.step s e with
      | ok s1 => rw [hs] at hr; exact ih (ReachE.step h hs) hr
      | recursionError => rw [hs] at hr; cases hr
      | panic => rw [hs] at hr; cases hr
      | stuck => rw [hs] at hr; cases hr
  refine ⟨(run_inv0 evs (inv0_initEmpty L)).1, ?_, ?_⟩
  · intro s hr
    have hre := hrun evs ReachE.init hr
    obtain ⟨⟨hc, hd⟩, hl⟩ := reachE_inv hre
    have hw := wsum_le_depth0 hc
    have hlen := length_le_wsum s.acts
    rw [hl] at hd
    exact ⟨hre, hw, by omega, by omega⟩
  · intro s a rest hs ha
    exact leave_restores0 (reachE_inv hs).1 ha

/-- `State::render_block` on an empty state at limit 3: three nested blocks fit (a render admits two) -/
example : (∃ s, run (initEmpty 3) [.enter .blockCall, .enter .blockCall, .enter .blockCall] = .ok s) ∧
    run (initEmpty 3) (List.replicate 4 (.enter .blockCall)) = .recursionError ∧
    run (init 3) (List.replicate 3 (.enter .blockCall)) = .recursionError := by
  refine ⟨⟨_, rfl⟩, by decide, by decide⟩

/-! ## Session 4: renders started by Rust callbacks inside a render -/

/-- **a render started from inside a render has a budget of its own, and the total is the product**:
    a Rust callback that calls `Template::render` (`Expression::eval`, `render_str`, …) creates a new
    root: (1) its context starts at depth 1 whatever the depth of the render below it, with the
    limit of the environment it renders with; (2) in every state a nest of renders reaches, each
    render on the native stack satisfies the accounting invariant of a single render, so with `R`
    renders on the stack and every limit `≤ M`: weighted nesting `≤ R × M`, native activations
    `≤ R × max M 1`, and for frame sizes with at most `ρ` bytes per depth unit the activations need
    at most `ρ × R × M` bytes; (3) nothing panics.  The library bounds each factor `M`, not the number
    `R` of renders the embedder's callbacks nest: with `R` unbounded the native stack is unbounded
    (outside the property: its recursions are the template-level ones). -/
theorem nested_renders_bounded (L M : Nat) (hL : L ≤ M) (evs : List EvN) (hf : freshLE M evs) :
    (∀ n l, stepN n (.fresh l) = .stuck ∨ stepN n (.fresh l) = .ok (init l :: n)) ∧
    runN [init L] evs ≠ .panic ∧
    ∀ n, runN [init L] evs = .ok n →
      wsumN n ≤ n.length * M ∧ nativeDepthN n ≤ n.length * max M 1 ∧
      ∀ (bytes : Kind → Nat) (ρ : Nat), (∀ k, bytes k ≤ ρ * cost k) →
        stackBytesN bytes n ≤ ρ * (n.length * M) := by
  have hi0 : NestInv [init L] := by
    intro s hs
    simp only [List.mem_cons, List.not_mem_nil, or_false] at hs
    subst hs
    exact inv_init L
  have hl0 : limitsLE M [init L] := by
    intro s hs
    simp only [List.mem_cons, List.not_mem_nil, or_false] at hs
    subst hs
    exact hL
  obtain ⟨hp, hok⟩ := runN_inv evs hi0 hl0 hf
  refine ⟨?_, hp, ?_⟩
  · intro n l
    cases n with
    | nil => exact Or.inl rfl
    | cons s rest => exact Or.inr rfl
  · intro n hr
    obtain ⟨hi, hl⟩ := hok n hr
    obtain ⟨h1, h2⟩ := wsumN_le n hi hl
    refine ⟨h1, h2, ?_⟩
    intro bytes ρ hρ
    exact Nat.le_trans (stackBytesN_le bytes ρ hρ n) (Nat.mul_le_mul_left ρ h1)

/-- a macro recursion near the limit, a callback that renders another template at limit 10, a
    block cycle there: the inner render is cut at ITS limit, counted from depth 1 -/
example : runN [init 500] ((List.replicate 80 (.ev (.enter .macroCall))) ++ [.fresh 10] ++
      List.replicate 9 (.ev (.enter .blockCall))) ≠ .recursionError ∧
    runN [init 500] ((List.replicate 80 (.ev (.enter .macroCall))) ++ [.fresh 10] ++
      List.replicate 10 (.ev (.enter .blockCall))) = .recursionError := by
  constructor <;> decide +kernel

/-! ## Session 4: the `stacker` configuration -/

/-- **the `stacker` feature as a configuration**: without it `set_recursion_limit` clamps to
    `MAX_RECURSION`; with it the configured limit is taken as it is (regenerated expression
    `level`) and the ACCOUNTING is unchanged — every theorem about `Reach L` holds for every `L` —,
    while the stack is no longer one block: `do_eval` enters the interpreter loop through
    `stacker::maybe_grow(red zone, segment)` (regenerated: 32 KiB, 1 MiB, one site, around
    `eval_impl`).  If `stackerOK` holds for the measured bytes — an activation with its `H`
    callback frames and the deepest leaf call fits the red zone — then at the entry of EVERY
    activation at least that much stack is free, at any nesting depth: no overflow at any limit. -/
theorem stacker_configuration :
    stackerLimitExpr = "level" ∧ stackerGrowCallee = "eval_impl" ∧ stackerGrowSites = 1 ∧
    (∀ level, setRecursionLimitCfg true level = level) ∧
    (∀ level, setRecursionLimitCfg false level = min level maxRecursionEnv) ∧
    (∀ level s, Reach (setRecursionLimitCfg true level) s → wsum s.acts ≤ level ∧ nativeDepth s ≤ max level 1) ∧
    (∀ (hopBytes H leaf : Nat) (bytes : Kind → Nat), stackerOK hopBytes H leaf bytes = true →
      ∀ free k, bytes k + hopBytes * H + leaf ≤ stackerFreeAtEntry free) := by
  have hcfg : ∀ level, setRecursionLimitCfg true level = level := by
    intro level; simp [setRecursionLimitCfg, show stackerLimitExpr = "level" from rfl]
  refine ⟨rfl, rfl, rfl, hcfg, ?_, ?_, ?_⟩
  · intro level
    simp [setRecursionLimitCfg, (limit_clamped level).1]
  · intro level s hs
    rw [hcfg] at hs
    exact ⟨(weighted_nesting hs).2.1, (native_depth_le_limit hs).1⟩
  · intro hopBytes H leaf bytes hok free k
    simp only [stackerOK, allKinds, List.all_cons, List.all_nil, Bool.and_true, Bool.and_eq_true,
      decide_eq_true_eq] at hok
    obtain ⟨⟨h1, h2, h3, h4, h5⟩, hseg⟩ := hok
    have hk : bytes k + hopBytes * H + leaf ≤ stackerRedZone := by cases k <;> assumption
    unfold stackerFreeAtEntry
    split <;> omega

/-- the measured unoptimised debug frames (16.5 KB) with two callback frames of 1.5 KB and 8 KB of
    leaf calls fit the red zone; a 40 KB frame would not -/
example : stackerOK 1500 2 8000 measuredDebugO0 = true ∧ stackerOK 0 0 0 (fun _ => 40000) = false ∧
    setRecursionLimitCfg true 100000 = 100000 ∧ setRecursionLimitCfg false 100000 = 500 := by decide

/-! ## Session 4: the deepest leaf call on top of the innermost activation -/

/-- **the stack budget with leaf calls**: `budgetLeafOK` is `budgetOK` with `leaf` more bytes — the
    deepest call the innermost activation makes that is not a re-entry (a builtin filter / test /
    function, the formatting of a value, the construction of the error at the cut-off; measured
    every run as the largest excursion below the interpreter of any filter / test / function of the
    environment applied to a probing object).  If it holds, no mixture of re-entries of kinds `P`
    with at most `H` callbacks per activation and one leaf call at the bottom overflows. -/
theorem stack_budget_holds_leaf (stack root hopBytes H leaf : Nat) (bytes : Kind → Nat) (P : Kind → Bool)
    (hb : budgetLeafOK stack root hopBytes H leaf bytes P = true) :
    ∀ L, L ≤ maxRecursionEnv → ∀ (evs : List EvH) (s : StH),
      runH (initH L) evs = .ok s → hopsWithin H (initH L) evs →
      (∀ a ∈ s.st.acts, P a.kind = true) →
      root + stackBytesH bytes hopBytes s + leaf < stack := by
  intro L hL evs s hr hw hP
  have hb' : projected root hopBytes H bytes P + leaf < stack := by simpa [budgetLeafOK] using hb
  have hb2 : budgetOK (stack - leaf) root hopBytes H bytes P = true := by
    simp only [budgetOK, decide_eq_true_eq]; omega
  have := stack_budget_holds (stack - leaf) root hopBytes H bytes P hb2 L hL evs s hr hw hP
  omega

example : budgetLeafOK 2097152 5100 600 1 20000 measuredRelease (fun k => k != .blockCall && k != .superCall) = true ∧
    budgetLeafOK 2097152 5100 0 0 40000 measuredRelease (fun _ => true) = false := by decide

/-! ## The property at full strength and what is proved of it -/

/-- what the model cannot exhibit: the native stack a thread has and the bytes its frames take -/
structure Measured where
  /-- bytes of native stack of the thread (2 MiB, 8 MiB) -/
  stack : Nat
  /-- bytes used before the first interpreter activation -/
  root : Nat
  /-- bytes of one native re-entry of each kind -/
  bytes : Kind → Nat
  /-- bytes of one Rust callback frame between two re-entries, and how many nest per activation -/
  hopBytes : Nat
  H : Nat
  /-- bytes of the deepest leaf call -/
  leaf : Nat

/-- **C11 as stated**: for every recursion limit from 1 up to the default and every program —
    every trace of macro / caller / include / import / block / `super()` re-entries, `with` / `for` /
    recursive-loop frames, includes that find nothing and Rust callbacks in between (cycles of any
    length, any mixture, any work on each frame) —
    (1) the run never panics in the bookkeeping,
    (2) whenever it is running, the native stack in use is strictly less than the thread has,
    (3) a recursion that goes on (at least `limit` re-entries pending) does not complete: it ends with
        "recursion limit exceeded", at the first re-entry whose charge does not fit,
    (4) and the limit that is configured is never above the maximum. -/
def C11_statement (m : Measured) : Prop :=
  ∀ level L, L = setRecursionLimit level → ∀ evs : List EvH,
    runH (initH L) evs ≠ .panic ∧
    (∀ s, runH (initH L) evs = .ok s → hopsWithin m.H (initH L) evs →
      m.root + stackBytesH m.bytes m.hopBytes s + m.leaf < m.stack) ∧
    (max L 1 ≤ pending (erase evs) 0 →
      runH (initH L) evs = .recursionError ∨ runH (initH L) evs = .stuck) ∧
    L ≤ maxRecursionEnv

/-- **main theorem**: the property as stated, with everything that is not proved as a named
    hypothesis.
    * `h_budget` — the decidable stack budget on the measured bytes (`budgetLeafOK`).  VALIDATED
      every run: the driver evaluates this function on the two-limit measurements of every build
      profile and stack size; it is FALSE for block calls / `super()` in the profiles of the known
      findings (`C11_counterexample`), which is why the kinds are restricted by `P`.
    * `h_kinds` — the program re-enters only through kinds in `P` (all kinds where the budget holds).
    Discharged by other audited theorems, not hypotheses here: the costs are the regenerated ones
    and state independent (`edge_cost_state_independent`, `cost_sites_unconditional`), every
    re-entry of the crate is one of the modelled kinds (`every_reentry_charged`,
    `reentry_sites_guarded`, `context_sites_classified`), callbacks cannot touch the depth
    (`callbacks_depth_neutral`, `depth_ops_confined`), the limit is clamped (`limit_clamped`,
    `env_limit_defaults`).  Outside Lean (validated differentially on every run): that the trace of
    depth events of a real run is the trace the model assigns to the program. -/
theorem C11_main (m : Measured) (P : Kind → Bool)
    (h_budget : budgetLeafOK m.stack m.root m.hopBytes m.H m.leaf m.bytes P = true)
    (h_kinds : ∀ L (evs : List EvH) (s : StH), runH (initH L) evs = .ok s → ∀ a ∈ s.st.acts, P a.kind = true) :
    C11_statement m := by
  intro level L hL evs
  have hle : L ≤ maxRecursionEnv := by rw [hL]; exact (limit_clamped level).2.1
  obtain ⟨h0, hnp, _⟩ := rust_callbacks_transparent L evs
  refine ⟨hnp, ?_, ?_, hle⟩
  · intro s hr hw
    exact stack_budget_holds_leaf m.stack m.root m.hopBytes m.H m.leaf m.bytes P h_budget L hle evs s hr hw
      (h_kinds L evs s hr)
  · intro hp
    rcases h0 with h | h
    · exact Or.inr h
    · rcases unbounded_recursion_errors L (erase evs) hp with h2 | h2
      · rw [h2] at h
        cases hr : runH (initH L) evs <;> rw [hr] at h <;> simp [OutH.toOut] at h
        exact Or.inl rfl
      · rw [h2] at h
        cases hr : runH (initH L) evs <;> rw [hr] at h <;> simp [OutH.toOut] at h
        exact Or.inr rfl

/-- the release profile with every kind but block calls under callbacks satisfies `h_budget` -/
example : budgetLeafOK 2097152 5100 600 1 20000 measuredRelease (fun k => k != .blockCall && k != .superCall) = true := by
  decide

/-- the accounting half of the statement needs no hypothesis at all -/
theorem C11_main_accounting (level : Nat) (evs : List EvH) :
    runH (initH (setRecursionLimit level)) evs ≠ .panic ∧
    (max (setRecursionLimit level) 1 ≤ pending (erase evs) 0 →
      runH (initH (setRecursionLimit level)) evs = .recursionError ∨
      runH (initH (setRecursionLimit level)) evs = .stuck) ∧
    setRecursionLimit level ≤ maxRecursionEnv := by
  obtain ⟨h0, hnp, _⟩ := rust_callbacks_transparent (setRecursionLimit level) evs
  refine ⟨hnp, ?_, (limit_clamped level).2.1⟩
  intro hp
  rcases h0 with h | h
  · exact Or.inr h
  · rcases unbounded_recursion_errors _ (erase evs) hp with h2 | h2
    · rw [h2] at h
      cases hr : runH (initH (setRecursionLimit level)) evs <;> rw [hr] at h <;> simp [OutH.toOut] at h
      exact Or.inl rfl
    · rw [h2] at h
      cases hr : runH (initH (setRecursionLimit level)) evs <;> rw [hr] at h <;> simp [OutH.toOut] at h
      exact Or.inr rfl

example : runH (initH (setRecursionLimit 100000)) (List.replicate 500 (.ev (.enter .blockCall))) = .recursionError := by
  decide +kernel

end MJ.C11
