import MJ.Model.BlocksSpec
/-!
# Simulation lemmas: the block-stack driver against the substitution spec (core fragment)
-/
set_option linter.unusedSimpArgs false
namespace MJ.Blocks

instance instDecEqExcept {ε α : Type} [DecidableEq ε] [DecidableEq α] : DecidableEq (Except ε α) :=
  fun a b =>
    match a, b with
    | .ok x, .ok y => if h : x = y then isTrue (by rw [h]) else isFalse (by intro e; cases e; exact h rfl)
    | .error x, .error y => if h : x = y then isTrue (by rw [h]) else isFalse (by intro e; cases e; exact h rfl)
    | .ok _, .error _ => isFalse (by intro e; cases e)
    | .error _, .ok _ => isFalse (by intro e; cases e)

def lift2 (r : Except Err (List String)) (st : St) : Res :=
  match r with | .ok o => .ok (o, st) | .error e => .error e

/-- output of the spec for a prefix, followed by the driver on the remaining items -/
def thenSteps (r : Except Err (List String))
    (k : Except Err (List String × St × Option (List Item))) :
    Except Err (List String × St × Option (List Item)) :=
  match r with
  | .error e => .error e
  | .ok o =>
    match k with
    | .error e => .error e
    | .ok (o', st', p) => .ok (o ++ o', st', p)

/-- the block stacks hold exactly the definitions `D`, the definition being rendered is level
    `k` of block `cur`, and every block that may still be entered has its cursor at 0 -/
structure Good (D : Nat → List (List Item)) (cur : Option Nat) (k : Nat) (st : St) : Prop where
  blocks : st.blocks = D
  level : ∀ n, cur = some n → st.depth n = k ∧ k < (D n).length
  above : ∀ m, (∀ n, cur = some n → n < m) → st.depth m = 0

def WF (D : Nat → List (List Item)) : Prop :=
  ∀ (n k : Nat) (body : List Item), (D n)[k]? = some body → bodyOK n body = true

def okFor (cur : Option Nat) : Item → Bool
  | .text _ | .super | .extends false _ => true
  | .callBlock m => match cur with
    | some n => decide (n < m)
    | none => true
  | _ => false

theorem take_append_one {α : Type} (l : List α) (x : α) : (l ++ [x]).take l.length = l := by
  simp

/-- `call_block` in a `Good` state: a block that may be entered has its cursor at 0, so the
    *most-derived* definition is rendered, and the state is unchanged afterwards -/
theorem callBlock_good (env : Env) (ctx : Frame) (D : Nat → List (List Item)) (f : Nat)
    (hP : ∀ n k body st, (D n)[k]? = some body → Good D (some n) k st →
      evalImpl env ctx f (some n) false body st = lift2 (specBody D f n k) st)
    (cur : Option Nat) (k m : Nat) (st : St) (hg : Good D cur k st)
    (hm : ∀ n, cur = some n → n < m) :
    callBlock (evalImpl env ctx f) false m st =
      if (D m).isEmpty then .error [.unknownBlock] else lift2 (specBody D f m 0) st := by
  have hd0 : st.depth m = 0 := hg.above m hm
  unfold callBlock
  rw [show st.blocks m = D m from by rw [hg.blocks]]
  cases hDm : D m with
  | nil => simp
  | cons b bs =>
    simp only [hd0, List.getElem?_cons_zero, List.isEmpty_cons, Bool.false_eq_true, if_false]
    have hb : (D m)[0]? = some b := by rw [hDm]; rfl
    have hg' : Good D (some m) 0 { st with frames := st.frames ++ [[]] } := by
      refine ⟨hg.blocks, ?_, ?_⟩
      · intro n hn; cases hn; exact ⟨hd0, by rw [hDm]; simp⟩
      · intro m' hm'
        apply hg.above
        intro n hn
        exact Nat.lt_trans (hm n hn) (hm' m rfl)
    rw [hP m 0 b _ hb hg']
    cases specBody D f m 0 with
    | error e => simp [lift2]
    | ok o => simp only [lift2, take_append_one]

/-- `perform_super` in a `Good` state at level `k` of block `n`: renders level `k + 1` (errors
    wrapped in `EvalBlock`) and puts the cursor back; no level `k + 1` is an error -/
theorem performSuper_good (env : Env) (ctx : Frame) (D : Nat → List (List Item)) (f : Nat)
    (hP : ∀ n k body st, (D n)[k]? = some body → Good D (some n) k st →
      evalImpl env ctx f (some n) false body st = lift2 (specBody D f n k) st)
    (n k : Nat) (st : St) (hg : Good D (some n) k st) :
    performSuper (evalImpl env ctx f) (some n) false st =
      if k + 1 < (D n).length then lift2 (liftErr .evalBlock (specBody D f n (k + 1))) st
      else .error [.invalidOperation] := by
  unfold performSuper
  obtain ⟨hdn, hk⟩ := hg.level n rfl
  simp only []
  rw [show st.blocks n = D n from by rw [hg.blocks], hdn]
  by_cases hlt : k + 1 < (D n).length
  · simp only [hlt, if_true]
    obtain ⟨body, hbody⟩ : ∃ body, (D n)[k + 1]? = some body := ⟨(D n)[k + 1], by simp [hlt]⟩
    simp only [hbody]
    have hg' : Good D (some n) (k + 1)
        { st with depth := setAt st.depth n (k + 1), frames := st.frames ++ [[]] } := by
      refine ⟨hg.blocks, ?_, ?_⟩
      · intro n' hn'; cases hn'; exact ⟨by simp [setAt], hlt⟩
      · intro m hm'
        have : n < m := hm' n rfl
        have hne : m ≠ n := by omega
        simp only [setAt, hne, if_false]
        exact hg.above m (by intro n' hn'; cases hn'; exact this)
    rw [hP n (k + 1) body _ hbody hg']
    cases specBody D f n (k + 1) with
    | error e => simp [lift2, liftErr]
    | ok o =>
      have hset : setAt (setAt st.depth n (k + 1)) n (setAt st.depth n (k + 1) n - 1) = st.depth := by
        funext m; unfold setAt; by_cases h : m = n
        · subst h; simp [hdn]
        · simp [h]
      simp only [lift2, liftErr, take_append_one, hset]
  · simp [hlt]

/-- core items in front of arbitrary further items: the driver emits what the spec says for the
    prefix and continues in the *same* state (block stacks, cursors, loaded set, frames) -/
theorem sim_prefix (env : Env) (ctx : Frame) (D : Nat → List (List Item)) (f : Nat)
    (hP : ∀ n k body st, (D n)[k]? = some body → Good D (some n) k st →
      evalImpl env ctx f (some n) false body st = lift2 (specBody D f n k) st)
    (cur : Option Nat) (k : Nat) (items : List Item) (hit : items.all (okFor cur) = true)
    (ys : List Item) (st : St) (hg : Good D cur k st) :
    stepItems ⟨env, ctx, cur, false⟩ (evalImpl env ctx f) none (items ++ ys) st
      = thenSteps (specItems D (specBody D f) (cur.map (fun n => (n, k))) items)
          (stepItems ⟨env, ctx, cur, false⟩ (evalImpl env ctx f) none ys st) := by
  induction items with
  | nil =>
    simp only [List.nil_append, specItems, thenSteps]
    cases stepItems ⟨env, ctx, cur, false⟩ (evalImpl env ctx f) none ys st with
    | error e => rfl
    | ok r => obtain ⟨o, st', p⟩ := r; simp
  | cons it rest ih =>
    simp only [List.all_cons, Bool.and_eq_true] at hit
    have ih := ih hit.2
    generalize hK : stepItems ⟨env, ctx, cur, false⟩ (evalImpl env ctx f) none ys st = K at ih
    simp only [List.cons_append]
    cases it with
    | text s =>
      simp only [stepItems, specItems, Res.andThen, ih]
      cases specItems D (specBody D f) (cur.map fun n => (n, k)) rest with
      | error e => simp [thenSteps]
      | ok o => cases K with
        | error e => simp [thenSteps]
        | ok r => obtain ⟨o', st', p⟩ := r; simp [thenSteps]
    | callBlock m =>
      have hm : ∀ n, cur = some n → n < m := by
        intro n hn; subst hn; simpa [okFor] using hit.1
      simp only [stepItems, specItems, Option.isSome_none, Bool.or_false, Bool.false_eq_true, if_false]
      rw [callBlock_good env ctx D f hP cur k m st hg hm]
      cases hDm : (D m).isEmpty with
      | true => simp [Res.andThen, thenSteps]
      | false =>
        simp only [Bool.false_eq_true, if_false]
        cases specBody D f m 0 with
        | error e => simp [lift2, Res.andThen, thenSteps]
        | ok o =>
          simp only [lift2, Res.andThen, ih]
          cases specItems D (specBody D f) (cur.map fun n => (n, k)) rest with
          | error e => simp [thenSteps]
          | ok o2 => cases K with
            | error e => simp [thenSteps]
            | ok r => obtain ⟨o', st', p⟩ := r; simp [thenSteps]
    | super =>
      simp only [stepItems, specItems, Option.isSome_none, Bool.or_false]
      cases cur with
      | none => simp [performSuper, Res.andThen, thenSteps]
      | some n =>
        simp only [Option.map_some] at ih ⊢
        rw [performSuper_good env ctx D f hP n k st hg]
        by_cases hlt : k + 1 < (D n).length
        · simp only [hlt, if_true]
          cases liftErr .evalBlock (specBody D f n (k + 1)) with
          | error e => simp [lift2, Res.andThen, thenSteps]
          | ok o =>
            simp only [lift2, Res.andThen, ih]
            cases specItems D (specBody D f) (some (n, k)) rest with
            | error e => simp [thenSteps]
            | ok o2 => cases K with
              | error e => simp [thenSteps]
              | ok r => obtain ⟨o', st', p⟩ := r; simp [thenSteps]
        · simp [hlt, Res.andThen, thenSteps]
    | «extends» exec t =>
      cases exec with
      | true => simp [okFor] at hit
      | false =>
        simp only [stepItems, specItems, Res.andThen, ih, Bool.not_false, if_true]
        cases specItems D (specBody D f) (cur.map fun n => (n, k)) rest with
        | error e => simp [thenSteps]
        | ok o2 => cases K with
          | error e => simp [thenSteps]
          | ok r => obtain ⟨o', st', p⟩ := r; simp [thenSteps]
    | _ => simp [okFor] at hit

theorem bodyOK_okFor (n : Nat) (body : List Item) (h : bodyOK n body = true) :
    body.all (okFor (some n)) = true := by
  unfold bodyOK at h
  rw [List.all_eq_true] at h ⊢
  intro it hit
  have := h it hit
  cases it <;> simp_all [Item.isBody, okFor]

/-- a block body: the driver (in a `Good` state) renders the spec's body and restores the state -/
theorem sim_body (env : Env) (ctx : Frame) (D : Nat → List (List Item)) (hwf : WF D) :
    ∀ f n k body st, (D n)[k]? = some body → Good D (some n) k st →
      evalImpl env ctx f (some n) false body st = lift2 (specBody D f n k) st := by
  intro f
  induction f with
  | zero => intro n k body st _ _; simp [evalImpl, specBody, lift2]
  | succ f ih =>
    intro n k body st hb hg
    have h := sim_prefix env ctx D f ih (some n) k body (bodyOK_okFor n body (hwf n k body hb)) [] st hg
    simp only [List.append_nil, Option.map_some, stepItems] at h
    simp only [evalImpl, h, specBody, hb]
    cases specItems D (specBody D f) (some (n, k)) body with
    | error e => simp [thenSteps, lift2]
    | ok o => simp [thenSteps, lift2]

/-- behind an executed `extends` (`parent_instructions` is set): text is discarded, blocks are
    skipped, a further executed `extends` is an error — for every callback and reader -/
theorem post_silent (rd : Rd) (rec : Rec) (p : List Item) (post : List Item)
    (h : post.all Item.isPost = true) (st : St) :
    stepItems rd rec (some p) post st =
      if hasExecExtends post then .error [.invalidOperation] else .ok ([], st, some p) := by
  induction post with
  | nil => simp [stepItems, hasExecExtends]
  | cons it rest ih =>
    simp only [List.all_cons, Bool.and_eq_true] at h
    have ih := ih h.2
    cases it with
    | text s =>
      rw [show hasExecExtends (Item.text s :: rest) = hasExecExtends rest from rfl]
      simp only [stepItems, Res.andThen, ih, Option.isSome_some, Bool.or_true, if_true]
      cases hasExecExtends rest <;> simp
    | callBlock m =>
      rw [show hasExecExtends (Item.callBlock m :: rest) = hasExecExtends rest from rfl]
      simp only [stepItems, Res.andThen, ih, Option.isSome_some, Bool.or_true, if_true]
      cases hasExecExtends rest <;> simp
    | «extends» exec t =>
      cases exec with
      | true => simp [stepItems, hasExecExtends]
      | false =>
        rw [show hasExecExtends (Item.extends false t :: rest) = hasExecExtends rest from rfl]
        simp only [stepItems, Res.andThen, ih, Bool.not_false, if_true]
        cases hasExecExtends rest <;> simp
    | _ => simp [Item.isPost] at h

theorem isPlain_okFor (it : Item) (h : it.isPlain = true) : okFor none it = true := by
  cases it <;> simp_all [Item.isPlain, okFor]
  case «extends» exec t => cases exec <;> simp_all [Item.isPlain, okFor]

theorem splitExtends_none (layout : List Item) (hs : splitExtends layout = none)
    (hok : layoutOK layout = true) : layout.all (okFor none) = true := by
  induction layout with
  | nil => rfl
  | cons it rest ih =>
    cases it with
    | «extends» exec t =>
      cases exec with
      | true => simp [splitExtends] at hs
      | false =>
        simp only [splitExtends] at hs
        simp only [layoutOK, Item.isPlain, Bool.true_and] at hok
        split at hs
        · simp [okFor, ih (by assumption) hok]
        · simp at hs
    | _ =>
      simp only [splitExtends] at hs
      simp only [layoutOK, Bool.and_eq_true] at hok
      split at hs
      · simp only [List.all_cons, Bool.and_eq_true]
        exact ⟨isPlain_okFor _ hok.1, ih (by assumption) hok.2⟩
      · simp at hs

theorem splitExtends_some (layout pre post : List Item) (t : Nat)
    (hs : splitExtends layout = some (pre, t, post)) (hok : layoutOK layout = true) :
    layout = pre ++ .extends true t :: post ∧ pre.all (okFor none) = true ∧
      post.all Item.isPost = true := by
  induction layout generalizing pre with
  | nil => simp [splitExtends] at hs
  | cons it rest ih =>
    cases it with
    | «extends» exec t' =>
      cases exec with
      | true =>
        simp only [splitExtends, Option.some.injEq, Prod.mk.injEq] at hs
        obtain ⟨rfl, rfl, rfl⟩ := hs
        simp only [layoutOK] at hok
        simp [hok]
      | false =>
        simp only [splitExtends] at hs
        simp only [layoutOK, Item.isPlain, Bool.true_and] at hok
        split at hs
        · simp at hs
        · rename_i pre' t'' post' heq
          simp only [Option.some.injEq, Prod.mk.injEq] at hs
          obtain ⟨rfl, rfl, rfl⟩ := hs
          obtain ⟨h1, h2, h3⟩ := ih pre' heq hok
          exact ⟨by rw [h1]; rfl, by simp [okFor, h2], h3⟩
    | _ =>
      simp only [splitExtends] at hs
      simp only [layoutOK, Bool.and_eq_true] at hok
      split at hs
      · simp at hs
      · rename_i pre' t'' post' heq
        simp only [Option.some.injEq, Prod.mk.injEq] at hs
        obtain ⟨rfl, rfl, rfl⟩ := hs
        obtain ⟨h1, h2, h3⟩ := ih pre' heq hok.2
        refine ⟨by rw [h1]; rfl, ?_, h3⟩
        simp only [List.all_cons, Bool.and_eq_true]
        exact ⟨isPlain_okFor _ hok.1, h2⟩

theorem prepare_eq_defs (env : Env) (main : Nat) (T : Template) (h : env[main]? = some T) :
    prepare T.blocks = defs env [main] := by
  funext n
  simp only [prepare, defs, List.filterMap_cons, List.filterMap_nil, blockOf, h]
  cases lookupBlock n T.blocks <;> rfl

theorem appendBlocks_defs (env : Env) (chain : List Nat) (t : Nat) (T : Template)
    (h : env[t]? = some T) :
    appendBlocks (defs env chain) T.blocks = defs env (chain ++ [t]) := by
  funext n
  simp only [appendBlocks, defs, List.filterMap_append, List.filterMap_cons, List.filterMap_nil,
    blockOf, h]
  cases lookupBlock n T.blocks <;> simp

theorem lookupBlock_mem (n : Nat) (bs : List (Nat × List Item)) (b : List Item)
    (h : lookupBlock n bs = some b) : (n, b) ∈ bs := by
  induction bs with
  | nil => simp [lookupBlock] at h
  | cons p rest ih =>
    obtain ⟨m, b'⟩ := p
    simp only [lookupBlock] at h
    by_cases hm : m = n
    · simp only [hm, if_true, Option.some.injEq] at h; subst h; subst hm; simp
    · simp only [hm, if_false] at h; exact List.mem_cons_of_mem _ (ih h)

theorem WF_defs (env : Env) (hcore : CoreEnv env) (chain : List Nat) : WF (defs env chain) := by
  intro n k body hb
  have hmem : body ∈ defs env chain n := List.mem_of_getElem? hb
  simp only [defs, List.mem_filterMap] at hmem
  obtain ⟨i, _, hi⟩ := hmem
  simp only [blockOf] at hi
  cases hT : env[i]? with
  | none => simp [hT] at hi
  | some T =>
    simp only [hT] at hi
    have hTm : T ∈ env := List.mem_of_getElem? hT
    have := hcore T hTm
    simp only [templateOK, Bool.and_eq_true, List.all_eq_true] at this
    exact this.2 (n, body) (lookupBlock_mem n T.blocks body hi)

def outOf (r : Res) : Except Err (List String) :=
  match r with | .ok (o, _) => .ok o | .error e => .error e

/-- state of the driver after it loaded `chain` (most-derived template first) -/
structure ChainSt (env : Env) (chain : List Nat) (st : St) : Prop where
  blocks : st.blocks = defs env chain
  depth : ∀ m, st.depth m = 0
  loaded : ∀ t, t ∈ st.loaded ↔ t ∈ chain.tail

theorem sim_template (env : Env) (ctx : Frame) (hcore : CoreEnv env) :
    ∀ f chain layout st, ChainSt env chain st → layoutOK layout = true → chain ≠ [] →
      outOf (evalImpl env ctx f none false layout st) = specTemplate env f chain layout := by
  intro f
  induction f with
  | zero => intro chain layout st _ _ _; simp [evalImpl, specTemplate, outOf]
  | succ f ih =>
    intro chain layout st hst hlay hne
    have hwf := WF_defs env hcore chain
    have hP := sim_body env ctx (defs env chain) hwf f
    have hg : Good (defs env chain) none 0 st :=
      ⟨hst.blocks, (by intro n hn; cases hn), fun m _ => hst.depth m⟩
    simp only [evalImpl, specTemplate]
    cases hs : splitExtends layout with
    | none =>
      have h := sim_prefix env ctx _ f hP none 0 layout (splitExtends_none layout hs hlay) [] st hg
      simp only [List.append_nil, Option.map_none, stepItems] at h
      rw [h]
      cases specItems (defs env chain) (specBody (defs env chain) f) none layout <;> simp [thenSteps, outOf]
    | some r =>
      obtain ⟨pre, t, post⟩ := r
      obtain ⟨hl, hpre, hpost⟩ := splitExtends_some layout pre post t hs hlay
      have h := sim_prefix env ctx _ f hP none 0 pre hpre (.extends true t :: post) st hg
      simp only [Option.map_none] at h
      rw [hl, h]
      simp only []
      cases specItems (defs env chain) (specBody (defs env chain) f) none pre with
      | error e => simp [thenSteps, outOf]
      | ok o =>
        simp only [stepItems, Bool.not_true, Bool.false_eq_true, if_false, Option.isSome_none, loadBlocks]
        by_cases hmem : t ∈ st.loaded
        · have : t ∈ chain.tail := (hst.loaded t).1 hmem
          simp [hmem, this, thenSteps, outOf]
        · have hmem' : t ∉ chain.tail := fun h' => hmem ((hst.loaded t).2 h')
          simp only [hmem, hmem', if_false]
          cases hT : env[t]? with
          | none => simp [thenSteps, outOf]
          | some T =>
            simp only [post_silent _ _ _ post hpost]
            by_cases hx : hasExecExtends post = true
            · simp [hx, thenSteps, outOf]
            · have hx' : hasExecExtends post = false := by simpa using hx
              simp only [hx', Bool.false_eq_true, if_false, thenSteps, List.append_nil]
              have hst' : ChainSt env (chain ++ [t])
                  { st with loaded := t :: st.loaded, blocks := appendBlocks st.blocks T.blocks } := by
                refine ⟨?_, hst.depth, ?_⟩
                · simp only [hst.blocks]; exact appendBlocks_defs env chain t T hT
                · intro t'
                  cases chain with
                  | nil => exact absurd rfl hne
                  | cons c cs =>
                    simp only [List.cons_append, List.tail_cons, List.mem_cons, List.mem_append,
                      List.mem_singleton]
                    have := hst.loaded t'
                    simp only [List.tail_cons] at this
                    rw [this]; simp [or_comm]
              have hTok : layoutOK T.layout = true := by
                have := hcore T (List.mem_of_getElem? hT)
                simp only [templateOK, Bool.and_eq_true] at this
                exact this.1
              have := ih (chain ++ [t]) T.layout _ hst' hTok (by simp)
              rw [← this]
              have key : ∀ E : Res,
                  outOf (match E with
                    | .error e => .error e
                    | .ok (o', st'') => .ok (o ++ o', st'')) =
                  (match outOf E with
                    | .error e => .error e
                    | .ok o' => .ok (o ++ o')) := by
                intro E
                cases E with
                | error e => rfl
                | ok r => rfl
              exact key _

end MJ.Blocks
