import MJ.Model.BlocksSpec
/-!
# Simulation lemmas: the block-stack driver against the specification
-/
set_option linter.unusedSimpArgs false
namespace MJ.Blocks

instance instDecEqExcept {ε α : Type} [DecidableEq ε] [DecidableEq α] : DecidableEq (Except ε α) :=
  fun a b =>
    match a, b with
    | .ok x, .ok y => if h : x = y then isTrue (by rw [h]) else isFalse (by intro e; cases e; exact h rfl)
    | .error x, .error y => if h : x = y then isTrue (by rw [h]) else isFalse (by intro e; cases e; exact h rfl)
    | .ok _, .error _ => isFalse (by intro e; cases e)
    | .error _, .ok _ => isFalse (by intro e; cases e)

/-- the tail condition of `perform_include` as extracted from the sources is "something was
    tried and `ignore missing` was not given" -/
theorem notFoundRaised_eq (tried ign : Bool) : notFoundRaised tried ign = (tried && !ign) := by
  cases tried <;> cases ign <;> decide

/-- the candidates `perform_include` builds (table-driven) are what the property asks for: every
    object that can be iterated — whatever its `ObjectRepr` — yields its elements, everything
    else is one name -/
theorem choices_eq_cands (a : Arg) : choices a = a.cands := by
  cases a with
  | single c => rfl
  | object r items => cases r <;> cases items <;> rfl

/-- a spec result as a driver result: same output, the driver's state with the spec's frames -/
def liftS (r : SRes) (st : St) : Res :=
  match r with
  | .ok (o, fs) => .ok (o, { st with frames := fs })
  | .error e => .error e

/-- output and frames of a driver result -/
def outFr (r : Res) : SRes :=
  match r with
  | .ok (o, st) => .ok (o, st.frames)
  | .error e => .error e

/-- output of the spec for a prefix, followed by the driver on the remaining items -/
def thenStepsF (r : SRes)
    (k : Vars → Except Err (List String × St × Option (List Item))) :
    Except Err (List String × St × Option (List Item)) :=
  match r with
  | .error e => .error e
  | .ok (o, fs) =>
    match k fs with
    | .error e => .error e
    | .ok (o', st', p) => .ok (o ++ o', st', p)

/-- the block stacks hold exactly the definitions `D`, the definition being rendered is level
    `k` of block `cur`, and (where block references are allowed) every block that may still be
    entered has its cursor at 0 -/
structure Good (D : Nat → List (List Item)) (cur : Option Nat) (blk : Bool) (k : Nat) (st : St) : Prop where
  blocks : st.blocks = D
  level : ∀ n, cur = some n → st.depth n = k ∧ k < (D n).length
  above : blk = true → ∀ m, (∀ n, cur = some n → n < m) → st.depth m = 0

theorem Good.setFrames {D : Nat → List (List Item)} {cur : Option Nat} {blk : Bool} {k : Nat} {st : St}
    (h : Good D cur blk k st) (fs : Vars) : Good D cur blk k { st with frames := fs } :=
  ⟨h.blocks, h.level, h.above⟩

def WF (D : Nat → List (List Item)) : Prop :=
  ∀ (n k : Nat) (body : List Item), (D n)[k]? = some body → itemsOK (some n) true body = true

/-- state of the driver after it loaded `chain` (most-derived template first) -/
structure ChainSt (env : Env) (chain : List Nat) (st : St) : Prop where
  blocks : st.blocks = defs env chain
  depth : ∀ m, st.depth m = 0
  loaded : ∀ t, t ∈ st.loaded ↔ t ∈ chain.tail

theorem take_append_one {α : Type} (l : List α) (x : α) : (l ++ [x]).take l.length = l := by
  simp

/-- the spec's `super()` context `scur` mirrors the engine's `current_block`: the same block
    name, at the level the cursor of that block stands at, and every block of a higher rank has
    its cursor at 0 -/
structure SuperCtx (scur : Option (Nat × Nat)) (rcur : Option Nat) (st : St) : Prop where
  name : scur.map Prod.fst = rcur
  level : ∀ n j, scur = some (n, j) → st.depth n = j ∧ ∀ m, n < m → st.depth m = 0

theorem SuperCtx.setFrames {scur : Option (Nat × Nat)} {rcur : Option Nat} {st : St}
    (h : SuperCtx scur rcur st) (fs : Vars) : SuperCtx scur rcur { st with frames := fs } :=
  ⟨h.name, h.level⟩

theorem SuperCtx.none (st : St) : SuperCtx none none st :=
  ⟨rfl, fun _ _ h => by cases h⟩

/-- driver = spec one nesting level further down, for every well-formed `D` -/
structure Hyp (env : Env) (ctx : Cfg) (f : Nat) : Prop where
  list : ∀ (D : Nat → List (List Item)), WF D → ∀ (cur : Option Nat) (blk : Bool) (k : Nat)
      (scur : Option (Nat × Nat)) (rcur : Option Nat) (disc ext : Bool) (outer : Nat) (ae : AE)
      (items : List Item) (st : St),
      SuperCtx scur rcur st →
      itemsOK cur blk items = true → Good D cur blk k st →
      evalImpl env ctx f rcur disc ext outer ae items st =
        liftS ((specAll env ctx f).list D scur disc ext outer ae items st.frames) st
  chain : ∀ (chain : List Nat) (layout : List Item) (st : St) (rcur : Option Nat) (disc : Bool) (outer : Nat) (ae : AE),
      ChainSt env chain st → layoutOK layout = true → chain ≠ [] →
      outFr (evalImpl env ctx f rcur disc false outer ae layout st) =
        (specAll env ctx f).chain chain rcur disc outer ae layout st.frames

theorem Hyp.body {env : Env} {ctx : Cfg} {f : Nat} (h : Hyp env ctx f)
    (D : Nat → List (List Item)) (hwf : WF D) (n k : Nat) (body : List Item) (disc : Bool) (outer : Nat) (ae : AE)
    (st : St) (hb : (D n)[k]? = some body) (hg : Good D (some n) true k st) :
    evalImpl env ctx f (some n) disc false outer ae body st =
      liftS ((specAll env ctx f).body D n k disc outer ae st.frames) st := by
  cases f with
  | zero => simp [evalImpl, specAll, liftS]
  | succ f =>
    have hsc : SuperCtx (some (n, k)) (some n) st :=
      ⟨rfl, fun n' j h' => by
        cases h'
        exact ⟨(hg.level n rfl).1, fun m hm => hg.above rfl m (by intro n' hn'; cases hn'; exact hm)⟩⟩
    have := h.list D hwf (some n) true k (some (n, k)) (some n) disc false outer ae body st hsc (hwf n k body hb) hg
    rw [this]
    simp only [specAll, hb]

theorem callBlock_sim {env : Env} {ctx : Cfg} {f : Nat} (h : Hyp env ctx f)
    (D : Nat → List (List Item)) (hwf : WF D) (cur : Option Nat) (k m : Nat) (disc : Bool) (outer : Nat) (ae : AE)
    (st : St) (hg : Good D cur true k st) (hm : ∀ n, cur = some n → n < m) :
    callBlock (evalImpl env ctx f) disc outer ae m st =
      liftS (specBlock (specAll env ctx f) D disc outer ae m st.frames) st := by
  have hd0 : st.depth m = 0 := hg.above rfl m hm
  unfold callBlock specBlock
  rw [show st.blocks m = D m from by rw [hg.blocks]]
  cases hDm : D m with
  | nil => simp [liftS]
  | cons b bs =>
    simp only [hd0, List.getElem?_cons_zero]
    generalize ((b :: bs).length == 1 && isRequired b) = c
    cases c with
    | true => simp [liftS]
    | false =>
      simp only [Bool.false_eq_true, if_false]
      cases hpf : pushFails outer st.frames with
      | true => simp [liftS]
      | false =>
        simp only [Bool.false_eq_true, if_false]
        have hb : (D m)[0]? = some b := by rw [hDm]; rfl
        have hg' : Good D (some m) true 0 { st with frames := st.frames.push [[]] } := by
          refine ⟨hg.blocks, ?_, ?_⟩
          · intro n hn; cases hn; exact ⟨hd0, by rw [hDm]; simp⟩
          · intro _ m' hm'
            apply hg.above rfl
            intro n hn
            exact Nat.lt_trans (hm n hn) (hm' m rfl)
        rw [h.body D hwf m 0 b disc outer ae _ hb hg']
        simp only []
        cases (specAll env ctx f).body D m 0 disc outer ae (st.frames.push [[]]) with
        | error e => simp [liftS]
        | ok r => obtain ⟨o, fs⟩ := r; simp [liftS]

/-- `super()` wherever it stands: with the current block `n` whose cursor is at level `k` (all
    blocks of higher rank at 0) -/
theorem performSuper_sim' {env : Env} {ctx : Cfg} {f : Nat} (h : Hyp env ctx f)
    (D : Nat → List (List Item)) (hwf : WF D) (n k : Nat) (disc : Bool) (outer : Nat) (ae : AE)
    (st : St) (hb : st.blocks = D) (hdn : st.depth n = k) (habove : ∀ m, n < m → st.depth m = 0) :
    performSuper (evalImpl env ctx f) (some n) disc outer ae st =
      liftS (specSuper (specAll env ctx f) D (some (n, k)) disc outer ae st.frames) st := by
  unfold performSuper specSuper
  simp only []
  rw [show st.blocks n = D n from by rw [hb], hdn]
  by_cases hlt : k + 1 < (D n).length
  · simp only [hlt, if_true]
    cases hpf : pushFails outer st.frames with
    | true => simp [liftS]
    | false =>
      simp only [Bool.false_eq_true, if_false]
      obtain ⟨body, hbody⟩ : ∃ body, (D n)[k + 1]? = some body := ⟨(D n)[k + 1], by simp [hlt]⟩
      simp only [hbody]
      have hg' : Good D (some n) true (k + 1)
          { st with depth := setAt st.depth n (k + 1), frames := st.frames.push [[]] } := by
        refine ⟨hb, ?_, ?_⟩
        · intro n' hn'; cases hn'; exact ⟨by simp [setAt], hlt⟩
        · intro _ m hm'
          have : n < m := hm' n rfl
          have hne : m ≠ n := by omega
          simp only [setAt, hne, if_false]
          exact habove m this
      rw [h.body D hwf n (k + 1) body disc outer ae _ hbody hg']
      simp only []
      cases (specAll env ctx f).body D n (k + 1) disc outer ae (st.frames.push [[]]) with
      | error e => simp [liftS]
      | ok r =>
        obtain ⟨o, fs⟩ := r
        have hset : setAt (setAt st.depth n (k + 1)) n (setAt st.depth n (k + 1) n - 1) = st.depth := by
          funext m; unfold setAt; by_cases h : m = n
          · subst h; simp [hdn]
          · simp [h]
        simp only [liftS, hset]
  · simp [hlt, liftS]

theorem performSuper_sim {env : Env} {ctx : Cfg} {f : Nat} (h : Hyp env ctx f)
    (D : Nat → List (List Item)) (hwf : WF D) (n k : Nat) (disc : Bool) (outer : Nat) (ae : AE)
    (st : St) (hg : Good D (some n) true k st) :
    performSuper (evalImpl env ctx f) (some n) disc outer ae st =
      liftS (specSuper (specAll env ctx f) D (some (n, k)) disc outer ae st.frames) st :=
  performSuper_sim' h D hwf n k disc outer ae st hg.blocks (hg.level n rfl).1
    (fun m hm => hg.above rfl m (by intro n' hn'; cases hn'; exact hm))

/-- `super()` in the spec's super context -/
theorem super_ctx_sim {env : Env} {ctx : Cfg} {f : Nat} (h : Hyp env ctx f)
    (D : Nat → List (List Item)) (hwf : WF D) (scur : Option (Nat × Nat)) (rcur : Option Nat)
    (disc : Bool) (outer : Nat) (ae : AE) (st : St) (hb : st.blocks = D) (hsc : SuperCtx scur rcur st) :
    performSuper (evalImpl env ctx f) rcur disc outer ae st =
      liftS (specSuper (specAll env ctx f) D scur disc outer ae st.frames) st := by
  cases scur with
  | none =>
    have : rcur = none := by rw [← hsc.name]; rfl
    subst this
    simp [performSuper, specSuper, liftS]
  | some p =>
    obtain ⟨n, j⟩ := p
    have : rcur = some n := by rw [← hsc.name]; rfl
    subst this
    obtain ⟨h1, h2⟩ := hsc.level n j rfl
    exact performSuper_sim' h D hwf n j disc outer ae st hb h1 h2

theorem initChainSt (env : Env) (t : Nat) (T : Template) (hT : env[t]? = some T) (st : St) :
    ChainSt env [t] { st with blocks := prepare T.blocks, depth := fun _ => 0, loaded := [] } := by
  refine ⟨?_, fun _ => rfl, fun x => by simp⟩
  funext n
  simp only [prepare, defs, List.filterMap_cons, List.filterMap_nil, blockOf, hT]
  cases lookupBlock n T.blocks <;> rfl

theorem include_sim {env : Env} {ctx : Cfg} {f : Nat} (h : Hyp env ctx f) (henv : EnvOK env)
    (rcur : Option Nat) (disc ign : Bool) (outer : Nat) (names : List Cand) (tried : Bool) (st : St) :
    performInclude env (evalImpl env ctx f) rcur disc ign outer names tried st =
      liftS (specInclude env (specAll env ctx f) rcur disc ign outer names tried st.frames) st := by
  induction names generalizing tried with
  | nil =>
    simp only [performInclude, specInclude, notFoundRaised_eq]
    split <;> simp [liftS]
  | cons c rest ih =>
    cases c with
    | none => simp [performInclude, specInclude, liftS]
    | some t =>
    simp only [performInclude, specInclude]
    cases hT : env[t]? with
    | none => exact ih true
    | some T =>
      simp only []
      cases hL : T.loadErr with
      | some kk => simp [liftS]
      | none =>
      simp only []
      by_cases hd : outer + INCLUDE_COST + st.frames.length > LIMIT
      · simp [hd, liftS]
      · simp only [hd, if_false]
        have hlay : layoutOK T.layout = true := by
          have := henv T (List.mem_of_getElem? hT)
          simp only [templateOK, Bool.and_eq_true] at this
          exact this.1
        have hc := h.chain [t] T.layout
          { st with blocks := prepare T.blocks, depth := fun _ => 0, loaded := [],
                    frames := st.frames.setTopClosure none } rcur disc
          (outer + INCLUDE_COST) T.ae (initChainSt env t T hT { st with frames := st.frames.setTopClosure none }) hlay (by simp)
        simp only [] at hc
        rw [← hc]
        cases evalImpl env ctx f rcur disc false (outer + INCLUDE_COST) T.ae T.layout
          { st with blocks := prepare T.blocks, depth := fun _ => 0, loaded := [],
                    frames := st.frames.setTopClosure none } with
        | error e => simp [outFr, liftS]
        | ok r => obtain ⟨o, st'⟩ := r; simp [outFr, liftS]

theorem loop_sim (run : St → Res) (run' : Vars → SRes) (st : St)
    (hrun : ∀ (fs : Vars), run { st with frames := fs } = liftS (run' fs) { st with frames := fs })
    (v : Nat) (vals : List String) (fl : Nat) :
    loopItems run v vals fl st = liftS (specLoop run' v vals fl st.frames) st := by
  unfold loopItems specLoop
  have key : ∀ (acc : Res) (acc' : SRes), acc = liftS acc' st →
      vals.foldl (fun (acc : Res) val =>
        match acc with
        | .error e => .error e
        | .ok (o, s) =>
          match run { s with frames := (s.frames.take fl).push [[(v, Val.str val)]] } with
          | .error e => .error e
          | .ok (o', s') => .ok (o ++ o', s')) acc =
      liftS (vals.foldl (fun (acc : SRes) val =>
        match acc with
        | .error e => .error e
        | .ok (o, s) =>
          match run' ((s.take fl).push [[(v, Val.str val)]]) with
          | .error e => .error e
          | .ok (o', s') => .ok (o ++ o', s')) acc') st := by
    induction vals with
    | nil => intro acc acc' h; simpa using h
    | cons val rest ih =>
      intro acc acc' hacc
      simp only [List.foldl_cons]
      apply ih
      subst hacc
      cases acc' with
      | error e => simp [liftS]
      | ok r =>
        obtain ⟨o, fs⟩ := r
        simp only [liftS]
        have := hrun ((fs.take fl).push [[(v, Val.str val)]])
        rw [this]
        cases run' ((fs.take fl).push [[(v, Val.str val)]]) with
        | error e => simp [liftS]
        | ok r' => obtain ⟨o', fs'⟩ := r'; simp [liftS]
  exact key _ _ (by simp [liftS])

theorem cont_finish (R' : SRes) (st : St)
    (G : St → Except Err (List String × St × Option (List Item))) (S : Vars → SRes)
    (K : Vars → Except Err (List String × St × Option (List Item)))
    (hG : ∀ fs, G { st with frames := fs } = thenStepsF (S fs) K) :
    Res.andThen (liftS R' st) G =
      thenStepsF (match R' with
        | .error e => .error e
        | .ok (o, fs') =>
          match S fs' with
          | .error e => .error e
          | .ok (o', fs'') => .ok (o ++ o', fs'')) K := by
  cases R' with
  | error e => rfl
  | ok r =>
    obtain ⟨o, fs'⟩ := r
    simp only [liftS, Res.andThen, hG fs']
    cases S fs' with
    | error e => rfl
    | ok r2 =>
      obtain ⟨o', fs''⟩ := r2
      simp only [thenStepsF]
      cases K fs'' with
      | error e => rfl
      | ok r3 => obtain ⟨o3, st3, p3⟩ := r3; simp

theorem sim_prefix {env : Env} {ctx : Cfg} {f : Nat} (h : Hyp env ctx f) (henv : EnvOK env)
    (D : Nat → List (List Item)) (hwf : WF D)
    (cur : Option Nat) (blk : Bool) (k : Nat) (scur : Option (Nat × Nat)) (rcur : Option Nat)
    (disc0 ext0 : Bool) (outer : Nat) (ae : AE)
    (parent : Option (List Item))
    (items : List Item)
    (hit : ∀ it ∈ items, itemOK cur blk it = true ∨ (parent.isSome = true ∧ isExtends it = true))
    (ys : List Item) (st : St) (hsc : SuperCtx scur rcur st) (hg : Good D cur blk k st) :
    stepItems ⟨env, ctx, rcur, disc0, ext0, outer, ae⟩ (evalImpl env ctx f) parent (items ++ ys) st =
      thenStepsF (specItems env ctx (specAll env ctx f) D scur
          (disc0 || parent.isSome) (ext0 || parent.isSome) outer ae items st.frames)
        (fun fs => stepItems ⟨env, ctx, rcur, disc0, ext0, outer, ae⟩ (evalImpl env ctx f) parent ys
          { st with frames := fs }) := by
  induction items generalizing st with
  | nil =>
    simp only [List.nil_append, specItems, thenStepsF]
    cases stepItems ⟨env, ctx, rcur, disc0, ext0, outer, ae⟩ (evalImpl env ctx f) parent ys st with
    | error e => rfl
    | ok r => obtain ⟨o, st', p⟩ := r; simp
  | cons it rest ih =>
    have hit1 := hit it (by simp)
    have hG : ∀ fs, (fun st' => stepItems ⟨env, ctx, rcur, disc0, ext0, outer, ae⟩ (evalImpl env ctx f) parent (rest ++ ys) st')
          { st with frames := fs } =
        thenStepsF (specItems env ctx (specAll env ctx f) D scur
            (disc0 || parent.isSome) (ext0 || parent.isSome) outer ae rest fs)
          (fun fs => stepItems ⟨env, ctx, rcur, disc0, ext0, outer, ae⟩ (evalImpl env ctx f) parent ys
            { st with frames := fs }) := by
      intro fs
      exact ih (fun it hm => hit it (List.mem_cons_of_mem _ hm)) { st with frames := fs } (hsc.setFrames fs) (hg.setFrames fs)
    simp only [List.cons_append]
    cases it with
    | callBlock m =>
      simp only [stepItems, specItems]
      cases hc : (ext0 || parent.isSome || (disc0 || parent.isSome)) with
      | true =>
        simp only [if_true]
        exact cont_finish (.ok ([], st.frames)) st _ _ _ hG
      | false =>
        simp only [Bool.false_eq_true, if_false]
        have hp : parent.isSome = false := by
          cases hps : parent.isSome <;> simp_all
        have hok : itemOK cur blk (.callBlock m) = true := by
          rcases hit1 with h1 | h1
          · exact h1
          · rw [hp] at h1; cases h1.1
        simp only [itemOK, Bool.and_eq_true] at hok
        obtain ⟨hb, hrank⟩ := hok
        subst hb
        have hm : ∀ n, cur = some n → n < m := by
          intro n hn; subst hn; simpa using hrank
        rw [callBlock_sim h D hwf cur k m _ outer ae st hg hm]
        exact cont_finish _ st _ _ _ hG
    | super =>
      simp only [stepItems, specItems]
      rw [super_ctx_sim h D hwf scur rcur _ outer ae st hg.blocks hsc]
      exact cont_finish _ st _ _ _ hG
    | setSuper v =>
      simp only [stepItems, specItems]
      rw [super_ctx_sim h D hwf scur rcur false outer ae st hg.blocks hsc]
      cases specSuper (specAll env ctx f) D scur false outer ae st.frames with
      | error e => rfl
      | ok r =>
        obtain ⟨o, fs'⟩ := r
        simp only [liftS]
        exact cont_finish (.ok ([], store fs' v (captured ae o))) st _ _ _ hG
    | setSelf v m =>
      simp only [stepItems, specItems]
      cases hc : (ext0 || parent.isSome) with
      | true =>
        simp only [if_true]
        rw [hc] at hG
        exact cont_finish (.ok ([], store st.frames v (captured ae []))) st _ _ _ hG
      | false =>
        simp only [Bool.false_eq_true, if_false]
        have hp : parent.isSome = false := by
          cases hps : parent.isSome <;> simp_all
        have hok : itemOK cur blk (.setSelf v m) = true := by
          rcases hit1 with h1 | h1
          · exact h1
          · rw [hp] at h1; cases h1.1
        simp only [itemOK, Bool.and_eq_true] at hok
        obtain ⟨hb, hrank⟩ := hok
        subst hb
        have hm : ∀ n, cur = some n → n < m := by
          intro n hn; subst hn; simpa using hrank
        rw [callBlock_sim h D hwf cur k m false outer ae st hg hm]
        cases specBlock (specAll env ctx f) D false outer ae m st.frames with
        | error e => rfl
        | ok r =>
          obtain ⟨o, fs'⟩ := r
          simp only [liftS]
          rw [hc] at hG
          exact cont_finish (.ok ([], store fs' v (captured ae o))) st _ _ _ hG
    | «extends» exec t =>
      simp only [stepItems, specItems]
      cases exec with
      | false =>
        simp only [Bool.not_false, if_true]
        exact cont_finish (.ok ([], st.frames)) st _ _ _ hG
      | true =>
        have hp : parent.isSome = true := by
          rcases hit1 with h1 | h1
          · simp [itemOK] at h1
          · exact h1.1
        simp [hp, thenStepsF]
    | incl a ign =>
      simp only [stepItems, specItems]
      rw [choices_eq_cands, include_sim h henv rcur _ ign outer a.cands false st, hsc.name]
      exact cont_finish _ st _ _ _ hG
    | importAs a v =>
      simp only [stepItems, specItems]
      cases hpf : pushFails outer st.frames with
      | true => simp [thenStepsF]
      | false =>
        simp only [Bool.false_eq_true, if_false]
        rw [choices_eq_cands, include_sim h henv rcur false false outer a.cands false { st with frames := st.frames.push [[]] },
          hsc.name]
        cases specInclude env (specAll env ctx f) rcur false false outer a.cands false (st.frames.push [[]]) with
        | error e => rfl
        | ok r =>
          obtain ⟨o, fs'⟩ := r
          simp only [liftS]
          exact cont_finish (.ok ([], store (fs'.take st.frames.length) v (.module (dedupKeys (topFrame fs'))))) st _ _ _ hG
    | fromImport a name alias =>
      simp only [stepItems, specItems]
      cases hpf : pushFails outer st.frames with
      | true => simp [thenStepsF]
      | false =>
        simp only [Bool.false_eq_true, if_false]
        rw [choices_eq_cands, include_sim h henv rcur true false outer a.cands false { st with frames := st.frames.push [[]] },
          hsc.name]
        cases specInclude env (specAll env ctx f) rcur true false outer a.cands false (st.frames.push [[]]) with
        | error e => rfl
        | ok r =>
          obtain ⟨o, fs'⟩ := r
          simp only [liftS]
          exact cont_finish (.ok ([], store (fs'.take st.frames.length) alias ((lookupVal name (topFrame fs')).getD .undef))) st _ _ _ hG
    | loop v vals body =>
      simp only [stepItems, specItems]
      cases hx : body.any isExtends with
      | true => simp [thenStepsF]
      | false =>
        simp only [Bool.false_eq_true, if_false]
        cases hpf : pushFails outer st.frames with
        | true => simp [thenStepsF]
        | false =>
          simp only [Bool.false_eq_true, if_false]
          have hok : itemsOK cur blk body = true := by
            rcases hit1 with h1 | h1
            · simpa [itemOK] using h1
            · simp [isExtends] at h1
          have hrun : ∀ fs : Vars,
              evalImpl env ctx f rcur (disc0 || parent.isSome) (ext0 || parent.isSome) outer ae body
                  { ({ st with frames := st.frames.push [[]] } : St) with frames := fs } =
                liftS ((specAll env ctx f).list D scur (disc0 || parent.isSome)
                  (ext0 || parent.isSome) outer ae body fs)
                  { ({ st with frames := st.frames.push [[]] } : St) with frames := fs } := by
            intro fs
            exact h.list D hwf cur blk k scur rcur _ _ outer ae body _ (hsc.setFrames fs) hok (hg.setFrames fs)
          rw [loop_sim _ _ { st with frames := st.frames.push [[]] } hrun v vals st.frames.length]
          cases specLoop ((specAll env ctx f).list D scur (disc0 || parent.isSome)
              (ext0 || parent.isSome) outer ae body) v vals st.frames.length (st.frames.push [[]]) with
          | error e => rfl
          | ok r =>
            obtain ⟨o, fs'⟩ := r
            simp only [liftS]
            exact cont_finish (.ok (o, fs'.take st.frames.length)) st _ _ _ hG
    | inMacro m arg val body =>
      simp only [stepItems, specItems]
      cases hx : body.any isExtends with
      | true => simp [thenStepsF]
      | false =>
        simp only [Bool.false_eq_true, if_false]
        by_cases hd : outer + (store st.frames m Val.opaque).length + MACRO_COST + 2 > LIMIT
        · simp [hd, thenStepsF]
        · simp only [hd, if_false]
          have hok : itemsOK cur blk body = true := by
            rcases hit1 with h1 | h1
            · simpa [itemOK] using h1
            · simp [isExtends] at h1
          have hg2 : Good D cur blk k
              { st with frames := (store st.frames m Val.opaque).macroCtx arg (Val.str val) } :=
            hg.setFrames _
          have := h.list D hwf cur blk k none none false false
            (outer + (store st.frames m Val.opaque).length + MACRO_COST) ae body _ (SuperCtx.none _) hok hg2
          rw [this]
          cases (specAll env ctx f).list D none false false
              (outer + (store st.frames m Val.opaque).length + MACRO_COST) ae body
              ((store st.frames m Val.opaque).macroCtx arg (Val.str val)) with
          | error e => rfl
          | ok r =>
            obtain ⟨o, fs'⟩ := r
            simp only [liftS]
            exact cont_finish (.ok (if (disc0 || parent.isSome) = true then [] else o, store st.frames m .opaque)) st _ _ _ hG
    | badTarget => simp [stepItems, specItems, thenStepsF]
    | autoesc m body =>
      simp only [stepItems, specItems]
      cases hx : (body.any isExtends || decide (AE_NEST_MAX ≤ aeDepthL body)) with
      | true => simp [thenStepsF]
      | false =>
        simp only [Bool.false_eq_true, if_false]
        have hok : itemsOK cur blk body = true := by
          rcases hit1 with h1 | h1
          · simpa [itemOK] using h1
          · simp [isExtends] at h1
        rw [h.list D hwf cur blk k scur rcur _ _ outer m body st hsc hok hg]
        exact cont_finish _ st _ _ _ hG
    | text s =>
      simp only [stepItems, specItems]
      cases varItem ctx (disc0 || parent.isSome) ae _ st.frames with
      | none => rfl
      | some r =>
        cases r with
        | error e => rfl
        | ok r2 =>
          obtain ⟨o, fs'⟩ := r2
          exact cont_finish (.ok (o, fs')) st _ _ _ hG
    | emitVar v =>
      simp only [stepItems, specItems]
      cases varItem ctx (disc0 || parent.isSome) ae _ st.frames with
      | none => rfl
      | some r =>
        cases r with
        | error e => rfl
        | ok r2 =>
          obtain ⟨o, fs'⟩ := r2
          exact cont_finish (.ok (o, fs')) st _ _ _ hG
    | setVar v s =>
      simp only [stepItems, specItems]
      cases varItem ctx (disc0 || parent.isSome) ae _ st.frames with
      | none => rfl
      | some r =>
        cases r with
        | error e => rfl
        | ok r2 =>
          obtain ⟨o, fs'⟩ := r2
          exact cont_finish (.ok (o, fs')) st _ _ _ hG
    | defMacroV m' w' =>
      simp only [stepItems, specItems]
      cases varItem ctx (disc0 || parent.isSome) ae _ st.frames with
      | none => rfl
      | some r =>
        cases r with
        | error e => rfl
        | ok r2 =>
          obtain ⟨o, fs'⟩ := r2
          exact cont_finish (.ok (o, fs')) st _ _ _ hG
    | defMacro v s =>
      simp only [stepItems, specItems]
      cases varItem ctx (disc0 || parent.isSome) ae _ st.frames with
      | none => rfl
      | some r =>
        cases r with
        | error e => rfl
        | ok r2 =>
          obtain ⟨o, fs'⟩ := r2
          exact cont_finish (.ok (o, fs')) st _ _ _ hG
    | emitAttr v a =>
      simp only [stepItems, specItems]
      cases varItem ctx (disc0 || parent.isSome) ae _ st.frames with
      | none => rfl
      | some r =>
        cases r with
        | error e => rfl
        | ok r2 =>
          obtain ⟨o, fs'⟩ := r2
          exact cont_finish (.ok (o, fs')) st _ _ _ hG
    | emitKeys v =>
      simp only [stepItems, specItems]
      cases varItem ctx (disc0 || parent.isSome) ae _ st.frames with
      | none => rfl
      | some r =>
        cases r with
        | error e => rfl
        | ok r2 =>
          obtain ⟨o, fs'⟩ := r2
          exact cont_finish (.ok (o, fs')) st _ _ _ hG
    | callVar v =>
      simp only [stepItems, specItems]
      cases varItem ctx (disc0 || parent.isSome) ae _ st.frames with
      | none => rfl
      | some r =>
        cases r with
        | error e => rfl
        | ok r2 =>
          obtain ⟨o, fs'⟩ := r2
          exact cont_finish (.ok (o, fs')) st _ _ _ hG
    | required =>
      simp only [stepItems, specItems]
      cases varItem ctx (disc0 || parent.isSome) ae _ st.frames with
      | none => rfl
      | some r =>
        cases r with
        | error e => rfl
        | ok r2 =>
          obtain ⟨o, fs'⟩ := r2
          exact cont_finish (.ok (o, fs')) st _ _ _ hG

theorem itemsOK_iff (cur : Option Nat) (blk : Bool) (items : List Item) :
    itemsOK cur blk items = true ↔ ∀ it ∈ items, itemOK cur blk it = true := by
  induction items with
  | nil => simp [itemsOK]
  | cons it rest ih => simp [itemsOK, ih]

theorem splitExtends_none (layout : List Item) (hs : splitExtends layout = none)
    (hok : layoutOK layout = true) : ∀ it ∈ layout, itemOK none true it = true := by
  induction layout with
  | nil => intro it h; cases h
  | cons it rest ih =>
    cases it with
    | «extends» exec t =>
      cases exec with
      | true => simp [splitExtends] at hs
      | false =>
        simp only [splitExtends] at hs
        simp only [layoutOK, Bool.and_eq_true] at hok
        split at hs
        · intro it' h'
          rcases List.mem_cons.1 h' with rfl | h'
          · exact hok.1
          · exact ih (by assumption) hok.2 it' h'
        · simp at hs
    | _ =>
      simp only [splitExtends] at hs
      simp only [layoutOK, Bool.and_eq_true] at hok
      split at hs
      · intro it' h'
        rcases List.mem_cons.1 h' with rfl | h'
        · exact hok.1
        · exact ih (by assumption) hok.2 it' h'
      · simp at hs

theorem splitExtends_some (layout pre post : List Item) (t : Nat)
    (hs : splitExtends layout = some (pre, t, post)) (hok : layoutOK layout = true) :
    layout = pre ++ .extends true t :: post ∧ (∀ it ∈ pre, itemOK none true it = true) ∧
      (∀ it ∈ post, itemOK none true it = true ∨ isExtends it = true) := by
  induction layout generalizing pre with
  | nil => simp [splitExtends] at hs
  | cons it rest ih =>
    cases it with
    | «extends» exec t' =>
      cases exec with
      | true =>
        simp only [splitExtends, Option.some.injEq, Prod.mk.injEq] at hs
        obtain ⟨rfl, rfl, rfl⟩ := hs
        simp only [layoutOK, List.all_eq_true, Bool.or_eq_true] at hok
        exact ⟨rfl, (by intro it h; cases h), fun it h => (hok it h).symm⟩
      | false =>
        simp only [splitExtends] at hs
        simp only [layoutOK, Bool.and_eq_true] at hok
        split at hs
        · simp at hs
        · rename_i pre' t'' post' heq
          simp only [Option.some.injEq, Prod.mk.injEq] at hs
          obtain ⟨rfl, rfl, rfl⟩ := hs
          obtain ⟨h1, h2, h3⟩ := ih pre' heq hok.2
          refine ⟨by rw [h1]; rfl, ?_, h3⟩
          intro it' h'
          rcases List.mem_cons.1 h' with rfl | h'
          · exact hok.1
          · exact h2 it' h'
    | _ =>
      simp only [splitExtends] at hs
      simp only [layoutOK, Bool.and_eq_true] at hok
      split at hs
      · simp at hs
      · rename_i pre' t'' post' heq
        simp only [Option.some.injEq, Prod.mk.injEq] at hs
        obtain ⟨rfl, rfl, rfl⟩ := hs
        obtain ⟨h1, h2, h3⟩ := ih pre' heq hok.2
        refine ⟨by rw [h1]; rfl, ?_, h3⟩
        intro it' h'
        rcases List.mem_cons.1 h' with rfl | h'
        · exact hok.1
        · exact h2 it' h'

theorem appendBlocks_defs (env : Env) (chain : List Nat) (t : Nat) (T : Template)
    (h : env[t]? = some T) :
    appendBlocks (defs env chain) T.blocks = defs env (chain ++ [t]) := by
  funext n
  simp only [appendBlocks, defs, List.filterMap_append, List.filterMap_cons, List.filterMap_nil,
    blockOf, h]
  cases lookupBlock n T.blocks <;> simp

theorem lookupBlock_mem (n : Nat) (bs : List (Nat × List Item)) (b : List Item)
    (h : lookupBlock n bs = some b) : (n, b) ∈ bs := by
  induction bs with
  | nil => simp [lookupBlock] at h
  | cons p rest ih =>
    obtain ⟨m, b'⟩ := p
    simp only [lookupBlock] at h
    by_cases hm : m = n
    · simp only [hm, if_true, Option.some.injEq] at h; subst h; subst hm; simp
    · simp only [hm, if_false] at h; exact List.mem_cons_of_mem _ (ih h)

theorem WF_defs (env : Env) (henv : EnvOK env) (chain : List Nat) : WF (defs env chain) := by
  intro n k body hb
  have hmem : body ∈ defs env chain n := List.mem_of_getElem? hb
  simp only [defs, List.mem_filterMap] at hmem
  obtain ⟨i, _, hi⟩ := hmem
  simp only [blockOf] at hi
  cases hT : env[i]? with
  | none => simp [hT] at hi
  | some T =>
    simp only [hT] at hi
    have hTm : T ∈ env := List.mem_of_getElem? hT
    have := henv T hTm
    simp only [templateOK, Bool.and_eq_true, List.all_eq_true] at this
    exact this.2 (n, body) (lookupBlock_mem n T.blocks body hi)

theorem EnvOK.layout {env : Env} (henv : EnvOK env) {t : Nat} {T : Template} (hT : env[t]? = some T) :
    layoutOK T.layout = true := by
  have := henv T (List.mem_of_getElem? hT)
  simp only [templateOK, Bool.and_eq_true] at this
  exact this.1

theorem hyp_zero (env : Env) (ctx : Cfg) : Hyp env ctx 0 :=
  ⟨by intros; simp [evalImpl, specAll, liftS], by intros; simp [evalImpl, specAll, outFr]⟩

theorem hyp_succ (env : Env) (ctx : Cfg) (henv : EnvOK env) (f : Nat) (h : Hyp env ctx f) :
    Hyp env ctx (f + 1) := by
  constructor
  · intro D hwf cur blk k scur rcur disc ext outer ae items st hsc hok hg
    · have hp := sim_prefix h henv D hwf cur blk k scur rcur disc ext outer ae none items
        (fun it hm => Or.inl ((itemsOK_iff cur blk items).1 hok it hm)) [] st hsc hg
      simp only [List.append_nil, Option.isSome_none, Bool.or_false, stepItems] at hp
      simp only [evalImpl, hp, specAll]
      cases specItems env ctx (specAll env ctx f) D scur disc ext outer ae items st.frames with
      | error e => simp [thenStepsF, liftS]
      | ok r => obtain ⟨o, fs⟩ := r; simp [thenStepsF, liftS]
  · intro chain layout st rcur disc outer ae hst hlay hne
    have hwf := WF_defs env henv chain
    have hg : Good (defs env chain) none true 0 st :=
      ⟨hst.blocks, (by intro n hn; cases hn), fun _ m _ => hst.depth m⟩
    have hscOf : ∀ st' : St, (∀ m, st'.depth m = 0) → SuperCtx (rcur.map (fun n => (n, 0))) rcur st' := by
      intro st' hd
      refine ⟨by cases rcur <;> rfl, ?_⟩
      intro n j hnj
      cases rcur with
      | none => cases hnj
      | some r => cases hnj; exact ⟨hd _, fun m _ => hd m⟩
    simp only [evalImpl, specAll, specChain]
    cases hs : splitExtends layout with
    | none =>
      have hp := sim_prefix h henv _ hwf none true 0 (rcur.map (fun n => (n, 0))) rcur disc false outer ae none
        layout
        (fun it hm => Or.inl (splitExtends_none layout hs hlay it hm)) [] st (hscOf st hst.depth) hg
      simp only [List.append_nil, Option.isSome_none, Bool.or_false, stepItems] at hp
      rw [hp]
      cases specItems env ctx (specAll env ctx f) (defs env chain) (rcur.map (fun n => (n, 0))) disc false outer ae layout st.frames with
      | error e => simp [thenStepsF, outFr]
      | ok r => obtain ⟨o, fs⟩ := r; simp [thenStepsF, outFr]
    | some r =>
      obtain ⟨pre, t, post⟩ := r
      obtain ⟨hl, hpre, hpost⟩ := splitExtends_some layout pre post t hs hlay
      have hp := sim_prefix h henv _ hwf none true 0 (rcur.map (fun n => (n, 0))) rcur disc false outer ae none
        pre
        (fun it hm => Or.inl (hpre it hm)) (.extends true t :: post) st (hscOf st hst.depth) hg
      simp only [Option.isSome_none, Bool.or_false] at hp
      rw [hl, hp]
      simp only []
      cases specItems env ctx (specAll env ctx f) (defs env chain) (rcur.map (fun n => (n, 0))) disc false outer ae pre st.frames with
      | error e => simp [thenStepsF, outFr]
      | ok r1 =>
        obtain ⟨o, fs1⟩ := r1
        simp only [thenStepsF, stepItems, Bool.not_true, Bool.false_eq_true, if_false, Option.isSome_none, loadBlocks]
        by_cases hmem : t ∈ st.loaded
        · have : t ∈ chain.tail := (hst.loaded t).1 hmem
          simp [hmem, this, outFr]
        · have hmem' : t ∉ chain.tail := fun h' => hmem ((hst.loaded t).2 h')
          simp only [hmem, hmem', if_false]
          cases hT : env[t]? with
          | none => simp [outFr]
          | some T =>
            simp only []
            cases hL : T.loadErr with
            | some kk => simp [outFr]
            | none =>
            simp only []
            have hst1 : ∀ fs, ChainSt env (chain ++ [t])
                { blocks := appendBlocks st.blocks T.blocks, depth := st.depth, loaded := t :: st.loaded,
                  frames := fs } := by
              intro fs
              refine ⟨?_, hst.depth, ?_⟩
              · simp only [hst.blocks]; exact appendBlocks_defs env chain t T hT
              · intro t'
                cases chain with
                | nil => exact absurd rfl hne
                | cons c cs =>
                  simp only [List.cons_append, List.tail_cons, List.mem_cons, List.mem_append]
                  have := hst.loaded t'
                  simp only [List.tail_cons] at this
                  rw [this]; simp [or_comm]
            have hg1 : Good (defs env (chain ++ [t])) none true 0
                { blocks := appendBlocks st.blocks T.blocks, depth := st.depth, loaded := t :: st.loaded,
                  frames := fs1 } :=
              ⟨(hst1 fs1).blocks, (by intro n hn; cases hn), fun _ m _ => hst.depth m⟩
            have hp2 := sim_prefix h henv _ (WF_defs env henv (chain ++ [t])) none true 0 (rcur.map (fun n => (n, 0))) rcur
              disc false outer ae
              (some T.layout) post
              (fun it hm => (hpost it hm).elim Or.inl (fun hx => Or.inr ⟨rfl, hx⟩)) []
              { blocks := appendBlocks st.blocks T.blocks, depth := st.depth, loaded := t :: st.loaded, frames := fs1 }
              (hscOf { blocks := appendBlocks st.blocks T.blocks, depth := st.depth, loaded := t :: st.loaded, frames := fs1 }
                hst.depth) hg1
            simp only [List.append_nil, Option.isSome_some, Bool.or_true, stepItems] at hp2
            rw [hp2]
            cases specItems env ctx (specAll env ctx f) (defs env (chain ++ [t])) (rcur.map (fun n => (n, 0))) true true outer ae post fs1 with
            | error e => simp [thenStepsF, outFr]
            | ok r2 =>
              obtain ⟨o2, fs2⟩ := r2
              simp only [thenStepsF, List.append_nil]
              have hc := h.chain (chain ++ [t]) T.layout _ rcur disc outer ae (hst1 fs2) (henv.layout hT) (by simp)
              simp only [] at hc
              rw [← hc]
              have key : ∀ E : Res,
                  outFr (match E with
                    | .error e => .error e
                    | .ok (o', st'') => .ok (o ++ o2 ++ o', st'')) =
                  (match outFr E with
                    | .error e => .error e
                    | .ok (o3, fs3) => .ok (o ++ o2 ++ o3, fs3)) := by
                intro E
                cases E with
                | error e => rfl
                | ok r => rfl
              exact key _


/-- driver = spec at every nesting fuel -/
theorem hyp_all (env : Env) (ctx : Cfg) (henv : EnvOK env) : ∀ f, Hyp env ctx f
  | 0 => hyp_zero env ctx
  | f + 1 => hyp_succ env ctx henv f (hyp_all env ctx henv f)

end MJ.Blocks
