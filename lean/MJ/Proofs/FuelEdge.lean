import MJ.Model.FuelEdge
import MJ.Proofs.Fuel
import MJ.Proofs.FuelMachine
namespace MJ.Fuel
open MJ.Fuel.Tracker

theorem splice_total {cs : List (List String)} {f s : List String} (h : Splice cs f s) :
    total s = total f + calleesTotal cs := by
  induction h with
  | nil => simp [total, calleesTotal]
  | own i _ ih => simp only [total, ih]; omega
  | callee c _ ih => simp only [total_append, calleesTotal, ih]; omega

theorem calleesTotal_replicate (m : Nat) (c : List String) : calleesTotal (List.replicate m c) = m * total c := by
  induction m with
  | zero => simp [calleesTotal]
  | succ n ih => simp only [List.replicate_succ, calleesTotal, ih, Nat.succ_mul]; omega

/-- a splice exists for every way of cutting the frame: `pre ++ c ++ post` -/
theorem splice_mid (pre c post : List String) : Splice [c] (pre ++ post) (pre ++ c ++ post) := by
  induction pre with
  | nil =>
    simp only [List.nil_append]
    refine Splice.callee c ?_
    induction post with
    | nil => exact Splice.nil
    | cons i _ ih => exact Splice.own i ih
  | cons i _ ih => simpa using Splice.own i ih

end MJ.Fuel
