import MJ.Proofs.LexerStep
/-! The induction over the segment list: the token loop renders exactly `specTail`. -/
namespace MJ.Lexer

/-- tokens a tag contributes -/
def tagOuts (cfg : Cfg) (g : Tag) : List Out :=
  match g.kind with
  | .var _ => [.var]
  | .block _ _ => [.blk]
  | .comment _ => []
  | .raw c ri l2 _ => [.data (cut (leftCut cfg true ri c) (rightCut cfg false true l2 c) c)]

theorem renderOuts_append (vm bm : List Char) (a b : List Out) :
    renderOuts vm bm (a ++ b) = renderOuts vm bm a ++ renderOuts vm bm b := by
  induction a with
  | nil => rfl
  | cons x a ih => cases x <;> simp [renderOuts, ih]

theorem renderOuts_dataOut (vm bm s : List Char) : renderOuts vm bm (dataOut s) = s := by
  unfold dataOut
  cases s <;> simp [renderOuts]

theorem renderOuts_tagOuts (cfg : Cfg) (vm bm : List Char) (g : Tag) :
    renderOuts vm bm (tagOuts cfg g) = tagOut cfg vm bm g := by
  cases g with | mk kind l r => cases kind <;> simp [tagOuts, tagOut, renderOuts]

theorem renderRes_prepend (vm bm : List Char) (o : List Out) (r : Res) :
    renderRes vm bm (r.prepend o) = (renderRes vm bm r).map (renderOuts vm bm o ++ ·) := by
  cases r <;> simp [Res.prepend, renderRes, renderOuts_append]

theorem handleTag_tag (cfg : Cfg) {d : Delims} (gd : Good d) (lead : List Out) (g : Tag)
    (preTag t' more : List Char) (hm : NoWsHead more) (hfree : rawFree d g (t' ++ more) = true)
    (hcom : commentOk d g (t' ++ more) = true) :
    handleTag cfg d lead g.marker ((g.start d).length + g.l.ws.len) preTag (g.src d ++ (t' ++ more)) =
      .next (lead ++ tagOuts cfg g)
        ((t'.take (nextK cfg g.blockish g.r t')).reverse ++ ((g.src d).reverse ++ preTag))
        (t'.drop (nextK cfg g.blockish g.r t') ++ more) (nextTf g.r) := by
  cases g with
  | mk kind l r =>
    cases kind with
    | var tight => exact handleTag_var cfg gd lead tight l r preTag t' more
    | block w tight => exact handleTag_block cfg gd lead w tight l r preTag t' more hm
    | comment body =>
      simp only [commentOk, Bool.and_eq_true] at hcom
      exact handleTag_comment cfg gd lead body l r preTag t' more hm hcom.1.1 hcom.2
    | raw c ri l2 tight => exact handleTag_raw cfg gd lead c ri l2 tight l r preTag t' more hm hfree

/-- the byte behind the start delimiter is read as the tag's left marker -/
theorem Tag.ws_head {d : Delims} (gd : Good d) (g : Tag) (z : List Char) (hcom : commentOk d g z = true) :
    wsOfChar (g.after d ++ z).head? = g.l.ws := by
  obtain ⟨e0, er, hce, _, _, hm3, hm4⟩ := headOk_cons gd.ce
  have key : ∀ (l : Mark) (c : Char) (y rest : List Char), isMarkChar c = false → rest = l.src ++ (c :: y) →
      wsOfChar rest.head? = l.ws := by
    intro l c y rest hc hr; rw [hr]; exact wsOfChar_mark l c y hc
  cases g with
  | mk kind l r =>
    cases kind with
    | var tight =>
      cases tight
      · exact key l ' ' _ _ (by decide) (by simp [Tag.after, varBody, pad, List.append_assoc]; rfl)
      · exact key l 'v' _ _ (by decide) (by simp [Tag.after, varBody, pad, List.append_assoc]; rfl)
    | block w tight =>
      cases w <;> cases tight
      · exact key l ' ' _ _ (by decide) (by simp [Tag.after, Word.src, Word.core, pad, List.append_assoc]; rfl)
      · exact key l 'i' _ _ (by decide) (by simp [Tag.after, Word.src, Word.core, pad, List.append_assoc]; rfl)
      · exact key l ' ' _ _ (by decide) (by simp [Tag.after, Word.src, Word.core, pad, List.append_assoc]; rfl)
      · exact key l 'e' _ _ (by decide) (by simp [Tag.after, Word.src, Word.core, pad, List.append_assoc]; rfl)
    | raw c ri l2 tight =>
      cases tight
      · exact key l ' ' _ _ (by decide) (by simp [Tag.after, rawBody, rawName, pad, List.append_assoc]; rfl)
      · exact key l 'r' _ _ (by decide) (by simp [Tag.after, rawBody, rawName, pad, List.append_assoc]; rfl)
    | comment body =>
      cases l with
      | minus => simp [Tag.after, Mark.src, Mark.ws, wsOfChar]
      | plus => simp [Tag.after, Mark.src, Mark.ws, wsOfChar]
      | none =>
        simp only [commentOk, Bool.and_eq_true] at hcom
        have hA := hcom.1.2
        simp only [bodyStartOk, bne_self_eq_false, Bool.false_or] at hA
        have hsrc : (Tag.mk (.comment body) .none r).after d ++ z = (body ++ r.src) ++ (d.ce ++ z) := by
          simp [Tag.after, Mark.src, List.append_assoc]
        rw [hsrc]
        cases hbr : body ++ r.src with
        | nil => simp [hce, Mark.ws, wsOfChar, hm3, hm4]
        | cons c0 y0 =>
          have : isMarkChar c0 = false := by
            rw [hbr] at hA; simpa using hA
          have h2 : c0 ≠ '-' ∧ c0 ≠ '+' := by simpa [isMarkChar] using this
          simp [Mark.ws, wsOfChar, h2.1, h2.2]

theorem Tag.src_ne_nil {d : Delims} (gd : Good d) (g : Tag) : g.src d ≠ [] := by
  obtain ⟨c, r, h, _⟩ := own_cons gd (g.own d)
  simp [Tag.src, h]

/-- a tag ends in a character that is not whitespace -/
theorem Tag.src_rev_head {d : Delims} (gd : Good d) (g : Tag) :
    ∃ c r, (g.src d).reverse = c :: r ∧ isWs c = false := by
  cases g with
  | mk kind l r =>
    cases kind with
    | var tight =>
      obtain ⟨c, rr, h, hw⟩ := lastOk_rev gd.lve
      exact ⟨c, _, by simp [Tag.src, Tag.after, List.reverse_append, h]; rfl, hw⟩
    | block w tight =>
      obtain ⟨c, rr, h, hw⟩ := lastOk_rev gd.lbe
      exact ⟨c, _, by simp [Tag.src, Tag.after, List.reverse_append, h]; rfl, hw⟩
    | comment body =>
      obtain ⟨c, rr, h, hw⟩ := lastOk_rev gd.lce
      exact ⟨c, _, by simp [Tag.src, Tag.after, List.reverse_append, h]; rfl, hw⟩
    | raw cc ri l2 tight =>
      obtain ⟨c, rr, h, hw⟩ := lastOk_rev gd.lbe
      exact ⟨c, _, by simp [Tag.src, Tag.after, List.reverse_append, h]; rfl, hw⟩

theorem noWsHead_unparseTail {d : Delims} (gd : Good d) (tail : List (Tag × List Char)) :
    NoWsHead (unparseTail d tail) := by
  cases tail with
  | nil => exact Or.inl rfl
  | cons x rest =>
    obtain ⟨g, t'⟩ := x
    obtain ⟨c, r, h, hw⟩ := own_cons gd (g.own d)
    exact Or.inr ⟨c, r ++ (g.after d ++ (t' ++ unparseTail d rest)), by simp [unparseTail, Tag.src, h], hw⟩

/-- `trim_leading_whitespace` is the same as having skipped the whitespace already -/
theorem step_true (cfg : Cfg) (d : Delims) (find : FindStart) (ctx t more : List Char) (hm : NoWsHead more) :
    step cfg d find ctx (t ++ more) true =
      step cfg d find ((t.take (wsPre t)).reverse ++ ctx) (t.drop (wsPre t) ++ more) false := by
  unfold step
  simp only [if_true, Bool.false_eq_true, if_false, List.reverse_nil, List.nil_append]
  rw [takeWhile_ws_append t more hm, dropWhile_ws_append t more hm, takeWhile_eq_take, dropWhile_eq_drop]

/-- one round on `text ++ tag ++ …` (text already cut by `l` on the left) -/
theorem step_text_tag (cfg : Cfg) {d : Delims} (gd : Good d) {first : Bool} {ctx : List Char}
    (hc : CtxOk first ctx) (t : List Char) (l : Nat) (hl : l ≤ t.length) (g : Tag) (t' : List Char)
    (rest : List (Tag × List Char)) (hfree : tailFree d t ((g, t') :: rest) = true) :
    step cfg d (findLL d) ((t.take l).reverse ++ ctx) (t.drop l ++ unparseTail d ((g, t') :: rest)) false =
      .next (dataOut (cut l (rightCut cfg first g.blockish g.l t) t) ++ tagOuts cfg g)
        ((t'.take (nextK cfg g.blockish g.r t')).reverse ++ ((g.src d).reverse ++ (t.reverse ++ ctx)))
        (t'.drop (nextK cfg g.blockish g.r t') ++ unparseTail d rest) (nextTf g.r) := by
  simp only [tailFree, Bool.and_eq_true] at hfree
  obtain ⟨⟨⟨⟨hns, hown⟩, hraw⟩, hcom⟩, _⟩ := hfree
  have hsw : startsWith (g.start d) (unparseTail d ((g, t') :: rest)) = true := by
    simp only [unparseTail, Tag.src, List.append_assoc]
    exact startsWith_append_self _ _
  have hfind := findLL_text_tag gd (g.start d) g.marker (g.own d) (t.drop l) _ ((t.take l).reverse ++ ctx)
    (noStartIn_drop t _ l hns) hsw hown
  unfold step
  simp only [Bool.false_eq_true, if_false, List.reverse_nil, List.nil_append, hfind]
  rw [List.take_left, List.drop_left]
  have hpre : (t.drop l).reverse ++ ((t.take l).reverse ++ ctx) = t.reverse ++ ctx := by
    rw [← List.append_assoc, ← List.reverse_append, List.take_append_drop]
  rw [hpre]
  have hsrc : unparseTail d ((g, t') :: rest) = g.src d ++ (t' ++ unparseTail d rest) := by
    simp [unparseTail]
  have hws : wsOfChar ((unparseTail d ((g, t') :: rest)).drop (g.start d).length).head? = g.l.ws := by
    rw [hsrc, Tag.src, List.append_assoc, List.drop_left, Tag.ws_head gd g _ hcom]
  rw [hws, if_neg (Tag.marker_ne_lineStmt g)]
  rw [leadOf_eq_cut cfg hc g.l g.marker g.blockish (Tag.marker_blockish g) (Tag.marker_ne_lineStmt g)
    (Tag.marker_ne_lineComment g) t l]
  rw [hsrc, handleTag_tag cfg gd _ g _ t' _ (noWsHead_unparseTail gd rest) hraw hcom]

/-- the last text: no start marker is found -/
theorem step_last (cfg : Cfg) {d : Delims} (gd : Good d) (ctx t : List Char) (l : Nat)
    (hfree : tailFree d t [] = true) :
    step cfg d (findLL d) ((t.take l).reverse ++ ctx) (t.drop l ++ unparseTail d []) false =
      .stop (.ok (dataOut (t.drop l))) := by
  simp only [tailFree] at hfree
  unfold step
  simp only [Bool.false_eq_true, if_false, List.reverse_nil, List.nil_append, unparseTail, List.append_nil,
    findLL_none gd _ _ (noStartIn_drop t [] l hfree)]

/-- the token loop on the rest of a template renders `specTail` -/
theorem lexGo_spec (cfg : Cfg) (vm bm : List Char) {d : Delims} (gd : Good d)
    (tail : List (Tag × List Char)) :
    ∀ (t : List Char) (first : Bool) (ctx : List Char) (k : Nat) (tf : Bool) (fuel : Nat),
      CtxOk first ctx → tailFree d t tail = true → k ≤ t.length → (tf = true → k = 0) →
      (t.drop k ++ unparseTail d tail).length < fuel →
      renderRes vm bm (lexGo cfg d (findLL d) fuel ((t.take k).reverse ++ ctx) (t.drop k ++ unparseTail d tail) tf) =
        some (specTail cfg vm bm first (if tf then wsPre t else k) t tail) := by
  induction tail with
  | nil =>
    intro t first ctx k tf fuel hc hfree hk htf hfuel
    cases fuel with
    | zero => omega
    | succ n =>
      unfold lexGo
      cases tf with
      | true =>
        have hk0 := htf rfl
        subst hk0
        have := step_true cfg d (findLL d) ctx t (unparseTail d []) (noWsHead_unparseTail gd [])
        simp only [List.take_zero, List.reverse_nil, List.nil_append, List.drop_zero]
        rw [this, step_last cfg gd ctx t _ hfree]
        simp [renderRes, renderOuts_dataOut, specTail]
      | false =>
        rw [step_last cfg gd ctx t _ hfree]
        simp [renderRes, renderOuts_dataOut, specTail]
  | cons x rest ih =>
    obtain ⟨g, t'⟩ := x
    intro t first ctx k tf fuel hc hfree hk htf hfuel
    have hfree' : tailFree d t' rest = true := by
      simp only [tailFree, Bool.and_eq_true] at hfree; exact hfree.2
    cases fuel with
    | zero => omega
    | succ n =>
      -- reduce to the state in which the left cut `l` has been skipped
      have key : ∀ l, l ≤ t.length → (t.drop l ++ unparseTail d ((g, t') :: rest)).length < n + 1 →
          renderRes vm bm
            (match step cfg d (findLL d) ((t.take l).reverse ++ ctx) (t.drop l ++ unparseTail d ((g, t') :: rest)) false with
              | .stop r => r
              | .next o pre' rest' tf' => (lexGo cfg d (findLL d) n pre' rest' tf').prepend o) =
            some (specTail cfg vm bm first l t ((g, t') :: rest)) := by
        intro l hl hfl
        rw [step_text_tag cfg gd hc t l hl g t' rest hfree]
        simp only []
        rw [renderRes_prepend]
        have hctx : CtxOk false ((g.src d).reverse ++ (t.reverse ++ ctx)) := by
          obtain ⟨c, r, h, hw⟩ := Tag.src_rev_head gd g
          exact Or.inr ⟨rfl, c, r ++ (t.reverse ++ ctx), by simp [h], hw⟩
        have hlen : (t'.drop (nextK cfg g.blockish g.r t') ++ unparseTail d rest).length < n := by
          have h1 : (g.src d).length > 0 := List.length_pos_iff.2 (Tag.src_ne_nil gd g)
          simp only [unparseTail, List.length_append, List.length_drop] at hfl ⊢
          omega
        rw [ih t' false _ (nextK cfg g.blockish g.r t') (nextTf g.r) n hctx hfree'
          (nextK_le cfg g.blockish g.r t') (nextTf_k cfg g.blockish g.r t') hlen]
        simp only [Option.map_some, specTail, renderOuts_append, renderOuts_dataOut, renderOuts_tagOuts,
          leftCut_eq, List.append_assoc]
      unfold lexGo
      cases tf with
      | true =>
        have hk0 := htf rfl
        subst hk0
        have := step_true cfg d (findLL d) ctx t (unparseTail d ((g, t') :: rest))
          (noWsHead_unparseTail gd ((g, t') :: rest))
        simp only [List.take_zero, List.reverse_nil, List.nil_append, List.drop_zero] at hfuel ⊢
        rw [this]
        refine key (wsPre t) (wsPre_le t) ?_
        simp only [List.length_append, List.length_drop] at hfuel ⊢
        omega
      | false => exact key k hk hfuel

end MJ.Lexer
