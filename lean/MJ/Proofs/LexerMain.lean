import MJ.Proofs.LexerStep
/-! The induction over the segment list: the token loop renders exactly `specTail`. -/
namespace MJ.Lexer

/-- tokens a tag contributes -/
def tagOuts (cfg : Cfg) (g : Tag) : List Out :=
  match g.kind with
  | .var _ => [.var]
  | .block _ => [.blk]
  | .comment _ => []
  | .raw c ri l2 _ => [.data (cut (leftCut cfg true ri c) (rightCut cfg false true l2 c) c)]
  | .lineStmt _ => [.blk]
  | .lineComment _ => []

theorem renderOuts_append (vm bm : List Char) (a b : List Out) :
    renderOuts vm bm (a ++ b) = renderOuts vm bm a ++ renderOuts vm bm b := by
  induction a with
  | nil => rfl
  | cons x a ih => cases x <;> simp [renderOuts, ih]

theorem renderOuts_dataOut (vm bm s : List Char) : renderOuts vm bm (dataOut s) = s := by
  unfold dataOut
  cases s <;> simp [renderOuts]

theorem renderOuts_tagOuts (cfg : Cfg) (vm bm : List Char) (g : Tag) :
    renderOuts vm bm (tagOuts cfg g) = tagOut cfg vm bm g := by
  cases g with | mk kind l r => cases kind <;> simp [tagOuts, tagOut, renderOuts]

theorem renderRes_prepend (vm bm : List Char) (o : List Out) (r : Res) :
    renderRes vm bm (r.prepend o) = (renderRes vm bm r).map (renderOuts vm bm o ++ ·) := by
  cases r <;> simp [Res.prepend, renderRes, renderOuts_append]

/-- line statements and line comments carry no markers -/
theorem line_marks {d : Delims} {g : Tag} {z : List Char} (hok : tagOk d g z = true) (hl : g.isLine = true) :
    g.l = .none ∧ g.r = .none := by
  cases g with
  | mk kind l r =>
    cases kind with
    | lineStmt ts =>
      simp only [tagOk, Bool.and_eq_true, beq_iff_eq] at hok
      exact ⟨hok.1.1.1.2, hok.1.1.2⟩
    | lineComment body =>
      simp only [tagOk, Bool.and_eq_true, beq_iff_eq] at hok
      exact ⟨hok.1.1.1.1.2, hok.1.1.1.2⟩
    | var ts => simp [Tag.isLine] at hl
    | block ts => simp [Tag.isLine] at hl
    | comment b => simp [Tag.isLine] at hl
    | raw c ri l2 tight => simp [Tag.isLine] at hl

theorem handleTag_tag (cfg : Cfg) {d : Delims} (gd : Good d) (lead : List Out) (g : Tag)
    (preTag t' more : List Char) (hm : NoWsHead more) (hfree : rawFree d g (t' ++ more) = true)
    (hcom : tagOk d g (t' ++ more) = true) :
    handleTag cfg d lead g.marker ((g.start d).length + g.l.ws.len) preTag (g.src d ++ (t' ++ more)) =
      .next (lead ++ tagOuts cfg g)
        ((t'.take (nextKG cfg g t')).reverse ++ ((g.src d).reverse ++ preTag))
        (t'.drop (nextKG cfg g t') ++ more) (nextTf g.r) := by
  cases g with
  | mk kind l r =>
    cases kind with
    | var ts =>
      simp only [tagOk, Bool.and_eq_true] at hcom
      exact handleTag_var cfg gd lead ts l r preTag t' more hcom.1.1 hcom.2
    | block ts =>
      simp only [tagOk, Bool.and_eq_true, Bool.not_eq_true'] at hcom
      exact handleTag_block cfg gd lead ts l r preTag t' more hm hcom.1.1.1 hcom.1.2 hcom.2
    | comment body =>
      simp only [tagOk, Bool.and_eq_true] at hcom
      exact handleTag_comment cfg gd lead body l r preTag t' more hm hcom.1.1 hcom.2
    | raw c ri l2 tight =>
      simp only [tagOk, Bool.and_eq_true] at hcom
      exact handleTag_raw cfg gd lead c ri l2 tight l r preTag t' more hm hfree hcom.1 hcom.2
    | lineStmt ts =>
      obtain ⟨rfl, rfl⟩ := line_marks hcom rfl
      simp only [tagOk, Bool.and_eq_true, Bool.not_eq_true', List.isEmpty_eq_false_iff] at hcom
      have hls : d.ls ≠ [] := by
        have : d.ls.isEmpty = false := by simpa using hcom.1.1.1.1
        intro h0; simp [h0] at this
      exact handleTag_lineStmt cfg lead ts preTag t' more hm hls hcom.1.2 hcom.2
    | lineComment body =>
      obtain ⟨rfl, rfl⟩ := line_marks hcom rfl
      simp only [tagOk, Bool.and_eq_true, Bool.not_eq_true', List.all_eq_true] at hcom
      have hlc : d.lc ≠ [] := by
        have : d.lc.isEmpty = false := by simpa using hcom.1.1.1.1.1
        intro h0; simp [h0] at this
      have := handleTag_lineComment cfg lead body preTag t' more hm hlc hcom.1.1.2 hcom.1.2
      have hmm : (Mark.none == Mark.minus) = false := rfl
      simpa [nextKG, nextK, cfgFor, Tag.isLine, Tag.blockish, nextTf, hmm, tagOuts, Tag.marker, Tag.start, Mark.ws, Ws.len] using this

/-- `bodyStartOk`: behind an unmarked opening side there is no `-`/`+` -/
theorem wsOfChar_body (body : List Char) (l r : Mark) (e z : List Char) (he : e ≠ [])
    (h : bodyStartOk body l r e = true) :
    wsOfChar (l.src ++ (body ++ (r.src ++ (e ++ z)))).head? = l.ws := by
  cases l with
  | minus => simp [Mark.src, Mark.ws, wsOfChar]
  | plus => simp [Mark.src, Mark.ws, wsOfChar]
  | none =>
    simp only [bodyStartOk, bne_self_eq_false, Bool.false_or] at h
    have hsrc : Mark.none.src ++ (body ++ (r.src ++ (e ++ z))) = (body ++ (r.src ++ e)) ++ z := by
      simp [Mark.src, List.append_assoc]
    rw [hsrc]
    cases hbr : body ++ (r.src ++ e) with
    | nil => exact absurd (by simpa using hbr : _ ∧ _ ∧ e = []).2.2 he
    | cons c0 y0 =>
      have : isMarkChar c0 = false := by
        rw [hbr] at h; simpa using h
      have h2 : c0 ≠ '-' ∧ c0 ≠ '+' := by simpa [isMarkChar] using this
      simp [Mark.ws, wsOfChar, h2.1, h2.2]

/-- the byte behind the start delimiter is read as the tag's left marker (a line statement has
    none) -/
theorem Tag.ws_head {d : Delims} (gd : Good d) (g : Tag) (z : List Char) (hcom : tagOk d g z = true) :
    (if g.marker = .lineStmt then Ws.dflt else wsOfChar (g.after d ++ z).head?) = g.l.ws := by
  cases g with
  | mk kind l r =>
    cases kind with
    | var ts =>
      simp only [tagOk, Bool.and_eq_true] at hcom
      have := wsOfChar_body (srcs ts) l r d.ve z (headOk_ne gd.ve) hcom.1.2
      simpa [Tag.after, Tag.marker, List.append_assoc] using this
    | block ts =>
      simp only [tagOk, Bool.and_eq_true] at hcom
      have := wsOfChar_body (srcs ts) l r d.be z (headOk_ne gd.be) hcom.1.1.2
      simpa [Tag.after, Tag.marker, List.append_assoc] using this
    | comment body =>
      simp only [tagOk, Bool.and_eq_true] at hcom
      have := wsOfChar_body body l r d.ce z gd.ce hcom.1.2
      simpa [Tag.after, Tag.marker, List.append_assoc] using this
    | raw c ri l2 tight =>
      have key : ∀ (c0 : Char) (y rest : List Char), isMarkChar c0 = false → rest = l.src ++ (c0 :: y) →
          wsOfChar rest.head? = l.ws := by
        intro c0 y rest hc hr; rw [hr]; exact wsOfChar_mark l c0 y hc
      simp only [Tag.marker, if_neg (by simp : Marker.block ≠ Marker.lineStmt)]
      cases tight
      · exact key ' ' _ _ (by decide) (by simp [Tag.after, rawBody, rawName, pad, List.append_assoc]; rfl)
      · exact key 'r' _ _ (by decide) (by simp [Tag.after, rawBody, rawName, pad, List.append_assoc]; rfl)
    | lineStmt ts =>
      obtain ⟨rfl, rfl⟩ := line_marks hcom rfl
      simp [Tag.marker, Mark.ws]
    | lineComment body =>
      obtain ⟨rfl, rfl⟩ := line_marks hcom rfl
      simp only [tagOk, Bool.and_eq_true] at hcom
      have h := hcom.2
      simp only [Tag.marker, if_neg (by simp : Marker.lineComment ≠ Marker.lineStmt), Tag.after, Mark.ws]
      cases hb : body ++ z with
      | nil => simp [wsOfChar]
      | cons c0 y0 =>
        rw [hb] at h
        have h2 : c0 ≠ '-' ∧ c0 ≠ '+' := by simpa [isMarkChar] using h
        simp [wsOfChar, h2.1, h2.2]

theorem Tag.src_ne_nil {d : Delims} (gd : Good d) (g : Tag) (z : List Char) (hok : tagOk d g z = true) :
    g.src d ≠ [] := by
  obtain ⟨c, r, h, _⟩ := own_cons gd (g.own z hok)
  simp [Tag.src, h]

/-- a tag that is not a line statement / line comment ends in a character that is not whitespace,
    possibly followed by horizontal whitespace (of its end delimiter) -/
theorem Tag.src_rev_head {d : Delims} (gd : Good d) (g : Tag) (hl : g.isLine = false) :
    ∃ u c r, (g.src d).reverse = u ++ c :: r ∧ (∀ x ∈ u, isHws x = true) ∧ isWs c = false := by
  cases g with
  | mk kind l r =>
    cases kind with
    | var ts =>
      obtain ⟨u, c, rr, h, hu, hw⟩ := lastOk_rev gd.lve
      exact ⟨u, c, _, by simp [Tag.src, Tag.after, List.reverse_append, h]; rfl, hu, hw⟩
    | block ts =>
      obtain ⟨u, c, rr, h, hu, hw⟩ := lastOk_rev gd.lbe
      exact ⟨u, c, _, by simp [Tag.src, Tag.after, List.reverse_append, h]; rfl, hu, hw⟩
    | comment body =>
      obtain ⟨u, c, rr, h, hu, hw⟩ := lastOk_rev gd.lce
      exact ⟨u, c, _, by simp [Tag.src, Tag.after, List.reverse_append, h]; rfl, hu, hw⟩
    | raw cc ri l2 tight =>
      obtain ⟨u, c, rr, h, hu, hw⟩ := lastOk_rev gd.lbe
      exact ⟨u, c, _, by simp [Tag.src, Tag.after, List.reverse_append, h]; rfl, hu, hw⟩
    | lineStmt ts => simp [Tag.isLine] at hl
    | lineComment b => simp [Tag.isLine] at hl

theorem noWsHead_unparseTail {d : Delims} (gd : Good d) {first : Bool} {t : List Char}
    (tail : List (Tag × List Char)) (h : tailFree d first t tail = true) :
    NoWsHead (unparseTail d tail) := by
  cases tail with
  | nil => exact Or.inl rfl
  | cons x rest =>
    obtain ⟨g, t'⟩ := x
    simp only [tailFree, Bool.and_eq_true] at h
    obtain ⟨c, r, hc, hw⟩ := own_cons gd (g.own _ h.1.1.2)
    exact Or.inr ⟨c, r ++ (g.after d ++ (t' ++ unparseTail d rest)), by simp [unparseTail, Tag.src, hc], hw⟩

/-- behind a line statement / line comment that is followed by another tag, the text contains the
    line break: the line-start scans of the next tag stay inside it -/
theorem line_text_has_nl {d : Delims} {g : Tag} {t' more : List Char} (hok : tagOk d g (t' ++ more) = true)
    (hl : g.isLine = true) (hm : ∃ c r, more = c :: r ∧ isWs c = false) :
    ∃ c ∈ t', isHws c = false := by
  obtain ⟨c0, r0, rfl, hw0⟩ := hm
  have key : ∀ (hf : lineFollow (t' ++ c0 :: r0) = true), ∃ c ∈ t', isHws c = false := by
    intro hf
    by_cases hall : ∀ x ∈ t', isHws x = true
    · exfalso
      unfold lineFollow at hf
      rw [List.dropWhile_append_of_pos hall, List.dropWhile_cons, isWs_false_not_hws hw0] at hf
      simp only [Bool.false_eq_true, if_false] at hf
      rw [isWs_false_not_nl hw0] at hf; cases hf
    · have : ∃ x, x ∈ t' ∧ isHws x = false := by
        apply Classical.byContradiction
        intro hne
        apply hall
        intro x hx
        cases hh : isHws x with
        | true => rfl
        | false => exact absurd ⟨x, hx, hh⟩ hne
      obtain ⟨x, hx, hxh⟩ := this
      exact ⟨x, hx, hxh⟩
  cases g with
  | mk kind l r =>
    cases kind with
    | lineStmt ts =>
      simp only [tagOk, Bool.and_eq_true] at hok
      exact key hok.2
    | lineComment body =>
      simp only [tagOk, Bool.and_eq_true] at hok
      have hcf := hok.1.2
      cases t' with
      | nil =>
        simp only [List.nil_append, commentFollow] at hcf
        rw [isWs_false_not_nl hw0] at hcf; cases hcf
      | cons a t'' =>
        simp only [List.cons_append, commentFollow] at hcf
        exact ⟨a, by simp, by simp [isHws, hcf]⟩
    | var ts => simp [Tag.isLine] at hl
    | block ts => simp [Tag.isLine] at hl
    | comment b => simp [Tag.isLine] at hl
    | raw c ri l2 tight => simp [Tag.isLine] at hl

/-- `trim_leading_whitespace` is the same as having skipped the whitespace already -/
theorem step_true (cfg : Cfg) (d : Delims) (find : FindStart) (ctx t more : List Char) (hm : NoWsHead more) :
    step cfg d find ctx (t ++ more) true =
      step cfg d find ((t.take (wsPre t)).reverse ++ ctx) (t.drop (wsPre t) ++ more) false := by
  unfold step
  simp only [if_true, Bool.false_eq_true, if_false, List.reverse_nil, List.nil_append]
  rw [takeWhile_ws_append t more hm, dropWhile_ws_append t more hm, takeWhile_eq_take, dropWhile_eq_drop]

/-- one round on `text ++ tag ++ …` (text already cut by `l` on the left) -/
theorem step_text_tag (cfg : Cfg) {d : Delims} (gd : Good d) {first : Bool} {ctx : List Char}
    (t : List Char) (hc : CtxInv first ctx t) (l : Nat) (hl : l ≤ t.length) (g : Tag) (t' : List Char)
    (rest : List (Tag × List Char)) (hfree : tailFree d first t ((g, t') :: rest) = true) :
    step cfg d (findLL d) ((t.take l).reverse ++ ctx) (t.drop l ++ unparseTail d ((g, t') :: rest)) false =
      .next (dataOut (cut l (rightCutG cfg first g t) t) ++ tagOuts cfg g)
        ((t'.take (nextKG cfg g t')).reverse ++ ((g.src d).reverse ++ (t.reverse ++ ctx)))
        (t'.drop (nextKG cfg g t') ++ unparseTail d rest) (nextTf g.r) := by
  have hmore := noWsHead_unparseTail gd rest (by
    simp only [tailFree, Bool.and_eq_true] at hfree; exact hfree.2)
  simp only [tailFree, Bool.and_eq_true] at hfree
  obtain ⟨⟨⟨⟨⟨hns, hown⟩, hraw⟩, hcom⟩, hline⟩, _⟩ := hfree
  have hsw : startsWith (g.start d) (unparseTail d ((g, t') :: rest)) = true := by
    simp only [unparseTail, Tag.src, List.append_assoc]
    exact startsWith_append_self _ _
  have hpre : (t.drop l).reverse ++ ((t.take l).reverse ++ ctx) = t.reverse ++ ctx := by
    rw [← List.append_assoc, ← List.reverse_append, List.take_append_drop]
  have hline' : g.marker ≠ .lineStmt ∨ lineStartP ((t.drop l).reverse ++ ((t.take l).reverse ++ ctx)) = true := by
    rw [hpre, lineStartP_eq t hc]
    simpa using hline
  have hfind := findLL_text_tag gd (g.start d) g.marker (g.own _ hcom) (t.drop l) _ ((t.take l).reverse ++ ctx)
    (noStartIn_drop t _ l hns) hsw hown hline'
  unfold step
  simp only [Bool.false_eq_true, if_false, List.reverse_nil, List.nil_append, hfind]
  rw [List.take_left, List.drop_left, hpre]
  have hsrc : unparseTail d ((g, t') :: rest) = g.src d ++ (t' ++ unparseTail d rest) := by
    simp [unparseTail]
  have hws : (if g.marker = .lineStmt then Ws.dflt
      else wsOfChar ((unparseTail d ((g, t') :: rest)).drop (g.start d).length).head?) = g.l.ws := by
    rw [hsrc, Tag.src, List.append_assoc, List.drop_left]
    exact Tag.ws_head gd g _ hcom
  rw [hws]
  have hlead : leadOf cfg g.l.ws g.marker (t.reverse ++ ctx) (t.drop l) = cut l (rightCutG cfg first g t) t := by
    cases hgl : g.isLine with
    | false =>
      have : cfgFor cfg g = cfg := by simp [cfgFor, hgl]
      simp only [rightCutG, this]
      exact leadOf_eq_cut cfg t hc g.l g.marker g.blockish (Tag.marker_blockish g)
        (Tag.marker_ne_lineStmt g hgl) (Tag.marker_ne_lineComment g hgl) l
    | true =>
      obtain ⟨h1, _⟩ := line_marks hcom hgl
      have hb : g.blockish = true := by
        cases g with | mk kind l r => cases kind <;> simp_all [Tag.isLine, Tag.blockish]
      have hm : g.marker = .lineStmt ∨ g.marker = .lineComment := by
        cases g with | mk kind l r => cases kind <;> simp_all [Tag.isLine, Tag.marker]
      simp only [rightCutG, cfgFor, hgl, if_true, h1, hb, Mark.ws]
      exact leadOf_line_eq_cut cfg t hc g.marker hm l
  rw [hlead, hsrc, handleTag_tag cfg gd _ g _ t' _ hmore hraw hcom]

/-- the last text: no start marker is found -/
theorem step_last (cfg : Cfg) {d : Delims} {first : Bool} (ctx t : List Char) (l : Nat)
    (hfree : tailFree d first t [] = true) :
    step cfg d (findLL d) ((t.take l).reverse ++ ctx) (t.drop l ++ unparseTail d []) false =
      .stop (.ok (dataOut (t.drop l))) := by
  simp only [tailFree] at hfree
  unfold step
  simp only [Bool.false_eq_true, if_false, List.reverse_nil, List.nil_append, unparseTail, List.append_nil,
    findLL_none _ _ (noStartIn_drop t [] l hfree)]

/-- the token loop on the rest of a template renders `specTail` -/
theorem lexGo_spec (cfg : Cfg) (vm bm : List Char) {d : Delims} (gd : Good d)
    (tail : List (Tag × List Char)) :
    ∀ (t : List Char) (first : Bool) (ctx : List Char) (k : Nat) (tf : Bool) (fuel : Nat),
      (tail ≠ [] → CtxInv first ctx t) → tailFree d first t tail = true → k ≤ t.length → (tf = true → k = 0) →
      (t.drop k ++ unparseTail d tail).length < fuel →
      renderRes vm bm (lexGo cfg d (findLL d) fuel ((t.take k).reverse ++ ctx) (t.drop k ++ unparseTail d tail) tf) =
        some (specTail cfg vm bm first (if tf then wsPre t else k) t tail) := by
  induction tail with
  | nil =>
    intro t first ctx k tf fuel hc hfree hk htf hfuel
    cases fuel with
    | zero => omega
    | succ n =>
      unfold lexGo
      cases tf with
      | true =>
        have hk0 := htf rfl
        subst hk0
        have := step_true cfg d (findLL d) ctx t (unparseTail d []) (Or.inl rfl)
        simp only [List.take_zero, List.reverse_nil, List.nil_append, List.drop_zero]
        rw [this, step_last cfg ctx t _ hfree]
        simp [renderRes, renderOuts_dataOut, specTail]
      | false =>
        rw [step_last cfg ctx t _ hfree]
        simp [renderRes, renderOuts_dataOut, specTail]
  | cons x rest ih =>
    obtain ⟨g, t'⟩ := x
    intro t first ctx k tf fuel hc hfree hk htf hfuel
    have hc' : CtxInv first ctx t := hc (by simp)
    have hparts : tagOk d g (t' ++ unparseTail d rest) = true ∧ tailFree d false t' rest = true := by
      simp only [tailFree, Bool.and_eq_true] at hfree; exact ⟨hfree.1.1.2, hfree.2⟩
    obtain ⟨hcom, hfree'⟩ := hparts
    have hmore := noWsHead_unparseTail gd rest hfree'
    cases fuel with
    | zero => omega
    | succ n =>
      -- reduce to the state in which the left cut `l` has been skipped
      have key : ∀ l, l ≤ t.length → (t.drop l ++ unparseTail d ((g, t') :: rest)).length < n + 1 →
          renderRes vm bm
            (match step cfg d (findLL d) ((t.take l).reverse ++ ctx) (t.drop l ++ unparseTail d ((g, t') :: rest)) false with
              | .stop r => r
              | .next o pre' rest' tf' => (lexGo cfg d (findLL d) n pre' rest' tf').prepend o) =
            some (specTail cfg vm bm first l t ((g, t') :: rest)) := by
        intro l hl hfl
        rw [step_text_tag cfg gd t hc' l hl g t' rest hfree]
        simp only []
        rw [renderRes_prepend]
        have hmarks : g.isLine = true → g.r = .none := fun h => (line_marks hcom h).2
        have hctx : rest ≠ [] → CtxInv false ((g.src d).reverse ++ (t.reverse ++ ctx)) t' := by
          intro hne
          cases hgl : g.isLine with
          | false =>
            obtain ⟨u, c, r, h, hu, hw⟩ := Tag.src_rev_head gd g hgl
            exact Or.inl (Or.inr ⟨rfl, u, c, r ++ (t.reverse ++ ctx), by simp [h], hu, hw⟩)
          | true =>
            right
            apply line_text_has_nl hcom hgl
            rcases hmore with h0 | h0
            · cases rest with
              | nil => exact absurd rfl hne
              | cons y ys =>
                obtain ⟨g2, t2⟩ := y
                have hok2 : tagOk d g2 (t2 ++ unparseTail d ys) = true := by
                  simp only [tailFree, Bool.and_eq_true] at hfree'; exact hfree'.1.1.2
                have := Tag.src_ne_nil gd g2 _ hok2
                simp [unparseTail] at h0
                exact absurd h0.1 this
            · exact h0
        have hlen : (t'.drop (nextKG cfg g t') ++ unparseTail d rest).length < n := by
          have h1 : (g.src d).length > 0 := List.length_pos_iff.2 (Tag.src_ne_nil gd g _ hcom)
          simp only [unparseTail, List.length_append, List.length_drop] at hfl ⊢
          omega
        rw [ih t' false _ (nextKG cfg g t') (nextTf g.r) n hctx hfree'
          (nextKG_le cfg g t') (nextTf_kG cfg g t' hmarks) hlen]
        simp only [Option.map_some, specTail, renderOuts_append, renderOuts_dataOut, renderOuts_tagOuts,
          leftCutG_eq cfg g t' hmarks, List.append_assoc]
      unfold lexGo
      cases tf with
      | true =>
        have hk0 := htf rfl
        subst hk0
        have := step_true cfg d (findLL d) ctx t (unparseTail d ((g, t') :: rest))
          (noWsHead_unparseTail gd ((g, t') :: rest) hfree)
        simp only [List.take_zero, List.reverse_nil, List.nil_append, List.drop_zero] at hfuel ⊢
        rw [this]
        refine key (wsPre t) (wsPre_le t) ?_
        simp only [List.length_append, List.length_drop] at hfuel ⊢
        omega
      | false => exact key k hk hfuel

end MJ.Lexer
