import MJ.Proofs.StmtSim
/-!
# Discarded output (C03 stage 3)

The top level of a child template (after `{% extends %}`) and of a module loaded with
`{% from … import … %}` runs with an output that throws away what is written to it, while the
assignments persist (`MJ.Eval.renderAfter`, `MJ.Vm.renderCodeAfter`).

* `run_erase`: a run with a discarding output (`runD`) goes through the same program counters,
  operand stacks and frames as the ordinary run, and ends with the same capture buffers above the
  bottom entry — in particular a capture begun under a discarding output records exactly what it
  records otherwise.
* `vm_refines_eval_discard`: the refinement theorem for this entry form.
-/
namespace MJ.Vm
open MJ.Eval MJ.Compile MJ.C03

def eraseOuts (outs : List String) : List String :=
  match outs.reverse with
  | [] => []
  | _ :: r => ("" :: r).reverse

theorem eraseBottom_eq (s : VmState) : eraseBottom s = { s with outs := eraseOuts s.outs } := rfl

@[simp] theorem eraseOuts_nil : eraseOuts [] = [] := rfl
@[simp] theorem eraseOuts_single (b : String) : eraseOuts [b] = [""] := rfl

theorem eraseOuts_cons (o : String) : ∀ (l : List String), l ≠ [] → eraseOuts (o :: l) = o :: eraseOuts l := by
  intro l hl
  simp only [eraseOuts, List.reverse_cons]
  cases h : l.reverse with
  | nil => simp at h; exact absurd h hl
  | cons x xs => simp

theorem eraseOuts_length : ∀ (l : List String), (eraseOuts l).length = l.length := by
  intro l
  simp only [eraseOuts]
  cases h : l.reverse with
  | nil => simp at h; simp [h]
  | cons x xs =>
    have : l.length = xs.length + 1 := by rw [← List.length_reverse, h]; rfl
    simp [this]

theorem eraseOuts_ne_nil {l : List String} (h : l ≠ []) : eraseOuts l ≠ [] := by
  intro e
  have := eraseOuts_length l
  rw [e] at this
  cases l with
  | nil => exact h rfl
  | cons _ _ => simp at this

theorem eraseOuts_idem : ∀ (l : List String), eraseOuts (eraseOuts l) = eraseOuts l
  | [] => rfl
  | [_] => rfl
  | o :: r :: rest => by
    rw [eraseOuts_cons o (r :: rest) (by simp), eraseOuts_cons o _ (eraseOuts_ne_nil (by simp)),
      eraseOuts_idem (r :: rest)]

theorem eraseOuts_appendOut (t : String) : ∀ (l : List String),
    eraseOuts (appendOut t (eraseOuts l)) = eraseOuts (appendOut t l)
  | [] => rfl
  | [_] => rfl
  | o :: r :: rest => by
    rw [eraseOuts_cons o (r :: rest) (by simp)]
    simp only [appendOut]
    rw [eraseOuts_cons _ _ (eraseOuts_ne_nil (by simp)), eraseOuts_cons _ (r :: rest) (by simp), eraseOuts_idem]

/-- instructions other than the output instructions do not look at the output -/
theorem step_outs (ctx : Scope) (i : Instr) (s : VmState) (o : List String)
    (h1 : i ≠ .emit) (h2 : ∀ t, i ≠ .emitRaw t) (h3 : i ≠ .beginCapture) (h4 : i ≠ .endCapture) :
    step ctx i { s with outs := o } = (step ctx i s).map fun t => { t with outs := o } := by
  cases i <;> simp_all [step, Except.map, binArith, binCmp]
  all_goals (repeat' (first | rfl | split)) <;> simp_all

/-- one step with the bottom entry of the output erased: the same step, up to the bottom entry -/
theorem step_erase (ctx : Scope) (i : Instr) (s s' : VmState) (h : step ctx i s = .ok s') :
    ∃ t, step ctx i (eraseBottom s) = .ok t ∧ eraseBottom t = eraseBottom s' := by
  by_cases h1 : i = .emit
  · subst h1
    simp only [step] at h ⊢
    cases hs : s.stack with
    | nil => rw [hs] at h; simp at h
    | cons v rest =>
      rw [hs] at h; simp at h; subst h
      refine ⟨_, by simp [eraseBottom_eq, hs]; rfl, ?_⟩
      simp [eraseBottom_eq, eraseOuts_appendOut]
  by_cases h2 : ∃ t, i = .emitRaw t
  · obtain ⟨t, rfl⟩ := h2
    simp only [step] at h ⊢
    simp at h; subst h
    exact ⟨_, rfl, by simp [eraseBottom_eq, eraseOuts_appendOut]⟩
  by_cases h3 : i = .beginCapture
  · subst h3
    simp only [step] at h ⊢
    simp at h; subst h
    refine ⟨_, rfl, ?_⟩
    simp only [eraseBottom_eq]
    cases ho : s.outs with
    | nil => rfl
    | cons r rest =>
      rw [eraseOuts_cons "" _ (eraseOuts_ne_nil (by simp)), eraseOuts_idem, eraseOuts_cons "" (r :: rest) (by simp)]
  by_cases h4 : i = .endCapture
  · subst h4
    simp only [step] at h ⊢
    cases ho : s.outs with
    | nil => rw [ho] at h; simp at h
    | cons o l =>
      cases l with
      | nil => rw [ho] at h; simp at h
      | cons r rest =>
        rw [ho] at h; simp at h; subst h
        have hne : eraseOuts (r :: rest) ≠ [] := eraseOuts_ne_nil (by simp)
        cases he : eraseOuts (r :: rest) with
        | nil => exact absurd he hne
        | cons r' rest' =>
          refine ⟨{ s with pc := s.pc + 1, outs := r' :: rest', stack := .str o :: s.stack }, ?_, ?_⟩
          · simp [eraseBottom_eq, ho, eraseOuts_cons o (r :: rest) (by simp), he]
          · simp only [eraseBottom_eq]
            rw [← he, eraseOuts_idem]
  · have hh := step_outs ctx i s (eraseOuts s.outs) h1 (fun t e => h2 ⟨t, e⟩) h3 h4
    have hsame : s'.outs = s.outs := by
      have h0 := step_outs ctx i s s.outs h1 (fun t e => h2 ⟨t, e⟩) h3 h4
      have e0 : ({ s with outs := s.outs } : VmState) = s := rfl
      rw [e0, h] at h0
      simp [Except.map] at h0
      have := congrArg VmState.outs h0
      simpa using this
    rw [eraseBottom_eq, hh, h]
    refine ⟨_, rfl, ?_⟩
    simp [eraseBottom_eq, eraseOuts_idem, hsame]

theorem eraseBottom_idem (s : VmState) : eraseBottom (eraseBottom s) = eraseBottom s := by
  simp [eraseBottom_eq, eraseOuts_idem]

/-- a run with a discarding output follows the ordinary run -/
theorem runD_erase_congr (ctx : Scope) (C : List Instr) : ∀ (k : Nat) (s t : VmState),
    eraseBottom s = eraseBottom t → runD ctx C k (eraseBottom s) = runD ctx C k (eraseBottom t) := by
  intro k s t h; rw [h]

theorem run_erase (ctx : Scope) (C : List Instr) : ∀ (k : Nat) (s s' : VmState),
    run ctx C k s = .ok s' → runD ctx C k (eraseBottom s) = .ok (eraseBottom s')
  | 0, s, s', h => by simp [run] at h
  | k + 1, s, s', h => by
    simp only [run] at h
    simp only [runD]
    have hpc : (eraseBottom s).pc = s.pc := rfl
    rw [hpc]
    cases hi : C[s.pc]? with
    | none => rw [hi] at h; simp at h; subst h; rfl
    | some i =>
      rw [hi] at h
      simp only at h ⊢
      cases hs : step ctx i s with
      | error e => rw [hs] at h; simp at h
      | ok s1 =>
        rw [hs] at h
        simp only at h
        obtain ⟨t, ht, hte⟩ := step_erase ctx i s s1 hs
        rw [ht]
        simp only
        rw [hte]
        exact run_erase ctx C k s1 s' h

theorem relBlock_append : ∀ (a b : List Stmt) (base : Nat) (aux : Aux) (lc : Option LoopCtx),
    relBlock (a ++ b) base aux lc =
      (((relBlock a base aux lc).1.1 ++
          (relBlock b (base + (relBlock a base aux lc).1.1.length) (relBlock a base aux lc).1.2 lc).1.1,
        (relBlock b (base + (relBlock a base aux lc).1.1.length) (relBlock a base aux lc).1.2 lc).1.2),
       (relBlock a base aux lc).2 ++
          (relBlock b (base + (relBlock a base aux lc).1.1.length) (relBlock a base aux lc).1.2 lc).2)
  | [], b, base, aux, lc => by simp [relBlock]
  | s :: rest, b, base, aux, lc => by
    simp only [List.cons_append, relBlock]
    rw [relBlock_append rest b]
    simp [Nat.add_assoc]

theorem simpleBlock_append (l : Bool) : ∀ (a b : List Stmt),
    simpleBlock l (a ++ b) = (simpleBlock l a && simpleBlock l b)
  | [], b => by simp [simpleBlock]
  | s :: rest, b => by simp [simpleBlock, simpleBlock_append l rest b, Bool.and_assoc]

/-- the generator on a whole template of the fragment -/
theorem cBlock_top (prog : List Stmt) (h : simpleBlock false prog = true) :
    cBlock prog {} = ({} : CG).extend (relBlock prog 0 {} none).1 := by
  have h' := cBlock_eq_rel prog {} none h trivial
  rw [h', CG.withBreaks_eq]
  simp [foldl_addBreakJump_nil, CG.extend, CG.next, setExit]

theorem compileTemplate_top (prog : List Stmt) (h : simpleBlock false prog = true) :
    compileTemplate prog =
      if (relBlock prog 0 {} none).1.2.oof then none else some (relBlock prog 0 {} none).1.1 := by
  simp only [compileTemplate]
  rw [cBlock_top prog h]
  simp [CG.oof, CG.extend]

/-- **`vm_refines_eval_discard`**: the refinement theorem for a program whose output is discarded
while its assignments persist (top level of a child template, imported module) followed by the
template that reads them (`MJ.Eval.renderAfter`): the model VM runs the first `codeP.length`
instructions with a discarding output — captures begun meanwhile still capture — and the rest with a
fresh output, and renders what the reference semantics renders. -/
theorem vm_refines_eval_discard (prog tail : List Stmt) (hfrag : Fragment (prog ++ tail)) (ctx : Scope)
    (code : List Instr) (hcode : compileTemplate (prog ++ tail) = some code) (fuel : Nat) (out : String)
    (hev : renderAfter fuel ctx prog tail = .ok out) :
    ∃ codeP, compileTemplate prog = some codeP ∧
      ∃ k, ∀ j, renderCodeAfter (k + j) ctx code codeP.length = .ok out := by
  have hf : simpleBlock false prog = true ∧ simpleBlock false tail = true := by
    have := hfrag; simp only [Fragment, simpleBlock_append, Bool.and_eq_true] at this; exact this
  -- the code of the whole and of the first part
  rw [compileTemplate_top _ hfrag] at hcode
  split at hcode
  · simp at hcode
  · rename_i hoofW
    simp at hcode
    rw [relBlock_append] at hcode hoofW
    simp only at hcode hoofW
    have hoofT : (relBlock tail (0 + (relBlock prog 0 {} none).1.1.length) (relBlock prog 0 {} none).1.2 none).1.2.oof = false := by
      simpa using hoofW
    have hoofP : (relBlock prog 0 {} none).1.2.oof = false := by
      cases ho : (relBlock prog 0 {} none).1.2.oof with
      | false => rfl
      | true => rw [relBlock_oof_mono tail _ _ none ho] at hoofT; cases hoofT
    refine ⟨(relBlock prog 0 {} none).1.1, by rw [compileTemplate_top _ hf.1]; simp [hoofP], ?_⟩
    -- the reference run
    simp only [renderAfter] at hev
    split at hev
    · rename_i σ1 fl1 hexec1
      split at hev
      · rename_i σ2 fl2 hexec2
        simp at hev; subst hev
        -- phase 1: the first part, on its own code
        have hAt1 : At (relBlock prog 0 {} none).1.1 0 (relBlock prog 0 {} none).1.1 := by intro k _; simp
        have hrel0 : Rel { heap := [[]], out := "" } [0] ({} : VmState) := by
          refine ⟨?_, ⟨[], rfl⟩, by simp, by simp, ⟨0, [], rfl⟩⟩
          exact ⟨⟨[], by simp, by intro x; simp [assocGet, frameLookup]⟩, trivial⟩
        have p1 := (sim_stmt_all fuel).2.1 prog ctx [0] _ σ1 fl1 hexec1 none hf.1 _ 0 {} {} hAt1 hoofP rfl hrel0
          (by intro l hl; cases hl)
        have hfl1 : fl1 = .normal := by
          cases fl1 with
          | normal => rfl
          | brk => simp [Post] at p1
          | cont => simp [Post] at p1
        subst hfl1
        simp only [Post, if_true] at p1
        obtain ⟨s1, hreach1, hpc1, hst1, hrel1, hout1, htl1, hhd1⟩ := p1
        have hend1 : (relBlock prog 0 {} none).1.1[s1.pc]? = none := by rw [hpc1]; simp
        obtain ⟨k1, hk1⟩ := hreach1.toRun hend1
        -- phase 2: the tail, in the frames the first part left, with a fresh output
        let s1' : VmState := { eraseBottom s1 with pc := (relBlock prog 0 {} none).1.1.length, stack := [], outs := [""] }
        have hrel1' : Rel { σ1 with out := "" } [0] s1' :=
          ⟨hrel1.frames, ⟨[], rfl⟩, hrel1.bound, hrel1.nodup, hrel1.nonempty⟩
        have hAt2 : At code (relBlock prog 0 {} none).1.1.length
            (relBlock tail (0 + (relBlock prog 0 {} none).1.1.length) (relBlock prog 0 {} none).1.2 none).1.1 := by
          rw [← hcode]
          have := At.of_append (relBlock prog 0 {} none).1.1
            (relBlock tail (0 + (relBlock prog 0 {} none).1.1.length) (relBlock prog 0 {} none).1.2 none).1.1 []
          simpa using this
        have p2 := (sim_stmt_all fuel).2.1 tail ctx [0] _ σ2 fl2 hexec2 none hf.2 code
          (0 + (relBlock prog 0 {} none).1.1.length) (relBlock prog 0 {} none).1.2 s1'
          (by simpa using hAt2) hoofT (by simp [s1']) hrel1' (by intro l hl; cases hl)
        have hfl2 : fl2 = .normal := by
          cases fl2 with
          | normal => rfl
          | brk => simp [Post] at p2
          | cont => simp [Post] at p2
        subst hfl2
        simp only [Post, if_true] at p2
        obtain ⟨s2, hreach2, hpc2, hst2, hrel2, hout2, htl2, hhd2⟩ := p2
        have hend2 : code[s2.pc]? = none := by
          rw [hpc2, ← hcode]; simp
        obtain ⟨k2, hk2⟩ := hreach2.toRun hend2
        refine ⟨k1 + k2, fun j => ?_⟩
        have e1 : k1 + k2 + j = k1 + (k2 + j) := by omega
        have e2 : k1 + k2 + j = k2 + (k1 + j) := by omega
        have hD := run_erase ctx (relBlock prog 0 {} none).1.1 (k1 + (k2 + j)) {} s1 (hk1 (k2 + j))
        have hE : eraseBottom ({} : VmState) = {} := rfl
        rw [hE] at hD
        have htake : code.take (relBlock prog 0 {} none).1.1.length = (relBlock prog 0 {} none).1.1 := by
          rw [← hcode]; simp
        simp only [renderCodeAfter, htake]
        rw [e1, hD]
        simp only
        rw [← e1, e2]
        have hk2' := hk2 (k1 + j)
        simp only [s1'] at hk2'
        rw [hk2']
        obtain ⟨rest, hr⟩ := hrel2.out
        have : rest = [] := by
          have := hout2; rw [hr] at this; simpa [s1'] using this
        subst this
        simp [hr]
      · simp at hev
    · simp at hev

end MJ.Vm
