import MJ.Proofs.StmtSim
/-!
# Discarded output (C03 stage 3)

The top level of a child template (after `{% extends %}`) and of a module loaded with
`{% from … import … %}` runs with an output that throws away what is written to it, while the
assignments persist (`MJ.Eval.renderAfter`, `MJ.Vm.renderCodeAfter`).

* `run_erase`: a run with a discarding output (`runD`) goes through the same program counters,
  operand stacks and frames as the ordinary run, and ends with the same capture buffers above the
  bottom entry — in particular a capture begun under a discarding output records exactly what it
  records otherwise.
* `vm_refines_eval_discard`: the refinement theorem for this entry form.
-/
namespace MJ.Compile
open MJ.Eval

/-! at template level (`P = none`) the set of certainly-bound names plays no role -/
mutual
theorem wfExpr_none (M : List String) (A B : List String) : ∀ (e : Expr), wfExpr M none A e = wfExpr M none B e
  | .const _ => rfl
  | .var _ => rfl
  | .unop _ e => by simp only [wfExpr]; exact wfExpr_none M A B e
  | .binop _ l r => by simp only [wfExpr]; rw [wfExpr_none M A B l, wfExpr_none M A B r]
  | .cmp e ops => by simp only [wfExpr]; rw [wfExpr_none M A B e, wfChain_none M A B ops]
  | .ife c t none => by simp only [wfExpr]; rw [wfExpr_none M A B c, wfExpr_none M A B t]
  | .ife c t (some f) => by simp only [wfExpr]; rw [wfExpr_none M A B c, wfExpr_none M A B t, wfExpr_none M A B f]
  | .filter _ e args => by simp only [wfExpr]; rw [wfExpr_none M A B e, wfArgs_none M A B args]
  | .test _ e args => by
    simp only [wfExpr]; rw [wfExpr_none M A B e, wfArgs_none M A B args]
    cases e <;> rfl
  | .getattr e _ => by simp only [wfExpr]; exact wfExpr_none M A B e
  | .getitem e i => by simp only [wfExpr]; rw [wfExpr_none M A B e, wfExpr_none M A B i]
  | .call f args => by
    cases f with
    | var x => simp only [wfExpr, allowed]; rw [wfCallArgs_none M A B args]
    | _ => rfl
  | .list items => by simp only [wfExpr]; exact wfList_none M A B items
  | .map kvs => by simp only [wfExpr]; exact wfPairs_none M A B kvs
theorem wfChain_none (M : List String) (A B : List String) : ∀ (ops : List (CmpOp × Expr)), wfChain M none A ops = wfChain M none B ops
  | [] => rfl
  | (_, e) :: rest => by simp only [wfChain]; rw [wfExpr_none M A B e, wfChain_none M A B rest]
theorem wfArgs_none (M : List String) (A B : List String) : ∀ (args : List (Option String × Expr)), wfArgs M none A args = wfArgs M none B args
  | [] => rfl
  | (none, e) :: rest => by simp only [wfArgs]; rw [wfExpr_none M A B e, wfArgs_none M A B rest]
  | (some _, _) :: _ => rfl
theorem wfCallArgs_none (M : List String) (A B : List String) : ∀ (args : List (Option String × Expr)), wfCallArgs M none A args = wfCallArgs M none B args
  | [] => rfl
  | (_, e) :: rest => by simp only [wfCallArgs]; rw [wfExpr_none M A B e, wfCallArgs_none M A B rest]
theorem wfList_none (M : List String) (A B : List String) : ∀ (es : List Expr), wfList M none A es = wfList M none B es
  | [] => rfl
  | e :: rest => by simp only [wfList]; rw [wfExpr_none M A B e, wfList_none M A B rest]
theorem wfPairs_none (M : List String) (A B : List String) : ∀ (kvs : List (Expr × Expr)), wfPairs M none A kvs = wfPairs M none B kvs
  | [] => rfl
  | (k, v) :: rest => by simp only [wfPairs]; rw [wfExpr_none M A B k, wfExpr_none M A B v, wfPairs_none M A B rest]
end

theorem wfBinds_none (M : List String) : ∀ (A B : List String) (bs : List (Target × Expr)), wfBinds M none A bs = wfBinds M none B bs
  | _, _, [] => rfl
  | A, B, (t, e) :: rest => by
    simp only [wfBinds]; rw [wfExpr_none M A B e, wfBinds_none M (A ++ targetNames t) (B ++ targetNames t) rest]

theorem wfFilters_none (M : List String) (A B : List String) : ∀ (fs : List FilterApp), wfFilters M none A fs = wfFilters M none B fs
  | [] => rfl
  | (_, args) :: rest => by simp only [wfFilters]; rw [wfArgs_none M A B args, wfFilters_none M A B rest]

mutual
theorem wfStmt_none (M : List String) : ∀ (A B : List String) (l : Bool) (st : Stmt), wfStmt M none A l st = wfStmt M none B l st
  | _, _, _, .text _ => rfl
  | A, B, _, .emit e => by simp only [wfStmt]; exact wfExpr_none M A B e
  | A, B, _, .set _ e => by simp only [wfStmt]; rw [wfExpr_none M A B e]
  | A, B, l, .ifS c t f => by
    simp only [wfStmt]; rw [wfExpr_none M A B c, wfBlock_none M A B l t, wfBlock_none M A B l f]
  | A, B, l, .withS binds body => by
    simp only [wfStmt]; rw [wfBinds_none M A B binds, wfBlock_none M (A ++ bindsNames binds) (B ++ bindsNames binds) l body]
  | A, B, l, .forS t iter flt body els => by
    simp only [wfStmt]
    rw [wfExpr_none M A B iter, wfBlock_none M (A ++ targetNames t ++ ["loop"]) (B ++ targetNames t ++ ["loop"]) true body,
      wfBlock_none M A B l els]
    cases flt with
    | none => rfl
    | some c => simp only; rw [wfExpr_none M (A ++ targetNames t) (B ++ targetNames t) c]
  | A, B, l, .setBlock _ fs body => by simp only [wfStmt]; rw [wfFilters_none M A B fs, wfBlock_none M A B l body]
  | A, B, l, .filterBlock fs body => by simp only [wfStmt]; rw [wfFilters_none M A B fs, wfBlock_none M A B l body]
  | A, B, _, .macroS _ _ _ _ _ => by
    simp only [wfStmt]
    have : allowed none A = allowed none B := rfl
    rw [this]
  | A, B, _, .callBlock callee args params defaults body uc => by
    cases callee with
    | var x =>
      simp only [wfStmt]
      have : allowed none A = allowed none B := rfl
      rw [this, wfCallArgs_none M A B args]
    | _ => rfl
  | _, _, _, .breakS => rfl
  | _, _, _, .continueS => rfl
theorem wfBlock_none (M : List String) : ∀ (A B : List String) (l : Bool) (ss : List Stmt), wfBlock M none A l ss = wfBlock M none B l ss
  | _, _, _, [] => rfl
  | A, B, l, s :: rest => by
    simp only [wfBlock]; rw [wfStmt_none M A B l s, wfBlock_none M (A ++ assignedBy s) (B ++ assignedBy s) l rest]
end

theorem wfBlock_append (M : List String) (l : Bool) : ∀ (A : List String) (a b : List Stmt),
    wfBlock M none A l (a ++ b) = (wfBlock M none A l a && wfBlock M none A l b)
  | _, [], _ => by simp [wfBlock]
  | A, s :: rest, b => by
    simp only [List.cons_append, wfBlock]
    rw [wfBlock_append M l _ rest b, wfBlock_none M (A ++ assignedBy s) A l b, Bool.and_assoc]

end MJ.Compile

namespace MJ.Vm
open MJ.Eval MJ.Compile MJ.C03

def eraseOuts (outs : List String) : List String :=
  match outs.reverse with
  | [] => []
  | _ :: r => ("" :: r).reverse

theorem eraseBottom_eq (s : VmState) : eraseBottom s = { s with outs := eraseOuts s.outs } := rfl

@[simp] theorem eraseOuts_nil : eraseOuts [] = [] := rfl
@[simp] theorem eraseOuts_single (b : String) : eraseOuts [b] = [""] := rfl

theorem eraseOuts_cons (o : String) : ∀ (l : List String), l ≠ [] → eraseOuts (o :: l) = o :: eraseOuts l := by
  intro l hl
  simp only [eraseOuts, List.reverse_cons]
  cases h : l.reverse with
  | nil => simp at h; exact absurd h hl
  | cons x xs => simp

theorem eraseOuts_length : ∀ (l : List String), (eraseOuts l).length = l.length := by
  intro l
  simp only [eraseOuts]
  cases h : l.reverse with
  | nil => simp at h; simp [h]
  | cons x xs =>
    have : l.length = xs.length + 1 := by rw [← List.length_reverse, h]; rfl
    simp [this]

theorem eraseOuts_ne_nil {l : List String} (h : l ≠ []) : eraseOuts l ≠ [] := by
  intro e
  have := eraseOuts_length l
  rw [e] at this
  cases l with
  | nil => exact h rfl
  | cons _ _ => simp at this

theorem eraseOuts_idem : ∀ (l : List String), eraseOuts (eraseOuts l) = eraseOuts l
  | [] => rfl
  | [_] => rfl
  | o :: r :: rest => by
    rw [eraseOuts_cons o (r :: rest) (by simp), eraseOuts_cons o _ (eraseOuts_ne_nil (by simp)),
      eraseOuts_idem (r :: rest)]

theorem eraseOuts_appendOut (t : String) : ∀ (l : List String),
    eraseOuts (appendOut t (eraseOuts l)) = eraseOuts (appendOut t l)
  | [] => rfl
  | [_] => rfl
  | o :: r :: rest => by
    rw [eraseOuts_cons o (r :: rest) (by simp)]
    simp only [appendOut]
    rw [eraseOuts_cons _ _ (eraseOuts_ne_nil (by simp)), eraseOuts_cons _ (r :: rest) (by simp), eraseOuts_idem]

theorem encloseStep_outs (ctx : Scope) (x : String) (s : VmState) (o : List String) :
    encloseStep ctx x { s with outs := o } = (encloseStep ctx x s).map fun t => { t with outs := o } := by
  unfold encloseStep
  cases s.frames with
  | nil => rfl
  | cons f rest =>
    simp only
    split
    · rfl
    · split <;> rfl

/-- instructions other than the output instructions do not look at the output -/
theorem step_outs (ctx : Scope) (i : Instr) (s : VmState) (o : List String)
    (h1 : i ≠ .emit) (h2 : ∀ t, i ≠ .emitRaw t) (h3 : i ≠ .beginCapture) (h4 : i ≠ .endCapture) :
    step ctx i { s with outs := o } = (step ctx i s).map fun t => { t with outs := o } := by
  by_cases he : ∃ x, i = .enclose x
  · obtain ⟨x, rfl⟩ := he
    simp only [step]
    exact encloseStep_outs ctx x s o
  cases i <;> simp_all [step, Except.map, binArith, binCmp]
  all_goals (repeat' (first | rfl | split)) <;> simp_all

/-- one step with the bottom entry of the output erased: the same step, up to the bottom entry -/
theorem step_erase (ctx : Scope) (i : Instr) (s s' : VmState) (h : step ctx i s = .ok s') :
    ∃ t, step ctx i (eraseBottom s) = .ok t ∧ eraseBottom t = eraseBottom s' := by
  by_cases h1 : i = .emit
  · subst h1
    simp only [step] at h ⊢
    cases hs : s.stack with
    | nil => rw [hs] at h; simp at h
    | cons v rest =>
      rw [hs] at h; simp at h; subst h
      refine ⟨_, by simp [eraseBottom_eq, hs]; rfl, ?_⟩
      simp [eraseBottom_eq, eraseOuts_appendOut]
  by_cases h2 : ∃ t, i = .emitRaw t
  · obtain ⟨t, rfl⟩ := h2
    simp only [step] at h ⊢
    simp at h; subst h
    exact ⟨_, rfl, by simp [eraseBottom_eq, eraseOuts_appendOut]⟩
  by_cases h3 : i = .beginCapture
  · subst h3
    simp only [step] at h ⊢
    simp at h; subst h
    refine ⟨_, rfl, ?_⟩
    simp only [eraseBottom_eq]
    cases ho : s.outs with
    | nil => rfl
    | cons r rest =>
      rw [eraseOuts_cons "" _ (eraseOuts_ne_nil (by simp)), eraseOuts_idem, eraseOuts_cons "" (r :: rest) (by simp)]
  by_cases h4 : i = .endCapture
  · subst h4
    simp only [step] at h ⊢
    cases ho : s.outs with
    | nil => rw [ho] at h; simp at h
    | cons o l =>
      cases l with
      | nil => rw [ho] at h; simp at h
      | cons r rest =>
        rw [ho] at h; simp at h; subst h
        have hne : eraseOuts (r :: rest) ≠ [] := eraseOuts_ne_nil (by simp)
        cases he : eraseOuts (r :: rest) with
        | nil => exact absurd he hne
        | cons r' rest' =>
          refine ⟨{ s with pc := s.pc + 1, outs := r' :: rest', stack := .str o :: s.stack }, ?_, ?_⟩
          · simp [eraseBottom_eq, ho, eraseOuts_cons o (r :: rest) (by simp), he]
          · simp only [eraseBottom_eq]
            rw [← he, eraseOuts_idem]
  · have hh := step_outs ctx i s (eraseOuts s.outs) h1 (fun t e => h2 ⟨t, e⟩) h3 h4
    have hsame : s'.outs = s.outs := by
      have h0 := step_outs ctx i s s.outs h1 (fun t e => h2 ⟨t, e⟩) h3 h4
      have e0 : ({ s with outs := s.outs } : VmState) = s := rfl
      rw [e0, h] at h0
      simp [Except.map] at h0
      have := congrArg VmState.outs h0
      simpa using this
    rw [eraseBottom_eq, hh, h]
    refine ⟨_, rfl, ?_⟩
    simp [eraseBottom_eq, eraseOuts_idem, hsame]

theorem eraseBottom_idem (s : VmState) : eraseBottom (eraseBottom s) = eraseBottom s := by
  simp [eraseBottom_eq, eraseOuts_idem]

/-- one step, calls included, with the bottom entry of the output erased -/
theorem stepF_erase (ctx : Scope) (C : List Instr) (f : Nat) (i : Instr) (s s' : VmState)
    (h : stepF ctx C f i s = .ok s') :
    ∃ t, stepF ctx C f i (eraseBottom s) = .ok t ∧ eraseBottom t = eraseBottom s' := by
  cases f with
  | zero => simp [stepF] at h
  | succ f =>
    by_cases hc : ∃ name argc, i = .callFunction name argc
    · obtain ⟨name, argc, rfl⟩ := hc
      simp only [stepF] at h ⊢
      have e1 : (eraseBottom s).stack = s.stack := rfl
      have e2 : (eraseBottom s).closures = s.closures := rfl
      have e3 : (eraseBottom s).frames = s.frames := rfl
      rw [e1, e2, e3]
      cases hp : popN argc s.stack with
      | none => rw [hp] at h; simp at h
      | some pr =>
        obtain ⟨args, rest⟩ := pr
        rw [hp] at h
        simp only at h ⊢
        cases hcall : callF ctx C f (lookupFrames ctx s.closures name s.frames) args s.closures with
        | error e => rw [hcall] at h; simp at h
        | ok r =>
          rw [hcall] at h
          simp only [Except.ok.injEq] at h
          subst h
          exact ⟨_, rfl, by simp [eraseBottom_eq, eraseOuts_idem]⟩
    · have hs : stepF ctx C (f + 1) i s = step ctx i s := by
        cases i <;> first | rfl | exact absurd ⟨_, _, rfl⟩ hc
      have hs' : stepF ctx C (f + 1) i (eraseBottom s) = step ctx i (eraseBottom s) := by
        cases i <;> first | rfl | exact absurd ⟨_, _, rfl⟩ hc
      rw [hs] at h; rw [hs']
      exact step_erase ctx i s s' h

theorem run_erase_aux {ctx : Scope} {C : List Instr} {k : Nat} {i : Instr} {s s' : VmState}
    (ih : ∀ s1, run ctx C k s1 = .ok s' → runD ctx C k (eraseBottom s1) = .ok (eraseBottom s'))
    (h : (match stepF ctx C k i s with
      | .ok s1 => run ctx C k s1
      | .error e => .error e) = .ok s') :
    (match stepF ctx C k i (eraseBottom s) with
      | .ok s1 => runD ctx C k (eraseBottom s1)
      | .error e => .error e) = .ok (eraseBottom s') := by
  cases hs : stepF ctx C k i s with
  | error e => rw [hs] at h; simp at h
  | ok s1 =>
    rw [hs] at h
    simp only at h
    obtain ⟨t, ht, hte⟩ := stepF_erase ctx C k i s s1 hs
    rw [ht]
    simp only
    rw [hte]
    exact ih s1 h

theorem run_erase (ctx : Scope) (C : List Instr) : ∀ (k : Nat) (s s' : VmState),
    run ctx C k s = .ok s' → runD ctx C k (eraseBottom s) = .ok (eraseBottom s')
  | 0, s, s', h => by simp [run] at h
  | k + 1, s, s', h => by
    simp only [run] at h
    simp only [runD]
    have hpc : (eraseBottom s).pc = s.pc := rfl
    rw [hpc]
    cases hi : C[s.pc]? with
    | none => rw [hi] at h; simp at h; subst h; rfl
    | some i =>
      rw [hi] at h
      by_cases hr : i = .return_
      · subst hr; simp at h; subst h; rfl
      · cases i <;> first | exact absurd rfl hr | exact run_erase_aux (fun s1 h1 => run_erase ctx C k s1 s' h1) h

theorem relBlock_append : ∀ (a b : List Stmt) (base : Nat) (aux : Aux) (lc : Option LoopCtx),
    relBlock (a ++ b) base aux lc =
      (((relBlock a base aux lc).1.1 ++
          (relBlock b (base + (relBlock a base aux lc).1.1.length) (relBlock a base aux lc).1.2 lc).1.1,
        (relBlock b (base + (relBlock a base aux lc).1.1.length) (relBlock a base aux lc).1.2 lc).1.2),
       (relBlock a base aux lc).2 ++
          (relBlock b (base + (relBlock a base aux lc).1.1.length) (relBlock a base aux lc).1.2 lc).2)
  | [], b, base, aux, lc => by simp [relBlock]
  | s :: rest, b, base, aux, lc => by
    simp only [List.cons_append, relBlock]
    rw [relBlock_append rest b]
    simp [Nat.add_assoc]


/-! the relation under a change of the code to one that has the same macro bodies where they were -/
section recode
variable {K K' : Cfg} (hctx : K'.ctx = K.ctx) (hM : K'.M = K.M) (hC : ∀ off L, At K.C off L → At K'.C off L)
include hctx hM hC

theorem MacroRel.recode {G cls hl u w} (h : MacroRel K G cls hl u w) : MacroRel K' G cls hl u w := by
  cases w <;> try trivial
  rename_i name params defaults body uc env
  obtain ⟨off, clo, hu, ⟨a, hat, hoof⟩, hwf, hb, hg, hfv⟩ := h
  exact ⟨off, clo, hu, ⟨a, hC _ _ hat, hoof⟩, by rw [hM]; exact hwf, hb, hg, hfv⟩

theorem ValAgree.recode {G cls hl x w u} (h : ValAgree K G cls hl x w u) : ValAgree K' G cls hl x w u := by
  unfold ValAgree at h ⊢
  rw [hM]
  split
  · rename_i hm; rw [if_pos hm] at h; exact h.recode hctx hM hC
  · rename_i hm; rw [if_neg hm] at h; exact h

theorem OptAgree.recode {G cls hl x e v} (h : OptAgree K G cls hl x e v) : OptAgree K' G cls hl x e v := by
  unfold OptAgree at h ⊢
  rw [hM]
  split
  · rename_i hm; rw [if_pos hm] at h
    exact ⟨h.1, fun w u hw hu => (h.2 w u hw hu).recode hctx hM hC⟩
  · rename_i hm; rw [if_neg hm] at h; exact h

theorem FramesRel.recode {G cls heap clo} : ∀ {loc : List Nat} {locF : List Frame},
    FramesRel K G cls heap clo loc locF → FramesRel K' G cls heap clo loc locF
  | [], [], _ => trivial
  | [], _ :: _, h => by simp [FramesRel] at h
  | _ :: _, [], h => by simp [FramesRel] at h
  | id :: ids, f :: fs, h => by
    obtain ⟨⟨cell, hc, hag⟩, hcc, hrest⟩ := h
    exact ⟨⟨cell, hc, fun x => (hag x).recode hctx hM hC⟩, hcc, FramesRel.recode hrest⟩

theorem HRel.recode {G P clo heap loc env s} (h : HRel K G P clo heap loc env s) : HRel K' G P clo heap loc env s := by
  obtain ⟨locF, tailF, hfr, hrel, htl, ho1, ho2⟩ := h.frames
  refine ⟨⟨locF, tailF, hfr, hrel.recode hctx hM hC, htl, ho1, ho2⟩, ?_, ?_, h.genv, h.bound, h.nodup, h.below, h.cloG, by rw [hctx, hM]; exact h.plain⟩
  · intro x hx; rw [hctx]; exact (h.tail x hx).recode hctx hM hC
  · intro c env' hg
    obtain ⟨m, hm, hag⟩ := h.closOK c env' hg
    exact ⟨m, hm, fun x u hx => by rw [hctx]; exact (hag x u hx).recode hctx hM hC⟩

end recode

/-- the generator on a whole template of the fragment -/
theorem cBlock_top (prog : List Stmt) (h : coreBlock false prog = true) :
    cBlock prog {} = ({} : CG).extend (relBlock prog 0 {} none).1 := by
  have h' := cBlock_eq_core prog {} none h trivial
  rw [h', CG.withBreaks_eq]
  simp [foldl_addBreakJump_nil, CG.extend, CG.next, setExit]

theorem compileTemplate_top (prog : List Stmt) (h : coreBlock false prog = true) :
    compileTemplate prog =
      if (relBlock prog 0 {} none).1.2.oof then none else some (relBlock prog 0 {} none).1.1 := by
  simp only [compileTemplate]
  rw [cBlock_top prog h]
  simp [CG.oof, CG.extend]

theorem At.prefix {C rest : List Instr} {off : Nat} {L : List Instr} (h : At C off L) : At (C ++ rest) off L := by
  intro k hk
  have h1 := h k hk
  have hlt : off + k < C.length := by
    cases hd : decide (off + k < C.length) with
    | true => exact of_decide_eq_true hd
    | false =>
      have : C.length ≤ off + k := Nat.le_of_not_lt (of_decide_eq_false hd)
      rw [List.getElem?_eq_none this, List.getElem?_eq_getElem hk] at h1; cases h1
  rw [List.getElem?_append_left hlt]; exact h1

/-- **`vm_refines_eval_discard`**: the refinement theorem for a program whose output is discarded
while its assignments — and the macros it declares — persist (top level of a child template, imported
module) followed by the template that reads them (`MJ.Eval.renderAfter`): the model VM runs the first
`codeP.length` instructions with a discarding output — captures begun meanwhile still capture — and
the rest with a fresh output, and renders what the reference semantics renders. -/
theorem vm_refines_eval_discard (prog tail : List Stmt) (hfrag : CoreFragment (prog ++ tail)) (ctx : Scope)
    (hctx : CtxPlain ctx)
    (code : List Instr) (hcode : compileTemplate (prog ++ tail) = some code) (fuel : Nat) (out : String)
    (hev : renderAfter fuel ctx prog tail = .ok out) :
    ∃ codeP, compileTemplate prog = some codeP ∧
      ∃ k, ∀ j, renderCodeAfter (k + j) ctx code codeP.length = .ok out := by
  have hwf : wfBlock (macroNames (prog ++ tail)) none [] false prog = true ∧
      wfBlock (macroNames (prog ++ tail)) none [] false tail = true := by
    have := hfrag; simp only [CoreFragment, wfBlock_append, Bool.and_eq_true] at this; exact this
  have hcoreW : coreBlock false (prog ++ tail) = true := wf_coreBlock _ _ _ _ _ hfrag
  have hcoreP : coreBlock false prog = true := wf_coreBlock _ _ _ _ _ hwf.1
  -- the code of the whole and of the first part
  rw [compileTemplate_top _ hcoreW] at hcode
  split at hcode
  · simp at hcode
  · rename_i hoofW
    simp at hcode
    rw [relBlock_append] at hcode hoofW
    simp only at hcode hoofW
    have hoofT : (relBlock tail (0 + (relBlock prog 0 {} none).1.1.length) (relBlock prog 0 {} none).1.2 none).1.2.oof = false := by
      simpa using hoofW
    have hoofP : (relBlock prog 0 {} none).1.2.oof = false := by
      cases ho : (relBlock prog 0 {} none).1.2.oof with
      | false => rfl
      | true => rw [relBlock_oof_mono tail _ _ none ho] at hoofT; cases hoofT
    refine ⟨(relBlock prog 0 {} none).1.1, by rw [compileTemplate_top _ hcoreP]; simp [hoofP], ?_⟩
    -- the reference run
    simp only [renderAfter] at hev
    split at hev
    · rename_i σ1 fl1 hexec1
      split at hev
      · rename_i σ2 fl2 hexec2
        simp at hev; subst hev
        let K1 : Cfg := { ctx := ctx, M := macroNames (prog ++ tail), C := (relBlock prog 0 {} none).1.1 }
        let K2 : Cfg := { ctx := ctx, M := macroNames (prog ++ tail), C := code }
        let X1 : SC := { K := K1, P := none, clo := none, env := [] }
        let X2 : SC := { K := K2, P := none, clo := none, env := [] }
        -- phase 1: the first part, on its own code
        have hAt1 : At K1.C 0 (relBlock prog 0 {} none).1.1 := by intro k _; simp [K1]
        have hrel0 : Rel K1 (fun _ => none) none none { heap := [[]], out := "" } [0] [] ({} : VmState) := rel_init K1 hctx
        have p1 := (all_sim fuel fuel (Nat.le_refl _)).2.2.2.1 X1 prog (fun _ => none) _ [0] σ1 fl1 hexec1 [] none hwf.1
          (by intro x hx; simp at hx) (by simp) 0 {} {} hAt1 hoofP rfl hrel0 (by intro l hl; cases hl)
        have hfl1 : fl1 = .normal := by
          cases fl1 with
          | normal => rfl
          | brk => simp [Post] at p1
          | cont => simp [Post] at p1
        subst hfl1
        simp only [Post, if_true] at p1
        obtain ⟨s1, G1, hreach1, hpc1, hst1, hrel1, hout1, htl1, hhd1, _, _⟩ := p1
        have hend1 : Halted (relBlock prog 0 {} none).1.1 s1 := by left; rw [hpc1]; simp
        obtain ⟨k1, hk1⟩ := hreach1.toRun hend1
        -- phase 2: the tail, in the frames the first part left, with a fresh output
        let s1' : VmState := { eraseBottom s1 with pc := (relBlock prog 0 {} none).1.1.length, stack := [], outs := [""] }
        have hcodeApp : code = (relBlock prog 0 {} none).1.1 ++
            (relBlock tail (0 + (relBlock prog 0 {} none).1.1.length) (relBlock prog 0 {} none).1.2 none).1.1 := hcode.symm
        have hrel1' : Rel K2 G1 none none { σ1 with out := "" } [0] [] s1' := by
          refine ⟨(HRel.recode (K := K1) (K' := K2) rfl rfl ?_ hrel1.1).same s1' rfl rfl, ⟨[], rfl⟩⟩
          intro off L hat
          show At code off L
          rw [hcodeApp]; exact At.prefix hat
        have hAt2 : At K2.C (relBlock prog 0 {} none).1.1.length
            (relBlock tail (0 + (relBlock prog 0 {} none).1.1.length) (relBlock prog 0 {} none).1.2 none).1.1 := by
          show At code _ _
          rw [hcodeApp]
          have := At.of_append (relBlock prog 0 {} none).1.1
            (relBlock tail (0 + (relBlock prog 0 {} none).1.1.length) (relBlock prog 0 {} none).1.2 none).1.1 []
          simpa using this
        have p2 := (all_sim fuel fuel (Nat.le_refl _)).2.2.2.1 X2 tail G1 _ [0] σ2 fl2 hexec2 [] none hwf.2
          (by intro x hx; simp at hx) (by simp)
          (0 + (relBlock prog 0 {} none).1.1.length) (relBlock prog 0 {} none).1.2 s1'
          (by simpa using hAt2) hoofT (by simp [s1']) hrel1' (by intro l hl; cases hl)
        have hfl2 : fl2 = .normal := by
          cases fl2 with
          | normal => rfl
          | brk => simp [Post] at p2
          | cont => simp [Post] at p2
        subst hfl2
        simp only [Post, if_true] at p2
        obtain ⟨s2, G2, hreach2, hpc2, hst2, hrel2, hout2, htl2, hhd2, _, _⟩ := p2
        have hend2 : Halted code s2 := by
          left; rw [hpc2, hcodeApp]; simp
        obtain ⟨k2, hk2⟩ := hreach2.toRun hend2
        refine ⟨k1 + k2, fun j => ?_⟩
        have e1 : k1 + k2 + j = k1 + (k2 + j) := by omega
        have e2 : k1 + k2 + j = k2 + (k1 + j) := by omega
        have hD := run_erase ctx (relBlock prog 0 {} none).1.1 (k1 + (k2 + j)) {} s1 (hk1 (k2 + j))
        have hE : eraseBottom ({} : VmState) = {} := rfl
        rw [hE] at hD
        have htake : code.take (relBlock prog 0 {} none).1.1.length = (relBlock prog 0 {} none).1.1 := by
          rw [hcodeApp]; simp
        simp only [renderCodeAfter, htake]
        rw [e1, hD]
        simp only
        rw [← e1, e2]
        have hk2' : run ctx code (k2 + (k1 + j)) s1' = .ok s2 := hk2 (k1 + j)
        simp only [s1'] at hk2'
        rw [hk2']
        obtain ⟨rest, hr⟩ := hrel2.2
        have : rest = [] := by
          have := hout2; rw [hr] at this; simpa [s1'] using this
        subst this
        simp [hr]
      · simp at hev
    · simp at hev

end MJ.Vm
