import MJ.Model.Eval
/-!
# Frame lemmas for the reference interpreter (C03)

Every statement leaves all scope cells but the innermost visible one unchanged and keeps the
number of cells: the body of a `for` iteration / `with` runs in a fresh cell that is dropped
afterwards.  Proved by induction on the fuel for `exec`, `execBlock`, `execIters` together.
-/
namespace MJ.C03
open MJ.Eval

theorem heapSet_length (h : Heap) (id : Nat) (x : String) (v : Val) :
    (heapSet h id x v).length = h.length := by
  unfold heapSet; split <;> simp

theorem heapSet_getElem?_ne (h : Heap) (id i : Nat) (x : String) (v : Val) (hne : i ≠ id) :
    (heapSet h id x v)[i]? = h[i]? := by
  unfold heapSet; split
  · simp [List.getElem?_set]; intro h1; exact absurd h1.symm hne
  · rfl

theorem heapSetAll_length (bs : List (String × Val)) : ∀ (h : Heap) (id : Nat),
    (heapSetAll h id bs).length = h.length := by
  induction bs with
  | nil => intro h id; rfl
  | cons b rest ih => intro h id; obtain ⟨x, v⟩ := b; simp [heapSetAll, ih, heapSet_length]

theorem heapSetAll_getElem?_ne (bs : List (String × Val)) : ∀ (h : Heap) (id i : Nat), i ≠ id →
    (heapSetAll h id bs)[i]? = h[i]? := by
  induction bs with
  | nil => intro h id i _; rfl
  | cons b rest ih =>
    intro h id i hne; obtain ⟨x, v⟩ := b
    simp [heapSetAll, ih _ _ _ hne, heapSet_getElem?_ne _ _ _ _ _ hne]


/-- `h'` has the cells of `h`, all unchanged except possibly the innermost cell of `stack` -/
def Frame (stack : List Nat) (h h' : Heap) : Prop :=
  h'.length = h.length ∧ ∀ i, stack.head? ≠ some i → h'[i]? = h[i]?

theorem Frame.refl (stack : List Nat) (h : Heap) : Frame stack h h := ⟨rfl, fun _ _ => rfl⟩

theorem Frame.trans {stack : List Nat} {a b c : Heap} (h1 : Frame stack a b) (h2 : Frame stack b c) :
    Frame stack a c :=
  ⟨h2.1.trans h1.1, fun i hi => (h2.2 i hi).trans (h1.2 i hi)⟩

theorem topCell_ok {stack : List Nat} {cell : Nat} (h : topCell stack = .ok cell) :
    stack.head? = some cell := by
  cases stack with
  | nil => simp [topCell] at h
  | cons a rest => simp [topCell] at h; simp [h]

theorem Frame.heapSet {stack : List Nat} {cell : Nat} (hc : topCell stack = .ok cell) (h : Heap) (x : String)
    (v : Val) : Frame stack h (heapSet h cell x v) := by
  refine ⟨heapSet_length _ _ _ _, fun i hi => heapSet_getElem?_ne _ _ _ _ _ ?_⟩
  intro e; subst e; exact hi (topCell_ok hc)

theorem Frame.heapSetAll {stack : List Nat} {cell : Nat} (hc : topCell stack = .ok cell) (h : Heap)
    (bs : List (String × Val)) : Frame stack h (heapSetAll h cell bs) := by
  refine ⟨heapSetAll_length _ _ _, fun i hi => heapSetAll_getElem?_ne _ _ _ _ ?_⟩
  intro e; subst e; exact hi (topCell_ok hc)

/-- dropping the cell that was pushed for a body gives back the heap from before the body -/
theorem take_of_frame (h : Heap) (c : Scope) (stack : List Nat) (h' : Heap)
    (hf : Frame (h.length :: stack) (h ++ [c]) h') : h'.take h.length = h := by
  apply List.ext_getElem?
  intro i
  by_cases hi : i < h.length
  · rw [List.getElem?_take_of_lt hi, hf.2 i (by simp; omega)]
    simp [List.getElem?_append_left hi]
  · have : h.length ≤ i := Nat.le_of_not_lt hi
    rw [List.getElem?_eq_none (by simp; omega), List.getElem?_eq_none this]


theorem bindWith_frame : ∀ (fuel : Nat) (ctx : Scope) (heap : Heap) (stack : List Nat)
    (binds : List (Target × Expr)) (heap' : Heap),
    bindWith fuel ctx heap stack binds = .ok heap' → Frame stack heap heap' := by
  intro fuel
  induction fuel with
  | zero => intro ctx heap stack binds heap' h; simp [bindWith] at h
  | succ n ih =>
    intro ctx heap stack binds heap' h
    cases binds with
    | nil => simp [bindWith] at h; subst h; exact Frame.refl _ _
    | cons b rest =>
      obtain ⟨t, e⟩ := b
      simp only [bindWith] at h
      split at h
      · simp at h
      · rename_i cell hc
        split at h
        · simp at h
        · split at h
          · simp at h
          · exact (Frame.heapSetAll hc heap _).trans (ih _ _ _ _ _ h)


def ExecFrame (fuel : Nat) : Prop :=
  ∀ ctx stack σ s σ' fl, exec fuel ctx stack σ s = .ok (σ', fl) → Frame stack σ.heap σ'.heap
def BlockFrame (fuel : Nat) : Prop :=
  ∀ ctx stack σ ss σ' fl, execBlock fuel ctx stack σ ss = .ok (σ', fl) → Frame stack σ.heap σ'.heap
def ItersSame (fuel : Nat) : Prop :=
  ∀ ctx stack σ t body items σ', execIters fuel ctx stack σ t body items = .ok σ' → σ'.heap = σ.heap

theorem block_of_exec (n : Nat) (he : ExecFrame n) (hb : BlockFrame n) : BlockFrame (n + 1) := by
  intro ctx stack σ ss σ' fl h
  cases ss with
  | nil => simp [execBlock] at h; obtain ⟨h1, _⟩ := h; subst h1; exact Frame.refl _ _
  | cons s rest =>
    simp only [execBlock] at h
    split at h
    · simp at h
    · rename_i σ1 hs
      exact (he _ _ _ _ _ _ hs).trans (hb _ _ _ _ _ _ h)
    · rename_i σ1 fl1 _ hs
      simp at h; obtain ⟨h1, _⟩ := h; subst h1
      exact he _ _ _ _ _ _ hs

theorem iters_of_block (n : Nat) (hb : BlockFrame n) (hi : ItersSame n) : ItersSame (n + 1) := by
  intro ctx stack σ t body items σ' h
  cases items with
  | nil => simp [execIters] at h; subst h; rfl
  | cons it rest =>
    obtain ⟨x, info⟩ := it
    simp only [execIters] at h
    split at h
    · simp at h
    · rename_i bs _
      split at h
      · simp at h
      · rename_i σ2 fl hbody
        have hf := hb _ _ _ _ _ _ hbody
        have htake : σ2.heap.take σ.heap.length = σ.heap := take_of_frame _ _ _ _ hf
        split at h
        · simp at h; subst h; simpa using htake
        · have := hi _ _ _ _ _ _ _ h
          simpa [htake] using this


theorem exec_of_block (n : Nat) (hb : BlockFrame n) (hi : ItersSame n) : ExecFrame (n + 1) := by
  intro ctx stack σ s σ' fl h
  cases s with
  | text t => simp [exec] at h; obtain ⟨h1, _⟩ := h; subst h1; exact Frame.refl _ _
  | emit e =>
    simp only [exec, bind, Except.bind] at h
    split at h
    · simp at h
    · simp at h; obtain ⟨h1, _⟩ := h; subst h1; exact Frame.refl _ _
  | ifS c t f =>
    simp only [exec, bind, Except.bind] at h
    split at h
    · simp at h
    · split at h <;> exact hb _ _ _ _ _ _ h
  | forS target iter flt body els =>
    have key : ∀ (kept : List Val) (sized : Bool),
        (match kept with
          | [] => execBlock n ctx stack σ els
          | _ :: _ => (execIters n ctx stack σ target body (kept.zip (loopInfos sized kept))).bind
              fun σ2 => .ok (σ2, Flow.normal)) = .ok (σ', fl) → Frame stack σ.heap σ'.heap := by
      intro kept sized hk
      cases kept with
      | nil => exact hb _ _ _ _ _ _ hk
      | cons k ks =>
        simp only [Except.bind] at hk
        split at hk
        · simp at hk
        · rename_i σ2 hit
          simp at hk; obtain ⟨h1, _⟩ := hk; subst h1
          rw [hi _ _ _ _ _ _ _ hit]; exact Frame.refl _ _
    simp only [exec, bind, Except.bind] at h
    split at h
    · simp at h
    · split at h
      · simp at h
      · cases flt with
        | none => exact key _ _ h
        | some c =>
          simp only at h
          split at h
          · simp at h
          · split at h
            · exact key _ _ h
            · simp at h
  | set target e =>
    simp only [exec, bind, Except.bind] at h
    split at h
    · simp at h
    · split at h
      · simp at h
      · split at h
        · simp at h
        · rename_i cell hc
          simp at h; obtain ⟨h1, _⟩ := h; subst h1
          exact Frame.heapSetAll hc _ _
  | setBlock x filters body =>
    simp only [exec, bind, Except.bind] at h
    split at h
    · simp at h
    · rename_i r hr
      split at h
      · rename_i σ1
        split at h
        · simp at h
        · split at h
          · simp at h
          · rename_i cell hc
            simp at h; obtain ⟨h1, _⟩ := h; subst h1
            exact (hb _ _ _ _ _ _ hr).trans (Frame.heapSet hc _ _ _)
      · simp at h; obtain ⟨h1, _⟩ := h; subst h1
        have f := hb _ _ _ _ _ _ hr
        exact f
  | withS binds body =>
    simp only [exec, bind, Except.bind] at h
    split at h
    · simp at h
    · rename_i heap1 hw
      split at h
      · simp at h
      · rename_i r hr
        simp at h; obtain ⟨h1, _⟩ := h; subst h1
        have f1 := bindWith_frame _ _ _ _ _ _ hw
        have f2 := hb _ _ _ _ _ _ hr
        have := take_of_frame σ.heap [] stack r.1.heap (f1.trans f2)
        simp [this]; exact Frame.refl _ _
  | filterBlock filters body =>
    simp only [exec, bind, Except.bind] at h
    split at h
    · simp at h
    · rename_i r hr
      split at h
      · split at h
        · simp at h
        · simp at h; obtain ⟨h1, _⟩ := h; subst h1
          have f := hb _ _ _ _ _ _ hr
          exact f
      · simp at h; obtain ⟨h1, _⟩ := h; subst h1
        have f := hb _ _ _ _ _ _ hr
        exact f
  | macroS name params defaults body uc =>
    simp only [exec, bind, Except.bind] at h
    split at h
    · simp at h
    · rename_i cell hc
      simp at h; obtain ⟨h1, _⟩ := h; subst h1
      exact Frame.heapSet hc _ _ _
  | callBlock callee args params defaults body uc =>
    simp only [exec, bind, Except.bind] at h
    repeat' (split at h)
    all_goals first
      | (simp at h; done)
      | (simp at h; obtain ⟨h1, _⟩ := h; subst h1; exact Frame.refl _ _)
  | breakS => simp [exec] at h; obtain ⟨h1, _⟩ := h; subst h1; exact Frame.refl _ _
  | continueS => simp [exec] at h; obtain ⟨h1, _⟩ := h; subst h1; exact Frame.refl _ _


theorem frame_all : ∀ fuel, ExecFrame fuel ∧ BlockFrame fuel ∧ ItersSame fuel := by
  intro fuel
  induction fuel with
  | zero =>
    refine ⟨?_, ?_, ?_⟩
    · intro ctx stack σ s σ' fl h; simp [exec] at h
    · intro ctx stack σ ss σ' fl h; simp [execBlock] at h
    · intro ctx stack σ t body items σ' h; simp [execIters] at h
  | succ n ih =>
    obtain ⟨_, hb, hi⟩ := ih
    have he' := exec_of_block n hb hi
    exact ⟨he', block_of_exec n (by assumption) hb, iters_of_block n hb hi⟩

theorem exec_frame {fuel ctx stack σ s σ' fl} (h : exec fuel ctx stack σ s = .ok (σ', fl)) :
    Frame stack σ.heap σ'.heap := (frame_all fuel).1 _ _ _ _ _ _ h

theorem execBlock_frame {fuel ctx stack σ ss σ' fl} (h : execBlock fuel ctx stack σ ss = .ok (σ', fl)) :
    Frame stack σ.heap σ'.heap := (frame_all fuel).2.1 _ _ _ _ _ _ h

theorem execIters_heap {fuel ctx stack σ t body items σ'}
    (h : execIters fuel ctx stack σ t body items = .ok σ') : σ'.heap = σ.heap :=
  (frame_all fuel).2.2 _ _ _ _ _ _ _ h


/-! ## Writing and reading the innermost cell -/

theorem assocGet_assocSet_same {α : Type} (x : String) (v : α) (c : List (String × α)) :
    assocGet x (assocSet x v c) = some v := by
  induction c with
  | nil => simp [assocSet, assocGet]
  | cons p rest ih =>
    obtain ⟨k, w⟩ := p
    by_cases hk : k = x
    · simp [assocSet, assocGet, hk]
    · simp [assocSet, assocGet, hk, ih]

theorem assocGet_assocSet_other {α : Type} (x y : String) (v : α) (c : List (String × α)) (hne : y ≠ x) :
    assocGet y (assocSet x v c) = assocGet y c := by
  induction c with
  | nil => simp [assocSet, assocGet, Ne.symm hne]
  | cons p rest ih =>
    obtain ⟨k, w⟩ := p
    by_cases hk : k = x
    · subst hk; simp [assocSet, assocGet, Ne.symm hne]
    · by_cases hy : k = y
      · subst hy; simp [assocSet, assocGet, hk]
      · simp [assocSet, assocGet, hk, hy, ih]

theorem heapSet_getElem?_same (h : Heap) (id : Nat) (x : String) (v : Val) (hid : id < h.length) :
    (heapSet h id x v)[id]? = some (assocSet x v h[id]) := by
  unfold heapSet
  rw [List.getElem?_eq_getElem hid]
  simp [hid]

/-- a variable written into the innermost cell is what a lookup from that scope finds -/
theorem lookup_heapSet_same (ctx : Scope) (h : Heap) (cell : Nat) (rest : List Nat) (x : String) (v : Val)
    (hid : cell < h.length) : lookup ctx (heapSet h cell x v) (cell :: rest) x = some v := by
  simp [lookup, lookupIn, heapSet_getElem?_same h cell x v hid, assocGet_assocSet_same]

/-- … and no other variable of that cell is disturbed -/
theorem heapSet_other (h : Heap) (cell : Nat) (x y : String) (v : Val) (hne : y ≠ x) (hid : cell < h.length) :
    ((heapSet h cell x v)[cell]?).bind (assocGet y) = (h[cell]?).bind (assocGet y) := by
  rw [heapSet_getElem?_same h cell x v hid, List.getElem?_eq_getElem hid]
  simp [assocGet_assocSet_other x y v _ hne]


theorem execBlock_nil {n ctx stack σ σ' fl} (h : execBlock n ctx stack σ [] = .ok (σ', fl)) :
    σ' = σ ∧ fl = .normal := by
  cases n with
  | zero => simp [execBlock] at h
  | succ k => simp [execBlock] at h; exact ⟨h.1.symm, h.2.symm⟩


end MJ.C03
