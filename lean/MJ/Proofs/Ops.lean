import MJ.Model.Ops
/-!
# `loop_recursion_bases` is paired with the loop frames (helper lemmas for C05)
-/
namespace MJ.Ops

/-- the invariant: the engine's `loop_recursion_bases` is the list of the bases recorded by the
`PushLoop`s of the live loop frames, and a loop frame has a base iff it has a recursion return -/
def Inv (s : State) : Prop :=
  s.bases = basesOf s.frames ∧ framesOk s.frames = true

/-- `PopFrame` is about to pop a loop frame (the engine would silently drop the loop) -/
def PopsLoop (code : Code) (s : State) : Prop :=
  code[s.pc]? = some .popFrame ∧ ∃ l fs, s.frames = .loopF l :: fs

theorem init_inv (e h : Nat) : Inv (init e h) := ⟨rfl, rfl⟩

theorem step_inv {code : Code} {m t : State} {k : Nat} (hi : Inv m) (hd : ¬ PopsLoop code m)
    (ht : t ∈ step condReal code m k) : Inv t := by
  obtain ⟨hb, hf⟩ := hi
  unfold step at ht
  split at ht
  · simp at ht
  · rename_i i hci
    cases i with
    | eff a b =>
      simp only at ht
      split at ht
      · simp only [List.mem_singleton] at ht; subst ht; exact ⟨hb, hf⟩
      · simp at ht
    | dyn =>
      simp only at ht
      split at ht
      · simp only [List.mem_singleton] at ht; subst ht; exact ⟨hb, hf⟩
      · simp at ht
    | unpack n =>
      simp only at ht
      split at ht
      · simp only [List.mem_singleton] at ht; subst ht; exact ⟨hb, hf⟩
      · simp at ht
    | call n =>
      simp only at ht
      split at ht
      · simp only [List.mem_cons] at ht
        rcases ht with ht | ht
        · subst ht; exact ⟨hb, hf⟩
        · split at ht
          · simp only [List.mem_map] at ht
            obtain ⟨x, _, hx⟩ := ht
            subst hx; exact ⟨hb, hf⟩
          · simp at ht
      · simp at ht
    | callDyn =>
      simp only [List.mem_append] at ht
      rcases ht with ht | ht
      · split at ht
        · simp only [List.mem_singleton] at ht; subst ht; exact ⟨hb, hf⟩
        · simp at ht
      · split at ht
        · simp only [List.mem_map] at ht
          obtain ⟨x, _, hx⟩ := ht
          subst hx; exact ⟨hb, hf⟩
        · simp at ht
    | pushWith =>
      simp only [List.mem_singleton] at ht; subst ht
      exact ⟨by simpa [basesOf] using hb, by simpa [framesOk] using hf⟩
    | popFrame =>
      simp only at ht
      split at ht
      · rename_i f fs hfr
        simp only [List.mem_singleton] at ht; subst ht
        cases f with
        | withF g =>
          rw [hfr] at hb hf
          exact ⟨by simpa [basesOf] using hb, by simpa [framesOk] using hf⟩
        | loopF l => exact absurd ⟨hci, l, fs, hfr⟩ hd
      · simp at ht
    | pushLoop v r =>
      simp only [doPushLoop] at ht
      split at ht
      · simp at ht
      · simp only [List.mem_singleton] at ht; subst ht
        cases hn : m.next with
        | none =>
          simp only [condReal, Option.isSome_none, Bool.false_eq_true, if_false]
          exact ⟨by simpa [basesOf] using hb, by simpa [framesOk] using hf⟩
        | some p =>
          simp only [condReal, Option.isSome_some, if_true]
          exact ⟨by simp [basesOf, hb], by simpa [framesOk] using hf⟩
    | iterate tg =>
      simp only at ht
      split at ht
      · simp only [List.mem_cons, List.not_mem_nil, or_false] at ht
        rcases ht with ht | ht <;> (subst ht; exact ⟨hb, hf⟩)
      · simp only [List.mem_singleton] at ht; subst ht; exact ⟨hb, hf⟩
    | pushDidNotIterate =>
      simp only at ht
      split at ht
      · simp only [List.mem_singleton] at ht; subst ht; exact ⟨hb, hf⟩
      · simp at ht
    | popLoopFrame =>
      simp only [doPopLoopFrame] at ht
      split at ht
      · rename_i l fs hfr
        rw [hfr] at hb hf
        simp only [framesOk, Bool.and_eq_true, beq_iff_eq] at hf
        split at ht
        · rename_i hret
          simp only [List.mem_singleton] at ht; subst ht
          have hg : l.gbase = none := by
            have := hf.1; rw [hret] at this
            simpa using this
          exact ⟨by simpa [basesOf, hg] using hb, hf.2⟩
        · rename_i tg cap hret
          simp only [List.mem_singleton] at ht; subst ht
          have hg : l.gbase.isSome = true := by
            have := hf.1; rw [hret] at this
            simpa using this
          obtain ⟨b, hgb⟩ := Option.isSome_iff_exists.mp hg
          have hb' : m.bases = b :: basesOf fs := by simpa [basesOf, hgb] using hb
          refine ⟨?_, hf.2⟩
          simp [hb', truncated]
      · simp at ht
    | beginCapture =>
      simp only [List.mem_singleton] at ht; subst ht; exact ⟨hb, hf⟩
    | endCapture =>
      simp only at ht
      split at ht <;> (simp only [List.mem_singleton] at ht; subst ht; exact ⟨hb, hf⟩)
    | pushAutoEscape =>
      simp only at ht
      split at ht
      · simp only [List.mem_singleton] at ht; subst ht; exact ⟨hb, hf⟩
      · simp at ht
    | popAutoEscape =>
      simp only at ht
      split at ht
      · simp only [List.mem_singleton] at ht; subst ht; exact ⟨hb, hf⟩
      · simp at ht
    | jump tg =>
      simp only [List.mem_singleton] at ht; subst ht; exact ⟨hb, hf⟩
    | jumpIfFalse tg =>
      simp only at ht
      split at ht
      · simp only [List.mem_cons, List.not_mem_nil, or_false] at ht
        rcases ht with ht | ht <;> (subst ht; exact ⟨hb, hf⟩)
      · simp at ht
    | jumpIfFalseOrPop tg =>
      simp only at ht
      split at ht
      · simp only [List.mem_cons, List.not_mem_nil, or_false] at ht
        rcases ht with ht | ht <;> (subst ht; exact ⟨hb, hf⟩)
      · simp at ht
    | jumpIfTrueOrPop tg =>
      simp only at ht
      split at ht
      · simp only [List.mem_cons, List.not_mem_nil, or_false] at ht
        rcases ht with ht | ht <;> (subst ht; exact ⟨hb, hf⟩)
      · simp at ht
    | fastRecurse =>
      simp only at ht
      split at ht
      · split at ht
        · simp only [List.mem_singleton] at ht; subst ht; exact ⟨hb, hf⟩
        · simp at ht
      · simp at ht
    | ret => simp at ht
    | buildMacro o =>
      simp only at ht
      split at ht
      · simp only [List.mem_singleton] at ht; subst ht; exact ⟨hb, hf⟩
      · simp at ht
    | exportLocals =>
      simp only at ht
      split at ht
      · simp only [List.mem_singleton] at ht; subst ht; exact ⟨hb, hf⟩
      · simp at ht

/-- frame discipline of a stream from an entry state: `PopFrame` never meets a loop frame (what
`MJ.Bal.checkCert_sound` proves for streams with an accepted certificate) -/
def Disciplined (code : Code) (s0 : State) : Prop :=
  ∀ s, Reach condReal code s0 s → ¬ PopsLoop code s

theorem reach_inv {code : Code} {s0 s : State} (hd : Disciplined code s0) (h0 : Inv s0)
    (hr : Reach condReal code s0 s) : Inv s := by
  induction hr with
  | refl => exact h0
  | tail k hr' ht ih => exact step_inv ih (hd _ hr') ht

/-- a stream without `PopFrame` is disciplined for trivial reasons (used for examples) -/
theorem disciplined_of_no_popFrame {code : Code} {s0 : State}
    (h : ∀ i ∈ code.toList, i ≠ Instr.popFrame) : Disciplined code s0 := by
  intro s _ hp
  obtain ⟨hc, _⟩ := hp
  have : Instr.popFrame ∈ code.toList := by
    rw [← Array.getElem?_toList] at hc
    exact List.mem_of_getElem? hc
  exact h _ this rfl

/-- following a path of choices `(k, index of the successor)` -/
def follow (cond : Cond) (code : Code) : State → List (Nat × Nat) → Option State
  | s, [] => some s
  | s, (k, i) :: rest =>
    match (step cond code s k)[i]? with
    | some t => follow cond code t rest
    | none => none

theorem follow_reach {cond : Cond} {code : Code} {s0 : State} :
    ∀ (p : List (Nat × Nat)) (s t : State), Reach cond code s0 s → follow cond code s p = some t →
      Reach cond code s0 t := by
  intro p
  induction p with
  | nil => intro s t hr h; simp only [follow, Option.some.injEq] at h; subst h; exact hr
  | cons x rest ih =>
    intro s t hr h
    obtain ⟨k, i⟩ := x
    simp only [follow] at h
    split at h
    · rename_i u hu
      exact ih u t (.tail k hr (List.mem_of_getElem? hu)) h
    · simp at h

end MJ.Ops
