import MJ.Model.BlocksAct
/-! Lemmas for the activation-state model of C06 (`MJ.Model.BlocksAct`). -/
namespace MJ.BlocksAct

/-- every filled slot holds the name the stream gives that id -/
def Coherent (c : Cache) (s : Stream) : Prop := ∀ i n, c i = some n → s[i]? = some n

theorem coherent_empty (s : Stream) : Coherent Cache.empty s := by
  intro i n h; simp [Cache.empty] at h

theorem useId_fst {c : Cache} {s : Stream} (h : Coherent c s) (i : Nat) :
    (useId s c i).1 = s[i]? := by
  unfold useId
  cases hc : c i with
  | some n => simp [h i n hc]
  | none =>
    cases hs : s[i]? with
    | some n => simp
    | none => simp

theorem useId_coherent {c : Cache} {s : Stream} (h : Coherent c s) (i : Nat) :
    Coherent (useId s c i).2 s := by
  unfold useId
  cases hc : c i with
  | some n => simpa using h
  | none =>
    cases hs : s[i]? with
    | none => simpa using h
    | some n =>
      intro j m hj
      simp only [Cache.set] at hj
      by_cases e : j = i
      · subst e; simp at hj; subst hj; exact hs
      · simp [e] at hj; exact h j m hj

theorem run_eq_spec_of_coherent (wipe : Cache → Bool) (hw : ∀ c, wipe c = true) :
    ∀ (evs : List Ev) (s : Stream) (c : Cache), Coherent c s → run wipe s c evs = runSpec s evs
  | [], _, _, _ => rfl
  | .use i :: rest, s, c, h => by
    simp only [run, runSpec]
    rw [useId_fst h, run_eq_spec_of_coherent wipe hw rest s _ (useId_coherent h i)]
  | .switch p :: rest, s, c, h => by
    simp only [run, runSpec, hw c, if_true]
    exact run_eq_spec_of_coherent wipe hw rest p _ (coherent_empty p)

end MJ.BlocksAct
