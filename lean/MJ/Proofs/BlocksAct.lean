import MJ.Model.BlocksAct
/-! Lemmas for the activation-state model of C06 (`MJ.Model.BlocksAct`). -/
namespace MJ.BlocksAct

/-- every filled slot holds the name the stream gives that id -/
def Coherent (c : Cache) (s : Stream) : Prop := ∀ i n, c i = some n → s[i]? = some n

theorem coherent_empty (s : Stream) : Coherent Cache.empty s := by
  intro i n h; simp [Cache.empty] at h

theorem useId_fst {c : Cache} {s : Stream} (h : Coherent c s) (i : Nat) :
    (useId s c i).1 = s[i]? := by
  unfold useId
  cases hc : c i with
  | some n => simp [h i n hc]
  | none =>
    cases hs : s[i]? with
    | some n => simp
    | none => simp

theorem useId_coherent {c : Cache} {s : Stream} (h : Coherent c s) (i : Nat) :
    Coherent (useId s c i).2 s := by
  unfold useId
  cases hc : c i with
  | some n => simpa using h
  | none =>
    cases hs : s[i]? with
    | none => simpa using h
    | some n =>
      intro j m hj
      simp only [Cache.set] at hj
      by_cases e : j = i
      · subst e; simp at hj; subst hj; exact hs
      · simp [e] at hj; exact h j m hj

theorem run_eq_spec_of_coherent (wipe : Cache → Bool) (hw : ∀ c, wipe c = true) :
    ∀ (evs : List Ev) (s : Stream) (c : Cache), Coherent c s → run wipe s c evs = runSpec s evs
  | [], _, _, _ => rfl
  | .use i :: rest, s, c, h => by
    simp only [run, runSpec]
    rw [useId_fst h, run_eq_spec_of_coherent wipe hw rest s _ (useId_coherent h i)]
  | .switch p :: rest, s, c, h => by
    simp only [run, runSpec, hw c, if_true]
    exact run_eq_spec_of_coherent wipe hw rest p _ (coherent_empty p)

theorem run2_eq_spec (wipe : Cache → Bool) (hw : ∀ c, wipe c = true) :
    ∀ (evs : List Ev2) (s : Stream) (c : Cache) (stk : List (Stream × Cache)),
      Coherent c s → (∀ e ∈ stk, Coherent e.2 e.1) →
      run2 wipe s c stk evs = runSpec2 s (stk.map (·.1)) evs
  | [], _, _, _, _, _ => by simp [run2, runSpec2]
  | .use i :: rest, s, c, stk, h, hs => by
    simp only [run2, runSpec2]
    rw [useId_fst h, run2_eq_spec wipe hw rest s _ stk (useId_coherent h i) hs]
  | .switch p :: rest, s, c, stk, h, hs => by
    simp only [run2, runSpec2, hw c, if_true]
    exact run2_eq_spec wipe hw rest p _ stk (coherent_empty p) hs
  | .call s' :: rest, s, c, stk, h, hs => by
    simp only [run2, runSpec2]
    have := run2_eq_spec wipe hw rest s' Cache.empty ((s, c) :: stk) (coherent_empty s')
      (by intro e he; cases he with
          | head => exact h
          | tail _ h' => exact hs e h')
    simpa using this
  | .ret :: rest, s, c, [], h, hs => by
    simp only [run2, runSpec2, List.map_nil]
    exact run2_eq_spec wipe hw rest s c [] h hs
  | .ret :: rest, s, c, (s0, c0) :: stk, h, hs => by
    simp only [run2, runSpec2, List.map_cons]
    exact run2_eq_spec wipe hw rest s0 c0 stk (hs (s0, c0) (by simp)) (fun e he => hs e (by simp [he]))

end MJ.BlocksAct
