import MJ.Model.ValueSer
/-! `impl Serialize for Value` keeps serde's length contract (C16). -/
namespace MJ.ValueSer

theorem serCallsList_length (xs : List LV) : (serCallsList xs).length = xs.length := by
  induction xs with
  | nil => rfl
  | cons x xs ih => simp [serCallsList, ih]

theorem enLen_exact (en : En) (count n : Nat) (h : enHonest en count) (hn : enLen en count = some n)
    (hne : en ≠ .nonEnumerable) : count = n := by
  cases en with
  | nonEnumerable => exact absurd rfl hne
  | empty => simp [enLen] at hn; simp [enHonest] at h; omega
  | exact => simp [enLen] at hn; exact hn
  | sized m => simp [enLen] at hn; simp [enHonest] at h; omega
  | hinted lo hi =>
    simp only [enLen] at hn
    split at hn
    · rename_i hhi
      simp at hn
      simp only [enHonest] at h
      have := h.2 lo hhi
      omega
    · simp at hn

mutual
theorem contract_serCalls : ∀ (lv : LV), Honest lv → ContractOK (serCalls lv)
  | .leaf v, _ => by cases v <;> simp [serCalls, scalarCall, ContractOK]
  | .list t xs, h => by
    simp only [Honest] at h
    simp only [serCalls, ContractOK]
    exact ⟨by intro n hn; simp at hn; rw [serCallsList_length]; exact hn, contract_serCallsList xs h⟩
  | .lazy en xs, h => by
    simp only [Honest] at h
    cases en with
    | nonEnumerable => simp [serCalls, ContractOK, ContractOKList]
    | empty =>
      simp only [serCalls, ContractOK]
      exact ⟨by intro n hn; rw [serCallsList_length]; exact enLen_exact _ _ _ h.1 hn (by simp),
        contract_serCallsList xs h.2⟩
    | exact =>
      simp only [serCalls, ContractOK]
      exact ⟨by intro n hn; rw [serCallsList_length]; exact enLen_exact _ _ _ h.1 hn (by simp),
        contract_serCallsList xs h.2⟩
    | sized m =>
      simp only [serCalls, ContractOK]
      exact ⟨by intro n hn; rw [serCallsList_length]; exact enLen_exact _ _ _ h.1 hn (by simp),
        contract_serCallsList xs h.2⟩
    | hinted lo hi =>
      simp only [serCalls, ContractOK]
      exact ⟨by intro n hn; rw [serCallsList_length]; exact enLen_exact _ _ _ h.1 hn (by simp),
        contract_serCallsList xs h.2⟩
  | .vmap kvs, h => by
    simp only [Honest] at h
    simp only [serCalls, ContractOK]
    exact ⟨by intro n hn; simp at hn, contract_serCallsPairs kvs h⟩
  | .omap e kvs, h => by
    simp only [Honest] at h
    simp only [serCalls, ContractOK]
    refine ⟨by intro n hn; simp at hn, ?_⟩
    cases e
    · simp [ContractOKPairs]
    · simpa using contract_serCallsPairs kvs h
theorem contract_serCallsList : ∀ (xs : List LV), HonestList xs → ContractOKList (serCallsList xs)
  | [], _ => by simp [serCallsList, ContractOKList]
  | x :: xs, h => by
    simp only [HonestList] at h
    simp only [serCallsList, ContractOKList]
    exact ⟨contract_serCalls x h.1, contract_serCallsList xs h.2⟩
theorem contract_serCallsPairs : ∀ (kvs : List (LV × LV)), HonestPairs kvs → ContractOKPairs (serCallsPairs kvs)
  | [], _ => by simp [serCallsPairs, ContractOKPairs]
  | (k, v) :: rest, h => by
    simp only [HonestPairs] at h
    simp only [serCallsPairs, ContractOKPairs]
    exact ⟨contract_serCalls k h.1, contract_serCalls v h.2.1, contract_serCallsPairs rest h.2.2⟩
end

/-- the headline form: an announced sequence length is the number of elements -/
theorem announced_len_exact (en : En) (xs : List LV) (h : Honest (.lazy en xs)) (n : Nat) (elems : List Call)
    (hc : serCalls (.lazy en xs) = .seq (some n) elems) : elems.length = n := by
  have := contract_serCalls (.lazy en xs) h
  rw [hc] at this
  simp only [ContractOK] at this
  exact this.1 n rfl

end MJ.ValueSer

namespace MJ.ValueSer

mutual
/-- a conversion leaves the flag as it found it — also when it (or something nested) panics — and
everything nested inside it runs with the flag set -/
theorem runConv_restores : ∀ (c : Conv) (flag : Bool), (runConv c flag).1 = flag
  | .conv inner panics, flag => by
    have h := runConvs_restores inner true
    cases flag <;> simp [runConv, h]
theorem runConvs_restores : ∀ (cs : List Conv) (flag : Bool), (runConvs cs flag).1 = flag
  | [], flag => rfl
  | c :: cs, flag => by
    have h1 := runConv_restores c flag
    simp only [runConvs]
    split
    · exact h1
    · rw [h1]; exact runConvs_restores cs flag
end

end MJ.ValueSer
