import MJ.Model.MemoConc
import MJ.Proofs.Store
/-! helper lemmas for the concurrent model of the memoising tier (C15) -/
namespace MJ.MemoConc
open MJ.Store

theorem run_append (c : LtCfg → Source → Bool) (l : List Op) (op : Op) :
    ∀ s : Store, Store.run c s (l ++ [op]) = ((Store.run c s l).step c op).1 := by
  induction l with
  | nil => intro s; rfl
  | cons a l ih => intro s; simp only [List.cons_append, Store.run]; exact ih _

/-- `LoaderStore::get` = look in the borrowed tier, look in the memo map, else create -/
theorem get_eq_creator (c : LtCfg → Source → Bool) (s : Store) (n : Name)
    (hb : find s.borrowed n = none) (ho : find s.owned n = none) : s.get c n = creator c s n := by
  unfold Store.get creator
  simp only [hb, ho]
  rfl

theorem get_borrowed_hit (c : LtCfg → Source → Bool) (s : Store) (n : Name) (t : Tmpl)
    (hb : find s.borrowed n = some t) : s.get c n = (s, .found t) := by
  unfold Store.get
  simp only [hb]

theorem get_owned_hit (c : LtCfg → Source → Bool) (s : Store) (n : Name) (t : Tmpl) (o : Origin)
    (hb : find s.borrowed n = none) (ho : find s.owned n = some (t, o)) : s.get c n = (s, .found t) := by
  unfold Store.get
  simp only [hb, ho]

theorem creator_fields (c : LtCfg → Source → Bool) (s : Store) (n : Name) :
    (creator c s n).1.loader = s.loader ∧ (creator c s n).1.cfg = s.cfg ∧
    (creator c s n).1.borrowed = s.borrowed := by
  unfold creator
  split
  · exact ⟨rfl, rfl, rfl⟩
  · split <;> try exact ⟨rfl, rfl, rfl⟩
    split <;> exact ⟨rfl, rfl, rfl⟩

/-- the creator adds at most the entry for `n` -/
theorem creator_owned_other (c : LtCfg → Source → Bool) (s : Store) (n m : Name) (h : m ≠ n) :
    find (creator c s n).1.owned m = find s.owned m := by
  unfold creator
  split
  · rfl
  · split <;> try rfl
    split
    · exact find_ins_ne _ _ h
    · rfl

/-- what the creator stores is what it returns -/
theorem creator_owned_self (c : LtCfg → Source → Bool) (s : Store) (n : Name) (_ho : find s.owned n = none) :
    (∃ t, (creator c s n).2 = .found t ∧ find (creator c s n).1.owned n = some (t, .loaded)) ∨
    ((∀ t, (creator c s n).2 ≠ .found t) ∧ (creator c s n).1 = s) := by
  have hno : ∀ (r : Res), (∀ t, r ≠ .found t) → ((∀ t, (s, r).2 ≠ .found t) ∧ (s, r).1 = s) := fun r h => ⟨h, rfl⟩
  unfold creator
  split
  · exact Or.inr (hno _ (by intro t h; cases h))
  · split
    · exact Or.inr (hno _ (by intro t h; cases h))
    · exact Or.inr (hno _ (by intro t h; cases h))
    · exact Or.inr (hno _ (by intro t h; cases h))
    · split
      · exact Or.inl ⟨_, rfl, find_ins_self _ _ _⟩
      · exact Or.inr (hno _ (by intro t h; cases h))

/-! ## the mutex invariant -/

/-- per thread: a thread inside the critical section holds the mutex, is working on the head of its
    to-do list, found nothing in the borrowed tier, and — once it has looked — nobody has put the name
    into the map since -/
def ThrOk (σ : Sys) (i : Nat) (t : Thr) : Prop :=
  match t.pc with
  | .idle => σ.lock ≠ some i
  | .locked n => σ.lock = some i ∧ find σ.store.borrowed n = none ∧ ∃ rest, t.todo = n :: rest
  | .missed n => σ.lock = some i ∧ find σ.store.borrowed n = none ∧ (∃ rest, t.todo = n :: rest) ∧
      find σ.store.owned n = none
  | .releasing n _ => σ.lock = some i ∧ ∃ rest, t.todo = n :: rest

def Sys.Inv (σ : Sys) : Prop := ∀ i t, σ.thr[i]? = some t → ThrOk σ i t

theorem start_inv (s : Store) (todos : List (List Name)) : (Sys.start s todos).Inv := by
  intro i t h
  simp only [Sys.start, List.getElem?_map, Option.map_eq_some_iff] at h
  obtain ⟨td, _, rfl⟩ := h
  simp [ThrOk, Sys.start]

/-- a thread that is not inside the critical section is unaffected by changes of lock and map made by
    thread `i`; a thread that is inside it is `i` itself -/
theorem ThrOk.other {σ σ' : Sys} {i j : Nat} {t : Thr} (hji : j ≠ i) (h : ThrOk σ j t)
    (hb : σ'.store.borrowed = σ.store.borrowed)
    (hl : σ'.lock = σ.lock ∨ (σ.lock = none ∧ σ'.lock = some i) ∨ (σ.lock = some i ∧ σ'.lock = none))
    (ho : σ.lock = some i ∨ σ'.store.owned = σ.store.owned) : ThrOk σ' j t := by
  unfold ThrOk at *
  have hne : (some j : Option Nat) ≠ some i := by intro e; exact hji (Option.some.inj e)
  split
  · rename_i hpc; simp only [hpc] at h
    rcases hl with hl | ⟨_, hl⟩ | ⟨_, hl⟩
    · rw [hl]; exact h
    · rw [hl]; exact fun e => hne e.symm
    · rw [hl]; exact fun e => by cases e
  · rename_i n hpc; simp only [hpc] at h
    obtain ⟨h1, h2, h3⟩ := h
    have hli : σ.lock ≠ some i := by rw [h1]; exact hne
    rcases hl with hl | ⟨hl, _⟩ | ⟨hl, _⟩
    · exact ⟨hl ▸ h1, hb ▸ h2, h3⟩
    · rw [hl] at h1; cases h1
    · exact absurd hl hli
  · rename_i n hpc; simp only [hpc] at h
    obtain ⟨h1, h2, h3, h4⟩ := h
    have hli : σ.lock ≠ some i := by rw [h1]; exact hne
    rcases hl with hl | ⟨hl, _⟩ | ⟨hl, _⟩
    · refine ⟨hl ▸ h1, hb ▸ h2, h3, ?_⟩
      rcases ho with ho | ho
      · exact absurd ho hli
      · rw [ho]; exact h4
    · rw [hl] at h1; cases h1
    · exact absurd hl hli
  · rename_i n r hpc; simp only [hpc] at h
    obtain ⟨h1, h3⟩ := h
    have hli : σ.lock ≠ some i := by rw [h1]; exact hne
    rcases hl with hl | ⟨hl, _⟩ | ⟨hl, _⟩
    · exact ⟨hl ▸ h1, h3⟩
    · rw [hl] at h1; cases h1
    · exact absurd hl hli


theorem inv_of_set {σ σ' : Sys} {i : Nat} {t' : Thr} (hσ : σ.Inv)
    (hthr : σ'.thr = σ.thr.set i t') (hself : ThrOk σ' i t')
    (hb : σ'.store.borrowed = σ.store.borrowed)
    (hl : σ'.lock = σ.lock ∨ (σ.lock = none ∧ σ'.lock = some i) ∨ (σ.lock = some i ∧ σ'.lock = none))
    (ho : σ.lock = some i ∨ σ'.store.owned = σ.store.owned) : σ'.Inv := by
  intro j tj hj
  rw [hthr] at hj
  by_cases hji : j = i
  · subst hji
    rw [List.getElem?_set_self'] at hj
    cases hlt : (decide (j < σ.thr.length)) with
    | false => simp at hlt; simp [Nat.not_lt.mpr hlt] at hj
    | true =>
      simp at hlt
      simp [hlt] at hj
      subst hj
      exact hself
  · rw [List.getElem?_set_ne (fun e => hji e.symm)] at hj
    exact ThrOk.other hji (hσ j tj hj) hb hl ho

theorem stepThr_inv (c : LtCfg → Source → Bool) (σ : Sys) (i : Nat) (hσ : σ.Inv) : (σ.stepThr c i).Inv := by
  unfold Sys.stepThr
  split
  · exact hσ
  · rename_i t hti
    have hok := hσ i t hti
    split
    · -- idle
      rename_i hpc
      simp only [ThrOk, hpc] at hok
      split
      · exact hσ
      · rename_i n rest htodo
        split
        · -- borrowed hit
          refine inv_of_set hσ rfl ?_ rfl (Or.inl rfl) (Or.inr rfl)
          simp only [ThrOk]; exact hok
        · split
          · exact hσ
          · rename_i _ hb _ hlock
            refine inv_of_set hσ rfl ?_ rfl (Or.inr (Or.inl ⟨hlock, rfl⟩)) (Or.inr rfl)
            show _ ∧ _ ∧ _
            exact ⟨rfl, hb, rest, htodo⟩
    · -- locked
      rename_i n hpc
      simp only [ThrOk, hpc] at hok
      obtain ⟨h1, h2, h3⟩ := hok
      split
      · refine inv_of_set hσ rfl ?_ rfl (Or.inl rfl) (Or.inr rfl)
        simp only [ThrOk]; exact ⟨h1, h3⟩
      · rename_i hown
        refine inv_of_set hσ rfl ?_ rfl (Or.inl rfl) (Or.inr rfl)
        simp only [ThrOk]; exact ⟨h1, h2, h3, hown⟩
    · -- missed: create + insert
      rename_i n hpc
      simp only [ThrOk, hpc] at hok
      obtain ⟨h1, h2, h3, h4⟩ := hok
      refine inv_of_set hσ rfl ?_ (creator_fields c σ.store n).2.2 (Or.inl rfl) (Or.inl h1)
      simp only [ThrOk]; exact ⟨h1, h3⟩
    · -- releasing
      rename_i n r hpc
      simp only [ThrOk, hpc] at hok
      obtain ⟨h1, h3⟩ := hok
      refine inv_of_set hσ rfl ?_ rfl (Or.inr (Or.inr ⟨h1, rfl⟩)) (Or.inr rfl)
      simp only [ThrOk]; exact fun e => by cases e

theorem step_inv (c : LtCfg → Source → Bool) (σ : Sys) (e : Ev) (hσ : σ.Inv) : (σ.step c e).Inv := by
  cases e with
  | thread i => exact stepThr_inv c σ i hσ
  | world l =>
    intro j t hj
    have h := hσ j t hj
    unfold ThrOk at *
    exact h

theorem run_inv (c : LtCfg → Source → Bool) (es : List Ev) : ∀ σ : Sys, σ.Inv → (σ.run c es).Inv := by
  induction es with
  | nil => intro σ h; exact h
  | cons e es ih => intro σ h; exact ih _ (step_inv c σ e h)


/-! ## refinement: the run is its linearisation -/

/-- the shared store is what the sequential run of the linearisation gives, and every thread has got
    the answers the sequential run gives to its lookups -/
def Sys.Ref (c : LtCfg → Source → Bool) (s₀ : Store) (σ : Sys) : Prop :=
  Store.run c s₀ σ.history = σ.store ∧
  ∀ i t, σ.thr[i]? = some t → t.answers = seqAnswers c s₀ σ.trace (some i)

theorem getElem?_set_cases {α : Type} (l : List α) (i j : Nat) (a b : α) (h : (l.set i a)[j]? = some b) :
    (j = i ∧ b = a) ∨ (j ≠ i ∧ l[j]? = some b) := by
  by_cases hji : j = i
  · subst hji
    rw [List.getElem?_set_self'] at h
    by_cases hlt : j < l.length
    · simp [hlt] at h; exact Or.inl ⟨rfl, h.symm⟩
    · simp [hlt] at h
  · rw [List.getElem?_set_ne (fun e => hji e.symm)] at h
    exact Or.inr ⟨hji, h⟩

theorem ref_of_set (c : LtCfg → Source → Bool) (s₀ : Store) {σ σ' : Sys} {i : Nat} {t t' : Thr}
    (hti : σ.thr[i]? = some t) (hr : σ.Ref c s₀) (hthr : σ'.thr = σ.thr.set i t')
    (h : (σ'.trace = σ.trace ∧ σ'.store = σ.store ∧ t'.answers = t.answers) ∨
         (∃ n r, σ'.trace = (some i, .get n) :: σ.trace ∧ σ.store.get c n = (σ'.store, r) ∧
            t'.answers = (n, r) :: t.answers)) : σ'.Ref c s₀ := by
  obtain ⟨hr1, hr2⟩ := hr
  rcases h with ⟨htr, hst, hans⟩ | ⟨n, r, htr, hget, hans⟩
  · refine ⟨?_, ?_⟩
    · unfold Sys.history at *; rw [htr, hst]; exact hr1
    · intro j tj hj
      rw [hthr] at hj
      rcases getElem?_set_cases _ _ _ _ _ hj with ⟨rfl, rfl⟩ | ⟨_, hj'⟩
      · rw [hans, htr]; exact hr2 _ _ hti
      · rw [htr]; exact hr2 _ _ hj'
  · have hrun : Store.run c s₀ (σ.trace.reverse.map (·.2)) = σ.store := hr1
    refine ⟨?_, ?_⟩
    · unfold Sys.history
      rw [htr, List.reverse_cons, List.map_append, List.map_cons, List.map_nil, run_append, hrun]
      show (σ.store.get c n).1 = σ'.store
      rw [hget]
    · intro j tj hj
      rw [hthr] at hj
      rcases getElem?_set_cases _ _ _ _ _ hj with ⟨rfl, rfl⟩ | ⟨hji, hj'⟩
      · rw [hans, htr]
        simp only [seqAnswers, if_true]
        rw [hrun, hget, hr2 _ _ hti]
      · rw [htr]
        have hne : ¬ ((some i : Who) = some j) := fun e => hji (Option.some.inj e).symm
        simp only [seqAnswers, hne, if_false]
        exact hr2 _ _ hj'

theorem stepThr_ref (c : LtCfg → Source → Bool) (s₀ : Store) (σ : Sys) (i : Nat) (hσ : σ.Inv)
    (hr : σ.Ref c s₀) : (σ.stepThr c i).Ref c s₀ := by
  unfold Sys.stepThr
  split
  · exact hr
  · rename_i t hti
    have hok := hσ i t hti
    split
    · rename_i hpc
      split
      · exact hr
      · rename_i n rest htodo
        split
        · rename_i tm hb
          refine ref_of_set c s₀ hti hr rfl (Or.inr ⟨n, .found tm, rfl, get_borrowed_hit c _ n tm hb, ?_⟩)
          simp [Thr.answers, hpc]
        · split
          · exact hr
          · refine ref_of_set c s₀ hti hr rfl (Or.inl ⟨rfl, rfl, ?_⟩)
            simp [Thr.answers, hpc]
    · rename_i n hpc
      simp only [ThrOk, hpc] at hok
      obtain ⟨h1, h2, h3⟩ := hok
      split
      · rename_i tm o hown
        refine ref_of_set c s₀ hti hr rfl (Or.inr ⟨n, .found tm, rfl, get_owned_hit c _ n tm o h2 hown, ?_⟩)
        simp [Thr.answers, hpc]
      · refine ref_of_set c s₀ hti hr rfl (Or.inl ⟨rfl, rfl, ?_⟩)
        simp [Thr.answers, hpc]
    · rename_i n hpc
      simp only [ThrOk, hpc] at hok
      obtain ⟨h1, h2, h3, h4⟩ := hok
      refine ref_of_set c s₀ hti hr rfl (Or.inr ⟨n, (creator c σ.store n).2, rfl, ?_, ?_⟩)
      · rw [get_eq_creator c _ n h2 h4]
      · simp [Thr.answers, hpc]
    · rename_i n r hpc
      refine ref_of_set c s₀ hti hr rfl (Or.inl ⟨rfl, rfl, ?_⟩)
      simp [Thr.answers, hpc]

theorem step_ref (c : LtCfg → Source → Bool) (s₀ : Store) (σ : Sys) (e : Ev) (hσ : σ.Inv)
    (hr : σ.Ref c s₀) : (σ.step c e).Ref c s₀ := by
  cases e with
  | thread i => exact stepThr_ref c s₀ σ i hσ hr
  | world l =>
    obtain ⟨hr1, hr2⟩ := hr
    have hrun : Store.run c s₀ (σ.trace.reverse.map (·.2)) = σ.store := hr1
    refine ⟨?_, ?_⟩
    · unfold Sys.history
      simp only [Sys.step, List.reverse_cons, List.map_append, List.map_cons, List.map_nil]
      rw [run_append, hrun]
      rfl
    · intro j tj hj
      simp only [Sys.step, seqAnswers]
      exact hr2 j tj hj

theorem run_ref (c : LtCfg → Source → Bool) (s₀ : Store) (es : List Ev) :
    ∀ σ : Sys, σ.Inv → σ.Ref c s₀ → (σ.run c es).Ref c s₀ ∧ (σ.run c es).Inv := by
  induction es with
  | nil => intro σ h hr; exact ⟨hr, h⟩
  | cons e es ih => intro σ h hr; exact ih _ (step_inv c σ e h) (step_ref c s₀ σ e h hr)

theorem start_ref (c : LtCfg → Source → Bool) (s : Store) (todos : List (List Name)) :
    (Sys.start s todos).Ref c s := by
  refine ⟨rfl, ?_⟩
  intro i t h
  simp only [Sys.start, List.getElem?_map, Option.map_eq_some_iff] at h
  obtain ⟨td, _, rfl⟩ := h
  simp [Thr.answers, Sys.start, seqAnswers]


/-! ## entries of the memo map are never replaced while the environment is shared -/

theorem step_owned_kept (c : LtCfg → Source → Bool) (σ : Sys) (e : Ev) (hσ : σ.Inv) (m : Name)
    (x : Tmpl × Origin) (h : find σ.store.owned m = some x) : find (σ.step c e).store.owned m = some x := by
  cases e with
  | world l => exact h
  | thread i =>
    show find (σ.stepThr c i).store.owned m = some x
    unfold Sys.stepThr
    split
    · exact h
    · rename_i t hti
      have hok := hσ i t hti
      split
      · split
        · exact h
        · split
          · exact h
          · split <;> exact h
      · split <;> exact h
      · rename_i n hpc
        simp only [ThrOk, hpc] at hok
        obtain ⟨_, _, _, h4⟩ := hok
        by_cases hmn : m = n
        · subst hmn; rw [h4] at h; cases h
        · show find (creator c σ.store n).1.owned m = some x
          rw [creator_owned_other c _ n m hmn]; exact h
      · exact h

theorem run_owned_kept (c : LtCfg → Source → Bool) (es : List Ev) (m : Name) (x : Tmpl × Origin) :
    ∀ σ : Sys, σ.Inv → find σ.store.owned m = some x → find (σ.run c es).store.owned m = some x := by
  induction es with
  | nil => intro σ _ h; exact h
  | cons e es ih => intro σ hσ h; exact ih _ (step_inv c σ e hσ) (step_owned_kept c σ e hσ m x h)

/-! ## every thread performs its own lookups, in its own order -/

def Sys.Prog (todos : List (List Name)) (σ : Sys) : Prop :=
  ∀ (i : Nat) (t : Thr), σ.thr[i]? = some t → todos[i]? = some ((t.done.map (·.1)).reverse ++ t.todo)

theorem prog_of_set {todos : List (List Name)} {σ σ' : Sys} {i : Nat} {t t' : Thr}
    (hti : σ.thr[i]? = some t) (hp : σ.Prog todos) (hthr : σ'.thr = σ.thr.set i t')
    (h : (t'.done.map (·.1)).reverse ++ t'.todo = (t.done.map (·.1)).reverse ++ t.todo) : σ'.Prog todos := by
  intro j tj hj
  rw [hthr] at hj
  rcases getElem?_set_cases _ _ _ _ _ hj with ⟨rfl, rfl⟩ | ⟨_, hj'⟩
  · rw [h]; exact hp _ _ hti
  · exact hp _ _ hj'

theorem stepThr_prog (c : LtCfg → Source → Bool) (todos : List (List Name)) (σ : Sys) (i : Nat)
    (hσ : σ.Inv) (hp : σ.Prog todos) : (σ.stepThr c i).Prog todos := by
  unfold Sys.stepThr
  split
  · exact hp
  · rename_i t hti
    have hok := hσ i t hti
    split
    · split
      · exact hp
      · rename_i n rest htodo
        split
        · refine prog_of_set hti hp rfl ?_
          simp [htodo]
        · split
          · exact hp
          · exact prog_of_set hti hp rfl rfl
    · split <;> exact prog_of_set hti hp rfl rfl
    · exact prog_of_set hti hp rfl rfl
    · rename_i n r hpc
      simp only [ThrOk, hpc] at hok
      obtain ⟨_, rest, htodo⟩ := hok
      refine prog_of_set hti hp rfl ?_
      simp [htodo]

theorem run_prog (c : LtCfg → Source → Bool) (todos : List (List Name)) (es : List Ev) :
    ∀ σ : Sys, σ.Inv → σ.Prog todos → (σ.run c es).Prog todos := by
  induction es with
  | nil => intro σ _ h; exact h
  | cons e es ih =>
    intro σ hσ h
    refine ih _ (step_inv c σ e hσ) ?_
    cases e with
    | thread i => exact stepThr_prog c todos σ i hσ h
    | world l => exact fun i t hi => h i t hi

theorem start_prog (s : Store) (todos : List (List Name)) : (Sys.start s todos).Prog todos := by
  intro i t h
  simp only [Sys.start, List.getElem?_map, Option.map_eq_some_iff] at h
  obtain ⟨td, htd, rfl⟩ := h
  simp [htd]

/-! ## with a loader that answers as a function of the name, every lookup of a name gives one answer -/

theorem get_result_congr (c : LtCfg → Source → Bool) (s s' : Store) (n : Name)
    (hb : s'.borrowed = s.borrowed) (ho : find s'.owned n = find s.owned n) (hl : s'.loader = s.loader)
    (hc : s'.cfg = s.cfg) : (s'.get c n).2 = (s.get c n).2 := by
  unfold Store.get
  rw [hb, ho, hl, hc]
  repeat (first | rfl | split)

theorem get_get_result (c : LtCfg → Source → Bool) (s : Store) (m n : Name) :
    ((s.get c m).1.get c n).2 = (s.get c n).2 := by
  cases hb : find s.borrowed m with
  | some t => rw [get_borrowed_hit c s m t hb]
  | none =>
    cases ho : find s.owned m with
    | some x => obtain ⟨t, o⟩ := x; rw [get_owned_hit c s m t o hb ho]
    | none =>
      rw [get_eq_creator c s m hb ho]
      obtain ⟨hl, hc, hbb⟩ := creator_fields c s m
      rcases creator_owned_self c s m ho with ⟨t, hres, hown⟩ | ⟨_, hsame⟩
      · by_cases hnm : n = m
        · subst hnm
          rw [get_owned_hit c _ n t .loaded (hbb ▸ hb) hown, get_eq_creator c s n hb ho, hres]
        · exact get_result_congr c s _ n hbb (creator_owned_other c s m n hnm) hl hc
      · rw [hsame]

theorem run_gets_get (c : LtCfg → Source → Bool) (l : List Op) (hl : ∀ op ∈ l, ∃ m, op = .get m) (n : Name) :
    ∀ s : Store, ((Store.run c s l).get c n).2 = (s.get c n).2 := by
  induction l with
  | nil => intro s; rfl
  | cons op l ih =>
    intro s
    obtain ⟨m, rfl⟩ := hl op (by simp)
    simp only [Store.run]
    rw [ih (fun o ho => hl o (by simp [ho]))]
    exact get_get_result c s m n

theorem seqAnswers_pure (c : LtCfg → Source → Bool) (s₀ : Store) (who : Who) :
    ∀ tr : List (Who × Op), (∀ x ∈ tr, ∃ m, x.2 = .get m) →
      ∀ p ∈ seqAnswers c s₀ tr who, p.2 = (s₀.get c p.1).2 := by
  intro tr
  induction tr with
  | nil => intro _ p hp; simp [seqAnswers] at hp
  | cons x older ih =>
    intro hall p hp
    obtain ⟨w, op⟩ := x
    obtain ⟨m, hm⟩ := hall (w, op) (by simp)
    simp only at hm
    subst hm
    have hold := ih (fun y hy => hall y (by simp [hy]))
    simp only [seqAnswers] at hp
    split at hp
    · rcases List.mem_cons.mp hp with rfl | hp'
      · simp only
        apply run_gets_get
        intro o ho
        simp only [List.mem_map, List.mem_reverse] at ho
        obtain ⟨y, hy, rfl⟩ := ho
        exact hall y (by simp [hy])
      · exact hold p hp'
    · exact hold p hp

def onlyThreads : List Ev → Bool
  | [] => true
  | .thread _ :: es => onlyThreads es
  | .world _ :: _ => false

theorem stepThr_trace_gets (c : LtCfg → Source → Bool) (σ : Sys) (i : Nat)
    (h : ∀ x ∈ σ.trace, ∃ m, x.2 = .get m) : ∀ x ∈ (σ.stepThr c i).trace, ∃ m, x.2 = .get m := by
  have hcons : ∀ (n : Name), ∀ x ∈ ((some i, Op.get n) :: σ.trace : List (Who × Op)), ∃ m, x.2 = .get m := by
    intro n x hx
    rcases List.mem_cons.mp hx with rfl | hx'
    · exact ⟨n, rfl⟩
    · exact h x hx'
  unfold Sys.stepThr
  split
  · exact h
  · split
    · split
      · exact h
      · split
        · exact hcons _
        · split <;> exact h
    · split
      · exact hcons _
      · exact h
    · exact hcons _
    · exact h

theorem run_trace_gets (c : LtCfg → Source → Bool) (es : List Ev) (hes : onlyThreads es = true) :
    ∀ σ : Sys, (∀ x ∈ σ.trace, ∃ m, x.2 = .get m) → ∀ x ∈ (σ.run c es).trace, ∃ m, x.2 = .get m := by
  induction es with
  | nil => intro σ h; exact h
  | cons e es ih =>
    intro σ h
    cases e with
    | thread i => exact ih hes _ (stepThr_trace_gets c σ i h)
    | world l => simp [onlyThreads] at hes

/-! ## progress: the mutex is always held by a thread that can move -/

/-- whoever holds the mutex is a thread inside its critical section -/
def Sys.Held (σ : Sys) : Prop := ∀ i, σ.lock = some i → ∃ t, σ.thr[i]? = some t ∧ t.pc ≠ .idle

theorem start_held (s : Store) (todos : List (List Name)) : (Sys.start s todos).Held := by
  intro i h; simp [Sys.start] at h

theorem getElem?_set_self_of_some {α : Type} (l : List α) (i : Nat) (a b : α) (h : l[i]? = some b) :
    (l.set i a)[i]? = some a := by
  have hlt : i < l.length := by
    by_cases hlt : i < l.length
    · exact hlt
    · rw [List.getElem?_eq_none (Nat.le_of_not_lt hlt)] at h; cases h
  rw [List.getElem?_set_self']
  simp [hlt]

theorem held_of_set {σ σ' : Sys} {i : Nat} {t t' : Thr} (hσ : σ.Held) (hti : σ.thr[i]? = some t)
    (hthr : σ'.thr = σ.thr.set i t')
    (h : (σ'.lock = σ.lock ∧ (σ.lock = some i → t'.pc ≠ .idle)) ∨ (σ'.lock = some i ∧ t'.pc ≠ .idle) ∨ σ'.lock = none) :
    σ'.Held := by
  intro j hj
  rcases h with ⟨hl, hpc⟩ | ⟨hl, hpc⟩ | hl
  · rw [hl] at hj
    obtain ⟨tj, htj, hne⟩ := hσ j hj
    by_cases hji : j = i
    · subst hji
      exact ⟨t', by rw [hthr]; exact getElem?_set_self_of_some _ _ _ _ hti, hpc hj⟩
    · exact ⟨tj, by rw [hthr, List.getElem?_set_ne (fun e => hji e.symm)]; exact htj, hne⟩
  · rw [hl] at hj
    cases hj
    exact ⟨t', by rw [hthr]; exact getElem?_set_self_of_some _ _ _ _ hti, hpc⟩
  · rw [hl] at hj; cases hj

theorem stepThr_held (c : LtCfg → Source → Bool) (σ : Sys) (i : Nat) (hi : σ.Inv) (hσ : σ.Held) :
    (σ.stepThr c i).Held := by
  unfold Sys.stepThr
  split
  · exact hσ
  · rename_i t hti
    have hok := hi i t hti
    split
    · rename_i hpc
      simp only [ThrOk, hpc] at hok
      split
      · exact hσ
      · split
        · exact held_of_set hσ hti rfl (Or.inl ⟨rfl, fun h => absurd h hok⟩)
        · split
          · exact hσ
          · exact held_of_set hσ hti rfl (Or.inr (Or.inl ⟨rfl, by simp⟩))
    · split
      · exact held_of_set hσ hti rfl (Or.inl ⟨rfl, fun _ => by simp⟩)
      · exact held_of_set hσ hti rfl (Or.inl ⟨rfl, fun _ => by simp⟩)
    · exact held_of_set hσ hti rfl (Or.inl ⟨rfl, fun _ => by simp⟩)
    · exact held_of_set hσ hti rfl (Or.inr (Or.inr rfl))

theorem run_held (c : LtCfg → Source → Bool) (es : List Ev) :
    ∀ σ : Sys, σ.Inv → σ.Held → (σ.run c es).Held := by
  induction es with
  | nil => intro σ _ h; exact h
  | cons e es ih =>
    intro σ hi h
    refine ih _ (step_inv c σ e hi) ?_
    cases e with
    | thread i => exact stepThr_held c σ i hi h
    | world l => exact fun j hj => h j hj

/-- a step of thread `j` that gets it somewhere: its program counter changes or its to-do list shrinks -/
def Sys.Moves (c : LtCfg → Source → Bool) (σ : Sys) (j : Nat) : Prop :=
  ∃ t t', σ.thr[j]? = some t ∧ (σ.stepThr c j).thr[j]? = some t' ∧ (t'.pc ≠ t.pc ∨ t'.todo.length < t.todo.length)

theorem progress_of_inv (c : LtCfg → Source → Bool) (σ : Sys) (hi : σ.Inv) (hh : σ.Held)
    (hwork : ∃ (i : Nat) (t : Thr), σ.thr[i]? = some t ∧ t.todo ≠ []) : ∃ j, σ.Moves c j := by
  cases hl : σ.lock with
  | some i =>
    obtain ⟨t, hti, hne⟩ := hh i hl
    refine ⟨i, t, ?_⟩
    have key : ∃ t', (σ.stepThr c i).thr[i]? = some t' ∧ (t'.pc ≠ t.pc ∨ t'.todo.length < t.todo.length) := by
      unfold Sys.stepThr
      simp only [hti]
      cases hpc : t.pc with
      | idle => exact absurd hpc hne
      | locked n =>
        simp only []
        split
        · exact ⟨_, getElem?_set_self_of_some _ _ _ _ hti, Or.inl (by simp)⟩
        · exact ⟨_, getElem?_set_self_of_some _ _ _ _ hti, Or.inl (by simp)⟩
      | missed n => exact ⟨_, getElem?_set_self_of_some _ _ _ _ hti, Or.inl (by simp)⟩
      | releasing n r => exact ⟨_, getElem?_set_self_of_some _ _ _ _ hti, Or.inl (by simp)⟩
    obtain ⟨t', h1, h2⟩ := key
    exact ⟨t', hti, h1, h2⟩
  | none =>
    obtain ⟨i, t, hti, hwork⟩ := hwork
    have hok := hi i t hti
    have hidle : t.pc = .idle := by
      unfold ThrOk at hok
      split at hok
      · assumption
      · rw [hl] at hok; cases hok.1
      · rw [hl] at hok; cases hok.1
      · rw [hl] at hok; cases hok.1
    refine ⟨i, t, ?_⟩
    have key : ∃ t', (σ.stepThr c i).thr[i]? = some t' ∧ (t'.pc ≠ t.pc ∨ t'.todo.length < t.todo.length) := by
      unfold Sys.stepThr
      simp only [hti, hidle]
      cases htd : t.todo with
      | nil => exact absurd htd hwork
      | cons n rest =>
        simp only []
        split
        · exact ⟨_, getElem?_set_self_of_some _ _ _ _ hti, Or.inr (by simp)⟩
        · simp only [hl]
          exact ⟨_, getElem?_set_self_of_some _ _ _ _ hti, Or.inl (by simp)⟩
    obtain ⟨t', h1, h2⟩ := key
    exact ⟨t', hti, h1, h2⟩

end MJ.MemoConc
