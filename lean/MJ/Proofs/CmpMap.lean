import MJ.Proofs.CmpNumFloat
import MJ.Proofs.CmpEq
/-!
# Maps built by insertion into a `BTreeMap` hold their keys in strictly increasing order
-/
namespace MJ.CmpEq
open MJ MJ.Val MJ.Cmp MJ.CmpKey MJ.CmpNum Std

/-- keys strictly increasing -/
def KeysSorted (ps : List (V × V)) : Prop := (ps.map (·.1)).Pairwise (fun a b => cmpV a b = .lt)

theorem insertB_keys (k v : V) : ∀ (ps : List (V × V)) (p : V × V), p ∈ insertB k v ps → p = (k, v) ∨ p ∈ ps
  | [], p, h => by simp [insertB] at h; exact Or.inl h
  | (k', v') :: ps, p, h => by
    unfold insertB at h
    split at h
    · rcases List.mem_cons.mp h with rfl | h
      · exact Or.inl rfl
      · exact Or.inr h
    · rcases List.mem_cons.mp h with rfl | h
      · exact Or.inl rfl
      · exact Or.inr (List.mem_cons_of_mem _ h)
    · rcases List.mem_cons.mp h with rfl | h
      · exact Or.inr List.mem_cons_self
      · rcases insertB_keys k v ps p h with h | h
        · exact Or.inl h
        · exact Or.inr (List.mem_cons_of_mem _ h)

/-- inserting into a sorted entry list keeps it sorted (keys within range) -/
theorem insertB_sorted (k v : V) (hk : AllNum N.WF k) : ∀ (ps : List (V × V)),
    (∀ p ∈ ps, AllNum N.WF p.1) → KeysSorted ps → KeysSorted (insertB k v ps)
  | [], _, _ => by simp [insertB, KeysSorted]
  | (k', v') :: ps, hr, hs => by
    have hk' : AllNum N.WF k' := hr (k', v') List.mem_cons_self
    have hr' : ∀ p ∈ ps, AllNum N.WF p.1 := fun p hp => hr p (List.mem_cons_of_mem _ hp)
    unfold KeysSorted at hs ⊢
    simp only [List.map_cons, List.pairwise_cons] at hs
    obtain ⟨h1, h2⟩ := hs
    have lt_trans : ∀ a b c : V, AllNum N.WF a → AllNum N.WF b → AllNum N.WF c →
        cmpV a b = .lt → cmpV b c = .lt → cmpV a c = .lt := by
      intro a b c ha hb hc hab hbc
      rw [cmpV_eq_cmpK numSpec_wf _ _ ha hb] at hab
      rw [cmpV_eq_cmpK numSpec_wf _ _ hb hc] at hbc
      rw [cmpV_eq_cmpK numSpec_wf _ _ ha hc]
      exact TransCmp.lt_trans hab hbc
    unfold insertB
    split
    · rename_i hlt
      simp only [List.map_cons, List.pairwise_cons]
      refine ⟨?_, h1, h2⟩
      intro a ha
      rcases List.mem_cons.mp ha with rfl | ha
      · exact hlt
      · obtain ⟨p, hp, rfl⟩ := List.mem_map.mp ha
        exact lt_trans k k' p.1 hk hk' (hr' p hp) hlt (h1 p.1 ha)
    · rename_i heq
      simp only [List.map_cons, List.pairwise_cons]
      refine ⟨?_, h2⟩
      intro a ha
      obtain ⟨p, hp, rfl⟩ := List.mem_map.mp ha
      have := h1 p.1 ha
      rw [cmpV_eq_cmpK numSpec_wf _ _ hk hk'] at heq
      rw [cmpV_eq_cmpK numSpec_wf _ _ hk' (hr' p hp)] at this
      rw [cmpV_eq_cmpK numSpec_wf _ _ hk (hr' p hp)]
      rw [TransCmp.congr_left heq]; exact this
    · rename_i hgt
      have ih := insertB_sorted k v hk ps hr' h2
      unfold KeysSorted at ih
      simp only [List.map_cons, List.pairwise_cons]
      refine ⟨?_, ih⟩
      intro a ha
      obtain ⟨p, hp, rfl⟩ := List.mem_map.mp ha
      rcases insertB_keys k v ps p hp with rfl | hp'
      · rw [cmpV_eq_cmpK numSpec_wf _ _ hk hk'] at hgt
        rw [cmpV_eq_cmpK numSpec_wf _ _ hk' hk]
        exact OrientedCmp.lt_of_gt hgt
      · exact h1 p.1 (List.mem_map.mpr ⟨p, hp', rfl⟩)

theorem foldl_insertB_sorted : ∀ (ps acc : List (V × V)),
    (∀ p ∈ ps, AllNum N.WF p.1) → (∀ p ∈ acc, AllNum N.WF p.1) → KeysSorted acc →
    (∀ p ∈ ps.foldl (fun acc p => insertB p.1 p.2 acc) acc, AllNum N.WF p.1) ∧
    KeysSorted (ps.foldl (fun acc p => insertB p.1 p.2 acc) acc)
  | [], acc, _, ha, hs => ⟨ha, hs⟩
  | p :: ps, acc, hp, ha, hs => by
    simp only [List.foldl_cons]
    apply foldl_insertB_sorted ps
    · exact fun q hq => hp q (List.mem_cons_of_mem _ hq)
    · intro q hq
      rcases insertB_keys p.1 p.2 acc q hq with rfl | hq
      · exact hp p List.mem_cons_self
      · exact ha q hq
    · exact insertB_sorted p.1 p.2 (hp p List.mem_cons_self) acc ha hs

/-- a map built from pairs (keys within range) holds its keys in strictly increasing order -/
theorem mkMap_btree_sorted (ps : List (V × V)) (h : ∀ p ∈ ps, AllNum N.WF p.1) :
    ∃ qs, mkMap .btree ps = .map qs ∧ KeysSorted qs :=
  ⟨_, rfl, (foldl_insertB_sorted ps [] h (by simp) (by simp [KeysSorted])).2⟩

end MJ.CmpEq
