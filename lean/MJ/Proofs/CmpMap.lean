import MJ.Proofs.CmpNumFloat
import MJ.Proofs.CmpEq
/-!
# Maps built by insertion into a `BTreeMap` hold their keys in strictly increasing order
-/
namespace MJ.CmpEq
open MJ MJ.Val MJ.Cmp MJ.CmpKey MJ.CmpNum Std

/-- keys strictly increasing -/
def KeysSorted (ps : List (V × V)) : Prop := (ps.map (·.1)).Pairwise (fun a b => cmpV a b = .lt)

theorem insertB_mem (k v : V) : ∀ (ps : List (V × V)) (p : V × V), p ∈ insertB k v ps →
    p.1 = k ∨ ∃ q ∈ ps, q.1 = p.1
  | [], p, h => by simp [insertB] at h; left; rw [h]
  | (k', v') :: ps, p, h => by
    unfold insertB at h
    split at h
    · rcases List.mem_cons.mp h with rfl | h
      · left; rfl
      · right; exact ⟨p, h, rfl⟩
    · rcases List.mem_cons.mp h with rfl | h
      · right; exact ⟨(k', v'), List.mem_cons_self, rfl⟩
      · right; exact ⟨p, List.mem_cons_of_mem _ h, rfl⟩
    · rcases List.mem_cons.mp h with rfl | h
      · right; exact ⟨(k', v'), List.mem_cons_self, rfl⟩
      · rcases insertB_mem k v ps p h with h | ⟨q, hq, e⟩
        · left; exact h
        · right; exact ⟨q, List.mem_cons_of_mem _ hq, e⟩

/-- inserting into a sorted entry list keeps it sorted (keys within range): an `Equal` key is never
    entered twice, the first spelling of the key stays -/
theorem insertB_sorted (k v : V) (hk : AllNum N.WF k) : ∀ (ps : List (V × V)),
    (∀ p ∈ ps, AllNum N.WF p.1) → KeysSorted ps → KeysSorted (insertB k v ps)
  | [], _, _ => by simp [insertB, KeysSorted]
  | (k', v') :: ps, hr, hs => by
    have hk' : AllNum N.WF k' := hr (k', v') List.mem_cons_self
    have hr' : ∀ p ∈ ps, AllNum N.WF p.1 := fun p hp => hr p (List.mem_cons_of_mem _ hp)
    unfold KeysSorted at hs ⊢
    simp only [List.map_cons, List.pairwise_cons] at hs
    obtain ⟨h1, h2⟩ := hs
    unfold insertB
    split
    · rename_i hlt
      simp only [List.map_cons, List.pairwise_cons]
      refine ⟨?_, h1, h2⟩
      intro a ha
      rcases List.mem_cons.mp ha with rfl | ha
      · exact hlt
      · obtain ⟨p, hp, rfl⟩ := List.mem_map.mp ha
        have hpa := h1 p.1 ha
        rw [cmpV_eq_cmpK numSpec_wf _ _ hk hk'] at hlt
        rw [cmpV_eq_cmpK numSpec_wf _ _ hk' (hr' p hp)] at hpa
        rw [cmpV_eq_cmpK numSpec_wf _ _ hk (hr' p hp)]
        exact TransCmp.lt_trans hlt hpa
    · simp only [List.map_cons, List.pairwise_cons]
      exact ⟨h1, h2⟩
    · rename_i hgt
      have ih := insertB_sorted k v hk ps hr' h2
      unfold KeysSorted at ih
      simp only [List.map_cons, List.pairwise_cons]
      refine ⟨?_, ih⟩
      intro a ha
      obtain ⟨p, hp, rfl⟩ := List.mem_map.mp ha
      rcases insertB_mem k v ps p hp with e | ⟨q, hq, e⟩
      · rw [e, cmpV_eq_cmpK numSpec_wf _ _ hk' hk]
        rw [cmpV_eq_cmpK numSpec_wf _ _ hk hk'] at hgt
        exact OrientedCmp.lt_of_gt hgt
      · rw [← e]; exact h1 q.1 (List.mem_map.mpr ⟨q, hq, rfl⟩)

theorem foldl_insertB_sorted : ∀ (ps acc : List (V × V)),
    (∀ p ∈ ps, AllNum N.WF p.1) → (∀ p ∈ acc, AllNum N.WF p.1) → KeysSorted acc →
    (∀ p ∈ ps.foldl (fun acc p => insertB p.1 p.2 acc) acc, AllNum N.WF p.1) ∧
    KeysSorted (ps.foldl (fun acc p => insertB p.1 p.2 acc) acc)
  | [], acc, _, ha, hs => ⟨ha, hs⟩
  | p :: ps, acc, hp, ha, hs => by
    simp only [List.foldl_cons]
    apply foldl_insertB_sorted ps
    · exact fun q hq => hp q (List.mem_cons_of_mem _ hq)
    · intro q hq
      rcases insertB_mem p.1 p.2 acc q hq with e | ⟨q', hq', e⟩
      · rw [e]; exact hp p List.mem_cons_self
      · rw [← e]; exact ha q' hq'
    · exact insertB_sorted p.1 p.2 (hp p List.mem_cons_self) acc ha hs

/-- a map built from pairs (keys within range) holds its keys in strictly increasing order -/
theorem mkMap_btree_sorted (ps : List (V × V)) (h : ∀ p ∈ ps, AllNum N.WF p.1) :
    ∃ qs, mkMap .btree ps = .map qs ∧ KeysSorted qs :=
  ⟨_, rfl, (foldl_insertB_sorted ps [] h (by simp) (by simp [KeysSorted])).2⟩

end MJ.CmpEq
