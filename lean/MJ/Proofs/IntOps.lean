import MJ.Model.IntOps
/-! Proofs about `MJ/Model/IntOps.lean`: no integer operation of the VM panics, whatever integers a
    `Value` holds, and a returned value is the exact mathematical result. -/
namespace MJ.IntOps
open MJ Chk

theorem checkedBin_no_panic (f : Int → Int → Int) (a b : Int) : checkedBin f a b ≠ .panic := by
  unfold checkedBin
  cases coerce a b with
  | none => simp [pure]
  | some p =>
    obtain ⟨a', b'⟩ := p
    simp only
    cases checked (f a' b') <;> simp [pure]

theorem remK_no_panic (a b : Int) : remK a b ≠ .panic := by
  unfold remK
  cases coerce a b with
  | none => simp [pure]
  | some p =>
    obtain ⟨a', b'⟩ := p
    simp only
    split <;> simp [pure]

theorem intDivK_no_panic (a b : Int) : intDivK a b ≠ .panic := by
  unfold intDivK
  cases coerce a b with
  | none => simp [pure]
  | some p =>
    obtain ⟨a', b'⟩ := p
    simp only
    split
    · split <;> simp [pure]
    · simp [pure]

theorem fits128_iff (x : Int) : fits128 x = true ↔ (i128Min ≤ x ∧ x ≤ i128Max) := by
  unfold fits128
  simp only [Bool.and_eq_true, decide_eq_true_eq]

theorem fits64_iff (x : Int) : fits64 x = true ↔ (i64Min ≤ x ∧ x ≤ i64Max) := by
  unfold fits64
  simp only [Bool.and_eq_true, decide_eq_true_eq]

theorem fits128_small (x : Int) (h1 : -1 ≤ x) (h2 : x ≤ 1) : fits128 x = true := by
  rw [fits128_iff]; unfold i128Min i128Max; constructor <;> omega

theorem powK_no_panic (a b : Int) : powK a b ≠ .panic := by
  unfold powK
  cases coerce a b with
  | none => simp [pure]
  | some p =>
    obtain ⟨a', b'⟩ := p
    simp only
    split
    · simp [pure]
    · split
      · rename_i h
        obtain ⟨_, h1, h2⟩ := h
        have hm : fits128 (b' % 2) = true := by
          apply fits128_small <;> omega
        have hsq : fits128 (a' * a') = true := by
          apply fits128_small
          · have : a' = -1 ∨ a' = 0 ∨ a' = 1 := by omega
            rcases this with h | h | h <;> simp [h]
          · have : a' = -1 ∨ a' = 0 ∨ a' = 1 := by omega
            rcases this with h | h | h <;> simp [h]
        have h20 : ¬ ((2 : Int) = 0) := by decide
        simp only [i128, hm, hsq, if_true, if_false, h20, Bind.bind, Chk.bind, pure]
        split <;> simp
      · simp [pure]

theorem binK_no_panic (op : Op) (a b : Int) : binK op a b ≠ .panic := by
  cases op <;> simp only [binK]
  · exact checkedBin_no_panic _ a b
  · exact checkedBin_no_panic _ a b
  · exact checkedBin_no_panic _ a b
  · exact remK_no_panic a b
  · exact intDivK_no_panic a b
  · exact powK_no_panic a b

theorem negK_no_panic (a : Int) : negK a ≠ .panic := by
  unfold negK
  split
  · simp [pure]
  · split
    · split <;> simp [pure]
    · simp [pure]

theorem absK_no_panic (a : Int) : absK a ≠ .panic := by
  unfold absK
  split
  · rename_i h
    split
    · simp [pure]
    · -- `(x as i128).abs()` of an i64 fits
      have hf : fits128 (Int.ofNat a.natAbs) = true := by
        rw [fits64_iff] at h
        rw [fits128_iff]
        unfold i64Min i64Max at h
        unfold i128Min i128Max
        simp only [Int.ofNat_eq_natCast]
        constructor <;> omega
      simp only [i128, hf, if_true, Bind.bind, Chk.bind, pure]
      simp
  · split
    · simp [pure]
    · split <;> simp [pure]

/-! ### exactness: a returned value is the mathematical result and fits an `i128` -/

theorem checkedBin_exact (f : Int → Int → Int) (a b v : Int) (h : checkedBin f a b = .ok (.val v)) :
    v = f a b ∧ fits128 v = true := by
  unfold checkedBin at h
  unfold coerce at h
  split at h
  · simp [pure] at h
  · rename_i a' b' hc
    split at hc
    · simp at hc
      obtain ⟨rfl, rfl⟩ := hc
      unfold checked at h
      split at h
      · rename_i v' hv
        split at hv
        · simp at hv; simp [pure] at h; subst hv; subst h; simp_all
        · simp at hv
      · simp [pure] at h
    · simp at hc

theorem intDivK_exact (a b v : Int) (h : intDivK a b = .ok (.val v)) : b ≠ 0 ∧ v = a / b ∧ fits128 v = true := by
  unfold intDivK coerce at h
  split at h
  · simp [pure] at h
  · rename_i a' b' hc
    split at hc
    · simp at hc
      obtain ⟨rfl, rfl⟩ := hc
      split at h
      · rename_i hb
        unfold checkedDivEuclid checked at h
        simp [hb] at h
        split at h
        · rename_i v' hv
          split at hv
          · simp at hv; simp [pure] at h; subst hv; subst h; simp_all
          · simp at hv
        · simp [pure] at h
      · simp [pure] at h
    · simp at hc

theorem remK_exact (a b v : Int) (h : remK a b = .ok (.val v)) : b ≠ 0 ∧ v = a % b := by
  unfold remK coerce at h
  split at h
  · simp [pure] at h
  · rename_i a' b' hc
    split at hc
    · simp at hc
      obtain ⟨rfl, rfl⟩ := hc
      simp only at h
      split at h
      · rename_i v' hv
        simp [pure] at h
        subst h
        split at hv
        · rename_i hb
          simp at hv
          subst hv
          subst hb
          constructor
          · omega
          · simp [Int.emod_neg]
        · unfold checkedRemEuclid at hv
          split at hv
          · simp at hv
          · split at hv
            · simp at hv
            · simp at hv
              exact ⟨by assumption, hv.symm⟩
      · simp [pure] at h
    · simp at hc

theorem callArgCountK_no_panic (extra nPos : Nat) (kw : Bool) (he : extra ≤ 1) (hn : nPos ≤ Gen.parserMaxArgs)
    (hlim : Gen.parserMaxArgs + 2 < 65536) : callArgCountK extra nPos kw ≠ .panic := by
  unfold callArgCountK
  have : extra + nPos + (if kw = true then 1 else 0) < 65536 := by
    cases kw <;> simp <;> omega
  simp only [Nat.mod_eq_of_lt this, if_true]
  simp

theorem numberAll_ok (l : List Nat) (h : ∀ i ∈ l, i + 1 < 18446744073709551616) :
    ∃ xs, numberAll l = .ok xs := by
  induction l with
  | nil => exact ⟨[], rfl⟩
  | cons i is ih =>
    have hi := h i (by simp)
    obtain ⟨xs, hxs⟩ := ih (fun j hj => h j (by simp [hj]))
    refine ⟨(i + 1) :: xs, ?_⟩
    simp [numberAll, usizeAdd, hi, hxs]

theorem mem_window_lt (n a b i : Nat) (h : i ∈ ((List.range n).drop a).take b) : i < n := by
  have h1 := List.mem_of_mem_take h
  have h2 := List.mem_of_mem_drop h1
  exact List.mem_range.1 h2

/-- the window arithmetic of `render_debug_info` never overflows: for every line number a `usize` can
    hold and every source of fewer than 2^63 lines -/
theorem debugWindowK_no_panic (line : Option Nat) (n : Nat) (hl : ∀ l, line = some l → l < 18446744073709551616)
    (hn : n < 9223372036854775808) : debugWindowK line n ≠ .panic := by
  unfold debugWindowK
  have hidx : (line.getD 1) - 1 + 1 < 18446744073709551616 := by
    cases line with
    | none => simp
    | some l => have := hl l rfl; simp; omega
  obtain ⟨pre, hpre⟩ := numberAll_ok (((List.range n).drop ((line.getD 1) - 1 - 3)).take (min 3 ((line.getD 1) - 1)))
    (fun i hi => by have := mem_window_lt _ _ _ _ hi; omega)
  obtain ⟨cur, hcur⟩ := numberAll_ok (if (line.getD 1) - 1 < n then [(line.getD 1) - 1] else [])
    (fun i hi => by
      split at hi
      · simp at hi; omega
      · simp at hi)
  obtain ⟨post, hpost⟩ := numberAll_ok (((List.range n).drop ((line.getD 1) - 1 + 1)).take 3)
    (fun i hi => by have := mem_window_lt _ _ _ _ hi; omega)
  simp only [hpre, hcur, usizeAdd, hidx, if_true, hpost]
  simp

end MJ.IntOps
