import MJ.Proofs.SafeFrag
/-! C02, stage "programs": one induction over the interpreter for both modes of operation.  The guarded
interpreter (`strict = true`) refuses the steps that are not allowed; the unguarded one is run on
programs of the syntactic fragment (`OkS`, `ProgOk`), where those steps do not occur.  Either way
every step taken is one of `StepRel`, hence the flagged machine invariant is preserved. -/
namespace MJ.Safe

/-! ### primitives -/

theorem fmtPreF_inv : InvPreserving fmtPreF := by
  intro args r hargs hr
  unfold fmtPreF at hr
  split at hr
  · cases hr; exact inv_undef
  · cases hr; exact hargs _ (by simp)
  · cases hr

theorem moduleObjF_inv : InvPreserving moduleObjF := by
  intro args r _ hr
  unfold moduleObjF at hr
  split at hr
  · cases hr; exact inv_obj _
  · cases hr

theorem writable_rel {strict : Bool} {env : Env} {fl : List Bool} (hEnv : EnvInv strict env fl) (hw : env.writable = true) :
    env.mode = .html ∨ (env.mode = .none ∧ ∃ r, fl = false :: r) := by
  unfold Env.writable at hw
  simp only [Bool.or_eq_true, Bool.and_eq_true, beq_iff_eq] at hw
  rcases hw with h | ⟨h, ho⟩
  · exact Or.inl h
  · exact Or.inr ⟨h, hEnv.sink ho⟩

theorem allows_writable {env : Env} (h : allows env.mode env.opaq) : env.writable = true := by
  unfold Env.writable
  rcases h with h | ⟨h, ho⟩
  · simp [h]
  · simp [h, ho]

theorem HT.emitG {strict : Bool} {env : Env} {fl : List Bool} (hEnv : EnvInv strict env fl)
    (hw : strict = false → allows env.mode env.opaq) (r : Nat) : HT fl fl (Safe.emitG strict env r) := by
  unfold Safe.emitG
  split
  · exact HT.fail
  · rename_i hg
    have hwr : env.writable = true := by
      cases strict with
      | false => exact allows_writable (hw rfl)
      | true => simpa using hg
    have hrel := writable_rel hEnv hwr
    split
    · exact HT.stepM ⟨rfl, hrel⟩
    · exact HT.bind (HT.pushM ⟨rfl, fmtPreF_inv⟩) fun _ => HT.stepM ⟨rfl, hrel⟩

theorem HT.applyG {strict : Bool} {env : Env} {g : Fn} {ok : Bool} {fl : List Bool} (rs : List Nat)
    (hg : ok = true → InvPreserving g) (hok : strict = false → ok = true) : HT fl fl (Safe.applyG strict env g ok rs) := by
  unfold Safe.applyG
  split
  · exact HT.fail
  · rename_i hc
    have : ok = true := by
      cases strict with
      | false => exact hok rfl
      | true =>
        cases ok with
        | true => rfl
        | false => simp at hc
    exact HT.pushM ⟨rfl, hg this⟩

theorem HT.applyNamed {strict : Bool} {env : Env} {fl : List Bool} (hEnv : EnvInv strict env fl) {name : String}
    {ps : List Nat} (hf : strict = false → FilterOk name ps) (rs : List Nat) :
    HT fl fl (Safe.applyNamed strict env name ps rs) := by
  unfold Safe.applyNamed
  split
  · exact HT.fail
  · rename_i g ok hl
    refine HT.applyG rs ?_ ?_
    · intro hok; subst hok
      exact named_models_preserve_inv_mode env.mode hEnv.mode name ps g hl
    · intro hs
      exact hf hs env.mode g ok hl

theorem HT.bindParams {fl : List Bool} : ∀ (ps : List String) (rs : List Nat), HT fl fl (bindParams ps rs) := by
  intro ps
  induction ps with
  | nil =>
    intro rs
    cases rs with
    | nil => simp only [Safe.bindParams]; exact HT.pure _
    | cons r rs => simp only [Safe.bindParams]; exact HT.fail
  | cons p ps ih =>
    intro rs
    cases rs with
    | nil =>
      simp only [Safe.bindParams]
      exact HT.bind (HT.pushM (by simp only [StepRel])) fun r => HT.bind (ih []) fun rest => HT.pure _
    | cons r rs =>
      simp only [Safe.bindParams]
      exact HT.bind (ih rs) fun rest => HT.pure _

theorem HT.bindImported {fl : List Bool} (p : Prog) (tn : String) (ex : List (String × Nat)) :
    ∀ ns : List (String × String), HT fl fl (bindImported p tn ex ns) := by
  intro ns
  induction ns with
  | nil => simp only [Safe.bindImported]; exact HT.pure _
  | cons na rest ih =>
    obtain ⟨n, a⟩ := na
    simp only [Safe.bindImported]
    refine HT.bind ih fun more => ?_
    split
    · exact HT.pure _
    · split
      · exact HT.pure _
      · exact HT.bind (HT.pushM (by simp only [StepRel])) fun r => HT.pure _

mutual
theorem CV.toV_inv : ∀ cv : CV, cv.toV.Inv
  | .str s => by simp [CV.toV, V.Inv]
  | .int n => by simp [CV.toV, V.Inv]
  | .bool b => by simp [CV.toV, V.Inv]
  | .none => by simp [CV.toV, V.Inv]
  | .list xs => by simp only [CV.toV, V.Inv]; exact CV.toVL_inv xs
  | .map kvs => by simp only [CV.toV, V.Inv]; exact CV.toVM_inv kvs
  | .bytes bs => by simp [CV.toV, V.Inv]
  | .float cs => by simp [CV.toV, V.Inv]
  | .obj t => by simp [CV.toV, V.Inv]
theorem CV.toVL_inv : ∀ xs : List CV, V.InvL (CV.toVL xs)
  | [] => by simp [CV.toVL, V.InvL]
  | x :: xs => by simp only [CV.toVL, V.InvL]; exact ⟨CV.toV_inv x, CV.toVL_inv xs⟩
theorem CV.toVM_inv : ∀ kvs : List (String × CV), V.InvM (CV.toVM kvs)
  | [] => by simp [CV.toVM, V.InvM]
  | (k, v) :: kvs => by simp only [CV.toVM, V.InvM]; exact ⟨CV.toV_inv v, CV.toVM_inv kvs⟩
end

theorem HT.pushCtx {fl : List Bool} : ∀ ctx : List (String × CV), HT fl fl (pushCtx ctx) := by
  intro ctx
  induction ctx with
  | nil => simp only [Safe.pushCtx]; exact HT.pure _
  | cons p rest ih =>
    obtain ⟨n, cv⟩ := p
    simp only [Safe.pushCtx]
    exact HT.bind (HT.pushM ⟨rfl, CV.toV_inv cv⟩) fun r => HT.bind ih fun more => HT.pure _

/-! ### environments -/

theorem none_caller_poly {p : Prog} : ∀ c, (Option.none : Option CallerCl) = some c → Poly p c.body := by
  intro c h; cases h
theorem none_rec_poly {p : Prog} : ∀ v b, (Option.none : Option (String × List Stmt)) = some (v, b) → Poly p b := by
  intro v b h; cases h
theorem nil_supers_ok {p : Prog} : ∀ b ∈ ([] : List (List Stmt)), OkSs p .html false b := by
  intro b h; cases h
theorem nil_chains_ok {p : Prog} : ∀ n bs, ([] : List (String × List (List Stmt))).lookup n = some bs →
    ∀ b ∈ bs, OkSs p .html false b := by
  intro n bs h; simp [List.lookup] at h

/-- only `mode`, `initMode`, `opaq`, `prog`, `caller`, `recLoop`, `supers`, `chains` matter -/
theorem EnvInv.congr {strict : Bool} {env env' : Env} {fl : List Bool} (h : EnvInv strict env fl)
    (h1 : env'.mode = env.mode) (h2 : env'.initMode = env.initMode) (h3 : env'.opaq = env.opaq) (h4 : env'.prog = env.prog)
    (h5 : env'.caller = env.caller) (h6 : env'.recLoop = env.recLoop) (h7 : env'.supers = env.supers)
    (h8 : env'.chains = env.chains) : EnvInv strict env' fl := by
  refine ⟨by rw [h1]; exact h.mode, by rw [h2]; exact h.init, by rw [h3]; exact h.sink, fun hs => ?_⟩
  have f := h.frag hs
  exact ⟨by rw [h4]; exact f.prog, by rw [h4, h5]; exact f.caller, by rw [h4, h6]; exact f.recLoop,
    by rw [h4, h7]; exact f.supers, by rw [h4, h8]; exact f.chains⟩

/-- flag of a capture begun in mode `m` -/
abbrev capFlag (m : Mode) : Bool := m == .html

theorem capFlag_end {m : Mode} (hm : m ≠ .json) : m ≠ .none → capFlag m = true := by
  intro h; cases m <;> simp_all [capFlag]

theorem capFlag_sink {m : Mode} {fl : List Bool} : (m != .html) = true → ∃ r, capFlag m :: fl = false :: r := by
  intro h
  refine ⟨fl, ?_⟩
  cases m <;> simp_all [capFlag]

/-- inside a capture begun here (set-block, filter-block, `loop(…)`) -/
theorem EnvInv.inCapture {strict : Bool} {env : Env} {fl : List Bool} (h : EnvInv strict env fl) :
    EnvInv strict env.inCapture (capFlag env.mode :: fl) :=
  ⟨h.mode, h.init, capFlag_sink, fun hs => let f := h.frag hs; ⟨f.prog, f.caller, f.recLoop, f.supers, f.chains⟩⟩

theorem EnvInv.forSuper {strict : Bool} {env : Env} {fl : List Bool} (h : EnvInv strict env fl) {rest : List (List Stmt)}
    (hr : strict = false → ∀ b ∈ rest, OkSs env.prog .html false b) :
    EnvInv strict (env.forSuper rest) (capFlag env.mode :: fl) :=
  ⟨h.mode, h.mode, capFlag_sink, fun hs => let f := h.frag hs;
    ⟨f.prog, f.caller, none_rec_poly, hr hs, f.chains⟩⟩

theorem EnvInv.forMacro {strict : Bool} {env : Env} {fl : List Bool} (h : EnvInv strict env fl) (home : Tmpl)
    (params : List (String × Nat)) (caller : Option CallerCl)
    (hc : strict = false → ∀ c, caller = some c → Poly env.prog c.body) :
    EnvInv strict (env.forMacro home params caller) (capFlag env.mode :: fl) :=
  ⟨h.mode, h.mode, capFlag_sink, fun hs => let f := h.frag hs;
    ⟨f.prog, hc hs, none_rec_poly, nil_supers_ok, f.chains⟩⟩

theorem EnvInv.forCaller {strict : Bool} {env : Env} {fl : List Bool} (h : EnvInv strict env fl) (c : CallerCl) :
    EnvInv strict (env.forCaller c) (capFlag env.mode :: fl) :=
  ⟨h.mode, h.mode, capFlag_sink, fun hs => let f := h.frag hs;
    ⟨f.prog, none_caller_poly, none_rec_poly, nil_supers_ok, f.chains⟩⟩

theorem EnvInv.withRec {strict : Bool} {env : Env} {fl : List Bool} (h : EnvInv strict env fl) (r : Bool) (v : String)
    {body : List Stmt} (hb : strict = false → r = true → Poly env.prog body) :
    EnvInv strict { env with recLoop := if r then some (v, body) else Option.none } fl := by
  refine ⟨h.mode, h.init, h.sink, fun hs => ?_⟩
  have f := h.frag hs
  refine ⟨f.prog, f.caller, ?_, f.supers, f.chains⟩
  intro v' body' heq
  cases r
  · simp at heq
  · simp only [if_true, Option.some.injEq, Prod.mk.injEq] at heq
    obtain ⟨_, rfl⟩ := heq; exact hb hs rfl

theorem EnvInv.forBlock {strict : Bool} {env : Env} {fl : List Bool} (h : EnvInv strict env fl) {rest : List (List Stmt)}
    (hr : strict = false → ∀ b ∈ rest, OkSs env.prog .html false b) :
    EnvInv strict { env with supers := rest, initMode := env.mode, loopIdx := Option.none, recLoop := Option.none } fl :=
  ⟨h.mode, h.mode, h.sink, fun hs => let f := h.frag hs;
    ⟨f.prog, f.caller, none_rec_poly, hr hs, f.chains⟩⟩

theorem EnvInv.withMode {strict : Bool} {env : Env} {fl : List Bool} (h : EnvInv strict env fl) {m : Mode} (hm : m ≠ .json) :
    EnvInv strict { env with mode := m } fl :=
  ⟨hm, h.init, h.sink, fun hs => let f := h.frag hs; ⟨f.prog, f.caller, f.recLoop, f.supers, f.chains⟩⟩

/-- the environment an included template is loaded into -/
theorem EnvInv.forInclude {strict : Bool} {env : Env} {fl : List Bool} (h : EnvInv strict env fl) :
    EnvInv strict { env with loopIdx := Option.none, recLoop := Option.none, caller := Option.none, supers := [], chains := [], skipBlocks := false } fl :=
  ⟨h.mode, h.init, h.sink, fun hs => let f := h.frag hs;
    ⟨f.prog, none_caller_poly, none_rec_poly, nil_supers_ok, nil_chains_ok⟩⟩

/-- the environment an imported template is loaded into: inside the (unflagged) module capture -/
theorem EnvInv.forImport {strict : Bool} {env : Env} {fl : List Bool} (h : EnvInv strict env fl) :
    EnvInv strict { env with opaq := true, loopIdx := Option.none, recLoop := Option.none, caller := Option.none, supers := [], chains := [], skipBlocks := false }
      (false :: fl) :=
  ⟨h.mode, h.init, fun _ => ⟨fl, rfl⟩, fun hs => let f := h.frag hs;
    ⟨f.prog, none_caller_poly, none_rec_poly, nil_supers_ok, nil_chains_ok⟩⟩

/-- the top level of a template in mode `m` -/
theorem EnvInv.forTop {strict : Bool} {env : Env} {fl : List Bool} (h : EnvInv strict env fl) {m : Mode} (hm : m ≠ .json)
    (ms mds : List (String × String)) :
    EnvInv strict { env with mode := m, initMode := m, macros := ms, mods := mds } fl :=
  ⟨hm, hm, h.sink, fun hs => let f := h.frag hs; ⟨f.prog, f.caller, f.recLoop, f.supers, f.chains⟩⟩

theorem blockBodies_frag {env : Env} (f : EnvFrag env) {name : String} {dflt b : List Stmt} {rest : List (List Stmt)}
    (hd : OkSs env.prog .html false dflt) (heq : (env.chains.lookup name).getD [dflt] = b :: rest) :
    OkSs env.prog .html false b ∧ ∀ x ∈ rest, OkSs env.prog .html false x := by
  cases hl : env.chains.lookup name with
  | none =>
    rw [hl] at heq
    simp only [Option.getD_none, List.cons.injEq] at heq
    obtain ⟨rfl, rfl⟩ := heq
    exact ⟨hd, by intro x hx; cases hx⟩
  | some bs =>
    rw [hl] at heq
    simp only [Option.getD_some] at heq
    have := f.chains name bs hl
    subst heq
    exact ⟨this b List.mem_cons_self, fun x hx => this x (List.mem_cons_of_mem _ hx)⟩

/-- what `runTop` needs from the fragment for a template found by name, in the mode its name selects and
    with the current target -/
theorem tmplOk_run {p : Prog} {t : Tmpl} (h : TmplOk p t) {k : Bool} (ha : allows (modeOf p t.name) k) :
    modeOf p t.name ≠ .json ∧ OkSs p (modeOf p t.name) k t.pre ∧ OkSs p (modeOf p t.name) k t.body := by
  obtain ⟨hj, hpre, hbody, _⟩ := h
  refine ⟨hj, ?_, ?_⟩
  · rcases ha with hm | ⟨hm, rfl⟩
    · rw [hm] at hpre ⊢; exact OkSs.anySink hpre k
    · rw [hm] at hpre ⊢; exact hpre
  · rcases ha with hm | ⟨hm, rfl⟩
    · rw [hm] at hbody ⊢; exact OkSs.anySink hbody k
    · rw [hm] at hbody ⊢; exact hbody

/-! ### the interpreter -/

attribute [local irreducible] HT

/-- the nine interpreter functions preserve the flagged machine invariant: always when guarded, on
    code of the fragment when unguarded -/
theorem exec_ht (strict : Bool) : ∀ fuel : Nat,
    (∀ env e fl, EnvInv strict env fl → (strict = false → OkE env.mode e) → HT fl fl (evalExpr strict fuel env e)) ∧
    (∀ env g args caller fl, EnvInv strict env fl →
        (strict = false → OkEs env.mode args ∧ ∀ c, caller = some c → Poly env.prog c.body) →
        HT fl fl (callMacro strict fuel env g args caller)) ∧
    (∀ env es fl, EnvInv strict env fl → (strict = false → OkEs env.mode es) → HT fl fl (evalArgs strict fuel env es)) ∧
    (∀ env kvs fl, EnvInv strict env fl → (strict = false → OkKs env.mode kvs) → HT fl fl (evalKVs strict fuel env kvs)) ∧
    (∀ env v body r k n fl, EnvInv strict env fl → (strict = false → OkSs env.prog env.mode env.opaq body) →
        HT fl fl (forLoop strict fuel env v body r k n)) ∧
    (∀ env ss fl, EnvInv strict env fl → (strict = false → OkSs env.prog env.mode env.opaq ss) →
        HT fl fl (execStmts strict fuel env ss)) ∧
    (∀ env s fl, EnvInv strict env fl → (strict = false → OkS env.prog env.mode env.opaq s) →
        HT fl fl (execStmt strict fuel env s)) ∧
    (∀ env t m fl, EnvInv strict env fl →
        (strict = false → m ≠ .json ∧ OkSs env.prog m env.opaq t.pre ∧ OkSs env.prog m env.opaq t.body) →
        HT fl fl (runTop strict fuel env t m)) ∧
    (∀ env ds fl, EnvInv strict env fl → HT fl fl (loadImports strict fuel env ds)) := by
  intro fuel
  induction fuel with
  | zero =>
    refine ⟨?_, ?_, ?_, ?_, ?_, ?_, ?_, ?_, ?_⟩
    · intro env e fl _ _; simp only [evalExpr]; exact HT.fail
    · intro env g args caller fl _ _; simp only [callMacro]; exact HT.fail
    · intro env es fl _ _; simp only [evalArgs]; exact HT.fail
    · intro env kvs fl _ _; simp only [evalKVs]; exact HT.fail
    · intro env v body r k n fl _ _; simp only [forLoop]; exact HT.fail
    · intro env ss fl _ _; simp only [execStmts]; exact HT.fail
    · intro env s fl _ _; simp only [execStmt]; exact HT.fail
    · intro env t m fl _ _; simp only [runTop]; exact HT.fail
    · intro env ds fl _; simp only [loadImports]; exact HT.fail
  | succ fuel ih =>
    obtain ⟨ihE, ihC, ihA, ihK, ihF, ihSS, ihS, ihT, ihI⟩ := ih
    refine ⟨?_, ?_, ?_, ?_, ?_, ?_, ?_, ?_, ?_⟩
    -- evalExpr
    · intro env e fl hEnv hE
      cases e with
      | var n =>
        simp only [evalExpr]
        split
        · exact HT.pure _
        · exact HT.pushM (by simp only [StepRel])
      | lit s => simp only [evalExpr]; exact HT.pushM (by simp only [StepRel])
      | int n => simp only [evalExpr]; exact HT.pushM (by simp only [StepRel])
      | bool b => simp only [evalExpr]; exact HT.pushM (by simp only [StepRel])
      | none => simp only [evalExpr]; exact HT.pushM (by simp only [StepRel])
      | cat a b =>
        simp only [evalExpr]
        have ha : strict = false → OkE env.mode a := fun hs => by cases hE hs with | cat h1 h2 => exact h1
        have hb : strict = false → OkE env.mode b := fun hs => by cases hE hs with | cat h1 h2 => exact h2
        exact HT.bind (ihE _ _ _ hEnv ha) fun _ => HT.bind (ihE _ _ _ hEnv hb) fun _ =>
          HT.applyG _ (fun _ => concatF_inv) (fun _ => rfl)
      | add a b =>
        simp only [evalExpr]
        have ha : strict = false → OkE env.mode a := fun hs => by cases hE hs with | add h1 h2 => exact h1
        have hb : strict = false → OkE env.mode b := fun hs => by cases hE hs with | add h1 h2 => exact h2
        exact HT.bind (ihE _ _ _ hEnv ha) fun _ => HT.bind (ihE _ _ _ hEnv hb) fun _ =>
          HT.applyG _ (fun _ => addF_inv) (fun _ => rfl)
      | mul a n =>
        simp only [evalExpr]
        have ha : strict = false → OkE env.mode a := fun hs => by cases hE hs with | mul _ h1 => exact h1
        exact HT.bind (ihE _ _ _ hEnv ha) fun _ => HT.applyG _ (fun _ => repeatF_inv _) (fun _ => rfl)
      | filt name ps args =>
        simp only [evalExpr]
        have ha : strict = false → OkEs env.mode args := fun hs => by cases hE hs with | filt _ h1 => exact h1
        have hf : strict = false → FilterOk name ps := fun hs => by cases hE hs with | filt h0 _ => exact h0
        exact HT.bind (ihA _ _ _ hEnv ha) fun _ => HT.applyNamed hEnv hf _
      | meth name ps args =>
        simp only [evalExpr]
        have ha : strict = false → OkEs env.mode args := fun hs => by cases hE hs with | meth _ h1 => exact h1
        have hf : strict = false → ∀ k ∈ ["str", "dict", "list"], FilterOk (k ++ "." ++ name) ps := fun hs => by cases hE hs with | meth h0 _ => exact h0
        refine HT.bind (ihA _ _ _ hEnv ha) fun rs => ?_
        split
        · exact HT.fail
        · refine HT.bind (HT.readM _) fun v => ?_
          split
          · exact HT.fail
          · rename_i k hk
            exact HT.applyNamed hEnv (fun hs => hf hs k (methodKind_mem hk)) _
      | index a k =>
        simp only [evalExpr]
        have ha : strict = false → OkE env.mode a := fun hs => by cases hE hs with | index _ h1 => exact h1
        exact HT.bind (ihE _ _ _ hEnv ha) fun _ => HT.applyG _ (fun _ => elemF_inv _) (fun _ => rfl)
      | slice a x y =>
        simp only [evalExpr]
        have ha : strict = false → OkE env.mode a := fun hs => by cases hE hs with | slice _ _ h1 => exact h1
        exact HT.bind (ihE _ _ _ hEnv ha) fun _ => HT.applyG _ (fun _ => sliceF_inv _ _) (fun _ => rfl)
      | attr a key =>
        simp only [evalExpr]
        have ha : strict = false → OkE env.mode a := fun hs => by cases hE hs with | attr _ h1 => exact h1
        exact HT.bind (ihE _ _ _ hEnv ha) fun _ => HT.applyG _ (fun _ => attrF_inv _) (fun _ => rfl)
      | list xs =>
        simp only [evalExpr]
        have ha : strict = false → OkEs env.mode xs := fun hs => by cases hE hs with | list h1 => exact h1
        exact HT.bind (ihA _ _ _ hEnv ha) fun _ => HT.pushM (by simp only [StepRel])
      | dict kvs =>
        simp only [evalExpr]
        have ha : strict = false → OkKs env.mode kvs := fun hs => by cases hE hs with | dict h1 => exact h1
        exact HT.bind (ihK _ _ _ hEnv ha) fun _ => HT.pushM (by simp only [StepRel])
      | call g args =>
        simp only [evalExpr]
        split
        · exact HT.fail
        · refine ihC _ _ _ _ _ hEnv fun hs => ⟨by cases hE hs with | call _ h1 => exact h1, by intro c hc; cases hc⟩
      | modCall a g args =>
        simp only [evalExpr]
        split
        · exact HT.fail
        · split
          · refine ihC _ _ _ _ _ hEnv fun hs => ⟨by cases hE hs with | modCall _ _ h1 => exact h1, by intro c hc; cases hc⟩
          · exact HT.fail
      | modVar a x =>
        simp only [evalExpr]
        split
        · exact HT.fail
        · split
          · exact HT.pure _
          · exact HT.pushM (by simp only [StepRel])
      | caller =>
        simp only [evalExpr]
        split
        · exact HT.fail
        · rename_i c hc
          have hb : strict = false → OkSs (env.forCaller c).prog (env.forCaller c).mode (env.forCaller c).opaq c.body :=
            fun hs => ((hEnv.frag hs).caller c hc).inCapture hEnv.mode
          exact HT.bind (fl1 := capFlag env.mode :: fl) (HT.stepM ⟨_, rfl⟩) fun _ =>
            HT.bind (ihSS _ _ _ (hEnv.forCaller c) hb) fun _ => HT.pushM ⟨_, rfl, capFlag_end hEnv.mode⟩
      | super =>
        simp only [evalExpr]
        split
        · exact HT.fail
        · rename_i b rest hsup
          have hmode : strict = false → env.mode = .html := fun hs => by cases hE hs with | super h => exact h
          have hrest : strict = false → ∀ x ∈ rest, OkSs env.prog .html false x := fun hs x hx =>
            (hEnv.frag hs).supers x (by rw [hsup]; exact List.mem_cons_of_mem _ hx)
          refine HT.bind (fl1 := capFlag env.mode :: fl) (HT.stepM ⟨_, rfl⟩) fun _ =>
            HT.bind (ihSS _ _ _ (hEnv.forSuper hrest) ?_) fun _ => HT.pushM ⟨_, rfl, capFlag_end hEnv.mode⟩
          intro hs
          have hb : OkSs env.prog .html false b := (hEnv.frag hs).supers b (by rw [hsup]; exact List.mem_cons_self)
          show OkSs env.prog env.mode (env.mode != .html) b
          rw [hmode hs]; exact hb
      | loopRec e =>
        simp only [evalExpr]
        split
        · exact HT.fail
        · rename_i v body hrl
          have he : strict = false → OkE env.mode e := fun hs => by cases hE hs with | loopRec h1 => exact h1
          have hb : strict = false → OkSs env.inCapture.prog env.inCapture.mode env.inCapture.opaq body :=
            fun hs => ((hEnv.frag hs).recLoop v body hrl).inCapture hEnv.mode
          exact HT.bind (ihE _ _ _ hEnv he) fun _ =>
            HT.bind (fl1 := capFlag env.mode :: fl) (HT.stepM ⟨_, rfl⟩) fun _ =>
            HT.bind (HT.applyG _ (fun _ => charsF_inv) (fun _ => rfl)) fun _ => HT.bind (HT.readM _) fun _ =>
            HT.bind (ihF _ _ _ _ _ _ _ hEnv.inCapture hb) fun _ => HT.pushM ⟨_, rfl, capFlag_end hEnv.mode⟩
      | loopIndex =>
        simp only [evalExpr]
        split
        · exact HT.pushM (by simp only [StepRel])
        · exact HT.fail
      | loopFirst =>
        simp only [evalExpr]
        split
        · exact HT.pushM (by simp only [StepRel])
        · exact HT.fail
      | not e =>
        simp only [evalExpr]
        have he : strict = false → OkE env.mode e := fun hs => by cases hE hs with | not h1 => exact h1
        exact HT.bind (ihE _ _ _ hEnv he) fun _ => HT.bind (HT.readM _) fun _ => HT.pushM (by simp only [StepRel])
      | cond c a b =>
        simp only [evalExpr]
        have hc : strict = false → OkE env.mode c := fun hs => by cases hE hs with | cond h1 _ _ => exact h1
        have ha : strict = false → OkE env.mode a := fun hs => by cases hE hs with | cond _ h1 _ => exact h1
        have hb : strict = false → OkE env.mode b := fun hs => by cases hE hs with | cond _ _ h1 => exact h1
        exact HT.bind (ihE _ _ _ hEnv hc) fun _ => HT.bind (HT.readM _) fun _ =>
          HT.ite (ihE _ _ _ hEnv ha) (ihE _ _ _ hEnv hb)
    -- callMacro
    · intro env g args caller fl hEnv hP
      simp only [callMacro]
      split
      · exact HT.fail
      · rename_i home md hfm
        have hb : strict = false → OkSs (env.forMacro home [] caller).prog env.mode (env.mode != .html) md.body := fun hs => by
          obtain ⟨hh, hm⟩ := findMacro_mem hfm
          exact (((hEnv.frag hs).prog home hh).2.2.2 md hm).inCapture hEnv.mode
        refine HT.bind (ihA _ _ _ hEnv fun hs => (hP hs).1) fun rs => HT.bind (HT.bindParams _ _) fun params =>
          HT.bind (fl1 := capFlag env.mode :: fl) (HT.stepM ⟨_, rfl⟩) fun _ =>
          HT.bind (ihSS _ _ _ (hEnv.forMacro home params caller fun hs => (hP hs).2) hb) fun _ =>
          HT.pushM ⟨_, rfl, capFlag_end hEnv.mode⟩
    -- evalArgs
    · intro env es fl hEnv hP
      cases es with
      | nil => simp only [evalArgs]; exact HT.pure _
      | cons e es =>
        simp only [evalArgs]
        have h1 : strict = false → OkE env.mode e := fun hs => by cases hP hs with | cons a b => exact a
        have h2 : strict = false → OkEs env.mode es := fun hs => by cases hP hs with | cons a b => exact b
        exact HT.bind (ihE _ _ _ hEnv h1) fun _ => HT.bind (ihA _ _ _ hEnv h2) fun _ => HT.pure _
    -- evalKVs
    · intro env kvs fl hEnv hP
      cases kvs with
      | nil => simp only [evalKVs]; exact HT.pure _
      | cons kv kvs =>
        obtain ⟨k, e⟩ := kv
        simp only [evalKVs]
        have h1 : strict = false → OkE env.mode e := fun hs => by cases hP hs with | cons a b => exact a
        have h2 : strict = false → OkKs env.mode kvs := fun hs => by cases hP hs with | cons a b => exact b
        exact HT.bind (ihE _ _ _ hEnv h1) fun _ => HT.bind (ihK _ _ _ hEnv h2) fun _ => HT.pure _
    -- forLoop
    · intro env v body r k n fl hEnv hP
      simp only [forLoop]
      refine HT.ite ?_ (HT.pure _)
      exact HT.bind (HT.applyG _ (fun _ => elemF_inv _) (fun _ => rfl)) fun rk =>
        HT.bind (ihSS _ _ _ (hEnv.congr rfl rfl rfl rfl rfl rfl rfl rfl) hP) fun _ => ihF _ _ _ _ _ _ _ hEnv hP
    -- execStmts
    · intro env ss fl hEnv hP
      cases ss with
      | nil => simp only [execStmts]; exact HT.pure _
      | cons s ss =>
        simp only [execStmts]
        have h1 : strict = false → OkS env.prog env.mode env.opaq s := fun hs => by cases hP hs with | cons a b => exact a
        have h2 : strict = false → OkSs env.prog env.mode env.opaq ss := fun hs => by cases hP hs with | cons a b => exact b
        exact HT.bind (ihS _ _ _ hEnv h1) fun vars => ihSS _ _ _ (hEnv.congr rfl rfl rfl rfl rfl rfl rfl rfl) h2
    -- execStmt
    · intro env s fl hEnv hP
      cases s with
      | text t =>
        simp only [execStmt]
        exact HT.bind (HT.stepM (by simp only [StepRel])) fun _ => HT.pure _
      | emit e =>
        simp only [execStmt]
        have he : strict = false → OkE env.mode e := fun hs => by cases hP hs with | emit _ h1 => exact h1
        have hw : strict = false → allows env.mode env.opaq := fun hs => by cases hP hs with | emit h0 _ => exact h0
        exact HT.bind (ihE _ _ _ hEnv he) fun _ => HT.bind (HT.emitG hEnv hw _) fun _ => HT.pure _
      | set n e =>
        simp only [execStmt]
        have he : strict = false → OkE env.mode e := fun hs => by cases hP hs with | set _ h1 => exact h1
        exact HT.bind (ihE _ _ _ hEnv he) fun _ => HT.pure _
      | setBlock n filt body =>
        simp only [execStmt]
        have hb : strict = false → OkSs env.inCapture.prog env.inCapture.mode env.inCapture.opaq body := fun hs => by
          cases hP hs with
          | setBlock _ h1 => exact h1
          | setBlockF _ _ h1 => exact h1
        refine HT.bind (fl1 := capFlag env.mode :: fl) (HT.stepM ⟨_, rfl⟩) fun _ =>
          HT.bind (ihSS _ _ _ hEnv.inCapture hb) fun _ =>
          HT.bind (fl1 := fl) (HT.pushM ⟨_, rfl, capFlag_end hEnv.mode⟩) fun r => ?_
        split
        · exact HT.pure _
        · rename_i name ps
          have hf : strict = false → FilterOk name ps := fun hs => by cases hP hs with | setBlockF _ h0 _ => exact h0
          exact HT.bind (HT.applyNamed hEnv hf _) fun _ => HT.pure _
      | filterBlock name ps body =>
        simp only [execStmt]
        have hb : strict = false → OkSs env.inCapture.prog env.inCapture.mode env.inCapture.opaq body := fun hs => by
          cases hP hs with | filterBlock _ _ h1 => exact h1
        have hf : strict = false → FilterOk name ps := fun hs => by cases hP hs with | filterBlock _ h0 _ => exact h0
        have hw : strict = false → allows env.mode env.opaq := fun hs => by cases hP hs with | filterBlock h0 _ _ => exact h0
        exact HT.bind (fl1 := capFlag env.mode :: fl) (HT.stepM ⟨_, rfl⟩) fun _ =>
          HT.bind (ihSS _ _ _ hEnv.inCapture hb) fun _ =>
          HT.bind (fl1 := fl) (HT.pushM ⟨_, rfl, capFlag_end hEnv.mode⟩) fun r =>
          HT.bind (HT.applyNamed hEnv hf _) fun _ => HT.bind (HT.emitG hEnv hw _) fun _ => HT.pure _
      | forIn v it recursive body els =>
        simp only [execStmt]
        have hi : strict = false → OkE env.mode it := fun hs => by
          cases hP hs with
          | forIn _ h1 _ _ => exact h1
          | forRec _ h1 _ _ _ _ => exact h1
        have hb : strict = false → OkSs env.prog env.mode env.opaq body := fun hs => by
          cases hP hs with
          | forIn _ _ h1 _ => exact h1
          | forRec _ _ h1 _ _ _ => exact h1
        have he : strict = false → OkSs env.prog env.mode env.opaq els := fun hs => by
          cases hP hs with
          | forIn _ _ _ h1 => exact h1
          | forRec _ _ _ h1 _ _ => exact h1
        have hp : strict = false → recursive = true → Poly env.prog body := fun hs hr => by
          subst hr
          cases hP hs with
          | forRec _ _ _ _ h1 h2 => exact ⟨h1, h2⟩
        refine HT.bind (ihE _ _ _ hEnv hi) fun _ => HT.bind (HT.applyG _ (fun _ => charsF_inv) (fun _ => rfl)) fun _ =>
          HT.bind (HT.readM _) fun items => HT.ite ?_ ?_
        · exact HT.bind (ihSS _ _ _ hEnv he) fun _ => HT.pure _
        · exact HT.bind (ihF _ _ _ _ _ _ _ (hEnv.withRec recursive v hp) hb) fun _ => HT.pure _
      | ifE c a b =>
        simp only [execStmt]
        have hc : strict = false → OkE env.mode c := fun hs => by cases hP hs with | ifE h1 _ _ => exact h1
        have ha : strict = false → OkSs env.prog env.mode env.opaq a := fun hs => by cases hP hs with | ifE _ h1 _ => exact h1
        have hb : strict = false → OkSs env.prog env.mode env.opaq b := fun hs => by cases hP hs with | ifE _ _ h1 => exact h1
        exact HT.bind (ihE _ _ _ hEnv hc) fun _ => HT.bind (HT.readM _) fun _ =>
          HT.ite (ihSS _ _ _ hEnv ha) (ihSS _ _ _ hEnv hb)
      | withE n e body =>
        simp only [execStmt]
        have he : strict = false → OkE env.mode e := fun hs => by cases hP hs with | withE _ h1 _ => exact h1
        have hb : strict = false → OkSs env.prog env.mode env.opaq body := fun hs => by cases hP hs with | withE _ _ h1 => exact h1
        exact HT.bind (ihE _ _ _ hEnv he) fun _ =>
          HT.bind (ihSS _ _ _ (hEnv.congr rfl rfl rfl rfl rfl rfl rfl rfl) hb) fun _ => HT.pure _
      | callBlock g args body =>
        simp only [execStmt]
        split
        · exact HT.fail
        · have hw : strict = false → allows env.mode env.opaq := fun hs => by cases hP hs with | callBlock _ h0 _ _ _ => exact h0
          refine HT.bind (ihC _ _ _ _ _ hEnv fun hs => ?_) fun _ => HT.bind (HT.emitG hEnv hw _) fun _ => HT.pure _
          cases hP hs with
          | callBlock _ _ h1 h2 h3 =>
            refine ⟨h1, ?_⟩
            intro c hc
            simp only [Option.some.injEq] at hc
            subst hc
            exact ⟨h2, h3⟩
      | incl name =>
        simp only [execStmt]
        split
        · exact HT.fail
        · rename_i t ht
          refine HT.ite HT.fail (HT.bind (ihT _ _ _ _ hEnv.forInclude fun hs => ?_) fun _ => HT.pure _)
          obtain ⟨hmem, hname⟩ := findTmpl_mem ht
          have ha : allows (modeOf env.prog name) env.opaq := by cases hP hs with | incl _ h0 => exact h0
          have := tmplOk_run ((hEnv.frag hs).prog t hmem) (k := env.opaq) (by rw [hname]; exact ha)
          rw [hname] at this
          exact this
      | block name dflt =>
        simp only [execStmt]
        refine HT.ite (HT.pure _) ?_
        split
        · exact HT.pure _
        · rename_i b rest heq
          have hmode : strict = false → env.mode = .html := fun hs => by cases hP hs with | block _ h _ => exact h
          have hbr : strict = false → OkSs env.prog .html false b ∧ ∀ x ∈ rest, OkSs env.prog .html false x := fun hs => by
            refine blockBodies_frag (hEnv.frag hs) ?_ heq
            cases hP hs with
            | block _ _ h1 => exact h1
          refine HT.bind (ihSS _ _ _ (hEnv.forBlock fun hs => (hbr hs).2) fun hs => ?_) fun _ => HT.pure _
          show OkSs env.prog env.mode env.opaq b
          rw [hmode hs]
          exact OkSs.anySink (hbr hs).1 _
      | auto a body =>
        simp only [execStmt]
        split
        · exact HT.fail
        · rename_i m hd
          split
          · exact HT.fail
          · rename_i hg
            have hmj : m ≠ .json := by
              cases strict with
              | true =>
                intro hm; subst hm; simp at hg
              | false =>
                have := hP rfl
                cases this with
                | auto ha hb =>
                  rename_i m'
                  have := derive_autoMode ha hEnv.init hd
                  subst this
                  exact autoMode_not_json ha
            refine ihSS _ _ _ (hEnv.withMode hmj) fun hs => ?_
            cases hP hs with
            | auto ha hb =>
              have := derive_autoMode ha hEnv.init hd
              subst this
              exact hb
    -- runTop
    · intro env t m fl hEnv hP
      simp only [runTop]
      split
      · exact HT.fail
      · rename_i hg
        have hmj : m ≠ .json := by
          cases strict with
          | true => intro hm; subst hm; simp at hg
          | false => exact (hP rfl).1
        have hE0 := hEnv.forTop hmj (scopeMacros env.prog t ++ env.macros) (scopeMods t.imports ++ env.mods)
        refine HT.bind (ihI _ _ _ hE0) fun l1 =>
          HT.bind (ihSS _ _ _ (hE0.congr rfl rfl rfl rfl rfl rfl rfl rfl) fun hs => (hP hs).2.1) fun vars2 =>
          HT.bind (ihSS _ _ _ (hE0.congr rfl rfl rfl rfl rfl rfl rfl rfl) fun hs => (hP hs).2.2) fun vars3 => HT.pure _
    -- loadImports
    · intro env ds fl hEnv
      cases ds with
      | nil => simp only [loadImports]; exact HT.pure _
      | cons d rest =>
        simp only [loadImports]
        split
        · exact HT.fail
        · rename_i t ht
          refine HT.ite HT.fail ?_
          have hrun : strict = false → modeOf env.prog t.name ≠ .json ∧ OkSs env.prog (modeOf env.prog t.name) true t.pre ∧
              OkSs env.prog (modeOf env.prog t.name) true t.body := fun hs => by
            obtain ⟨hmem, _⟩ := findTmpl_mem ht
            have hok := (hEnv.frag hs).prog t hmem
            refine tmplOk_run hok ?_
            have hj := hok.1
            cases hm : modeOf env.prog t.name with
            | html => exact Or.inl rfl
            | none => exact Or.inr ⟨rfl, rfl⟩
            | json => exact absurd hm hj
          have hname : t.name = d.tmpl := (findTmpl_mem ht).2
          refine HT.bind (fl1 := false :: fl) (HT.stepM ⟨_, rfl⟩) fun _ =>
            HT.bind (ihT _ _ _ _ hEnv.forImport fun hs => ?_) fun l =>
            HT.bind (fl1 := fl) (HT.pushM ⟨_, rfl, fun h => absurd rfl h⟩) fun rc => ?_
          · rw [← hname]; exact hrun hs
          · split
            · exact HT.bind (HT.pushM ⟨rfl, moduleObjF_inv⟩) fun ro => ihI _ _ _ (hEnv.congr rfl rfl rfl rfl rfl rfl rfl rfl)
            · exact HT.bind (HT.bindImported _ _ _ _) fun bound => ihI _ _ _ (hEnv.congr rfl rfl rfl rfl rfl rfl rfl rfl)

end MJ.Safe

namespace MJ.Safe

/-! ### whole programs -/

/-- a Hoare triple with a postcondition on the result -/
def HTQ {α : Type} (fl fl' : List Bool) (m : M α) (Q : α → Prop) : Prop :=
  ∀ st a st', StInvF fl st → m st = some (a, st') → StInvF fl' st' ∧ Q a

theorem HTQ.of_HT {α : Type} {fl fl' : List Bool} {m : M α} (h : HT fl fl' m) : HTQ fl fl' m fun _ => True :=
  fun st a st' hs hr => ⟨h st a st' hs hr, trivial⟩

theorem HTQ.bind {α β : Type} {fl fl1 fl2 : List Bool} {m : M α} {f : α → M β} {Q : α → Prop} {R : β → Prop}
    (hm : HTQ fl fl1 m Q) (hf : ∀ a, Q a → HTQ fl1 fl2 (f a) R) : HTQ fl fl2 (m >>= f) R := by
  intro st b st' h hr
  simp only [Bind.bind, M.bind] at hr
  split at hr
  · cases hr
  · rename_i a st1 h1
    obtain ⟨hs1, hq⟩ := hm st a st1 h h1
    exact hf a hq st1 b st' hs1 hr

theorem HTQ.pure {α : Type} {fl : List Bool} {Q : α → Prop} (a : α) (hq : Q a) : HTQ fl fl (Pure.pure a : M α) Q := by
  intro st a' st' h hr
  simp only [Pure.pure, M.pure, Option.some.injEq, Prod.mk.injEq] at hr
  obtain ⟨rfl, rfl⟩ := hr; exact ⟨h, hq⟩

theorem HTQ.fail {α : Type} {fl fl' : List Bool} {Q : α → Prop} : HTQ fl fl' (failM : M α) Q := by
  intro st a st' _ hr; simp [failM] at hr

theorem HTQ.ite {α : Type} {fl fl' : List Bool} {Q : α → Prop} {c : Prop} [Decidable c] {a b : M α}
    (ha : HTQ fl fl' a Q) (hb : ¬ c → HTQ fl fl' b Q) : HTQ fl fl' (if c then a else b) Q := by
  split
  · exact ha
  · rename_i h; exact hb h

theorem lookup_some_mem {β : Type} {n : String} {l : List (String × β)} {v : β} (h : l.lookup n = some v) :
    ∃ k, (k, v) ∈ l := by
  induction l with
  | nil => simp [List.lookup] at h
  | cons p ps ih =>
    obtain ⟨a, b⟩ := p
    simp only [List.lookup] at h
    split at h
    · cases h; exact ⟨a, List.mem_cons_self⟩
    · obtain ⟨k, hk⟩ := ih h; exact ⟨k, List.mem_cons_of_mem _ hk⟩

def ChainsOk (p : Prog) (chains : List (String × List (List Stmt))) : Prop :=
  ∀ entry ∈ chains, ∀ b ∈ entry.2, OkSs p .html false b

theorem topBlocks_ok {p : Prog} : ∀ (ss : List Stmt), OkSs p .html false ss → ∀ nb ∈ topBlocks ss, OkSs p .html false nb.2 := by
  intro ss
  induction ss with
  | nil => intro _ nb h; simp [topBlocks] at h
  | cons s ss ih =>
    intro hs nb h
    cases hs with
    | cons hs1 hss =>
      cases hs1 with
      | block name _ hb =>
        simp only [topBlocks, List.mem_cons] at h
        rcases h with rfl | h
        · exact hb
        · exact ih hss nb h
      | _ => simp only [topBlocks] at h; exact ih hss nb h

theorem addBlocks_ok {p : Prog} : ∀ (bs : List (String × List Stmt)) (chains : List (String × List (List Stmt))),
    ChainsOk p chains → (∀ nb ∈ bs, OkSs p .html false nb.2) → ChainsOk p (addBlocks chains bs) := by
  intro bs
  induction bs with
  | nil => intro chains hc _; simpa [addBlocks] using hc
  | cons nb rest ih =>
    intro chains hc hb
    obtain ⟨n, b⟩ := nb
    simp only [addBlocks]
    apply ih _ _ (fun x hx => hb x (List.mem_cons_of_mem _ hx))
    have hbok : OkSs p .html false b := hb (n, b) List.mem_cons_self
    split
    · rename_i bodies hl
      obtain ⟨k, hk⟩ := lookup_some_mem hl
      intro entry he x hx
      rcases List.mem_cons.mp he with rfl | he
      · rcases List.mem_append.mp hx with hx | hx
        · exact hc _ hk x hx
        · simp only [List.mem_singleton] at hx; subst hx; exact hbok
      · exact hc entry (List.mem_filter.mp he).1 x hx
    · intro entry he x hx
      rcases List.mem_cons.mp he with rfl | he
      · simp only [List.mem_singleton] at hx; subst hx; exact hbok
      · exact hc entry he x hx

theorem buildChains_ok {p : Prog} {ts : List Tmpl} (h : ∀ t ∈ ts, OkSs p .html false t.body) : ChainsOk p (buildChains ts) := by
  unfold buildChains
  have : ∀ (ts : List Tmpl) (acc : List (String × List (List Stmt))), ChainsOk p acc → (∀ t ∈ ts, OkSs p .html false t.body) →
      ChainsOk p (ts.foldl (fun acc t => addBlocks acc (topBlocks t.body)) acc) := by
    intro ts
    induction ts with
    | nil => intro acc ha _; simpa using ha
    | cons t ts ih =>
      intro acc ha ht
      simp only [List.foldl_cons]
      exact ih _ (addBlocks_ok _ _ ha (topBlocks_ok _ (ht t List.mem_cons_self))) (fun x hx => ht x (List.mem_cons_of_mem _ hx))
  exact this ts [] (by intro e he; cases he) h

/-- what the program-level entry points assume: the guarded interpreter, or a program of the fragment -/
def Admitted (strict : Bool) (p : Prog) : Prop := strict = true ∨ ProgOk p

theorem baseEnv_inv {strict : Bool} {p : Prog} (h : Admitted strict p) (hm : modeOf p p.main = .html) (globals : List (String × Nat)) :
    EnvInv strict (baseEnv p globals (inheritChain p (p.templates.length + 1) p.main)) [] := by
  refine ⟨by simp [baseEnv, hm], by simp [baseEnv, hm], by simp [baseEnv], fun hs => ?_⟩
  have hp : ProgOk p := by
    rcases h with h | h
    · rw [h] at hs; cases hs
    · exact h
  refine ⟨hp.tmpls, none_caller_poly, none_rec_poly, nil_supers_ok, ?_⟩
  intro n bs hl b hb
  obtain ⟨k, hk⟩ := lookup_some_mem hl
  exact buildChains_ok (fun t ht => (hp.chain t ht).2) _ hk b hb

/-- what `runChainHeads` hands back: same mode, target, program, chains; still a good environment -/
def SameFrame (strict : Bool) (env : Env) (fl : List Bool) (env' : Env) : Prop :=
  EnvInv strict env' fl ∧ env'.mode = env.mode ∧ env'.opaq = env.opaq ∧ env'.prog = env.prog ∧ env'.chains = env.chains

theorem HTQ.runChainHeads {strict : Bool} (fuel : Nat) : ∀ (ts : List Tmpl) (env : Env) (fl : List Bool), EnvInv strict env fl →
    (strict = false → ∀ t ∈ ts, OkSs env.prog env.mode true t.pre ∧ OkSs env.prog env.mode true t.body) →
    HTQ fl fl (runChainHeads strict fuel env ts) (SameFrame strict env fl) := by
  intro ts
  induction ts with
  | nil =>
    intro env fl hEnv _
    simp only [Safe.runChainHeads]
    exact HTQ.pure _ ⟨hEnv, rfl, rfl, rfl, rfl⟩
  | cons t rest ih =>
    intro env fl hEnv hP
    simp only [Safe.runChainHeads]
    have hE1 : EnvInv strict { env with opaq := true, skipBlocks := true } (false :: fl) :=
      ⟨hEnv.mode, hEnv.init, fun _ => ⟨fl, rfl⟩, fun hs => let f := hEnv.frag hs; ⟨f.prog, f.caller, f.recLoop, f.supers, f.chains⟩⟩
    have hT := (exec_ht strict fuel).2.2.2.2.2.2.2.1 { env with opaq := true, skipBlocks := true } t env.mode (false :: fl) hE1
      (fun hs => ⟨hEnv.mode, (hP hs t List.mem_cons_self).1, (hP hs t List.mem_cons_self).2⟩)
    refine HTQ.bind (fl1 := false :: fl) (HTQ.of_HT (HT.stepM ⟨_, rfl⟩)) fun _ _ =>
      HTQ.bind (HTQ.of_HT hT) fun l _ =>
      HTQ.bind (fl1 := fl) (HTQ.of_HT (HT.pushM ⟨_, rfl, fun h => absurd rfl h⟩)) fun _ _ => ?_
    intro st a st' hs hr
    obtain ⟨h1, h2, h3, h4, h5, h6⟩ := ih { env with vars := l.1, tvars := l.2, macros := scopeMacros env.prog t ++ env.macros, mods := scopeMods t.imports ++ env.mods } fl
      (hEnv.congr rfl rfl rfl rfl rfl rfl rfl rfl) (fun hs t' ht' => hP hs t' (List.mem_cons_of_mem _ ht')) st a st' hs hr
    exact ⟨h1, h2, h3, h4, h5, h6⟩

theorem inheritChain_mem {p : Prog} : ∀ (fuel : Nat) (name : String), ∀ t ∈ inheritChain p fuel name, t ∈ p.templates := by
  intro fuel
  induction fuel with
  | zero => intro name t h; simp [inheritChain] at h
  | succ fuel ih =>
    intro name t h
    simp only [inheritChain] at h
    split at h
    · cases h
    · rename_i t0 h0
      have hm : t0 ∈ p.templates := (findTmpl_mem h0).1
      split at h
      · simp only [List.mem_singleton] at h; subst h; exact hm
      · rcases List.mem_cons.mp h with rfl | h
        · exact hm
        · exact ih _ t h

/-- `renderMainM`: the invariant is kept, and the scope it returns is good for the top-level target -/
theorem HTQ.renderMainM {strict : Bool} (fuel : Nat) {p : Prog} (h : Admitted strict p) (ctx : List (String × CV)) :
    HTQ [] [] (renderMainM strict fuel p ctx) fun env => EnvInv strict env [] ∧ env.mode = modeOf p p.main ∧ env.prog = p ∧ env.opaq = false := by
  unfold Safe.renderMainM
  simp only
  split
  · exact HTQ.fail
  · rename_i base hbase
    have hmem : base ∈ inheritChain p (p.templates.length + 1) p.main := List.mem_of_getLast? hbase
    refine HTQ.bind (HTQ.of_HT (HT.pushCtx _)) fun globals _ => ?_
    have hmain : ¬ (strict && modeOf p p.main != .html) = true → modeOf p p.main = .html := by
      intro hg
      rcases h with h | h
      · subst h
        simpa using hg
      · exact h.main
    refine HTQ.ite HTQ.fail fun hg => ?_
    have hm := hmain hg
    have hE0 := baseEnv_inv h hm globals
    have hbm : (baseEnv p globals (inheritChain p (p.templates.length + 1) p.main)).mode = .html := by simp [baseEnv, hm]
    have hbp : (baseEnv p globals (inheritChain p (p.templates.length + 1) p.main)).prog = p := rfl
    have hpo : strict = false → ProgOk p := fun hs => by
      rcases h with h | h
      · rw [h] at hs; cases hs
      · exact h
    refine HTQ.bind (HTQ.runChainHeads fuel _ _ [] hE0 fun hs t ht => ?_) fun env hq => ?_
    · rw [hbm, hbp]
      have := (hpo hs).chain t ((List.dropLast_sublist _).subset ht)
      exact ⟨this.1.mono, this.2.mono⟩
    · obtain ⟨hE1, hmode, hopq, hprog, _⟩ := hq
      have hT := (exec_ht strict fuel).2.2.2.2.2.2.2.1 env base env.mode [] hE1 (fun hs => by
        rw [hmode, hbm, hopq, hprog]
        have := (hpo hs).chain base hmem
        exact ⟨by simp, this.1, this.2⟩)
      refine HTQ.bind (HTQ.of_HT hT) fun l _ => HTQ.pure _ ⟨hE1.congr rfl rfl rfl rfl rfl rfl rfl rfl, ?_, hprog, ?_⟩
      · show env.mode = _
        rw [hmode, hbm, hm]
      · show env.opaq = false
        rw [hopq]; rfl

/-- a run of a whole program — guarded, or unguarded on a program of the fragment — ends in a state
    satisfying the machine invariant -/
theorem execProg_inv {strict : Bool} {p : Prog} (h : Admitted strict p) (ctx : List (String × CV)) (st : St)
    (hr : execProg strict p ctx = some st) : StInvF [] st := by
  unfold execProg execProgM at hr
  simp only [Option.map_eq_some_iff] at hr
  obtain ⟨⟨u, st1⟩, h1, rfl⟩ := hr
  have := HTQ.bind (HTQ.renderMainM defaultFuel h ctx) (R := fun _ => True) fun env _ => HTQ.pure () trivial
  exact (this {} u st1 stInvF_init h1).1

/-- the same for `render_captured` + `render_block` -/
theorem execBlock_inv {strict : Bool} {p : Prog} (h : Admitted strict p) (b : String) (ctx : List (String × CV)) (st : St)
    (hr : execBlock strict p b ctx = some st) : StInvF [] st := by
  have key : HTQ [] [] (execBlockM strict defaultFuel p b ctx) (fun _ => True) := by
    unfold execBlockM
    refine HTQ.bind (HTQ.renderMainM defaultFuel h ctx) fun env hq => ?_
    obtain ⟨hE, hmode, hprog, hopq⟩ := hq
    refine HTQ.ite HTQ.fail fun _ => ?_
    have hS := (exec_ht strict defaultFuel).2.2.2.2.2.2.1 env (.block b []) [] hE (fun hs => by
      have hm : env.mode = .html := by
        rw [hmode]
        rcases h with h | h
        · rw [h] at hs; cases hs
        · exact h.main
      exact OkS.block b hm OkSs.nil)
    exact HTQ.bind (HTQ.of_HT hS) fun _ _ => HTQ.pure () trivial
  unfold execBlock at hr
  simp only [Option.map_eq_some_iff] at hr
  obtain ⟨⟨u, st1⟩, h1, rfl⟩ := hr
  exact (key {} u st1 stInvF_init h1).1

/-- `Expression::eval`: the value handed back satisfies the invariant -/
theorem execExpr_inv {strict : Bool} {e : Expr} (h : strict = true ∨ OkE .none e) (ctx : List (String × CV)) (v : V) (st : St)
    (hr : execExpr strict e ctx = some (v, st)) : v.Inv ∧ StInvF [] st := by
  unfold execExpr at hr
  split at hr
  · rename_i r st1 h1
    simp only [Option.map_eq_some_iff, Prod.mk.injEq] at hr
    obtain ⟨v', hv, rfl, rfl⟩ := hr
    unfold execExprM at h1
    have hfinal : StInvF [] st1 := by
      have := HT.bind (fl := []) (fl1 := []) (fl2 := []) (HT.pushCtx ctx) fun globals =>
        (exec_ht strict defaultFuel).1 (exprEnv globals) e []
          ⟨(by simp [exprEnv]), (by simp [exprEnv]), (by simp [exprEnv]), fun _ => ⟨(by intro t ht; cases ht), none_caller_poly, none_rec_poly, nil_supers_ok, nil_chains_ok⟩⟩
          (fun hs => by
            rcases h with h | h
            · rw [h] at hs; cases hs
            · exact h)
      exact this.apply stInvF_init h1
    exact ⟨hfinal.1 v' (pool_mem hv), hfinal⟩
  · cases hr

end MJ.Safe
