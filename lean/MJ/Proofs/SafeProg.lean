import MJ.Model.SafeProg
import MJ.Proofs.SafeInv
/-! C02, stage "programs": the strict interpreter only ever runs fragment steps, hence preserves the
machine invariant. -/
namespace MJ.Safe

/-- a computation that maps invariant states to invariant states -/
def Pres {α : Type} (m : M α) : Prop := ∀ st a st', StInv st → m st = some (a, st') → StInv st'

theorem Pres.pure {α : Type} (a : α) : Pres (Pure.pure a : M α) := by
  intro st a' st' h hr
  simp only [Pure.pure, M.pure, Option.some.injEq, Prod.mk.injEq] at hr
  obtain ⟨_, rfl⟩ := hr; exact h

theorem Pres.fail {α : Type} : Pres (failM : M α) := by
  intro st a st' _ hr; simp [failM] at hr

theorem Pres.bind {α β : Type} {m : M α} {f : α → M β} (hm : Pres m) (hf : ∀ a, Pres (f a)) :
    Pres (m >>= f) := by
  intro st b st' h hr
  simp only [Bind.bind, M.bind] at hr
  split at hr
  · cases hr
  · rename_i a st1 h1
    exact hf a st1 b st' (hm st a st1 h h1) hr

theorem Pres.stepM {s : Step} (hs : StepOk s) : Pres (stepM s) := by
  intro st a st' h hr
  simp only [Safe.stepM, Option.map_eq_some_iff, Prod.mk.injEq] at hr
  obtain ⟨st1, h1, _, rfl⟩ := hr
  exact step_preserves_inv s st st1 hs h h1

theorem Pres.pushM {s : Step} (hs : StepOk s) : Pres (pushM s) := by
  intro st a st' h hr
  simp only [Safe.pushM, Option.map_eq_some_iff, Prod.mk.injEq] at hr
  obtain ⟨st1, h1, _, rfl⟩ := hr
  exact step_preserves_inv s st st1 hs h h1

theorem Pres.readM (i : Nat) : Pres (readM i) := by
  intro st a st' h hr
  simp only [Safe.readM, Option.map_eq_some_iff, Prod.mk.injEq] at hr
  obtain ⟨_, _, _, rfl⟩ := hr
  exact h

theorem Pres.ite {α : Type} {c : Prop} [Decidable c] {a b : M α} (ha : Pres a) (hb : Pres b) :
    Pres (if c then a else b) := by
  split
  · exact ha
  · exact hb

theorem Pres.emitG (env : Env) (r : Nat) : Pres (emitG true env r) := by
  unfold Safe.emitG
  split
  · exact Pres.fail
  · rename_i hc
    apply Pres.stepM
    have : env.mode = .html := by
      cases hm : env.mode <;> simp [hm] at hc ⊢
    simp only [StepOk, this]

theorem Pres.applyG {env : Env} {g : Fn} {ok : Bool} (rs : List Nat)
    (hg : ok = true → env.mode = .html → InvPreserving g) : Pres (applyG true env g ok rs) := by
  unfold Safe.applyG
  split
  · exact Pres.fail
  · rename_i hc
    apply Pres.pushM
    have hm : env.mode = .html := by
      cases hm : env.mode <;> simp [hm] at hc ⊢
    have hok : ok = true := by
      cases ok <;> simp at hc ⊢
    exact hg hok hm

theorem Pres.applyNamed (env : Env) (name : String) (ps rs : List Nat) :
    Pres (applyNamed true env name ps rs) := by
  unfold Safe.applyNamed
  split
  · exact Pres.fail
  · rename_i g ok hl
    apply Pres.applyG
    intro hok hm
    subst hok
    rw [hm] at hl
    exact named_models_preserve_inv_map name ps g hl

theorem Pres.bindParams : ∀ (ps : List String) (rs : List Nat), Pres (bindParams ps rs) := by
  intro ps
  induction ps with
  | nil =>
    intro rs
    cases rs with
    | nil => simp only [Safe.bindParams]; exact Pres.pure _
    | cons r rs => simp only [Safe.bindParams]; exact Pres.fail
  | cons p ps ih =>
    intro rs
    cases rs with
    | nil =>
      simp only [Safe.bindParams]
      refine Pres.bind (Pres.pushM (by trivial)) fun r => Pres.bind (ih []) fun rest => Pres.pure _
    | cons r rs =>
      simp only [Safe.bindParams]
      exact Pres.bind (ih rs) fun rest => Pres.pure _

mutual
theorem CV.toV_inv : ∀ cv : CV, cv.toV.Inv
  | .str s => by simp [CV.toV, V.Inv]
  | .int n => by simp [CV.toV, V.Inv]
  | .bool b => by simp [CV.toV, V.Inv]
  | .none => by simp [CV.toV, V.Inv]
  | .list xs => by simp only [CV.toV, V.Inv]; exact CV.toVL_inv xs
  | .map kvs => by simp only [CV.toV, V.Inv]; exact CV.toVM_inv kvs
  | .bytes bs => by simp [CV.toV, V.Inv]
  | .float cs => by simp [CV.toV, V.Inv]
  | .obj t => by simp [CV.toV, V.Inv]
theorem CV.toVL_inv : ∀ xs : List CV, V.InvL (CV.toVL xs)
  | [] => by simp [CV.toVL, V.InvL]
  | x :: xs => by simp only [CV.toVL, V.InvL]; exact ⟨CV.toV_inv x, CV.toVL_inv xs⟩
theorem CV.toVM_inv : ∀ kvs : List (String × CV), V.InvM (CV.toVM kvs)
  | [] => by simp [CV.toVM, V.InvM]
  | (k, v) :: kvs => by simp only [CV.toVM, V.InvM]; exact ⟨CV.toV_inv v, CV.toVM_inv kvs⟩
end

theorem Pres.pushCtx : ∀ ctx : List (String × CV), Pres (pushCtx ctx) := by
  intro ctx
  induction ctx with
  | nil => simp only [Safe.pushCtx]; exact Pres.pure _
  | cons p rest ih =>
    obtain ⟨n, cv⟩ := p
    simp only [Safe.pushCtx]
    exact Pres.bind (Pres.pushM (CV.toV_inv cv)) fun r => Pres.bind ih fun more => Pres.pure _


theorem Pres.apply {α : Type} {m : M α} (h : Pres m) {st st' : St} {a : α} (hs : StInv st)
    (hr : m st = some (a, st')) : StInv st' := h st a st' hs hr

attribute [irreducible] Pres

set_option hygiene false in
/-- discharge `Pres` goals of the interpreter clauses: sequencing, guarded primitives, recursive calls -/
macro "pres" : tactic => `(tactic| repeat' (first
  | with_reducible exact Pres.pure _
  | with_reducible exact Pres.fail
  | with_reducible exact Pres.readM _
  | with_reducible exact Pres.emitG _ _
  | with_reducible exact Pres.applyNamed _ _ _ _
  | with_reducible exact Pres.bindParams _ _
  | with_reducible exact Pres.applyG _ (fun _ _ => concatF_inv)
  | with_reducible exact Pres.applyG _ (fun _ _ => addF_inv)
  | with_reducible exact Pres.applyG _ (fun _ _ => repeatF_inv _)
  | with_reducible exact Pres.applyG _ (fun _ _ => elemF_inv _)
  | with_reducible exact Pres.applyG _ (fun _ _ => sliceF_inv _ _)
  | with_reducible exact Pres.applyG _ (fun _ _ => attrF_inv _)
  | with_reducible exact Pres.applyG _ (fun _ _ => charsF_inv)
  | exact Pres.stepM (by simp only [StepOk])
  | exact Pres.pushM (by simp only [StepOk])
  | with_reducible exact ihE _ _
  | with_reducible exact ihA _ _
  | with_reducible exact ihK _ _
  | with_reducible exact ihF _ _ _ _ _ _
  | with_reducible exact ihSS _ _
  | with_reducible exact ihS _ _
  | with_reducible apply Pres.bind
  | with_reducible apply Pres.ite
  | intro _
  | split))

/-- all six interpreter functions preserve the machine invariant in strict mode -/
theorem exec_pres : ∀ fuel : Nat,
    (∀ env e, Pres (evalExpr true fuel env e)) ∧
    (∀ env es, Pres (evalArgs true fuel env es)) ∧
    (∀ env kvs, Pres (evalKVs true fuel env kvs)) ∧
    (∀ env v body r k n, Pres (forLoop true fuel env v body r k n)) ∧
    (∀ env ss, Pres (execStmts true fuel env ss)) ∧
    (∀ env s, Pres (execStmt true fuel env s)) := by
  intro fuel
  induction fuel with
  | zero =>
    refine ⟨?_, ?_, ?_, ?_, ?_, ?_⟩
    · intro env e; simp only [evalExpr]; exact Pres.fail
    · intro env es; simp only [evalArgs]; exact Pres.fail
    · intro env kvs; simp only [evalKVs]; exact Pres.fail
    · intro env v body r k n; simp only [forLoop]; exact Pres.fail
    · intro env ss; simp only [execStmts]; exact Pres.fail
    · intro env s; simp only [execStmt]; exact Pres.fail
  | succ fuel ih =>
    obtain ⟨ihE, ihA, ihK, ihF, ihSS, ihS⟩ := ih
    refine ⟨?_, ?_, ?_, ?_, ?_, ?_⟩
    · intro env e
      cases e <;> simp only [evalExpr] <;> pres
    · intro env es
      cases es <;> simp only [evalArgs] <;> pres
    · intro env kvs
      cases kvs with
      | nil => simp only [evalKVs]; pres
      | cons kv kvs => obtain ⟨k, e⟩ := kv; simp only [evalKVs]; pres
    · intro env v body r k n
      simp only [forLoop]; pres
    · intro env ss
      cases ss <;> simp only [execStmts] <;> pres
    · intro env s
      cases s <;> simp only [execStmt] <;> pres


theorem Pres.execProgM (fuel : Nat) (p : Prog) (ctx : List (String × CV)) : Pres (execProgM true fuel p ctx) := by
  obtain ⟨ihE, ihA, ihK, ihF, ihSS, ihS⟩ := exec_pres fuel
  unfold Safe.execProgM
  simp only
  split
  · exact Pres.fail
  · refine Pres.bind (Pres.pushCtx _) fun globals => ?_
    pres

/-- a strict run of a whole program ends in a state satisfying the machine invariant -/
theorem execProg_inv (p : Prog) (ctx : List (String × CV)) (st : St) (h : execProg true p ctx = some st) :
    StInv st := by
  unfold execProg at h
  simp only [Option.map_eq_some_iff] at h
  obtain ⟨⟨u, st1⟩, h1, rfl⟩ := h
  exact (Pres.execProgM defaultFuel p ctx).apply stInv_init h1

end MJ.Safe
