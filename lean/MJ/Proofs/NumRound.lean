import MJ.Proofs.NumF
import MJ.Model.NumX
/-!
# `encodeRat` is IEEE-754 round-to-nearest, ties-to-even

`encodeRat p q` is the bit pattern of the double nearest to the non-negative rational `p / q` (in
units of `2^-1074`): no double is closer (`encodeRat_nearest`), and when two doubles are equally
close the one with the even significand is returned (`encodeRat_tie_even`).  Float `+`, `-`, `*`
of the model are defined as the exact result pushed through `encodeRat`, so they are exactly
rounded (`fadd_nearest`, `fmul_nearest`).
-/
namespace MJ.NumF
open MJ.F64 MJ.NumX

theorem scaledOfMag_small {m : Nat} (h : m ≤ P53) : scaledOfMag m = m := by
  unfold scaledOfMag
  unfold P53 at h
  by_cases h0 : m / P52 = 0
  · rw [if_pos h0]
    unfold P52 at *
    omega
  · rw [if_neg h0]
    by_cases h1 : m / P52 = 1
    · rw [h1]
      unfold P52 at *
      simp only [Nat.sub_self, Nat.pow_zero, Nat.mul_one]
      omega
    · have h2 : m / P52 = 2 := by unfold P52 at *; omega
      rw [h2]
      unfold P52 at *
      simp only [Nat.add_one_sub_one, Nat.pow_one]
      omega

/-- every float of (scaled) magnitude at least `2^l` (`l ≥ 52`) is a multiple of `2^(l-52)` -/
theorem grid0 (l m : Nat) (hl : 52 ≤ l) (h : 2 ^ l ≤ scaledOfMag m) :
    ∃ j, scaledOfMag m = j * 2 ^ (l - 52) := by
  unfold scaledOfMag at *
  have hf : m % P52 < P52 := Nat.mod_lt _ P52_pos
  generalize m / P52 = e at *
  generalize m % P52 = f at *
  by_cases he : e = 0
  · rw [if_pos he] at h
    exfalso
    have h1 : 2 ^ 52 ≤ 2 ^ l := two_pow_le hl
    rw [P52_eq] at hf
    omega
  · rw [if_neg he] at h ⊢
    have hlt : (P52 + f) * 2 ^ (e - 1) < 2 ^ (e + 52) := by
      have : 2 ^ (e + 52) = (P52 + P52) * 2 ^ (e - 1) := by
        rw [show e + 52 = (e - 1) + 53 by omega, Nat.pow_add]
        rw [show (2:Nat) ^ 53 = P52 + P52 by decide, Nat.mul_comm]
      rw [this]
      exact Nat.mul_lt_mul_of_pos_right (by omega) (Nat.pow_pos (by omega))
    have hexp : l < e + 52 := by
      have : 2 ^ l < 2 ^ (e + 52) := Nat.lt_of_le_of_lt h hlt
      exact (Nat.pow_lt_pow_iff_right (by omega)).mp this
    refine ⟨(P52 + f) * 2 ^ (e - 1 - (l - 52)), ?_⟩
    rw [Nat.mul_assoc]
    refine congrArg (fun t => (P52 + f) * t) ?_
    rw [← Nat.pow_add, show e - 1 - (l - 52) + (l - 52) = e - 1 by omega]

/-- `|a - b|` on naturals -/
def dist (a b : Nat) : Nat := (a - b) + (b - a)

theorem encodeRat_lo {p q : Nat} (hs : p / q < P53) :
    encodeRat p q =
      if q < 2 * (p % q) ∨ (2 * (p % q) = q ∧ p / q % 2 = 1) then p / q + 1 else p / q := by
  unfold encodeRat
  simp only [hs, if_true]

/-- the rounding, low range (`p / q < 2^53`: the grid is the integers) -/
theorem encodeRat_spec_lo (p q : Nat) (hq : 0 < q) (hs : p / q < P53) :
    ∃ c, encodeRat p q = c ∧ scaledOfMag (encodeRat p q) = c ∧
      2 * dist p (c * q) ≤ q ∧ (2 * dist p (c * q) = q → c % 2 = 0) := by
  have hp : p = p / q * q + p % q := by
    have := Nat.div_add_mod p q
    rw [Nat.mul_comm] at this
    omega
  have hrem : p % q < q := Nat.mod_lt _ hq
  rw [encodeRat_lo hs]
  generalize p / q = s at *
  generalize p % q = rem at *
  by_cases hc : q < 2 * rem ∨ (2 * rem = q ∧ s % 2 = 1)
  · rw [if_pos hc]
    refine ⟨s + 1, rfl, scaledOfMag_small (by omega), ?_, ?_⟩
    · unfold dist
      rw [Nat.add_mul, Nat.one_mul]
      generalize s * q = A at *
      omega
    · unfold dist
      rw [Nat.add_mul, Nat.one_mul]
      generalize s * q = A at *
      omega
  · rw [if_neg hc]
    refine ⟨s, rfl, scaledOfMag_small (by omega), ?_, ?_⟩
    · unfold dist
      generalize s * q = A at *
      omega
    · unfold dist
      generalize s * q = A at *
      omega
/-- the rounding, high range (`p / q ≥ 2^53`: the grid is the multiples of `2^k`, `k = ⌊log2⌋ - 52`) -/
theorem encodeRat_spec_hi (p q : Nat) (hq : 0 < q) (hs : ¬ p / q < P53) (hfin : encodeRat p q < infMag) :
    ∃ k c, 1 ≤ k ∧ P52 ≤ c ∧ scaledOfMag (encodeRat p q) = c * 2 ^ k ∧ P52 * 2 ^ k * q ≤ p ∧
      2 * dist p (c * 2 ^ k * q) ≤ 2 ^ k * q ∧ (2 * dist p (c * 2 ^ k * q) = 2 ^ k * q → c % 2 = 0) ∧
      encodeRat p q % 2 = c % 2 := by
  have hp : p = p / q * q + p % q := by
    have := Nat.div_add_mod p q
    rw [Nat.mul_comm] at this
    omega
  have hrem : p % q < q := Nat.mod_lt _ hq
  have hs0 : p / q ≠ 0 := by unfold P53 at hs; omega
  obtain ⟨hl1, hl2⟩ := log2_bounds hs0
  have hl : 52 < (p / q).log2 := by
    have h53 : 2 ^ 53 < 2 ^ ((p / q).log2 + 1) := by
      have : (2 : Nat) ^ 53 = P53 := by decide
      rw [this]; omega
    have := (Nat.pow_lt_pow_iff_right (by omega : 1 < 2)).mp h53
    omega
  obtain ⟨hq1, hq2⟩ := q_bounds hl hl1 hl2
  -- the definition, with its local names
  have hdef : encodeRat p q =
      (let s := p / q
       let rem := p % q
       let k := Nat.log2 s - 52
       let qq := s / 2 ^ k
       let r2 := s % 2 ^ k
       let half := 2 ^ (k - 1)
       let q' := if half < r2 ∨ (r2 = half ∧ (rem ≠ 0 ∨ qq % 2 = 1)) then qq + 1 else qq
       let m := (k + 1) * P52 + (q' - P52)
       if infMag ≤ m then infMag else m) := by
    unfold encodeRat
    simp only [hs, if_false]
  rw [hdef] at hfin ⊢
  simp only [] at hfin ⊢
  have hsd : p / q = p / q / 2 ^ ((p / q).log2 - 52) * 2 ^ ((p / q).log2 - 52) + p / q % 2 ^ ((p / q).log2 - 52) := by
    have := Nat.div_add_mod (p / q) (2 ^ ((p / q).log2 - 52))
    rw [Nat.mul_comm] at this
    omega
  have hr2 : p / q % 2 ^ ((p / q).log2 - 52) < 2 ^ ((p / q).log2 - 52) := Nat.mod_lt _ (Nat.pow_pos (by omega))
  have hk1 : 1 ≤ (p / q).log2 - 52 := by omega
  have ht : 2 ^ ((p / q).log2 - 52) = 2 * 2 ^ ((p / q).log2 - 52 - 1) := by
    rw [show (p / q).log2 - 52 = ((p / q).log2 - 52 - 1) + 1 by omega, Nat.pow_succ]
    simp only [Nat.add_sub_cancel]
    omega
  generalize (p / q).log2 - 52 = k at *
  generalize hqq : p / q / 2 ^ k = qq at *
  generalize hr2' : p / q % 2 ^ k = r2 at *
  generalize p % q = rem at *
  generalize p / q = s at *
  generalize 2 ^ (k - 1) = half at *
  -- the two candidates decode to multiples of 2^k
  have key : ∀ q' : Nat, (q' = qq ∨ q' = qq + 1) →
      scaledOfMag ((k + 1) * P52 + (q' - P52)) = q' * 2 ^ k := by
    intro q' hq'
    have hle : q' - P52 ≤ P52 := by omega
    have hq'' : P52 + (q' - P52) = q' := by omega
    rw [scaledOfMag_em (k + 1) (q' - P52) (by omega) hle, Nat.add_sub_cancel, hq'']
  -- products as atoms
  have hQ : P52 * 2 ^ k * q ≤ qq * 2 ^ k * q :=
    Nat.mul_le_mul_right _ (Nat.mul_le_mul_right _ hq1)
  have hpQ : p = qq * 2 ^ k * q + r2 * q + rem := by
    rw [hp, hsd, Nat.add_mul]
  have hT : 2 ^ k * q = 2 * (half * q) := by rw [ht, Nat.mul_assoc]
  have hW : r2 * q + q ≤ 2 ^ k * q := by
    have : (r2 + 1) * q ≤ 2 ^ k * q := Nat.mul_le_mul_right _ (by omega)
    rwa [Nat.add_mul, Nat.one_mul] at this
  have hsucc : (qq + 1) * 2 ^ k * q = qq * 2 ^ k * q + 2 ^ k * q := by
    rw [Nat.add_mul, Nat.add_mul, Nat.one_mul]
  by_cases hc : half < r2 ∨ (r2 = half ∧ (rem ≠ 0 ∨ qq % 2 = 1))
  · -- round up
    rw [if_pos hc] at hfin ⊢
    have hm : ¬ infMag ≤ (k + 1) * P52 + (qq + 1 - P52) := by
      intro h; rw [if_pos h] at hfin; omega
    rw [if_neg hm]
    refine ⟨k, qq + 1, hk1, by omega, key _ (Or.inr rfl), by omega, ?_, ?_, ?_⟩
    · have hlow : half * q ≤ r2 * q + rem := by
        rcases hc with h | ⟨h, _⟩
        · have : half * q ≤ r2 * q := Nat.mul_le_mul_right _ (by omega)
          omega
        · rw [h]; omega
      unfold dist
      rw [hsucc]
      generalize qq * 2 ^ k * q = Q at *
      generalize r2 * q = W at *
      generalize half * q = H at *
      generalize 2 ^ k * q = T at *
      omega
    · intro htie
      have hlow : half * q ≤ r2 * q + rem := by
        rcases hc with h | ⟨h, _⟩
        · have : half * q ≤ r2 * q := Nat.mul_le_mul_right _ (by omega)
          omega
        · rw [h]; omega
      -- a tie means r2 = half and rem = 0, so qq is odd
      have hr2h : r2 = half ∧ rem = 0 := by
        rcases hc with h | ⟨h, _⟩
        · exfalso
          have h1 : (half + 1) * q ≤ r2 * q := Nat.mul_le_mul_right _ (by omega)
          rw [Nat.add_mul, Nat.one_mul] at h1
          unfold dist at htie
          rw [hsucc] at htie
          generalize qq * 2 ^ k * q = Q at *
          generalize r2 * q = W at *
          generalize half * q = H at *
          generalize 2 ^ k * q = T at *
          omega
        · refine ⟨h, ?_⟩
          subst h
          unfold dist at htie
          rw [hsucc] at htie
          generalize qq * 2 ^ k * q = Q at *
          generalize r2 * q = W at *
          generalize 2 ^ k * q = T at *
          omega
      rcases hc with h | ⟨_, h⟩
      · omega
      · omega
    · have hP : P52 % 2 = 0 := by decide
      have : (k + 1) * P52 % 2 = 0 := by rw [Nat.mul_mod, hP]; simp
      omega
  · -- round down
    rw [if_neg hc] at hfin ⊢
    have hm : ¬ infMag ≤ (k + 1) * P52 + (qq - P52) := by
      intro h; rw [if_pos h] at hfin; omega
    rw [if_neg hm]
    refine ⟨k, qq, hk1, hq1, key _ (Or.inl rfl), by omega, ?_, ?_, ?_⟩
    · have hup : r2 * q + rem ≤ half * q := by
        by_cases h : r2 = half
        · have : rem = 0 := by
            by_cases h0 : rem = 0
            · exact h0
            · exact absurd (Or.inr ⟨h, Or.inl h0⟩) hc
          rw [h]; omega
        · have : (r2 + 1) * q ≤ half * q := Nat.mul_le_mul_right _ (by omega)
          rw [Nat.add_mul, Nat.one_mul] at this
          omega
      unfold dist
      generalize qq * 2 ^ k * q = Q at *
      generalize r2 * q = W at *
      generalize half * q = H at *
      generalize 2 ^ k * q = T at *
      omega
    · intro htie
      by_cases h : r2 = half
      · by_cases h1 : qq % 2 = 1
        · exact absurd (Or.inr ⟨h, Or.inr h1⟩) hc
        · omega
      · exfalso
        have : (r2 + 1) * q ≤ half * q := Nat.mul_le_mul_right _ (by omega)
        rw [Nat.add_mul, Nat.one_mul] at this
        unfold dist at htie
        generalize qq * 2 ^ k * q = Q at *
        generalize r2 * q = W at *
        generalize half * q = H at *
        generalize 2 ^ k * q = T at *
        omega
    · have hP : P52 % 2 = 0 := by decide
      have : (k + 1) * P52 % 2 = 0 := by rw [Nat.mul_mod, hP]; simp
      omega
theorem lattice_nearest {p T C J : Nat} (h2 : 2 * dist p C ≤ T) (hne : J + T ≤ C ∨ C + T ≤ J) :
    dist p C ≤ dist p J ∧ (dist p C = dist p J → 2 * dist p C = T) := by
  unfold dist at *
  omega

/-- what `encodeRat` guarantees: the result decodes to `c · 2^k`, within half a grid step `2^k` of
    `p / q`, the significand `c` even on a tie; `k = 0` on the integer grid, otherwise the value is at
    least `2^(52+k)`, where every double is a multiple of `2^k` -/
theorem encodeRat_spec (p q : Nat) (hq : 0 < q) (hfin : encodeRat p q < infMag) :
    ∃ k c, scaledOfMag (encodeRat p q) = c * 2 ^ k ∧
      2 * dist p (c * 2 ^ k * q) ≤ 2 ^ k * q ∧
      (2 * dist p (c * 2 ^ k * q) = 2 ^ k * q → c % 2 = 0) ∧
      encodeRat p q % 2 = c % 2 ∧
      (k = 0 ∨ (P52 ≤ c ∧ P52 * 2 ^ k * q ≤ p)) := by
  by_cases hs : p / q < P53
  · obtain ⟨c, h1, h2, h3, h4⟩ := encodeRat_spec_lo p q hq hs
    refine ⟨0, c, by rw [h2]; simp, by simpa using h3, by simpa using h4, by rw [h1], Or.inl rfl⟩
  · obtain ⟨k, c, _, h1, h2, h3, h4, h5, h6⟩ := encodeRat_spec_hi p q hq hs hfin
    exact ⟨k, c, h2, h4, h5, h6, Or.inr ⟨h1, h3⟩⟩

/-- **round to nearest**: no double (no bit pattern at all, the continuation through the
    infinities included) is closer to `p / q` than the one `encodeRat` returns; and a double at the
    same distance means a tie, which is resolved to the even significand -/
theorem encodeRat_nearest (p q : Nat) (hq : 0 < q) (hfin : encodeRat p q < infMag) (m : Nat) :
    dist p (scaledOfMag (encodeRat p q) * q) ≤ dist p (scaledOfMag m * q) ∧
    (dist p (scaledOfMag (encodeRat p q) * q) = dist p (scaledOfMag m * q) →
      scaledOfMag m ≠ scaledOfMag (encodeRat p q) → encodeRat p q % 2 = 0) := by
  obtain ⟨k, c, hS, h2, htie, hpar, hlow⟩ := encodeRat_spec p q hq hfin
  rw [hS]
  -- a competitor on the same grid
  have ongrid : ∀ j : Nat, scaledOfMag m = j * 2 ^ k →
      dist p (c * 2 ^ k * q) ≤ dist p (scaledOfMag m * q) ∧
      (dist p (c * 2 ^ k * q) = dist p (scaledOfMag m * q) →
        scaledOfMag m ≠ c * 2 ^ k → encodeRat p q % 2 = 0) := by
    intro j hj
    rw [hj]
    by_cases hjc : j = c
    · subst hjc
      exact ⟨Nat.le_refl _, fun _ h => absurd rfl h⟩
    · have hne : j * 2 ^ k * q + 2 ^ k * q ≤ c * 2 ^ k * q ∨ c * 2 ^ k * q + 2 ^ k * q ≤ j * 2 ^ k * q := by
        by_cases hlt : j < c
        · left
          have : (j + 1) * 2 ^ k * q ≤ c * 2 ^ k * q :=
            Nat.mul_le_mul_right _ (Nat.mul_le_mul_right _ (by omega))
          rwa [Nat.add_mul, Nat.add_mul, Nat.one_mul] at this
        · right
          have : (c + 1) * 2 ^ k * q ≤ j * 2 ^ k * q :=
            Nat.mul_le_mul_right _ (Nat.mul_le_mul_right _ (by omega))
          rwa [Nat.add_mul, Nat.add_mul, Nat.one_mul] at this
      obtain ⟨l1, l2⟩ := lattice_nearest h2 hne
      exact ⟨l1, fun he _ => by rw [hpar]; exact htie (l2 he)⟩
  rcases hlow with hk0 | ⟨hc52, hLp⟩
  · -- the integer grid: every double is on it
    subst hk0
    exact ongrid (scaledOfMag m) (by simp)
  · by_cases hbig : 2 ^ (k + 52) ≤ scaledOfMag m
    · obtain ⟨j, hj⟩ := grid0 (k + 52) m (by omega) hbig
      rw [Nat.add_sub_cancel] at hj
      exact ongrid j hj
    · -- a competitor below 2^(52+k): it is below the result and below p / q
      have hL : 2 ^ (k + 52) = P52 * 2 ^ k := by
        rw [Nat.pow_add, P52_eq, Nat.mul_comm]
      have hU : scaledOfMag m * q + q ≤ P52 * 2 ^ k * q := by
        have : (scaledOfMag m + 1) * q ≤ P52 * 2 ^ k * q := Nat.mul_le_mul_right _ (by omega)
        rwa [Nat.add_mul, Nat.one_mul] at this
      have hLC : P52 * 2 ^ k * q ≤ c * 2 ^ k * q :=
        Nat.mul_le_mul_right _ (Nat.mul_le_mul_right _ hc52)
      have hstep : c = P52 ∨ P52 * 2 ^ k * q + 2 ^ k * q ≤ c * 2 ^ k * q := by
        by_cases h : c = P52
        · exact Or.inl h
        · right
          have : (P52 + 1) * 2 ^ k * q ≤ c * 2 ^ k * q :=
            Nat.mul_le_mul_right _ (Nat.mul_le_mul_right _ (by omega))
          rwa [Nat.add_mul, Nat.add_mul, Nat.one_mul] at this
      have hstrict : dist p (c * 2 ^ k * q) < dist p (scaledOfMag m * q) := by
        rcases hstep with h | h
        · subst h
          unfold dist at *
          generalize scaledOfMag m * q = U at *
          generalize P52 * 2 ^ k * q = L at *
          omega
        · unfold dist at *
          generalize scaledOfMag m * q = U at *
          generalize P52 * 2 ^ k * q = L at *
          generalize c * 2 ^ k * q = C at *
          generalize 2 ^ k * q = T at *
          omega
      exact ⟨Nat.le_of_lt hstrict, fun he => absurd he (Nat.ne_of_lt hstrict)⟩
theorem encodeRat_le_infMag (p q : Nat) : encodeRat p q ≤ infMag := by
  by_cases hs : p / q < P53
  · rw [encodeRat_lo hs]
    have : P53 < infMag := by decide
    split <;> omega
  · have clamp : ∀ X : Nat, (if infMag ≤ X then infMag else X) ≤ infMag := by
      intro X; split <;> omega
    unfold encodeRat
    simp only [hs, if_false]
    exact clamp _

theorem mag_signedBits (neg : Bool) (M : Nat) (hM : M ≤ infMag) : mag (signedBits neg M) = M := by
  have hlt : M < P63 := Nat.lt_of_le_of_lt hM infMag_lt_P63'
  cases neg with
  | true => exact (sign_of_neg hlt).2
  | false =>
    have := (sign_of_lt hlt).2
    simpa [signedBits] using this

theorem finite_signedBits {neg : Bool} {M : Nat} (hM : M ≤ infMag)
    (h : isFinite (signedBits neg M) = true) : M < infMag := by
  unfold isFinite at h
  rw [mag_signedBits neg M hM] at h
  simpa using h

theorem signedBits_parity (neg : Bool) (M : Nat) : signedBits neg M % 2 = M % 2 := by
  unfold signedBits
  cases neg
  · simp
  · have : P63 % 2 = 0 := by decide
    simp only [if_true]
    omega

theorem scaled_eq (m : Nat) : scaled m = scaledOfMag (mag m) := rfl

/-- **float `+` is exactly rounded**: no double is closer to the exact sum than the result … -/
theorem fadd_nearest (a b : Nat) (hfin : isFinite (fadd a b) = true) (m : Nat) :
    (key a + key b - key (fadd a b)).natAbs ≤ (key a + key b - key m).natAbs := by
  unfold fadd at *
  simp only [] at *
  by_cases h0 : key a + key b = 0
  · rw [if_pos h0, h0]
    have : key (if (sign a && sign b) = true then P63 else 0) = 0 := by
      cases (sign a && sign b) <;> decide
    rw [this]
    omega
  · rw [if_neg h0] at hfin ⊢
    generalize key a + key b = k at *
    unfold ofKey at *
    have hle := encodeRat_le_infMag k.natAbs 1
    have hM := finite_signedBits hle hfin
    obtain ⟨hk, _, _, _⟩ := key_signedBits (decide (k < 0)) _ hM
    rw [hk]
    obtain ⟨d1, _⟩ := encodeRat_nearest k.natAbs 1 (by omega) hM (mag m)
    obtain ⟨d0, _⟩ := encodeRat_nearest k.natAbs 1 (by omega) hM 0
    have hz : scaledOfMag 0 = 0 := by decide
    rw [hz] at d0
    rw [Nat.mul_one, Nat.mul_one] at d1
    rw [Nat.mul_one, Nat.zero_mul] at d0
    rw [key_eq m, scaled_eq m]
    unfold dist at d0 d1
    generalize scaledOfMag (encodeRat k.natAbs 1) = S at *
    generalize scaledOfMag (mag m) = U at *
    by_cases hk0 : k < 0
    · simp only [hk0, decide_true, if_true]
      cases sign m <;> simp only [if_true, if_false, Bool.false_eq_true] <;> omega
    · simp only [hk0, decide_false, Bool.false_eq_true, if_false]
      cases sign m <;> simp only [if_true, if_false, Bool.false_eq_true] <;> omega

/-- … and a second double at the same distance means a tie, resolved to the even significand -/
theorem fadd_tie_even (a b : Nat) (hfin : isFinite (fadd a b) = true) (m : Nat)
    (hd : (key a + key b - key (fadd a b)).natAbs = (key a + key b - key m).natAbs)
    (hne : key m ≠ key (fadd a b)) : fadd a b % 2 = 0 := by
  unfold fadd at *
  simp only [] at *
  by_cases h0 : key a + key b = 0
  · rw [if_pos h0]
    cases (sign a && sign b) <;> decide
  · rw [if_neg h0] at hfin hd hne ⊢
    generalize key a + key b = k at *
    unfold ofKey at *
    have hle := encodeRat_le_infMag k.natAbs 1
    have hM := finite_signedBits hle hfin
    obtain ⟨hk, _, _, _⟩ := key_signedBits (decide (k < 0)) _ hM
    rw [hk] at hd hne
    rw [signedBits_parity]
    obtain ⟨d1, t1⟩ := encodeRat_nearest k.natAbs 1 (by omega) hM (mag m)
    obtain ⟨d0, _⟩ := encodeRat_nearest k.natAbs 1 (by omega) hM 0
    have hz : scaledOfMag 0 = 0 := by decide
    rw [hz] at d0
    rw [Nat.mul_one, Nat.mul_one] at d1 t1
    rw [Nat.mul_one, Nat.zero_mul] at d0
    rw [key_eq m, scaled_eq m] at hd hne
    apply t1
    · unfold dist at *
      generalize scaledOfMag (encodeRat k.natAbs 1) = S at *
      generalize scaledOfMag (mag m) = U at *
      by_cases hk0 : k < 0
      · simp only [hk0, decide_true, if_true] at hd hne
        cases hs : sign m <;> simp only [hs, if_true, if_false, Bool.false_eq_true] at hd hne <;> omega
      · simp only [hk0, decide_false, Bool.false_eq_true, if_false] at hd hne
        cases hs : sign m <;> simp only [hs, if_true, if_false, Bool.false_eq_true] at hd hne <;> omega
    · intro heq
      unfold dist at *
      generalize scaledOfMag (encodeRat k.natAbs 1) = S at *
      generalize scaledOfMag (mag m) = U at *
      by_cases hk0 : k < 0
      · simp only [hk0, decide_true, if_true] at hd hne
        cases hs : sign m <;> simp only [hs, if_true, if_false, Bool.false_eq_true] at hd hne <;> omega
      · simp only [hk0, decide_false, Bool.false_eq_true, if_false] at hd hne
        cases hs : sign m <;> simp only [hs, if_true, if_false, Bool.false_eq_true] at hd hne <;> omega
theorem key_mul_key (a b : Nat) :
    key a * key b = if (sign a != sign b) then -((scaled a * scaled b : Nat) : Int) else ((scaled a * scaled b : Nat) : Int) := by
  rw [key_eq a, key_eq b]
  cases sign a <;> cases sign b <;>
    simp only [bne_self_eq_false, Bool.false_eq_true, if_false, if_true, Bool.true_bne, Bool.false_bne,
      Bool.not_false, Int.neg_mul, Int.mul_neg, Int.neg_neg, Int.natCast_mul]

/-- **float `*` is exactly rounded** (values in units of `2^-1074`, so the exact product is
    `key a · key b / 2^1074`) … -/
theorem fmul_nearest (a b : Nat) (hfin : isFinite (fmul a b) = true) (m : Nat) :
    (key a * key b - key (fmul a b) * (scale : Int)).natAbs ≤ (key a * key b - key m * (scale : Int)).natAbs := by
  unfold fmul at *
  have hle := encodeRat_le_infMag (scaled a * scaled b) scale
  have hM := finite_signedBits hle hfin
  obtain ⟨hk, _, _, _⟩ := key_signedBits (sign a != sign b) _ hM
  rw [hk, key_mul_key]
  obtain ⟨d1, _⟩ := encodeRat_nearest (scaled a * scaled b) scale scale_pos' hM (mag m)
  obtain ⟨d0, _⟩ := encodeRat_nearest (scaled a * scaled b) scale scale_pos' hM 0
  have hz : scaledOfMag 0 = 0 := by decide
  rw [hz, Nat.zero_mul] at d0
  rw [key_eq m, scaled_eq m]
  unfold dist at d0 d1
  have c1 : ((scaledOfMag (encodeRat (scaled a * scaled b) scale) : Nat) : Int) * (scale : Int) =
      ((scaledOfMag (encodeRat (scaled a * scaled b) scale) * scale : Nat) : Int) := by
    rw [Int.natCast_mul]
  have c2 : ((scaledOfMag (mag m) : Nat) : Int) * (scale : Int) = ((scaledOfMag (mag m) * scale : Nat) : Int) := by
    rw [Int.natCast_mul]
  generalize scaled a * scaled b = P at *
  generalize scaledOfMag (encodeRat P scale) * scale = X at *
  generalize scaledOfMag (mag m) * scale = Y at *
  cases (sign a != sign b) <;> cases sign m <;>
    simp only [if_true, if_false, Bool.false_eq_true, Int.neg_mul, c1, c2] <;> omega

/-- … with ties resolved to the even significand -/
theorem fmul_tie_even (a b : Nat) (hfin : isFinite (fmul a b) = true) (m : Nat)
    (hd : (key a * key b - key (fmul a b) * (scale : Int)).natAbs = (key a * key b - key m * (scale : Int)).natAbs)
    (hne : key m ≠ key (fmul a b)) : fmul a b % 2 = 0 := by
  unfold fmul at *
  have hle := encodeRat_le_infMag (scaled a * scaled b) scale
  have hM := finite_signedBits hle hfin
  obtain ⟨hk, _, _, _⟩ := key_signedBits (sign a != sign b) _ hM
  rw [hk, key_mul_key] at hd
  rw [hk] at hne
  rw [signedBits_parity]
  obtain ⟨d1, t1⟩ := encodeRat_nearest (scaled a * scaled b) scale scale_pos' hM (mag m)
  obtain ⟨d0, _⟩ := encodeRat_nearest (scaled a * scaled b) scale scale_pos' hM 0
  have hz : scaledOfMag 0 = 0 := by decide
  rw [hz, Nat.zero_mul] at d0
  rw [key_eq m, scaled_eq m] at hd hne
  have c1 : ((scaledOfMag (encodeRat (scaled a * scaled b) scale) : Nat) : Int) * (scale : Int) =
      ((scaledOfMag (encodeRat (scaled a * scaled b) scale) * scale : Nat) : Int) := by
    rw [Int.natCast_mul]
  have c2 : ((scaledOfMag (mag m) : Nat) : Int) * (scale : Int) = ((scaledOfMag (mag m) * scale : Nat) : Int) := by
    rw [Int.natCast_mul]
  -- different doubles differ by a positive amount after scaling
  have hsc : ∀ x y : Nat, x ≠ y → x * scale ≠ y * scale := by
    intro x y hxy h
    exact hxy (Nat.eq_of_mul_eq_mul_right scale_pos' h)
  apply t1
  · unfold dist at *
    generalize scaled a * scaled b = P at *
    generalize hX : scaledOfMag (encodeRat P scale) * scale = X at *
    generalize hY : scaledOfMag (mag m) * scale = Y at *
    cases hs1 : (sign a != sign b) <;> cases hs2 : sign m <;>
      simp only [hs1, hs2, if_true, if_false, Bool.false_eq_true, Int.neg_mul, c1, c2] at hd hne <;> omega
  · intro heq
    have hSU : scaledOfMag (mag m) = scaledOfMag (encodeRat (scaled a * scaled b) scale) := heq
    unfold dist at *
    rw [hSU] at hd hne c2
    have hx0 : scaledOfMag (encodeRat (scaled a * scaled b) scale) * scale = 0 →
        scaledOfMag (encodeRat (scaled a * scaled b) scale) = 0 := by
      intro h
      rcases Nat.mul_eq_zero.1 h with h | h
      · exact h
      · exact absurd h (Nat.ne_of_gt scale_pos')
    generalize scaled a * scaled b = P at *
    generalize hX : scaledOfMag (encodeRat P scale) * scale = X at *
    generalize scaledOfMag (encodeRat P scale) = S at *
    cases hs1 : (sign a != sign b) <;> cases hs2 : sign m <;>
      simp only [hs1, hs2, if_true, if_false, Bool.false_eq_true, Int.neg_mul, c1] at hd hne <;> omega
end MJ.NumF
