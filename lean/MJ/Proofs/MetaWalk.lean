import MJ.Proofs.MetaBasic
/-! `track_walk` is scope-local: it leaves the lower part of the scope stack alone, never
shrinks the report and never touches an empty stack (C18). -/
namespace MJ.Meta

/-- a block body walked with a scope stack of its own, the stack restored afterwards -/
theorem step_block {st inner : St} (h : Step { st with assigned := [[]] } inner) :
    Step st { inner with assigned := st.assigned } := by
  refine ⟨fun f fs hf => ⟨f, hf⟩, fun x hx => h.rep x hx, fun x hx => h.out x hx, ?_,
    h.mode⟩
  intro f fs _
  exact h.bad [] [] rfl

mutual
theorem step_walk : (s : Stmt) → (st : St) → Step st (walk st s)
  | .emit e, st => by simp only [walk]; exact step_visitExpr st e
  | .raw, st => by simp only [walk]; exact Step.refl st
  | .forLoop target iter filter _ body els, st => by
      simp only [walk]
      refine Step.trans (b := (walkList ((visitOpt (trackAssign (visitExpr st.push iter) target)
        filter).assign "loop") body).pop) ?_ ?_
      · apply step_of_scope
        exact Step.trans (Step.trans (Step.trans (Step.trans (step_visitExpr _ iter)
          (step_trackAssign _ target)) (step_visitOpt _ filter)) (step_assign _ "loop"))
          (step_walkList body _)
      · exact step_of_scope (step_walkList els _)
  | .ifCond c t f, st => by
      simp only [walk]
      refine Step.trans (step_visitExpr st c) ?_
      refine Step.trans (b := (walkList (visitExpr st c).push t).pop) ?_ ?_
      · exact step_of_scope (step_walkList t _)
      · exact step_of_scope (step_walkList f _)
  | .withBlock assigns body, st => by
      simp only [walk]
      apply step_of_scope
      exact Step.trans (step_withAssigns _ assigns) (step_walkList body _)
  | .set target e, st => by
      simp only [walk]
      exact Step.trans (step_visitExpr st e) (step_trackAssign _ target)
  | .autoEscape e body, st => by
      simp only [walk]
      refine Step.trans (step_visitExpr st e) ?_
      exact step_of_scope (step_walkList body _)
  | .filterBlock filter body, st => by
      simp only [walk]
      refine Step.trans (b := (walkList st.push body).pop) ?_ (step_visitExpr _ filter)
      exact step_of_scope (step_walkList body _)
  | .setBlock target filter body, st => by
      simp only [walk]
      refine Step.trans (b := (walkList st.push body).pop) ?_ ?_
      · exact step_of_scope (step_walkList body _)
      · exact Step.trans (step_visitOpt _ filter) (step_trackAssign _ target)
  | .macro name args defaults body, st => by
      simp only [walk]
      refine Step.trans ?_ (step_assign _ name)
      apply step_of_scope
      exact Step.trans (Step.trans (step_assign _ "caller") (step_macroArgs _ _ _))
        (step_walkList body _)
  | .callBlock callee cargs args defaults body, st => by
      simp only [walk]
      refine Step.trans (step_visitLeaves st (nvarsCall callee cargs)) ?_
      apply step_of_scope
      exact Step.trans (Step.trans (step_assign _ "caller") (step_macroArgs _ _ _))
        (step_walkList body _)
  | .doStmt callee cargs, st => by simp only [walk]; exact step_visitLeaves st _
  | .brk, st => by simp only [walk]; exact Step.refl st
  | .cont, st => by simp only [walk]; exact Step.refl st
  | .block _ body, st => by
      simp only [walk]
      exact step_block (step_walkList body _)
  | .include name, st => by simp only [walk]; exact step_visitExpr st name
  | .extends name, st => by simp only [walk]; exact step_visitExpr st name
  | .importAs e target, st => by
      simp only [walk]; exact Step.trans (step_visitExpr st e) (step_trackAssign _ target)
  | .fromImport e targets, st => by
      simp only [walk]; exact Step.trans (step_visitExpr st e) (step_trackTargets _ targets)
theorem step_walkList : (ss : List Stmt) → (st : St) → Step st (walkList st ss)
  | [], st => by simp only [walkList]; exact Step.refl st
  | s :: ss, st => by
      simp only [walkList]
      exact Step.trans (step_walk s st) (step_walkList ss _)
end

/-- the analysis never pops or assigns on an empty scope stack (`unwrap` cannot panic) -/
theorem findUndeclared_no_panic (t : List Stmt) : (walkList St.init t).bad = false :=
  (step_walkList t St.init).bad [] [] rfl

theorem findMacroClosure_no_panic (args : List String) (defaults : List Expr) (body : List Stmt) :
    (macroClosureSt args defaults body).bad = false :=
  (Step.trans (step_macroArgs St.init _ _) (step_walkList body _)).bad [] [] rfl

end MJ.Meta
