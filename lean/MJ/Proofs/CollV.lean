import MJ.Model.CollV
import MJ.Proofs.CmpNumFloatEq
import MJ.Proofs.CmpMap
import MJ.Proofs.CollGroup
import MJ.Proofs.CmpLookup
/-!
# The concrete filters on values obey the generic algebra

`cmp_helper` is `Value::cmp` on case-folded keys; through the explicit key type `K` (where the order
laws hold unconditionally) `sort`, `dictsort`, `unique`, `groupby` on values are instances of the
generic filters of `MJ.Coll`, for all items whose sort keys have their numbers within range.
-/
namespace MJ.CollV
open MJ MJ.Val MJ.Cmp MJ.Coll MJ.CmpKey MJ.CmpNum MJ.CmpEq Std

abbrev InRange (v : V) : Prop := AllNum N.WF v

theorem rank_str (s t : List Nat) : (V.str s).rank = (V.str t).rank := rfl

theorem cmpV_str_str (s t : List Nat) : cmpV (.str s) (.str t) = cmpBytes s t := by
  rw [cmpV]; simp [rank_str s t]

theorem rank_foldCase (cs : Bool) (v : V) : (foldCase cs v).rank = v.rank := by
  cases v <;> simp only [foldCase] <;> try rfl
  split <;> rfl

/-- comparing a string with a non-string only looks at the kinds -/
theorem cmpV_of_rank_ne {a b : V} (h : a.rank ≠ b.rank) : cmpV a b = compare a.rank b.rank := by
  rw [cmpV.eq_def]; simp [h]

theorem cls_str_iff (v : V) : cls v = .str ↔ ∃ s, v = .str s := by
  cases v <;> simp [cls]

theorem cmpCore_eq (cs : Bool) (a b : V) : cmpCore cs a b = cmpV (foldCase cs a) (foldCase cs b) := by
  cases cs
  · cases a <;> cases b <;>
      first
        | (simp [cmpCore, foldCase, cmpV_str_str]; done)
        | (simp only [cmpCore, foldCase, Bool.false_eq_true, if_false]
           rw [cmpV_of_rank_ne (by intro h; have := cls_eq_of_rank_eq h; simp [cls] at this),
             cmpV_of_rank_ne (by intro h; have := cls_eq_of_rank_eq h; simp [cls] at this)]
           rfl)
  · have h1 : foldCase true a = a := by cases a <;> simp [foldCase]
    have h2 : foldCase true b = b := by cases b <;> simp [foldCase]
    simp [cmpCore, h1, h2]

/-- `cmp_helper` is `Value::cmp` on the case-folded operands (reversed with `reverse`) -/
theorem cmpHelper_eq (cs rev : Bool) (a b : V) :
    cmpHelper cs rev a b = revCmp (fun x y => cmpV (foldCase cs x) (foldCase cs y)) rev a b := by
  unfold cmpHelper revCmp
  rw [cmpCore_eq]

theorem inRange_foldCase (cs : Bool) {v : V} (h : InRange v) : InRange (foldCase cs v) := by
  cases v <;> simp only [foldCase] <;> try exact h
  split <;> simp [AllNum]

/-- the key in the linearly ordered key type -/
def kk (cs : Bool) (v : V) : K := key (foldCase cs v)

theorem cmpHelper_eq_cmpK (cs rev : Bool) {a b : V} (ha : InRange a) (hb : InRange b) :
    cmpHelper cs rev a b = revCmp cmpK rev (kk cs a) (kk cs b) := by
  rw [cmpHelper_eq]
  unfold revCmp kk
  simp only []
  rw [cmpV_eq_cmpK numSpec_wf _ _ (inRange_foldCase cs ha) (inRange_foldCase cs hb)]

theorem mergeSort_congr {α : Type} {le le' : α → α → Bool} (l : List α)
    (h : ∀ a ∈ l, ∀ b ∈ l, le a b = le' a b) : l.mergeSort le = l.mergeSort le' := by
  have := List.map_mergeSort (f := id) (r := le) (s := le') (l := l) (by simpa using h)
  simpa using this

/-! ## sort -/

theorem sortKV_eq (cs rev : Bool) (kf : V → V) (xs : List V) (h : ∀ x ∈ xs, InRange (kf x)) :
    sortKV cs rev kf xs = Coll.sort cmpK (fun x => kk cs (kf x)) rev xs := by
  unfold sortKV Coll.sort
  apply mergeSort_congr
  intro a ha b hb
  rw [cmpHelper_eq_cmpK cs rev (h a ha) (h b hb)]; rfl

/-- sorting by any key function: a permutation, ordered by `cmp_helper` on the keys, items with
    `Equal` keys in input order -/
theorem sortKV_spec (cs rev : Bool) (kf : V → V) (xs : List V) (h : ∀ x ∈ xs, InRange (kf x)) :
    (sortKV cs rev kf xs).Perm xs ∧
    (sortKV cs rev kf xs).Pairwise (fun a b => cmpHelper cs rev (kf a) (kf b) ≠ .gt) ∧
    (∀ a b, [a, b].Sublist xs → cmpHelper cs rev (kf a) (kf b) = .eq →
      [a, b].Sublist (sortKV cs rev kf xs)) := by
  rw [sortKV_eq cs rev kf xs h]
  have hp := sort_perm' cmpK (fun x => kk cs (kf x)) rev xs
  refine ⟨hp, ?_, ?_⟩
  · have hs := sort_sorted' cmpK (fun x => kk cs (kf x)) rev xs
    rw [List.pairwise_iff_forall_sublist] at hs ⊢
    intro a b hab
    have ha : a ∈ xs := hp.subset (hab.subset (by simp))
    have hb : b ∈ xs := hp.subset (hab.subset (by simp))
    rw [cmpHelper_eq_cmpK cs rev (h a ha) (h b hb)]
    exact hs hab
  · intro a b hab he
    have ha : a ∈ xs := hab.subset (by simp)
    have hb : b ∈ xs := hab.subset (by simp)
    rw [cmpHelper_eq_cmpK cs rev (h a ha) (h b hb)] at he
    apply sort_stable' cmpK (fun x => kk cs (kf x)) rev xs [a, b] hab
    simp [he]

/-- `sort` on values: a permutation, ordered by `cmp_helper`, equal keys in input order -/
theorem sortV_spec (m : Mode) (cs rev : Bool) (attr : Option (List Nat)) (xs : List V)
    (h : ∀ x ∈ xs, InRange (keyOf m attr x)) :
    (sortV m cs rev attr xs).Perm xs ∧
    (sortV m cs rev attr xs).Pairwise (fun a b => cmpHelper cs rev (keyOf m attr a) (keyOf m attr b) ≠ .gt) ∧
    (∀ a b, [a, b].Sublist xs → cmpHelper cs rev (keyOf m attr a) (keyOf m attr b) = .eq →
      [a, b].Sublist (sortV m cs rev attr xs)) :=
  sortKV_spec cs rev (keyOf m attr) xs h

/-- `sort` with several attributes: the same, keyed by the list of the attributes -/
theorem sortMultiV_spec (m : Mode) (cs rev : Bool) (names : List (List Nat)) (xs : List V)
    (h : ∀ x ∈ xs, InRange (keyMulti m names x)) :
    (sortMultiV m cs rev names xs).Perm xs ∧
    (sortMultiV m cs rev names xs).Pairwise (fun a b => cmpHelper cs rev (keyMulti m names a) (keyMulti m names b) ≠ .gt) ∧
    (∀ a b, [a, b].Sublist xs → cmpHelper cs rev (keyMulti m names a) (keyMulti m names b) = .eq →
      [a, b].Sublist (sortMultiV m cs rev names xs)) :=
  sortKV_spec cs rev (keyMulti m names) xs h

/-! ## dictsort -/

theorem dictsortV_spec (cs rev byValue : Bool) (ps : List (V × V))
    (h : ∀ p ∈ ps, InRange (if byValue then p.2 else p.1)) :
    (dictsortV cs rev byValue ps).Perm ps ∧
    (dictsortV cs rev byValue ps).Pairwise (fun a b =>
      cmpHelper cs rev (if byValue then a.2 else a.1) (if byValue then b.2 else b.1) ≠ .gt) ∧
    (∀ a b, [a, b].Sublist ps →
      cmpHelper cs rev (if byValue then a.2 else a.1) (if byValue then b.2 else b.1) = .eq →
      [a, b].Sublist (dictsortV cs rev byValue ps)) := by
  have e : dictsortV cs rev byValue ps =
      Coll.sort cmpK (fun p : V × V => kk cs (if byValue then p.2 else p.1)) rev ps := by
    unfold dictsortV Coll.sort
    apply mergeSort_congr
    intro a ha b hb
    rw [cmpHelper_eq_cmpK cs rev (h a ha) (h b hb)]; rfl
  rw [e]
  have hp := sort_perm' cmpK (fun p : V × V => kk cs (if byValue then p.2 else p.1)) rev ps
  refine ⟨hp, ?_, ?_⟩
  · have hs := sort_sorted' cmpK (fun p : V × V => kk cs (if byValue then p.2 else p.1)) rev ps
    rw [List.pairwise_iff_forall_sublist] at hs ⊢
    intro a b hab
    have ha : a ∈ ps := hp.subset (hab.subset (by simp))
    have hb : b ∈ ps := hp.subset (hab.subset (by simp))
    rw [cmpHelper_eq_cmpK cs rev (h a ha) (h b hb)]
    exact hs hab
  · intro a b hab he
    have ha : a ∈ ps := hab.subset (by simp)
    have hb : b ∈ ps := hab.subset (by simp)
    rw [cmpHelper_eq_cmpK cs rev (h a ha) (h b hb)] at he
    apply sort_stable' cmpK (fun p : V × V => kk cs (if byValue then p.2 else p.1)) rev ps [a, b] hab
    simp [he]

/-! ## unique -/

theorem uniqueLoop_covers' {α κ : Type} (cmp : κ → κ → Ordering) (key : α → κ) (xs : List α) (seen : List κ)
    (hrefl : ∀ x ∈ xs, cmp (key x) (key x) = .eq) :
    ∀ x ∈ xs, (∃ s ∈ seen, cmp s (key x) = .eq) ∨
      (∃ y ∈ uniqueLoop cmp key xs seen, cmp (key y) (key x) = .eq) := by
  induction xs generalizing seen with
  | nil => simp
  | cons z zs ih =>
    have hrefl' : ∀ x ∈ zs, cmp (key x) (key x) = .eq := fun x hx => hrefl x (List.mem_cons_of_mem _ hx)
    intro x hx
    unfold uniqueLoop
    split
    · rename_i hz
      rcases List.mem_cons.mp hx with rfl | hx
      · left
        obtain ⟨s, hs, he⟩ := List.any_eq_true.mp hz
        exact ⟨s, hs, by simpa using he⟩
      · exact ih seen hrefl' x hx
    · rcases List.mem_cons.mp hx with rfl | hx
      · right; exact ⟨x, List.mem_cons_self, hrefl x List.mem_cons_self⟩
      · rcases ih (key z :: seen) hrefl' x hx with ⟨s, hs, he⟩ | ⟨y, hy, he⟩
        · rcases List.mem_cons.mp hs with rfl | hs
          · right; exact ⟨z, List.mem_cons_self, he⟩
          · left; exact ⟨s, hs, he⟩
        · right; exact ⟨y, List.mem_cons_of_mem _ hy, he⟩

/-- the key `unique` memorises -/
def uniqKey (m : Mode) (lower : List Nat → List Nat) (cs : Bool) (attr : Option (List Nat)) (x : V) : V :=
  match keyOf m attr x with
  | .str s => if cs then .str s else .str (lower s)
  | v => v

theorem inRange_uniqKey (m : Mode) (lower : List Nat → List Nat) (cs : Bool) (attr : Option (List Nat)) {x : V}
    (h : InRange (keyOf m attr x)) : InRange (uniqKey m lower cs attr x) := by
  unfold uniqKey
  cases hk : keyOf m attr x <;> rw [hk] at h <;> simp only <;> try exact h
  split <;> simp [AllNum]

/-- `unique`: an order-preserving sub-sequence, no two kept items with `Equal` memorised keys,
    every input key represented, first occurrences kept — for any lower-casing function -/
theorem uniqueV_spec (m : Mode) (lower : List Nat → List Nat) (cs : Bool) (attr : Option (List Nat)) (xs : List V)
    (h : ∀ x ∈ xs, InRange (keyOf m attr x)) :
    (uniqueV m lower cs attr xs).Sublist xs ∧
    (uniqueV m lower cs attr xs).Pairwise
      (fun a b => cmpV (uniqKey m lower cs attr a) (uniqKey m lower cs attr b) ≠ .eq) ∧
    (∀ x ∈ xs, ∃ y ∈ uniqueV m lower cs attr xs,
      cmpV (uniqKey m lower cs attr y) (uniqKey m lower cs attr x) = .eq) ∧
    (∀ pre x post, xs = pre ++ x :: post →
      (∀ p ∈ pre, cmpV (uniqKey m lower cs attr p) (uniqKey m lower cs attr x) ≠ .eq) →
      x ∈ uniqueV m lower cs attr xs) := by
  have e : uniqueV m lower cs attr xs = uniqueLoop cmpV (uniqKey m lower cs attr) xs [] := rfl
  rw [e]
  refine ⟨uniqueLoop_sublist _ _ xs [], (uniqueLoop_nodup _ _ xs []).2, ?_, ?_⟩
  · intro x hx
    have hrefl : ∀ x ∈ xs, cmpV (uniqKey m lower cs attr x) (uniqKey m lower cs attr x) = .eq := by
      intro x hx
      have := inRange_uniqKey m lower cs attr (h x hx)
      rw [cmpV_eq_cmpK numSpec_wf _ _ this this]; exact ReflCmp.compare_self
    rcases uniqueLoop_covers' cmpV _ xs [] hrefl x hx with ⟨s, hs, _⟩ | hh
    · simp at hs
    · exact hh
  · intro pre x post hxs hpre
    subst hxs
    exact uniqueLoop_keeps_first _ _ pre post x [] (by simp) hpre

/-! ## groupby -/

theorem groupLoop_map {α κ κ' : Type} (cmp : κ → κ → Ordering) (cmp' : κ' → κ' → Ordering) (g : κ → κ')
    (key : α → κ) (P : κ → Prop) (hag : ∀ a b, P a → P b → cmp a b = cmp' (g a) (g b)) :
    ∀ (ys : List α) (gr : Option κ) (lst : List α), (∀ y ∈ ys, P (key y)) → (∀ lg, gr = some lg → P lg) →
    (groupLoop cmp key ys gr lst).map (fun p => (g p.1, p.2)) = groupLoop cmp' (fun y => g (key y)) ys (gr.map g) lst
  | [], gr, lst, _, _ => by
    cases gr with
    | none => simp [groupLoop]
    | some lg => simp only [groupLoop, Option.map_some]; split <;> simp
  | x :: xs, gr, lst, hy, hg => by
    have hx : P (key x) := hy x List.mem_cons_self
    have hy' : ∀ y ∈ xs, P (key y) := fun y h => hy y (List.mem_cons_of_mem _ h)
    cases gr with
    | none =>
      simp only [groupLoop, Option.map_none]
      exact groupLoop_map cmp cmp' g key P hag xs (some (key x)) _ hy' (by intro lg h; cases h; exact hx)
    | some lg =>
      simp only [groupLoop, Option.map_some]
      rw [← hag lg (key x) (hg lg rfl) hx]
      split
      · simp only [List.map_cons]
        rw [groupLoop_map cmp cmp' g key P hag xs (some (key x)) _ hy' (by intro lg h; cases h; exact hx)]
        rfl
      · exact groupLoop_map cmp cmp' g key P hag xs (some (key x)) _ hy' (by intro lg h; cases h; exact hx)

/-- every grouper is the key of a member of its group -/
theorem groupLoop_grouper_mem {α κ : Type} (cmp : κ → κ → Ordering) (key : α → κ) :
    ∀ (ys : List α) (gr : Option κ) (lst : List α), (∀ lg, gr = some lg → ∃ y ∈ lst, lg = key y) →
    ∀ p ∈ groupLoop cmp key ys gr lst, ∃ y ∈ p.2, p.1 = key y
  | [], gr, lst, hg, p, hp => by
    cases gr with
    | none => simp [groupLoop] at hp
    | some lg =>
      simp only [groupLoop] at hp
      split at hp
      · simp at hp
      · simp at hp; subst hp; exact hg lg rfl
  | x :: xs, gr, lst, hg, p, hp => by
    cases gr with
    | none =>
      simp only [groupLoop] at hp
      exact groupLoop_grouper_mem cmp key xs (some (key x)) _
        (by intro lg h; cases h; exact ⟨x, by simp, rfl⟩) p hp
    | some lg =>
      simp only [groupLoop] at hp
      split at hp
      · rcases List.mem_cons.mp hp with rfl | hp
        · exact hg lg rfl
        · exact groupLoop_grouper_mem cmp key xs (some (key x)) _
            (by intro lg h; cases h; exact ⟨x, by simp, rfl⟩) p hp
      · exact groupLoop_grouper_mem cmp key xs (some (key x)) _
          (by intro lg h; cases h; exact ⟨x, by simp, rfl⟩) p hp

/-- `groupby` on values: the groups concatenate to the input stably sorted by the (case-folded)
    attribute, no group is empty, every member's attribute compares `Equal` to the grouper, and the
    groupers are strictly increasing (one group per key class) -/
theorem groupbyV_spec (m : Mode) (cs : Bool) (name : List Nat) (dflt : V) (xs : List V)
    (h : ∀ x ∈ xs, InRange (attrOr m name dflt x)) :
    let G := groupbyV m cs name dflt xs
    let S := xs.mergeSort (fun a b => cmpHelper cs false (attrOr m name dflt a) (attrOr m name dflt b) != .gt)
    G.flatMap (·.2) = S ∧ S.Perm xs ∧
    (∀ p ∈ G, p.2 ≠ [] ∧ ∀ y ∈ p.2, cmpHelper cs false p.1 (attrOr m name dflt y) = .eq) ∧
    G.Pairwise (fun p q => cmpHelper cs false p.1 q.1 = .lt) := by
  intro G S
  have hSperm : S.Perm xs := List.mergeSort_perm _ _
  have hS : ∀ y ∈ S, InRange (attrOr m name dflt y) := fun y hy => h y (hSperm.subset hy)
  have hSeq : S = Coll.sort cmpK (fun x => kk cs (attrOr m name dflt x)) false xs := by
    show xs.mergeSort _ = _
    unfold Coll.sort
    apply mergeSort_congr
    intro a ha b hb
    rw [cmpHelper_eq_cmpK cs false (h a ha) (h b hb)]; rfl
  have hmap := groupLoop_map (cmpHelper cs false) cmpK (kk cs) (attrOr m name dflt) (fun v => InRange v)
    (fun a b ha hb => by rw [cmpHelper_eq_cmpK cs false ha hb]; rfl) S none [] hS (by simp)
  simp only [Option.map_none] at hmap
  have hG : G = groupLoop (cmpHelper cs false) (attrOr m name dflt) S none [] := rfl
  have hflat : G.flatMap (·.2) = S := by
    rw [hG]; simpa using groupLoop_flatten (cmpHelper cs false) (attrOr m name dflt) S none [] (by simp)
  have hgm : ∀ p ∈ G, ∃ y ∈ p.2, p.1 = attrOr m name dflt y := by
    rw [hG]; exact groupLoop_grouper_mem _ _ S none [] (by simp)
  have hmemS : ∀ p ∈ G, ∀ y ∈ p.2, y ∈ S := by
    intro p hp y hy
    rw [← hflat]; exact List.mem_flatMap.mpr ⟨p, hp, hy⟩
  have hgr : ∀ p ∈ G, InRange p.1 := by
    intro p hp
    obtain ⟨y, hy, e⟩ := hgm p hp
    rw [e]; exact hS y (hmemS p hp y hy)
  have hsorted : S.Pairwise (fun a b => cmpK (kk cs (attrOr m name dflt a)) (kk cs (attrOr m name dflt b)) ≠ .gt) := by
    rw [hSeq]
    have := sort_sorted' cmpK (fun x => kk cs (attrOr m name dflt x)) false xs
    simpa [revCmp] using this
  refine ⟨hflat, hSperm, ?_, ?_⟩
  · intro p hp
    have hp' : (kk cs p.1, p.2) ∈ groupLoop cmpK (fun y => kk cs (attrOr m name dflt y)) S none [] := by
      rw [← hmap, ← hG]; exact List.mem_map.mpr ⟨p, hp, rfl⟩
    obtain ⟨h1, h2⟩ := groupLoop_members cmpK (fun y => kk cs (attrOr m name dflt y)) S none [] ⟨by simp, by simp⟩ _ hp'
    refine ⟨h1, ?_⟩
    intro y hy
    rw [cmpHelper_eq_cmpK cs false (hgr p hp) (hS y (hmemS p hp y hy))]
    exact h2 y hy
  · have hinc := (groupLoop_keys_increasing cmpK (fun y => kk cs (attrOr m name dflt y)) S none [] hsorted (by simp)).2
    rw [← hmap, ← hG, List.pairwise_map] at hinc
    rw [List.pairwise_iff_forall_sublist] at hinc ⊢
    intro p q hpq
    have hp : p ∈ G := hpq.subset (by simp)
    have hq : q ∈ G := hpq.subset (by simp)
    rw [cmpHelper_eq_cmpK cs false (hgr p hp) (hgr q hq)]
    exact hinc hpq

/-! ## `in` -/

/-- `x in xs` for a list / tuple / iterable: some item is `==` to `x` -/
theorem contains_seq_iff (m : Mode) (xs : List V) (x : V) :
    (containsV m (.seq xs) x = some true ↔ ∃ y ∈ xs, eqV m y x = true) ∧
    (containsV m (.tuple xs) x = some true ↔ ∃ y ∈ xs, eqV m y x = true) ∧
    (containsV m (.iter xs) x = some true ↔ ∃ y ∈ xs, eqV m y x = true) := by
  simp [containsV, List.any_eq_true]

theorem getB_isSome_iff (x : V) : ∀ ps : List (V × V), (getB x ps).isSome = true ↔ ∃ p ∈ ps, cmpV x p.1 = .eq
  | [] => by simp [getB]
  | (k', v') :: ps => by
    rw [getB]
    by_cases h : cmpV x k' = .eq
    · rw [if_pos h]; simp only [Option.isSome_some, List.mem_cons, true_iff]
      exact ⟨(k', v'), Or.inl rfl, h⟩
    · rw [if_neg h, getB_isSome_iff x ps]
      constructor
      · intro ⟨p, hp, he⟩; exact ⟨p, List.mem_cons_of_mem _ hp, he⟩
      · intro ⟨p, hp, he⟩
        rcases List.mem_cons.mp hp with rfl | hp
        · exact absurd he h
        · exact ⟨p, hp, he⟩

/-- `x in m` for a `BTreeMap`-backed map: some key compares `Equal` to `x` … -/
theorem contains_map_iff_cmp (ps : List (V × V)) (x : V) :
    containsV .btree (.map ps) x = some true ↔ ∃ p ∈ ps, cmpV x p.1 = .eq := by
  simp only [containsV, getV, Option.some.injEq]
  exact getB_isSome_iff x ps

/-- … which is "some key is `==` to `x`" outside the excluded regions (NaN, bool facing number) -/
theorem contains_map_iff_eq (ps : List (V × V)) (x : V)
    (hx : AllNum NumOK x) (hps : ∀ p ∈ ps, AllNum NumOK p.1)
    (sx : allV mapSorted x = true) (sps : ∀ p ∈ ps, allV mapSorted p.1 = true)
    (hc : ∀ p ∈ ps, noClash x p.1 = true) :
    containsV .btree (.map ps) x = some true ↔ ∃ p ∈ ps, eqV .btree p.1 x = true := by
  rw [contains_map_iff_cmp]
  have numSpec_ok : NumSpec NumOK := fun a b ha hb => numSpec_wf a b ha.1 hb.1
  constructor
  · intro ⟨p, hp, he⟩
    refine ⟨p, hp, ?_⟩
    have g := eq_main numSpec_ok eqSpec_ok hashSpec_ok _ p.1 x rfl
      ⟨hps p hp, hx, sps p hp, sx, noClash_symm (hc p hp)⟩
    exact g.1.mpr (cmp_symm_eq numSpec_ok hx (hps p hp) he)
  · intro ⟨p, hp, he⟩
    refine ⟨p, hp, ?_⟩
    have g := eq_main numSpec_ok eqSpec_ok hashSpec_ok _ p.1 x rfl
      ⟨hps p hp, hx, sps p hp, sx, noClash_symm (hc p hp)⟩
    exact cmp_symm_eq numSpec_ok (hps p hp) hx (g.1.mp he)

/-! ## select / reject -/

/-- `select` keeps exactly the items passing the test, `reject` the others, both in input order;
    together they are the input -/
theorem select_reject (m : Mode) (attr : Option (List Nat)) (t : Test) (arg : V) (xs : List V) :
    selectV m false attr t arg xs = xs.filter (fun x => testV m t (keyOf m attr x) arg) ∧
    selectV m true attr t arg xs = xs.filter (fun x => !testV m t (keyOf m attr x) arg) ∧
    (selectV m false attr t arg xs ++ selectV m true attr t arg xs).Perm xs ∧
    (selectV m false attr t arg xs).Sublist xs ∧ (selectV m true attr t arg xs).Sublist xs := by
  have e1 : selectV m false attr t arg xs = xs.filter (fun x => testV m t (keyOf m attr x) arg) := by
    unfold selectV; congr 1; funext x; simp
  have e2 : selectV m true attr t arg xs = xs.filter (fun x => !testV m t (keyOf m attr x) arg) := by
    unfold selectV; congr 1; funext x; cases testV m t (keyOf m attr x) arg <;> rfl
  refine ⟨e1, e2, ?_, ?_, ?_⟩
  · rw [e1, e2]; exact List.filter_append_perm _ _
  · rw [e1]; exact List.filter_sublist
  · rw [e2]; exact List.filter_sublist

/-- `selectattr(a, "eq", v)` is the filter by `==`; `"lt"` by `cmp = Less`; `"in"` by containment -/
theorem select_tests (m : Mode) (a b : V) :
    testV m .eq a b = eqV m a b ∧ testV m .ne a b = !eqV m a b ∧
    (testV m .lt a b = true ↔ cmpV a b = .lt) ∧ (testV m .le a b = true ↔ cmpV a b ≠ .gt) ∧
    (testV m .gt a b = true ↔ cmpV a b = .gt) ∧ (testV m .ge a b = true ↔ cmpV a b ≠ .lt) ∧
    (testV m .isIn a b = true ↔ containsV m b a = some true) := by
  refine ⟨rfl, rfl, ?_, ?_, ?_, ?_, ?_⟩ <;> simp only [testV]
  · cases cmpV a b <;> simp
  · cases cmpV a b <;> simp
  · cases cmpV a b <;> simp
  · cases cmpV a b <;> simp
  · cases containsV m b a with
    | none => simp
    | some v => cases v <;> simp

/-! ## map literals -/

/-- a map literal: the last value given for a key is the one looked up (`BTreeMap::insert`) -/
theorem insertLit_lookup (k v : V) (hk : cmpV k k = .eq) : ∀ ps : List (V × V), getB k (insertLit k v ps) = some v
  | [] => by simp [insertLit, insertB, getB, hk]
  | (k', v') :: ps => by
    unfold insertLit insertB
    split
    · simp [getB, hk]
    · rename_i he; simp [getB, he]
    · rename_i hg
      rw [getB, if_neg (by rw [hg]; decide)]
      exact insertLit_lookup k v hk ps

theorem insertLit_sorted (k v : V) (hk : InRange k) (ps : List (V × V))
    (hr : ∀ p ∈ ps, InRange p.1) (hs : KeysSorted ps) : KeysSorted (insertLit k v ps) :=
  insertB_sorted k v hk ps hr hs

/-! ## min / max -/

theorem foldl_congr_mem {α : Type} (f g : α → α → α) (hsel : ∀ a b, f a b = a ∨ f a b = b) :
    ∀ (xs : List α) (a : α) (S : α → Prop), S a → (∀ x ∈ xs, S x) → (∀ a b, S a → S b → f a b = g a b) →
    xs.foldl f a = xs.foldl g a
  | [], _, _, _, _, _ => rfl
  | x :: xs, a, S, ha, hx, hfg => by
    simp only [List.foldl_cons]
    rw [← hfg a x ha (hx x List.mem_cons_self)]
    apply foldl_congr_mem f g hsel xs (f a x) S _ (fun y hy => hx y (List.mem_cons_of_mem _ hy)) hfg
    rcases hsel a x with h | h <;> rw [h]
    · exact ha
    · exact hx x List.mem_cons_self

/-- `min` / `max` of values within range: a member that no other item is below / above -/
theorem minmaxV_spec (xs : List V) (h : ∀ x ∈ xs, InRange x) (r : V) :
    (Coll.minBy cmpV xs = some r → r ∈ xs ∧ ∀ x ∈ xs, cmpV r x ≠ .gt) ∧
    (Coll.maxBy cmpV xs = some r → r ∈ xs ∧ ∀ x ∈ xs, cmpV r x ≠ .lt) := by
  let c : V → V → Ordering := fun a b => cmpK (key a) (key b)
  have hc : ∀ a b, InRange a → InRange b → cmpV a b = c a b :=
    fun a b ha hb => cmpV_eq_cmpK numSpec_wf a b ha hb
  cases xs with
  | nil => simp [Coll.minBy, Coll.maxBy]
  | cons y ys =>
    have hy : InRange y := h y List.mem_cons_self
    have hys : ∀ x ∈ ys, InRange x := fun x hx => h x (List.mem_cons_of_mem _ hx)
    constructor
    · intro hm
      simp only [Coll.minBy, Option.some.injEq] at hm
      rw [foldl_congr_mem _ (fun m y => if c m y == .gt then y else m)
        (by intro a b; by_cases hh : (cmpV a b == .gt) = true <;> simp [hh]) ys y (fun v => InRange v) hy hys
        (by intro a b ha hb; show (if cmpV a b == .gt then _ else _) = _; rw [hc a b ha hb])] at hm
      obtain ⟨h1, h2, h3⟩ := foldl_min_le ys c y
      rw [hm] at h1 h2 h3
      have hr : r ∈ y :: ys := by
        rcases h3 with h3 | h3
        · rw [h3]; exact List.mem_cons_self
        · exact List.mem_cons_of_mem _ h3
      refine ⟨hr, ?_⟩
      intro x hx
      rw [hc r x (h r hr) (h x hx)]
      rcases List.mem_cons.mp hx with rfl | hx
      · exact Ordering.ne_gt_iff_isLE.mpr h1
      · exact Ordering.ne_gt_iff_isLE.mpr (h2 x hx)
    · intro hm
      simp only [Coll.maxBy, Option.some.injEq] at hm
      rw [foldl_congr_mem _ (fun m y => if c m y == .gt then m else y)
        (by intro a b; by_cases hh : (cmpV a b == .gt) = true <;> simp [hh]) ys y (fun v => InRange v) hy hys
        (by intro a b ha hb; show (if cmpV a b == .gt then _ else _) = _; rw [hc a b ha hb])] at hm
      obtain ⟨h1, h2, h3⟩ := foldl_max_ge ys c y
      rw [hm] at h1 h2 h3
      have hr : r ∈ y :: ys := by
        rcases h3 with h3 | h3
        · rw [h3]; exact List.mem_cons_self
        · exact List.mem_cons_of_mem _ h3
      refine ⟨hr, ?_⟩
      intro x hx
      rw [hc r x (h r hr) (h x hx)]
      rcases List.mem_cons.mp hx with rfl | hx
      · intro hlt; rw [hlt] at h1; exact absurd h1 (by decide)
      · intro hlt; have := h2 x hx; rw [hlt] at this; exact absurd this (by decide)

end MJ.CollV
