import MJ.Proofs.SafeInv
/-! C02: the complete table of registered callables (`Gen.c02Callables`, regenerated from the sources
with the signature and body facts of each).  One lemma `<name>_preserves_inv` per callable that can
construct a `Safe` string, and the decidable row checks behind `all_safe_producers_modelled`. -/
namespace MJ.Safe

/-! ### `<name>_preserves_inv` for every callable that can construct a `Safe` string -/
theorem escape_preserves_inv : InvPreserving (escapeF .html) := escapeF_inv
theorem upper_preserves_inv : InvPreserving (preserveF (mapChars upperC)) := preserveF_inv (reflects_mapChars upperC_reflecting)
theorem lower_preserves_inv : InvPreserving (preserveF (mapChars lowerC)) := preserveF_inv (reflects_mapChars lowerC_reflecting)
theorem capitalize_preserves_inv : InvPreserving (preserveF capitalizeStr) := preserveF_inv reflects_capitalize
theorem trim_preserves_inv : InvPreserving trimF := trimF_inv
theorem indent_preserves_inv (w : Nat) (first blank : Bool) : InvPreserving (preserveF (fun s => indentStr s w first blank)) :=
  preserveF_inv (reflects_indent _ _ _)
theorem replace_preserves_inv : InvPreserving (replaceF .html) := replaceF_inv
theorem reverse_preserves_inv : InvPreserving reverseF := reverseF_inv
theorem join_preserves_inv : InvPreserving (joinF .html) := joinF_inv
theorem split_preserves_inv (left : Nat) : InvPreserving (splitF left) := splitF_inv left
theorem lines_preserves_inv : InvPreserving (piecesF linesOf) := piecesF_inv subPieces_lines
theorem last_preserves_inv : InvPreserving lastF := lastF_inv
theorem format_preserves_inv : InvPreserving (formatF .html) := formatF_inv
theorem truncate_preserves_inv (length leeway : Nat) (kw : Bool) : InvPreserving (truncateF .html length leeway kw) :=
  truncateF_inv _ _ _
theorem random_preserves_inv (k : Nat) : InvPreserving (randomF k) := randomF_inv k
theorem lipsum_preserves_inv (html : Bool) (cps : List Nat) : InvPreserving (lipsumF html cps) := lipsumF_inv html cps
theorem str_capitalize_preserves_inv : InvPreserving (preserveF capitalizeStr) := capitalize_preserves_inv
theorem str_split_preserves_inv (left : Nat) : InvPreserving (splitF left) := splitF_inv left

/-! ### row checks -/

/-- the model named `ln` exists, and it is part of the fragment unless the callable is classed `markup` -/
def modelRowOk (cname ln : String) : Bool :=
  match lookupBase ln .html [] with
  | some (_, ok) => ok || classOf cname == some .markup
  | Option.none => false

/-- a callable that can construct a `Safe` string has an exact model -/
def producerRowOk (c : Gen.C02Callable) : Bool :=
  !canProduceSafe c ||
    match producerModel c.kind c.name with
    | some ln => modelRowOk c.name ln
    | Option.none => false

def nonProducerClasses : List Class := [.normal, .forward, .select, .mapped, .modelled]

/-- a callable that cannot construct a `Safe` string: tests return booleans; a scalar return type
    forces class normal (or an exact model); a `Value` return type allows the forwarding classes; a
    callable that dispatches dynamically (`apply_filter`, `perform_test`, `call`) is not `normal` unless
    its return type is scalar -/
def nonProducerRowOk (c : Gen.C02Callable) : Bool :=
  canProduceSafe c ||
    (if c.kind == "test" then retScalar c.ret
     else
       (retScalar c.ret || retValue c.ret) &&
       (match classOf c.name with
        | some cl => nonProducerClasses.contains cl && (!retScalar c.ret || cl == .normal || cl == .modelled)
            && (!(c.dyn && retValue c.ret) || cl != .normal)
        | Option.none => false))

/-- every program point that marks a string lies in a primitive or in the body of a registered callable -/
def siteRowOk (s : String × String × String × Nat) : Bool :=
  corePrimitiveSites.contains (s.1, s.2.1) ||
    Gen.c02Callables.any fun c => c.file == s.1 && (c.fn == s.2.1 || c.nested.contains s.2.1)

theorem producerRows_ok : Gen.c02Callables.all producerRowOk = true := by decide +kernel
theorem nonProducerRows_ok : Gen.c02Callables.all nonProducerRowOk = true := by decide +kernel
theorem siteRows_ok : Gen.c02ProducerSiteRows.all siteRowOk = true := by decide +kernel

end MJ.Safe
