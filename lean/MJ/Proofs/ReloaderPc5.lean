import MJ.Proofs.ReloaderInv
/-! `Inv` is preserved by the mutex holder's steps, part 5 of 5 (split for parallel builds) -/
namespace MJ.Reloader
variable {σ σ' : State} {c : Active}

theorem inv_pc_failed (h : Inv σ) (hc : σ.cur = some c) (hpc : c.pc = .failed)
    (hs : stepActive σ c = some σ') : Inv σ' := by inv_pc_tac
theorem inv_pc_remarked (h : Inv σ) (hc : σ.cur = some c) (hpc : c.pc = .remarked)
    (hs : stepActive σ c = some σ') : Inv σ' := by inv_pc_tac
theorem inv_pc_holding (h : Inv σ) (hc : σ.cur = some c) (hpc : c.pc = .holding)
    (hs : stepActive σ c = some σ') : Inv σ' := by inv_pc_tac

end MJ.Reloader
