import MJ.Model.UndefVm
/-!
# Helper lemmas for C12: questions to the undefined behaviour are monotone, hence every `Comp` is
-/
namespace MJ.Undef

/-- a mode-indexed check only adds errors with strictness -/
abbrev ChkMono (f : Mode → Except Err Unit) : Prop :=
  ∀ m m', m' ≤ m → f m = .ok () → f m' = .ok ()

/-- all table-interpreted helpers only add errors with strictness (finite check over the rows
    regenerated from utils.rs / vm/mod.rs / environment.rs) -/
theorem helperMono :
    (∀ p, ChkMono (handleUndefined · p)) ∧ (∀ k, ChkMono (isTrueChk · k)) ∧
    (∀ k, ChkMono (assertIterable · k)) ∧ (∀ k, ChkMono (tryIterChk · k)) ∧
    (∀ k, ChkMono (assertNotUndef · k)) ∧ (∀ k, ChkMono (emitChk · k)) ∧
    (∀ k m m' b, m' ≤ m → envFormat m k = .ok b → envFormat m' k = .ok b) ∧ (∀ k, ChkMono (sliceChk · k)) := by
  refine ⟨?_, ?_, ?_, ?_, ?_, ?_, ?_, ?_⟩
  · intro p m m'; cases m <;> cases m' <;> cases p <;> decide
  case refine_7 => intro k m m' b; cases m <;> cases m' <;> cases k <;> cases b <;> decide
  all_goals (intro k m m'; cases m <;> cases m' <;> cases k <;> decide)

/-- an answer under `m` is the same answer under every weaker `m'` -/
theorem HQ.run_mono (q : HQ) (m m' : Mode) (b : Bool) (h : m' ≤ m) : q.run m = .ok b → q.run m' = .ok b := by
  cases q with
  | handleUndefined p => cases m <;> cases m' <;> cases p <;> cases b <;> revert h <;> decide
  | isTrue k => cases m <;> cases m' <;> cases k <;> cases b <;> revert h <;> decide
  | assertIterable k => cases m <;> cases m' <;> cases k <;> cases b <;> revert h <;> decide
  | tryIter k => cases m <;> cases m' <;> cases k <;> cases b <;> revert h <;> decide
  | assertNotUndef k => cases m <;> cases m' <;> cases k <;> cases b <;> revert h <;> decide
  | emit k => cases m <;> cases m' <;> cases k <;> cases b <;> revert h <;> decide
  | envFormat k => cases m <;> cases m' <;> cases k <;> cases b <;> revert h <;> decide
  | slice k => cases m <;> cases m' <;> cases k <;> cases b <;> revert h <;> decide

/-- two modes that both answer give the same answer (the payload does not depend on the mode) -/
theorem HQ.run_agree (q : HQ) (m m' : Mode) (b b' : Bool) : q.run m = .ok b → q.run m' = .ok b' → b = b' := by
  cases q with
  | handleUndefined p => cases m <;> cases m' <;> cases p <;> cases b <;> cases b' <;> decide
  | isTrue k => cases m <;> cases m' <;> cases k <;> cases b <;> cases b' <;> decide
  | assertIterable k => cases m <;> cases m' <;> cases k <;> cases b <;> cases b' <;> decide
  | tryIter k => cases m <;> cases m' <;> cases k <;> cases b <;> cases b' <;> decide
  | assertNotUndef k => cases m <;> cases m' <;> cases k <;> cases b <;> cases b' <;> decide
  | emit k => cases m <;> cases m' <;> cases k <;> cases b <;> cases b' <;> decide
  | envFormat k => cases m <;> cases m' <;> cases k <;> cases b <;> cases b' <;> decide
  | slice k => cases m <;> cases m' <;> cases k <;> cases b <;> cases b' <;> decide

theorem HQ.run_cases (q : HQ) (m : Mode) :
    q.run m = .error .undefinedError ∨ q.run m = .ok true ∨ q.run m = .ok false := by
  cases q with
  | handleUndefined p => cases m <;> cases p <;> decide
  | isTrue k => cases m <;> cases k <;> decide
  | assertIterable k => cases m <;> cases k <;> decide
  | tryIter k => cases m <;> cases k <;> decide
  | assertNotUndef k => cases m <;> cases k <;> decide
  | emit k => cases m <;> cases k <;> decide
  | envFormat k => cases m <;> cases k <;> decide
  | slice k => cases m <;> cases k <;> decide

/-- the only error a question can answer with is `UndefinedError` -/
theorem HQ.run_err (q : HQ) (m : Mode) (e : Err) : q.run m = .error e → e = .undefinedError := by
  intro h
  rcases HQ.run_cases q m with h' | h' | h' <;> rw [h'] at h <;> cases h
  rfl

namespace Comp

theorem run_bind {α β : Type} (c : Comp α) (f : α → Comp β) (m : Mode) :
    (c.bind f).run m = match c.run m with
      | .error e => .error e
      | .ok a => (f a).run m := by
  induction c with
  | pure a => rfl
  | fail e => rfl
  | ask q g k ih =>
    simp only [Comp.bind, Comp.run]
    cases hq : q.run m with
    | error e => rfl
    | ok b => simp [ih b]

theorem run_ofExcept {α : Type} (x : Except Err α) (m : Mode) : (Comp.ofExcept x).run m = x := by
  cases x <;> rfl

/-- **every computation that consults the mode only by asking is monotone**: a success under `m`
    is the same success under every weaker `m'` -/
theorem run_mono {α : Type} (c : Comp α) (m m' : Mode) (h : m' ≤ m) (a : α) :
    c.run m = .ok a → c.run m' = .ok a := by
  induction c with
  | pure x => exact fun hx => hx
  | fail e => exact fun hx => hx
  | ask q g k ih =>
    intro hx
    simp only [Comp.run] at hx ⊢
    cases hq : q.run m with
    | error e => simp [hq] at hx
    | ok b =>
      rw [HQ.run_mono q m m' b h hq]
      simp only [hq] at hx
      exact ih b hx

/-- two modes under which the computation succeeds give the same result (whatever their order) -/
theorem run_agree {α : Type} (c : Comp α) (m m' : Mode) (a a' : α) :
    c.run m = .ok a → c.run m' = .ok a' → a = a' := by
  induction c with
  | pure x => intro h h'; cases h; cases h'; rfl
  | fail e => intro h; cases h
  | ask q g k ih =>
    intro hx hx'
    simp only [Comp.run] at hx hx'
    cases hq : q.run m with
    | error e => simp [hq] at hx
    | ok b =>
      cases hq' : q.run m' with
      | error e => simp [hq'] at hx'
      | ok b' =>
        have hb := HQ.run_agree q m m' b b' hq hq'
        subst hb
        simp only [hq] at hx
        simp only [hq'] at hx'
        exact ih b hx hx'

/-- a mode under which the computation fails although it succeeds under another one fails with
    the error of one of its questions: an `UndefinedError` raised by a helper, as the question
    reports it -/
theorem run_err_of_ok {α : Type} (c : Comp α) (m m' : Mode) (e : Err) (a : α) :
    c.run m = .error e → c.run m' = .ok a → c.AskErr e := by
  induction c with
  | pure x => intro h; cases h
  | fail e' => intro _ h'; cases h'
  | ask q g k ih =>
    intro hx hx'
    simp only [Comp.run] at hx hx'
    cases hq : q.run m with
    | error e' =>
      simp only [hq] at hx
      cases hx
      have := HQ.run_err q m e' hq
      subst this
      exact Or.inl rfl
    | ok b =>
      cases hq' : q.run m' with
      | error e' => simp [hq'] at hx'
      | ok b' =>
        have hb := HQ.run_agree q m m' b b' hq hq'
        subst hb
        simp only [hq] at hx
        simp only [hq'] at hx'
        exact Or.inr ⟨b, ih b hx hx'⟩

/-- when no question rewrites its error, that error is `UndefinedError` -/
theorem askErr_of_plain {α : Type} (c : Comp α) (hp : c.PlainAsks) (e : Err) : c.AskErr e → e = .undefinedError := by
  induction c with
  | pure x => intro h; cases h
  | fail e' => intro h; cases h
  | ask q g k ih =>
    intro h
    obtain ⟨hg, hk⟩ := hp
    rcases h with h | ⟨b, h⟩
    · subst hg; exact h
    · exact ih b (hk b) h

/-- the modes in which a computation fails at one of its questions form an upward closed set: if
    it does under `m'` it does under every stricter `m` -/
theorem failsAtAsk_mono {α : Type} (c : Comp α) (m m' : Mode) (h : m' ≤ m) :
    c.failsAtAsk m' = true → c.failsAtAsk m = true := by
  induction c with
  | pure x => exact fun hx => hx
  | fail e => exact fun hx => hx
  | ask q g k ih =>
    intro hx
    simp only [Comp.failsAtAsk] at hx ⊢
    cases hq : q.run m with
    | error e => rfl
    | ok b =>
      rw [HQ.run_mono q m m' b h hq] at hx
      simpa using ih b hx

/-- failing at a question is failing -/
theorem run_of_failsAtAsk {α : Type} (c : Comp α) (m : Mode) :
    c.failsAtAsk m = true → ∃ e, c.run m = .error e := by
  induction c with
  | pure x => intro h; cases h
  | fail e => intro h; cases h
  | ask q g k ih =>
    intro hx
    simp only [Comp.failsAtAsk, Comp.run] at hx ⊢
    cases hq : q.run m with
    | error e => exact ⟨g e, rfl⟩
    | ok b => simp only [hq] at hx; exact ih b hx

/-- a computation that asks nothing does not depend on the mode -/
theorem run_of_isPure {α : Type} (c : Comp α) (h : c.isPure = true) (m m' : Mode) : c.run m = c.run m' := by
  cases c with
  | pure a => rfl
  | fail e => rfl
  | ask q g k => simp [Comp.isPure] at h

theorem run_mapErr_ok {α : Type} (c : Comp α) (f : Err → Err) (m : Mode) (a : α) :
    (c.mapErr f).run m = .ok a ↔ c.run m = .ok a := by
  induction c with
  | pure x => exact Iff.rfl
  | fail e => simp [Comp.mapErr, Comp.run]
  | ask q g k ih =>
    simp only [Comp.mapErr, Comp.run]
    cases hq : q.run m with
    | error e => simp
    | ok b => simpa using ih b

end Comp

end MJ.Undef
