import MJ.Model.UndefVm
/-!
# Helper lemmas for C12: questions to the undefined behaviour are monotone, hence every `Comp` is
-/
namespace MJ.Undef

/-- a mode-indexed check only adds errors with strictness -/
abbrev ChkMono (f : Mode → Except Err Unit) : Prop :=
  ∀ m m', m' ≤ m → f m = .ok () → f m' = .ok ()

/-- all table-interpreted helpers only add errors with strictness (finite check over the rows
    regenerated from utils.rs / vm/mod.rs / environment.rs) -/
theorem helperMono :
    (∀ p, ChkMono (handleUndefined · p)) ∧ (∀ k, ChkMono (isTrueChk · k)) ∧
    (∀ k, ChkMono (assertIterable · k)) ∧ (∀ k, ChkMono (tryIterChk · k)) ∧
    (∀ k, ChkMono (assertNotUndef · k)) ∧ (∀ k, ChkMono (emitChk · k)) ∧
    (∀ k m m' b, m' ≤ m → envFormat m k = .ok b → envFormat m' k = .ok b) ∧ (∀ k, ChkMono (sliceChk · k)) := by
  refine ⟨?_, ?_, ?_, ?_, ?_, ?_, ?_, ?_⟩
  · intro p m m'; cases m <;> cases m' <;> cases p <;> decide
  case refine_7 => intro k m m' b; cases m <;> cases m' <;> cases k <;> cases b <;> decide
  all_goals (intro k m m'; cases m <;> cases m' <;> cases k <;> decide)

/-- an answer under `m` is the same answer under every weaker `m'` -/
theorem HQ.run_mono (q : HQ) (m m' : Mode) (b : Bool) (h : m' ≤ m) : q.run m = .ok b → q.run m' = .ok b := by
  cases q with
  | handleUndefined p => cases m <;> cases m' <;> cases p <;> cases b <;> revert h <;> decide
  | isTrue k => cases m <;> cases m' <;> cases k <;> cases b <;> revert h <;> decide
  | assertIterable k => cases m <;> cases m' <;> cases k <;> cases b <;> revert h <;> decide
  | tryIter k => cases m <;> cases m' <;> cases k <;> cases b <;> revert h <;> decide
  | assertNotUndef k => cases m <;> cases m' <;> cases k <;> cases b <;> revert h <;> decide
  | emit k => cases m <;> cases m' <;> cases k <;> cases b <;> revert h <;> decide
  | envFormat k => cases m <;> cases m' <;> cases k <;> cases b <;> revert h <;> decide
  | slice k => cases m <;> cases m' <;> cases k <;> cases b <;> revert h <;> decide

/-- two modes that both answer give the same answer (the payload does not depend on the mode) -/
theorem HQ.run_agree (q : HQ) (m m' : Mode) (b b' : Bool) : q.run m = .ok b → q.run m' = .ok b' → b = b' := by
  cases q with
  | handleUndefined p => cases m <;> cases m' <;> cases p <;> cases b <;> cases b' <;> decide
  | isTrue k => cases m <;> cases m' <;> cases k <;> cases b <;> cases b' <;> decide
  | assertIterable k => cases m <;> cases m' <;> cases k <;> cases b <;> cases b' <;> decide
  | tryIter k => cases m <;> cases m' <;> cases k <;> cases b <;> cases b' <;> decide
  | assertNotUndef k => cases m <;> cases m' <;> cases k <;> cases b <;> cases b' <;> decide
  | emit k => cases m <;> cases m' <;> cases k <;> cases b <;> cases b' <;> decide
  | envFormat k => cases m <;> cases m' <;> cases k <;> cases b <;> cases b' <;> decide
  | slice k => cases m <;> cases m' <;> cases k <;> cases b <;> cases b' <;> decide

theorem HQ.run_cases (q : HQ) (m : Mode) :
    q.run m = .error .undefinedError ∨ q.run m = .ok true ∨ q.run m = .ok false := by
  cases q with
  | handleUndefined p => cases m <;> cases p <;> decide
  | isTrue k => cases m <;> cases k <;> decide
  | assertIterable k => cases m <;> cases k <;> decide
  | tryIter k => cases m <;> cases k <;> decide
  | assertNotUndef k => cases m <;> cases k <;> decide
  | emit k => cases m <;> cases k <;> decide
  | envFormat k => cases m <;> cases k <;> decide
  | slice k => cases m <;> cases k <;> decide

/-- the only error a question can answer with is `UndefinedError` -/
theorem HQ.run_err (q : HQ) (m : Mode) (e : Err) : q.run m = .error e → e = .undefinedError := by
  intro h
  rcases HQ.run_cases q m with h' | h' | h' <;> rw [h'] at h <;> cases h
  rfl

namespace Comp

theorem run_bind {α β : Type} (c : Comp α) (f : α → Comp β) (m : Mode) :
    (c.bind f).run m = match c.run m with
      | .error e => .error e
      | .ok a => (f a).run m := by
  induction c with
  | pure a => rfl
  | fail e => rfl
  | ask q g k ih =>
    simp only [Comp.bind, Comp.run]
    cases hq : q.run m with
    | error e => rfl
    | ok b => simp [ih b]

theorem run_ofExcept {α : Type} (x : Except Err α) (m : Mode) : (Comp.ofExcept x).run m = x := by
  cases x <;> rfl

/-- **every computation that consults the mode only by asking is monotone**: a success under `m`
    is the same success under every weaker `m'` -/
theorem run_mono {α : Type} (c : Comp α) (m m' : Mode) (h : m' ≤ m) (a : α) :
    c.run m = .ok a → c.run m' = .ok a := by
  induction c with
  | pure x => exact fun hx => hx
  | fail e => exact fun hx => hx
  | ask q g k ih =>
    intro hx
    simp only [Comp.run] at hx ⊢
    cases hq : q.run m with
    | error e => simp [hq] at hx
    | ok b =>
      rw [HQ.run_mono q m m' b h hq]
      simp only [hq] at hx
      exact ih b hx

/-- two modes under which the computation succeeds give the same result (whatever their order) -/
theorem run_agree {α : Type} (c : Comp α) (m m' : Mode) (a a' : α) :
    c.run m = .ok a → c.run m' = .ok a' → a = a' := by
  induction c with
  | pure x => intro h h'; cases h; cases h'; rfl
  | fail e => intro h; cases h
  | ask q g k ih =>
    intro hx hx'
    simp only [Comp.run] at hx hx'
    cases hq : q.run m with
    | error e => simp [hq] at hx
    | ok b =>
      cases hq' : q.run m' with
      | error e => simp [hq'] at hx'
      | ok b' =>
        have hb := HQ.run_agree q m m' b b' hq hq'
        subst hb
        simp only [hq] at hx
        simp only [hq'] at hx'
        exact ih b hx hx'

/-- a mode under which the computation fails although it succeeds under another one fails with
    the error of one of its questions: an `UndefinedError` raised by a helper, as the question
    reports it -/
theorem run_err_of_ok {α : Type} (c : Comp α) (m m' : Mode) (e : Err) (a : α) :
    c.run m = .error e → c.run m' = .ok a → c.AskErr e := by
  induction c with
  | pure x => intro h; cases h
  | fail e' => intro _ h'; cases h'
  | ask q g k ih =>
    intro hx hx'
    simp only [Comp.run] at hx hx'
    cases hq : q.run m with
    | error e' =>
      simp only [hq] at hx
      cases hx
      have := HQ.run_err q m e' hq
      subst this
      exact Or.inl rfl
    | ok b =>
      cases hq' : q.run m' with
      | error e' => simp [hq'] at hx'
      | ok b' =>
        have hb := HQ.run_agree q m m' b b' hq hq'
        subst hb
        simp only [hq] at hx
        simp only [hq'] at hx'
        exact Or.inr ⟨b, ih b hx hx'⟩

/-- when no question rewrites its error, that error is `UndefinedError` -/
theorem askErr_of_plain {α : Type} (c : Comp α) (hp : c.PlainAsks) (e : Err) : c.AskErr e → e = .undefinedError := by
  induction c with
  | pure x => intro h; cases h
  | fail e' => intro h; cases h
  | ask q g k ih =>
    intro h
    obtain ⟨hg, hk⟩ := hp
    rcases h with h | ⟨b, h⟩
    · subst hg; exact h
    · exact ih b (hk b) h

/-- the modes in which a computation fails at one of its questions form an upward closed set: if
    it does under `m'` it does under every stricter `m` -/
theorem failsAtAsk_mono {α : Type} (c : Comp α) (m m' : Mode) (h : m' ≤ m) :
    c.failsAtAsk m' = true → c.failsAtAsk m = true := by
  induction c with
  | pure x => exact fun hx => hx
  | fail e => exact fun hx => hx
  | ask q g k ih =>
    intro hx
    simp only [Comp.failsAtAsk] at hx ⊢
    cases hq : q.run m with
    | error e => rfl
    | ok b =>
      rw [HQ.run_mono q m m' b h hq] at hx
      simpa using ih b hx

/-- failing at a question is failing -/
theorem run_of_failsAtAsk {α : Type} (c : Comp α) (m : Mode) :
    c.failsAtAsk m = true → ∃ e, c.run m = .error e := by
  induction c with
  | pure x => intro h; cases h
  | fail e => intro h; cases h
  | ask q g k ih =>
    intro hx
    simp only [Comp.failsAtAsk, Comp.run] at hx ⊢
    cases hq : q.run m with
    | error e => exact ⟨g e, rfl⟩
    | ok b => simp only [hq] at hx; exact ih b hx

/-- a computation that asks nothing does not depend on the mode -/
theorem run_of_isPure {α : Type} (c : Comp α) (h : c.isPure = true) (m m' : Mode) : c.run m = c.run m' := by
  cases c with
  | pure a => rfl
  | fail e => rfl
  | ask q g k => simp [Comp.isPure] at h

theorem run_mapErr_ok {α : Type} (c : Comp α) (f : Err → Err) (m : Mode) (a : α) :
    (c.mapErr f).run m = .ok a ↔ c.run m = .ok a := by
  induction c with
  | pure x => exact Iff.rfl
  | fail e => simp [Comp.mapErr, Comp.run]
  | ask q g k ih =>
    simp only [Comp.mapErr, Comp.run]
    cases hq : q.run m with
    | error e => simp
    | ok b => simpa using ih b

end Comp

/-! ## what a computation can ask; the argument conversion layer asks `assert_value_not_undefined` only -/

namespace Comp
/-- every question the computation can ask satisfies `p` -/
def AllAsks {α : Type} (p : HQ → Prop) : Comp α → Prop
  | .pure _ => True
  | .fail _ => True
  | .ask q _ k => p q ∧ ∀ b, AllAsks p (k b)

theorem allAsks_bind {α β : Type} (p : HQ → Prop) (c : Comp α) (f : α → Comp β)
    (hc : c.AllAsks p) (hf : ∀ a, (f a).AllAsks p) : (c.bind f).AllAsks p := by
  induction c with
  | pure a => exact hf a
  | fail e => trivial
  | ask q g k ih => exact ⟨hc.1, fun b => ih b (hc.2 b)⟩

theorem allAsks_ofExcept {α : Type} (p : HQ → Prop) (x : Except Err α) : (Comp.ofExcept x).AllAsks p := by
  cases x <;> trivial

theorem allAsks_chks (p : HQ → Prop) (qs : List HQ) (h : ∀ q ∈ qs, p q) : (Comp.chks qs).AllAsks p := by
  induction qs with
  | nil => trivial
  | cons q r ih => exact ⟨h q (by simp), fun _ => ih (fun q' hq' => h q' (by simp [hq']))⟩

/-- two modes that answer every question of the computation alike run it alike -/
theorem run_congr {α : Type} (c : Comp α) (m m' : Mode) (h : c.AllAsks (fun q => q.run m = q.run m')) :
    c.run m = c.run m' ∧ c.failsAtAsk m = c.failsAtAsk m' := by
  induction c with
  | pure a => exact ⟨rfl, rfl⟩
  | fail e => exact ⟨rfl, rfl⟩
  | ask q g k ih =>
    simp only [Comp.run, Comp.failsAtAsk, ← h.1]
    cases hq : q.run m with
    | error e => exact ⟨rfl, rfl⟩
    | ok b => exact ih b (h.2 b)

/-- a mode under which no question of the computation fails does not fail at a question -/
theorem not_failsAtAsk {α : Type} (c : Comp α) (m : Mode) (h : c.AllAsks (fun q => ∃ b, q.run m = .ok b)) :
    c.failsAtAsk m = false := by
  induction c with
  | pure a => rfl
  | fail e => rfl
  | ask q g k ih =>
    obtain ⟨⟨b, hb⟩, hk⟩ := h
    simp only [Comp.failsAtAsk, hb]
    exact ih b (hk b)

theorem allAsks_mono {α : Type} (p p' : HQ → Prop) (hp : ∀ q, p q → p' q) (c : Comp α) : c.AllAsks p → c.AllAsks p' := by
  induction c with
  | pure a => exact fun _ => trivial
  | fail e => exact fun _ => trivial
  | ask q g k ih => exact fun h => ⟨hp q h.1, fun b => ih b (h.2 b)⟩
end Comp

def isAssertNotUndef : HQ → Prop
  | .assertNotUndef _ => True
  | _ => False

theorem asksOwned_assert (t : ArgTy) (v : V) : ∀ q ∈ t.asksOwned v, isAssertNotUndef q := by
  intro q hq
  cases t <;> simp [ArgTy.asksOwned] at hq
  obtain ⟨_, rfl⟩ := hq
  trivial

theorem asks_assert (t : ArgTy) : ∀ (v : V), ∀ q ∈ t.asks v, isAssertNotUndef q := by
  induction t with
  | base n =>
    intro v q hq
    simp only [ArgTy.asks] at hq
    split at hq <;> simp at hq
    subst hq; trivial
  | opt t ih =>
    intro v q hq
    simp only [ArgTy.asks] at hq
    split at hq
    · split at hq <;> first | (simp at hq) | exact ih _ q hq
    · simp at hq
  | rest t ih =>
    intro v q hq
    simp only [ArgTy.asks] at hq
    split at hq
    · exact ih _ q hq
    · simp at hq
  | vec t ih =>
    intro v q hq
    simp only [ArgTy.asks] at hq
    split at hq
    · split at hq
      · obtain ⟨x, _, hx⟩ := List.mem_flatMap.mp hq
        exact asksOwned_assert t x q hx
      · obtain ⟨x, _, hx⟩ := List.mem_flatMap.mp hq
        exact asksOwned_assert t x q hx
      · simp at hq
    · simp at hq

theorem convRest_assert (ops : Ops) (name : String) (t : ArgTy) (args : List V) :
    (convRest ops name t args).AllAsks isAssertNotUndef := by
  induction args with
  | nil => trivial
  | cons v r ih =>
    simp only [convRest]
    exact Comp.allAsks_bind _ _ _ (Comp.allAsks_chks _ _ (asks_assert _ v))
      (fun _ => Comp.allAsks_bind _ _ _ (Comp.allAsks_ofExcept _ _) (fun _ => ih))

theorem convArgs_assert (ops : Ops) (sig : List (String × ArgTy)) (args : List V) :
    (convArgs ops sig args).AllAsks isAssertNotUndef := by
  fun_induction convArgs ops sig args with
  | case1 => trivial
  | case2 => trivial
  | case3 name t rest args => exact convRest_assert ops name t args
  | case4 _ _ ts ih => exact ih
  | case5 => trivial
  | case6 name t ts v r _ ih =>
    exact Comp.allAsks_bind _ _ _ (Comp.allAsks_chks _ _ (asks_assert _ v))
      (fun _ => Comp.allAsks_bind _ _ _ (Comp.allAsks_ofExcept _ _) (fun _ => ih))

theorem convCall_assert (ops : Ops) (sig : List ArgTy) (args : List V) :
    (convCall ops sig args).AllAsks isAssertNotUndef := by
  unfold convCall
  exact convArgs_assert ops _ _


/-! ## `join_safe` asks `Environment::format` only, `UnpackLists` asks `try_iter` only -/

theorem Comp.allAsks_pure {α : Type} (p : HQ → Prop) (a : α) : (Comp.pure a).AllAsks p := True.intro
theorem Comp.allAsks_fail {α : Type} (p : HQ → Prop) (e : Err) : (Comp.fail e : Comp α).AllAsks p := True.intro

def isEnvFormat : HQ → Prop
  | .envFormat _ => True
  | _ => False

theorem joinSafeC_asks (f : Nat) (sep : String) (xs : List V) : ∀ first, (joinSafeC f sep xs first).AllAsks isEnvFormat := by
  induction xs with
  | nil => intro _; exact Comp.allAsks_pure _ _
  | cons x r ih =>
    intro first
    unfold joinSafeC
    simp only
    split
    · exact Comp.allAsks_bind _ _ _ (ih false) (fun _ => Comp.allAsks_pure _ _)
    · exact ⟨True.intro, fun _ => Comp.allAsks_bind _ _ _ (ih false) (fun _ => Comp.allAsks_pure _ _)⟩

theorem joinAeC_asks (f : Nat) (v : V) (j : Option V) : (joinAeC f v j).AllAsks isEnvFormat := by
  unfold joinAeC
  split
  · exact Comp.allAsks_fail _ _
  · unfold joinAeItems
    split
    · exact Comp.allAsks_bind _ _ _ (joinSafeC_asks _ _ _ _) (fun _ => Comp.allAsks_pure _ _)
    · split
      · exact Comp.allAsks_bind _ _ _ (joinSafeC_asks _ _ _ _) (fun _ => Comp.allAsks_pure _ _)
      · exact Comp.allAsks_pure _ _

theorem unpackListsC_asks (vs : List V) : (unpackListsC vs).AllAsks (fun q => ∃ k, q = .tryIter k) := by
  induction vs with
  | nil => exact Comp.allAsks_pure _ _
  | cons v r ih =>
    unfold unpackListsC
    split
    · exact Comp.allAsks_fail _ _
    · refine ⟨⟨_, rfl⟩, fun _ => ?_⟩
      split
      · exact Comp.allAsks_fail _ _
      · exact Comp.allAsks_bind _ _ _ ih (fun _ => Comp.allAsks_pure _ _)

/-! ## which parameter types can consult the mode -/

theorem asksOwned_nil (t : ArgTy) (h : t.consultsOwned = false) (v : V) : t.asksOwned v = [] := by
  cases t <;> simp_all [ArgTy.asksOwned, ArgTy.consultsOwned]

/-- a parameter type that cannot consult the mode asks nothing, whatever the value -/
theorem asks_nil_of_not_consults (t : ArgTy) : t.consults = false → ∀ v, t.asks v = [] := by
  induction t with
  | base n => intro h v; simp_all [ArgTy.consults, ArgTy.asks]
  | opt t ih =>
    intro h v
    simp only [ArgTy.consults, Bool.and_eq_false_iff] at h
    simp only [ArgTy.asks]
    rcases h with h | h
    · simp [h]
    · split
      · split <;> first | rfl | exact ih h _
      · rfl
  | rest t ih =>
    intro h v
    simp only [ArgTy.consults, Bool.and_eq_false_iff] at h
    simp only [ArgTy.asks]
    rcases h with h | h
    · simp [h]
    · split
      · exact ih h _
      · rfl
  | vec t ih =>
    intro h v
    simp only [ArgTy.consults, Bool.and_eq_false_iff] at h
    simp only [ArgTy.asks]
    rcases h with h | h
    · simp [h]
    · split
      · split <;> simp [asksOwned_nil t h]
      · rfl

/-- a parameter type that can consult the mode does so for some (defined, non-none) value: it asks
    `assert_value_not_undefined` about the value, resp. about the items of a list -/
theorem consults_witness (t : ArgTy) : t.consults = true → ∃ v : V, v.kind = .defined ∧ v ≠ .none ∧ t.asks v ≠ [] := by
  induction t with
  | base n => intro h; exact ⟨.int 0, rfl, by simp, by simp_all [ArgTy.consults, ArgTy.asks]⟩
  | opt t ih =>
    intro h
    simp only [ArgTy.consults, Bool.and_eq_true] at h
    obtain ⟨v, hk, hn, hv⟩ := ih h.2
    refine ⟨v, hk, hn, ?_⟩
    cases v <;> simp_all [ArgTy.asks, V.kind]
  | rest t ih =>
    intro h
    simp only [ArgTy.consults, Bool.and_eq_true] at h
    obtain ⟨v, hk, hn, hv⟩ := ih h.2
    exact ⟨v, hk, hn, by simpa [ArgTy.asks, h.1] using hv⟩
  | vec t ih =>
    intro h
    simp only [ArgTy.consults, Bool.and_eq_true] at h
    refine ⟨.seq [.undef], rfl, by simp, ?_⟩
    cases t <;> simp_all [ArgTy.asks, ArgTy.asksOwned, ArgTy.consultsOwned]

/-! a write changes nothing but the output buffers (whatever they are: live, capturing, discarding) -/
@[simp] theorem St.write_code (s : St) (c : String) : (s.write c).code = s.code := by
  unfold St.write; cases s.outs with
  | nil => rfl
  | cons o r => cases o <;> rfl
@[simp] theorem St.write_pc (s : St) (c : String) : (s.write c).pc = s.pc := by
  unfold St.write; cases s.outs with
  | nil => rfl
  | cons o r => cases o <;> rfl
@[simp] theorem St.write_stack (s : St) (c : String) : (s.write c).stack = s.stack := by
  unfold St.write; cases s.outs with
  | nil => rfl
  | cons o r => cases o <;> rfl
@[simp] theorem St.write_frames (s : St) (c : String) : (s.write c).frames = s.frames := by
  unfold St.write; cases s.outs with
  | nil => rfl
  | cons o r => cases o <;> rfl
@[simp] theorem St.write_ctx (s : St) (c : String) : (s.write c).ctx = s.ctx := by
  unfold St.write; cases s.outs with
  | nil => rfl
  | cons o r => cases o <;> rfl
@[simp] theorem St.write_closures (s : St) (c : String) : (s.write c).closures = s.closures := by
  unfold St.write; cases s.outs with
  | nil => rfl
  | cons o r => cases o <;> rfl
@[simp] theorem St.write_calls (s : St) (c : String) : (s.write c).calls = s.calls := by
  unfold St.write; cases s.outs with
  | nil => rfl
  | cons o r => cases o <;> rfl
@[simp] theorem St.write_formatter (s : St) (c : String) : (s.write c).formatter = s.formatter := by
  unfold St.write; cases s.outs with
  | nil => rfl
  | cons o r => cases o <;> rfl
@[simp] theorem St.write_fmtCalls (s : St) (c : String) : (s.write c).fmtCalls = s.fmtCalls := by
  unfold St.write; cases s.outs with
  | nil => rfl
  | cons o r => cases o <;> rfl
@[simp] theorem St.write_blockStacks (s : St) (c : String) : (s.write c).blockStacks = s.blockStacks := by
  unfold St.write; cases s.outs with
  | nil => rfl
  | cons o r => cases o <;> rfl
@[simp] theorem St.write_curBlock (s : St) (c : String) : (s.write c).curBlock = s.curBlock := by
  unfold St.write; cases s.outs with
  | nil => rfl
  | cons o r => cases o <;> rfl
@[simp] theorem St.write_parent (s : St) (c : String) : (s.write c).parent = s.parent := by
  unfold St.write; cases s.outs with
  | nil => rfl
  | cons o r => cases o <;> rfl

@[simp] theorem St.write_autoEscape (s : St) (c : String) : (s.write c).autoEscape = s.autoEscape := by
  unfold St.write; cases s.outs with
  | nil => rfl
  | cons o r => cases o <;> rfl
@[simp] theorem St.write_aeStack (s : St) (c : String) : (s.write c).aeStack = s.aeStack := by
  unfold St.write; cases s.outs with
  | nil => rfl
  | cons o r => cases o <;> rfl

/-- item access on an undefined base finds nothing, whatever the key -/
theorem V.getItem_undef (k : V) : V.getItem .undef k = .ok Option.none := by
  unfold V.getItem
  generalize k.plain = kp
  cases kp <;> simp [V.plain]
theorem V.getItem_silent (k : V) : V.getItem .silent k = .ok Option.none := by
  unfold V.getItem
  generalize k.plain = kp
  cases kp <;> simp [V.plain]

end MJ.Undef
