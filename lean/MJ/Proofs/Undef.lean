import MJ.Model.UndefVm
/-!
# Helper lemmas for C12: every mode-dependent check of the VM model is monotone in the mode
-/
namespace MJ.Undef

/-- a mode-indexed check only adds errors with strictness -/
abbrev ChkMono (f : Mode → Except Err Unit) : Prop :=
  ∀ m m', m' ≤ m → f m = .ok () → f m' = .ok ()


/-- all table-interpreted helpers only add errors with strictness (finite check over the rows
    regenerated from utils.rs / vm/mod.rs / environment.rs) -/
theorem helperMono :
    (∀ p, ChkMono (handleUndefined · p)) ∧ (∀ k, ChkMono (isTrueChk · k)) ∧
    (∀ k, ChkMono (assertIterable · k)) ∧ (∀ k, ChkMono (tryIterChk · k)) ∧
    (∀ k, ChkMono (assertNotUndef · k)) ∧ (∀ k, ChkMono (emitChk · k)) ∧
    (∀ k m m' b, m' ≤ m → envFormat m k = .ok b → envFormat m' k = .ok b) ∧ (∀ k, ChkMono (sliceChk · k)) := by
  refine ⟨?_, ?_, ?_, ?_, ?_, ?_, ?_, ?_⟩
  · intro p m m'; cases m <;> cases m' <;> cases p <;> decide
  case refine_7 => intro k m m' b; cases m <;> cases m' <;> cases k <;> cases b <;> decide
  all_goals (intro k m m'; cases m <;> cases m' <;> cases k <;> decide)


theorem seqChks_two_mono {f g : Mode → Except Err Unit} (hf : ChkMono f) (hg : ChkMono g) :
    ChkMono (fun m => seqChks [f m, g m]) := by
  intro m m' h
  have hf' := hf m m' h
  have hg' := hg m m' h
  simp only [seqChks]
  cases h1 : f m with
  | error e => simp [seqChks]
  | ok u =>
    cases u
    rw [hf' h1]
    cases h2 : g m with
    | error e => simp [seqChks]
    | ok u => cases u; rw [hg' h2]; simp [seqChks]

theorem const_mono (r : Except Err Unit) : ChkMono (fun _ => r) := fun _ _ _ h => h

theorem cmpGuard_mono (op : CmpOp) (a b : V) : ChkMono (cmpGuard · op a b) := by
  obtain ⟨_, _, hI, _, hN, _⟩ := helperMono
  unfold cmpGuard
  cases op <;> first
    | exact seqChks_two_mono (hN _) (hN _)
    | exact seqChks_two_mono (hI _) (hN _)

theorem mapInvalid_mono {f : Mode → Except Err Unit} (hf : ChkMono f) : ChkMono (fun m => mapInvalid (f m)) := by
  intro m m' h hm
  show mapInvalid (f m') = .ok ()
  have hm : mapInvalid (f m) = .ok () := hm
  cases h1 : f m with
  | error e => rw [h1] at hm; simp [mapInvalid] at hm
  | ok u => cases u; rw [hf m m' h h1]; rfl

theorem filterGuard_mono (name : String) (args : List V) : ChkMono (filterGuard · name args) := by
  obtain ⟨hH, hT, hI, hTI, hN, _⟩ := helperMono
  intro m m' h
  unfold filterGuard
  split <;> first
    | exact hT _ m m' h
    | exact hN _ m m' h
    | exact hTI _ m m' h
    | exact mapInvalid_mono (hTI _) m m' h
    | exact fun x => x
    | (split <;> first | exact hN _ m m' h | exact fun x => x | exact hH _ m m' h)

theorem testGuard_mono (name : String) (args : List V) : ChkMono (testGuard · name args) := by
  obtain ⟨_, _, hI, _⟩ := helperMono
  intro m m' h
  unfold testGuard
  split
  · exact hI _ m m' h
  · exact fun x => x

/-- every instruction consults the mode only through monotone checks -/
theorem modeGuard_mono (i : Instr) (s : St) : ChkMono (modeGuard · i s) := by
  obtain ⟨hH, hT, hI, hTI, hN, hE, hF, hS⟩ := helperMono
  intro m m' h
  unfold modeGuard
  split
  · split
    · exact fun x => x
    · exact hH _ m m' h
  · split
    · exact hH _ m m' h
    · exact fun x => x
  · exact hS _ m m' h
  · exact seqChks_two_mono (hI _) (hN _) m m' h
  · exact cmpGuard_mono _ _ _ m m' h
  · exact cmpGuard_mono _ _ _ m m' h
  · exact hT _ m m' h
  · exact seqChks_two_mono (hN _) (hN _) m m' h
  · exact hT _ m m' h
  · exact hT _ m m' h
  · exact hT _ m m' h
  · exact hTI _ m m' h
  · split
    · exact filterGuard_mono _ _ m m' h
    · exact fun x => x
  · split
    · exact testGuard_mono _ _ m m' h
    · exact fun x => x
  · exact fun x => x

/-- `Emit` (default and custom formatter) only adds errors with strictness, and a success is the
    same success: in particular the formatter is reached under `m'` iff it was under `m` -/
theorem stepEmit_mono (m m' : Mode) (s s' : St) (h : m' ≤ m) : stepEmit m s = .ok s' → stepEmit m' s = .ok s' := by
  obtain ⟨_, _, _, _, _, hE, hF, _⟩ := helperMono
  unfold stepEmit
  split
  · rename_i v r _
    split
    · intro hs
      cases hg : emitChk m v.kind with
      | error e => simp [hg] at hs
      | ok u =>
        cases u
        have hg' : emitChk m' v.kind = .ok () := hE _ m m' h hg
        rw [hg']
        simpa [hg] using hs
    · intro hs
      cases hg : envFormat m v.kind with
      | error e => simp [hg] at hs
      | ok b =>
        rw [hF _ m m' b h hg]
        simpa [hg] using hs
  · exact fun x => x

end MJ.Undef
