import MJ.Model.Nested
/-! Restore lemmas for the nested-evaluation wrappers (helper lemmas for C05). -/
namespace MJ.Nested

/-- the nested run only pushes frames on top of the ones it found (and pops only its own) -/
def FramesOnTop (f : Body) : Prop := ∀ s o, ∃ extra, (f s o).2.1.frames = extra ++ s.frames
/-- … and may give the frame it started on a (new) closure (`Enclose` in an included template) -/
def TopClosureOnly (f : Body) : Prop :=
  ∀ s o, ∃ extra c, (f s o).2.1.frames = extra ++ setTopClosure c s.frames
/-- nested includes give their recursion cost back -/
def KeepsOuter (f : Body) : Prop := ∀ s o, (f s o).2.1.outerDepth = s.outerDepth
/-- `LoadBlocks` only appends levels to existing block stacks / adds entries -/
def BlocksGrow (f : Body) : Prop :=
  ∀ s o n b, s.blocks n = some b →
    ∃ c, (f s o).2.1.blocks n = some c ∧ c.instrs.take b.instrs.length = b.instrs
/-- the nested run does not extend (`LoadBlocks`) and leaves the `super()` cursors as they were -/
def NoLoad (f : Body) : Prop := ∀ s o, (f s o).2.1.blocks = s.blocks ∧ (f s o).2.1.loaded = s.loaded
/-- a run that ends normally leaves the capture stack of the output as deep as it was -/
def BalancedOnOk (f : Body) : Prop := ∀ s o, (f s o).1 = .ok → (f s o).2.2.caps = o.caps

theorem truncate_append (extra fs : List Frame) : truncate (extra ++ fs) fs.length = fs := by
  simp [truncate]

theorem truncate_self (fs : List Frame) : truncate fs fs.length = fs := by
  simp [truncate]

theorem restoreIsolated_eq (saved cur : Nat → Option BlockStack)
    (h : ∀ n b, saved n = some b → ∃ c, cur n = some c ∧ c.instrs.take b.instrs.length = b.instrs) :
    restoreIsolated saved cur = saved := by
  funext n
  unfold restoreIsolated
  cases hs : saved n with
  | none => rfl
  | some b =>
    obtain ⟨c, hc, ht⟩ := h n b hs
    simp [hc, ht]

theorem length_setTopClosure (c : Option Nat) (fs : List Frame) :
    (setTopClosure c fs).length = fs.length := by
  cases fs <;> simp [setTopClosure]

theorem setTopClosure_twice (a b : Option Nat) (fs : List Frame) :
    setTopClosure a (setTopClosure b fs) = setTopClosure a fs := by
  cases fs <;> simp [setTopClosure]

theorem setTopClosure_top (fs : List Frame) : setTopClosure (topClosure fs) fs = fs := by
  cases fs <;> simp [setTopClosure, topClosure]

theorem same_refl (s : St) : Same s s := ⟨rfl, rfl, rfl, rfl, rfl, rfl, rfl⟩

theorem keep_frames (body : Body) (hf : FramesOnTop body) (s1 : St) (o : Out) (fs new : List Frame)
    (h : s1.frames = new ++ fs) : truncate (body s1 o).2.1.frames fs.length = fs := by
  obtain ⟨extra, he⟩ := hf s1 o
  rw [he, h, ← List.append_assoc]
  exact truncate_append _ _

/-- macro calls: every field comes back whatever the body does to frames, depth, escape mode,
instructions and current block, on both outcomes; the caller's output is not involved -/
theorem macroCall_restores (instr cost limit : Nat) (base closureF : Frame) (body : Body)
    (hb : BlocksGrow body) (s : St) (o : Out) :
    Same (macroCall instr cost limit base closureF body s o).2.1 s ∧
    (macroCall instr cost limit base closureF body s o).2.2 = o := by
  refine ⟨?_, rfl⟩
  unfold macroCall evalMacro
  by_cases hlim : s.depth + cost + 2 > limit
  · simp [hlim, same_refl]
  · simp only [hlim, if_false]
    refine ⟨rfl, rfl, rfl, rfl, rfl, ?_, rfl⟩
    simp only [withExec, exitBlocks, enterBlocks]
    exact restoreIsolated_eq _ _ (fun n b hn => hb _ _ n b hn)

/-- the nested run leaves the frames it found at the bottom of the stack -/
def FramesBelow (g : Body) : Prop :=
  ∀ s o, truncate (g s o).2.1.frames s.frames.length = s.frames

theorem framesBelow_of_onTop (body : Body) (hf : FramesOnTop body) : FramesBelow body :=
  fun s o => keep_frames body hf s o s.frames [] rfl

theorem pushThen_framesBelow (limit : Nat) (newFrame : Frame) (body : Body) (hf : FramesOnTop body) :
    FramesBelow (pushThen limit newFrame body) := by
  intro s o
  unfold pushThen
  split
  · exact truncate_self _
  · exact keep_frames body hf _ o s.frames [newFrame] rfl

theorem pushThen_keepsOuter (limit : Nat) (newFrame : Frame) (body : Body) (ho : KeepsOuter body) :
    KeepsOuter (pushThen limit newFrame body) := by
  intro s o
  unfold pushThen
  split
  · rfl
  · exact ho _ _

theorem pushThen_noLoad (limit : Nat) (newFrame : Frame) (body : Body) (hn : NoLoad body) :
    NoLoad (pushThen limit newFrame body) := by
  intro s o
  unfold pushThen
  split
  · exact ⟨rfl, rfl⟩
  · exact hn _ _

/-- `with_execution_state(.., BlockState::Keep, ..)` gives the state back whatever the outcome -/
theorem withExec_keep_same (instr ae : Nat) (cb : Option Nat) (g : Body)
    (hf : FramesBelow g) (ho : KeepsOuter g) (hn : NoLoad g) (s : St) (o : Out) :
    Same (withExec .keep instr ae cb g s o).2.1 s := by
  simp only [withExec, exitFrames, exitBlocks, exitLoaded, enterBlocks, enterLoaded]
  exact ⟨hf _ _, ho _ _, rfl, rfl, rfl, (hn _ _).1, (hn _ _).2⟩

theorem callBlock_restores (name limit : Nat) (required : Bool) (newFrame : Frame) (body : Body)
    (hf : FramesOnTop body) (ho : KeepsOuter body) (hn : NoLoad body) (s : St) (o : Out) :
    Same (callBlock name limit required newFrame body s o).2.1 s := by
  unfold callBlock
  cases hbl : s.blocks name with
  | none => exact same_refl s
  | some bs =>
    cases required with
    | true => exact same_refl s
    | false =>
      simp only [Bool.false_eq_true, if_false]
      exact withExec_keep_same _ _ _ _ (pushThen_framesBelow limit newFrame body hf)
        (pushThen_keepsOuter limit newFrame body ho) (pushThen_noLoad limit newFrame body hn) s o

theorem callBlock_caps (name limit : Nat) (required : Bool) (newFrame : Frame) (body : Body)
    (hc : BalancedOnOk body) (s : St) (o : Out)
    (hok : (callBlock name limit required newFrame body s o).1 = .ok) :
    (callBlock name limit required newFrame body s o).2.2.caps = o.caps := by
  unfold callBlock at hok ⊢
  cases hbl : s.blocks name with
  | none => simp [hbl] at hok
  | some bs =>
    cases required with
    | true => simp [hbl] at hok
    | false =>
      simp only [hbl, Bool.false_eq_true, if_false, withExec, pushThen] at hok ⊢
      split at hok
      · simp at hok
      · rename_i hlim
        simp only [hlim, if_false]
        exact hc _ _ hok

theorem renderBlock_restores (name limit : Nat) (required : Bool) (newFrame : Frame) (body : Body)
    (hf : FramesOnTop body) (ho : KeepsOuter body) (hn : NoLoad body) (s : St) (o : Out) :
    Same (renderBlock name limit required newFrame body s o).2.1 s ∧
    (renderBlock name limit required newFrame body s o).2.2 = o :=
  ⟨callBlock_restores name limit required newFrame body hf ho hn s ⟨0⟩, rfl⟩

theorem update_same (f : Nat → Option BlockStack) (n : Nat) (a b : Option BlockStack) (h : f n = b) :
    update (update f n a) n b = f := by
  funext m
  simp only [update]
  split
  · rename_i hm; rw [hm, h]
  · rfl

/-- the state `perform_super` hands back, whatever the outcome -/
def superState (newFrame : Frame) (body : Body) (s : St) (o1 : Out) (name : Nat) (bs : BlockStack) : St :=
  let res := withExec .keep (bs.instrs.getD (bs.depth + 1) 0) s.autoEscape s.currentBlock body
    { s with
      blocks := update s.blocks name (some { bs with depth := bs.depth + 1 }),
      frames := newFrame :: s.frames } o1
  { res.2.1 with
    frames := res.2.1.frames.tail,
    blocks := update res.2.1.blocks name
      ((res.2.1.blocks name).map (fun b => { b with depth := b.depth - 1 })) }

theorem superState_same (newFrame : Frame) (body : Body)
    (hf : FramesOnTop body) (ho : KeepsOuter body) (hn : NoLoad body) (s : St) (o1 : Out)
    (name : Nat) (bs : BlockStack) (hbl : s.blocks name = some bs) :
    Same (superState newFrame body s o1 name bs) s := by
  simp only [superState, withExec, exitFrames, exitBlocks, exitLoaded, enterBlocks, enterLoaded]
  refine ⟨?_, ?_, rfl, rfl, rfl, ?_, ?_⟩
  · have := keep_frames body hf
      { s with
        instructions := bs.instrs.getD (bs.depth + 1) 0,
        blocks := update s.blocks name (some { bs with depth := bs.depth + 1 }),
        frames := newFrame :: s.frames } o1 (newFrame :: s.frames) [] rfl
    simp only at this ⊢
    rw [this]
    rfl
  · exact ho _ _
  · rw [(hn _ _).1]
    simp only [update, if_true, Option.map_some, Nat.add_sub_cancel]
    exact update_same _ _ _ _ hbl
  · exact (hn _ _).2

theorem performSuper_state (limit : Nat) (capture : Bool) (newFrame : Frame) (body : Body) (s : St) (o : Out) :
    (performSuper limit capture newFrame body s o).2.1 = s ∨
    ∃ name bs o1, s.blocks name = some bs ∧
      (performSuper limit capture newFrame body s o).2.1 = superState newFrame body s o1 name bs := by
  unfold performSuper
  cases hcb : s.currentBlock with
  | none => exact .inl rfl
  | some name =>
    simp only
    cases hbl : s.blocks name with
    | none => exact .inl rfl
    | some bs =>
      simp only
      by_cases hpush : bs.depth + 1 < bs.instrs.length
      · by_cases hlim : s.depth + 1 > limit
        · simp [hpush, hlim]
        · refine .inr ⟨name, bs, if capture then ⟨o.caps + 1⟩ else o, hbl, ?_⟩
          simp only [hpush, not_true_eq_false, if_false, hlim, superState, hcb]
          split <;> rfl
      · simp [hpush]

theorem performSuper_restores (limit : Nat) (capture : Bool) (newFrame : Frame) (body : Body)
    (hf : FramesOnTop body) (ho : KeepsOuter body) (hn : NoLoad body) (s : St) (o : Out) :
    Same (performSuper limit capture newFrame body s o).2.1 s := by
  rcases performSuper_state limit capture newFrame body s o with h | ⟨name, bs, o1, hbl, h⟩
  · rw [h]; exact same_refl s
  · rw [h]; exact superState_same newFrame body hf ho hn s o1 name bs hbl

theorem performInclude_restores (instr tmplAe cost limit : Nat) (newBlocks : Nat → Option BlockStack)
    (body : Body) (hf : TopClosureOnly body) (ho : KeepsOuter body) (s : St) (o : Out) :
    Same (performInclude instr tmplAe cost limit newBlocks body s o).2.1 s := by
  unfold performInclude
  by_cases hlim : s.depth + cost > limit
  · simp [hlim, same_refl]
  · simp only [hlim, if_false, withExec, exitFrames, exitBlocks, exitLoaded]
    refine ⟨?_, ?_, rfl, rfl, rfl, rfl, rfl⟩
    · obtain ⟨extra, c, he⟩ := hf
        { s with
          outerDepth := s.outerDepth + cost, frames := setTopClosure none s.frames,
          instructions := instr, autoEscape := tmplAe, currentBlock := s.currentBlock,
          blocks := enterBlocks (.replace newBlocks) s.blocks,
          loaded := enterLoaded (.replace newBlocks) s.loaded } o
      simp only at he ⊢
      rw [he, setTopClosure_twice]
      have hl : (setTopClosure none s.frames).length = (setTopClosure c s.frames).length := by
        simp [length_setTopClosure]
      rw [hl, truncate_append, setTopClosure_twice, setTopClosure_top]
    · rw [ho]
      simp

theorem performInclude_caps (instr tmplAe cost limit : Nat) (newBlocks : Nat → Option BlockStack)
    (body : Body) (hc : BalancedOnOk body) (s : St) (o : Out)
    (hok : (performInclude instr tmplAe cost limit newBlocks body s o).1 = .ok) :
    (performInclude instr tmplAe cost limit newBlocks body s o).2.2.caps = o.caps := by
  unfold performInclude at hok ⊢
  by_cases hlim : s.depth + cost > limit
  · simp [hlim] at hok
  · simp only [hlim, if_false, withExec] at hok ⊢
    exact hc _ _ hok

/-- the hypotheses on the templates an include may evaluate -/
def ChoiceOk : Choice → Prop
  | .found _ _ _ body => TopClosureOnly body ∧ KeepsOuter body
  | _ => True

/-- the include statement gives the state back — frames with their closure attachment, depth,
instructions, escape mode, current block, block table, loaded templates — on every way through it:
a template was evaluated (successfully or not), the lookup failed, or nothing was found and the
statement did nothing -/
theorem includeStmt_restores (cost limit : Nat) (ignoreMissing : Bool) (choices : List Choice)
    (h : ∀ c ∈ choices, ChoiceOk c) : ∀ (tried : Nat) (s : St) (o : Out),
    Same (includeStmt cost limit ignoreMissing choices tried s o).2.1 s := by
  induction choices with
  | nil => intro tried s o; unfold includeStmt; split <;> exact same_refl s
  | cons c rest ih =>
    intro tried s o
    cases c with
    | notString => exact same_refl s
    | loadError => exact same_refl s
    | missing =>
      simp only [includeStmt]
      exact ih (fun c hc => h c (List.mem_cons_of_mem _ hc)) _ s o
    | found instr ae nb body =>
      simp only [includeStmt]
      have hc := h _ (List.mem_cons_self ..)
      exact performInclude_restores instr ae cost limit nb body hc.1 hc.2 s o

/-- when no template is evaluated the output is not touched either -/
theorem includeStmt_noop (cost limit : Nat) (ignoreMissing : Bool) (choices : List Choice)
    (h : ∀ c ∈ choices, ∀ i a nb b, c ≠ .found i a nb b) : ∀ (tried : Nat) (s : St) (o : Out),
    (includeStmt cost limit ignoreMissing choices tried s o).2.1 = s ∧
    (includeStmt cost limit ignoreMissing choices tried s o).2.2 = o := by
  induction choices with
  | nil => intro tried s o; unfold includeStmt; split <;> exact ⟨rfl, rfl⟩
  | cons c rest ih =>
    intro tried s o
    cases c with
    | notString => exact ⟨rfl, rfl⟩
    | loadError => exact ⟨rfl, rfl⟩
    | missing =>
      simp only [includeStmt]
      exact ih (fun c hc => h c (List.mem_cons_of_mem _ hc)) _ s o
    | found instr ae nb body => exact absurd rfl (h _ (List.mem_cons_self ..) instr ae nb body)

/-- with `take_closure()` hoisted in front of the candidate loop, an include that finds nothing and
is forgiven (`ignore missing`) succeeds and leaves the closure of the including frame detached -/
theorem hoisted_take_closure_loses_closure :
    ∃ (s : St) (o : Out),
      (includeStmtHoisted 10 500 true [.missing] s o).1 = .ok ∧
      ¬ Same (includeStmtHoisted 10 500 true [.missing] s o).2.1 s ∧
      Same (includeStmt 10 500 true [.missing] 0 s o).2.1 s := by
  refine ⟨{ frames := [⟨1, some 7⟩], outerDepth := 0, instructions := 0, autoEscape := 0,
            currentBlock := none, blocks := fun _ => none, loaded := [], pool := 0 }, ⟨0⟩, ?_, ?_, ?_⟩
  · simp [includeStmtHoisted, includeStmtHoisted.go]
  · intro h
    have := h.1
    simp [includeStmtHoisted, includeStmtHoisted.go, setTopClosure] at this
  · simp [includeStmt, same_refl]

/-- the override of the auto-escape mode never outlives `with_auto_escape`: whatever `f` does to the
mode, when the override changed the mode the old one is back afterwards (Ok and Err alike) -/
theorem withAutoEscape_mode (ae : Nat) (f : Body) (s : St) (o : Out) (h : s.autoEscape ≠ ae) :
    (withAutoEscape ae f s o).2.1.autoEscape = s.autoEscape := by
  simp [withAutoEscape, h]

/-- with a callee that leaves the state alone (the formatter only reads it) the whole state is
what it was, on both branches of the helper and for both outcomes -/
theorem withAutoEscape_restores (ae : Nat) (f : Body) (hf : ∀ s o, (f s o).2.1 = s) (s : St) (o : Out) :
    (withAutoEscape ae f s o).2.1 = s := by
  unfold withAutoEscape
  split
  · exact hf s o
  · simp [hf]

/-- the inverted guard leaves the override installed whenever it changed the mode -/
theorem withAutoEscapeInverted_leaks :
    ∃ (f : Body) (s : St) (o : Out), (∀ s o, (f s o).2.1 = s) ∧
      (withAutoEscapeInverted 2 f s o).2.1.autoEscape ≠ s.autoEscape ∧
      (withAutoEscape 2 f s o).2.1 = s := by
  refine ⟨fun s o => (.ok, s, o),
    { frames := [], outerDepth := 0, instructions := 0, autoEscape := 0, currentBlock := none,
      blocks := fun _ => none, loaded := [], pool := 0 }, ⟨0⟩, fun _ _ => rfl, ?_, ?_⟩
  · simp [withAutoEscapeInverted]
  · simp [withAutoEscape]

/-- returning early on `Err` (before the caller's context is swapped back) is *not* a restore:
the caller is left with the macro's frames and depth -/
theorem earlyReturn_does_not_restore :
    ∃ (body : Body) (s : St),
      (evalMacroEarlyReturn 7 4 500 ⟨100, none⟩ ⟨101, none⟩ body s).1 = .err ∧
      ¬ Same (evalMacroEarlyReturn 7 4 500 ⟨100, none⟩ ⟨101, none⟩ body s).2 s := by
  refine ⟨fun s o => (.err, s, o),
    { frames := [⟨1, none⟩], outerDepth := 0, instructions := 0, autoEscape := 0, currentBlock := none,
      blocks := fun _ => none, loaded := [], pool := 0 }, ?_, ?_⟩
  · simp [evalMacroEarlyReturn, St.depth, withExec]
  · intro h
    have := h.1
    simp [evalMacroEarlyReturn, St.depth, withExec, exitFrames] at this

end MJ.Nested
