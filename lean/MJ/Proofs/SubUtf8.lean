import MJ.Model.Subscript
/-!
# The `Chars` iterator on UTF-8 bytes yields the characters, one boundary at a time

`encode cs` is the byte string of a Rust `String` holding the scalar values `cs`; every scalar
value takes 1–4 bytes.  The model's `charIndices` walks a byte cursor like `str::char_indices`.
Here: on `encode cs` the cursor visits exactly the offsets `|encode (cs.take i)|` (character
boundaries: the bytes before it and after it are again encodings of character lists) and decodes
exactly `cs`.  So the character count / `nth` / `skip`/`take` of the engine's string code work on
`cs`, not on bytes (the two differ as soon as a character is not ASCII).
-/
namespace MJ.Sub

theorem encode_nil : encode [] = [] := rfl
theorem encode_cons (c : Char) (cs : List Char) : encode (c :: cs) = String.utf8EncodeChar c ++ encode cs := by
  simp [encode]
theorem encode_append (as bs : List Char) : encode (as ++ bs) = encode as ++ encode bs := by
  simp [encode]

/-- every scalar value occupies one to four bytes -/
theorem width_bounds (c : Char) : 1 ≤ (String.utf8EncodeChar c).length ∧ (String.utf8EncodeChar c).length ≤ 4 := by
  rw [String.length_utf8EncodeChar]
  exact ⟨c.utf8Size_pos, c.utf8Size_le_four⟩

theorem decodeAt_nil : decodeAt [] = none := by
  simp [decodeAt, ByteArray.utf8DecodeChar?]

theorem decodeAt_encode_cons (c : Char) (rest : List UInt8) :
    decodeAt (String.utf8EncodeChar c ++ rest) = some c := by
  unfold decodeAt
  have h4 := (width_bounds c).2
  rw [List.take_append, List.take_of_length_le h4, List.toByteArray_append]
  exact ByteArray.utf8DecodeChar?_utf8EncodeChar_append

theorem drop_encode_cons (c : Char) (rest : List UInt8) :
    (String.utf8EncodeChar c ++ rest).drop c.utf8Size = rest := by
  rw [← String.length_utf8EncodeChar c]
  simp

/-- byte offsets of the characters of `cs` when the first one starts at `pos` -/
def offsetsFrom : Nat → List Char → List (Nat × Char)
  | _, [] => []
  | pos, c :: cs => (pos, c) :: offsetsFrom (pos + c.utf8Size) cs

theorem charIndicesFuel_encode (cs : List Char) : ∀ (fuel pos : Nat), (encode cs).length ≤ fuel →
    charIndicesFuel fuel pos (encode cs) = offsetsFrom pos cs := by
  induction cs with
  | nil =>
    intro fuel pos _
    cases fuel with
    | zero => rfl
    | succ f => simp [charIndicesFuel, encode_nil, decodeAt_nil, offsetsFrom]
  | cons c cs ih =>
    intro fuel pos hf
    rw [encode_cons] at hf ⊢
    have hw := c.utf8Size_pos
    cases fuel with
    | zero => simp at hf; omega
    | succ f =>
      simp only [charIndicesFuel, decodeAt_encode_cons, drop_encode_cons, offsetsFrom]
      rw [ih f _ (by simp at hf; omega)]

theorem charIndices_encode (cs : List Char) : charIndices (encode cs) = offsetsFrom 0 cs :=
  charIndicesFuel_encode cs _ 0 (Nat.le_refl _)

theorem map_snd_offsetsFrom (cs : List Char) : ∀ pos, (offsetsFrom pos cs).map (·.2) = cs := by
  induction cs with
  | nil => intro; rfl
  | cons c cs ih => intro pos; simp [offsetsFrom, ih]

/-- `s.chars()` of the string holding `cs` is `cs` -/
theorem chars_encode (cs : List Char) : chars (encode cs) = cs := by
  unfold chars
  rw [charIndices_encode, map_snd_offsetsFrom]

theorem length_offsetsFrom (cs : List Char) : ∀ pos, (offsetsFrom pos cs).length = cs.length := by
  induction cs with
  | nil => intro; rfl
  | cons c cs ih => intro pos; simp [offsetsFrom, ih]

theorem offsetsFrom_getElem? (cs : List Char) : ∀ (pos i : Nat), i < cs.length →
    (offsetsFrom pos cs)[i]? = (cs[i]?).map fun c => (pos + (encode (cs.take i)).length, c) := by
  induction cs with
  | nil => intro _ i h; simp at h
  | cons c cs ih =>
    intro pos i h
    cases i with
    | zero => simp [offsetsFrom, encode_nil]
    | succ i =>
      simp only [offsetsFrom, List.getElem?_cons_succ, List.take_succ_cons]
      rw [ih _ i (by simpa using h), encode_cons, List.length_append, String.length_utf8EncodeChar]
      cases cs[i]? <;> simp [Nat.add_assoc]

/-- the byte cursor stands on a character boundary at every step: the `i`-th decoding step starts
    at offset `|encode (cs.take i)|`, the bytes before it are the encoding of the first `i`
    characters and the bytes from it on the encoding of the others -/
theorem cursor_on_boundaries (cs : List Char) (i : Nat) (h : i < cs.length) :
    (charIndices (encode cs))[i]? = (cs[i]?).map (fun c => ((encode (cs.take i)).length, c)) ∧
    (encode cs).take (encode (cs.take i)).length = encode (cs.take i) ∧
    (encode cs).drop (encode (cs.take i)).length = encode (cs.drop i) := by
  refine ⟨?_, ?_, ?_⟩
  · rw [charIndices_encode, offsetsFrom_getElem? cs 0 i h]; simp
  · conv => lhs; rw [← List.take_append_drop i cs, encode_append]
    simp
  · conv => lhs; rw [← List.take_append_drop i cs, encode_append]
    simp

/-- the character count is the number of scalar values, not of bytes -/
theorem charCount_encode (cs : List Char) : (chars (encode cs)).length = cs.length := by rw [chars_encode]

/-- bytes ≥ characters, with equality exactly for all-ASCII… at least: never fewer bytes -/
theorem byteLen_ge_charLen (cs : List Char) : cs.length ≤ (encode cs).length := by
  induction cs with
  | nil => simp [encode_nil]
  | cons c cs ih => rw [encode_cons]; have := c.utf8Size_pos; simp; omega

example : (encode ['h', 'é', 'l', 'l', 'o']).length = 6 ∧ (chars (encode ['h', 'é', 'l', 'l', 'o'])).length = 5 := by
  rw [chars_encode]; decide
example : (encode ['a', 'é', '€', '𝄞']).length = 1 + 2 + 3 + 4 := by decide

end MJ.Sub
