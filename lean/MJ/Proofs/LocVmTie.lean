import MJ.Gen.Tables
import MJ.Model.Loc
/-!
C14 source tie: the table `MJ.Gen.c14VmRows` is regenerated from `vm/mod.rs` on every run.  It lists,
for every instruction arm of `eval_impl` (and for the helper macros defined inside it), each fallible
expression together with the way its error leaves the interpreter loop.  Here it is checked that
every such row goes through `process_err` (the mechanism that attaches template name, line and span),
except for an explicit list of exceptions.
-/
namespace MJ.Loc
open MJ.Gen

/-- macros that end in `bail!`, i.e. `process_err(&mut err, pc, state); return Err(err)` -/
def locatingMacros : List String :=
  ["ctx_ok", "bail", "assert_valid", "func_binop", "op_binop", "recurse_loop"]

/-- rows that may leave the loop without location, each with its reason -/
def allowedUnlocated : List ((String × String × String × String) × String) := [
  (("macro:bail", "", "return_err", "err"),
    "the `return Err(err)` that ends bail! itself, after process_err ran"),
  (("macro:bail", "", "calls", "process_err"),
    "marker row: the body of bail! calls process_err(&mut err, pc, state)"),
  (("EmitRaw", "", "ok", "out.write_str"),
    "a write failure of the output sink is not a template error (comment in the source); C19 covers it")]

def rowLocated (r : String × String × String × String) : Bool :=
  locatingMacros.contains r.2.2.1 || allowedUnlocated.any (fun a => a.1 == r)

/-- the helper macros really are what `locatingMacros` assumes -/
def macroRowsPresent : Bool :=
  c14VmRows.contains ("macro:bail", "", "calls", "process_err") &&
  c14VmRows.contains ("macro:ctx_ok", "", "bail", "err") &&
  c14VmRows.contains ("macro:assert_valid", "", "bail", "err") &&
  c14VmRows.contains ("macro:func_binop", "", "ctx_ok", "ops::$method") &&
  c14VmRows.contains ("macro:op_binop", "", "ctx_ok", "undefined_behavior.assert_value_not_undefined") &&
  c14VmRows.contains ("macro:recurse_loop", "", "bail", "Error::new")

theorem vm_rows_located : c14VmRows.all rowLocated = true := by decide
theorem vm_macros_present : macroRowsPresent = true := by decide

/-- the integer widths the model hard-codes are the ones of the source -/
theorem widths_match :
    c14Bits_line = 16 ∧ c14Bits_col = 16 ∧ c14Bits_span_line = 16 ∧ c14Bits_span_col = 16 ∧
    c14Bits_span_offset = 32 ∧ c14Bits_first_instruction = 32 ∧ c14Bits_table_line = 16 := by decide

theorem satInc_width (x : Nat) : satInc x = if x < 2 ^ c14Bits_line - 1 then x + 1 else 2 ^ c14Bits_line - 1 := by
  unfold satInc; rfl

theorem asU32_width (x : Nat) : asU32 x = x % 2 ^ c14Bits_span_offset := by
  unfold asU32; rfl

end MJ.Loc
