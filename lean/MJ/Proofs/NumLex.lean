import MJ.Model.NumLex
/-! Helper lemmas about the model of `eat_number` (property theorems: `MJ/Props/C08.lean`). -/
namespace MJ.NumLex

/-- characters that keep an integer literal of the given radix going -/
def cont (radix : Nat) (c : Char) : Bool :=
  isDigit c || (radix == 16 && isHexLetter c) || c == '_'

/-- a character at which every number ends: not a digit, letter, `_` or `.` (operators, brackets,
    whitespace, quotes, …) -/
def isTerm (c : Char) : Bool := !(isDigit c || c.isAlpha || c == '_' || c == '.')

/-- the input after the literal: nothing, or something starting with a terminator -/
def Ends (rest : List Char) : Prop := rest = [] ∨ ∃ c cs, rest = c :: cs ∧ isTerm c = true

theorem isDigit_cases {c : Char} (h : isDigit c = true) :
    c = '0' ∨ c = '1' ∨ c = '2' ∨ c = '3' ∨ c = '4' ∨ c = '5' ∨ c = '6' ∨ c = '7' ∨ c = '8' ∨ c = '9' := by
  simpa [isDigit, or_assoc] using h

theorem isHexLetter_cases {c : Char} (h : isHexLetter c = true) :
    c = 'a' ∨ c = 'b' ∨ c = 'c' ∨ c = 'd' ∨ c = 'e' ∨ c = 'f' ∨
    c = 'A' ∨ c = 'B' ∨ c = 'C' ∨ c = 'D' ∨ c = 'E' ∨ c = 'F' := by
  simpa [isHexLetter, or_assoc] using h

theorem isAlpha_of_hexLetter {c : Char} (h : isHexLetter c = true) : c.isAlpha = true := by
  rcases isHexLetter_cases h with h | h | h | h | h | h | h | h | h | h | h | h <;> subst h <;> decide

/-- a digit keeps either integer state -/
theorem step_digit (radix : Nat) {st : St} (hst : st = .integer ∨ st = .radixInteger) {c : Char}
    (h : isDigit c = true) (after : List Char) : step radix st c after = some st := by
  have hc := isDigit_cases h
  rcases hst with rfl | rfl <;>
    rcases hc with h | h | h | h | h | h | h | h | h | h <;> subst h <;> simp [step, isDigit]

theorem step_underscore (radix : Nat) {st : St} (hst : st = .integer ∨ st = .radixInteger)
    (after : List Char) : step radix st '_' after = some st := by
  rcases hst with rfl | rfl <;> simp [step, isDigit, isHexLetter]

theorem step_hexLetter {c : Char} (h : isHexLetter c = true) (after : List Char) :
    step 16 .radixInteger c after = some .radixInteger := by
  rcases isHexLetter_cases h with h | h | h | h | h | h | h | h | h | h | h | h <;> subst h <;>
    simp [step, isDigit, isHexLetter]

/-- every continuing character keeps the integer state of its radix -/
theorem step_cont {radix : Nat} {st : St}
    (hst : (radix = 10 ∧ st = .integer) ∨ st = .radixInteger) {c : Char} (h : cont radix c = true)
    (after : List Char) : step radix st c after = some st := by
  have hst' : st = .integer ∨ st = .radixInteger := by
    rcases hst with ⟨_, h⟩ | h
    · exact Or.inl h
    · exact Or.inr h
  simp only [cont, Bool.or_eq_true, Bool.and_eq_true, beq_iff_eq] at h
  rcases h with (h | ⟨hr, h⟩) | h
  · exact step_digit radix hst' h after
  · subst hr
    rcases hst with ⟨h10, _⟩ | rfl
    · omega
    · exact step_hexLetter h after
  · subst h
    exact step_underscore radix hst' after

/-- a terminator ends the scan in either integer state -/
theorem step_term (radix : Nat) {st : St} (hst : st = .integer ∨ st = .radixInteger) {c : Char}
    (h : isTerm c = true) (after : List Char) : step radix st c after = none := by
  simp only [isTerm, Bool.not_eq_true', Bool.or_eq_false_iff, beq_eq_false_iff_ne, ne_eq] at h
  obtain ⟨⟨⟨hd, ha⟩, hu⟩, hdot⟩ := h
  have hE : c ≠ 'E' := by rintro rfl; exact absurd ha (by decide)
  have he : c ≠ 'e' := by rintro rfl; exact absurd ha (by decide)
  have hhex : isHexLetter c = false := by
    cases hh : isHexLetter c with
    | false => rfl
    | true => rw [isAlpha_of_hexLetter hh] at ha; cases ha
  rcases hst with rfl | rfl <;> simp [step, hd, hu, hdot, hE, he, hhex]

/-- the scan consumes exactly a run of continuing characters followed by the end or a terminator -/
theorem scan_items {radix : Nat} {st : St}
    (hst : (radix = 10 ∧ st = .integer) ∨ st = .radixInteger) (items rest : List Char)
    (hitems : ∀ c ∈ items, cont radix c = true) (hrest : Ends rest) :
    scan radix st (items ++ rest) = (items, st, rest) := by
  have hst' : st = .integer ∨ st = .radixInteger := by
    rcases hst with ⟨_, h⟩ | h
    · exact Or.inl h
    · exact Or.inr h
  induction items with
  | nil =>
    rcases hrest with rfl | ⟨c, cs, rfl, hc⟩
    · simp [scan]
    · simp [scan, step_term radix hst' hc]
  | cons c cs ih =>
    have hc := hitems c (List.mem_cons_self ..)
    have ih' := ih (fun x hx => hitems x (List.mem_cons_of_mem _ hx))
    simp only [List.cons_append, scan, step_cont hst hc, ih']

/-! ### digit strings -/

theorem digit36_digitChar : ∀ d : Fin 16, digit36 (Nat.digitChar d.val) = some d.val := by decide

theorem digitVal_digitChar {radix d : Nat} (hr : radix ≤ 16) (hd : d < radix) :
    digitVal radix (Nat.digitChar d) = some d := by
  have := digit36_digitChar ⟨d, by omega⟩
  simp only [] at this
  simp [digitVal, this, hd]

theorem parseDigits_append_single (radix : Nat) (xs : List Char) (c : Char) (acc : Nat) :
    parseDigits radix acc (xs ++ [c]) =
      match parseDigits radix acc xs with
      | none => none
      | some a =>
        match digitVal radix c with
        | none => none
        | some d => some (a * radix + d) := by
  induction xs generalizing acc with
  | nil =>
    simp only [List.nil_append, parseDigits]
    cases digitVal radix c <;> rfl
  | cons x xs ih =>
    simp only [List.cons_append, parseDigits]
    cases digitVal radix x with
    | none => rfl
    | some d => exact ih _

/-- reading the canonical digits of `v` in the radix gives `v` back -/
theorem parseDigits_toDigits {radix : Nat} (h2 : 2 ≤ radix) (h16 : radix ≤ 16) (v : Nat) :
    parseDigits radix 0 (Nat.toDigits radix v) = some v := by
  induction v using Nat.strongRecOn with
  | _ v ih =>
    by_cases hv : v < radix
    · rw [Nat.toDigits_of_lt_base hv]
      simp [parseDigits, digitVal_digitChar h16 hv]
    · have hq : 0 < v / radix := Nat.div_pos (by omega) (by omega)
      have hm : v % radix < radix := Nat.mod_lt _ (by omega)
      have hsplit : radix * (v / radix) + v % radix = v := Nat.div_add_mod v radix
      have happ := @Nat.toDigits_append_toDigits radix (v / radix) (v % radix) (by omega) hq hm
      rw [hsplit, Nat.toDigits_of_lt_base hm] at happ
      rw [← happ, parseDigits_append_single]
      have hlt : v / radix < v := Nat.div_lt_self (by omega) (by omega)
      rw [ih _ hlt]
      simp only [digitVal_digitChar h16 hm]
      congr 1
      rw [Nat.mul_comm]
      exact hsplit

theorem toDigits_ne_nil (radix v : Nat) : Nat.toDigits radix v ≠ [] := by
  intro h
  have := Nat.length_toDigits_pos (b := radix) (n := v)
  rw [h] at this
  exact Nat.lt_irrefl _ this

/-- leading zeros do not change the value -/
theorem parseDigits_zeros {radix : Nat} (h2 : 2 ≤ radix) (k : Nat) (ds : List Char) :
    parseDigits radix 0 (List.replicate k '0' ++ ds) = parseDigits radix 0 ds := by
  induction k with
  | zero => rfl
  | succ k ih =>
    have h0 : digitVal radix '0' = some 0 := by
      have : (0 : Nat) < radix := by omega
      simp [digitVal, digit36, this]
    simp only [List.replicate_succ, List.cons_append, parseDigits, h0]
    have : 0 * radix + 0 = 0 := by omega
    rw [this]
    exact ih

/-- `from_str_radix` of optional leading zeros followed by the canonical digits of `v` -/
theorem fromStrRadix_spelling {radix : Nat} (h2 : 2 ≤ radix) (h16 : radix ≤ 16) (k v : Nat) :
    fromStrRadix radix (List.replicate k '0' ++ Nat.toDigits radix v) = some v := by
  have hne : List.replicate k '0' ++ Nat.toDigits radix v ≠ [] := by
    intro h
    exact toDigits_ne_nil radix v (List.append_eq_nil_iff.1 h).2
  unfold fromStrRadix
  split
  · rename_i h; exact absurd h hne
  · rw [parseDigits_zeros h2, parseDigits_toDigits h2 h16]

end MJ.NumLex
