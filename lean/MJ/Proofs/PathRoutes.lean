import MJ.Proofs.Path
import MJ.Model.PathRoutes
/-! Helper lemmas for the routes part of C17 (`MJ/Model/PathRoutes.lean`). -/
namespace MJ.Path

/-- the content `s` answered for the store name `n` is what one of the snapshots `seen` held at
    the path `safe_join(dir, n)` designates -/
def Sourced (dir : Str) (seen : List Snapshot) (n s : Str) : Prop :=
  ∃ fs ∈ seen, ∃ p, safeJoin dir n = some p ∧ fs p = .content s

def StoreOk (dir : Str) (seen : List Snapshot) (c : List (Str × Str)) : Prop :=
  ∀ n s, (n, s) ∈ c → Sourced dir seen n s

theorem Sourced.mono {dir : Str} {seen more : List Snapshot} {n s : Str}
    (h : Sourced dir seen n s) (hsub : ∀ x ∈ seen, x ∈ more) : Sourced dir more n s := by
  obtain ⟨x, hx, h2⟩ := h
  exact ⟨x, hsub x hx, h2⟩

/-- one request to the store, the snapshot of the moment being one of `seen` -/
theorem env_get_sourced (dir : Str) (e : Env) (seen : List Snapshot) (fs : Snapshot) (name : Str)
    (hfs : fs ∈ seen) (hb : e.loader.base = dir) (hc : StoreOk dir seen e.cache) :
    (e.get fs name).2.loader = e.loader ∧ StoreOk dir seen (e.get fs name).2.cache ∧
    ∀ s, (e.get fs name).1 = .found s → Sourced dir seen name s := by
  unfold Env.get
  cases hl : lookup name e.cache with
  | some t =>
    refine ⟨rfl, hc, fun s hs => ?_⟩
    simp only [LoadResult.found.injEq] at hs
    subst hs
    exact hc name t (lookup_mem hl)
  | none =>
    simp only []
    cases hr : e.loader.load fs name with
    | found t =>
      obtain ⟨p, hp, hf⟩ := load_found hr
      rw [hb] at hp
      have hj : Sourced dir seen name t := ⟨fs, hfs, p, hp, hf⟩
      refine ⟨rfl, fun n s hm => ?_, fun s hs => ?_⟩
      · simp only [List.mem_cons, Prod.mk.injEq] at hm
        rcases hm with ⟨rfl, rfl⟩ | hm
        · exact hj
        · exact hc n s hm
      · simp only [LoadResult.found.injEq] at hs
        subst hs; exact hj
    | missing => exact ⟨rfl, hc, fun s hs => by simp at hs⟩
    | unreadable => exact ⟨rfl, hc, fun s hs => by simp at hs⟩

/-- what a request leaves untouched, what it keeps true, and where its answer comes from -/
structure StepOk (dir : Str) (seen : List Snapshot) (g g' : Engine) : Prop where
  loader : g'.env.loader = g.env.loader
  cb : g'.cb = g.cb
  store : StoreOk dir seen g'.env.cache

theorem fetch_sourced (dir : Str) (g : Engine) (seen : List Snapshot) (fs : Snapshot) (e : Entry)
    (name parent : Str) (hfs : fs ∈ seen) (hb : g.env.loader.base = dir)
    (hc : StoreOk dir seen g.env.cache) :
    StepOk dir seen g (g.fetch fs e name parent).2 ∧
    ∀ s, (g.fetch fs e name parent).1 = .found s → Sourced dir seen (g.storeName e name parent) s := by
  obtain ⟨h1, h2, h3⟩ := env_get_sourced dir g.env seen fs (g.storeName e name parent) hfs hb hc
  exact ⟨⟨h1, rfl, h2⟩, h3⟩

theorem storeName_congr (g g' : Engine) (h : g'.cb = g.cb) (e : Entry) (n p : Str) :
    g'.storeName e n p = g.storeName e n p := by
  simp only [Engine.storeName, h]

theorem includeList_sourced (dir : Str) (seen : List Snapshot) (fs : Snapshot) (parent : Str)
    (hfs : fs ∈ seen) (names : List Str) (g : Engine) (hb : g.env.loader.base = dir)
    (hc : StoreOk dir seen g.env.cache) :
    StepOk dir seen g (g.includeList fs parent names).2 ∧
    ∀ s, (g.includeList fs parent names).1 = .found s →
      ∃ n ∈ names, Sourced dir seen (g.storeName .includeStmt n parent) s := by
  induction names generalizing g with
  | nil => exact ⟨⟨rfl, rfl, hc⟩, fun s hs => by simp [Engine.includeList] at hs⟩
  | cons n rest ih =>
    obtain ⟨f1, f2⟩ := fetch_sourced dir g seen fs .includeStmt n parent hfs hb hc
    simp only [Engine.includeList]
    cases hr : (g.fetch fs .includeStmt n parent).1 with
    | missing =>
      simp only []
      obtain ⟨i1, i2⟩ := ih (g.fetch fs .includeStmt n parent).2 (by rw [f1.loader]; exact hb) f1.store
      refine ⟨⟨i1.loader.trans f1.loader, i1.cb.trans f1.cb, i1.store⟩, fun s hs => ?_⟩
      obtain ⟨m, hm, hsrc⟩ := i2 s hs
      rw [storeName_congr _ _ f1.cb] at hsrc
      exact ⟨m, List.mem_cons_of_mem _ hm, hsrc⟩
    | found t =>
      simp only []
      refine ⟨f1, fun s hs => ?_⟩
      simp only [LoadResult.found.injEq] at hs
      subst hs
      exact ⟨n, List.mem_cons_self, f2 t hr⟩
    | unreadable =>
      simp only []
      exact ⟨f1, fun s hs => by simp at hs⟩

theorem serve_sourced (dir : Str) (g : Engine) (seen : List Snapshot) (fs : Snapshot) (r : Req)
    (hfs : fs ∈ seen) (hb : g.env.loader.base = dir) (hc : StoreOk dir seen g.env.cache) :
    StepOk dir seen g (g.serve fs r).2 ∧
    ∀ s, (g.serve fs r).1 = .found s → ∃ n ∈ g.storeNames r, Sourced dir seen n s := by
  cases r with
  | one e n p =>
    obtain ⟨f1, f2⟩ := fetch_sourced dir g seen fs e n p hfs hb hc
    exact ⟨f1, fun s hs => ⟨_, by simp [Engine.storeNames], f2 s hs⟩⟩
  | choices ns p =>
    obtain ⟨f1, f2⟩ := includeList_sourced dir seen fs p hfs ns g hb hc
    refine ⟨f1, fun s hs => ?_⟩
    obtain ⟨n, hn, hsrc⟩ := f2 s hs
    exact ⟨_, by simp only [Engine.storeNames, List.mem_map]; exact ⟨n, hn, rfl⟩, hsrc⟩

theorem storeNames_congr (g g' : Engine) (h : g'.cb = g.cb) (r : Req) :
    g'.storeNames r = g.storeNames r := by
  cases r <;> simp only [Engine.storeNames, Engine.storeName, h]

theorem run_sourced (dir : Str) (seen : List Snapshot) (h : List (Snapshot × Req)) (g : Engine)
    (hsub : ∀ x ∈ h, x.1 ∈ seen) (hb : g.env.loader.base = dir) (hc : StoreOk dir seen g.env.cache) :
    (∀ s, LoadResult.found s ∈ g.run h → ∃ x ∈ h, ∃ n ∈ g.storeNames x.2, Sourced dir seen n s) ∧
    StepOk dir seen g (g.after h) := by
  induction h generalizing g with
  | nil => exact ⟨fun s hs => by simp [Engine.run] at hs, ⟨rfl, rfl, hc⟩⟩
  | cons x rest ih =>
    obtain ⟨fs, r⟩ := x
    obtain ⟨f1, f2⟩ := serve_sourced dir g seen fs r (hsub (fs, r) List.mem_cons_self) hb hc
    obtain ⟨i1, i2⟩ := ih (g.serve fs r).2 (fun y hy => hsub y (List.mem_cons_of_mem _ hy))
      (by rw [f1.loader]; exact hb) f1.store
    refine ⟨fun s hs => ?_, ⟨i2.loader.trans f1.loader, i2.cb.trans f1.cb, i2.store⟩⟩
    simp only [Engine.run, List.mem_cons] at hs
    rcases hs with hs | hs
    · obtain ⟨n, hn, hsrc⟩ := f2 s hs.symm
      exact ⟨(fs, r), List.mem_cons_self, n, hn, hsrc⟩
    · obtain ⟨y, hy, n, hn, hsrc⟩ := i1 s hs
      rw [storeNames_congr _ _ f1.cb] at hn
      exact ⟨y, List.mem_cons_of_mem _ hy, n, hn, hsrc⟩

/-! ### the calls of the loader closure -/

theorem env_loaderCalls_sub (e : Env) (name n : Str) (h : n ∈ e.loaderCalls name) : n = name := by
  unfold Env.loaderCalls at h
  cases hl : lookup name e.cache <;> simp [hl] at h
  exact h

theorem fetch_keeps (g : Engine) (fs : Snapshot) (e : Entry) (n p : Str) :
    (g.fetch fs e n p).2.cb = g.cb ∧ (g.fetch fs e n p).2.env.loader = g.env.loader := by
  refine ⟨rfl, ?_⟩
  simp only [Engine.fetch, Env.get]
  cases lookup (g.storeName e n p) g.env.cache with
  | some t => rfl
  | none =>
    simp only []
    cases g.env.loader.load fs (g.storeName e n p) <;> rfl

theorem listCalls_sub (fs : Snapshot) (parent : Str) (names : List Str) (g : Engine) (n : Str)
    (h : n ∈ g.listCalls fs parent names) : n ∈ names.map fun m => g.storeName .includeStmt m parent := by
  induction names generalizing g with
  | nil => simp [Engine.listCalls] at h
  | cons m rest ih =>
    simp only [Engine.listCalls, List.mem_append] at h
    rcases h with h | h
    · rw [env_loaderCalls_sub _ _ _ h]; simp
    · cases hr : (g.fetch fs .includeStmt m parent).1 with
      | missing =>
        simp only [hr] at h
        have := ih _ h
        simp only [List.mem_map] at this ⊢
        obtain ⟨k, hk, e⟩ := this
        rw [storeName_congr _ _ (fetch_keeps g fs .includeStmt m parent).1] at e
        exact ⟨k, List.mem_cons_of_mem _ hk, e⟩
      | found t => simp [hr] at h
      | unreadable => simp [hr] at h

/-- the loader closure is only ever called with a name the store was asked for -/
theorem loaderCalls_sub_storeNames (g : Engine) (fs : Snapshot) (r : Req) (n : Str)
    (h : n ∈ g.loaderCalls fs r) : n ∈ g.storeNames r := by
  cases r with
  | one e m p =>
    simp only [Engine.loaderCalls] at h
    rw [env_loaderCalls_sub _ _ _ h]; simp [Engine.storeNames]
  | choices ns p => exact listCalls_sub fs p ns g n h

end MJ.Path
