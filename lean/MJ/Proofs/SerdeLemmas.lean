import MJ.Model.Serde
/-! Helper lemmas for the serde round trip (C16). -/
namespace MJ.Serde

theorem mapMR_map_ok {α β : Type} (f : α → R β) (g : β → α) (l : List β)
    (h : ∀ b ∈ l, f (g b) = .ok b) : mapMR f (l.map g) = .ok l := by
  induction l with
  | nil => rfl
  | cons b bs ih =>
    have hb := h b (by simp)
    have ht := ih (fun x hx => h x (by simp [hx]))
    simp [mapMR, hb, ht]

/-! ### building a map from entries with pairwise different keys -/

theorem mapInsert_fresh (m : List (V × V)) (k v : V)
    (h : ∀ p ∈ m, keyEq p.1 k = false) : mapInsert m k v = m ++ [(k, v)] := by
  induction m with
  | nil => rfl
  | cons p ps ih =>
    obtain ⟨k', v'⟩ := p
    have h1 : keyEq k' k = false := h (k', v') (by simp)
    have h2 := ih (fun q hq => h q (by simp [hq]))
    simp [mapInsert, h1, h2]

theorem foldl_mapInsert (l acc : List (V × V))
    (hacc : ∀ p ∈ acc, ∀ q ∈ l, keyEq p.1 q.1 = false)
    (hl : distinctKeys (l.map Prod.fst) = true) :
    l.foldl (fun m p => mapInsert m p.1 p.2) acc = acc ++ l := by
  induction l generalizing acc with
  | nil => simp
  | cons p ps ih =>
    simp only [List.foldl_cons]
    have hfresh : mapInsert acc p.1 p.2 = acc ++ [(p.1, p.2)] :=
      mapInsert_fresh acc p.1 p.2 (fun q hq => hacc q hq p (by simp))
    rw [hfresh]
    simp only [List.map_cons, distinctKeys, Bool.and_eq_true, List.all_eq_true] at hl
    rw [ih]
    · simp
    · intro q hq r hr
      simp only [List.mem_append, List.mem_singleton] at hq
      rcases hq with hq | hq
      · exact hacc q hq r (by simp [hr])
      · subst hq
        have := hl.1 r.1 (by simp; exact ⟨r.2, hr⟩)
        simpa using this
    · exact hl.2

theorem buildMap_distinct (l : List (V × V)) (hl : distinctKeys (l.map Prod.fst) = true) :
    buildMap l = l := by
  unfold buildMap
  rw [foldl_mapInsert l [] (by simp) hl]
  simp

/-! ### struct fields by name -/

theorem lookupStr_append_none (n : Str) (pre post : List (V × V)) (h : lookupStr n pre = none) :
    lookupStr n (pre ++ post) = lookupStr n post := by
  induction pre with
  | nil => rfl
  | cons p ps ih =>
    obtain ⟨k, v⟩ := p
    cases k <;> simp only [List.cons_append, lookupStr] at h ⊢ <;> try exact ih h
    rename_i s safe
    by_cases hs : s = n
    · simp [hs] at h
    · simp only [hs, if_false] at h ⊢
      exact ih h

theorem lookupStr_snoc_ne (n m : Str) (pre : List (V × V)) (v : V) (h : lookupStr n pre = none) (hne : m ≠ n) :
    lookupStr n (pre ++ [(.str m false, v)]) = none := by
  rw [lookupStr_append_none n pre _ h]
  simp [lookupStr, hne]

theorem allStrKeys_zipKeys (names : List Str) (vs : List V) : allStrKeys (zipKeys names vs) = true := by
  induction names generalizing vs with
  | nil => simp [zipKeys, allStrKeys]
  | cons n ns ih =>
    cases vs with
    | nil => simp [zipKeys, allStrKeys]
    | cons v vs => simp [zipKeys, allStrKeys, ih]

/-! ### variants by name -/

theorem findName_mem (n : Str) : ∀ (names : List Str), n ∈ names → ∃ i, findName n names = some i
  | [], h => by simp at h
  | m :: ms, h => by
    simp only [findName]
    by_cases hm : m = n
    · exact ⟨0, by simp [hm]⟩
    · simp only [hm, if_false]
      have : n ∈ ms := by
        simp only [List.mem_cons] at h
        rcases h with h | h
        · exact absurd h.symm hm
        · exact h
      obtain ⟨i, hi⟩ := findName_mem n ms this
      exact ⟨i + 1, by simp [hi]⟩

/-- a serialised struct has no entry that names no field: nothing is ignored -/
theorem ignoredOK_zipKeys (all : List Str) : ∀ (ns : List Str) (vs : List V), (∀ n ∈ ns, n ∈ all) →
    ignoredOK all (zipKeys ns vs) = .ok ()
  | [], vs, _ => by simp [zipKeys, ignoredOK]
  | n :: ns, [], _ => by simp [zipKeys, ignoredOK]
  | n :: ns, v :: vs, h => by
    obtain ⟨i, hi⟩ := findName_mem n all (h n (by simp))
    simp only [zipKeys, ignoredOK, hi]
    exact ignoredOK_zipKeys all ns vs (fun m hm => h m (by simp [hm]))

theorem findName_of_getElem? (names : List Str) (i : Nat) (n : Str)
    (hnd : nodupStr names = true) (hi : names[i]? = some n) : findName n names = some i := by
  induction names generalizing i with
  | nil => simp at hi
  | cons m ms ih =>
    simp only [nodupStr, Bool.and_eq_true, Bool.not_eq_true'] at hnd
    cases i with
    | zero =>
      simp at hi
      simp [findName, hi]
    | succ j =>
      simp at hi
      have hmem : n ∈ ms := List.mem_of_getElem? hi
      have hne : m ≠ n := by
        intro h
        subst h
        have := hnd.1
        simp [hmem] at this
      simp [findName, hne, ih j hnd.2 hi]

theorem serVariant_of_getElem? (names : List Str) (vs : List VShape) (i : Nat) (p : D) (n : Str) (v : VShape)
    (hn : names[i]? = some n) (hv : vs[i]? = some v) : serVariant names vs i p = serV n v p := by
  induction names generalizing vs i with
  | nil => simp at hn
  | cons m ms ih =>
    cases vs with
    | nil => simp at hv
    | cons w ws =>
      cases i with
      | zero =>
        simp at hn hv
        subst hn; subst hv
        simp [serVariant]
      | succ j =>
        simp at hn hv
        simp [serVariant, ih ws j hn hv]

theorem deVariant_of_getElem? (vs : List VShape) (i orig : Nat) (payload : Option V) (v : VShape)
    (hv : vs[i]? = some v) :
    deVariant vs i orig payload = mapOk (D.variant orig) (deV v payload) := by
  induction vs generalizing i with
  | nil => simp at hv
  | cons w ws ih =>
    cases i with
    | zero =>
      simp at hv
      subst hv
      simp [deVariant]
    | succ j =>
      simp at hv
      simp [deVariant, ih j hv]

theorem wfVariant_getElem? (vs : List VShape) (i : Nat) (p : D) (h : wfVariant vs i p = true) :
    ∃ v, vs[i]? = some v ∧ wfV v p = true := by
  induction vs generalizing i with
  | nil => simp [wfVariant] at h
  | cons w ws ih =>
    cases i with
    | zero => exact ⟨w, by simp, by simpa [wfVariant] using h⟩
    | succ j =>
      obtain ⟨v, hv, hw⟩ := ih j (by simpa [wfVariant] using h)
      exact ⟨v, by simpa using hv, hw⟩

theorem serList_length (ss : List Shape) (ds : List D) (h : wfList ss ds = true) :
    (serList ss ds).length = ss.length := by
  induction ss generalizing ds with
  | nil => cases ds <;> simp [wfList] at h; simp [serList]
  | cons s ss ih =>
    cases ds with
    | nil => simp [wfList] at h
    | cons d ds =>
      simp [wfList] at h
      simp [serList, ih ds h.2]

end MJ.Serde
