import MJ.Model.CollD
/-!
# Lemmas for the derived dictionaries of `MJ.CollD`
-/
namespace MJ.CollD

section generic
variable {κ ν : Type} (cmp : κ → κ → Ordering)

/-! ## `ins` -/

theorem ins_keys_sub (k : κ) (v : ν) : ∀ (acc : List (κ × ν)) (x : κ),
    x ∈ (ins cmp k v acc).map Prod.fst → x = k ∨ x ∈ acc.map Prod.fst
  | [], x, h => by simp [ins] at h; exact Or.inl h
  | (k', v') :: ps, x, h => by
    unfold ins at h
    split at h
    · simp at h ⊢; rcases h with h | h | h
      · exact Or.inl h
      · exact Or.inr (Or.inl h)
      · exact Or.inr (Or.inr h)
    · simp at h ⊢; rcases h with h | h
      · exact Or.inr (Or.inl h)
      · exact Or.inr (Or.inr h)
    · simp only [List.map_cons, List.mem_cons] at h ⊢
      rcases h with h | h
      · exact Or.inr (Or.inl h)
      · rcases ins_keys_sub k v ps x h with h | h
        · exact Or.inl h
        · exact Or.inr (Or.inr h)

theorem ins_keeps (k : κ) (v : ν) : ∀ (acc : List (κ × ν)) (x : κ),
    x ∈ acc.map Prod.fst → x ∈ (ins cmp k v acc).map Prod.fst
  | [], x, h => by simp at h
  | (k', v') :: ps, x, h => by
    unfold ins
    simp only [List.map_cons, List.mem_cons] at h
    split
    · simp only [List.map_cons, List.mem_cons]; exact Or.inr h
    · simp only [List.map_cons, List.mem_cons]; exact h
    · simp only [List.map_cons, List.mem_cons]
      rcases h with h | h
      · exact Or.inl h
      · exact Or.inr (ins_keeps k v ps x h)

theorem ins_has (k : κ) (v : ν) (hrefl : cmp k k = .eq) : ∀ (acc : List (κ × ν)),
    ∃ k' ∈ (ins cmp k v acc).map Prod.fst, cmp k k' = .eq
  | [] => ⟨k, by simp [ins], hrefl⟩
  | (k', v') :: ps => by
    unfold ins
    split
    · exact ⟨k, by simp, hrefl⟩
    · next h => exact ⟨k', by simp, h⟩
    · obtain ⟨x, hx, hc⟩ := ins_has k v hrefl ps
      exact ⟨x, by simp only [List.map_cons, List.mem_cons]; exact Or.inr hx, hc⟩

/-! ## folding keys into a set -/

theorem foldIns_sub : ∀ (ks : List κ) (init : List (κ × Unit)) (x : κ),
    x ∈ (ks.foldl (fun acc k => ins cmp k () acc) init).map Prod.fst → x ∈ ks ∨ x ∈ init.map Prod.fst
  | [], init, x, h => Or.inr h
  | k :: ks, init, x, h => by
    simp only [List.foldl_cons] at h
    rcases foldIns_sub ks _ x h with h | h
    · exact Or.inl (List.mem_cons_of_mem _ h)
    · rcases ins_keys_sub cmp k () init x h with h | h
      · exact Or.inl (h ▸ List.mem_cons_self)
      · exact Or.inr h

theorem foldIns_keeps : ∀ (ks : List κ) (init : List (κ × Unit)) (x : κ),
    x ∈ init.map Prod.fst → x ∈ (ks.foldl (fun acc k => ins cmp k () acc) init).map Prod.fst
  | [], _, _, h => h
  | k :: ks, init, x, h => by
    simp only [List.foldl_cons]
    exact foldIns_keeps ks _ x (ins_keeps cmp k () init x h)

theorem foldIns_has : ∀ (ks : List κ) (init : List (κ × Unit)) (x : κ), x ∈ ks → cmp x x = .eq →
    ∃ k' ∈ (ks.foldl (fun acc k => ins cmp k () acc) init).map Prod.fst, cmp x k' = .eq
  | [], _, _, h, _ => by simp at h
  | k :: ks, init, x, h, hr => by
    simp only [List.foldl_cons]
    rcases List.mem_cons.mp h with h | h
    · subst h
      obtain ⟨k', hk', hc⟩ := ins_has cmp x () hr init
      exact ⟨k', foldIns_keeps cmp ks _ k' hk', hc⟩
    · exact foldIns_has ks _ x h hr

/-! ## `get` -/

theorem get_isSome_iff (k : κ) : ∀ (ps : List (κ × ν)),
    (get cmp k ps).isSome = true ↔ ∃ p ∈ ps, cmp k p.1 = .eq
  | [] => by simp [get]
  | (k', v') :: ps => by
    unfold get
    by_cases h : cmp k k' = .eq
    · simp [h]
    · simp only [h, if_false, List.mem_cons]
      rw [get_isSome_iff k ps]
      constructor
      · rintro ⟨p, hp, hc⟩; exact ⟨p, Or.inr hp, hc⟩
      · rintro ⟨p, hp | hp, hc⟩
        · subst hp; exact absurd hc h
        · exact ⟨p, hp, hc⟩

/-! ## the merged dictionary -/

theorem mergeGet_isSome (isUndef : ν → Bool) (undef : ν) (maps : List (List (κ × ν))) (k : κ) :
    (mergeGet cmp isUndef undef maps k).isSome = maps.any (fun ps => (get cmp k ps).isSome) := by
  unfold mergeGet
  split
  · next v h =>
    obtain ⟨ps, hps, hf⟩ := List.exists_of_findSome?_eq_some h
    have : (get cmp k ps).isSome = true := by
      cases hg : get cmp k ps with
      | none => simp [hg] at hf
      | some w => rfl
    simp only [Option.isSome_some]
    symm
    exact List.any_eq_true.mpr ⟨ps, List.mem_reverse.mp hps, this⟩
  · by_cases h : maps.any (fun ps => (get cmp k ps).isSome) = true
    · simp [h]
    · simp [h]

theorem mergeKeys_sub (maps : List (List (κ × ν))) (x : κ) (h : x ∈ mergeKeys cmp maps) :
    ∃ ps ∈ maps, ∃ p ∈ ps, p.1 = x := by
  unfold mergeKeys at h
  rcases foldIns_sub cmp _ [] x h with h | h
  · simp only [List.mem_flatMap, List.mem_map] at h
    obtain ⟨ps, hps, p, hp, rfl⟩ := h
    exact ⟨ps, hps, p, hp, rfl⟩
  · simp at h

theorem mergeKeys_has (maps : List (List (κ × ν))) (ps : List (κ × ν)) (hps : ps ∈ maps) (p : κ × ν) (hp : p ∈ ps)
    (hr : cmp p.1 p.1 = .eq) : ∃ k' ∈ mergeKeys cmp maps, cmp p.1 k' = .eq := by
  unfold mergeKeys
  apply foldIns_has cmp _ [] p.1 _ hr
  simp only [List.mem_flatMap, List.mem_map]
  exact ⟨ps, hps, p, hp, rfl⟩

/-- what a merged dictionary FINDS is what it LISTS: `merged[k]` / `k in merged` succeed exactly for the probes
    that are `Equal` to a listed key — for every comparison that is reflexive and whose `Equal` is transitive on
    the keys present -/
theorem merge_lookup_iff_listed (P : κ → Prop)
    (hrefl : ∀ a, P a → cmp a a = .eq)
    (htr : ∀ a b c, P a → P b → P c → cmp a b = .eq → cmp b c = .eq → cmp a c = .eq)
    (isUndef : ν → Bool) (undef : ν) (maps : List (List (κ × ν))) (k : κ)
    (hP : ∀ ps ∈ maps, ∀ p ∈ ps, P p.1) (hk : P k) :
    (mergeGet cmp isUndef undef maps k).isSome = true ↔ ∃ k' ∈ mergeKeys cmp maps, cmp k k' = .eq := by
  rw [mergeGet_isSome, List.any_eq_true]
  constructor
  · rintro ⟨ps, hps, hg⟩
    obtain ⟨p, hp, hc⟩ := (get_isSome_iff cmp k ps).mp hg
    obtain ⟨k', hk', hc'⟩ := mergeKeys_has cmp maps ps hps p hp (hrefl _ (hP ps hps p hp))
    obtain ⟨qs, hqs, q, hq, rfl⟩ := mergeKeys_sub cmp maps k' hk'
    exact ⟨q.1, hk', htr _ _ _ hk (hP ps hps p hp) (hP qs hqs q hq) hc hc'⟩
  · rintro ⟨k', hk', hc⟩
    obtain ⟨qs, hqs, q, hq, rfl⟩ := mergeKeys_sub cmp maps k' hk'
    exact ⟨qs, hqs, (get_isSome_iff cmp k qs).mpr ⟨q, hq, hc⟩⟩

/-! ## the copy -/

theorem ins_perm (k : κ) (v : ν) : ∀ (acc : List (κ × ν)), (∀ x ∈ acc, cmp k x.1 ≠ .eq) →
    (ins cmp k v acc).Perm ((k, v) :: acc)
  | [], _ => by simp [ins]
  | (k', v') :: ps, h => by
    unfold ins
    split
    · exact List.Perm.refl _
    · next he => exact absurd he (h (k', v') List.mem_cons_self)
    · have ih := ins_perm k v ps (fun x hx => h x (List.mem_cons_of_mem _ hx))
      exact (List.Perm.cons _ ih).trans (List.Perm.swap _ _ _)

theorem foldIns_perm : ∀ (ps acc : List (κ × ν)),
    ps.Pairwise (fun p q => cmp q.1 p.1 ≠ .eq) → (∀ p ∈ ps, ∀ x ∈ acc, cmp p.1 x.1 ≠ .eq) →
    (ps.foldl (fun acc p => ins cmp p.1 p.2 acc) acc).Perm (ps ++ acc)
  | [], acc, _, _ => by simp
  | p :: ps, acc, hpw, hacc => by
    simp only [List.foldl_cons]
    have h1 := ins_perm cmp p.1 p.2 acc (fun x hx => hacc p List.mem_cons_self x hx)
    have hpw' := List.pairwise_cons.mp hpw
    have ih := foldIns_perm ps (ins cmp p.1 p.2 acc) hpw'.2 (by
      intro q hq x hx
      rcases List.mem_cons.mp (h1.mem_iff.mp hx) with hx | hx
      · subst hx; exact hpw'.1 q hq
      · exact hacc q (List.mem_cons_of_mem _ hq) x hx)
    refine ih.trans ?_
    have : (ps ++ ins cmp p.1 p.2 acc).Perm (ps ++ (p.1, p.2) :: acc) := List.Perm.append_left _ h1
    refine this.trans ?_
    exact (List.perm_middle).trans (List.Perm.refl _)

/-- `dict(m)` holds exactly the entries of a map whose keys are pairwise not `Equal` (no law of the comparison
    is needed) -/
theorem dictCopy_perm (ps : List (κ × ν)) (hpw : ps.Pairwise (fun p q => cmp q.1 p.1 ≠ .eq)) :
    (dictCopy cmp ps).Perm ps := by
  have := foldIns_perm cmp ps [] hpw (by simp)
  simpa [dictCopy] using this

/-! ## the listing is strictly increasing: a key is listed once -/

theorem ins_mem (k : κ) (v : ν) : ∀ (ps : List (κ × ν)) (p : κ × ν), p ∈ ins cmp k v ps →
    p.1 = k ∨ ∃ q ∈ ps, q.1 = p.1
  | [], p, h => by simp [ins] at h; left; rw [h]
  | (k', v') :: ps, p, h => by
    unfold ins at h
    split at h
    · rcases List.mem_cons.mp h with rfl | h
      · left; rfl
      · right; exact ⟨p, h, rfl⟩
    · rcases List.mem_cons.mp h with rfl | h
      · right; exact ⟨(k', v'), List.mem_cons_self, rfl⟩
      · right; exact ⟨p, List.mem_cons_of_mem _ h, rfl⟩
    · rcases List.mem_cons.mp h with rfl | h
      · right; exact ⟨(k', v'), List.mem_cons_self, rfl⟩
      · rcases ins_mem k v ps p h with h | ⟨q, hq, e⟩
        · left; exact h
        · right; exact ⟨q, List.mem_cons_of_mem _ hq, e⟩

/-- keys strictly increasing -/
def Sorted (ps : List (κ × ν)) : Prop := (ps.map (·.1)).Pairwise (fun a b => cmp a b = .lt)

/-- inserting keeps the entries strictly increasing — for a comparison whose `Less` is transitive and whose
    `Greater` mirrors `Less` on the keys present (`P`) -/
theorem ins_sorted (P : κ → Prop)
    (hlt : ∀ a b c, P a → P b → P c → cmp a b = .lt → cmp b c = .lt → cmp a c = .lt)
    (hgt : ∀ a b, P a → P b → cmp a b = .gt → cmp b a = .lt)
    (k : κ) (v : ν) (hk : P k) : ∀ (ps : List (κ × ν)),
    (∀ p ∈ ps, P p.1) → Sorted cmp ps → Sorted cmp (ins cmp k v ps)
  | [], _, _ => by simp [ins, Sorted]
  | (k', v') :: ps, hr, hs => by
    have hk' : P k' := hr (k', v') List.mem_cons_self
    have hr' : ∀ p ∈ ps, P p.1 := fun p hp => hr p (List.mem_cons_of_mem _ hp)
    unfold Sorted at hs ⊢
    simp only [List.map_cons, List.pairwise_cons] at hs
    obtain ⟨h1, h2⟩ := hs
    unfold ins
    split
    · rename_i hl
      simp only [List.map_cons, List.pairwise_cons]
      refine ⟨?_, h1, h2⟩
      intro a ha
      rcases List.mem_cons.mp ha with rfl | ha
      · exact hl
      · obtain ⟨p, hp, rfl⟩ := List.mem_map.mp ha
        exact hlt _ _ _ hk hk' (hr' p hp) hl (h1 p.1 ha)
    · simp only [List.map_cons, List.pairwise_cons]
      exact ⟨h1, h2⟩
    · rename_i hg
      have ih := ins_sorted P hlt hgt k v hk ps hr' h2
      unfold Sorted at ih
      simp only [List.map_cons, List.pairwise_cons]
      refine ⟨?_, ih⟩
      intro a ha
      obtain ⟨p, hp, rfl⟩ := List.mem_map.mp ha
      rcases ins_mem cmp k v ps p hp with e | ⟨q, hq, e⟩
      · rw [e]; exact hgt _ _ hk hk' hg
      · rw [← e]; exact h1 q.1 (List.mem_map.mpr ⟨q, hq, rfl⟩)

theorem foldIns_sorted (P : κ → Prop)
    (hlt : ∀ a b c, P a → P b → P c → cmp a b = .lt → cmp b c = .lt → cmp a c = .lt)
    (hgt : ∀ a b, P a → P b → cmp a b = .gt → cmp b a = .lt) :
    ∀ (ps acc : List (κ × ν)), (∀ p ∈ ps, P p.1) → (∀ p ∈ acc, P p.1) → Sorted cmp acc →
    (∀ p ∈ ps.foldl (fun acc p => ins cmp p.1 p.2 acc) acc, P p.1) ∧
    Sorted cmp (ps.foldl (fun acc p => ins cmp p.1 p.2 acc) acc)
  | [], acc, _, ha, hs => ⟨ha, hs⟩
  | p :: ps, acc, hp, ha, hs => by
    simp only [List.foldl_cons]
    apply foldIns_sorted P hlt hgt ps
    · exact fun q hq => hp q (List.mem_cons_of_mem _ hq)
    · intro q hq
      rcases ins_mem cmp p.1 p.2 acc q hq with e | ⟨q', hq', e⟩
      · rw [e]; exact hp p List.mem_cons_self
      · rw [← e]; exact ha q' hq'
    · exact ins_sorted cmp P hlt hgt p.1 p.2 (hp p List.mem_cons_self) acc ha hs

/-- `dict(m)` iterates in strictly increasing key order -/
theorem dictCopy_sorted (P : κ → Prop)
    (hlt : ∀ a b c, P a → P b → P c → cmp a b = .lt → cmp b c = .lt → cmp a c = .lt)
    (hgt : ∀ a b, P a → P b → cmp a b = .gt → cmp b a = .lt)
    (ps : List (κ × ν)) (h : ∀ p ∈ ps, P p.1) : Sorted cmp (dictCopy cmp ps) :=
  (foldIns_sorted cmp P hlt hgt ps [] h (by simp) (by simp [Sorted])).2

/-- a merged dictionary lists its keys in strictly increasing order: every key once -/
theorem mergeKeys_sorted (P : κ → Prop)
    (hlt : ∀ a b c, P a → P b → P c → cmp a b = .lt → cmp b c = .lt → cmp a c = .lt)
    (hgt : ∀ a b, P a → P b → cmp a b = .gt → cmp b a = .lt)
    (maps : List (List (κ × ν))) (h : ∀ ps ∈ maps, ∀ p ∈ ps, P p.1) :
    (mergeKeys cmp maps).Pairwise (fun a b => cmp a b = .lt) := by
  have hk : ∀ k ∈ maps.flatMap (fun ps => ps.map Prod.fst), P k := by
    intro k hk
    simp only [List.mem_flatMap, List.mem_map] at hk
    obtain ⟨ps, hps, p, hp, rfl⟩ := hk
    exact h ps hps p hp
  have := (foldIns_sorted cmp P hlt hgt ((maps.flatMap (fun ps => ps.map Prod.fst)).map (fun k => (k, ()))) []
    (by intro p hp; obtain ⟨k, hk', rfl⟩ := List.mem_map.mp hp; exact hk k hk') (by simp) (by simp [Sorted])).2
  unfold mergeKeys
  rw [List.foldl_map] at this
  exact this

end generic

end MJ.CollD
