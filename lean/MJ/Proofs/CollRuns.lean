import MJ.Model.Coll
/-!
# batch and slice: a split into runs whose concatenation is the input, with the promised lengths
-/
namespace MJ.Coll
open MJ

variable {α : Type}

/-! ## batch -/

theorem batchLoop_spec (n : Nat) (hn : 0 < n) (xs tmp : List α) (rv : List (List α))
    (ht : tmp.length ≤ n) :
    ∃ mid, (batchLoop n xs tmp rv).1 = rv ++ mid ∧ (∀ r ∈ mid, r.length = n) ∧
      mid.flatten ++ (batchLoop n xs tmp rv).2 = tmp ++ xs ∧
      (batchLoop n xs tmp rv).2.length ≤ n ∧
      ((batchLoop n xs tmp rv).2 = [] → tmp = [] ∧ xs = []) := by
  induction xs generalizing tmp rv with
  | nil => exact ⟨[], by simp [batchLoop], by simp, by simp [batchLoop], by simp [batchLoop, ht], by simp [batchLoop]⟩
  | cons x xs ih =>
    unfold batchLoop
    by_cases h : tmp.length = n
    · rw [if_pos h]
      obtain ⟨mid, h1, h2, h3, h4, h5⟩ := ih [x] (rv ++ [tmp]) (by simp; omega)
      refine ⟨tmp :: mid, by simp [h1], ?_, ?_, h4, ?_⟩
      · intro r hr
        rcases List.mem_cons.mp hr with rfl | hr
        · exact h
        · exact h2 r hr
      · simp only [List.flatten_cons, List.append_assoc, h3]; simp
      · intro he; have := (h5 he).1; simp at this
    · rw [if_neg h]
      obtain ⟨mid, h1, h2, h3, h4, h5⟩ := ih (tmp ++ [x]) rv (by simp; omega)
      refine ⟨mid, h1, h2, by simp [h3], h4, ?_⟩
      intro he; have := (h5 he).1; simp at this

/-- `batch` without a fill value: the runs concatenate to the input; every run but the last has
    exactly `count` items, the last between 1 and `count` -/
theorem batch_nofill (xs : List α) (n : Nat) (hn : 0 < n) :
    ∃ rs, batch xs n none = .ok rs ∧ rs.flatten = xs ∧
      (∀ r ∈ rs.dropLast, r.length = n) ∧
      (∀ r, rs.getLast? = some r → 0 < r.length ∧ r.length ≤ n) := by
  obtain ⟨mid, h1, h2, h3, h4, h5⟩ := batchLoop_spec n hn xs [] [] (by simp)
  simp only [List.nil_append] at h1 h3
  unfold batch
  rw [if_neg (by omega)]
  generalize hb : batchLoop n xs [] [] = res at *
  obtain ⟨rv, tmp⟩ := res
  simp only at h1 h3 h4 h5 ⊢
  subst h1
  cases tmp with
  | nil =>
    refine ⟨rv, by simp, by simpa using h3, ?_, ?_⟩
    · intro r hr; exact h2 r (List.dropLast_subset _ hr)
    · intro r hr
      have := h2 r (List.mem_of_getLast? hr)
      omega
  | cons a t =>
    refine ⟨rv ++ [a :: t], by simp, by simpa using h3, ?_, ?_⟩
    · intro r hr
      rw [List.dropLast_concat] at hr
      exact h2 r hr
    · intro r hr
      rw [List.getLast?_concat] at hr
      cases hr
      simp at h4 ⊢
      exact h4

/-- `batch` with a fill value: every run has exactly `count` items; the runs concatenate to the
    input followed by fewer than `count` copies of the filler (or the request is refused with an
    error when the last run cannot be allocated); never a panic -/
theorem batch_fill (xs : List α) (n : Nat) (hn : 0 < n) (f : α) :
    batch xs n (some f) = .error ∨
    ∃ rs k, batch xs n (some f) = .ok rs ∧ k < n ∧ rs.flatten = xs ++ List.replicate k f ∧
      ∀ r ∈ rs, r.length = n := by
  obtain ⟨mid, h1, h2, h3, h4, h5⟩ := batchLoop_spec n hn xs [] [] (by simp)
  simp only [List.nil_append] at h1 h3
  unfold batch
  rw [if_neg (by omega)]
  generalize hb : batchLoop n xs [] [] = res at *
  obtain ⟨rv, tmp⟩ := res
  simp only at h1 h3 h4 h5 ⊢
  subst h1
  cases tmp with
  | nil =>
    right
    exact ⟨rv, 0, by simp, hn, by simpa using h3, h2⟩
  | cons a t =>
    simp only [List.isEmpty_cons, Bool.false_eq_true, if_false]
    generalize hl : (a :: t).length = tl at *
    have hl0 : 0 < tl := by rw [← hl]; simp
    have hlen : ¬ n < tl := by omega
    rw [if_neg hlen]
    by_cases hres : reservable (tl + (n - tl)) = true
    · right
      simp only [hres, Bool.not_true, Bool.false_eq_true, if_false]
      refine ⟨_, n - tl, rfl, ?_, ?_, ?_⟩
      · omega
      · simp only [List.flatten_append, List.flatten_cons, List.flatten_nil, List.append_nil]
        rw [← List.append_assoc, h3]
      · intro r hr
        rcases List.mem_append.mp hr with hr | hr
        · exact h2 r hr
        · simp only [List.mem_singleton] at hr
          subst hr
          rw [List.length_append, List.length_replicate, hl]; omega
    · left
      simp [hres]

theorem batch_zero (xs : List α) (fill : Option α) : batch xs 0 fill = .error := by
  simp [batch]

/-! ## slice -/

/-- length of run `i`: the first `extra` runs get one more item -/
def runLen (ips extra i : Nat) : Nat := ips + (if i < extra then 1 else 0)
/-- where run `i` starts -/
def pos (ips extra i : Nat) : Nat := min i extra + i * ips

theorem pos_succ (ips extra i : Nat) : pos ips extra (i + 1) = pos ips extra i + runLen ips extra i := by
  unfold pos runLen
  by_cases h : i < extra
  · rw [if_pos h, Nat.min_eq_left (by omega), Nat.min_eq_left (by omega), Nat.succ_mul]; omega
  · rw [if_neg h, Nat.min_eq_right (by omega), Nat.min_eq_right (by omega), Nat.succ_mul]; omega

theorem pos_mono (ips extra i j : Nat) (h : i ≤ j) : pos ips extra i ≤ pos ips extra j := by
  induction j with
  | zero => have : i = 0 := by omega
            subst this; exact Nat.le_refl _
  | succ j ih =>
    by_cases hij : i = j + 1
    · subst hij; exact Nat.le_refl _
    · have := ih (by omega)
      rw [pos_succ]; omega

/-- the run the loop produces in iteration `i` -/
def runOf (xs : List α) (ips extra : Nat) (fill : Option α) (i : Nat) : List α :=
  let tmp := (xs.drop (pos ips extra i)).take (runLen ips extra i)
  match fill with
  | some f => if extra ≤ i then tmp ++ [f] else tmp
  | none => tmp

theorem bind_ok {β γ : Type} (a : β) (f : β → Chk γ) : (Chk.ok a).bind f = f a := rfl

theorem usize_nat (n : Nat) (h : n < 18446744073709551616) : Chk.usize (n : Int) = .ok n := by
  unfold Chk.usize
  rw [if_pos ⟨by omega, by omega⟩]
  congr 1

/-- the loop never panics and yields exactly the runs `runOf` describes -/
theorem sliceLoop_spec (xs : List α) (ips extra : Nat) (fill : Option α) (n slice : Nat)
    (hlen : xs.length < 18446744073709551616)
    (hend : pos ips extra (slice + n) ≤ xs.length) :
    sliceLoop xs ips extra fill n slice (min slice extra) =
      .ok ((List.range n).map (fun j => runOf xs ips extra fill (slice + j))) := by
  induction n generalizing slice with
  | zero => simp [sliceLoop]
  | succ n ih =>
    have hp1 : pos ips extra (slice + 1) ≤ xs.length :=
      Nat.le_trans (pos_mono ips extra _ _ (by omega)) hend
    have hp0 : pos ips extra slice ≤ pos ips extra (slice + 1) := pos_mono ips extra _ _ (by omega)
    have hps := pos_succ ips extra slice
    have hoff' : (if slice < extra then min slice extra + 1 else min slice extra) = min (slice + 1) extra := by
      by_cases h : slice < extra
      · rw [if_pos h, Nat.min_eq_left (by omega), Nat.min_eq_left (by omega)]
      · rw [if_neg h, Nat.min_eq_right (by omega), Nat.min_eq_right (by omega)]
    have hA : pos ips extra slice = min slice extra + slice * ips := rfl
    have hB : pos ips extra (slice + 1) = min (slice + 1) extra + (slice + 1) * ips := rfl
    have hc1 : (slice : Int) * (ips : Int) = ((slice * ips : Nat) : Int) := (Int.natCast_mul _ _).symm
    have hc2 : ((slice : Int) + 1) * (ips : Int) = (((slice + 1) * ips : Nat) : Int) := by
      rw [Int.natCast_mul, Int.natCast_add]; rfl
    have ih' := ih (slice + 1) (by rw [show slice + 1 + n = slice + (n + 1) by omega]; exact hend)
    unfold sliceLoop
    rw [hc1, hc2, hoff']
    generalize slice * ips = A at *
    generalize (slice + 1) * ips = B at *
    rw [usize_nat A (by omega), bind_ok]
    rw [← Int.natCast_add, usize_nat _ (by omega), bind_ok]
    dsimp only
    rw [usize_nat (min (slice + 1) extra) (by omega), bind_ok]
    rw [usize_nat B (by omega), bind_ok]
    rw [← Int.natCast_add, usize_nat _ (by omega), bind_ok]
    rw [← hA, ← hB]
    have e6 : range xs (pos ips extra slice) (pos ips extra (slice + 1)) =
        .ok ((xs.drop (pos ips extra slice)).take (runLen ips extra slice)) := by
      unfold range
      rw [if_pos ⟨hp0, hp1⟩]
      congr 2; omega
    rw [e6, bind_ok, ih', bind_ok]
    rw [List.range_succ_eq_map]
    simp only [List.map_cons, List.map_map, Nat.add_zero]
    refine congrArg Chk.ok (List.cons_eq_cons.mpr ⟨?_, ?_⟩)
    · unfold runOf; cases fill <;> rfl
    · apply List.map_congr_left
      intro j _
      show runOf xs ips extra fill (slice + 1 + j) = runOf xs ips extra fill (slice + (j + 1))
      rw [show slice + 1 + j = slice + (j + 1) by omega]

theorem pos_count (len count : Nat) (hc : 0 < count) :
    pos (len / count) (len % count) count = len := by
  unfold pos
  have := Nat.mod_lt len hc
  rw [Nat.min_eq_right (by omega)]
  have h2 := Nat.div_add_mod len count
  generalize count * (len / count) = q at *
  omega

/-- `slice` never panics: with a positive count that can be reserved it returns exactly `count` runs -/
theorem slicef_ok (xs : List α) (count : Nat) (fill : Option α) (hc : 0 < count)
    (hr : reservable count = true) (hlen : xs.length < 18446744073709551616) :
    slicef xs count fill =
      .ok ((List.range count).map (runOf xs (xs.length / count) (xs.length % count) fill)) := by
  unfold slicef
  rw [if_neg (by omega)]
  simp only [hr, Bool.not_true, Bool.false_eq_true, if_false]
  have h := sliceLoop_spec xs (xs.length / count) (xs.length % count) fill count 0 hlen
    (by rw [Nat.zero_add, pos_count _ _ hc]; exact Nat.le_refl _)
  rw [Nat.zero_min] at h
  rw [h]
  simp only [Nat.zero_add]

theorem slicef_error (xs : List α) (count : Nat) (fill : Option α)
    (h : count = 0 ∨ reservable count = false) : slicef xs count fill = .error := by
  unfold slicef
  rcases h with h | h
  · simp [h]
  · by_cases h0 : count = 0
    · simp [h0]
    · simp [h0, h]

theorem pieces_flatten (xs : List α) (ips extra m : Nat) (hm : pos ips extra m ≤ xs.length) :
    ((List.range m).map (fun j => (xs.drop (pos ips extra j)).take (runLen ips extra j))).flatten =
      xs.take (pos ips extra m) := by
  induction m with
  | zero => simp [pos]
  | succ m ih =>
    have hle : pos ips extra m ≤ xs.length :=
      Nat.le_trans (pos_mono ips extra _ _ (by omega)) hm
    rw [List.range_succ, List.map_append, List.flatten_append, ih hle, pos_succ]
    simp only [List.map_cons, List.map_nil, List.flatten_cons, List.flatten_nil, List.append_nil]
    rw [List.take_add]

theorem runOf_length_nofill (xs : List α) (ips extra i : Nat) (h : pos ips extra (i + 1) ≤ xs.length) :
    (runOf xs ips extra none i).length = runLen ips extra i := by
  unfold runOf
  simp only [List.length_take, List.length_drop]
  rw [pos_succ] at h; omega

theorem runOf_length_fill (xs : List α) (ips extra i : Nat) (f : α) (h : pos ips extra (i + 1) ≤ xs.length) :
    (runOf xs ips extra (some f) i).length = ips + 1 := by
  unfold runOf
  rw [pos_succ] at h
  by_cases he : extra ≤ i
  · simp only [he, if_true, List.length_append, List.length_take, List.length_drop, List.length_singleton]
    unfold runLen at *
    rw [if_neg (by omega)] at h ⊢; omega
  · simp only [he, if_false, List.length_take, List.length_drop]
    unfold runLen at *
    rw [if_pos (by omega)] at h ⊢; omega

end MJ.Coll
