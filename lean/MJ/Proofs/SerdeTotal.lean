import MJ.Model.Serde
/-! `de` decides (ok / error) every object-free value for every value-free shape: the `unmodelled`
outcome only stands for dynamic objects and embedded-`Value` fields (C16). -/
namespace MJ.Serde

mutual
def objFree : V → Bool
  | .obj _ => false
  | .seq _ xs => objFreeList xs
  | .map kvs => objFreePairs kvs
  | _ => true
def objFreeList : List V → Bool
  | [] => true
  | x :: xs => objFree x && objFreeList xs
def objFreePairs : List (V × V) → Bool
  | [] => true
  | (k, v) :: rest => objFree k && objFree v && objFreePairs rest
end

mutual
def valueFree : Shape → Bool
  | .value => false
  | .opt s => valueFree s
  | .seq s => valueFree s
  | .nstruct s => valueFree s
  | .map k v => valueFree k && valueFree v
  | .tup ss => valueFreeList ss
  | .tstruct ss => valueFreeList ss
  | .struct _ ss => valueFreeList ss
  | .enum _ vs => valueFreeVs vs
  | _ => true
def valueFreeList : List Shape → Bool
  | [] => true
  | s :: ss => valueFree s && valueFreeList ss
def valueFreeVs : List VShape → Bool
  | [] => true
  | v :: vs => valueFreeV v && valueFreeVs vs
def valueFreeV : VShape → Bool
  | .unit => true
  | .newtype s => valueFree s
  | .tuple ss => valueFreeList ss
  | .struct _ ss => valueFreeList ss
end

/-- the result is `ok` or the error class `err` -/
def Decided {α : Type} (r : R α) : Prop := r ≠ .error .unmodelled

theorem decided_ok {α : Type} (a : α) : Decided (.ok a : R α) := by simp [Decided]
theorem decided_err {α : Type} : Decided (.error .err : R α) := by simp [Decided]

theorem decided_mapOk {α β : Type} (f : α → β) (r : R α) (h : Decided r) : Decided (mapOk f r) := by
  cases r with
  | ok a => simp [Decided]
  | error e => simpa [Decided, mapOk] using h

theorem decided_consR {α : Type} (a : R α) (l : R (List α)) (ha : Decided a) (hl : Decided l) :
    Decided (consR a l) := by
  cases a with
  | error e => simpa [Decided, consR] using ha
  | ok x =>
    cases l with
    | error e => simpa [Decided, consR] using hl
    | ok y => simp [Decided, consR]

theorem decided_pairR {α β : Type} (a : R α) (b : R β) (ha : Decided a) (hb : Decided b) :
    Decided (pairR a b) := by
  cases a with
  | error e => simpa [Decided, pairR] using ha
  | ok x =>
    cases b with
    | error e => simpa [Decided, pairR] using hb
    | ok y => simp [Decided, pairR]

theorem decided_mapMR {α β : Type} (f : α → R β) (l : List α) (h : ∀ x ∈ l, Decided (f x)) :
    Decided (mapMR f l) := by
  induction l with
  | nil => simp [mapMR, Decided]
  | cons x xs ih =>
    have hx := h x (by simp)
    have hxs := ih (fun y hy => h y (by simp [hy]))
    simp only [mapMR]
    cases hfx : f x with
    | error e => rw [hfx] at hx; simpa [Decided] using hx
    | ok y =>
      cases hm : mapMR f xs with
      | error e => rw [hm] at hxs; simpa [Decided] using hxs
      | ok ys => simp [Decided]

theorem objFreeList_mem (xs : List V) (h : objFreeList xs = true) : ∀ x ∈ xs, objFree x = true := by
  induction xs with
  | nil => simp
  | cons y ys ih =>
    simp only [objFreeList, Bool.and_eq_true] at h
    intro x hx
    simp only [List.mem_cons] at hx
    rcases hx with rfl | hx
    · exact h.1
    · exact ih h.2 x hx

theorem objFreePairs_mem (kvs : List (V × V)) (h : objFreePairs kvs = true) :
    ∀ p ∈ kvs, objFree p.1 = true ∧ objFree p.2 = true := by
  induction kvs with
  | nil => simp
  | cons q qs ih =>
    obtain ⟨k, v⟩ := q
    simp only [objFreePairs, Bool.and_eq_true] at h
    intro p hp
    simp only [List.mem_cons] at hp
    rcases hp with rfl | hp
    · exact ⟨h.1.1, h.1.2⟩
    · exact ih h.2 p hp

theorem decided_guardR {α : Type} (g : R Unit) (r : R α) (hg : Decided g) (hr : Decided r) : Decided (guardR g r) := by
  cases g with
  | ok u => simpa [guardR] using hr
  | error e => simpa [guardR, Decided] using hg

mutual
theorem decided_ignoreV : ∀ (v : V), objFree v = true → Decided (ignoreV v)
  | .undefined, _ => by simp [ignoreV, Decided]
  | .none, _ => by simp [ignoreV, Decided]
  | .bool _, _ => by simp [ignoreV, Decided]
  | .int _ _, _ => by simp [ignoreV, Decided]
  | .f64 _, _ => by simp [ignoreV, Decided]
  | .str _ _, _ => by simp [ignoreV, Decided]
  | .bytes _, _ => by simp [ignoreV, Decided]
  | .invalid, _ => by simp [ignoreV, Decided]
  | .obj _, h => by simp [objFree] at h
  | .seq _ xs, h => by
    simp only [objFree] at h
    simp only [ignoreV]
    exact decided_ignoreList xs h
  | .map kvs, h => by
    simp only [objFree] at h
    simp only [ignoreV]
    exact decided_ignorePairs kvs h
theorem decided_ignoreList : ∀ (xs : List V), objFreeList xs = true → Decided (ignoreList xs)
  | [], _ => by simp [ignoreList, Decided]
  | x :: xs, h => by
    simp only [objFreeList, Bool.and_eq_true] at h
    simp only [ignoreList]
    have hx := decided_ignoreV x h.1
    cases hi : ignoreV x with
    | ok u => exact decided_ignoreList xs h.2
    | error e => rw [hi] at hx; simpa [Decided] using hx
theorem decided_ignorePairs : ∀ (kvs : List (V × V)), objFreePairs kvs = true → Decided (ignorePairs kvs)
  | [], _ => by simp [ignorePairs, Decided]
  | (k, v) :: rest, h => by
    simp only [objFreePairs, Bool.and_eq_true] at h
    simp only [ignorePairs]
    have hk := decided_ignoreV k h.1.1
    have hv := decided_ignoreV v h.1.2
    cases hi : ignoreV k with
    | error e => rw [hi] at hk; simpa [Decided] using hk
    | ok u =>
      cases hj : ignoreV v with
      | error e => rw [hj] at hv; simpa [Decided] using hv
      | ok u' => exact decided_ignorePairs rest h.2
end

theorem decided_ignoredOK (names : List Str) : ∀ (kvs : List (V × V)), objFreePairs kvs = true → Decided (ignoredOK names kvs)
  | [], _ => by simp [ignoredOK, Decided]
  | (k, v) :: rest, h => by
    simp only [objFreePairs, Bool.and_eq_true] at h
    have ih := decided_ignoredOK names rest h.2
    cases k <;> simp only [ignoredOK] <;> try exact ih
    split
    · exact ih
    · exact decided_guardR _ _ (decided_ignoreV v h.1.2) ih

theorem decided_ignoredSlots : ∀ (slots : List (Option Nat × V)), (∀ p ∈ slots, objFree p.2 = true) → Decided (ignoredSlots slots)
  | [], _ => by simp [ignoredSlots, Decided]
  | (some i, v) :: rest, h => by
    simp only [ignoredSlots]
    exact decided_ignoredSlots rest (fun p hp => h p (by simp [hp]))
  | (none, v) :: rest, h => by
    simp only [ignoredSlots]
    exact decided_guardR _ _ (decided_ignoreV v (h (none, v) (by simp)))
      (decided_ignoredSlots rest (fun p hp => h p (by simp [hp])))

theorem decided_deByte (v : V) (h : objFree v = true) : Decided (deByte v) := by
  cases v <;> simp [deByte, Decided, objFree] at h ⊢
  split <;> simp

theorem lookupStr_objFree (n : Str) (kvs : List (V × V)) (h : objFreePairs kvs = true) (x : V)
    (hx : lookupStr n kvs = some x) : objFree x = true := by
  induction kvs with
  | nil => simp [lookupStr] at hx
  | cons q qs ih =>
    obtain ⟨k, v⟩ := q
    simp only [objFreePairs, Bool.and_eq_true] at h
    cases k <;> simp only [lookupStr] at hx <;> try exact ih h.2 hx
    split at hx
    · simp at hx; rw [← hx]; exact h.1.2
    · exact ih h.2 hx

theorem decided_fieldOfKey (names : List Str) (k : V) (h : objFree k = true) : Decided (fieldOfKey names k) := by
  cases k <;> simp [fieldOfKey, Decided, objFree] at h ⊢
  rename_i u i
  cases u <;> simp

theorem resolveKeys_spec (names : List Str) (kvs : List (V × V)) (h : objFreePairs kvs = true) :
    Decided (resolveKeys names kvs) ∧
      ∀ slots, resolveKeys names kvs = .ok slots → ∀ p ∈ slots, objFree p.2 = true := by
  induction kvs with
  | nil => simp [resolveKeys, Decided]
  | cons q qs ih =>
    obtain ⟨k, v⟩ := q
    simp only [objFreePairs, Bool.and_eq_true] at h
    obtain ⟨ihd, ihs⟩ := ih h.2
    have hk := decided_fieldOfKey names k h.1.1
    simp only [resolveKeys]
    cases hf : fieldOfKey names k with
    | error e => rw [hf] at hk; simp [Decided] at hk ⊢; exact hk
    | ok i =>
      cases hr : resolveKeys names qs with
      | error e => rw [hr] at ihd; simp [Decided] at ihd ⊢; exact ihd
      | ok l =>
        refine ⟨by simp [Decided], ?_⟩
        intro slots hs p hp
        simp at hs
        subst hs
        simp only [List.mem_cons] at hp
        rcases hp with rfl | hp
        · exact h.1.2
        · exact ihs l hr p hp

theorem findSlot_mem (i : Nat) (slots : List (Option Nat × V)) (x : V) (h : findSlot i slots = some x) :
    ∃ p ∈ slots, p.2 = x := by
  induction slots with
  | nil => simp [findSlot] at h
  | cons q qs ih =>
    obtain ⟨j, v⟩ := q
    simp only [findSlot] at h
    split at h
    · simp at h; exact ⟨(j, v), by simp, h⟩
    · obtain ⟨p, hp, hpx⟩ := ih h
      exact ⟨p, by simp [hp], hpx⟩

theorem decided_deVariant_aux (vs : List VShape) (i orig : Nat) (payload : Option V)
    (h : ∀ v ∈ vs, Decided (deV v payload)) : Decided (deVariant vs i orig payload) := by
  induction vs generalizing i with
  | nil => simp [deVariant, Decided]
  | cons w ws ih =>
    cases i with
    | zero =>
      simp only [deVariant]
      exact decided_mapOk _ _ (h w (by simp))
    | succ j =>
      simp only [deVariant]
      exact ih j (fun v hv => h v (by simp [hv]))

mutual
theorem decided_de : ∀ (s : Shape) (v : V), valueFree s = true → objFree v = true → Decided (de s v)
  | .bool, v, _, hv => by cases v <;> simp [de, Decided, objFree] at hv ⊢
  | .int u lo hi, v, _, hv => by
    cases v <;> simp [de, Decided, objFree] at hv ⊢
    split <;> simp
  | .f32, v, _, hv => by
    cases v <;> simp [de, Decided, objFree] at hv ⊢
    split <;> simp
  | .f64, v, _, hv => by
    cases v <;> simp [de, Decided, objFree] at hv ⊢
    split <;> simp
  | .char, v, _, hv => by
    cases v <;> simp [de, Decided, objFree] at hv ⊢
    rename_i s safe
    match s with
    | [] => simp
    | [c] => simp
    | _ :: _ :: _ => simp
  | .str, v, _, hv => by
    cases v <;> simp [de, Decided, objFree] at hv ⊢
    split <;> simp
  | .bytes, v, _, hv => by
    cases v <;> simp [de, Decided, objFree] at hv ⊢
    rename_i t xs
    exact decided_mapOk _ _ (decided_mapMR _ _ (fun x hx => decided_deByte x (objFreeList_mem xs hv x hx)))
  | .unit, v, _, hv => by cases v <;> simp [de, Decided, objFree] at hv ⊢
  | .ustruct, v, _, hv => by cases v <;> simp [de, Decided, objFree] at hv ⊢
  | .value, v, hs, _ => by simp [valueFree] at hs
  | .opt s, v, hs, hv => by
    simp only [valueFree] at hs
    have ih := decided_de s v hs hv
    cases v <;> simp only [de] <;> first | exact decided_ok _ | exact decided_mapOk _ _ ih
  | .nstruct s, v, hs, hv => by
    simp only [valueFree] at hs
    simp only [de]
    exact decided_de s v hs hv
  | .seq s, v, hs, hv => by
    simp only [valueFree] at hs
    cases v <;> simp only [de] <;> try exact decided_err
    · rename_i t xs
      simp only [objFree] at hv
      exact decided_mapOk _ _ (decided_mapMR _ _ (fun x hx => decided_de s x hs (objFreeList_mem xs hv x hx)))
    · simp [objFree] at hv
  | .map k w, v, hs, hv => by
    simp only [valueFree, Bool.and_eq_true] at hs
    cases v <;> simp only [de] <;> try exact decided_err
    · rename_i kvs
      simp only [objFree] at hv
      exact decided_mapOk _ _ (decided_mapMR _ _ (fun p hp =>
        decided_pairR _ _ (decided_de k p.1 hs.1 (objFreePairs_mem kvs hv p hp).1)
          (decided_de w p.2 hs.2 (objFreePairs_mem kvs hv p hp).2)))
    · simp [objFree] at hv
  | .tup ss, v, hs, hv => by
    simp only [valueFree] at hs
    cases v <;> simp only [de] <;> try exact decided_err
    · rename_i t xs
      simp only [objFree] at hv
      exact decided_mapOk _ _ (decided_deList ss xs hs hv)
    · simp [objFree] at hv
  | .tstruct ss, v, hs, hv => by
    simp only [valueFree] at hs
    cases v <;> simp only [de] <;> try exact decided_err
    · rename_i t xs
      simp only [objFree] at hv
      exact decided_mapOk _ _ (decided_deList ss xs hs hv)
    · simp [objFree] at hv
  | .struct names ss, v, hs, hv => by
    simp only [valueFree] at hs
    cases v <;> simp only [de] <;> try exact decided_err
    · rename_i t xs
      simp only [objFree] at hv
      exact decided_mapOk _ _ (decided_deList ss xs hs hv)
    · rename_i kvs
      simp only [objFree] at hv
      exact decided_structMap ss names kvs hs hv
    · simp [objFree] at hv
  | .enum names vs, v, hs, hv => by
    simp only [valueFree] at hs
    have hvs : ∀ (payload : Option V), (∀ x, payload = some x → objFree x = true) →
        ∀ w ∈ vs, Decided (deV w payload) := fun payload hp => decided_deVs vs hs payload hp
    unfold de
    split
    · split
      · exact decided_deVariant_aux _ _ _ _ (hvs none (by simp))
      · exact decided_err
    · rename_i n safe payload
      have hp : objFree payload = true := by simp [objFree, objFreePairs] at hv; first | exact hv.2 | exact hv
      split
      · exact decided_deVariant_aux _ _ _ _ (hvs (some payload) (by intro x hx; cases hx; exact hp))
      · exact decided_err
    · rename_i i payload
      have hp : objFree payload = true := by simp [objFree, objFreePairs] at hv; first | exact hv.2 | exact hv
      split
      · exact decided_deVariant_aux _ _ _ _ (hvs (some payload) (by intro x hx; cases hx; exact hp))
      · exact decided_err
    · rename_i b payload
      have hp : objFree payload = true := by simp [objFree, objFreePairs] at hv; first | exact hv.2 | exact hv
      split
      · exact decided_deVariant_aux _ _ _ _ (hvs (some payload) (by intro x hx; cases hx; exact hp))
      · exact decided_err
    · exact decided_err
    · simp [objFree] at hv
    · exact decided_err
theorem decided_deList : ∀ (ss : List Shape) (xs : List V), valueFreeList ss = true → objFreeList xs = true →
    Decided (deList ss xs)
  | [], xs, _, _ => by simp [deList, Decided]
  | s :: ss, [], _, _ => by simp [deList, Decided]
  | s :: ss, x :: xs, hs, hx => by
    simp only [valueFreeList, Bool.and_eq_true] at hs
    simp only [objFreeList, Bool.and_eq_true] at hx
    simp only [deList]
    exact decided_consR _ _ (decided_de s x hs.1 hx.1) (decided_deList ss xs hs.2 hx.2)
theorem decided_deFields : ∀ (ss : List Shape) (names : List Str) (kvs : List (V × V)),
    valueFreeList ss = true → objFreePairs kvs = true → Decided (deFields names ss kvs)
  | [], names, kvs, _, _ => by cases names <;> simp [deFields, Decided]
  | s :: ss, [], kvs, _, _ => by simp [deFields, Decided]
  | s :: ss, n :: ns, kvs, hs, hk => by
    simp only [valueFreeList, Bool.and_eq_true] at hs
    simp only [deFields]
    have ht := decided_deFields ss ns kvs hs.2 hk
    split
    · rename_i x hx
      exact decided_consR _ _ (decided_de s x hs.1 (lookupStr_objFree n kvs hk x hx)) ht
    · split
      · exact decided_consR _ _ (decided_ok _) ht
      · exact decided_err
theorem decided_deSlots : ∀ (ss : List Shape) (names : List Str) (j : Nat) (slots : List (Option Nat × V)),
    valueFreeList ss = true → (∀ p ∈ slots, objFree p.2 = true) → Decided (deSlots names ss j slots)
  | [], names, j, slots, _, _ => by cases names <;> simp [deSlots, Decided]
  | s :: ss, [], j, slots, _, _ => by simp [deSlots, Decided]
  | s :: ss, n :: ns, j, slots, hs, hk => by
    simp only [valueFreeList, Bool.and_eq_true] at hs
    simp only [deSlots]
    have ht := decided_deSlots ss ns (j + 1) slots hs.2 hk
    split
    · rename_i x hx
      obtain ⟨p, hp, hpx⟩ := findSlot_mem j slots x hx
      exact decided_consR _ _ (decided_de s x hs.1 (by rw [← hpx]; exact hk p hp)) ht
    · split
      · exact decided_consR _ _ (decided_ok _) ht
      · exact decided_err
theorem decided_structMap : ∀ (ss : List Shape) (names : List Str) (kvs : List (V × V)),
    valueFreeList ss = true → objFreePairs kvs = true →
    Decided (if allStrKeys kvs = true then guardR (ignoredOK names kvs) (mapOk D.list (deFields names ss kvs))
      else match resolveKeys names kvs with
        | .error e => .error e
        | .ok slots =>
          if dupSlots slots = true then .error .err
          else guardR (ignoredSlots slots) (mapOk D.list (deSlots names ss 0 slots)))
  | ss, names, kvs, hs, hk => by
    split
    · exact decided_guardR _ _ (decided_ignoredOK names kvs hk) (decided_mapOk _ _ (decided_deFields ss names kvs hs hk))
    · obtain ⟨hd, hsl⟩ := resolveKeys_spec names kvs hk
      split
      · rename_i e he
        rw [he] at hd
        simpa [Decided] using hd
      · rename_i slots hr
        split
        · exact decided_err
        · exact decided_guardR _ _ (decided_ignoredSlots slots (hsl slots hr))
            (decided_mapOk _ _ (decided_deSlots ss names 0 slots hs (hsl slots hr)))
theorem decided_deVs : ∀ (vs : List VShape), valueFreeVs vs = true → ∀ (payload : Option V),
    (∀ x, payload = some x → objFree x = true) → ∀ w ∈ vs, Decided (deV w payload)
  | [], _, _, _, w, hw => by simp at hw
  | v :: vs, hs, payload, hp, w, hw => by
    simp only [valueFreeVs, Bool.and_eq_true] at hs
    simp only [List.mem_cons] at hw
    rcases hw with rfl | hw
    · exact decided_deV w hs.1 payload hp
    · exact decided_deVs vs hs.2 payload hp w hw
theorem decided_deV : ∀ (w : VShape), valueFreeV w = true → ∀ (payload : Option V),
    (∀ x, payload = some x → objFree x = true) → Decided (deV w payload)
  | .unit, _, payload, hp => by
    cases payload with
    | none => simp [deV, Decided]
    | some x =>
      have := hp x rfl
      cases x <;> simp [deV, Decided, objFree] at this ⊢
  | .newtype s, hs, payload, hp => by
    simp only [valueFreeV] at hs
    cases payload with
    | none => simp [deV, Decided]
    | some x =>
      simp only [deV]
      exact decided_de s x hs (hp x rfl)
  | .tuple ss, hs, payload, hp => by
    simp only [valueFreeV] at hs
    cases payload with
    | none => simp [deV, Decided]
    | some x =>
      have hx := hp x rfl
      cases x <;> simp only [deV] <;> try exact decided_err
      · rename_i t xs
        simp only [objFree] at hx
        split
        · exact decided_err
        · exact decided_mapOk _ _ (decided_deList ss xs hs hx)
      · simp [objFree] at hx
  | .struct names ss, hs, payload, hp => by
    simp only [valueFreeV] at hs
    cases payload with
    | none => simp [deV, Decided]
    | some x =>
      have hx := hp x rfl
      cases x <;> simp only [deV] <;> try exact decided_err
      · rename_i kvs
        simp only [objFree] at hx
        exact decided_structMap ss names kvs hs hx
      · simp [objFree] at hx
end

end MJ.Serde
