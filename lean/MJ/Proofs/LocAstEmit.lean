import MJ.Proofs.LocAstNode
/-!
# The `{{ … }}` arm with its fast paths (C14)
-/
namespace MJ.LocAst
open MJ MJ.Loc

attribute [local irreducible] cExpr cExprs cCmpOps cCallBody cArgs1 cArgs2 cAssign cAssigns cMacroKids cWithKids cImportNames
  cStmt cStmts

theorem callerOk_none : CallerOk none := fun _ h => by cases h

theorem Node.kind_mk (k : Kind) (s : Span) (f : Bool) (n : String) (m l h : Nat) (ks : List Node) :
    (Node.mk k s f n m l h ks).kind = k := rfl
theorem Node.sp_mk (k : Kind) (s : Span) (f : Bool) (n : String) (m l h : Nat) (ks : List Node) :
    (Node.mk k s f n m l h ks).sp = s := rfl

/-- the `EmitExpr` arm of `compile_stmt` (`compile_emit_expr`), as it stands in `cStmt` -/
def emitArm (ctx : List Pend) (lo hi : Nat) (e : Node) : List Ev :=
      (if e.kind == .call then [.setLine e.sp.startLine] else []) ++
      (match e with
       | .mk .call esp _ _ _ elo ehi (callee :: args) =>
         match callee with
         | .mk .var _ _ fname _ _ _ _ =>
           if fname == "super" && args.isEmpty then [.addSpan "FastSuper" esp elo ehi]
           else if fname == "loop" && args.length == 1 then
             cArgs1 ctx elo ehi 0 args ++ (if hasKw args then cArgs2 ctx elo ehi (staticKw args) 0 args else []) ++
               argsTail elo ehi esp.startLine 0 args none ++ [.addSpan "FastRecurse" esp elo ehi]
           else [.push esp] ++ cCallBody ctx none esp elo ehi (callee :: args) ++ [.add "Emit" lo hi, .pop]
         | .mk .attr _ _ _ _ _ _ [inner] =>
           if inner.kind == .var && inner.name == "self" then [.add "CallBlock" elo ehi]
           else [.push esp] ++ cCallBody ctx none esp elo ehi (callee :: args) ++ [.add "Emit" lo hi, .pop]
         | _ => [.push esp] ++ cCallBody ctx none esp elo ehi (callee :: args) ++ [.add "Emit" lo hi, .pop]
       | other => [.push other.sp] ++ cExpr ctx other ++ [.add "Emit" lo hi, .pop])

set_option maxHeartbeats 4000000 in
theorem M_stmt_emitexpr (sp : Span) (flag : Bool) (name : String) (num lo hi : Nat) (e : Node)
    (hk : ∀ c ∈ [e], M c ∧ K c)
    (hw : wf (.mk .emitexpr sp flag name num lo hi [e]) = true) (ctx : List Pend) (LO HI : Nat) (h1 : LO ≤ lo) (h2 : hi ≤ HI) :
    J true false LO HI (emitArm ctx lo hi e) := by
  unfold emitArm
  obtain ⟨hlohi, hanch, hconst, hshape, hkw⟩ := wf_mk hw
  have hkids := wfKids_WFs hkw
  have hE : isE e = true := by simpa [shapeOk] using hshape
  obtain ⟨ew, e1, e2⟩ := hkids e (by simp)
  have hme := hk e (by simp)
  have hEx := hme.1.expr ew hE e1 e2 ctx
  refine J.use (?_ : J false false lo hi _) h1 h2 true false (by simp)
  cases e with
  | mk ekind esp eflag ename enum elo ehi ekids =>
    simp only [Node.lo, Node.hi] at e1 e2
    by_cases hcall : ekind = Kind.call
    · subst hcall
      have hea : InR elo ehi esp.startLine :=
        wf_anchor ew (by simp [mustAnchor, spanless, startsAtPreviousToken, Node.kind])
      have hea' : InR lo hi esp.startLine := hea.mono e1 e2
      cases ekids with
      | nil => simp [wf, shapeOk, exprKind, isArg, Node.kind] at ew
      | cons callee args =>
        obtain ⟨ekw, eshape⟩ := kids_in ew (Nat.le_refl _) (Nat.le_refl _)
        simp only [Node.kids, Node.kind, Node.lo, Node.hi, shapeOk, Bool.and_eq_true] at ekw eshape
        have fC := hme.2.2 _ (List.suffix_refl _) elo ehi ekw ctx
        have fA := hme.2.2 args (List.suffix_cons _ _) elo ehi ekw.tail ctx
        have hCB0 := fC.2.2.2.2.2.2.2.2.2 none esp callerOk_none hea
          (by intro h hh; cases hh; exact eshape.1) (by simp [Node.kids])
        simp only [Node.kids] at hCB0
        have hCB : ∀ n g, J n g lo hi (cCallBody ctx none esp elo ehi (callee :: args)) :=
          fun n g => hCB0.use e1 e2 n g (by simp)
        simp only [Node.kind_mk, Node.sp_mk, beq_self_eq_true, ite_true]
        split
        · split
          · exact (J.mono (J.seqT2 (J.setLine hea) (J.addSpan _ hea)) e1 e2).weaken _ _ id (by simp)
          · split
            · have a1 := fA.2.2.1
              have a2 := fA.2.2.2.1
              have a3 := J.argsTail (l := esp.startLine) 0 args none callerOk_none hea
              have hfast : J false true elo ehi ([Ev.setLine esp.startLine] ++
                  ((cArgs1 ctx elo ehi 0 args ++ if hasKw args = true then cArgs2 ctx elo ehi (staticKw args) 0 args else []) ++
                    argsTail elo ehi esp.startLine 0 args none ++ [Ev.addSpan "FastRecurse" esp elo ehi])) := by
                jauto
              exact (J.mono hfast e1 e2).weaken _ _ id (by simp)
            · jauto
        · split
          · exact (J.mono (J.seqT2 (J.setLine hea) (J.add _ _ _)) e1 e2).weaken _ _ id (by simp)
          · jauto
        · jauto
    · have hne : (ekind == Kind.call) = false := by simpa using hcall
      simp only [Node.kind_mk, hne, Bool.false_eq_true, ite_false]
      split
      · rename_i hq
        injection hq with hk'
        exact absurd hk' hcall
      · simp only [List.nil_append]
        jauto

end MJ.LocAst
