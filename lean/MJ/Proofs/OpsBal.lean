import MJ.Proofs.Bal
import MJ.Proofs.Ops
import MJ.Model.OpsBal
/-!
# The operand-stack machine refines the balance machine (C05)

`MJ.Ops` (operand heights, `next_loop_recursion_jump`, `loop_recursion_bases`) and `MJ.Bal` (frames,
captures, auto-escape entries) model the same activation of `eval_impl`.  `projCode` forgets the
operand effects; every run of the `Ops` machine projects to a run of the `Bal` machine (`sim_reach`;
the `Bal` machine takes the jump of `loop(...)` and the `PushLoop` behind it in one step, so the
simulation stutters there).  Consequence (`certified_disciplined`): in a stream whose projection has
a certificate accepted by the verified checker, `PopFrame` only ever meets `with` frames — the
hypothesis of the pairing theorem of `loop_recursion_bases`.
-/
namespace MJ.OpsBal
open MJ

theorem projCode_get (c : Ops.Code) (pc : Nat) : (projCode c)[pc]? = (c[pc]?).map projI := by
  simp [projCode]

theorem liveTargets_proj (fs : List Ops.Frame) :
    Bal.liveTargets (fs.map projF) = Ops.liveTargets fs := by
  induction fs with
  | nil => rfl
  | cons f fs ih =>
    cases f with
    | withF g => simpa [projF, Bal.liveTargets, Ops.liveTargets] using ih
    | loopF l =>
      cases h : l.recTarget <;> simp [projF, Bal.liveTargets, Ops.liveTargets, h, ih]

theorem innermost_proj (fs : List Ops.Frame) :
    Bal.innermostLoop (fs.map projF) = (Ops.innermostLoop fs).map (·.recTarget) := by
  induction fs with
  | nil => rfl
  | cons f fs ih =>
    cases f with
    | withF g => simpa [projF, Bal.innermostLoop, Ops.innermostLoop] using ih
    | loopF l => simp [projF, Bal.innermostLoop, Ops.innermostLoop]

/-- the state of the balance machine after the recursion step from `b` into the loop at `t` -/
def entered (b : Bal.VmState) (t : Nat) (v r cap : Bool) : Bal.VmState :=
  { pc := t + 1, frames := .loopF v (Bal.recOf t r) (some (b.pc + 1, cap)) :: b.frames,
    caps := if cap then b.caps + 1 else b.caps, escs := b.escs }

/-- simulation: between the `recurse_loop!` jump and the `PushLoop` it targets the balance machine
has not moved yet (it takes both in one step) -/
inductive Sim (code : Ops.Code) : Ops.State → Bal.VmState → Prop where
  | run {s : Ops.State} : s.next = none → Sim code s (proj s)
  | calling {s : Ops.State} {b : Bal.VmState} {cap v r : Bool} {l : List Bal.VmState} :
      s.next = some (b.pc + 1, cap) → b.frames = s.frames.map projF → b.escs = s.escs.length →
      s.caps.length = (if cap then b.caps + 1 else b.caps) →
      code[s.pc]? = some (.pushLoop v r) →
      Bal.step (projCode code) b = .next l → entered b s.pc v r cap ∈ l →
      Sim code s b

theorem allSome_mem {α : Type} : ∀ (xs : List (Option α)) (l : List α), Bal.allSome xs = some l →
    ∀ x ∈ xs, ∃ a, x = some a ∧ a ∈ l := by
  intro xs
  induction xs with
  | nil => intro l _ x hx; simp at hx
  | cons y ys ih =>
    intro l h x hx
    cases y with
    | none => simp [Bal.allSome] at h
    | some a =>
      simp only [Bal.allSome] at h
      split at h
      · rename_i l' hl'
        simp only [Option.some.injEq] at h; subst h
        rcases List.mem_cons.mp hx with rfl | hx'
        · exact ⟨a, rfl, List.mem_cons_self⟩
        · obtain ⟨a', ha', hm⟩ := ih l' hl' x hx'
          exact ⟨a', ha', List.mem_cons_of_mem _ hm⟩
      · simp at h

theorem recurseTo_some {code : Bal.Code} {b s' : Bal.VmState} {t : Nat} {cap : Bool}
    (h : Bal.recurseTo code b t cap = some s') :
    ∃ v r, code[t]? = some (.pushLoop v r) ∧ s' = entered b t v r cap := by
  unfold Bal.recurseTo at h
  split at h
  · rename_i v r hc
    simp only [Option.some.injEq] at h
    exact ⟨v, r, hc, by subst h; cases cap <;> simp [entered]⟩
  · simp at h

theorem projI_pushLoop {i : Ops.Instr} {v r : Bool} (h : projI i = .pushLoop v r) : i = .pushLoop v r := by
  cases i <;> simp [projI] at h ⊢
  exact h


theorem proj_fall (s : Ops.State) (h : Nat) :
    proj { s with pc := s.pc + 1, h := h } = (proj s).fall := rfl

theorem proj_goto (s : Ops.State) (t h : Nat) :
    proj { s with pc := t, h := h } = (proj s).goto t := rfl

theorem sim_calling {code : Ops.Code} {s : Ops.State} {tg h : Nat} {cap : Bool}
    {l' : List Bal.VmState} {s' : Bal.VmState}
    (hst : Bal.step (projCode code) (proj s) = .next l')
    (hrt : Bal.recurseTo (projCode code) (proj s) tg cap = some s') (hin : s' ∈ l') :
    Sim code (Ops.recurse s h tg cap) (proj s) := by
  obtain ⟨v, r, hc, hs'⟩ := recurseTo_some hrt
  have hc' : code[tg]? = some (.pushLoop v r) := by
    rw [projCode_get] at hc
    cases hi : code[tg]? with
    | none => simp [hi] at hc
    | some i' =>
      simp only [hi, Option.map_some, Option.some.injEq] at hc
      rw [projI_pushLoop hc]
  subst hs'
  refine Sim.calling (cap := cap) (v := v) (r := r) (l := l') rfl rfl rfl ?_ hc' hst hin
  cases cap <;> simp [Ops.recurse, proj]

theorem sim_step {code : Ops.Code} {s t : Ops.State} {b : Bal.VmState} {k : Nat}
    (hs : Sim code s b) (hns : Bal.step (projCode code) b ≠ .stuck)
    (ht : t ∈ Ops.step Ops.condReal code s k) :
    ∃ b', Sim code t b' ∧ (b' = b ∨ ∃ l, Bal.step (projCode code) b = .next l ∧ b' ∈ l) := by
  cases hs with
  | calling hn hfr hes hca hci hst hmem =>
    rename_i cap v r l
    simp only [Ops.step, hci, Ops.doPushLoop] at ht
    split at ht
    · simp at ht
    · simp only [List.mem_singleton] at ht
      subst ht
      refine ⟨entered b s.pc v r cap, ?_, Or.inr ⟨l, hst, hmem⟩⟩
      have : entered b s.pc v r cap = proj
          { s with pc := s.pc + 1, h := s.h - 1, next := none,
                   bases := if Ops.condReal s.next then (s.h - 1) :: s.bases else s.bases,
                   frames := .loopF { withVar := v, recTarget := if r then some s.pc else none, ret := s.next,
                                      gbase := if Ops.condReal s.next then some (s.h - 1) else none, gh := s.h - 1 } :: s.frames } := by
        simp only [entered, proj, List.map_cons, projF, hn, hfr, hes, hca, Bal.recOf]
      rw [this]
      exact .run rfl
  | run hn =>
    unfold Ops.step at ht
    split at ht
    · simp at ht
    · rename_i i hci
      have hpc : (projCode code)[(proj s).pc]? = some (projI i) := by
        simp [projCode_get, proj, hci]
      cases i with
      | eff a c =>
        simp only at ht
        split at ht
        · simp only [List.mem_singleton] at ht; subst ht
          refine ⟨_, .run hn, Or.inr ⟨[(proj s).fall], ?_, ?_⟩⟩
          · simp [Bal.step, hpc, projI]
          · simp [proj_fall]
        · simp at ht
      | dyn =>
        simp only at ht
        split at ht
        · simp only [List.mem_singleton] at ht; subst ht
          refine ⟨_, .run hn, Or.inr ⟨[(proj s).fall], ?_, ?_⟩⟩
          · simp [Bal.step, hpc, projI]
          · simp [proj_fall]
        · simp at ht
      | unpack n =>
        simp only at ht
        split at ht
        · simp only [List.mem_singleton] at ht; subst ht
          refine ⟨_, .run hn, Or.inr ⟨[(proj s).fall], ?_, ?_⟩⟩
          · simp [Bal.step, hpc, projI]
          · simp [proj_fall]
        · simp at ht
      | exportLocals =>
        simp only at ht
        split at ht
        · simp only [List.mem_singleton] at ht; subst ht
          refine ⟨_, .run hn, Or.inr ⟨[(proj s).fall], ?_, ?_⟩⟩
          · simp [Bal.step, hpc, projI]
          · exact List.mem_singleton.mpr rfl
        · simp at ht
      | buildMacro o =>
        simp only at ht
        split at ht
        · simp only [List.mem_singleton] at ht; subst ht
          refine ⟨_, .run hn, Or.inr ⟨[(proj s).fall], ?_, ?_⟩⟩
          · simp [Bal.step, hpc, projI]
          · simp [proj_fall]
        · simp at ht
      | ret => simp at ht
      | jump tg =>
        simp only [List.mem_singleton] at ht; subst ht
        refine ⟨_, .run hn, Or.inr ⟨[(proj s).goto tg], ?_, ?_⟩⟩
        · simp [Bal.step, hpc, projI]
        · exact List.mem_singleton.mpr rfl
      | jumpIfFalse tg =>
        simp only at ht
        split at ht
        · refine ⟨proj t, ?_, Or.inr ⟨[(proj s).fall, (proj s).goto tg], by simp [Bal.step, hpc, projI], ?_⟩⟩
          · simp only [List.mem_cons, List.not_mem_nil, or_false] at ht
            rcases ht with ht | ht <;> (subst ht; exact .run hn)
          · simp only [List.mem_cons, List.not_mem_nil, or_false] at ht ⊢
            rcases ht with ht | ht <;> subst ht
            · exact Or.inl rfl
            · exact Or.inr rfl
        · simp at ht
      | jumpIfFalseOrPop tg =>
        simp only at ht
        split at ht
        · refine ⟨proj t, ?_, Or.inr ⟨[(proj s).fall, (proj s).goto tg], by simp [Bal.step, hpc, projI], ?_⟩⟩
          · simp only [List.mem_cons, List.not_mem_nil, or_false] at ht
            rcases ht with ht | ht <;> (subst ht; exact .run hn)
          · simp only [List.mem_cons, List.not_mem_nil, or_false] at ht ⊢
            rcases ht with ht | ht <;> subst ht
            · exact Or.inl rfl
            · exact Or.inr rfl
        · simp at ht
      | jumpIfTrueOrPop tg =>
        simp only at ht
        split at ht
        · refine ⟨proj t, ?_, Or.inr ⟨[(proj s).fall, (proj s).goto tg], by simp [Bal.step, hpc, projI], ?_⟩⟩
          · simp only [List.mem_cons, List.not_mem_nil, or_false] at ht
            rcases ht with ht | ht <;> (subst ht; exact .run hn)
          · simp only [List.mem_cons, List.not_mem_nil, or_false] at ht ⊢
            rcases ht with ht | ht <;> subst ht
            · exact Or.inl rfl
            · exact Or.inr rfl
        · simp at ht
      | pushWith =>
        simp only [List.mem_singleton] at ht; subst ht
        refine ⟨_, .run hn, Or.inr ⟨[{ (proj s).fall with frames := .withF :: (proj s).frames }], ?_, ?_⟩⟩
        · simp [Bal.step, hpc, projI]
        · exact List.mem_singleton.mpr rfl
      | beginCapture =>
        simp only [List.mem_singleton] at ht; subst ht
        refine ⟨_, .run hn, Or.inr ⟨[{ (proj s).fall with caps := (proj s).caps + 1 }], ?_, ?_⟩⟩
        · simp [Bal.step, hpc, projI]
        · exact List.mem_singleton.mpr rfl
      | pushAutoEscape =>
        simp only at ht
        split at ht
        · simp only [List.mem_singleton] at ht; subst ht
          refine ⟨_, .run hn, Or.inr ⟨[{ (proj s).fall with escs := (proj s).escs + 1 }], ?_, ?_⟩⟩
          · simp [Bal.step, hpc, projI]
          · exact List.mem_singleton.mpr rfl
        · simp at ht
      | popFrame =>
        simp only at ht
        split at ht
        · rename_i f fs hfr
          simp only [List.mem_singleton] at ht; subst ht
          cases f with
          | withF g =>
            refine ⟨_, .run hn, Or.inr ⟨[{ (proj s).fall with frames := fs.map projF }], ?_, ?_⟩⟩
            · simp only [Bal.step, hpc, projI]
              simp [proj, hfr, projF, Bal.VmState.fall]
            · exact List.mem_singleton.mpr rfl
          | loopF l =>
            exfalso; apply hns
            simp only [Bal.step, hpc, projI]
            simp [proj, hfr, projF]
        · simp at ht
      | endCapture =>
        simp only at ht
        split at ht
        · rename_i c cs hca
          simp only [List.mem_singleton] at ht; subst ht
          refine ⟨_, .run hn, Or.inr ⟨[{ (proj s).fall with caps := (proj s).caps - 1 }], ?_, ?_⟩⟩
          · simp only [Bal.step, hpc, projI]
            simp [proj, hca]
          · refine List.mem_singleton.mpr ?_
            simp [proj, hca, Bal.VmState.fall]
        · rename_i hca
          exfalso; apply hns
          simp only [Bal.step, hpc, projI]
          simp [proj, hca]
      | popAutoEscape =>
        simp only at ht
        split at ht
        · rename_i e es hes
          simp only [List.mem_singleton] at ht; subst ht
          refine ⟨_, .run hn, Or.inr ⟨[{ (proj s).fall with escs := (proj s).escs - 1 }], ?_, ?_⟩⟩
          · simp only [Bal.step, hpc, projI]
            simp [proj, hes]
          · refine List.mem_singleton.mpr ?_
            simp [proj, hes, Bal.VmState.fall]
        · simp at ht
      | pushLoop v r =>
        simp only [Ops.doPushLoop] at ht
        split at ht
        · simp at ht
        · simp only [List.mem_singleton] at ht; subst ht
          refine ⟨_, .run rfl, Or.inr ⟨[{ (proj s).fall with frames := .loopF v (Bal.recOf s.pc r) none :: (proj s).frames }], ?_, ?_⟩⟩
          · simp only [Bal.step, hpc, projI]
            rfl
          · refine List.mem_singleton.mpr ?_
            simp [proj, projF, hn, Bal.VmState.fall, Bal.recOf]
      | iterate tg =>
        -- the balance machine is not stuck: a loop frame is on top
        have htop : ∃ l fs, s.frames = .loopF l :: fs := by
          cases hfr : s.frames with
          | nil => exfalso; apply hns; simp only [Bal.step, hpc, projI]; simp [proj, hfr]
          | cons f fs =>
            cases f with
            | withF g => exfalso; apply hns; simp only [Bal.step, hpc, projI]; simp [proj, hfr, projF]
            | loopF l => exact ⟨l, fs, rfl⟩
        obtain ⟨l, fs, hfr⟩ := htop
        have hst : Bal.step (projCode code) (proj s) = .next [(proj s).fall, (proj s).goto tg] := by
          simp only [Bal.step, hpc, projI]; simp [proj, hfr, projF]
        simp only [hfr, Ops.innermostLoop] at ht
        refine ⟨proj t, ?_, Or.inr ⟨_, hst, ?_⟩⟩
        · simp only [List.mem_cons, List.not_mem_nil, or_false] at ht
          rcases ht with ht | ht <;> (subst ht; exact .run hn)
        · simp only [List.mem_cons, List.not_mem_nil, or_false] at ht ⊢
          rcases ht with ht | ht <;> subst ht
          · exact Or.inl (by simp [proj, hfr, Bal.VmState.fall])
          · exact Or.inr (by simp [proj, hfr, Bal.VmState.goto])
      | pushDidNotIterate =>
        have htop : ∃ l fs, s.frames = .loopF l :: fs := by
          cases hfr : s.frames with
          | nil => exfalso; apply hns; simp only [Bal.step, hpc, projI]; simp [proj, hfr]
          | cons f fs =>
            cases f with
            | withF g => exfalso; apply hns; simp only [Bal.step, hpc, projI]; simp [proj, hfr, projF]
            | loopF l => exact ⟨l, fs, rfl⟩
        obtain ⟨l, fs, hfr⟩ := htop
        have hst : Bal.step (projCode code) (proj s) = .next [(proj s).fall] := by
          simp only [Bal.step, hpc, projI]; simp [proj, hfr, projF]
        simp only [hfr, Ops.innermostLoop, List.mem_singleton] at ht
        subst ht
        exact ⟨_, .run hn, Or.inr ⟨_, hst, List.mem_singleton.mpr (by simp [proj, hfr, Bal.VmState.fall])⟩⟩
      | popLoopFrame =>
        simp only [Ops.doPopLoopFrame] at ht
        split at ht
        · rename_i l fs hfr
          split at ht
          · rename_i hret
            simp only [List.mem_singleton] at ht; subst ht
            refine ⟨_, .run hn, Or.inr ⟨[{ (proj s).fall with frames := fs.map projF }], ?_, List.mem_singleton.mpr rfl⟩⟩
            simp only [Bal.step, hpc, projI]; simp [proj, hfr, projF, hret, Bal.VmState.fall]
          · rename_i tg cap hret
            simp only [List.mem_singleton] at ht; subst ht
            cases cap with
            | false =>
              refine ⟨_, .run hn, Or.inr ⟨[{ (proj s) with pc := tg, frames := fs.map projF }], ?_, List.mem_singleton.mpr rfl⟩⟩
              simp only [Bal.step, hpc, projI]; simp [proj, hfr, projF, hret]
            | true =>
              have hc : s.caps.length ≠ 0 := by
                intro h0; apply hns
                simp only [Bal.step, hpc, projI]; simp [proj, hfr, projF, hret, h0]
              refine ⟨_, .run hn, Or.inr ⟨[{ (proj s) with pc := tg, frames := fs.map projF, caps := s.caps.length - 1 }], ?_, ?_⟩⟩
              · simp only [Bal.step, hpc, projI]; simp [proj, hfr, projF, hret, hc]
              · refine List.mem_singleton.mpr ?_
                simp [proj]
        · simp at ht
      | call n =>
        have hall : ∃ l, Bal.allSome ((Bal.liveTargets (proj s).frames).map
            (fun t => Bal.recurseTo (projCode code) (proj s) t true)) = some l := by
          cases h : Bal.allSome ((Bal.liveTargets (proj s).frames).map
              (fun t => Bal.recurseTo (projCode code) (proj s) t true)) with
          | some l => exact ⟨l, rfl⟩
          | none => exfalso; apply hns; simp only [Bal.step, hpc, projI]; rw [h]
        obtain ⟨l, hl⟩ := hall
        have hst : Bal.step (projCode code) (proj s) = .next ((proj s).fall :: l) := by
          simp only [Bal.step, hpc, projI]; rw [hl]
        simp only at ht
        split at ht
        · simp only [List.mem_cons] at ht
          rcases ht with ht | ht
          · subst ht; exact ⟨_, .run hn, Or.inr ⟨_, hst, List.mem_cons_self⟩⟩
          · split at ht
            · simp only [List.mem_map] at ht
              obtain ⟨tg, htg, hx⟩ := ht
              subst hx
              have htg' : tg ∈ Bal.liveTargets (proj s).frames := by
                simpa [proj, liveTargets_proj] using htg
              obtain ⟨s', hrt, hin⟩ := allSome_mem _ _ hl _ (List.mem_map_of_mem htg')
              exact ⟨_, sim_calling hst hrt (List.mem_cons_of_mem _ hin), Or.inl rfl⟩
            · simp at ht
        · simp at ht
      | callDyn =>
        have hall : ∃ l, Bal.allSome ((Bal.liveTargets (proj s).frames).map
            (fun t => Bal.recurseTo (projCode code) (proj s) t true)) = some l := by
          cases h : Bal.allSome ((Bal.liveTargets (proj s).frames).map
              (fun t => Bal.recurseTo (projCode code) (proj s) t true)) with
          | some l => exact ⟨l, rfl⟩
          | none => exfalso; apply hns; simp only [Bal.step, hpc, projI]; rw [h]
        obtain ⟨l, hl⟩ := hall
        have hst : Bal.step (projCode code) (proj s) = .next ((proj s).fall :: l) := by
          simp only [Bal.step, hpc, projI]; rw [hl]
        simp only [List.mem_append] at ht
        rcases ht with ht | ht
        · split at ht
          · simp only [List.mem_singleton] at ht
            subst ht; exact ⟨_, .run hn, Or.inr ⟨_, hst, List.mem_cons_self⟩⟩
          · simp at ht
        · split at ht
          · simp only [List.mem_map] at ht
            obtain ⟨tg, htg, hx⟩ := ht
            subst hx
            have htg' : tg ∈ Bal.liveTargets (proj s).frames := by
              simpa [proj, liveTargets_proj] using htg
            obtain ⟨s', hrt, hin⟩ := allSome_mem _ _ hl _ (List.mem_map_of_mem htg')
            exact ⟨_, sim_calling hst hrt (List.mem_cons_of_mem _ hin), Or.inl rfl⟩
          · simp at ht
      | fastRecurse =>
        simp only at ht
        split at ht
        · rename_i lp hlp
          split at ht
          · rename_i tg htg
            simp only [List.mem_singleton] at ht; subst ht
            have hin : Bal.innermostLoop (proj s).frames = some (some tg) := by
              simp [proj, innermost_proj, hlp, htg]
            cases hrt : Bal.recurseTo (projCode code) (proj s) tg false with
            | none => exfalso; apply hns; simp only [Bal.step, hpc, projI]; rw [hin]; simp only; rw [hrt]
            | some s' =>
              have hst : Bal.step (projCode code) (proj s) = .next [s'] := by
                simp only [Bal.step, hpc, projI]; rw [hin]; simp only; rw [hrt]
              exact ⟨_, sim_calling hst hrt (List.mem_singleton.mpr rfl), Or.inl rfl⟩
          · simp at ht
        · simp at ht

/-- every run of the operand-stack machine is a run of the balance machine (which takes the jump of
`loop(...)` and the `PushLoop` behind it in one step), as long as the latter does not get stuck -/
theorem sim_reach {code : Ops.Code} {e h0 : Nat}
    (hbal : ∀ b, Bal.Reach (projCode code) (Bal.initAt e) b → Bal.step (projCode code) b ≠ .stuck)
    {s : Ops.State} (hr : Ops.Reach Ops.condReal code (Ops.init e h0) s) :
    ∃ b, Sim code s b ∧ Bal.Reach (projCode code) (Bal.initAt e) b := by
  induction hr with
  | refl => exact ⟨_, .run rfl, .refl _⟩
  | tail k _ ht ih =>
    obtain ⟨b, hs, hb⟩ := ih
    obtain ⟨b', hs', hb'⟩ := sim_step hs (hbal b hb) ht
    rcases hb' with rfl | ⟨l, hst, hm⟩
    · exact ⟨_, hs', hb⟩
    · exact ⟨_, hs', .tail hb hst hm⟩

/-- in a stream whose projection has an accepted certificate `PopFrame` never meets a loop frame -/
theorem certified_disciplined {code : Ops.Code} {cert : Bal.Cert}
    (hc : Bal.checkCert (projCode code) cert = true) {e : Nat} (he : e ∈ Bal.entries (projCode code))
    (h0 : Nat) : Ops.Disciplined code (Ops.init e h0) := by
  intro s hr hp
  obtain ⟨hcode, l, fs, hfr⟩ := hp
  have hbal : ∀ b, Bal.Reach (projCode code) (Bal.initAt e) b → Bal.step (projCode code) b ≠ .stuck :=
    fun b hb => (Bal.step_sound hc b (Bal.reach_inv hc (Bal.init_inv hc he) hb)).1
  obtain ⟨b, hs, hb⟩ := sim_reach hbal hr
  cases hs with
  | run hn =>
    apply hbal _ hb
    have hpc : (projCode code)[(proj s).pc]? = some .popFrame := by
      simp [projCode_get, proj, hcode, projI]
    simp only [Bal.step, hpc]
    simp [proj, hfr, projF]
  | calling hn hfr' hes hca hci hst hmem =>
    rw [hcode] at hci
    cases hci

end MJ.OpsBal
