import MJ.Proofs.MetaWalk
/-! Two runs of the analysis over the same code — one from a fresh tracker
(`find_macro_closure`), one inside the enclosing template (`find_undeclared`) — stay related:
whatever the fresh run reports is reported by the run in context as well, unless the context
had the name assigned when the macro was entered (C18, macros). -/
namespace MJ.Meta

/-- `s0`: fresh run, `s1`: run in context, `A`: names assigned in `s1` at the start -/
structure Rel (A : String → Prop) (s0 s1 : St) : Prop where
  ne0 : s0.assigned ≠ []
  ne1 : s1.assigned ≠ []
  r1 : ∀ x, s0.isAssigned x = true → s1.isAssigned x = true
  r3 : ∀ x, s1.isAssigned x = true → s0.isAssigned x = true ∨ x ∈ s1.out ∨ A x
  r2 : ∀ x ∈ s0.out, x ∈ s1.out ∨ A x

/-- `f` is a piece of the walk: scope-local and relation preserving -/
structure Pres (A : String → Prop) (f : St → St) : Prop where
  step : ∀ st, Step st (f st)
  rel : ∀ s0 s1, Rel A s0 s1 → Rel A (f s0) (f s1)

theorem Pres.id (A : String → Prop) : Pres A (fun st => st) :=
  ⟨fun st => Step.refl st, fun _ _ h => h⟩

theorem Pres.comp {A : String → Prop} {f g : St → St} (hf : Pres A f) (hg : Pres A g) :
    Pres A (fun st => g (f st)) :=
  ⟨fun st => Step.trans (hf.step st) (hg.step _), fun _ _ h => hg.rel _ _ (hf.rel _ _ h)⟩

theorem isAssigned_assign (st : St) (hne : st.assigned ≠ []) (x y : String) :
    (st.assign x).isAssigned y = true ↔ y = x ∨ st.isAssigned y = true := by
  rw [isAssigned_iff, isAssigned_iff]
  unfold St.assign
  split
  · rename_i f fs hf
    simp only [List.mem_cons, hf]
    constructor
    · rintro ⟨g, hg | hg, hy⟩
      · subst hg
        simp only [List.mem_cons] at hy
        rcases hy with hy | hy
        · exact Or.inl hy
        · exact Or.inr ⟨f, Or.inl rfl, hy⟩
      · exact Or.inr ⟨g, Or.inr hg, hy⟩
    · rintro (hyx | ⟨g, hg | hg, hy⟩)
      · exact ⟨x :: f, Or.inl rfl, by simp [hyx]⟩
      · subst hg; exact ⟨x :: g, Or.inl rfl, by simp [hy]⟩
      · exact ⟨g, Or.inr hg, hy⟩
  · rename_i hf; exact absurd hf hne

theorem assign_out (st : St) (x : String) : (st.assign x).out = st.out := by
  unfold St.assign; split <;> rfl

theorem assign_ne (st : St) (hne : st.assigned ≠ []) (x : String) : (st.assign x).assigned ≠ [] := by
  unfold St.assign
  split
  · simp
  · rename_i hf; exact absurd hf hne

theorem pres_assign (A : String → Prop) (x : String) : Pres A (fun st => st.assign x) := by
  refine ⟨fun st => step_assign st x, fun s0 s1 h => ?_⟩
  refine ⟨assign_ne _ h.ne0 x, assign_ne _ h.ne1 x, ?_, ?_, ?_⟩
  · intro y hy
    rw [isAssigned_assign _ h.ne0] at hy
    rw [isAssigned_assign _ h.ne1]
    rcases hy with hy | hy
    · exact Or.inl hy
    · exact Or.inr (h.r1 y hy)
  · intro y hy
    rw [isAssigned_assign _ h.ne1] at hy
    rw [isAssigned_assign _ h.ne0, assign_out]
    rcases hy with hy | hy
    · exact Or.inl (Or.inl hy)
    · rcases h.r3 y hy with h3 | h3 | h3
      · exact Or.inl (Or.inr h3)
      · exact Or.inr (Or.inl h3)
      · exact Or.inr (Or.inr h3)
  · intro y hy
    rw [assign_out] at hy ⊢
    exact h.r2 y hy

theorem isAssigned_out_irrel (st : St) (o : List String) (y : String) :
    ({ st with out := o } : St).isAssigned y = st.isAssigned y := rfl

theorem visitVar_pos {st : St} {x : String} (h : st.isAssigned x = true) : visitVar st x = st := by
  simp [visitVar, h]

theorem visitVar_neg {st : St} {x : String} (h : ¬ st.isAssigned x = true) :
    visitVar st x = ({ st with out := x :: st.out } : St).assign x := by
  simp [visitVar, h]

theorem pres_visitVar (A : String → Prop) (x : String) : Pres A (fun st => visitVar st x) := by
  refine ⟨fun st => step_visitVar st x, fun s0 s1 h => ?_⟩
  by_cases h0 : s0.isAssigned x = true
  · have h1 := h.r1 x h0
    rw [visitVar_pos h0, visitVar_pos h1]
    exact h
  · by_cases h1 : s1.isAssigned x = true
    · rw [visitVar_neg h0, visitVar_pos h1]
      have hne0 : ({ s0 with out := x :: s0.out } : St).assigned ≠ [] := h.ne0
      refine ⟨assign_ne _ hne0 x, h.ne1, ?_, ?_, ?_⟩
      · intro y hy
        rw [isAssigned_assign _ hne0] at hy
        rcases hy with rfl | hy
        · exact h1
        · exact h.r1 y hy
      · intro y hy
        rw [isAssigned_assign _ hne0]
        rcases h.r3 y hy with h3 | h3 | h3
        · exact Or.inl (Or.inr h3)
        · exact Or.inr (Or.inl h3)
        · exact Or.inr (Or.inr h3)
      · intro y hy
        rw [assign_out] at hy
        simp only [List.mem_cons] at hy
        rcases hy with rfl | hy
        · rcases h.r3 y h1 with h3 | h3 | h3
          · exact absurd h3 h0
          · exact Or.inl h3
          · exact Or.inr h3
        · exact h.r2 y hy
    · rw [visitVar_neg h0, visitVar_neg h1]
      have hne0 : ({ s0 with out := x :: s0.out } : St).assigned ≠ [] := h.ne0
      have hne1 : ({ s1 with out := x :: s1.out } : St).assigned ≠ [] := h.ne1
      refine ⟨assign_ne _ hne0 x, assign_ne _ hne1 x, ?_, ?_, ?_⟩
      · intro y hy
        rw [isAssigned_assign _ hne0] at hy
        rw [isAssigned_assign _ hne1]
        rcases hy with hy | hy
        · exact Or.inl hy
        · exact Or.inr (h.r1 y hy)
      · intro y hy
        rw [isAssigned_assign _ hne1] at hy
        rw [isAssigned_assign _ hne0, assign_out]
        rcases hy with hy | hy
        · exact Or.inl (Or.inl hy)
        · rcases h.r3 y hy with h3 | h3 | h3
          · exact Or.inl (Or.inr h3)
          · exact Or.inr (Or.inl (List.mem_cons_of_mem _ h3))
          · exact Or.inr (Or.inr h3)
      · intro y hy
        rw [assign_out] at hy ⊢
        simp only [List.mem_cons] at hy ⊢
        rcases hy with hy | hy
        · exact Or.inl (Or.inl hy)
        · rcases h.r2 y hy with h2 | h2
          · exact Or.inl (Or.inr h2)
          · exact Or.inr h2

theorem pres_visitVars (A : String → Prop) (xs : List String) :
    Pres A (fun st => visitVars st xs) := by
  induction xs with
  | nil => exact Pres.id A
  | cons x xs ih =>
    have := Pres.comp (pres_visitVar A x) ih
    simpa [visitVars] using this

theorem pres_visitExpr (A : String → Prop) (e : Expr) : Pres A (fun st => visitExpr st e) :=
  pres_visitVars A _

theorem pres_visitOpt (A : String → Prop) (e : Option Expr) : Pres A (fun st => visitOpt st e) :=
  pres_visitVars A _

theorem pres_trackAtoms (A : String → Prop) (as : List TAtom) :
    Pres A (fun st => as.foldl trackAtom st) := by
  induction as with
  | nil => exact Pres.id A
  | cons a as ih =>
    cases a with
    | name x => exact Pres.comp (pres_assign A x) ih
    | look e => exact Pres.comp (pres_visitExpr A e) ih

theorem pres_trackAssign (A : String → Prop) (t : Expr) : Pres A (fun st => trackAssign st t) :=
  pres_trackAtoms A _

theorem pres_macroArgs (A : String → Prop) (as : List String) (ds : List Expr) :
    Pres A (fun st => macroArgs st as ds) := by
  induction as generalizing ds with
  | nil => simpa [macroArgs] using Pres.id A
  | cons a as ih =>
    cases ds with
    | nil =>
      have := Pres.comp (pres_assign A a) (ih [])
      simpa [macroArgs] using this
    | cons d ds =>
      have := Pres.comp (Pres.comp (pres_visitExpr A d) (pres_assign A a)) (ih ds)
      simpa [macroArgs] using this

theorem pres_withAssigns (A : String → Prop) (as : List (Expr × Expr)) :
    Pres A (fun st => withAssigns st as) := by
  induction as with
  | nil => simpa [withAssigns] using Pres.id A
  | cons p as ih =>
    obtain ⟨t, e⟩ := p
    have := Pres.comp (Pres.comp (pres_visitExpr A e) (pres_trackAssign A t)) ih
    simpa [withAssigns] using this

theorem isAssigned_push (st : St) (y : String) : st.push.isAssigned y = st.isAssigned y := by
  simp [St.isAssigned, St.push]

/-- `push; f; pop` -/
theorem pres_scope {A : String → Prop} {f : St → St} (hf : Pres A f) :
    Pres A (fun st => (f st.push).pop) := by
  refine ⟨fun st => step_of_scope (hf.step _), fun s0 s1 h => ?_⟩
  have hp : Rel A s0.push s1.push := by
    refine ⟨by simp [St.push], by simp [St.push], ?_, ?_, ?_⟩
    · intro y hy; rw [isAssigned_push] at *; exact h.r1 y hy
    · intro y hy; rw [isAssigned_push] at *; exact h.r3 y hy
    · exact h.r2
  have hr := hf.rel _ _ hp
  obtain ⟨e0, _, _⟩ := step_scope (hf.step s0.push)
  obtain ⟨e1, o1, _⟩ := step_scope (hf.step s1.push)
  have ia0 : ∀ y, (f s0.push).pop.isAssigned y = s0.isAssigned y := by
    intro y; simp only [St.isAssigned, e0]
  have ia1 : ∀ y, (f s1.push).pop.isAssigned y = s1.isAssigned y := by
    intro y; simp only [St.isAssigned, e1]
  refine ⟨by rw [e0]; exact h.ne0, by rw [e1]; exact h.ne1, ?_, ?_, ?_⟩
  · intro y hy; rw [ia0] at hy; rw [ia1]; exact h.r1 y hy
  · intro y hy
    rw [ia1] at hy; rw [ia0]
    rcases h.r3 y hy with h3 | h3 | h3
    · exact Or.inl h3
    · exact Or.inr (Or.inl (o1 y h3))
    · exact Or.inr (Or.inr h3)
  · intro y hy
    exact hr.r2 y hy

mutual
theorem pres_walk (A : String → Prop) : (s : Stmt) → Pres A (fun st => walk st s)
  | .emit e => by simpa only [walk] using pres_visitExpr A e
  | .raw => by simpa only [walk] using Pres.id A
  | .forLoop target iter filter body els => by
      have h1 := pres_scope (Pres.comp (Pres.comp (Pres.comp (Pres.comp (pres_visitExpr A iter)
        (pres_trackAssign A target)) (pres_visitOpt A filter)) (pres_assign A "loop"))
        (pres_walkList A body))
      have h2 := pres_scope (pres_walkList A els)
      simpa only [walk] using Pres.comp h1 h2
  | .ifCond c t f => by
      have := Pres.comp (Pres.comp (pres_visitExpr A c) (pres_scope (pres_walkList A t)))
        (pres_scope (pres_walkList A f))
      simpa only [walk] using this
  | .withBlock assigns body => by
      have := pres_scope (Pres.comp (pres_withAssigns A assigns) (pres_walkList A body))
      simpa only [walk] using this
  | .set target e => by
      simpa only [walk] using Pres.comp (pres_visitExpr A e) (pres_trackAssign A target)
  | .autoEscape e body => by
      simpa only [walk] using Pres.comp (pres_visitExpr A e) (pres_scope (pres_walkList A body))
  | .filterBlock filter body => by
      simpa only [walk] using Pres.comp (pres_scope (pres_walkList A body)) (pres_visitExpr A filter)
  | .setBlock target filter body => by
      have := Pres.comp (Pres.comp (pres_scope (pres_walkList A body)) (pres_visitOpt A filter))
        (pres_trackAssign A target)
      simpa only [walk] using this
  | .macro name args defaults body => by
      have := Pres.comp (pres_assign A name) (pres_scope (Pres.comp (Pres.comp
        (pres_assign A "caller") (pres_macroArgs A args.reverse defaults.reverse))
        (pres_walkList A body)))
      simpa only [walk] using this
  | .callBlock callee cargs args defaults body => by
      have := Pres.comp (pres_visitVars A (varsCall callee cargs)) (pres_scope (Pres.comp
        (Pres.comp (pres_assign A "caller") (pres_macroArgs A args.reverse defaults.reverse))
        (pres_walkList A body)))
      simpa only [walk] using this
  | .doStmt callee cargs => by
      simpa only [walk] using pres_visitVars A (varsCall callee cargs)
theorem pres_walkList (A : String → Prop) : (ss : List Stmt) → Pres A (fun st => walkList st ss)
  | [] => by simpa only [walkList] using Pres.id A
  | s :: ss => by
      simpa only [walkList] using Pres.comp (pres_walk A s) (pres_walkList A ss)
end

/-- The closure analysis of a macro against the analysis of the same macro in its context:
a closure name is reported by the run in context, or it was assigned when the macro was
entered (`st1` = tracker right after `push` and `assign("caller")`). -/
theorem closure_in_context (st1 : St) (hne : st1.assigned ≠ [])
    (args : List String) (defaults : List Expr) (body : List Stmt) :
    ∀ x ∈ findMacroClosure args defaults body,
      x ∈ (walkList (macroArgs st1 args.reverse defaults.reverse) body).out
      ∨ st1.isAssigned x = true := by
  have hrel : Rel (fun x => st1.isAssigned x = true) St.init st1 := by
    refine ⟨by simp [St.init], hne, ?_, fun x hx => Or.inr (Or.inr hx), ?_⟩
    · intro x hx; simp [St.init, St.isAssigned] at hx
    · intro x hx; simp [St.init] at hx
  have hp := Pres.comp (pres_macroArgs (fun x => st1.isAssigned x = true) args.reverse
    defaults.reverse) (pres_walkList _ body)
  exact (hp.rel _ _ hrel).r2

end MJ.Meta
