import MJ.Proofs.MetaWalk
/-! Two runs of the analysis over the same code — one from a fresh tracker without nested
tracking (`find_macro_closure`, the free names of a block body), one inside the enclosing
template (`find_undeclared`, either mode) — stay related: whatever the fresh run reports is
reported by the run in context as well, unless the context had the name assigned when the
code was entered (C18, macros and blocks). -/
namespace MJ.Meta

/-- `s0`: fresh run (never nested), `s1`: run in context, `A`: names assigned in `s1` at the
start -/
structure Rel (A : String → Prop) (s0 s1 : St) : Prop where
  flat : s0.nested = none
  ne0 : s0.assigned ≠ []
  ne1 : s1.assigned ≠ []
  r1 : ∀ x, s0.isAssigned x = true → s1.isAssigned x = true ∨ x ∈ s0.out
  r3 : ∀ x, s1.isAssigned x = true → s0.isAssigned x = true ∨ s1.reported x ∨ A x
  r2 : ∀ x ∈ s0.out, s1.reported x ∨ A x

/-- `f` is a piece of the walk: scope-local and relation preserving -/
structure Pres (A : String → Prop) (f : St → St) : Prop where
  step : ∀ st, Step st (f st)
  rel : ∀ s0 s1, Rel A s0 s1 → Rel A (f s0) (f s1)

theorem Pres.id (A : String → Prop) : Pres A (fun st => st) :=
  ⟨fun st => Step.refl st, fun _ _ h => h⟩

theorem Pres.comp {A : String → Prop} {f g : St → St} (hf : Pres A f) (hg : Pres A g) :
    Pres A (fun st => g (f st)) :=
  ⟨fun st => Step.trans (hf.step st) (hg.step _), fun _ _ h => hg.rel _ _ (hf.rel _ _ h)⟩

theorem isAssigned_assign (st : St) (hne : st.assigned ≠ []) (x y : String) :
    (st.assign x).isAssigned y = true ↔ y = x ∨ st.isAssigned y = true := by
  constructor
  · exact isAssigned_assign_imp st x y
  · intro h
    rw [isAssigned_iff]
    unfold St.assign
    split
    · rename_i f fs hf
      rcases h with h | h
      · exact ⟨x :: f, by simp, by simp [h]⟩
      · rw [isAssigned_iff] at h
        obtain ⟨g, hg, hy⟩ := h
        rw [hf] at hg
        simp only [List.mem_cons] at hg
        rcases hg with rfl | hg
        · exact ⟨x :: g, by simp, by simp [hy]⟩
        · exact ⟨g, by simp [hg], hy⟩
    · rename_i hf; exact absurd hf hne

theorem assign_ne (st : St) (hne : st.assigned ≠ []) (x : String) : (st.assign x).assigned ≠ [] := by
  unfold St.assign
  split
  · simp
  · rename_i hf; exact absurd hf hne

theorem pres_assign (A : String → Prop) (x : String) : Pres A (fun st => st.assign x) := by
  refine ⟨fun st => step_assign st x, fun s0 s1 h => ?_⟩
  refine ⟨by rw [assign_nested]; exact h.flat, assign_ne _ h.ne0 x, assign_ne _ h.ne1 x, ?_, ?_, ?_⟩
  · intro y hy
    rw [isAssigned_assign _ h.ne0] at hy
    rw [isAssigned_assign _ h.ne1, assign_out]
    rcases hy with hy | hy
    · exact Or.inl (Or.inl hy)
    · exact (h.r1 y hy).imp Or.inr id
  · intro y hy
    rw [isAssigned_assign _ h.ne1] at hy
    rw [isAssigned_assign _ h.ne0, assign_reported]
    rcases hy with hy | hy
    · exact Or.inl (Or.inl hy)
    · rcases h.r3 y hy with h3 | h3 | h3
      · exact Or.inl (Or.inr h3)
      · exact Or.inr (Or.inl h3)
      · exact Or.inr (Or.inr h3)
  · intro y hy
    rw [assign_out] at hy
    rw [assign_reported]
    exact h.r2 y hy

theorem pres_visitLeaf (A : String → Prop) (l : Leaf) : Pres A (fun st => visitLeaf st l) := by
  refine ⟨fun st => step_visitLeaf st l, fun s0 s1 h => ?_⟩
  have hs1 := step_visitLeaf s1 l
  by_cases h0 : s0.isAssigned l.1 = true
  · -- the fresh run skips the variable
    rw [visitLeaf_pos h0]
    by_cases h1 : s1.isAssigned l.1 = true
    · rw [visitLeaf_pos h1]; exact h
    · obtain ⟨g, hg⟩ : ∃ g, s1.assigned = g := ⟨_, rfl⟩
      cases hn : s1.nested with
      | none =>
        have hne1 : ({ s1 with out := l.1 :: s1.out } : St).assigned ≠ [] := h.ne1
        have heq := visitLeaf_flat h1 hn
        refine ⟨h.flat, h.ne0, by rw [heq]; exact assign_ne _ hne1 _, ?_, ?_, ?_⟩
        · intro y hy
          rcases h.r1 y hy with h' | h'
          · left; rw [heq, isAssigned_assign _ hne1]; exact Or.inr h'
          · exact Or.inr h'
        · intro y hy
          rw [heq, isAssigned_assign _ hne1] at hy
          rcases hy with rfl | hy
          · exact Or.inl h0
          · rcases h.r3 y hy with h3 | h3 | h3
            · exact Or.inl h3
            · exact Or.inr (Or.inl (hs1.rep y h3))
            · exact Or.inr (Or.inr h3)
        · intro y hy
          exact (h.r2 y hy).imp (hs1.rep y) id
      | some n =>
        have heq := visitLeaf_nested h1 hn
        have hia : ∀ y, (visitLeaf s1 l).isAssigned y = s1.isAssigned y := by
          intro y; rw [heq]; rfl
        refine ⟨h.flat, h.ne0, by rw [heq]; exact h.ne1, ?_, ?_, ?_⟩
        · intro y hy; rw [hia]; exact h.r1 y hy
        · intro y hy
          rw [hia] at hy
          rcases h.r3 y hy with h3 | h3 | h3
          · exact Or.inl h3
          · exact Or.inr (Or.inl (hs1.rep y h3))
          · exact Or.inr (Or.inr h3)
        · intro y hy
          exact (h.r2 y hy).imp (hs1.rep y) id
  · -- the fresh run reports the variable and considers it assigned
    have heq0 := visitLeaf_flat h0 h.flat
    have hne0 : ({ s0 with out := l.1 :: s0.out } : St).assigned ≠ [] := h.ne0
    have hout0 : ∀ y, y ∈ (visitLeaf s0 l).out ↔ y = l.1 ∨ y ∈ s0.out := by
      intro y; rw [heq0, assign_out]; simp
    have hflat0 : (visitLeaf s0 l).nested = none := by rw [heq0, assign_nested]; exact h.flat
    have hne0' : (visitLeaf s0 l).assigned ≠ [] := by rw [heq0]; exact assign_ne _ hne0 _
    have hia0 : ∀ y, (visitLeaf s0 l).isAssigned y = true ↔ y = l.1 ∨ s0.isAssigned y = true := by
      intro y; rw [heq0, isAssigned_assign _ hne0]; rfl
    by_cases h1 : s1.isAssigned l.1 = true
    · rw [visitLeaf_pos h1]
      refine ⟨hflat0, hne0', h.ne1, ?_, ?_, ?_⟩
      · intro y hy
        rw [hia0] at hy
        rcases hy with rfl | hy
        · exact Or.inl h1
        · exact (h.r1 y hy).imp id (fun h' => (hout0 y).2 (Or.inr h'))
      · intro y hy
        rcases h.r3 y hy with h3 | h3 | h3
        · exact Or.inl ((hia0 y).2 (Or.inr h3))
        · exact Or.inr (Or.inl h3)
        · exact Or.inr (Or.inr h3)
      · intro y hy
        rw [hout0] at hy
        rcases hy with hyl | hy
        · rw [hyl]
          rcases h.r3 l.1 h1 with h3 | h3 | h3
          · exact absurd h3 h0
          · exact Or.inl h3
          · exact Or.inr h3
        · exact h.r2 y hy
    · have hrep1 : (visitLeaf s1 l).reported l.1 := by
        cases hn : s1.nested with
        | none =>
          rw [visitLeaf_flat h1 hn, assign_reported]; simp [St.reported, hn]
        | some n =>
          rw [visitLeaf_nested h1 hn]; simp only [St.reported]; exact ⟨l.2, by simp⟩
      have hne1' : (visitLeaf s1 l).assigned ≠ [] := by
        obtain ⟨f, fs, hf⟩ := List.exists_cons_of_ne_nil h.ne1
        obtain ⟨g, hg⟩ := hs1.tail f fs hf
        rw [hg]; simp
      have hia1 : ∀ y, (visitLeaf s1 l).isAssigned y = true →
          y = l.1 ∨ s1.isAssigned y = true := by
        intro y hy
        cases hn : s1.nested with
        | none =>
          rw [visitLeaf_flat h1 hn] at hy
          exact isAssigned_assign_imp ({ s1 with out := l.1 :: s1.out } : St) _ _ hy
        | some n =>
          rw [visitLeaf_nested h1 hn] at hy
          exact Or.inr hy
      have hia1' : ∀ y, s1.isAssigned y = true → (visitLeaf s1 l).isAssigned y = true := by
        intro y hy
        cases hn : s1.nested with
        | none =>
          have hne1 : ({ s1 with out := l.1 :: s1.out } : St).assigned ≠ [] := h.ne1
          rw [visitLeaf_flat h1 hn, isAssigned_assign _ hne1]; exact Or.inr hy
        | some n =>
          rw [visitLeaf_nested h1 hn]; exact hy
      refine ⟨hflat0, hne0', hne1', ?_, ?_, ?_⟩
      · intro y hy
        rw [hia0] at hy
        rcases hy with hyl | hy
        · exact Or.inr ((hout0 y).2 (Or.inl hyl))
        · exact (h.r1 y hy).imp (hia1' y) (fun h' => (hout0 y).2 (Or.inr h'))
      · intro y hy
        rcases hia1 y hy with hyl | hy
        · exact Or.inl ((hia0 y).2 (Or.inl hyl))
        · rcases h.r3 y hy with h3 | h3 | h3
          · exact Or.inl ((hia0 y).2 (Or.inr h3))
          · exact Or.inr (Or.inl (hs1.rep y h3))
          · exact Or.inr (Or.inr h3)
      · intro y hy
        rw [hout0] at hy
        rcases hy with rfl | hy
        · exact Or.inl hrep1
        · exact (h.r2 y hy).imp (hs1.rep y) id

theorem pres_visitLeaves (A : String → Prop) (ls : List Leaf) :
    Pres A (fun st => visitLeaves st ls) := by
  induction ls with
  | nil => exact Pres.id A
  | cons x xs ih =>
    have := Pres.comp (pres_visitLeaf A x) ih
    simpa [visitLeaves] using this

theorem pres_visitExpr (A : String → Prop) (e : Expr) : Pres A (fun st => visitExpr st e) :=
  pres_visitLeaves A _

theorem pres_visitOpt (A : String → Prop) (e : Option Expr) : Pres A (fun st => visitOpt st e) :=
  pres_visitLeaves A _

theorem pres_trackAtoms (A : String → Prop) (as : List TAtom) :
    Pres A (fun st => as.foldl trackAtom st) := by
  induction as with
  | nil => exact Pres.id A
  | cons a as ih =>
    cases a with
    | name x => exact Pres.comp (pres_assign A x) ih
    | look e => exact Pres.comp (pres_visitExpr A e) ih

theorem pres_trackAssign (A : String → Prop) (t : Expr) : Pres A (fun st => trackAssign st t) :=
  pres_trackAtoms A _

theorem pres_trackTargets (A : String → Prop) (ts : List Expr) :
    Pres A (fun st => ts.foldl trackAssign st) := by
  induction ts with
  | nil => exact Pres.id A
  | cons t ts ih => exact Pres.comp (pres_trackAssign A t) ih

theorem pres_macroArgs (A : String → Prop) (as : List String) (ds : List Expr) :
    Pres A (fun st => macroArgs st as ds) := by
  induction as generalizing ds with
  | nil => simpa [macroArgs] using Pres.id A
  | cons a as ih =>
    cases ds with
    | nil =>
      have := Pres.comp (pres_assign A a) (ih [])
      simpa [macroArgs] using this
    | cons d ds =>
      have := Pres.comp (Pres.comp (pres_visitExpr A d) (pres_assign A a)) (ih ds)
      simpa [macroArgs] using this

theorem pres_withAssigns (A : String → Prop) (as : List (Expr × Expr)) :
    Pres A (fun st => withAssigns st as) := by
  induction as with
  | nil => simpa [withAssigns] using Pres.id A
  | cons p as ih =>
    obtain ⟨t, e⟩ := p
    have := Pres.comp (Pres.comp (pres_visitExpr A e) (pres_trackAssign A t)) ih
    simpa [withAssigns] using this

/-- `push; f; pop` -/
theorem pres_scope {A : String → Prop} {f : St → St} (hf : Pres A f) :
    Pres A (fun st => (f st.push).pop) := by
  refine ⟨fun st => step_of_scope (hf.step _), fun s0 s1 h => ?_⟩
  have hp : Rel A s0.push s1.push := by
    refine ⟨h.flat, by simp [St.push], by simp [St.push], ?_, ?_, ?_⟩
    · intro y hy; rw [isAssigned_push] at *; exact h.r1 y hy
    · intro y hy; rw [isAssigned_push] at *; exact h.r3 y hy
    · exact h.r2
  have hr := hf.rel _ _ hp
  have st0 := hf.step s0.push
  obtain ⟨e0, _, _⟩ := step_scope st0
  obtain ⟨e1, o1, _⟩ := step_scope (hf.step s1.push)
  have ia0 : ∀ y, (f s0.push).pop.isAssigned y = s0.isAssigned y := by
    intro y; simp only [St.isAssigned, e0]
  have ia1 : ∀ y, (f s1.push).pop.isAssigned y = s1.isAssigned y := by
    intro y; simp only [St.isAssigned, e1]
  refine ⟨hr.flat, by rw [e0]; exact h.ne0, by rw [e1]; exact h.ne1, ?_, ?_, ?_⟩
  · intro y hy
    rw [ia0] at hy; rw [ia1]
    exact (h.r1 y hy).imp id (fun h' => st0.out y h')
  · intro y hy
    rw [ia1] at hy; rw [ia0]
    rcases h.r3 y hy with h3 | h3 | h3
    · exact Or.inl h3
    · exact Or.inr (Or.inl (o1 y h3))
    · exact Or.inr (Or.inr h3)
  · intro y hy
    exact hr.r2 y hy

/-- a block body: walked with a scope stack of its own -/
theorem pres_block {A : String → Prop} {f : St → St} (hf : Pres A f) :
    Pres A (fun st => { f { st with assigned := [[]] } with assigned := st.assigned }) := by
  refine ⟨fun st => step_block (hf.step _), fun s0 s1 h => ?_⟩
  have hin : Rel A { s0 with assigned := [[]] } { s1 with assigned := [[]] } := by
    refine ⟨h.flat, by simp, by simp, ?_, ?_, h.r2⟩
    · intro y hy; simp [St.isAssigned] at hy
    · intro y hy; simp [St.isAssigned] at hy
  have hr := hf.rel _ _ hin
  have st0 := hf.step { s0 with assigned := [[]] }
  have st1 := hf.step { s1 with assigned := [[]] }
  refine ⟨hr.flat, h.ne0, h.ne1, ?_, ?_, ?_⟩
  · intro y hy
    have hy' : s0.isAssigned y = true := hy
    rcases h.r1 y hy' with h' | h'
    · exact Or.inl h'
    · exact Or.inr (st0.out y h')
  · intro y hy
    have hy' : s1.isAssigned y = true := hy
    rcases h.r3 y hy' with h3 | h3 | h3
    · exact Or.inl h3
    · exact Or.inr (Or.inl (st1.rep y h3))
    · exact Or.inr (Or.inr h3)
  · intro y hy
    exact hr.r2 y hy

mutual
theorem pres_walk (A : String → Prop) : (s : Stmt) → Pres A (fun st => walk st s)
  | .emit e => by simpa only [walk] using pres_visitExpr A e
  | .raw => by simpa only [walk] using Pres.id A
  | .forLoop target iter filter _ body els => by
      have h1 := pres_scope (Pres.comp (Pres.comp (Pres.comp (Pres.comp (pres_visitExpr A iter)
        (pres_trackAssign A target)) (pres_visitOpt A filter)) (pres_assign A "loop"))
        (pres_walkList A body))
      have h2 := pres_scope (pres_walkList A els)
      simpa only [walk] using Pres.comp h1 h2
  | .ifCond c t f => by
      have := Pres.comp (Pres.comp (pres_visitExpr A c) (pres_scope (pres_walkList A t)))
        (pres_scope (pres_walkList A f))
      simpa only [walk] using this
  | .withBlock assigns body => by
      have := pres_scope (Pres.comp (pres_withAssigns A assigns) (pres_walkList A body))
      simpa only [walk] using this
  | .set target e => by
      simpa only [walk] using Pres.comp (pres_visitExpr A e) (pres_trackAssign A target)
  | .autoEscape e body => by
      simpa only [walk] using Pres.comp (pres_visitExpr A e) (pres_scope (pres_walkList A body))
  | .filterBlock filter body => by
      simpa only [walk] using Pres.comp (pres_scope (pres_walkList A body)) (pres_visitExpr A filter)
  | .setBlock target filter body => by
      have := Pres.comp (Pres.comp (pres_scope (pres_walkList A body)) (pres_visitOpt A filter))
        (pres_trackAssign A target)
      simpa only [walk] using this
  | .macro name args defaults body => by
      have := Pres.comp (pres_scope (Pres.comp (Pres.comp
        (pres_assign A "caller") (pres_macroArgs A args.reverse defaults.reverse))
        (pres_walkList A body))) (pres_assign A name)
      simpa only [walk] using this
  | .callBlock callee cargs args defaults body => by
      have := Pres.comp (pres_visitLeaves A (nvarsCall callee cargs)) (pres_scope (Pres.comp
        (Pres.comp (pres_assign A "caller") (pres_macroArgs A args.reverse defaults.reverse))
        (pres_walkList A body)))
      simpa only [walk] using this
  | .doStmt callee cargs => by
      simpa only [walk] using pres_visitLeaves A (nvarsCall callee cargs)
  | .brk => by simpa only [walk] using Pres.id A
  | .cont => by simpa only [walk] using Pres.id A
  | .block _ body => by
      simpa only [walk] using pres_block (pres_walkList A body)
  | .include name => by simpa only [walk] using pres_visitExpr A name
  | .extends name => by simpa only [walk] using pres_visitExpr A name
  | .importAs e target => by
      simpa only [walk] using Pres.comp (pres_visitExpr A e) (pres_trackAssign A target)
  | .fromImport e targets => by
      simpa only [walk] using Pres.comp (pres_visitExpr A e) (pres_trackTargets A targets)
theorem pres_walkList (A : String → Prop) : (ss : List Stmt) → Pres A (fun st => walkList st ss)
  | [] => by simpa only [walkList] using Pres.id A
  | s :: ss => by
      simpa only [walkList] using Pres.comp (pres_walk A s) (pres_walkList A ss)
end

/-- The closure analysis of a macro against the analysis of the same macro in its context:
a closure name is reported by the run in context, or it was assigned when the macro was
entered (`st1` = tracker right after `push` and `assign("caller")`). -/
theorem closure_in_context (st1 : St) (hne : st1.assigned ≠ [])
    (args : List String) (defaults : List Expr) (body : List Stmt) :
    ∀ x ∈ findMacroClosure args defaults body,
      (walkList (macroArgs st1 args.reverse defaults.reverse) body).reported x
      ∨ st1.isAssigned x = true := by
  have hrel : Rel (fun x => st1.isAssigned x = true) St.init st1 := by
    refine ⟨rfl, by simp [St.init], hne, ?_, fun x hx => Or.inr (Or.inr hx), ?_⟩
    · intro x hx; simp [St.init, St.isAssigned] at hx
    · intro x hx; simp [St.init] at hx
  have hp := Pres.comp (pres_macroArgs (fun x => st1.isAssigned x = true) args.reverse
    defaults.reverse) (pres_walkList _ body)
  exact (hp.rel _ _ hrel).r2

/-- the free names of a block body are reported wherever the block stands -/
theorem block_free_reported (st : St) (body : List Stmt) :
    ∀ x ∈ (walkList St.init body).out,
      (walkList { st with assigned := [[]] } body).reported x := by
  have hrel : Rel (fun _ => False) St.init { st with assigned := [[]] } := by
    refine ⟨rfl, by simp [St.init], by simp, ?_, ?_, ?_⟩
    · intro x hx; simp [St.init, St.isAssigned] at hx
    · intro x hx; simp [St.isAssigned] at hx
    · intro x hx; simp [St.init] at hx
  intro x hx
  exact ((pres_walkList _ body).rel _ _ hrel).r2 x hx |>.resolve_right (fun h => h)

end MJ.Meta
