import MJ.Model.Loc
/-!
Helper lemmas for C14, part 3: the run-length side tables of `Instructions`.
-/
namespace MJ.Loc
open MJ

/-! ### specification: the location recorded by the most recent located add -/

def lineStep (acc : Option Nat) : Add → Option Nat
  | .plain => acc
  | .withLine l => some l
  | .withSpan s => some s.startLine

def spanStep (acc : Option Span) : Add → Option Span
  | .plain => acc
  | .withLine _ => none
  | .withSpan s => s.nonDefault

/-- line recorded by the last `add_with_line` / `add_with_span` of the sequence -/
def lastLine (ops : List Add) : Option Nat := ops.foldl lineStep none
/-- span recorded by the last located add (`add_with_line` and `Span::default()` record "no span") -/
def lastSpan (ops : List Add) : Option Span := ops.foldl spanStep none

/-- what `get_line(i)` has to return: the line recorded at or before instruction `i` -/
def lineSpec (ops : List Add) (i : Nat) : Option Nat := lastLine (ops.take (i + 1))
def spanSpec (ops : List Add) (i : Nat) : Option Span := lastSpan (ops.take (i + 1))

theorem lastLine_snoc (ops : List Add) (op : Add) : lastLine (ops ++ [op]) = lineStep (lastLine ops) op := by
  simp [lastLine, List.foldl_append]
theorem lastSpan_snoc (ops : List Add) (op : Add) : lastSpan (ops ++ [op]) = spanStep (lastSpan ops) op := by
  simp [lastSpan, List.foldl_append]

theorem lineSpec_snoc_lt (ops : List Add) (op : Add) (i : Nat) (h : i < ops.length) :
    lineSpec (ops ++ [op]) i = lineSpec ops i := by
  simp [lineSpec, List.take_append_of_le_length (by omega : i + 1 ≤ ops.length)]
theorem spanSpec_snoc_lt (ops : List Add) (op : Add) (i : Nat) (h : i < ops.length) :
    spanSpec (ops ++ [op]) i = spanSpec ops i := by
  simp [spanSpec, List.take_append_of_le_length (by omega : i + 1 ≤ ops.length)]

theorem lineSpec_ge (ops : List Add) (i : Nat) (h : ops.length ≤ i + 1) : lineSpec ops i = lastLine ops := by
  simp [lineSpec, List.take_of_length_le h]
theorem spanSpec_ge (ops : List Add) (i : Nat) (h : ops.length ≤ i + 1) : spanSpec ops i = lastSpan ops := by
  simp [spanSpec, List.take_of_length_le h]

/-! ### binary search on strictly sorted keys that end below the probe -/

theorem takeWhile_all {p : Nat → Bool} (l : List Nat) (h : ∀ x ∈ l, p x = true) : l.takeWhile p = l := by
  induction l with
  | nil => rfl
  | cons a l ih =>
    simp only [List.takeWhile_cons, h a (List.mem_cons_self ..), if_true]
    rw [ih (fun x hx => h x (List.mem_cons_of_mem _ hx))]

theorem takeWhile_snoc_stop {p : Nat → Bool} (l : List Nat) (x : Nat) (hx : p x = false) :
    (l ++ [x]).takeWhile p = l.takeWhile p := by
  induction l with
  | nil => simp [List.takeWhile_cons, hx]
  | cons a l ih =>
    simp only [List.cons_append, List.takeWhile_cons]
    split
    · rw [ih]
    · rfl

theorem length_takeWhile_le' (p : Nat → Bool) (l : List Nat) : (l.takeWhile p).length ≤ l.length := by
  induction l with
  | nil => simp
  | cons a l ih =>
    simp only [List.takeWhile_cons]
    split
    · simp; exact ih
    · simp

/-- keys strictly increasing and all below `n` -/
def SortedBelow (keys : List Nat) (n : Nat) : Prop := keys.Pairwise (· < ·) ∧ ∀ k ∈ keys, k < n

theorem SortedBelow.nil (n : Nat) : SortedBelow [] n := ⟨List.Pairwise.nil, by simp⟩

theorem SortedBelow.mono {keys : List Nat} {n m : Nat} (h : SortedBelow keys n) (hm : n ≤ m) :
    SortedBelow keys m := ⟨h.1, fun k hk => Nat.lt_of_lt_of_le (h.2 k hk) hm⟩

theorem SortedBelow.snoc {keys : List Nat} {n : Nat} (h : SortedBelow keys n) :
    SortedBelow (keys ++ [n]) (n + 1) := by
  refine ⟨List.pairwise_append.mpr ⟨h.1, List.pairwise_singleton _ _, ?_⟩, ?_⟩
  · intro a ha b hb
    simp at hb; subst hb; exact h.2 a ha
  · intro k hk
    simp at hk
    rcases hk with hk | hk
    · have := h.2 k hk; omega
    · omega

theorem binarySearch_nil (i : Nat) : binarySearch [] i = .error 0 := by
  simp [binarySearch]

/-- probe at the last key -/
theorem binarySearch_snoc_eq (keys : List Nat) (n : Nat) (h : SortedBelow keys n) :
    binarySearch (keys ++ [n]) n = .ok keys.length := by
  unfold binarySearch
  have hstop : (decide (n < n)) = false := by simp
  rw [takeWhile_snoc_stop keys n hstop, takeWhile_all keys (fun x hx => by simpa using h.2 x hx)]
  simp

/-- probe beyond the last key -/
theorem binarySearch_snoc_gt (keys : List Nat) (n i : Nat) (h : SortedBelow keys n) (hi : n < i) :
    binarySearch (keys ++ [n]) i = .error (keys.length + 1) := by
  unfold binarySearch
  rw [takeWhile_all (keys ++ [n]) (fun x hx => by
    simp at hx
    rcases hx with hx | hx
    · have := h.2 x hx; simp; omega
    · simp; omega)]
  simp

/-- probe below the last key: the last key is invisible -/
theorem binarySearch_snoc_lt (keys : List Nat) (n i : Nat) (hi : i < n) :
    (binarySearch (keys ++ [n]) i = binarySearch keys i) ∧
    (keys.takeWhile (· < i)).length ≤ keys.length := by
  have hstop : (decide (n < i)) = false := by simp; omega
  have hlen : (keys.takeWhile (· < i)).length ≤ keys.length := length_takeWhile_le' _ _
  refine ⟨?_, hlen⟩
  unfold binarySearch
  rw [takeWhile_snoc_stop keys n hstop]
  simp only []
  rcases Nat.lt_or_ge (keys.takeWhile (· < i)).length keys.length with hlt | hge
  · rw [List.getElem?_append_left hlt]
  · have he : (keys.takeWhile (· < i)).length = keys.length := by omega
    rw [he, List.getElem?_append_right (Nat.le_refl _)]
    have h1 : keys[keys.length]? = none := by simp
    simp [h1]; omega

/-! ### `lookupRun` on a table whose keys are sorted below `n` -/

theorem index_snoc_last {α : Type} (tbl : List α) (x : α) : Chk.index (tbl ++ [x]) tbl.length = .ok x := by
  simp [Chk.index]

theorem index_snoc_lt {α : Type} (tbl : List α) (x : α) (j : Nat) (h : j < tbl.length) :
    Chk.index (tbl ++ [x]) j = Chk.index tbl j := by
  simp [Chk.index, List.getElem?_append_left h]

theorem lookupRun_nil {α : Type} (first : α → Nat) (i : Nat) : lookupRun first [] i = .ok none := by
  simp [lookupRun, binarySearch_nil]

/-- at or beyond the last run: the last run -/
theorem lookupRun_snoc_ge {α : Type} (first : α → Nat) (tbl : List α) (x : α)
    (h : SortedBelow (tbl.map first) (first x)) (i : Nat) (hi : first x ≤ i) :
    lookupRun first (tbl ++ [x]) i = .ok (some x) := by
  unfold lookupRun
  rw [List.map_append, List.map_singleton]
  rcases Nat.eq_or_lt_of_le hi with heq | hlt
  · rw [← heq, binarySearch_snoc_eq _ _ h]
    simp only [List.length_map]
    rw [index_snoc_last]
  · rw [binarySearch_snoc_gt _ _ _ h hlt]
    simp only [List.length_map]
    rw [index_snoc_last]

/-- before the last run: the last run is invisible -/
theorem lookupRun_snoc_lt {α : Type} (first : α → Nat) (tbl : List α) (x : α) (i : Nat) (hi : i < first x) :
    lookupRun first (tbl ++ [x]) i = lookupRun first tbl i := by
  unfold lookupRun
  rw [List.map_append, List.map_singleton]
  obtain ⟨hbs, hlen⟩ := binarySearch_snoc_lt (tbl.map first) (first x) i hi
  rw [hbs]
  have hb : ∀ j, binarySearch (tbl.map first) i = .ok j → j < tbl.length := by
    intro j hj
    unfold binarySearch at hj
    simp only [] at hj
    split at hj
    · rename_i hget
      injection hj with hj
      have := (List.getElem?_eq_some_iff.mp hget).1
      simp at this; omega
    · cases hj
  have he : ∀ j, binarySearch (tbl.map first) i = .error (j + 1) → j < tbl.length := by
    intro j hj
    unfold binarySearch at hj
    simp only [] at hj
    split at hj
    · cases hj
    · injection hj with hj
      simp at hlen; omega
  cases hbs' : binarySearch (tbl.map first) i with
  | ok j => simp only []; rw [index_snoc_lt tbl x j (hb j hbs')]
  | error j =>
    cases j with
    | zero => rfl
    | succ j => simp only []; rw [index_snoc_lt tbl x j (he j hbs')]

/-- beyond every key of the table: the last run (or nothing for the empty table) -/
theorem lookupRun_beyond {α : Type} (first : α → Nat) (tbl : List α) (n i : Nat)
    (h : SortedBelow (tbl.map first) n) (hi : n ≤ i) : lookupRun first tbl i = .ok tbl.getLast? := by
  rcases List.eq_nil_or_concat tbl with rfl | ⟨init, x, rfl⟩
  · simp [lookupRun_nil]
  · rw [List.concat_eq_append] at h ⊢
    rw [List.map_append, List.map_singleton] at h
    have hx : first x < n := h.2 _ (by simp)
    have hs : SortedBelow (init.map first) (first x) := by
      refine ⟨(List.pairwise_append.mp h.1).1, fun k hk => ?_⟩
      exact (List.pairwise_append.mp h.1).2.2 k hk (first x) (by simp)
    rw [lookupRun_snoc_ge first init x hs i (by omega)]
    simp

/-! ### the invariant of `Instructions` along any add sequence -/

def normLast (tbl : List SpanInfo) : Option Span :=
  match tbl.getLast? with
  | some x => x.span.nonDefault
  | none => none

structure Inv (ops : List Add) (s : Instrs) : Prop where
  len : s.len = ops.length
  lsorted : SortedBelow (s.lineInfos.map LineInfo.first) s.len
  ssorted : SortedBelow (s.spanInfos.map SpanInfo.first) s.len
  llast : (s.lineInfos.getLast?).map LineInfo.line = lastLine ops
  slast : normLast s.spanInfos = lastSpan ops
  lget : ∀ i, s.getLine i = .ok (lineSpec ops i)
  sget : ∀ i, s.getSpan i = .ok (spanSpec ops i)

theorem getLine_of_lookup (s : Instrs) (i : Nat) (r : Option LineInfo)
    (h : lookupRun LineInfo.first s.lineInfos i = .ok r) : s.getLine i = .ok (r.map LineInfo.line) := by
  unfold Instrs.getLine; rw [h]; cases r <;> rfl

theorem getSpan_of_lookup (s : Instrs) (i : Nat) (r : Option SpanInfo)
    (h : lookupRun SpanInfo.first s.spanInfos i = .ok r) :
    s.getSpan i = .ok (r.bind (fun x => x.span.nonDefault)) := by
  unfold Instrs.getSpan; rw [h]; cases r <;> rfl

theorem Inv.empty : Inv [] Instrs.empty := by
  refine ⟨rfl, SortedBelow.nil _, SortedBelow.nil _, rfl, rfl, ?_, ?_⟩
  · intro i; rw [getLine_of_lookup _ _ none (lookupRun_nil _ _)]; rfl
  · intro i; rw [getSpan_of_lookup _ _ none (lookupRun_nil _ _)]; rfl

/-- one "maybe push an entry for instruction `n`" step on a sorted table -/
theorem table_step {α : Type} (first : α → Nat) (tbl tbl' : List α) (n : Nat) (x : α)
    (hs : SortedBelow (tbl.map first) n) (hx : first x = n) (hcase : tbl' = tbl ∨ tbl' = tbl ++ [x]) :
    SortedBelow (tbl'.map first) (n + 1) ∧
    ∀ i, lookupRun first tbl' i = if i < n then lookupRun first tbl i else .ok tbl'.getLast? := by
  rcases hcase with rfl | rfl
  · refine ⟨hs.mono (by omega), fun i => ?_⟩
    split
    · rfl
    · exact lookupRun_beyond first tbl' n i hs (by omega)
  · refine ⟨by rw [List.map_append, List.map_singleton, hx]; exact hs.snoc, fun i => ?_⟩
    split
    · exact lookupRun_snoc_lt first tbl x i (by omega)
    · rw [lookupRun_snoc_ge first tbl x (by rw [hx]; exact hs) i (by omega)]; simp

theorem getLine_step (ops : List Add) (s s' : Instrs) (op : Add) (h : Inv ops s) (x : LineInfo)
    (hx : x.first = s.len) (hcase : s'.lineInfos = s.lineInfos ∨ s'.lineInfos = s.lineInfos ++ [x])
    (hlast : (s'.lineInfos.getLast?).map LineInfo.line = lastLine (ops ++ [op])) :
    SortedBelow (s'.lineInfos.map LineInfo.first) (s.len + 1) ∧
    ∀ i, s'.getLine i = .ok (lineSpec (ops ++ [op]) i) := by
  obtain ⟨hsorted, hlook⟩ := table_step LineInfo.first s.lineInfos s'.lineInfos s.len x h.lsorted hx hcase
  refine ⟨hsorted, fun i => ?_⟩
  have hl := hlook i
  split at hl
  · rename_i hi
    have hold := h.lget i
    unfold Instrs.getLine at hold ⊢
    rw [hl]
    rw [lineSpec_snoc_lt ops op i (by rw [← h.len]; exact hi)]
    exact hold
  · rename_i hi
    rw [getLine_of_lookup s' i _ hl, hlast, lineSpec_ge]
    simp [← h.len]; omega

theorem getSpan_step (ops : List Add) (s s' : Instrs) (op : Add) (h : Inv ops s) (x : SpanInfo)
    (hx : x.first = s.len) (hcase : s'.spanInfos = s.spanInfos ∨ s'.spanInfos = s.spanInfos ++ [x])
    (hlast : normLast s'.spanInfos = lastSpan (ops ++ [op])) :
    SortedBelow (s'.spanInfos.map SpanInfo.first) (s.len + 1) ∧
    ∀ i, s'.getSpan i = .ok (spanSpec (ops ++ [op]) i) := by
  obtain ⟨hsorted, hlook⟩ := table_step SpanInfo.first s.spanInfos s'.spanInfos s.len x h.ssorted hx hcase
  refine ⟨hsorted, fun i => ?_⟩
  have hl := hlook i
  split at hl
  · rename_i hi
    have hold := h.sget i
    unfold Instrs.getSpan at hold ⊢
    rw [hl]
    rw [spanSpec_snoc_lt ops op i (by rw [← h.len]; exact hi)]
    exact hold
  · rename_i hi
    rw [getSpan_of_lookup s' i _ hl, spanSpec_ge _ _ (by simp [← h.len]; omega), ← hlast]
    unfold normLast
    cases s'.spanInfos.getLast? <;> rfl

theorem asU32_id (x : Nat) (h : x < 4294967296) : asU32 x = x := Nat.mod_eq_of_lt h

/-- line table part of one add -/
theorem lineRecord_facts (s s1 : Instrs) (l : Nat) (hs1 : s1.lineInfos = s.lineInfos) :
    ((s1.addLineRecord s.len l).lineInfos = s.lineInfos ∨
      (s1.addLineRecord s.len l).lineInfos = s.lineInfos ++ [⟨s.len, l⟩]) ∧
    ((s1.addLineRecord s.len l).lineInfos.getLast?).map LineInfo.line = some l ∧
    (s1.addLineRecord s.len l).len = s1.len ∧ (s1.addLineRecord s.len l).spanInfos = s1.spanInfos := by
  unfold Instrs.addLineRecord
  rw [hs1]
  cases hlast : s.lineInfos.getLast? with
  | none => simp [hs1]
  | some y =>
    simp only []
    by_cases hy : y.line = l
    · simp [hy, hs1, hlast]
    · simp [hy, hs1]

/-- the span-table part of `add_with_line` -/
def clearSpan (sb : Instrs) (rv : Nat) : Instrs :=
  if (match sb.spanInfos.getLast? with
      | some x => x.span != Span.default
      | none => false) then { sb with spanInfos := sb.spanInfos ++ [⟨rv, Span.default⟩] } else sb

/-- the span-table part of `add_with_span` -/
def recordSpan (sa : Instrs) (rv : Nat) (sp : Span) : Instrs :=
  if (match sa.spanInfos.getLast? with
      | some x => x.span == sp
      | none => false) then sa else { sa with spanInfos := sa.spanInfos ++ [⟨rv, sp⟩] }

theorem addWithLine_eq (s : Instrs) (l : Nat) :
    (s.addWithLine l).1 = clearSpan ((s.add.1).addLineRecord (asU32 s.len) l) (asU32 s.len) := rfl

theorem addWithSpan_eq (s : Instrs) (sp : Span) :
    (s.addWithSpan sp).1 = (recordSpan s.add.1 (asU32 s.len) sp).addLineRecord (asU32 s.len) sp.startLine := rfl

theorem nonDefault_default : Span.default.nonDefault = none := by decide

theorem clearSpan_facts (s sb : Instrs) (hsb : sb.spanInfos = s.spanInfos) :
    ((clearSpan sb s.len).spanInfos = s.spanInfos ∨
      (clearSpan sb s.len).spanInfos = s.spanInfos ++ [⟨s.len, Span.default⟩]) ∧
    normLast (clearSpan sb s.len).spanInfos = none ∧
    (clearSpan sb s.len).len = sb.len ∧ (clearSpan sb s.len).lineInfos = sb.lineInfos := by
  unfold clearSpan
  rw [hsb]
  cases hlast : s.spanInfos.getLast? with
  | none => simp [hsb, normLast, hlast]
  | some y =>
    simp only []
    by_cases hy : y.span = Span.default
    · simp [hy, hsb, normLast, hlast, nonDefault_default]
    · simp [hy, hsb, normLast, nonDefault_default]

theorem recordSpan_facts (s sa : Instrs) (sp : Span) (hsa : sa.spanInfos = s.spanInfos) :
    ((recordSpan sa s.len sp).spanInfos = s.spanInfos ∨
      (recordSpan sa s.len sp).spanInfos = s.spanInfos ++ [⟨s.len, sp⟩]) ∧
    normLast (recordSpan sa s.len sp).spanInfos = sp.nonDefault ∧
    (recordSpan sa s.len sp).len = sa.len ∧ (recordSpan sa s.len sp).lineInfos = sa.lineInfos := by
  unfold recordSpan
  rw [hsa]
  cases hlast : s.spanInfos.getLast? with
  | none => simp [hsa, normLast]
  | some y =>
    simp only []
    by_cases hy : y.span = sp
    · simp [hy, hsa, normLast, hlast]
    · simp [hy, hsa, normLast]

theorem inv_step (ops : List Add) (s : Instrs) (op : Add) (h : Inv ops s) (hlen : ops.length < 4294967296) :
    Inv (ops ++ [op]) (s.apply op) := by
  have hrv : asU32 s.len = s.len := asU32_id _ (by rw [h.len]; exact hlen)
  cases op with
  | plain =>
    have hl := getLine_step ops s (s.add.1) .plain h ⟨s.len, 0⟩ rfl (Or.inl rfl)
      (by rw [lastLine_snoc]; exact h.llast)
    have hsp := getSpan_step ops s (s.add.1) .plain h ⟨s.len, Span.default⟩ rfl (Or.inl rfl)
      (by rw [lastSpan_snoc]; exact h.slast)
    exact ⟨by simp [Instrs.apply, Instrs.add, h.len], hl.1, hsp.1,
      by rw [lastLine_snoc]; exact h.llast, by rw [lastSpan_snoc]; exact h.slast, hl.2, hsp.2⟩
  | withLine l =>
    obtain ⟨hcase, hlast, hlen', hspan'⟩ := lineRecord_facts s (s.add.1) l rfl
    obtain ⟨scase, slast, slen', sline'⟩ := clearSpan_facts s ((s.add.1).addLineRecord s.len l) hspan'
    have hs' : s.apply (.withLine l) = clearSpan ((s.add.1).addLineRecord s.len l) s.len := by
      simp only [Instrs.apply, addWithLine_eq, hrv]
    rw [hs']
    have hl := getLine_step ops s _ (.withLine l) h ⟨s.len, l⟩ rfl (by rw [sline']; exact hcase)
      (by rw [sline', hlast, lastLine_snoc]; rfl)
    have hsp := getSpan_step ops s _ (.withLine l) h ⟨s.len, Span.default⟩ rfl scase
      (by rw [slast, lastSpan_snoc]; rfl)
    refine ⟨?_, ?_, ?_, ?_, ?_, hl.2, hsp.2⟩
    · rw [slen', hlen']; simp [Instrs.add, h.len]
    · rw [slen', hlen']; exact hl.1
    · rw [slen', hlen']; exact hsp.1
    · rw [sline', hlast, lastLine_snoc]; rfl
    · rw [slast, lastSpan_snoc]; rfl
  | withSpan sp =>
    obtain ⟨scase, slast, slen', sline'⟩ := recordSpan_facts s (s.add.1) sp rfl
    obtain ⟨hcase, hlast, hlen', hspan'⟩ := lineRecord_facts s (recordSpan s.add.1 s.len sp) sp.startLine sline'
    have hs' : s.apply (.withSpan sp) = (recordSpan s.add.1 s.len sp).addLineRecord s.len sp.startLine := by
      simp only [Instrs.apply, addWithSpan_eq, hrv]
    rw [hs']
    have hl := getLine_step ops s _ (.withSpan sp) h ⟨s.len, sp.startLine⟩ rfl hcase
      (by rw [hlast, lastLine_snoc]; rfl)
    have hsp := getSpan_step ops s _ (.withSpan sp) h ⟨s.len, sp⟩ rfl (by rw [hspan']; exact scase)
      (by rw [hspan', slast, lastSpan_snoc]; rfl)
    refine ⟨?_, ?_, ?_, ?_, ?_, hl.2, hsp.2⟩
    · rw [hlen', slen']; simp [Instrs.add, h.len]
    · rw [hlen', slen']; exact hl.1
    · rw [hlen', slen']; exact hsp.1
    · rw [hlast, lastLine_snoc]; rfl
    · rw [hspan', slast, lastSpan_snoc]; rfl

theorem inv_foldl (more : List Add) :
    ∀ (ops : List Add) (s : Instrs), Inv ops s → (ops ++ more).length < 4294967296 →
      Inv (ops ++ more) (more.foldl Instrs.apply s) := by
  induction more with
  | nil => intro ops s h _; simpa using h
  | cons op more ih =>
    intro ops s h hlen
    have h1 := inv_step ops s op h (by simp at hlen; omega)
    have := ih (ops ++ [op]) (s.apply op) h1 (by simpa using hlen)
    simpa using this

theorem inv_addAll (ops : List Add) (hlen : ops.length < 4294967296) : Inv ops (addAll ops) := by
  have := inv_foldl ops [] Instrs.empty Inv.empty (by simpa using hlen)
  simpa [addAll] using this

end MJ.Loc
