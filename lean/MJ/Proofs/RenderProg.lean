import MJ.Model.RenderProg
import MJ.Proofs.Store
/-! helper lemmas: renders as programs over the environment's value (C15) -/
namespace MJ.Render
open MJ.Store

/-- a program run against environment `e` of a world behaves as on `e`'s plain value -/
theorem runAt_local {Out : Type} (c : LtCfg → Source → Bool) (e : Nat) (p : Prog Out) :
    ∀ (w : World), w.WF → e < w.stores.length → ∀ v, w.flatView e = some v →
      (p.runAt c e w).1 = (p.runOn c v).1 ∧ (p.runAt c e w).2.flatView e = some (p.runOn c v).2 ∧
      (p.runAt c e w).2.WF ∧ e < (p.runAt c e w).2.stores.length := by
  induction p with
  | ret o => intro w hw he v hv; exact ⟨rfl, hv, hw, he⟩
  | lookup n k ih =>
    intro w hw he v hv
    obtain ⟨v', hv', h1, h2⟩ := World.step_local c w hw e he (.store (.get n))
    rw [hv] at hv'
    cases hv'
    have hlen : e < (w.step c ((EOp.store (.get n)).at e)).1.stores.length := by
      rw [World.step_at_length]; exact he
    have := ih (w.step c ((EOp.store (.get n)).at e)).2 _ (World.step_WF c w _ hw) hlen _ h1
    simp only [Prog.runAt, Prog.runOn]
    change (w.step c (.store e (.get n))).2 = _ at h2
    rw [← h2]
    exact this

/-! ## lookups leave the answers to all lookups as they were -/

theorem flat_get_congr (c : LtCfg → Source → Bool) (f f' : Flat) (n : Name) (hl : f'.loader = f.loader)
    (hc : f'.cfg = f.cfg) (hn : f'.contents n = f.contents n) : (f'.get c n).2 = (f.get c n).2 := by
  unfold Flat.get
  rw [hl, hc, hn]
  repeat (first | rfl | split)

theorem flat_get_fields (c : LtCfg → Source → Bool) (f : Flat) (m : Name) :
    (f.get c m).1.loader = f.loader ∧ (f.get c m).1.cfg = f.cfg := by
  unfold Flat.get
  repeat (first | exact ⟨rfl, rfl⟩ | split)

theorem flat_get_fail_same (c : LtCfg → Source → Bool) (f : Flat) (n : Name)
    (h : ∀ t, (f.get c n).2 ≠ .found t) : (f.get c n).1 = f := by
  cases hcm : f.contents n with
  | some t => simp [Flat.get, hcm]
  | none =>
    cases hl : f.loader with
    | none => simp [Flat.get, hcm, hl]
    | some l =>
      cases hn : l n with
      | err => simp [Flat.get, hcm, hl, hn]
      | panics => simp [Flat.get, hcm, hl, hn]
      | missing => simp [Flat.get, hcm, hl, hn]
      | src s2 =>
        by_cases hc : c f.cfg s2 = true
        · exfalso; apply h (s2, f.cfg); simp [Flat.get, hcm, hl, hn, hc]
        · simp [Flat.get, hcm, hl, hn, hc]

theorem flat_get_get_result (c : LtCfg → Source → Bool) (f : Flat) (m n : Name) :
    ((f.get c m).1.get c n).2 = (f.get c n).2 := by
  obtain ⟨hl, hc⟩ := flat_get_fields c f m
  by_cases hnm : n = m
  · subst hnm
    by_cases hex : ∃ t, (f.get c n).2 = .found t
    · obtain ⟨t, hres⟩ := hex
      have h1 : (f.step c (.get n)).2 = .found t := hres
      have := flat_get_found c f n t h1
      rw [hres]
      exact flat_get_of_contents c _ n t this
    · rw [flat_get_fail_same c f n (fun t ht => hex ⟨t, ht⟩)]
  · apply flat_get_congr c f _ n hl hc
    unfold Flat.get
    repeat (first | rfl | split | exact upd_ne _ _ hnm)

/-- two stores that answer every lookup alike (and load alike in future) -/
def Flat.Same (c : LtCfg → Source → Bool) (f f' : Flat) : Prop :=
  f'.loader = f.loader ∧ f'.cfg = f.cfg ∧ ∀ n, (f'.get c n).2 = (f.get c n).2

theorem Flat.Same.refl (c : LtCfg → Source → Bool) (f : Flat) : Flat.Same c f f := ⟨rfl, rfl, fun _ => rfl⟩

theorem Flat.Same.get (c : LtCfg → Source → Bool) {f f' : Flat} (h : Flat.Same c f f') (m : Name) :
    Flat.Same c (f.get c m).1 (f'.get c m).1 := by
  obtain ⟨hl, hc, hg⟩ := h
  obtain ⟨a1, a2⟩ := flat_get_fields c f m
  obtain ⟨b1, b2⟩ := flat_get_fields c f' m
  refine ⟨by rw [a1, b1, hl], by rw [a2, b2, hc], fun n => ?_⟩
  rw [flat_get_get_result, flat_get_get_result, hg]

theorem Flat.Same.get_left (c : LtCfg → Source → Bool) {f f' : Flat} (h : Flat.Same c f f') (m : Name) :
    Flat.Same c f (f'.get c m).1 := by
  obtain ⟨hl, hc, hg⟩ := h
  obtain ⟨b1, b2⟩ := flat_get_fields c f' m
  refine ⟨by rw [b1, hl], by rw [b2, hc], fun n => ?_⟩
  rw [flat_get_get_result, hg]

/-- the part of an environment's value a run of lookups cannot change, and the part it changes only
    by memoising -/
def EnvSpec.Same (c : LtCfg → Source → Bool) (v v' : EnvSpec) : Prop :=
  Flat.Same c v.flat v'.flat ∧ v'.rt = v.rt ∧ v'.filters = v.filters ∧ v'.tests = v.tests ∧ v'.globals = v.globals

theorem runOn_same {Out : Type} (c : LtCfg → Source → Bool) (p : Prog Out) :
    ∀ v v' : EnvSpec, EnvSpec.Same c v v' →
      (p.runOn c v').1 = (p.runOn c v).1 ∧ EnvSpec.Same c v (p.runOn c v').2 := by
  induction p with
  | ret o => intro v v' h; exact ⟨rfl, h⟩
  | lookup n k ih =>
    intro v v' h
    obtain ⟨hf, h1, h2, h3, h4⟩ := h
    simp only [Prog.runOn, EnvSpec.step]
    have hres : (v'.flat.step c (.get n)).2 = (v.flat.step c (.get n)).2 := hf.2.2 n
    rw [hres]
    have hs : EnvSpec.Same c { v with flat := (v.flat.step c (.get n)).1 } { v' with flat := (v'.flat.step c (.get n)).1 } :=
      ⟨Flat.Same.get c hf n, h1, h2, h3, h4⟩
    obtain ⟨r1, r2⟩ := ih _ _ _ hs
    refine ⟨r1, ?_⟩
    obtain ⟨g1, g2, g3, g4, g5⟩ := r2
    refine ⟨?_, g2.trans rfl, g3.trans rfl, g4.trans rfl, g5.trans rfl⟩
    -- Same to `v` itself: `v` and `v` after its own lookup answer alike
    obtain ⟨x1, x2, x3⟩ := g1
    obtain ⟨y1, y2⟩ := flat_get_fields c v.flat n
    refine ⟨x1.trans y1, x2.trans y2, fun m => ?_⟩
    rw [x3 m]
    exact flat_get_get_result c v.flat n m

end MJ.Render
