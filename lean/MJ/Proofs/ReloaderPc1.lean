import MJ.Proofs.ReloaderInv
/-! `Inv` is preserved by the mutex holder's steps, part 1 of 5 (split for parallel builds) -/
namespace MJ.Reloader
variable {σ σ' : State} {c : Active}

theorem inv_pc_locked (h : Inv σ) (hc : σ.cur = some c) (hpc : c.pc = .locked)
    (hs : stepActive σ c = some σ') : Inv σ' := by inv_pc_tac
theorem inv_pc_checkedT (h : Inv σ) (hc : σ.cur = some c) (hpc : c.pc = .checked true)
    (hs : stepActive σ c = some σ') : Inv σ' := by inv_pc_tac
theorem inv_pc_checkedF (h : Inv σ) (hc : σ.cur = some c) (hpc : c.pc = .checked false)
    (hs : stepActive σ c = some σ') : Inv σ' := by inv_pc_tac

end MJ.Reloader
