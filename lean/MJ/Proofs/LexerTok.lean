import MJ.Proofs.LexerBasic
/-! `tokenize_block_or_var` on a well-formed token list: every token is consumed as written and the
tag ends exactly behind the interior (`interior_end_found`). -/
namespace MJ.Lexer

/-! ### character facts -/

theorem asciiWs_cases {c : Char} (h : isAsciiWs c = true) :
    c = ' ' ∨ c = '\t' ∨ c = '\n' ∨ c = '\x0c' ∨ c = '\r' := by
  simpa [isAsciiWs, or_assoc] using h

theorem asciiWs_not_identCont {c : Char} (h : isAsciiWs c = true) : isIdentCont c = false := by
  rcases asciiWs_cases h with rfl | rfl | rfl | rfl | rfl <;> decide

theorem identStart_identCont {c : Char} (h : isIdentStart c = true) : isIdentCont c = true := by
  simp [isIdentCont, h]

theorem identCont_not_asciiWs {c : Char} (h : isIdentCont c = true) : isAsciiWs c = false := by
  cases hw : isAsciiWs c with
  | false => rfl
  | true => rw [asciiWs_not_identCont hw] at h; cases h

theorem headOk_cons {e : List Char} (h : headOk e = true) :
    ∃ c r, e = c :: r ∧ isAsciiWs c = false := by
  cases e with
  | nil => simp [headOk] at h
  | cons c r =>
    simp only [headOk, Bool.not_eq_true'] at h
    exact ⟨c, r, rfl, h⟩

theorem headOk_ne {e : List Char} (h : headOk e = true) : e ≠ [] := by
  obtain ⟨c, r, rfl, _⟩ := headOk_cons h; simp

/-! ### one step of `scanTag` -/

theorem scanTag_done {e : List Char} {line : Bool} {m : Mode} {bal : Int} {c : Char} {r : List Char}
    {res : ScanRes} (h : scanStep e line m bal c r = .done res) : scanTag e line m bal (c :: r) = res := by
  rw [scanTag, h]

theorem scanTag_goto {e : List Char} {line : Bool} {m m' : Mode} {bal bal' : Int} {c : Char} {r : List Char}
    (h : scanStep e line m bal c r = .goto m' bal' false) :
    scanTag e line m bal (c :: r) = scanTag e line m' bal' r := by
  rw [scanTag, h]

theorem scanTag_goto2 {e : List Char} {line : Bool} {m m' : Mode} {bal bal' : Int} {c c2 : Char} {r2 : List Char}
    (h : scanStep e line m bal c (c2 :: r2) = .goto m' bal' true) :
    scanTag e line m bal (c :: c2 :: r2) = scanTag e line m' bal' r2 := by
  rw [scanTag, h]

/-- the line statement does not end at this token boundary -/
def NoLineEnd (line : Bool) (bal : Int) (s : List Char) : Prop :=
  (if line && bal == 0 then lineEnd s else none) = none

/-- the tag does not end at this token boundary -/
def NoEnd (e : List Char) (line : Bool) (bal : Int) (c : Char) (r : List Char) : Prop :=
  (!line && bal == 0 && (c = '-' || c = '+') && startsWith e r) = false ∧
    (!line && bal == 0 && startsWith e (c :: r)) = false

theorem noLineEnd_false (bal : Int) (s : List Char) : NoLineEnd false bal s := by simp [NoLineEnd]

theorem noEnd_of {e : List Char} {line : Bool} {bal : Int} {c : Char} {r : List Char}
    (h : line = true ∨ bal ≠ 0 ∨ endHere e (c :: r) = false) : NoEnd e line bal c r := by
  rcases h with rfl | h | h
  · simp [NoEnd]
  · have : (bal == 0) = false := by simpa using h
    simp [NoEnd, this]
  · simp only [endHere, Bool.or_eq_false_iff] at h
    constructor
    · cases hc : (decide (c = '-') || decide (c = '+')) with
      | false => simp
      | true =>
        have := h.2
        simp only [hc, Bool.true_and] at this
        simp [this]
    · simp [h.1]

/-- a token that is being read continues -/
theorem scan_go {e : List Char} {line : Bool} {m m' : Mode} {bal : Int} {c : Char} {r : List Char}
    (h : tokCont m c r = .go m') : scanTag e line m bal (c :: r) = scanTag e line m' bal r :=
  scanTag_goto (by simp [scanStep, h])

/-- the token that was being read ended in front of `c` -/
theorem scan_boundary {e : List Char} {line : Bool} {m : Mode} {bal : Int} {c : Char} {r : List Char}
    (h : tokCont m c r = .boundary) :
    scanTag e line m bal (c :: r) = scanTag e line .top bal (c :: r) := by
  have h1 : scanStep e line m bal c r = topStep e line bal c r := by simp only [scanStep, h]
  have h2 : scanStep e line .top bal c r = topStep e line bal c r := by simp only [scanStep, tokCont]
  rw [scanTag, scanTag, h1, h2]

theorem topStep_ws {e : List Char} {line : Bool} {bal : Int} {c : Char} {r : List Char}
    (hl : NoLineEnd line bal (c :: r)) (hw : isAsciiWs c = true) :
    topStep e line bal c r = .goto .top bal false := by
  unfold topStep
  rw [hl]
  simp [hw]

theorem top_ws {e : List Char} {line : Bool} {bal : Int} {c : Char} {r : List Char}
    (hl : NoLineEnd line bal (c :: r)) (hw : isAsciiWs c = true) :
    scanTag e line .top bal (c :: r) = scanTag e line .top bal r :=
  scanTag_goto (by simp [scanStep, tokCont, topStep_ws hl hw])

/-- at a boundary with a character that is not whitespace and does not end the tag, the operator /
    literal / identifier dispatch decides -/
theorem topStep_dispatch {e : List Char} {line : Bool} {bal : Int} {c : Char} {r : List Char}
    (hl : NoLineEnd line bal (c :: r)) (hw : isAsciiWs c = false) (he : NoEnd e line bal c r) :
    topStep e line bal c r = dispatch bal c r := by
  unfold topStep
  rw [hl]
  simp only [hw, Bool.false_eq_true, if_false, he.1, he.2]

/-! ### what the first character of a token selects -/

theorem ne_of_class {p : Char → Bool} {c : Char} (h : p c = true) (k : Char) (hk : p k = false) : c ≠ k := by
  rintro rfl; rw [h] at hk; cases hk

theorem two_false_of {p : Char → Bool} {c : Char} (h : p c = true)
    (h1 : p '/' = false) (h2 : p '*' = false) (h3 : p '=' = false) (h4 : p '!' = false)
    (h5 : p '>' = false) (h6 : p '<' = false) (r : List Char) :
    isTwo c r = false := by
  cases r with
  | nil => rfl
  | cons c2 r =>
    simp [isTwo, twoCharOp, ne_of_class h _ h1, ne_of_class h _ h2, ne_of_class h _ h3, ne_of_class h _ h4,
      ne_of_class h _ h5, ne_of_class h _ h6]

theorem single_none_of {p : Char → Bool} {c : Char} (h : p c = true)
    (hs : ∀ k ∈ ['+', '-', '*', '/', '%', '.', ',', ':', '~', '|', '=', '>', '<', '(', '[', '{', ')', ']', '}'],
      p k = false) : singleOp c = none := by
  have hn : ∀ k ∈ ['+', '-', '*', '/', '%', '.', ',', ':', '~', '|', '=', '>', '<', '(', '[', '{', ')', ']', '}'],
      c ≠ k := fun k hk => ne_of_class h k (hs k hk)
  simp only [List.mem_cons, List.not_mem_nil, or_false, forall_eq_or_imp, forall_eq] at hn
  obtain ⟨a1, a2, a3, a4, a5, a6, a7, a8, a9, a10, a11, a12, a13, a14, a15, a16, a17, a18, a19⟩ := hn
  simp [singleOp, a1, a2, a3, a4, a5, a6, a7, a8, a9, a10, a11, a12, a13, a14, a15, a16, a17, a18, a19]

theorem identStart_cases {c : Char} (h : isIdentStart c = true) :
    c = '_' ∨ (97 ≤ c.toNat ∧ c.toNat ≤ 122) ∨ (65 ≤ c.toNat ∧ c.toNat ≤ 90) := by
  simpa [isIdentStart, or_assoc] using h

theorem identStart_not_digit {c : Char} (h : isIdentStart c = true) : isDigit c = false := by
  rcases identStart_cases h with rfl | h | h
  · decide
  · simp [isDigit]; omega
  · simp [isDigit]; omega

theorem dispatch_ident {c : Char} (h : isIdentStart c = true) (bal : Int) (r : List Char) :
    dispatch bal c r = .goto .ident bal false := by
  unfold dispatch
  rw [two_false_of h (by decide) (by decide) (by decide) (by decide) (by decide) (by decide) r,
    single_none_of h (by decide)]
  have q1 := ne_of_class h '\'' (by decide)
  have q2 := ne_of_class h '"' (by decide)
  simp [q1, q2, identStart_not_digit h, h]

theorem digit_not_identStart {c : Char} (h : isDigit c = true) : isIdentStart c = false := by
  cases hi : isIdentStart c with
  | false => rfl
  | true => rw [identStart_not_digit hi] at h; cases h

theorem dispatch_digit {c : Char} (h : isDigit c = true) (bal : Int) (r : List Char)
    (hr : radixPrefix c r = none) : dispatch bal c r = .goto (.num (numFirst c)) bal false := by
  unfold dispatch
  rw [two_false_of h (by decide) (by decide) (by decide) (by decide) (by decide) (by decide) r,
    single_none_of h (by decide)]
  have q1 := ne_of_class h '\'' (by decide)
  have q2 := ne_of_class h '"' (by decide)
  simp [q1, q2, h, hr]

theorem dispatch_quote {q : Char} (h : q = '\'' ∨ q = '"') (bal : Int) (r : List Char) :
    dispatch bal q r = .goto (.str q .txt 0) bal false := by
  rcases h with rfl | rfl
  · unfold dispatch
    have : isTwo '\'' r = false := by
      cases r <;> simp [isTwo, twoCharOp]
    rw [this]; simp [singleOp]
  · unfold dispatch
    have : isTwo '"' r = false := by
      cases r <;> simp [isTwo, twoCharOp]
    rw [this]; simp [singleOp]

theorem dispatch_op {c : Char} {dl : Int} (h : singleOp c = some dl) (bal : Int) (r : List Char)
    (hf : isTwo c r = false) :
    dispatch bal c r = .goto .top (bal + dl) false := by
  unfold dispatch
  rw [hf, h]; rfl

theorem dispatch_op2 {a b : Char} (h : twoCharOp a b = true) (bal : Int) (r : List Char) :
    dispatch bal a (b :: r) = .goto .top bal true := by
  unfold dispatch
  simp [isTwo, h]

theorem singleOp_not_ws {c : Char} {dl : Int} (h : singleOp c = some dl) : isAsciiWs c = false := by
  cases hw : isAsciiWs c with
  | false => rfl
  | true =>
    rcases asciiWs_cases hw with rfl | rfl | rfl | rfl | rfl <;> simp [singleOp] at h

theorem twoCharOp_not_ws {a b : Char} (h : twoCharOp a b = true) : isAsciiWs a = false := by
  cases hw : isAsciiWs a with
  | false => rfl
  | true =>
    rcases asciiWs_cases hw with rfl | rfl | rfl | rfl | rfl <;> simp [twoCharOp] at h

theorem digit_not_ws {c : Char} (h : isDigit c = true) : isAsciiWs c = false := by
  cases hw : isAsciiWs c with
  | false => rfl
  | true =>
    rcases asciiWs_cases hw with rfl | rfl | rfl | rfl | rfl <;> revert h <;> decide

/-! ### tokens are consumed as written -/

/-- a token boundary at which neither the line nor the tag ends -/
structure Passes (e : List Char) (line : Bool) (bal : Int) (c : Char) (r : List Char) : Prop where
  noLine : NoLineEnd line bal (c :: r)
  noEnd : NoEnd e line bal c r

theorem top_token {e : List Char} {line : Bool} {bal : Int} {c : Char} {r : List Char}
    (hp : Passes e line bal c r) (hw : isAsciiWs c = false) {m' : Mode} {bal' : Int}
    (hd : dispatch bal c r = .goto m' bal' false) :
    scanTag e line .top bal (c :: r) = scanTag e line m' bal' r :=
  scanTag_goto (by simp only [scanStep, tokCont]; rw [topStep_dispatch hp.noLine hw hp.noEnd, hd])

theorem tok_ws {e : List Char} {line : Bool} {bal : Int} (s rest : List Char)
    (hall : ∀ c ∈ s, isAsciiWs c = true)
    (hl : ∀ k, k < s.length → NoLineEnd line bal (s.drop k ++ rest)) :
    scanTag e line .top bal (s ++ rest) = scanTag e line .top bal rest := by
  induction s with
  | nil => rfl
  | cons c s ih =>
    have h0 := hl 0 (by simp)
    simp only [List.drop_zero] at h0
    have h0' : NoLineEnd line bal (c :: (s ++ rest)) := h0
    rw [List.cons_append, top_ws h0' (hall c (by simp))]
    apply ih (fun x hx => hall x (by simp [hx]))
    intro k hk
    have := hl (k + 1) (by simp; omega)
    simpa using this

theorem ident_run {e : List Char} {line : Bool} {bal : Int} (cs rest : List Char)
    (hall : ∀ c ∈ cs, isIdentCont c = true) :
    scanTag e line .ident bal (cs ++ rest) = scanTag e line .ident bal rest := by
  induction cs with
  | nil => rfl
  | cons c cs ih =>
    rw [List.cons_append, scan_go (m' := .ident) (by simp [tokCont, hall c (by simp)])]
    exact ih (fun x hx => hall x (by simp [hx]))

theorem ident_exit {e : List Char} {line : Bool} {bal : Int} (rest : List Char)
    (hf : ∀ c, rest.head? = some c → isIdentCont c = false ∧ c.toNat < 128) :
    scanTag e line .ident bal rest = scanTag e line .top bal rest := by
  cases rest with
  | nil => simp [scanTag, scanEof]
  | cons c r =>
    obtain ⟨h1, h2⟩ := hf c rfl
    exact scan_boundary (by simp [tokCont, h1]; omega)

theorem tok_ident {e : List Char} {line : Bool} {bal : Int} (c : Char) (cs rest : List Char)
    (hc : isIdentStart c = true) (hcs : ∀ x ∈ cs, isIdentCont x = true)
    (hp : Passes e line bal c (cs ++ rest))
    (hf : ∀ x, rest.head? = some x → isIdentCont x = false ∧ x.toNat < 128) :
    scanTag e line .top bal (c :: cs ++ rest) = scanTag e line .top bal rest := by
  rw [List.cons_append, top_token hp (identCont_not_asciiWs (identStart_identCont hc)) (dispatch_ident hc bal _),
    ident_run cs rest hcs, ident_exit rest hf]

/-! #### strings -/

/-- one character inside a string literal -/
theorem str_go {e : List Char} {line : Bool} {bal : Int} {q : Char} {es es' : Esc} {sur sur' : Nat} {c : Char}
    {r : List Char} (h : strStep q es sur c = .cont es' sur') :
    scanTag e line (.str q es sur) bal (c :: r) = scanTag e line (.str q es' sur') bal r :=
  scan_go (by simp [tokCont, h])

theorem hexDigit_ne_plus {c : Char} (h : isHexDigit c = true) : c ≠ '+' := by
  rintro rfl; revert h; decide

theorem oct_ne_x {c : Char} (h : isOct c = true) : c ≠ 'x' := by rintro rfl; revert h; decide
theorem oct_ne_bs {c : Char} (h : isOct c = true) : c ≠ '\\' := by rintro rfl; revert h; decide

/-- the four characters of a `\u` escape -/
theorem str_u4 {e : List Char} {line : Bool} {bal : Int} (q : Char) (sur : Nat) (a b c d : Char) (v s : Nat)
    (r : List Char) (hv : hex4 a b c d = some v) (hs : pushU16 sur v = some s) :
    scanTag e line (.str q (.u 0 0) sur) bal (a :: b :: c :: d :: r) = scanTag e line (.str q .txt s) bal r := by
  unfold hex4 at hv
  split at hv
  · rename_i hh
    simp only [Bool.and_eq_true, Bool.or_eq_true, decide_eq_true_eq] at hh
    obtain ⟨⟨⟨ha, hb⟩, hc⟩, hd⟩ := hh
    have hv' := Option.some.inj hv
    have nb := hexDigit_ne_plus hb
    have nc := hexDigit_ne_plus hc
    have nd := hexDigit_ne_plus hd
    rw [str_go (es' := .u 1 (if a = '+' then 0 else hexVal a)) (sur' := sur) (by
      rcases ha with ha | ha
      · simp [strStep, ha]
      · simp [strStep, ha])]
    rw [str_go (es' := .u 2 ((if a = '+' then 0 else hexVal a) * 16 + hexVal b)) (sur' := sur) (by
      simp [strStep, hb, nb])]
    rw [str_go (es' := .u 3 (((if a = '+' then 0 else hexVal a) * 16 + hexVal b) * 16 + hexVal c)) (sur' := sur) (by
      simp [strStep, hc, nc])]
    exact str_go (by simp [strStep, hd, nd, hv', hs])
  · cases hv

/-- behind a complete octal escape the next character is read like any other -/
theorem str_oct_as_txt {e : List Char} {line : Bool} {bal : Int} (q : Char) (k acc : Nat) (c : Char) (r : List Char)
    (h : (decide (0 < k) && isOct c) = false) :
    scanTag e line (.str q (.oct k acc) 0) bal (c :: r) = scanTag e line (.str q .txt 0) bal (c :: r) := by
  have : scanStep e line (.str q (.oct k acc) 0) bal c r = scanStep e line (.str q .txt 0) bal c r := by
    simp only [scanStep, tokCont, strStep, h, Bool.false_eq_true, if_false]
  rw [scanTag, scanTag, this]

theorem oct_step (q : Char) (k acc : Nat) (c : Char) (hc : isOct c = true) (hle : acc * 8 + octVal c ≤ 255) :
    strStep q (.oct (k + 1) acc) 0 c = .cont (.oct k (acc * 8 + octVal c)) 0 := by
  have hnl : ¬ (255 < acc * 8 + (c.toNat - '0'.toNat)) := by simp only [octVal] at hle; omega
  simp only [strStep, hc, Nat.zero_lt_succ, decide_true, Bool.and_self, if_true, if_neg hnl, Nat.add_sub_cancel, octVal]

theorem strPlain_text {q c : Char} (h1 : c ≠ '\\') (h2 : c ≠ q) : strPlain q 0 c = .cont .txt 0 := by
  simp [strPlain, h1, h2]

theorem str_run {e : List Char} {line : Bool} {bal : Int} (q : Char) (hq : q = '\'' ∨ q = '"') (rest : List Char) :
    ∀ (fuel sur : Nat) (body : List Char), strBodyOkF q fuel sur body = true →
      scanTag e line (.str q .txt sur) bal (body ++ (q :: rest)) = scanTag e line .top bal rest := by
  have hq1 : q ≠ '\\' := by rcases hq with rfl | rfl <;> decide
  have hqo : isOct q = false := by rcases hq with rfl | rfl <;> decide
  -- the closing quote
  have hclose : ∀ (es : Esc), (es = .txt ∨ ∃ k acc, es = .oct k acc) →
      scanTag e line (.str q es 0) bal (q :: rest) = scanTag e line .top bal rest := by
    intro es hes
    apply scan_go
    rcases hes with rfl | ⟨k, acc, rfl⟩
    · simp [tokCont, strStep, strPlain, hq1]
    · simp [tokCont, strStep, strPlain, hq1, hqo]
  intro fuel
  induction fuel with
  | zero => intro sur body h; simp [strBodyOkF] at h
  | succ fuel ih =>
    have oct_done : ∀ (k acc : Nat) (body : List Char),
        (k = 0 ∨ ∀ c, body.head? = some c → isOct c = false) → strBodyOkF q fuel 0 body = true →
        scanTag e line (.str q (.oct k acc) 0) bal (body ++ (q :: rest)) = scanTag e line .top bal rest := by
      intro k acc body hk hb
      cases body with
      | nil => exact hclose _ (Or.inr ⟨_, _, rfl⟩)
      | cons c r =>
        have hno : (decide (0 < k) && isOct c) = false := by
          rcases hk with rfl | hk
          · simp
          · simp [hk c rfl]
        rw [List.cons_append, str_oct_as_txt q k acc c _ hno]
        exact ih 0 (c :: r) hb
    intro sur body h
    cases body with
    | nil =>
      simp only [strBodyOkF, beq_iff_eq] at h
      subst h
      exact hclose .txt (Or.inl rfl)
    | cons c r =>
      simp only [strBodyOkF] at h
      by_cases hc : c = '\\'
      · subst hc
        simp only [if_true] at h
        cases r with
        | nil => simp at h
        | cons d r1 =>
          simp only [] at h
          rw [List.cons_append, str_go (es' := .bs) (sur' := sur) (by simp [strStep, strPlain])]
          by_cases hd : d = 'u'
          · subst hd
            simp only [if_true] at h
            rw [List.cons_append, str_go (es' := .u 0 0) (sur' := sur) (by simp [strStep])]
            match r1, h with
            | a :: b :: c2 :: e4 :: r2, h =>
              simp only [] at h
              cases hv : hex4 a b c2 e4 with
              | none => simp [hv] at h
              | some v =>
                cases hs : pushU16 sur v with
                | none => simp [hv, hs] at h
                | some s2 =>
                  simp only [hv, hs] at h
                  simp only [List.cons_append]
                  rw [str_u4 q sur a b c2 e4 v s2 _ hv hs]
                  exact ih s2 r2 h
            | [], h => simp at h
            | [_], h => simp at h
            | [_, _], h => simp at h
            | [_, _, _], h => simp at h
          · simp only [hd, if_false] at h
            by_cases hsur : sur = 0
            · subst hsur
              simp only [bne_self_eq_false, Bool.false_eq_true, if_false] at h
              by_cases hx : d = 'x'
              · subst hx
                simp only [if_true] at h
                rw [List.cons_append, str_go (es' := .x 0) (sur' := 0) (by simp [strStep])]
                match r1, h with
                | a :: b :: r2, h =>
                  simp only [Bool.and_eq_true, Bool.or_eq_true, decide_eq_true_eq] at h
                  simp only [List.cons_append]
                  rw [str_go (es' := .x 1) (sur' := 0) (by
                    rcases h.1.1 with ha | ha
                    · simp [strStep, ha]
                    · simp [strStep, ha])]
                  rw [str_go (es' := .txt) (sur' := 0) (by simp [strStep, h.1.2])]
                  exact ih 0 r2 h.2
                | [], h => simp at h
                | [_], h => simp at h
              · simp only [hx, if_false] at h
                by_cases ho : isOct d = true
                · simp only [ho, if_true] at h
                  rw [List.cons_append, str_go (es' := .oct 2 (octVal d)) (sur' := 0) (by
                    simp [strStep, hd, hx, ho, octVal])]
                  -- behind the first octal digit
                  cases r1 with
                  | nil => exact hclose _ (Or.inr ⟨_, _, rfl⟩)
                  | cons a r2 =>
                    simp only [] at h
                    by_cases hoa : isOct a = true
                    · simp only [hoa, if_true] at h
                      have hle : octVal d * 8 + octVal a ≤ 255 := by
                        have h1 : octVal d ≤ 7 := by
                          simp only [isOct, Bool.and_eq_true, decide_eq_true_eq] at ho
                          simp only [octVal]; have : '0'.toNat = 48 := rfl; have : '7'.toNat = 55 := rfl; omega
                        have h2 : octVal a ≤ 7 := by
                          simp only [isOct, Bool.and_eq_true, decide_eq_true_eq] at hoa
                          simp only [octVal]; have : '0'.toNat = 48 := rfl; have : '7'.toNat = 55 := rfl; omega
                        omega
                      rw [List.cons_append, str_go (es' := .oct 1 (octVal d * 8 + octVal a)) (sur' := 0)
                        (oct_step q 1 _ a hoa hle)]
                      cases r2 with
                      | nil => exact hclose _ (Or.inr ⟨_, _, rfl⟩)
                      | cons b r3 =>
                        simp only [] at h
                        by_cases hob : isOct b = true
                        · simp only [hob, if_true, Bool.and_eq_true, decide_eq_true_eq] at h
                          rw [List.cons_append, str_go (es' := .oct 0 ((octVal d * 8 + octVal a) * 8 + octVal b)) (sur' := 0)
                            (oct_step q 0 _ b hob h.1)]
                          exact oct_done 0 _ r3 (Or.inl rfl) h.2
                        · simp only [hob, Bool.false_eq_true, if_false] at h
                          exact oct_done 1 _ (b :: r3) (Or.inr (by intro c hc; cases hc; simpa using hob)) h
                    · simp only [hoa, Bool.false_eq_true, if_false] at h
                      exact oct_done 2 _ (a :: r2) (Or.inr (by intro c hc; cases hc; simpa using hoa)) h
                · simp only [ho, Bool.false_eq_true, if_false] at h
                  rw [List.cons_append, str_go (es' := .txt) (sur' := 0) (by simp [strStep, hd, hx, ho])]
                  exact ih 0 r1 h
            · have : (sur != 0) = true := by simpa using hsur
              simp [this] at h
      · simp only [hc, if_false, Bool.and_eq_true, bne_iff_ne, ne_eq, beq_iff_eq] at h
        obtain ⟨⟨hcq, hs0⟩, hr⟩ := h
        subst hs0
        rw [List.cons_append, str_go (es' := .txt) (sur' := 0) (by simp [strStep, strPlain_text hc hcq])]
        exact ih 0 r hr

theorem tok_str {e : List Char} {line : Bool} {bal : Int} (q : Char) (body rest : List Char)
    (hq : q = '\'' ∨ q = '"') (hb : strBodyOk q 0 body = true)
    (hp : Passes e line bal q (body ++ [q] ++ rest)) :
    scanTag e line .top bal (q :: (body ++ [q]) ++ rest) = scanTag e line .top bal rest := by
  have hw : isAsciiWs q = false := by rcases hq with rfl | rfl <;> decide
  rw [List.cons_append, top_token hp hw (dispatch_quote hq bal _)]
  have := str_run (e := e) (line := line) (bal := bal) q hq rest _ 0 body hb
  simpa [List.append_assoc] using this

/-! #### operators -/

theorem tok_op {e : List Char} {line : Bool} {bal : Int} (c : Char) (dl : Int) (rest : List Char)
    (hc : singleOp c = some dl) (hp : Passes e line bal c rest) (hf : isTwo c rest = false) :
    scanTag e line .top bal (c :: rest) = scanTag e line .top (bal + dl) rest :=
  top_token hp (singleOp_not_ws hc) (dispatch_op hc bal rest hf)

theorem tok_op2 {e : List Char} {line : Bool} {bal : Int} (a b : Char) (rest : List Char)
    (h : twoCharOp a b = true) (hp : Passes e line bal a (b :: rest)) :
    scanTag e line .top bal (a :: b :: rest) = scanTag e line .top bal rest :=
  scanTag_goto2 (by
    simp only [scanStep, tokCont]
    rw [topStep_dispatch hp.noLine (twoCharOp_not_ws h) hp.noEnd, dispatch_op2 h])

/-! #### decimal integers -/

/-- `eat_number` after the decimal digits `ds` -/
def numOf (ds : List Char) : Num :=
  { radix := 10, st := .int, lastUs := false, nDigits := ds.length, val := decVal ds, bad := false, expDigits := 0 }

theorem decVal_append (ds : List Char) (c : Char) : decVal (ds ++ [c]) = decVal ds * 10 + (c.toNat - '0'.toNat) := by
  simp [decVal, List.foldl_append]

theorem numFirst_eq (c : Char) : numFirst c = numOf [c] := by
  simp [numFirst, numOf, decVal]

theorem digit_val_le {c : Char} (h : isDigit c = true) : c.toNat - '0'.toNat ≤ 9 := by
  simp [isDigit] at h
  have : '0'.toNat = 48 := by decide
  omega

theorem digit_identCont {c : Char} (h : isDigit c = true) : isIdentCont c = true := by
  simp only [isIdentCont, Bool.or_eq_true]
  right
  simpa [isDigit] using h

theorem numStep_digit (ds : List Char) {c : Char} (h : isDigit c = true) (r : List Char) :
    numStep (numOf ds) c r = .cont (numOf (ds ++ [c])) := by
  have n1 := ne_of_class h '.' (by decide)
  have n2 := ne_of_class h 'E' (by decide)
  have n3 := ne_of_class h 'e' (by decide)
  have n4 := ne_of_class h '+' (by decide)
  have n5 := ne_of_class h '-' (by decide)
  have hv := digit_val_le h
  have e0 : '0'.toNat = 48 := by decide
  have hb : ¬ (10 ≤ c.toNat - 48) := by omega
  simp [numStep, numOf, n1, n2, n3, n4, n5, h, decVal_append, hb]

theorem num_run {e : List Char} {line : Bool} {bal : Int} (ds ds' rest : List Char)
    (hall : ∀ c ∈ ds', isDigit c = true) :
    scanTag e line (.num (numOf ds)) bal (ds' ++ rest) = scanTag e line (.num (numOf (ds ++ ds'))) bal rest := by
  induction ds' generalizing ds with
  | nil => simp
  | cons c ds' ih =>
    rw [List.cons_append, scan_go (m' := .num (numOf (ds ++ [c]))) (by
      simp [tokCont, numStep_digit ds (hall c (by simp))])]
    rw [ih (ds ++ [c]) (fun x hx => hall x (by simp [hx]))]
    simp [List.append_assoc]

theorem hexLetter_identCont {c : Char} (h : isHexLetter c = true) : isIdentCont c = true := by
  simp only [isHexLetter, Bool.or_eq_true, Bool.and_eq_true, decide_eq_true_eq] at h
  simp only [isIdentCont, isIdentStart, Bool.or_eq_true, Bool.and_eq_true, decide_eq_true_eq]
  have e1 : 'a'.toNat = 97 := by decide
  have e2 : 'f'.toNat = 102 := by decide
  have e3 : 'A'.toNat = 65 := by decide
  have e4 : 'F'.toNat = 70 := by decide
  have e5 : 'z'.toNat = 122 := by decide
  have e6 : 'Z'.toNat = 90 := by decide
  left
  rcases h with h | h
  · left; right; omega
  · right; omega

theorem numStep_stop (ds : List Char) {c : Char} (hc : isIdentCont c = false) (hd : c ≠ '.') (r : List Char) :
    numStep (numOf ds) c r = .stop := by
  have n2 : c ≠ 'E' := by rintro rfl; revert hc; decide
  have n3 : c ≠ 'e' := by rintro rfl; revert hc; decide
  have n6 : c ≠ '_' := by rintro rfl; revert hc; decide
  have hdig : isDigit c = false := by
    cases h : isDigit c with
    | false => rfl
    | true => rw [digit_identCont h] at hc; cases hc
  simp [numStep, numOf, hd, n2, n3, n6, hdig]

theorem numValid_numOf {ds : List Char} (hne : ds ≠ [])
    (hv : decVal ds < 340282366920938463463374607431768211456) : numValid (numOf ds) = true := by
  have : 0 < ds.length := List.length_pos_iff.2 hne
  simp [numValid, numOf, this, hv]

theorem num_exit {e : List Char} {line : Bool} {bal : Int} (ds rest : List Char) (hne : ds ≠ [])
    (hv : decVal ds < 340282366920938463463374607431768211456)
    (hf : ∀ x, rest.head? = some x → isIdentCont x = false ∧ x ≠ '.') :
    scanTag e line (.num (numOf ds)) bal rest = scanTag e line .top bal rest := by
  cases rest with
  | nil => simp [scanTag, scanEof, numValid_numOf hne hv]
  | cons c r =>
    obtain ⟨h1, h2⟩ := hf c rfl
    exact scan_boundary (by simp [tokCont, numStep_stop ds h1 h2, numValid_numOf hne hv])

theorem radixPrefix_none (c : Char) (r : List Char)
    (h : ∀ x, r.head? = some x → isDigit x = true ∨ isIdentCont x = false) : radixPrefix c r = none := by
  unfold radixPrefix
  split
  · cases r with
    | nil => rfl
    | cons a r =>
      simp only []
      have ha := h a rfl
      have hne : ∀ k, isDigit k = false → isIdentCont k = true → a ≠ k := by
        rintro k hk1 hk2 rfl
        rcases ha with h' | h'
        · rw [hk1] at h'; cases h'
        · rw [hk2] at h'; cases h'
      simp [hne 'b' (by decide) (by decide), hne 'B' (by decide) (by decide), hne 'o' (by decide) (by decide),
        hne 'O' (by decide) (by decide), hne 'x' (by decide) (by decide), hne 'X' (by decide) (by decide)]
  · rfl

theorem tok_int {e : List Char} {line : Bool} {bal : Int} (c : Char) (cs rest : List Char)
    (hc : isDigit c = true) (hcs : ∀ x ∈ cs, isDigit x = true)
    (hv : decVal (c :: cs) < 340282366920938463463374607431768211456)
    (hp : Passes e line bal c (cs ++ rest))
    (hf : ∀ x, rest.head? = some x → isIdentCont x = false ∧ x ≠ '.') :
    scanTag e line .top bal (c :: cs ++ rest) = scanTag e line .top bal rest := by
  have hr : radixPrefix c (cs ++ rest) = none := by
    apply radixPrefix_none
    intro x hx
    cases cs with
    | nil => exact Or.inr (hf x (by simpa using hx)).1
    | cons a cs => simp at hx; subst hx; exact Or.inl (hcs _ (by simp))
  rw [List.cons_append, top_token hp (digit_not_ws hc) (dispatch_digit hc bal _ hr), numFirst_eq,
    num_run [c] cs rest hcs]
  exact num_exit _ rest (by simp) (by simpa using hv) hf

/-! ### the interior of a tag -/

theorem passes_of {e : List Char} {bal : Int} {c : Char} {r : List Char}
    (h : (false || bal != 0 || !endHere e (c :: r)) = true) : Passes e false bal c r := by
  refine ⟨noLineEnd_false _ _, noEnd_of ?_⟩
  simp only [Bool.false_or, Bool.or_eq_true, bne_iff_ne, ne_eq, Bool.not_eq_true'] at h
  rcases h with h | h
  · exact Or.inr (Or.inl h)
  · exact Or.inr (Or.inr h)

/-- a well-formed interior is skipped token by token; the bracket depth is back at 0 behind it -/
theorem interior_scan (e : List Char) (ts : List Tok) :
    ∀ (bal : Int) (fol : List Char), interiorOk e bal ts fol = true →
      scanTag e false .top bal (srcs ts ++ fol) = scanTag e false .top 0 fol := by
  induction ts with
  | nil =>
    intro bal fol h
    simp only [interiorOk, beq_iff_eq] at h
    subst h; rfl
  | cons t ts ih =>
    intro bal fol h
    simp only [interiorOk, Bool.and_eq_true] at h
    obtain ⟨⟨⟨hwf, hfol⟩, hend⟩, hrest⟩ := h
    have ih' := ih _ _ hrest
    simp only [srcs, List.append_assoc]
    generalize hR : srcs ts ++ fol = rest at *
    cases t with
    | ws s =>
      simp only [Tok.wf, Bool.and_eq_true, List.all_eq_true] at hwf
      simp only [Tok.src, Tok.delta, Int.add_zero] at ih' ⊢
      rw [tok_ws s rest hwf.2 (fun _ _ => noLineEnd_false _ _)]
      exact ih'
    | ident s =>
      cases s with
      | nil => simp [Tok.wf] at hwf
      | cons c cs =>
        simp only [Tok.wf, Bool.and_eq_true, List.all_eq_true] at hwf
        simp only [Tok.src, Tok.delta, Int.add_zero, Tok.isWs, srcs, List.append_assoc] at ih' hend ⊢
        rw [hR] at hend
        have := tok_ident (e := e) (line := false) (bal := bal) c cs rest hwf.1 hwf.2 (passes_of hend) (by
          intro x hx
          rw [hx] at hfol
          simpa [Tok.follow] using hfol)
        simp only [List.cons_append] at this ⊢
        rw [this]; exact ih'
    | int ds =>
      cases ds with
      | nil => simp [Tok.wf] at hwf
      | cons c cs =>
        simp only [Tok.wf, Bool.and_eq_true, List.all_eq_true, decide_eq_true_eq, List.mem_cons,
          forall_eq_or_imp] at hwf
        simp only [Tok.src, Tok.delta, Int.add_zero, Tok.isWs, srcs, List.append_assoc] at ih' hend ⊢
        rw [hR] at hend
        have := tok_int (e := e) (line := false) (bal := bal) c cs rest hwf.1.2.1 hwf.1.2.2 hwf.2 (passes_of hend) (by
          intro x hx
          rw [hx] at hfol
          simpa [Tok.follow] using hfol)
        simp only [List.cons_append] at this ⊢
        rw [this]; exact ih'
    | str q body =>
      simp only [Tok.wf, Bool.and_eq_true, Bool.or_eq_true, decide_eq_true_eq] at hwf
      simp only [Tok.src, Tok.delta, Int.add_zero, Tok.isWs, srcs, List.append_assoc, List.cons_append] at ih' hend ⊢
      rw [hR] at hend
      have hp : Passes e false bal q (body ++ [q] ++ rest) := by
        apply passes_of; simpa [List.append_assoc] using hend
      have := tok_str (e := e) (line := false) (bal := bal) q body rest hwf.1 hwf.2 hp
      simp only [List.cons_append, List.append_assoc] at this ⊢
      rw [this]; exact ih'
    | op c =>
      simp only [Tok.wf, Option.isSome_iff_exists] at hwf
      obtain ⟨dl, hdl⟩ := hwf
      simp only [Tok.src, Tok.delta, hdl, Option.getD_some, Tok.isWs, srcs, List.append_assoc, List.cons_append,
        List.nil_append] at ih' hend ⊢
      rw [hR] at hend
      have hf : isTwo c rest = false := by
        cases rest with
        | nil => rfl
        | cons c2 r =>
          simp only [List.head?_cons, Tok.follow, Bool.not_eq_true'] at hfol
          simpa [isTwo] using hfol
      rw [tok_op c dl rest hdl (passes_of hend) hf]; exact ih'
    | op2 a b =>
      simp only [Tok.wf] at hwf
      simp only [Tok.src, Tok.delta, Int.add_zero, Tok.isWs, srcs, List.append_assoc, List.cons_append,
        List.nil_append] at ih' hend ⊢
      rw [hR] at hend
      rw [tok_op2 a b rest hwf (passes_of hend)]; exact ih'

/-- behind a well-formed interior the end delimiter (with its marker) is found, exactly there -/
theorem interior_end_found {e : List Char} (he : headOk e = true) (ts : List Tok) (m : Mark) (x : List Char)
    (h : interiorOk e 0 ts (m.src ++ (e ++ x)) = true) (hclose : closeOk e m x = true) :
    scanTag e false .top 0 (srcs ts ++ (m.src ++ (e ++ x))) = .found x m.ws := by
  rw [interior_scan e ts 0 _ h]
  obtain ⟨c, t, rfl, h1⟩ := headOk_cons he
  have hs : startsWith (c :: t) (c :: t ++ x) = true := startsWith_append_self _ _
  have hs' : startsWith (c :: t) (c :: (t ++ x)) = true := by simpa using hs
  have hd : (c :: (t ++ x)).drop (c :: t).length = x := by
    have := List.drop_left (l₁ := c :: t) (l₂ := x)
    simpa using this
  cases m with
  | none =>
    have hno : ((c = '-' || c = '+') && startsWith (c :: t) (t ++ x)) = false := by
      simp only [closeOk, bne_self_eq_false, Bool.false_or, List.cons_append, Bool.not_eq_true',
        isMarkChar] at hclose
      exact hclose
    simp only [Mark.src, Mark.ws, List.nil_append, List.cons_append]
    apply scanTag_done
    simp only [scanStep, tokCont, topStep, Bool.false_and, Bool.false_eq_true, if_false, h1, Bool.not_false,
      Bool.true_and, beq_self_eq_true, hno, hs', if_true]
    rw [hd]
  | minus =>
    simp only [Mark.src, Mark.ws, List.cons_append, List.nil_append]
    apply scanTag_done
    have : isAsciiWs '-' = false := by decide
    simp only [scanStep, tokCont, topStep, Bool.false_and, Bool.false_eq_true, if_false, this, Bool.not_false,
      Bool.true_and, beq_self_eq_true, decide_true, Bool.true_or, hs', if_true]
    rw [hd]
  | plus =>
    simp only [Mark.src, Mark.ws, List.cons_append, List.nil_append]
    apply scanTag_done
    have : isAsciiWs '+' = false := by decide
    have hne : ('+' : Char) ≠ '-' := by decide
    simp only [scanStep, tokCont, topStep, Bool.false_and, Bool.false_eq_true, if_false, this, Bool.not_false,
      Bool.true_and, beq_self_eq_true, decide_true, Bool.or_true, hs', if_true, hne, decide_false]
    rw [hd]

/-! ### line statements -/

theorem not_ws_of_range {c : Char} (h : 33 ≤ c.toNat ∧ c.toNat ≤ 126) : isWs c = false := by
  simp [isWs]; omega

theorem identStart_not_isWs {c : Char} (h : isIdentStart c = true) : isWs c = false := by
  rcases identStart_cases h with rfl | h | h
  · decide
  · exact not_ws_of_range (by omega)
  · exact not_ws_of_range (by omega)

theorem digit_not_isWs {c : Char} (h : isDigit c = true) : isWs c = false := by
  simp [isDigit] at h
  exact not_ws_of_range (by omega)

theorem singleOp_not_isWs {c : Char} {dl : Int} (h : singleOp c = some dl) : isWs c = false := by
  cases hw : isWs c with
  | false => rfl
  | true =>
    exfalso
    simp only [singleOp] at h
    split at h
    · rename_i hc
      simp only [Bool.or_eq_true, decide_eq_true_eq] at hc
      rcases hc with ((((((((((((rfl | rfl) | rfl) | rfl) | rfl) | rfl) | rfl) | rfl) | rfl) | rfl) | rfl) | rfl) | rfl) <;>
        revert hw <;> decide
    · split at h
      · rename_i hc
        simp only [Bool.or_eq_true, decide_eq_true_eq] at hc
        rcases hc with (rfl | rfl) | rfl <;> revert hw <;> decide
      · split at h
        · rename_i hc
          simp only [Bool.or_eq_true, decide_eq_true_eq] at hc
          rcases hc with (rfl | rfl) | rfl <;> revert hw <;> decide
        · cases h

theorem twoCharOp_not_isWs {a b : Char} (h : twoCharOp a b = true) : isWs a = false := by
  cases hw : isWs a with
  | false => rfl
  | true =>
    exfalso
    simp only [twoCharOp, Bool.or_eq_true, Bool.and_eq_true, decide_eq_true_eq] at h
    rcases h with (((((⟨rfl, _⟩ | ⟨rfl, _⟩) | ⟨rfl, _⟩) | ⟨rfl, _⟩) | ⟨rfl, _⟩) | ⟨rfl, _⟩) <;> revert hw <;> decide

/-- a token that is not blank starts with a character that is not whitespace -/
theorem tok_first_not_ws {t : Tok} (hwf : t.wf = true) (hws : t.isWs = false) :
    ∃ c r, t.src = c :: r ∧ isWs c = false := by
  cases t with
  | ws s => simp [Tok.isWs] at hws
  | ident s =>
    cases s with
    | nil => simp [Tok.wf] at hwf
    | cons c cs =>
      simp only [Tok.wf, Bool.and_eq_true] at hwf
      exact ⟨c, cs, rfl, identStart_not_isWs hwf.1⟩
  | int ds =>
    cases ds with
    | nil => simp [Tok.wf] at hwf
    | cons c cs =>
      simp only [Tok.wf, Bool.and_eq_true, List.all_eq_true, List.mem_cons, forall_eq_or_imp] at hwf
      exact ⟨c, cs, rfl, digit_not_isWs hwf.1.2.1⟩
  | str q body =>
    simp only [Tok.wf, Bool.and_eq_true, Bool.or_eq_true, decide_eq_true_eq] at hwf
    refine ⟨q, body ++ [q], rfl, ?_⟩
    rcases hwf.1 with rfl | rfl <;> decide
  | op c =>
    simp only [Tok.wf, Option.isSome_iff_exists] at hwf
    obtain ⟨dl, hdl⟩ := hwf
    exact ⟨c, [], rfl, singleOp_not_isWs hdl⟩
  | op2 a b =>
    simp only [Tok.wf] at hwf
    exact ⟨a, [b], rfl, twoCharOp_not_isWs hwf⟩

theorem isWs_false_not_hws {c : Char} (h : isWs c = false) : isHws c = false := by simp [isHws, h]

theorem isWs_false_not_nl {c : Char} (h : isWs c = false) : isNl c = false := by
  cases hn : isNl c with
  | false => rfl
  | true => rw [isNl_isWs hn] at h; cases h

theorem nlLen_zero_of_not_nl {c : Char} (r : List Char) (h : isNl c = false) : nlLen (c :: r) = 0 := by
  have h1 : c ≠ '\r' := by rintro rfl; revert h; decide
  have h2 : c ≠ '\n' := by rintro rfl; revert h; decide
  simp [nlLen, h1, h2]

/-- a line statement does not end in front of blanks that are followed by a character that is not
    whitespace -/
theorem lineEnd_none (u : List Char) (c : Char) (r : List Char) (hu : ∀ x ∈ u, isHws x = true)
    (hc : isWs c = false) : lineEnd (u ++ c :: r) = none := by
  unfold lineEnd
  have : (u ++ c :: r).dropWhile isHws = c :: r := by
    rw [List.dropWhile_append_of_pos hu, List.dropWhile_cons, isWs_false_not_hws hc]; rfl
  simp only [this, List.isEmpty_cons, Bool.false_eq_true, if_false, nlLen_zero_of_not_nl r (isWs_false_not_nl hc)]
  simp

theorem passes_line {bal : Int} {c : Char} {r : List Char} (hc : isWs c = false) :
    Passes [] true bal c r := by
  refine ⟨?_, noEnd_of (Or.inl rfl)⟩
  unfold NoLineEnd
  split
  · exact lineEnd_none [] c r (by simp) hc
  · rfl

/-- the interior of a line statement is skipped token by token -/
theorem line_interior_scan (ts : List Tok) :
    ∀ (bal : Int) (fol : List Char), lineInteriorOk bal ts fol = true →
      scanTag [] true .top bal (srcs ts ++ fol) = scanTag [] true .top 0 fol := by
  induction ts with
  | nil =>
    intro bal fol h
    simp only [lineInteriorOk, beq_iff_eq] at h
    subst h; rfl
  | cons t ts ih =>
    intro bal fol h
    simp only [lineInteriorOk, Bool.and_eq_true] at h
    obtain ⟨⟨⟨hwf, hfol⟩, hws⟩, hrest⟩ := h
    have ih' := ih _ _ hrest
    simp only [srcs, List.append_assoc]
    generalize hR : srcs ts ++ fol = rest at *
    cases t with
    | ws s =>
      simp only [Tok.wf, Bool.and_eq_true, List.all_eq_true] at hwf
      simp only [Tok.src, Tok.delta, Int.add_zero, Tok.isWs, Bool.not_true, Bool.false_or, Bool.or_eq_true,
        bne_iff_ne, ne_eq, Bool.and_eq_true, List.all_eq_true, Bool.not_eq_true', List.isEmpty_eq_false_iff] at ih' hws ⊢
      rw [tok_ws s rest hwf.2 ?_]
      · exact ih'
      · intro k hk
        unfold NoLineEnd
        rcases hws with hb | ⟨⟨hall, hne⟩, hnext⟩
        · have : (bal == 0) = false := by simpa using hb
          simp [this]
        · split
          · -- the next token starts with a character that is not whitespace
            cases ts with
            | nil => exact absurd rfl hne
            | cons t2 ts2 =>
              simp only [lineInteriorOk, Bool.and_eq_true] at hrest
              have hwf2 := hrest.1.1.1
              have hnw2 : t2.isWs = false := by simpa using hnext
              obtain ⟨c, r, hsrc, hc⟩ := tok_first_not_ws hwf2 hnw2
              have hrest' : rest = c :: (r ++ (srcs ts2 ++ fol)) := by
                rw [← hR]; simp [srcs, hsrc, List.append_assoc]
              rw [hrest']
              exact lineEnd_none (s.drop k) c _ (fun x hx => hall x (List.mem_of_mem_drop hx)) hc
          · rfl
    | ident s =>
      cases s with
      | nil => simp [Tok.wf] at hwf
      | cons c cs =>
        simp only [Tok.wf, Bool.and_eq_true, List.all_eq_true] at hwf
        simp only [Tok.src, Tok.delta, Int.add_zero, srcs, List.append_assoc] at ih' ⊢
        have := tok_ident (e := []) (line := true) (bal := bal) c cs rest hwf.1 hwf.2
          (passes_line (identStart_not_isWs hwf.1)) (by
          intro x hx
          rw [hx] at hfol
          simpa [Tok.follow] using hfol)
        simp only [List.cons_append] at this ⊢
        rw [this]; exact ih'
    | int ds =>
      cases ds with
      | nil => simp [Tok.wf] at hwf
      | cons c cs =>
        simp only [Tok.wf, Bool.and_eq_true, List.all_eq_true, decide_eq_true_eq, List.mem_cons,
          forall_eq_or_imp] at hwf
        simp only [Tok.src, Tok.delta, Int.add_zero, srcs, List.append_assoc] at ih' ⊢
        have := tok_int (e := []) (line := true) (bal := bal) c cs rest hwf.1.2.1 hwf.1.2.2 hwf.2
          (passes_line (digit_not_isWs hwf.1.2.1)) (by
          intro x hx
          rw [hx] at hfol
          simpa [Tok.follow] using hfol)
        simp only [List.cons_append] at this ⊢
        rw [this]; exact ih'
    | str q body =>
      simp only [Tok.wf, Bool.and_eq_true, Bool.or_eq_true, decide_eq_true_eq] at hwf
      simp only [Tok.src, Tok.delta, Int.add_zero, srcs, List.append_assoc, List.cons_append] at ih' ⊢
      have hq : isWs q = false := by rcases hwf.1 with rfl | rfl <;> decide
      have := tok_str (e := []) (line := true) (bal := bal) q body rest hwf.1 hwf.2 (passes_line hq)
      simp only [List.cons_append, List.append_assoc] at this ⊢
      rw [this]; exact ih'
    | op c =>
      simp only [Tok.wf, Option.isSome_iff_exists] at hwf
      obtain ⟨dl, hdl⟩ := hwf
      simp only [Tok.src, Tok.delta, hdl, Option.getD_some, srcs, List.append_assoc, List.cons_append,
        List.nil_append] at ih' ⊢
      have hf : isTwo c rest = false := by
        cases rest with
        | nil => rfl
        | cons c2 r =>
          simp only [List.head?_cons, Tok.follow, Bool.not_eq_true'] at hfol
          simpa [isTwo] using hfol
      rw [tok_op c dl rest hdl (passes_line (singleOp_not_isWs hdl)) hf]; exact ih'
    | op2 a b =>
      simp only [Tok.wf] at hwf
      simp only [Tok.src, Tok.delta, Int.add_zero, srcs, List.append_assoc, List.cons_append,
        List.nil_append] at ih' ⊢
      rw [tok_op2 a b rest hwf (passes_line (twoCharOp_not_isWs hwf))]; exact ih'

theorem nlLen_pos_of_nl {c : Char} (r : List Char) (h : isNl c = true) : 0 < nlLen (c :: r) := by
  simp only [isNl, Bool.or_eq_true, decide_eq_true_eq] at h
  rcases h with rfl | rfl
  · simp only [nlLen, if_true]; split <;> omega
  · simp [nlLen]

/-- behind the interior the line statement ends: blanks and the line break are consumed -/
theorem line_end_found (fol : List Char) (h : lineFollow fol = true) :
    scanTag [] true .top 0 fol = .found (fol.drop (lineCut fol)) .dflt := by
  cases fol with
  | nil => simp [scanTag, scanEof, lineCut]
  | cons c r =>
    apply scanTag_done
    simp only [scanStep, tokCont, topStep, Bool.true_and, beq_self_eq_true, if_true]
    unfold lineFollow at h
    unfold lineEnd lineCut
    have hsplit := List.takeWhile_append_dropWhile (p := isHws) (l := c :: r)
    cases hd : (c :: r).dropWhile isHws with
    | nil =>
      rw [hd] at hsplit
      simp only [List.isEmpty_nil, if_true]
      have : ((c :: r).takeWhile isHws).length = (c :: r).length := by
        rw [List.append_nil] at hsplit; rw [hsplit]
      simp [nlLen, this]
    | cons a rest =>
      rw [hd] at h hsplit
      simp only [] at h
      have hpos := nlLen_pos_of_nl rest h
      simp only [List.isEmpty_cons, Bool.false_eq_true, if_false, hpos, if_true]
      have hdrop : (c :: r).drop ((c :: r).takeWhile isHws).length = a :: rest := by
        have := congrArg (List.drop ((c :: r).takeWhile isHws).length) hsplit
        rw [List.drop_left] at this
        exact this.symm
      rw [← List.drop_drop, hdrop]

theorem line_interior_end_found (ts : List Tok) (fol : List Char)
    (h : lineInteriorOk 0 ts fol = true) (hf : lineFollow fol = true) :
    scanTag [] true .top 0 (srcs ts ++ fol) = .found (fol.drop (lineCut fol)) .dflt := by
  rw [line_interior_scan ts 0 fol h, line_end_found fol hf]

end MJ.Lexer
