import MJ.Proofs.LocCodegen
import MJ.Model.LocAst
/-!
Helper lemmas for C14, part 9: the simple line semantics `execL` (the one `instr_line_in_construct`
is proved about) IS what the real run-length side tables answer.

For every script of location calls of ONE generator (no `{% block %}` sub-generator inside), run
through `execG` (= the model of `CodeGenerator` + `Instructions::{add, add_with_line, add_with_span}`),
`get_line(pc)` of the resulting tables returns the line `execL` computes for instruction `pc`, and
`get_span(pc)`, when it returns a span, returns one that starts on that line.  So what
`process_err` attaches is the line of `execL`.
-/
namespace MJ.LocAst
open MJ MJ.Loc

/-- events of one generator: no sub-generator is opened or closed -/
def flat : Ev → Bool
  | .blockBegin _ => false
  | .blockEnd => false
  | _ => true

/-- a span is only ever reported together with its own start line -/
theorem fold_span_line : ∀ (A : List Add) (aL : Option Nat) (aS : Option Span),
    (∀ sp, aS = some sp → aL = some sp.startLine) →
    ∀ sp, A.foldl spanStep aS = some sp → A.foldl lineStep aL = some sp.startLine := by
  intro A
  induction A with
  | nil => intro aL aS h sp hs; exact h sp hs
  | cons op A ih =>
    intro aL aS h sp hs
    simp only [List.foldl_cons] at hs ⊢
    refine ih _ _ ?_ sp hs
    intro sp' h'
    cases op with
    | plain => exact h sp' h'
    | withLine l => simp [spanStep] at h'
    | withSpan s =>
      simp only [spanStep, Span.nonDefault] at h'
      split at h'
      · cases h'; rfl
      · cases h'

theorem lastSpan_line (A : List Add) (sp : Span) (h : lastSpan A = some sp) : lastLine A = some sp.startLine :=
  fold_span_line A none none (by intro sp h; cases h) sp h

theorem spanSpec_line (A : List Add) (i : Nat) (sp : Span) (h : spanSpec A i = some sp) :
    lineSpec A i = some sp.startLine := lastSpan_line _ sp h

theorem lineStep_addOf (acc : Option Nat) (l : Nat) (st : List Span) : lineStep acc (addOf l st) = some l := by
  unfold addOf
  cases st with
  | nil => rfl
  | cons sp tl =>
    by_cases h : sp.startLine = l
    · simp [h, lineStep]
    · simp [h, lineStep]

/-- the relation between the two semantics after a common prefix: same current line, the tables are those
    of the add sequence `A`, `prev` is the line of the last located add -/
structure Rel (s : LS) (g : GS) (A : List Add) : Prop where
  instrs : g.cur.cg.instrs = addAll A
  cur : s.cur = g.cur.cg.currentLine
  prev : s.prev = lastLine A

theorem addAll_snoc (A : List Add) (op : Add) : addAll (A ++ [op]) = (addAll A).apply op := by
  simp [addAll, List.foldl_append]

theorem lineSpec_at_end (A B : List Add) (op : Add) :
    lineSpec (A ++ op :: B) A.length = lineStep (lastLine A) op := by
  have h : (A ++ op :: B).take (A.length + 1) = A ++ [op] := by
    have : A ++ op :: B = (A ++ [op]) ++ B := by simp
    rw [this]
    exact List.take_left' (by simp)
  rw [lineSpec, h, lastLine_snoc]

/-- one event: both semantics move in step; an instruction-emitting event appends one `Add` whose
    `lineStep` is the line `stepL` reports -/
theorem step_rel (s : LS) (g : GS) (A : List Add) (e : Ev) (hf : flat e = true) (h : Rel s g A) :
    ((stepL s e).2 = [] ∧ Rel (stepL s e).1 (stepG g e) A) ∨
    (∃ op em, (stepL s e).2 = [em] ∧ Rel (stepL s e).1 (stepG g e) (A ++ [op]) ∧
      em.line = lineStep (lastLine A) op) := by
  obtain ⟨hi, hc, hp⟩ := h
  cases e with
  | setLine l => exact Or.inl ⟨rfl, ⟨hi, rfl, hp⟩⟩
  | push sp => exact Or.inl ⟨rfl, ⟨hi, rfl, hp⟩⟩
  | pop => exact Or.inl ⟨rfl, ⟨hi, hc, hp⟩⟩
  | add nm lo hi' =>
    refine Or.inr ⟨addOf g.cur.cg.currentLine g.cur.cg.spanStack, ⟨nm, some s.cur, lo, hi'⟩, rfl, ⟨?_, ?_, ?_⟩, ?_⟩
    · show (g.cur.cg.step .add).instrs = _
      simp only [Cg.step, Cg.add_eq]
      rw [addAll_snoc, ← hi]
    · show s.cur = (g.cur.cg.step .add).currentLine
      simp only [Cg.step, Cg.add_eq]
      exact hc
    · show some s.cur = _
      rw [lastLine_snoc, lineStep_addOf, hc]
    · show some s.cur = _
      rw [lineStep_addOf, hc]
  | addSpan nm sp lo hi' =>
    refine Or.inr ⟨.withSpan sp, ⟨nm, some sp.startLine, lo, hi'⟩, rfl, ⟨?_, ?_, ?_⟩, rfl⟩
    · show (g.cur.cg.step (.addWithSpan sp)).instrs = _
      simp only [Cg.step]
      rw [addAll_snoc, ← hi]; rfl
    · exact hc
    · show some sp.startLine = _
      rw [lastLine_snoc]; rfl
  | raw nm lo hi' =>
    refine Or.inr ⟨.plain, ⟨nm, s.prev, lo, hi'⟩, rfl, ⟨?_, ?_, ?_⟩, ?_⟩
    · show g.cur.cg.instrs.add.1 = _
      rw [addAll_snoc, ← hi]; rfl
    · exact hc
    · show s.prev = _
      rw [lastLine_snoc]; exact hp
    · show s.prev = _
      exact hp
  | blockBegin nm => cases hf
  | blockEnd => cases hf

theorem execG_cons (g : GS) (e : Ev) (es : List Ev) : execG g (e :: es) = execG (stepG g e) es := rfl

/-- whole scripts: the tables are those of `A ++ A'` with one `Add` per emitted instruction, and the
    line `execL` reports for the `i`-th of them is `lineSpec` at its index -/
theorem exec_rel (evs : List Ev) : ∀ (s : LS) (g : GS) (A : List Add), evs.all flat = true → Rel s g A →
    ∃ A', Rel (execL s evs).1 (execG g evs) (A ++ A') ∧ (execL s evs).2.length = A'.length ∧
      ∀ i (hi : i < (execL s evs).2.length), ((execL s evs).2[i]).line = lineSpec (A ++ A') (A.length + i) := by
  induction evs with
  | nil =>
    intro s g A _ h
    exact ⟨[], by simpa [execL, execG] using h, rfl, by intro i hi; simp [execL] at hi⟩
  | cons e es ih =>
    intro s g A hf h
    simp only [List.all_cons, Bool.and_eq_true] at hf
    rcases step_rel s g A e hf.1 h with ⟨hem, hr⟩ | ⟨op, em, hem, hr, hl⟩
    · obtain ⟨A', hr', hlen, hline⟩ := ih _ _ _ hf.2 hr
      refine ⟨A', ?_, ?_, ?_⟩
      · simpa [execL, execG_cons] using hr'
      · simpa [execL, hem] using hlen
      · intro i hi
        have hi' : i < (execL (stepL s e).1 es).2.length := by simpa [execL, hem] using hi
        have := hline i hi'
        simpa [execL, hem] using this
    · obtain ⟨A', hr', hlen, hline⟩ := ih _ _ _ hf.2 hr
      refine ⟨op :: A', ?_, ?_, ?_⟩
      · have : A ++ op :: A' = A ++ [op] ++ A' := by simp
        rw [this]
        simpa [execL, execG_cons] using hr'
      · simp [execL, hem, hlen]
      · intro i hi
        have hE : (execL s (e :: es)).2 = em :: (execL (stepL s e).1 es).2 := by simp [execL, hem]
        cases i with
        | zero =>
          simp only [hE, List.getElem_cons_zero, Nat.add_zero]
          rw [lineSpec_at_end, hl]
        | succ j =>
          have hj : j < (execL (stepL s e).1 es).2.length := by
            rw [hE] at hi; simpa using hi
          have := hline j hj
          simp only [hE, List.getElem_cons_succ]
          rw [this]
          have e1 : A ++ [op] ++ A' = A ++ op :: A' := by simp
          have e2 : (A ++ [op]).length + j = A.length + (j + 1) := by simp; omega
          rw [e1, e2]

theorem rel_init : Rel LS.init GS.init [] := ⟨rfl, rfl, rfl⟩

/-- the line `process_err` reports: the start line of the span it attaches, else the line -/
def attachedLine : Attached → Option Nat
  | .span sp => some sp.startLine
  | .line l => some l
  | .nothing => none

/-- **`execL` is what the real tables answer.**  One generator, any script of location calls: for every
    instruction `pc` the line that `process_err` attaches (through `get_span` / `get_line` of the
    run-length tables, binary search included) is the line `execL` computes. -/
theorem tables_answer_execL_from (s0 : LS) (g0 : GS) (h0 : Rel s0 g0 [])
    (evs : List Ev) (hf : evs.all flat = true) (hlen : evs.length < 4294967296)
    (pc : Nat) (e : Em) (he : (execL s0 evs).2[pc]? = some e) :
    ∃ att, processErr (execG g0 evs).cur.cg.instrs pc = .ok att ∧ (e.line = none ∨ attachedLine att = e.line) := by
  obtain ⟨A', hr, hlenA, hline⟩ := exec_rel evs s0 g0 [] hf h0
  simp only [List.nil_append, List.length_nil, Nat.zero_add] at hr hline
  have hpc : pc < (execL s0 evs).2.length := by
    rcases Nat.lt_or_ge pc (execL s0 evs).2.length with h | h
    · exact h
    · rw [List.getElem?_eq_none h] at he; cases he
  have hel : e.line = lineSpec A' pc := by
    have := hline pc hpc
    rw [List.getElem?_eq_getElem hpc] at he
    cases he
    exact this
  have hA : A'.length < 4294967296 := by
    have h1 : (execL s0 evs).2.length ≤ evs.length := by
      have : ∀ (es : List Ev) (s : LS), (execL s es).2.length ≤ es.length := by
        intro es
        induction es with
        | nil => intro s; simp [execL]
        | cons x xs ih =>
          intro s
          have hx : (stepL s x).2.length ≤ 1 := by cases x <;> simp [stepL]
          have := ih (stepL s x).1
          simp [execL]; omega
      exact this _ _
    omega
  rw [hr.instrs]
  unfold processErr
  rw [(inv_addAll A' hA).sget pc, (inv_addAll A' hA).lget pc]
  cases hs : spanSpec A' pc with
  | some sp =>
    refine ⟨.span sp, rfl, Or.inr ?_⟩
    rw [hel, spanSpec_line A' pc sp hs]; rfl
  | none =>
    cases hl : lineSpec A' pc with
    | some l => exact ⟨.line l, rfl, Or.inr (by rw [hel, hl]; rfl)⟩
    | none => exact ⟨.nothing, rfl, Or.inl (by rw [hel, hl])⟩

/-- the root generator -/
theorem tables_answer_execL (evs : List Ev) (hf : evs.all flat = true) (hlen : evs.length < 4294967296)
    (pc : Nat) (e : Em) (he : (execL LS.init evs).2[pc]? = some e) :
    ∃ att, processErr (execG GS.init evs).cur.cg.instrs pc = .ok att ∧ (e.line = none ∨ attachedLine att = e.line) :=
  tables_answer_execL_from LS.init GS.init rel_init evs hf hlen pc e he

/-- a sub-generator as `new_subgenerator` creates it for the body of a `{% block %}`: the current line and the
    innermost span carried over, no instruction yet, whatever generators are suspended below it -/
theorem rel_sub (line : Nat) (stack : List Span) (saved : List (Option Nat)) (susp : List (Gen × String))
    (done : List (String × Gen)) :
    Rel ⟨line, none, saved⟩ ⟨⟨⟨line, stack, Instrs.empty⟩, []⟩, susp, done⟩ [] := ⟨rfl, rfl, rfl⟩

end MJ.LocAst
