import MJ.Proofs.ReloaderInv
/-! `Inv` is preserved by the mutex holder's steps, part 2 of 5 (split for parallel builds) -/
namespace MJ.Reloader
variable {σ σ' : State} {c : Active}

theorem inv_pc_reset (h : Inv σ) (hc : σ.cur = some c) (hpc : c.pc = .reset)
    (hs : stepActive σ c = some σ') : Inv σ' := by inv_pc_tac
theorem inv_pc_toCreate (h : Inv σ) (hc : σ.cur = some c) (hpc : c.pc = .toCreate)
    (hs : stepActive σ c = some σ') : Inv σ' := by inv_pc_tac
theorem inv_pc_toClear (h : Inv σ) (hc : σ.cur = some c) (hpc : c.pc = .toClear)
    (hs : stepActive σ c = some σ') : Inv σ' := by inv_pc_tac
theorem inv_pc_creatingNil (h : Inv σ) (hc : σ.cur = some c) (hpc : c.pc = .creating [])
    (hs : stepActive σ c = some σ') : Inv σ' := by inv_pc_tac

end MJ.Reloader
