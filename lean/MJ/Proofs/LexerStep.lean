import MJ.Proofs.LexerText
import MJ.Proofs.LexerFind
/-! One round of the root loop on `text ++ tag ++ rest`: the tokens it emits render as the text
minus the cuts of the rules followed by the tag's output, and the next round starts behind the tag
with the left cut of the next text applied or pending. -/
namespace MJ.Lexer

theorem Tag.own {d : Delims} (g : Tag) (z : List Char) (hok : tagOk d g z = true) :
    (g.marker, g.start d) ∈ startPats d := by
  cases g with
  | mk kind l r =>
    cases kind with
    | var ts => simp [Tag.marker, Tag.start, startPats]
    | block ts => simp [Tag.marker, Tag.start, startPats]
    | comment body => simp [Tag.marker, Tag.start, startPats]
    | raw c ri l2 tight => simp [Tag.marker, Tag.start, startPats]
    | lineStmt ts =>
      simp only [tagOk, Bool.and_eq_true, Bool.not_eq_true', List.isEmpty_eq_false_iff] at hok
      have : d.ls.isEmpty = false := by simpa using hok.1.1.1.1
      simp [Tag.marker, Tag.start, startPats, this]
    | lineComment body =>
      simp only [tagOk, Bool.and_eq_true, Bool.not_eq_true', List.isEmpty_eq_false_iff] at hok
      have : d.lc.isEmpty = false := by simpa using hok.1.1.1.1.1
      simp [Tag.marker, Tag.start, startPats, this]

theorem Tag.marker_blockish (g : Tag) : (g.marker != .var) = g.blockish := by
  cases g with | mk kind l r => cases kind <;> rfl

theorem Tag.marker_ne_lineStmt (g : Tag) (h : g.isLine = false) : g.marker ≠ .lineStmt := by
  cases g with | mk kind l r => cases kind <;> simp_all [Tag.marker, Tag.isLine]

theorem Tag.marker_ne_lineComment (g : Tag) (h : g.isLine = false) : g.marker ≠ .lineComment := by
  cases g with | mk kind l r => cases kind <;> simp_all [Tag.marker, Tag.isLine]

theorem Mark.ws_len (m : Mark) : m.ws.len = m.src.length := by cases m <;> rfl

theorem wsOfChar_mark (m : Mark) (c : Char) (y : List Char) (hc : isMarkChar c = false) :
    wsOfChar (m.src ++ (c :: y)).head? = m.ws := by
  have h : c ≠ '-' ∧ c ≠ '+' := by simpa [isMarkChar] using hc
  cases m <;> simp [Mark.src, Mark.ws, wsOfChar, h.1, h.2]

theorem nlLen_le (s : List Char) : nlLen s ≤ s.length := by
  cases s with
  | nil => simp [nlLen]
  | cons c r =>
    cases r with
    | nil => simp only [nlLen, List.head?_nil]; split <;> simp; split <;> simp
    | cons c2 r2 =>
      simp only [nlLen, List.length_cons]
      split
      · split <;> omega
      · split <;> omega

/-- the text that follows is empty or starts with a non-whitespace character -/
def NoWsHead (more : List Char) : Prop := more = [] ∨ ∃ c r, more = c :: r ∧ isWs c = false

theorem nlLen_append (t more : List Char) (h : NoWsHead more) : nlLen (t ++ more) = nlLen t := by
  have hnl : ∀ c r, more = c :: r → c ≠ '\n' ∧ c ≠ '\r' := by
    intro c r hm
    rcases h with h | ⟨c', r', h', hw⟩
    · rw [h] at hm; cases hm
    · rw [h'] at hm; cases hm
      constructor <;> (rintro rfl; revert hw; decide)
  cases t with
  | nil =>
    cases more with
    | nil => rfl
    | cons c r =>
      obtain ⟨h1, h2⟩ := hnl c r rfl
      simp [nlLen, h1, h2]
  | cons a t =>
    cases t with
    | nil =>
      cases more with
      | nil => rfl
      | cons c r =>
        obtain ⟨h1, h2⟩ := hnl c r rfl
        simp [nlLen, h1]
    | cons b t => simp [nlLen]

theorem takeWhile_ws_append (t more : List Char) (h : NoWsHead more) :
    (t ++ more).takeWhile isWs = t.takeWhile isWs := by
  induction t with
  | nil =>
    rcases h with rfl | ⟨c, r, rfl, hw⟩
    · rfl
    · simp [List.takeWhile_cons, hw]
  | cons a t ih =>
    simp only [List.cons_append, List.takeWhile_cons, ih]

theorem dropWhile_ws_append (t more : List Char) (h : NoWsHead more) :
    (t ++ more).dropWhile isWs = t.dropWhile isWs ++ more := by
  induction t with
  | nil =>
    rcases h with rfl | ⟨c, r, rfl, hw⟩
    · rfl
    · simp [List.dropWhile_cons, hw]
  | cons a t ih =>
    simp only [List.cons_append, List.dropWhile_cons, ih]
    split <;> rfl

theorem dropWhile_eq_drop (t : List Char) : t.dropWhile isWs = t.drop (wsPre t) := by
  unfold wsPre
  induction t with
  | nil => rfl
  | cons a t ih =>
    simp only [List.dropWhile_cons, List.takeWhile_cons]
    split
    · simpa using ih
    · rfl

theorem takeWhile_eq_take (t : List Char) : t.takeWhile isWs = t.take (wsPre t) := by
  unfold wsPre
  induction t with
  | nil => rfl
  | cons a t ih =>
    simp only [List.takeWhile_cons]
    split
    · simpa using ih
    · rfl

theorem wsPre_le (t : List Char) : wsPre t ≤ t.length := by
  unfold wsPre
  exact (List.takeWhile_sublist isWs).length_le

/-! ### the tag side -/

/-- characters skipped right behind a tag with right marker `m` (the pending `-` is `nextTf`) -/
def nextK (cfg : Cfg) (blockish : Bool) (m : Mark) (t' : List Char) : Nat :=
  match m with
  | .none => if blockish && cfg.trim then nlLen t' else 0
  | _ => 0

def nextTf (m : Mark) : Bool := m == .minus

theorem nextK_le (cfg : Cfg) (b : Bool) (m : Mark) (t' : List Char) : nextK cfg b m t' ≤ t'.length := by
  cases m <;> simp only [nextK] <;> try exact Nat.zero_le _
  split
  · exact nlLen_le t'
  · exact Nat.zero_le _

/-- the left cut of the rules is what is skipped now plus what the pending `-` will skip -/
theorem leftCut_eq (cfg : Cfg) (b : Bool) (m : Mark) (t' : List Char) :
    leftCut cfg b m t' = if nextTf m then wsPre t' else nextK cfg b m t' := by
  cases m <;> rfl

theorem nextTf_k (cfg : Cfg) (b : Bool) (m : Mark) (t' : List Char) (h : nextTf m = true) :
    nextK cfg b m t' = 0 := by
  cases m <;> simp_all [nextTf, nextK]

theorem tailWs_eq (cfg : Cfg) (m : Mark) (t' more : List Char) (h : NoWsHead more) :
    tailWs cfg m.ws (t' ++ more) = (nextK cfg true m t', nextTf m) := by
  cases m <;> simp [tailWs, Mark.ws, nextK, nextTf, trimNl, nlLen_append _ _ h]

theorem contAfter_src (lead o : List Out) (preTag S X : List Char) (k : Nat) (tf : Bool) (hS : S ≠ []) :
    contAfter lead o preTag (S ++ X) (S.length + k) tf =
      .next (lead ++ o) ((X.take k).reverse ++ (S.reverse ++ preTag)) (X.drop k) tf := by
  unfold contAfter
  have : S.length + k ≠ 0 := by
    cases S with
    | nil => exact absurd rfl hS
    | cons a S => simp
  rw [if_neg this, List.take_length_add_append, List.drop_length_add_append]
  simp [List.reverse_append]

theorem drop_start_mark (start : List Char) (l : Mark) (y : List Char) :
    (start ++ (l.src ++ y)).drop (start.length + l.ws.len) = y := by
  rw [Mark.ws_len, ← List.append_assoc, ← List.length_append, List.drop_left]

theorem length_sub_right (a x : List Char) : (a ++ x).length - x.length = a.length := by simp

theorem handleTag_var (cfg : Cfg) {d : Delims} (g : Good d) (lead : List Out) (ts : List Tok) (l r : Mark)
    (preTag t' more : List Char)
    (hok : interiorOk d.ve 0 ts (r.src ++ (d.ve ++ (t' ++ more))) = true)
    (hclose : closeOk d.ve r (t' ++ more) = true) :
    handleTag cfg d lead .var (d.vs.length + l.ws.len) preTag
        ((Tag.mk (.var ts) l r).src d ++ (t' ++ more)) =
      .next (lead ++ [.var]) (((t').take (nextK cfg false r t')).reverse ++ (((Tag.mk (.var ts) l r).src d).reverse ++ preTag))
        ((t').drop (nextK cfg false r t') ++ more) (nextTf r) := by
  have hk : nextK cfg false r t' = 0 := by cases r <;> simp [nextK]
  obtain ⟨c, rr, hvs, _⟩ := startOk_cons g.vs
  have hne : (Tag.mk (.var ts) l r).src d ≠ [] := by simp [Tag.src, Tag.start, hvs]
  have hsrc : (Tag.mk (.var ts) l r).src d ++ (t' ++ more) =
      d.vs ++ (l.src ++ (srcs ts ++ (r.src ++ (d.ve ++ (t' ++ more))))) := by
    simp [Tag.src, Tag.start, Tag.after, List.append_assoc]
  have hlen : ((Tag.mk (.var ts) l r).src d).length =
      d.vs.length + l.ws.len + ((srcs ts).length + r.src.length + d.ve.length) := by
    simp [Tag.src, Tag.start, Tag.after, Mark.ws_len]; omega
  have hinner : (srcs ts ++ (r.src ++ (d.ve ++ (t' ++ more)))).length - (t' ++ more).length =
      (srcs ts).length + r.src.length + d.ve.length := by
    have := length_sub_right (srcs ts ++ (r.src ++ d.ve)) (t' ++ more)
    simp only [List.append_assoc] at this
    rw [this]; simp; omega
  unfold handleTag
  simp only []
  rw [hsrc, drop_start_mark, interior_end_found g.ve ts r _ hok hclose]
  simp only []
  rw [hinner, ← hsrc, ← hlen]
  have := contAfter_src lead [.var] preTag ((Tag.mk (.var ts) l r).src d) (t' ++ more) 0 (decide (r.ws = Ws.remove)) hne
  simp only [Nat.add_zero] at this
  rw [this, hk]
  cases r <;> simp [nextTf, Mark.ws]

theorem skipBasicTag_notRaw (s be : List Char)
    (h : startsWith rawName (s.dropWhile isAsciiWs) = false) : skipBasicTag s rawName be false = none := by
  simp [skipBasicTag, stripMarkerIf, h]

theorem handleTag_block (cfg : Cfg) {d : Delims} (g : Good d) (lead : List Out) (ts : List Tok) (l r : Mark)
    (preTag t' more : List Char) (hm : NoWsHead more)
    (hok : interiorOk d.be 0 ts (r.src ++ (d.be ++ (t' ++ more))) = true)
    (hclose : closeOk d.be r (t' ++ more) = true)
    (hraw : startsWith rawName ((srcs ts ++ (r.src ++ (d.be ++ (t' ++ more)))).dropWhile isAsciiWs) = false) :
    handleTag cfg d lead .block (d.bs.length + l.ws.len) preTag
        ((Tag.mk (.block ts) l r).src d ++ (t' ++ more)) =
      .next (lead ++ [.blk]) (((t').take (nextK cfg true r t')).reverse ++ (((Tag.mk (.block ts) l r).src d).reverse ++ preTag))
        ((t').drop (nextK cfg true r t') ++ more) (nextTf r) := by
  obtain ⟨c, rr, hbs, _⟩ := startOk_cons g.bs
  have hne : (Tag.mk (.block ts) l r).src d ≠ [] := by simp [Tag.src, Tag.start, hbs]
  have hsrc : (Tag.mk (.block ts) l r).src d ++ (t' ++ more) =
      d.bs ++ (l.src ++ (srcs ts ++ (r.src ++ (d.be ++ (t' ++ more))))) := by
    simp [Tag.src, Tag.start, Tag.after, List.append_assoc]
  have hlen : ((Tag.mk (.block ts) l r).src d).length =
      d.bs.length + l.ws.len + ((srcs ts).length + r.src.length + d.be.length) := by
    simp [Tag.src, Tag.start, Tag.after, Mark.ws_len]; omega
  have hinner : (srcs ts ++ (r.src ++ (d.be ++ (t' ++ more)))).length - (t' ++ more).length =
      (srcs ts).length + r.src.length + d.be.length := by
    have := length_sub_right (srcs ts ++ (r.src ++ d.be)) (t' ++ more)
    simp only [List.append_assoc] at this
    rw [this]; simp; omega
  unfold handleTag
  simp only []
  rw [hsrc, drop_start_mark, skipBasicTag_notRaw _ _ hraw, interior_end_found g.be ts r _ hok hclose]
  simp only []
  rw [hinner, ← hsrc, ← hlen, List.drop_left, tailWs_eq cfg r t' more hm]
  simp only []
  rw [contAfter_src lead [.blk] preTag _ (t' ++ more) _ _ hne]
  rw [List.take_append_of_le_length (nextK_le cfg true r t'), List.drop_append_of_le_length (nextK_le cfg true r t')]

theorem wsOfChar_comment_end (e cs body : List Char) (l r : Mark)
    (y : List Char) (hb : bodyEndOk body r = true) :
    (if body.length + r.src.length = 0 then Ws.dflt else
      wsOfChar ((cs ++ (l.src ++ (body ++ (r.src ++ (e ++ y))))).drop
        (body.length + r.src.length - 1 + (cs.length + l.ws.len))).head?) = r.ws := by
  have h : (cs ++ (l.src ++ (body ++ (r.src ++ (e ++ y))))).drop (cs.length + l.ws.len) =
      body ++ (r.src ++ (e ++ y)) := drop_start_mark cs l _
  rw [Nat.add_comm (body.length + r.src.length - 1), ← List.drop_drop, h]
  cases r with
  | minus =>
    have : body.length + Mark.minus.src.length - 1 = body.length := by simp [Mark.src]
    rw [this, List.drop_left]; simp [Mark.src, Mark.ws, wsOfChar]
  | plus =>
    have : body.length + Mark.plus.src.length - 1 = body.length := by simp [Mark.src]
    rw [this, List.drop_left]; simp [Mark.src, Mark.ws, wsOfChar]
  | none =>
    simp only [bodyEndOk, bne_self_eq_false, Bool.false_or] at hb
    cases hr : body.reverse with
    | nil =>
      have : body = [] := by simpa using hr
      subst this
      simp [Mark.src, Mark.ws]
    | cons c r' =>
      rw [hr] at hb
      have hbody : body = r'.reverse ++ [c] := by
        have := congrArg List.reverse hr; simpa using this
      have hc : c ≠ '-' ∧ c ≠ '+' := by simpa [isMarkChar] using hb
      have hn : body.length + Mark.none.src.length - 1 = r'.reverse.length := by
        rw [hbody]; simp [Mark.src]
      have hpos : ¬ (body.length + Mark.none.src.length = 0) := by
        rw [hbody]; simp
      rw [if_neg hpos, hn, hbody, List.append_assoc, List.drop_left]
      simp [Mark.ws, wsOfChar, hc.1, hc.2]

theorem handleTag_comment (cfg : Cfg) {d : Delims} (g : Good d) (lead : List Out) (body : List Char)
    (l r : Mark) (preTag t' more : List Char) (hm : NoWsHead more)
    (hce : noPatIn d.ce (body ++ r.src) (d.ce ++ (t' ++ more)) = true) (hb : bodyEndOk body r = true) :
    handleTag cfg d lead .comment (d.cs.length + l.ws.len) preTag
        ((Tag.mk (.comment body) l r).src d ++ (t' ++ more)) =
      .next (lead ++ []) (((t').take (nextK cfg true r t')).reverse ++ (((Tag.mk (.comment body) l r).src d).reverse ++ preTag))
        ((t').drop (nextK cfg true r t') ++ more) (nextTf r) := by
  obtain ⟨c, rr, hcs, _⟩ := startOk_cons g.cs
  have hce0 : d.ce ≠ [] := g.ce
  have hne : (Tag.mk (.comment body) l r).src d ≠ [] := by simp [Tag.src, Tag.start, hcs]
  have hsrc : (Tag.mk (.comment body) l r).src d ++ (t' ++ more) =
      d.cs ++ (l.src ++ (body ++ (r.src ++ (d.ce ++ (t' ++ more))))) := by
    simp [Tag.src, Tag.start, Tag.after, List.append_assoc]
  have hlen : ((Tag.mk (.comment body) l r).src d).length =
      d.cs.length + l.ws.len + (body.length + r.src.length) + d.ce.length := by
    simp [Tag.src, Tag.start, Tag.after, Mark.ws_len]; omega
  have hfind : findSub d.ce (body ++ (r.src ++ (d.ce ++ (t' ++ more)))) = some (body.length + r.src.length) := by
    have := findSub_body d.ce hce0 (body ++ r.src) (t' ++ more) hce
    simpa [List.append_assoc] using this
  unfold handleTag
  simp only []
  rw [hsrc, drop_start_mark, hfind]
  simp only []
  rw [wsOfChar_comment_end d.ce _ _ _ _ _ hb, ← hsrc, ← hlen, List.drop_left, tailWs_eq cfg r t' more hm]
  simp only []
  rw [contAfter_src lead [] preTag _ (t' ++ more) _ _ hne]
  rw [List.take_append_of_le_length (nextK_le cfg true r t'), List.drop_append_of_le_length (nextK_le cfg true r t')]

/-- source of a raw tag up to and including the end of `{% raw %}` -/
def rawOpen (d : Delims) (tight : Bool) (l ri : Mark) : List Char :=
  d.bs ++ (l.src ++ (rawBody tight ++ (ri.src ++ d.be)))

theorem lastOk_rev {e : List Char} (h : lastOk e = true) :
    ∃ u c r, e.reverse = u ++ c :: r ∧ (∀ x ∈ u, isHws x = true) ∧ isWs c = false := by
  unfold lastOk at h
  have hsplit := List.takeWhile_append_dropWhile (p := isHws) (l := e.reverse)
  cases hr : e.reverse.dropWhile isHws with
  | nil => simp [hr] at h
  | cons c r =>
    rw [hr] at hsplit
    refine ⟨e.reverse.takeWhile isHws, c, r, hsplit.symm, ?_, by simpa [hr] using h⟩
    intro x hx
    exact mem_takeWhile_sat hx

theorem rawData_eq (cfg : Cfg) (ri l2 : Mark) (preRaw c : List Char) (hc : CtxOk false preRaw) :
    rawData cfg ri.ws l2.ws preRaw c = cut (leftCut cfg true ri c) (rightCut cfg false true l2 c) c := by
  have h1 : rawData cfg ri.ws l2.ws preRaw c =
      leadOf cfg l2.ws .block (c.reverse ++ preRaw) (c.drop (leftCut cfg true ri c)) := by
    cases ri <;> cases l2 <;>
      simp [rawData, leadOf, Mark.ws, leftCut, trimNl, shouldLstrip, dropWhile_eq_drop]
  rw [h1, leadOf_eq_cut cfg c (Or.inl hc) l2 .block true rfl (by simp) (by simp)]

theorem handleTag_raw (cfg : Cfg) {d : Delims} (g : Good d) (lead : List Out) (c : List Char)
    (ri l2 : Mark) (tight : Bool) (l r : Mark) (preTag t' more : List Char) (hm : NoWsHead more)
    (hfree : rawFree d (Tag.mk (.raw c ri l2 tight) l r) (t' ++ more) = true)
    (hc1 : closeOk d.be ri (c ++ ((Tag.mk (.raw c ri l2 tight) l r).rawClose d ++ (t' ++ more))) = true)
    (hc2 : closeOk d.be r (t' ++ more) = true) :
    handleTag cfg d lead .block (d.bs.length + l.ws.len) preTag
        ((Tag.mk (.raw c ri l2 tight) l r).src d ++ (t' ++ more)) =
      .next (lead ++ [.data (cut (leftCut cfg true ri c) (rightCut cfg false true l2 c) c)])
        (((t').take (nextK cfg true r t')).reverse ++ (((Tag.mk (.raw c ri l2 tight) l r).src d).reverse ++ preTag))
        ((t').drop (nextK cfg true r t') ++ more) (nextTf r) := by
  obtain ⟨c0, rr, hbs, _⟩ := startOk_cons g.bs
  have hne : (Tag.mk (.raw c ri l2 tight) l r).src d ≠ [] := by simp [Tag.src, Tag.start, hbs]
  generalize hX : t' ++ more = X
  -- the closing tag and what follows
  generalize hZ : d.bs ++ (l2.src ++ (endrawBody tight ++ (r.src ++ (d.be ++ X)))) = Z
  have hsrc : (Tag.mk (.raw c ri l2 tight) l r).src d ++ X =
      d.bs ++ (l.src ++ (rawBody tight ++ (ri.src ++ (d.be ++ (c ++ Z))))) := by
    simp [Tag.src, Tag.start, Tag.after, List.append_assoc, ← hZ]
  have hsrc2 : (Tag.mk (.raw c ri l2 tight) l r).src d ++ X = rawOpen d tight l ri ++ (c ++ Z) := by
    rw [hsrc]; simp [rawOpen, List.append_assoc]
  have hopen : (rawOpen d tight l ri).length = d.bs.length + l.ws.len + ((rawBody tight).length + ri.src.length + d.be.length) := by
    simp [rawOpen, Mark.ws_len]; omega
  have hlen : ((Tag.mk (.raw c ri l2 tight) l r).src d).length =
      (rawOpen d tight l ri).length + c.length +
        (d.bs.length + (l2.src.length + (endrawBody tight).length + r.src.length + d.be.length)) := by
    simp [Tag.src, Tag.start, Tag.after, rawOpen]; omega
  have hfree' : noBsIn d c Z = true := by
    simpa [rawFree, Tag.rawClose, ← hZ, ← hX, List.append_assoc] using hfree
  have hc1' : closeOk d.be ri (c ++ Z) = true := by
    simpa [Tag.rawClose, ← hZ, ← hX, List.append_assoc] using hc1
  have hfind := findEndraw_content g c tight l2 r X (by rw [← hX]; exact hc2) (by rw [hZ]; exact hfree')
  rw [hZ] at hfind
  unfold handleTag
  simp only []
  rw [hsrc, drop_start_mark, skipBasicTag_raw g.be tight ri (c ++ Z) hc1']
  simp only []
  rw [← hsrc, hsrc2, ← hopen, List.drop_left, List.take_left, hfind]
  simp only []
  rw [List.take_left, ← hsrc2, ← hlen, List.drop_left, ← hX, tailWs_eq cfg r t' more hm]
  simp only []
  rw [contAfter_src lead _ preTag _ (t' ++ more) _ _ hne]
  rw [List.take_append_of_le_length (nextK_le cfg true r t'), List.drop_append_of_le_length (nextK_le cfg true r t')]
  rw [rawData_eq]
  obtain ⟨ue, ce, re, hre, hue, hw⟩ := lastOk_rev g.lbe
  refine Or.inr ⟨rfl, ue, ce, re ++ ((d.bs ++ (l.src ++ (rawBody tight ++ ri.src))).reverse ++ preTag), ?_, hue, hw⟩
  simp [rawOpen, List.reverse_append, hre, List.append_assoc]

/-! ### line statements and line comments -/

/-- characters skipped right behind the tag `g` -/
def nextKG (cfg : Cfg) (g : Tag) (t' : List Char) : Nat :=
  match g.kind with
  | .lineStmt _ => lineCut t'
  | _ => nextK (cfgFor cfg g) g.blockish g.r t'

theorem lineCut_le (t : List Char) : lineCut t ≤ t.length := by
  unfold lineCut
  have h1 := List.takeWhile_append_dropWhile (p := isHws) (l := t)
  have h2 := nlLen_le (t.dropWhile isHws)
  have : t.length = (t.takeWhile isHws).length + (t.dropWhile isHws).length := by
    have := congrArg List.length h1
    rw [List.length_append] at this
    exact this.symm
  omega

theorem nextKG_le (cfg : Cfg) (g : Tag) (t' : List Char) : nextKG cfg g t' ≤ t'.length := by
  cases g with
  | mk kind l r =>
    cases kind <;> first | exact nextK_le _ _ _ _ | exact lineCut_le _

theorem leftCutG_eq (cfg : Cfg) (g : Tag) (t' : List Char) (hr : g.isLine = true → g.r = .none) :
    leftCutG cfg g t' = if nextTf g.r then wsPre t' else nextKG cfg g t' := by
  cases g with
  | mk kind l r =>
    cases kind with
    | lineStmt ts =>
      have : r = .none := hr rfl
      subst this
      simp [leftCutG, nextKG, nextTf]
    | var ts => exact leftCut_eq _ _ _ _
    | block ts => exact leftCut_eq _ _ _ _
    | comment b => exact leftCut_eq _ _ _ _
    | raw c ri l2 tight => exact leftCut_eq _ _ _ _
    | lineComment b => exact leftCut_eq _ _ _ _

theorem nextTf_kG (cfg : Cfg) (g : Tag) (t' : List Char) (hr : g.isLine = true → g.r = .none)
    (h : nextTf g.r = true) : nextKG cfg g t' = 0 := by
  cases g with
  | mk kind l r =>
    cases kind with
    | lineStmt ts =>
      have : r = .none := hr rfl
      subst this
      simp [nextTf] at h
    | var ts => exact nextTf_k _ _ _ _ h
    | block ts => exact nextTf_k _ _ _ _ h
    | comment b => exact nextTf_k _ _ _ _ h
    | raw c ri l2 tight => exact nextTf_k _ _ _ _ h
    | lineComment b => exact nextTf_k _ _ _ _ h

theorem dropWhile_hws_append (t more : List Char) (h : NoWsHead more) :
    (t ++ more).dropWhile isHws = t.dropWhile isHws ++ more := by
  induction t with
  | nil =>
    rcases h with rfl | ⟨c, r, rfl, hw⟩
    · rfl
    · simp [List.dropWhile_cons, isHws, hw]
  | cons a t ih =>
    simp only [List.cons_append, List.dropWhile_cons, ih]
    split <;> rfl

theorem takeWhile_hws_append (t more : List Char) (h : NoWsHead more) :
    (t ++ more).takeWhile isHws = t.takeWhile isHws := by
  induction t with
  | nil =>
    rcases h with rfl | ⟨c, r, rfl, hw⟩
    · rfl
    · simp [List.takeWhile_cons, isHws, hw]
  | cons a t ih =>
    simp only [List.cons_append, List.takeWhile_cons, ih]

theorem lineCut_append (t more : List Char) (h : NoWsHead more) : lineCut (t ++ more) = lineCut t := by
  unfold lineCut
  rw [takeWhile_hws_append t more h, dropWhile_hws_append t more h, nlLen_append _ _ h]

theorem handleTag_lineStmt (cfg : Cfg) {d : Delims} (lead : List Out) (ts : List Tok)
    (preTag t' more : List Char) (hm : NoWsHead more) (hls : d.ls ≠ [])
    (hok : lineInteriorOk 0 ts (t' ++ more) = true) (hf : lineFollow (t' ++ more) = true) :
    handleTag cfg d lead .lineStmt (d.ls.length + Ws.dflt.len) preTag
        ((Tag.mk (.lineStmt ts) .none .none).src d ++ (t' ++ more)) =
      .next (lead ++ [.blk]) (((t').take (lineCut t')).reverse ++ (((Tag.mk (.lineStmt ts) .none .none).src d).reverse ++ preTag))
        ((t').drop (lineCut t') ++ more) false := by
  have hne : (Tag.mk (.lineStmt ts) .none .none).src d ≠ [] := by
    simp [Tag.src, Tag.start, hls]
  have hsrc : (Tag.mk (.lineStmt ts) .none .none).src d ++ (t' ++ more) = d.ls ++ (srcs ts ++ (t' ++ more)) := by
    simp [Tag.src, Tag.start, Tag.after, List.append_assoc]
  have hlen : ((Tag.mk (.lineStmt ts) .none .none).src d).length = d.ls.length + (srcs ts).length := by
    simp [Tag.src, Tag.start, Tag.after]
  have hcut : lineCut (t' ++ more) = lineCut t' := lineCut_append t' more hm
  have hle := lineCut_le t'
  have hinner : (srcs ts ++ (t' ++ more)).length - ((t' ++ more).drop (lineCut (t' ++ more))).length =
      (srcs ts).length + lineCut t' := by
    rw [hcut]; simp only [List.length_append, List.length_drop]; omega
  unfold handleTag
  simp only [Ws.len, Nat.add_zero]
  rw [hsrc, List.drop_left, line_interior_end_found ts _ hok hf]
  simp only []
  rw [hinner, ← hsrc, ← Nat.add_assoc, ← hlen]
  rw [contAfter_src lead [.blk] preTag _ (t' ++ more) _ _ hne]
  rw [List.take_append_of_le_length hle, List.drop_append_of_le_length hle]

theorem takeWhile_not_nl (body rest : List Char) (hb : ∀ c ∈ body, isNl c = false)
    (hr : commentFollow rest = true) :
    (body ++ rest).takeWhile (fun c => !isNl c) = body := by
  induction body with
  | nil =>
    cases rest with
    | nil => rfl
    | cons c r =>
      simp only [commentFollow] at hr
      simp [List.takeWhile_cons, hr]
  | cons a body ih =>
    simp only [List.cons_append, List.takeWhile_cons, hb a (by simp), Bool.not_false, if_true]
    rw [ih (fun x hx => hb x (by simp [hx]))]

theorem handleTag_lineComment (cfg : Cfg) {d : Delims} (lead : List Out) (body : List Char)
    (preTag t' more : List Char) (hm : NoWsHead more) (hlc : d.lc ≠ [])
    (hb : ∀ c ∈ body, isNl c = false) (hf : commentFollow (t' ++ more) = true) :
    handleTag cfg d lead .lineComment (d.lc.length + Ws.dflt.len) preTag
        ((Tag.mk (.lineComment body) .none .none).src d ++ (t' ++ more)) =
      .next (lead ++ []) (((t').take (nlLen t')).reverse ++ (((Tag.mk (.lineComment body) .none .none).src d).reverse ++ preTag))
        ((t').drop (nlLen t') ++ more) false := by
  have hne : (Tag.mk (.lineComment body) .none .none).src d ≠ [] := by
    simp [Tag.src, Tag.start, hlc]
  have hsrc : (Tag.mk (.lineComment body) .none .none).src d ++ (t' ++ more) = d.lc ++ (body ++ (t' ++ more)) := by
    simp [Tag.src, Tag.start, Tag.after, List.append_assoc]
  have hlen : ((Tag.mk (.lineComment body) .none .none).src d).length = d.lc.length + body.length := by
    simp [Tag.src, Tag.start, Tag.after]
  have hle := nlLen_le t'
  unfold handleTag
  simp only [Ws.len, Nat.add_zero]
  rw [hsrc, List.drop_left, takeWhile_not_nl body _ hb hf, List.drop_left]
  simp only [skipNl]
  rw [nlLen_append _ _ hm, ← hsrc, ← hlen]
  rw [contAfter_src lead [] preTag _ (t' ++ more) _ _ hne]
  rw [List.take_append_of_le_length hle, List.drop_append_of_le_length hle]

end MJ.Lexer
