import MJ.Proofs.JsonFull
/-! The float printer (`f64Text`) always yields a JSON number token (C16). -/
namespace MJ.Json

def AllDig (l : List Char) : Prop := ∀ c ∈ l, isDigit c = true
def AllNum (l : List Char) : Prop := ∀ c ∈ l, isNumChar c = true

theorem allNum_of_allDig (l : List Char) (h : AllDig l) : AllNum l := by
  intro c hc; simp [isNumChar, h c hc]

theorem allNum_append (a b : List Char) (ha : AllNum a) (hb : AllNum b) : AllNum (a ++ b) := by
  intro c hc
  simp only [List.mem_append] at hc
  rcases hc with hc | hc
  · exact ha c hc
  · exact hb c hc

theorem allNum_cons (c : Char) (l : List Char) (hc : isNumChar c = true) (hl : AllNum l) : AllNum (c :: l) := by
  intro x hx
  simp only [List.mem_cons] at hx
  rcases hx with rfl | hx
  · exact hc
  · exact hl x hx

theorem allDig_zeros (n : Nat) : AllDig (zeros n) := by
  intro c hc
  simp only [zeros, List.mem_replicate] at hc
  rw [hc.2]; decide

theorem allDig_append (a b : List Char) (ha : AllDig a) (hb : AllDig b) : AllDig (a ++ b) := by
  intro c hc
  simp only [List.mem_append] at hc
  rcases hc with hc | hc
  · exact ha c hc
  · exact hb c hc

theorem allDig_take (n : Nat) (l : List Char) (h : AllDig l) : AllDig (l.take n) :=
  fun c hc => h c (List.mem_of_mem_take hc)

theorem allDig_drop (n : Nat) (l : List Char) (h : AllDig l) : AllDig (l.drop n) :=
  fun c hc => h c (List.mem_of_mem_drop hc)

/-- digits, then something that does not start with a digit -/
theorem spanDigits_append (a : List Char) (c : Char) (b : List Char) (ha : AllDig a) (hc : isDigit c = false) :
    spanDigits (a ++ c :: b) = (a, c :: b) := by
  induction a with
  | nil => simp [spanDigits, hc]
  | cons x xs ih =>
    have hx := ha x (by simp)
    simp [spanDigits, hx, ih (fun y hy => ha y (by simp [hy]))]

theorem allDig_natDigits (n : Nat) : AllDig (natDigits n) := (natDigits_spec n).1

theorem validExp_intDigits (x : Int) : validExp (intDigits x) = true := by
  unfold intDigits
  obtain ⟨hall, d, ds, hd, _, _⟩ := natDigits_spec x.natAbs
  have hdd : isDigit d = true := hall d (by rw [hd]; simp)
  have hp : d ≠ '+' := by intro e; subst e; simp [isDigit] at hdd
  have hm : d ≠ '-' := by intro e; subst e; simp [isDigit] at hdd
  have hne : natDigits x.natAbs ≠ [] := by rw [hd]; simp
  by_cases hx : x < 0
  · rw [if_pos hx]
    simp only [validExp, or_true, if_true]
    rw [spanDigits_all _ hall]
    simp [hne]
  · rw [if_neg hx, hd]
    simp only [validExp, hp, hm, or_self, if_false]
    rw [← hd, spanDigits_all _ hall]
    simp [hne]

theorem validFracExp_e (x : Int) : validFracExp ('e' :: intDigits x) = true := by
  simp [validFracExp, validExpOpt, validExp_intDigits]

theorem layoutF_eq (sign ds : List Char) (k : Int) : layoutF sign ds k =
    if 0 ≤ k ∧ (ds.length : Int) + k ≤ 16 then sign ++ (ds ++ (zeros k.natAbs ++ ['.', '0']))
    else if 0 < (ds.length : Int) + k ∧ (ds.length : Int) + k ≤ 16 then
      sign ++ (ds.take ((ds.length : Int) + k).natAbs ++ ('.' :: ds.drop ((ds.length : Int) + k).natAbs))
    else if -5 < (ds.length : Int) + k ∧ (ds.length : Int) + k ≤ 0 then
      sign ++ ('0' :: '.' :: (zeros ((ds.length : Int) + k).natAbs ++ ds))
    else if ds.length = 1 then sign ++ (ds ++ ('e' :: intDigits ((ds.length : Int) + k - 1)))
    else sign ++ (ds.take 1 ++ ('.' :: (ds.drop 1 ++ ('e' :: intDigits ((ds.length : Int) + k - 1))))) := rfl

/-- the five layouts of `format64`, for digits without a leading zero: a valid number that starts
with a digit -/
theorem validBody_layout (d : Char) (ds' : List Char) (k : Int) (hd : isDigit d = true) (hnz : d ≠ '0')
    (hds : AllDig ds') :
    validBody (layoutF [] (d :: ds') k) = true ∧ ∃ c r, layoutF [] (d :: ds') k = c :: r ∧ isDigit c = true := by
  have hall : AllDig (d :: ds') := by
    intro c hc
    simp only [List.mem_cons] at hc
    rcases hc with rfl | hc
    · exact hd
    · exact hds c hc
  rw [layoutF_eq]
  simp only [List.nil_append]
  by_cases h1 : 0 ≤ k ∧ ((d :: ds').length : Int) + k ≤ 16
  · -- digits, zeros, ".0"
    rw [if_pos h1]
    refine ⟨?_, d, _, rfl, hd⟩
    simp only [List.cons_append, validBody, hnz, if_false, hd, if_true]
    have : ds' ++ (zeros k.natAbs ++ ['.', '0']) = (ds' ++ zeros k.natAbs) ++ '.' :: ['0'] := by simp
    rw [this, spanDigits_append _ '.' _ (allDig_append _ _ hds (allDig_zeros _)) (by decide)]
    show validFracExp ['.', '0'] = true
    decide
  · rw [if_neg h1]
    by_cases h2 : 0 < ((d :: ds').length : Int) + k ∧ ((d :: ds').length : Int) + k ≤ 16
    · -- decimal point inside
      rw [if_pos h2]
      generalize hm : (((d :: ds').length : Int) + k).natAbs = m
      have hm2 : m < (d :: ds').length := by omega
      cases m with
      | zero => omega
      | succ m' =>
        refine ⟨?_, d, List.take m' ds' ++ '.' :: List.drop m' ds', by simp, hd⟩
        simp only [List.take_succ_cons, List.drop_succ_cons, List.cons_append, validBody, hnz, if_false, hd, if_true]
        rw [spanDigits_append _ '.' _ (allDig_take _ _ hds) (by decide)]
        simp only [validFracExp, if_true]
        rw [spanDigits_all _ (allDig_drop _ _ hds)]
        have hne : ds'.drop m' ≠ [] := by
          intro h
          have := List.drop_eq_nil_iff.mp h
          simp only [List.length_cons] at hm2
          omega
        simp [validExpOpt, hne]
    · rw [if_neg h2]
      by_cases h3 : -5 < ((d :: ds').length : Int) + k ∧ ((d :: ds').length : Int) + k ≤ 0
      · -- "0.000ddd"
        rw [if_pos h3]
        refine ⟨?_, '0', _, rfl, by decide⟩
        simp only [validBody, if_true, validFracExp]
        rw [spanDigits_all _ (allDig_append _ _ (allDig_zeros _) hall)]
        simp [validExpOpt]
      · rw [if_neg h3]
        by_cases h4 : (d :: ds').length = 1
        · -- "de±x"
          rw [if_pos h4]
          have hnil : ds' = [] := by
            simp only [List.length_cons] at h4
            exact List.eq_nil_of_length_eq_zero (by omega)
          subst hnil
          refine ⟨?_, d, _, rfl, hd⟩
          simp only [List.cons_append, List.nil_append, validBody, hnz, if_false, hd, if_true]
          have : ∀ (l : List Char), spanDigits ('e' :: l) = ([], 'e' :: l) := by
            intro l; simp [spanDigits, isDigit]
          rw [this]
          exact validFracExp_e _
        · -- "d.ddde±x"
          rw [if_neg h4]
          have hne : ds' ≠ [] := by
            intro h; subst h; simp at h4
          refine ⟨?_, d, '.' :: (ds' ++ 'e' :: intDigits (((d :: ds').length : Int) + k - 1)), by simp, hd⟩
          simp only [List.take_succ_cons, List.take_zero, List.drop_succ_cons, List.drop_zero, List.cons_append,
            List.nil_append, validBody, hnz, if_false, hd, if_true]
          have h1' : ∀ (l : List Char), spanDigits ('.' :: l) = ([], '.' :: l) := by
            intro l; simp [spanDigits, isDigit]
          rw [h1']
          simp only [validFracExp, if_true]
          rw [spanDigits_append _ 'e' _ hds (by decide)]
          simp [validExpOpt, validExp_intDigits, hne]

theorem allNum_layout (sign ds : List Char) (k : Int) (hs : AllNum sign) (hds : AllDig ds) :
    AllNum (layoutF sign ds k) := by
  have hn := allNum_of_allDig ds hds
  have hexp : ∀ x, AllNum ('e' :: intDigits x) := fun x =>
    allNum_cons _ _ (by decide) (tokOK_intDigits x).2.1
  have hdot0 : AllNum ['.', '0'] := by
    intro c hc; simp at hc; rcases hc with rfl | rfl <;> decide
  rw [layoutF_eq]
  by_cases h1 : 0 ≤ k ∧ (ds.length : Int) + k ≤ 16
  · rw [if_pos h1]
    exact allNum_append _ _ hs (allNum_append _ _ hn (allNum_append _ _ (allNum_of_allDig _ (allDig_zeros _)) hdot0))
  · rw [if_neg h1]
    by_cases h2 : 0 < (ds.length : Int) + k ∧ (ds.length : Int) + k ≤ 16
    · rw [if_pos h2]
      exact allNum_append _ _ hs (allNum_append _ _ (allNum_of_allDig _ (allDig_take _ _ hds))
        (allNum_cons _ _ (by decide) (allNum_of_allDig _ (allDig_drop _ _ hds))))
    · rw [if_neg h2]
      by_cases h3 : -5 < (ds.length : Int) + k ∧ (ds.length : Int) + k ≤ 0
      · rw [if_pos h3]
        exact allNum_append _ _ hs (allNum_cons _ _ (by decide) (allNum_cons _ _ (by decide)
          (allNum_append _ _ (allNum_of_allDig _ (allDig_zeros _)) hn)))
      · rw [if_neg h3]
        by_cases h4 : ds.length = 1
        · rw [if_pos h4]
          exact allNum_append _ _ hs (allNum_append _ _ hn (hexp _))
        · rw [if_neg h4]
          exact allNum_append _ _ hs (allNum_append _ _ (allNum_of_allDig _ (allDig_take _ _ hds))
            (allNum_cons _ _ (by decide) (allNum_append _ _ (allNum_of_allDig _ (allDig_drop _ _ hds)) (hexp _))))

theorem layoutF_sign (sign ds : List Char) (k : Int) : layoutF sign ds k = sign ++ layoutF [] ds k := by
  rw [layoutF_eq, layoutF_eq]
  simp only [List.nil_append]
  by_cases h1 : 0 ≤ k ∧ (ds.length : Int) + k ≤ 16
  · rw [if_pos h1, if_pos h1]
  · rw [if_neg h1, if_neg h1]
    by_cases h2 : 0 < (ds.length : Int) + k ∧ (ds.length : Int) + k ≤ 16
    · rw [if_pos h2, if_pos h2]
    · rw [if_neg h2, if_neg h2]
      by_cases h3 : -5 < (ds.length : Int) + k ∧ (ds.length : Int) + k ≤ 0
      · rw [if_pos h3, if_pos h3]
      · rw [if_neg h3, if_neg h3]
        by_cases h4 : ds.length = 1
        · rw [if_pos h4, if_pos h4]
        · rw [if_neg h4, if_neg h4]

theorem shortestFrom_pos (lo v hi den : Nat) (closed : Bool) (fuel : Nat) (k : Int) :
    1 ≤ (shortestFrom lo v hi den closed fuel k).1 := by
  induction fuel generalizing k with
  | zero => simp [shortestFrom]
  | succ f ih =>
    simp only [shortestFrom]
    split
    · exact Nat.le_max_left 1 _
    · exact ih (k - 1)

theorem shortestDec_pos (bits : Nat) : 1 ≤ (shortestDec bits).1 := by
  unfold shortestDec
  exact shortestFrom_pos _ _ _ _ _ _ _

theorem f64Text_eq (bits : Nat) : f64Text bits =
    if bits % 9223372036854775808 = 0 then (if bits / 9223372036854775808 % 2 = 1 then ['-'] else []) ++ ['0', '.', '0']
    else layoutF (if bits / 9223372036854775808 % 2 = 1 then ['-'] else []) (natDigits (shortestDec bits).1)
      (shortestDec bits).2 := rfl

/-- the text printed for a float is a JSON number token the reader takes back unchanged -/
theorem tokOK_f64Text (bits : Nat) : tokOK (f64Text bits) := by
  rw [f64Text_eq]
  have hsign : ∀ (body : List Char) (c : Char) (r : List Char), body = c :: r → isDigit c = true →
      validBody body = true → AllNum body →
      tokOK ((if bits / 9223372036854775808 % 2 = 1 then ['-'] else []) ++ body) := by
    intro body c r hb hc hv hn
    have hminus : c ≠ '-' := by intro e; subst e; simp [isDigit] at hc
    by_cases hs : bits / 9223372036854775808 % 2 = 1
    · rw [if_pos hs]
      exact ⟨by simp [validNum, hv], allNum_cons _ _ (by decide) hn, by simp⟩
    · rw [if_neg hs, List.nil_append]
      refine ⟨?_, hn, by simp [hb]⟩
      rw [hb]
      simp only [validNum, hminus, if_false]
      rw [← hb]; exact hv
  by_cases hz : bits % 9223372036854775808 = 0
  · rw [if_pos hz]
    exact hsign ['0', '.', '0'] '0' ['.', '0'] rfl (by decide) (by decide)
      (by intro c hc; simp at hc; rcases hc with rfl | rfl | rfl <;> decide)
  · rw [if_neg hz]
    obtain ⟨hall, d, ds', hd, _, hnz⟩ := natDigits_spec (shortestDec bits).1
    have hdd : isDigit d = true := hall d (by rw [hd]; simp)
    have hds : AllDig ds' := fun c hc => hall c (by rw [hd]; simp [hc])
    have hnz' : d ≠ '0' := hnz (shortestDec_pos bits)
    rw [layoutF_sign, hd]
    obtain ⟨hv, c, r, hcr, hc⟩ := validBody_layout d ds' (shortestDec bits).2 hdd hnz' hds
    have hn := allNum_layout [] (d :: ds') (shortestDec bits).2 (by intro c hc; simp at hc) (by rw [← hd]; exact hall)
    exact hsign _ c r hcr hc hv hn

end MJ.Json
