import MJ.Model.FuelProg
import MJ.Proofs.Fuel
import MJ.Proofs.FuelMachine
/-! Lemmas for `MJ/Model/FuelProg.lean`. -/
namespace MJ.Fuel
open Tracker

/-! ## costs are 0 or 1 -/

theorem lookup_le_one (l : List (String × Nat)) (h : l.all (fun r => r.2 ≤ 1) = true) (n : String) (c : Nat)
    (hl : l.lookup n = some c) : c ≤ 1 := by
  induction l with
  | nil => simp [List.lookup] at hl
  | cons x rest ih =>
    simp only [List.all_cons, Bool.and_eq_true, decide_eq_true_eq] at h
    simp only [List.lookup] at hl
    split at hl
    · injection hl with e; omega
    · exact ih h.2 hl

theorem costOf_le_one (hT : MJ.Gen.fuelCosts.all (fun r => r.2 ≤ 1) = true) (hD : MJ.Gen.fuelCostDefault ≤ 1) (n : String) :
    costOf n ≤ 1 := by
  unfold costOf
  split
  · next c hc => exact lookup_le_one _ hT n c hc
  · exact hD

theorem total_le_length (hc : ∀ n, costOf n ≤ 1) (trace : List String) : total trace ≤ trace.length := by
  induction trace with
  | nil => simp [total]
  | cons i rest ih =>
    have := hc i
    simp only [total, List.length_cons]
    omega

/-! ## tracker policies -/

theorem runTreeP_share (t : Tracker) (e : PEvs) (h : e.allShare = true) : runTreeP t e = runTree t e.erase := by
  induction e generalizing t with
  | nil => rfl
  | instr n r ih =>
    simp only [PEvs.allShare] at h
    simp only [runTreeP, PEvs.erase, runTree]
    cases t.track (costOf n) with
    | outOfFuel t' => rfl
    | ok t' => simp only [ih t' h]
  | call n pol sub r ihs ihr =>
    simp only [PEvs.allShare, Bool.and_eq_true, beq_iff_eq] at h
    obtain ⟨⟨hp, hs⟩, hr⟩ := h
    subst hp
    simp only [runTreeP, PEvs.erase, runTree]
    cases t.track (costOf n) with
    | outOfFuel t' => rfl
    | ok t' =>
      simp only [ihs t' hs]
      cases (runTree t' sub.erase).status with
      | outOfFuel => rfl
      | done => simp only [ihr _ hr]

/-! ## structured programs -/

theorem chain_total (l : List (List String × Bool)) :
    chainN (l.map fun x => (total x.1, x.2)) = (total (chain l).1, (chain l).2) := by
  induction l with
  | nil => simp [chain, chainN, total]
  | cons x rest ih =>
    obtain ⟨t, b⟩ := x
    cases b with
    | false => simp [chain, chainN]
    | true =>
      simp only [List.map_cons, chainN, chain, ih, total_append]

theorem cost_eq (c : Ctx) (path : List Nat) (p : P) :
    cost c path p = (total (exec c path p).1, (exec c path p).2) := by
  induction p generalizing path with
  | skip => simp [cost, exec, total]
  | instr n => simp [cost, exec, total]
  | mayFail n id => simp [cost, exec, total]
  | seq a b iha ihb =>
    simp only [cost, exec]
    rw [← chain_total]
    simp only [List.map_cons, List.map_nil, iha, ihb]
  | loop id head iter body back exit ih =>
    simp only [cost, exec]
    rw [← chain_total]
    simp only [List.map_cons, List.map_append, List.map_map, List.map_nil]
    congr 2
    congr 1
    apply List.map_congr_left
    intro i _
    simp only [Function.comp]
    rw [← chain_total]
    simp only [List.map_cons, List.map_nil, ih]
  | branch id a b iha ihb =>
    simp only [cost, exec]
    split
    · exact iha path
    · exact ihb path

theorem afterP_cost (c : Ctx) (path : List Nat) (l : List String) : cost c path (afterP l) = (total l, true) := by
  induction l with
  | nil => simp [afterP, cost, total]
  | cons i rest ih => simp [afterP, cost, chainN, ih, total]

/-- cost of `n` iterations each costing `k` and ending normally, followed by `rest` -/
theorem chainN_replicate (n k : Nat) (rest : List (Nat × Bool)) :
    chainN (List.replicate n (k, true) ++ rest) = (n * k + (chainN rest).1, (chainN rest).2) := by
  induction n with
  | zero => simp
  | succ m ih =>
    simp only [List.replicate_succ, List.cons_append, chainN, ih]
    congr 1
    rw [Nat.succ_mul]
    omega

theorem map_const_replicate {α β : Type} (l : List α) (f : α → β) (b : β) (h : ∀ a ∈ l, f a = b) :
    l.map f = List.replicate l.length b := by
  induction l with
  | nil => rfl
  | cons x rest ih =>
    simp only [List.map_cons, List.length_cons, List.replicate_succ]
    rw [h x (by simp), ih (fun a ha => h a (by simp [ha]))]

end MJ.Fuel
