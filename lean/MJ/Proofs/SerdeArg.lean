import MJ.Model.SerdeArg
import MJ.Proofs.SerdeRT
/-! `Serde<T>` arguments: the round trip through a call (C16). -/
namespace MJ.Serde

/-- a serialised value handed to a function / filter / test / method as `Serde<T>` arrives as the
original datum -/
theorem arg_roundtrip (s : Shape) (d : D) (h : wf s d = true) : argConv s (.value (ser s d)) = .ok d := by
  simp only [argConv, rt s d h]

/-- an argument of type `Serde<T>` is never silently taken from the keyword arguments or from nothing -/
theorem arg_needs_value (s : Shape) : argConv s .missing = .error .missingArgument ∧ argConv s .kwargs = .error .invalidOperation :=
  ⟨rfl, rfl⟩

/-- for `Option<Serde<T>>` the round trip holds for every type that cannot serialise to `none` -/
theorem arg_opt_roundtrip (s : Shape) (d : D) (hs : mayBeNone s = false) (h : wf s d = true) :
    argConvOpt s (.value (ser s d)) = .ok (some d) := by
  obtain ⟨h1, h2⟩ := ser_notNone s d hs h
  have hr := arg_roundtrip s d h
  unfold argConvOpt
  split
  · rename_i heq; cases heq
  · rename_i heq; injection heq with heq; exact absurd heq h1
  · rename_i heq; injection heq with heq; exact absurd heq h2
  · rw [hr]

end MJ.Serde
